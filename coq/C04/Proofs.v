(* C04 — lemmas about the file-level model (coq/C04/Model.v). *)
From Coq Require Import ZArith List Bool Arith Lia.
From IBL.C04 Require Import Model.
Import ListNotations.

(* ---- decidable equalities ---------------------------------------------------- *)
Lemma etype_eqb_eq : forall a b, etype_eqb a b = true <-> a = b.
Proof. destruct a, b; cbn; split; intros; congruence. Qed.
Lemma fkind_eqb_eq : forall a b, fkind_eqb a b = true <-> a = b.
Proof. destruct a, b; cbn; split; intros; congruence. Qed.
Lemma owner_eqb_eq : forall a b, owner_eqb a b = true <-> a = b.
Proof.
  destruct a, b; cbn; split; intros H; try congruence.
  - apply andb_true_iff in H as [H1 H2]. apply Nat.eqb_eq in H1. apply etype_eqb_eq in H2. congruence.
  - inversion H; subst. rewrite Nat.eqb_refl. cbn. apply etype_eqb_eq; reflexivity.
Qed.
Lemma path_eqb_eq : forall a b, path_eqb a b = true <-> a = b.
Proof.
  destruct a, b; cbn; split; intros H; try congruence.
  - apply Nat.eqb_eq in H. congruence.
  - inversion H. apply Nat.eqb_refl.
  - apply andb_true_iff in H as [H1 H2]. apply owner_eqb_eq in H1. apply fkind_eqb_eq in H2. congruence.
  - inversion H; subst. apply andb_true_iff. split; [apply owner_eqb_eq | apply fkind_eqb_eq]; reflexivity.
Qed.
Lemma path_eqb_refl : forall a, path_eqb a a = true.
Proof. intros; apply path_eqb_eq; reflexivity. Qed.
Lemma path_eqb_neq : forall a b, a <> b -> path_eqb a b = false.
Proof. intros a b H. destruct (path_eqb a b) eqn:E; [apply path_eqb_eq in E; contradiction | reflexivity]. Qed.

Lemma upd_same : forall fs p v, upd fs p v p = v.
Proof. intros. unfold upd. rewrite path_eqb_refl. reflexivity. Qed.
Lemma upd_other : forall fs p v q, q <> p -> upd fs p v q = fs q.
Proof. intros. unfold upd. rewrite path_eqb_neq; auto. Qed.

Lemma present_true : forall fs p, present fs p = true <-> fs p <> Absent.
Proof. intros. unfold present. destruct (fs p); cbn; split; intros; congruence. Qed.
Lemma present_false : forall fs p, present fs p = false <-> fs p = Absent.
Proof. intros. unfold present. destruct (fs p); cbn; split; intros; congruence. Qed.
Lemma complete_true : forall fs p, complete fs p = true <-> fs p = Complete.
Proof. intros. unfold complete. destruct (fs p); cbn; split; intros; congruence. Qed.

(* ---- exec ------------------------------------------------------------------------ *)
Lemma exec_app : forall l1 l2 rs,
  exec (l1 ++ l2) rs =
  match exec l1 rs with
  | (rs1, None) => exec l2 rs1
  | (rs1, Some e) => (rs1, Some e)
  end.
Proof.
  induction l1 as [|s l1 IH]; intros l2 rs; cbn; [reflexivity|].
  destruct (step_sem s rs); [apply IH | reflexivity].
Qed.

Lemma exec_app_ok : forall l1 l2 rs rs',
  exec (l1 ++ l2) rs = (rs', None) ->
  exists rs1, exec l1 rs = (rs1, None) /\ exec l2 rs1 = (rs', None).
Proof.
  intros l1 l2 rs rs' H. rewrite exec_app in H.
  destruct (exec l1 rs) as [rs1 [e|]]; [discriminate|]. eauto.
Qed.

(* the state in which a run stops is the state after some error-free prefix *)
Lemma exec_prefix : forall l rs rs' e,
  exec l rs = (rs', e) -> exists c, (c <= length l)%nat /\ exec (firstn c l) rs = (rs', None).
Proof.
  induction l as [|s l IH]; intros rs rs' e H; cbn in H.
  - inversion H; subst. exists 0%nat. split; [lia | reflexivity].
  - destruct (step_sem s rs) as [rs1|e1] eqn:E.
    + destruct (IH _ _ _ H) as [c [Hc Hx]]. exists (S c). split; [cbn; lia|].
      cbn. rewrite E. exact Hx.
    + inversion H; subst. exists 0%nat. split; [lia | reflexivity].
Qed.

(* ---- frames: which paths a step can modify ---------------------------------- *)
Definition touches (s : step) (p : path) : bool :=
  match s with
  | SMkdir k => path_eqb p (PDir k)
  | STrunc q | SCorrupt q | SUnlink q _ => path_eqb p q
  | SAppendSh n e _ =>
      match p with PFile (Shank k e') FBin => (k <? n)%nat && etype_eqb e e' | _ => false end
  | SAppend21 _ => path_eqb p (PFile Lf21 FBin)
  | SWriteMeta o => path_eqb p (PFile o FMeta)
  | SVerify _ => false
  | SCompBegin o => path_eqb p (PFile o FTmp)
  | SCompEnd o => path_eqb p (PFile o FTmp) || path_eqb p (PFile o FChTmp)
  | SRenameCh o => path_eqb p (PFile o FChTmp) || path_eqb p (PFile o FCh)
  | SRename o => path_eqb p (PFile o FTmp) || path_eqb p (PFile o FCbin)
  | SDeleteOrig f => path_eqb p (PFile Orig f)
  | SFail _ => false
  end.

Lemma unlink_frame : forall rs q mok rs' p,
  unlink rs q mok = Ok rs' -> path_eqb p q = false -> r_fs rs' p = r_fs rs p.
Proof.
  intros rs q mok rs' p H Hp. unfold unlink in H.
  destruct (present (r_fs rs) q).
  - inversion H; subst; cbn. unfold upd. rewrite Hp. reflexivity.
  - destruct mok; inversion H; subst; reflexivity.
Qed.

Lemma step_frame : forall s rs rs' p,
  step_sem s rs = Ok rs' -> touches s p = false -> r_fs rs' p = r_fs rs p.
Proof.
  intros s rs rs' p H Ht. destruct s; cbn in H, Ht.
  - inversion H; subst; cbn. unfold upd. rewrite Ht. reflexivity.
  - destruct (dir_ok _ _); inversion H; subst; cbn. unfold upd. rewrite Ht. reflexivity.
  - inversion H; subst; cbn. destruct p as [k|o f]; [reflexivity|].
    destruct o as [| |k e']; try reflexivity. destruct f; try reflexivity. rewrite Ht. reflexivity.
  - inversion H; subst; cbn. unfold upd. rewrite Ht. reflexivity.
  - destruct (present _ _); inversion H; subst; cbn. unfold upd. rewrite Ht. reflexivity.
  - destruct (present _ _); inversion H; subst; cbn; [|reflexivity]. unfold upd. rewrite Ht. reflexivity.
  - destruct (all_ap_complete _ _); inversion H; subst; reflexivity.
  - eapply unlink_frame; eauto.
  - destruct (present _ _); inversion H; subst; cbn. unfold upd. rewrite Ht. reflexivity.
  - apply orb_false_iff in Ht as [H1 H2]. inversion H; subst; cbn. unfold upd. rewrite H1, H2. reflexivity.
  - apply orb_false_iff in Ht as [H1 H2]. destruct (present _ _); inversion H; subst; cbn.
    unfold upd. rewrite H1, H2. reflexivity.
  - apply orb_false_iff in Ht as [H1 H2]. destruct (present _ _); inversion H; subst; cbn.
    unfold upd. rewrite H1, H2. reflexivity.
  - destruct (r_checked rs); [eapply unlink_frame; eauto | inversion H; subst; reflexivity].
  - discriminate.
Qed.

Lemma exec_frame : forall l rs rs' e p,
  exec l rs = (rs', e) -> (forall s, In s l -> touches s p = false) -> r_fs rs' p = r_fs rs p.
Proof.
  induction l as [|s l IH]; intros rs rs' e p H Hall; cbn in H.
  - inversion H; subst; reflexivity.
  - destruct (step_sem s rs) as [rs1|e1] eqn:E.
    + rewrite (IH _ _ _ _ H); [|intros; apply Hall; right; assumption].
      eapply step_frame; eauto. apply Hall. left; reflexivity.
    + inversion H; subst; reflexivity.
Qed.

(* only SVerify can set check_completed *)
Definition is_verify (s : step) : bool := match s with SVerify _ => true | _ => false end.

Lemma unlink_checked : forall rs q mok rs', unlink rs q mok = Ok rs' -> r_checked rs' = r_checked rs.
Proof.
  intros rs q mok rs' H. unfold unlink in H. destruct (present _ _).
  - inversion H; reflexivity.
  - destruct mok; inversion H; reflexivity.
Qed.

Lemma step_checked : forall s rs rs',
  step_sem s rs = Ok rs' -> is_verify s = false -> r_checked rs' = r_checked rs.
Proof.
  intros s rs rs' H Hv. destruct s; cbn in H, Hv; try discriminate;
    try (inversion H; subst; reflexivity);
    try (destruct (dir_ok _ _); inversion H; subst; reflexivity);
    try (destruct (present _ _); inversion H; subst; reflexivity).
  - eapply unlink_checked; eauto.
  - destruct (r_checked rs) eqn:Ec.
    + rewrite <- Ec. eapply unlink_checked; eauto.
    + inversion H; subst; exact Ec.
Qed.

Lemma exec_checked : forall l rs rs' e,
  exec l rs = (rs', e) -> (forall s, In s l -> is_verify s = false) -> r_checked rs' = r_checked rs.
Proof.
  induction l as [|s l IH]; intros rs rs' e H Hall; cbn in H.
  - inversion H; subst; reflexivity.
  - destruct (step_sem s rs) as [rs1|e1] eqn:E.
    + rewrite (IH _ _ _ H); [|intros; apply Hall; right; assumption].
      eapply step_checked; eauto. apply Hall. left; reflexivity.
    + inversion H; subst; reflexivity.
Qed.

(* check_completed never goes back to false within a run *)
Lemma step_checked_mono : forall s rs rs',
  step_sem s rs = Ok rs' -> r_checked rs = true -> r_checked rs' = true.
Proof.
  intros s rs rs' H Hc. destruct (is_verify s) eqn:Ev.
  - destruct s; try discriminate. cbn in H. destruct (all_ap_complete _ _); inversion H; reflexivity.
  - rewrite (step_checked _ _ _ H Ev). exact Hc.
Qed.

Lemma np1_noop : forall n w fs r k,
  r_target r <> TShank k -> input_state NP1 n fs (r_target r) = Present ->
  out_outcome (run_once NP1 n w fs r) = Status (-1) /\
  (forall p, out_fs (run_once NP1 n w fs r) p = fs p).
Proof.
  intros n w fs r k _ Hin. unfold run_once. rewrite Hin.
  destruct (r_target r); cbn; auto.
  unfold input_state in Hin. destruct (negb _); discriminate.
Qed.

(* ====================================================================== *)
(* Specification predicates                                                 *)
(* ====================================================================== *)
(* the original samples are on disk byte for byte, plain or compressed *)
Definition orig_ok (fs : fsys) : Prop :=
  fs (PFile Orig FBin) = Complete \/
  (fs (PFile Orig FCbin) = Complete /\ fs (PFile Orig FCh) = Complete).
(* shank k's split ap data (plain or compressed) and its metadata are complete *)
Definition shank_ok (fs : fsys) (k : nat) : Prop :=
  (fs (PFile (Shank k Ap) FBin) = Complete \/
   (fs (PFile (Shank k Ap) FCbin) = Complete /\ fs (PFile (Shank k Ap) FCh) = Complete))
  /\ fs (PFile (Shank k Ap) FMeta) = Complete.
Definition shanks_ok (n : nat) (fs : fsys) : Prop := forall k, (k < n)%nat -> shank_ok fs k.
Definition recoverable (kd : kind) (n : nat) (fs : fsys) : Prop :=
  orig_ok fs \/ (kd = NP24 /\ shanks_ok n fs).
Definition inv (kd : kind) (n : nat) (fs : fsys) : Prop :=
  fs (PFile Orig FMeta) = Complete /\ fs (PFile Orig FBin) <> Partial /\ recoverable kd n fs.

Ltac upd_simp :=
  repeat (rewrite upd_same || (rewrite upd_other by congruence)).

Lemma In_firstn : forall (A : Type) (x : A) c l, In x (firstn c l) -> In x l.
Proof.
  intros A x c. induction c as [|c IH]; intros l H; [destruct H|].
  destruct l; [destruct H|]. cbn in H. destruct H; [left; assumption | right; apply IH; assumption].
Qed.

Lemma exec_cons_ok : forall s l rs rs',
  exec (s :: l) rs = (rs', None) -> exists rs1, step_sem s rs = Ok rs1 /\ exec l rs1 = (rs', None).
Proof.
  intros s l rs rs' H. cbn in H. destruct (step_sem s rs) as [rs1|e]; [eauto | discriminate].
Qed.

Lemma forallb_flat_map : forall (A B : Type) (P : B -> bool) (g : A -> list B) l,
  (forall x, In x l -> forallb P (g x) = true) -> forallb P (flat_map g l) = true.
Proof.
  intros A B P g. induction l as [|a l IH]; intros H; cbn; [reflexivity|].
  rewrite forallb_app. rewrite H by (left; reflexivity). cbn. apply IH. intros; apply H; right; assumption.
Qed.

(* ---- shape of the NP2.4 steps before delete_NP24: they only concern shank folders --- *)
Definition shank_step (s : step) : bool :=
  match s with
  | SMkdir _ | SAppendSh _ _ _ | SVerify _ => true
  | STrunc (PFile (Shank _ _) _) | SCorrupt (PFile (Shank _ _) _)
  | SUnlink (PFile (Shank _ _) _) _ => true
  | SWriteMeta (Shank _ _) | SCompBegin (Shank _ _) | SCompEnd (Shank _ _) | SRename (Shank _ _)
  | SRenameCh (Shank _ _) => true
  | _ => false
  end.

Lemma shank_step_orig : forall s f, shank_step s = true -> touches s (PFile Orig f) = false.
Proof.
  intros s f H. destruct s; cbn in *; try reflexivity; try discriminate;
    repeat match goal with
           | p : path |- _ => destruct p
           | o : owner |- _ => destruct o
           end; cbn in *; try reflexivity; try discriminate.
Qed.

Lemma comp_steps_shape : forall ow k e, forallb shank_step (comp_steps ow (Shank k e)) = true.
Proof. intros. destruct ow; reflexivity. Qed.

Lemma prep24_shape : forall ow fs n, forallb shank_step (prep24 ow fs n) = true.
Proof.
  intros. unfold prep24. apply forallb_flat_map. intros k _. unfold prep_one.
  destruct (negb _ || ow); reflexivity.
Qed.

Lemma body24_shape : forall n w o ow corrupt, forallb shank_step (body24 n w o ow corrupt) = true.
Proof.
  intros. unfold body24. repeat rewrite forallb_app. repeat (apply andb_true_iff; split).
  - unfold wins24. destruct w; [reflexivity|]. rewrite forallb_app. apply andb_true_iff. split; [|reflexivity].
    apply forallb_flat_map. reflexivity.
  - unfold metas24. rewrite forallb_app. apply andb_true_iff.
    split; apply forallb_flat_map; reflexivity.
  - destruct (o_post o); [|reflexivity]. unfold verify24. destruct corrupt; reflexivity.
  - destruct (o_comp o); [|reflexivity]. unfold comp24. apply forallb_flat_map. intros k _.
    rewrite forallb_app. rewrite !comp_steps_shape. reflexivity.
Qed.

Lemma pre24_shape : forall n w o ow corrupt fs,
  forallb shank_step (prep24 ow fs n ++ body24 n w o ow corrupt) = true.
Proof. intros. rewrite forallb_app, prep24_shape, body24_shape. reflexivity. Qed.

(* ---- write_meta_data steps only ever make paths Complete ---------------------- *)
Lemma writemeta_list_post : forall e ks rs rs',
  exec (flat_map (fun k => [SWriteMeta (Shank k e)]) ks) rs = (rs', None) ->
  (forall q, r_fs rs q = Complete -> r_fs rs' q = Complete) /\
  (forall k, In k ks -> r_fs rs' (PFile (Shank k e) FMeta) = Complete) /\
  r_checked rs' = r_checked rs.
Proof.
  intros e. induction ks as [|k ks IH]; intros rs rs' H.
  - cbn in H. inversion H; subst. repeat split; auto. intros k [].
  - cbn [flat_map app] in H. apply exec_cons_ok in H as [rs1 [Hs Hx]].
    cbn in Hs. destruct (present _ _); [|discriminate]. inversion Hs; subst; clear Hs.
    destruct (IH _ _ Hx) as [Hm [Hk Hc]]. cbn in *. repeat split.
    + intros q Hq. apply Hm. cbn. unfold upd. destruct (path_eqb _ _); auto.
    + intros k' [->|Hin]; [|auto]. apply Hm. cbn. apply upd_same.
    + exact Hc.
Qed.

(* ---- compressing one file ------------------------------------------------------- *)
Lemma sem_compbegin : forall o rs, r_fs rs (PFile o FBin) <> Absent ->
  step_sem (SCompBegin o) rs = Ok (mkR (upd (r_fs rs) (PFile o FTmp) Partial) (r_checked rs)).
Proof. intros o rs H. cbn. apply present_true in H. rewrite H. reflexivity. Qed.
Lemma sem_compend : forall o rs, r_fs rs (PFile o FBin) = Complete ->
  step_sem (SCompEnd o) rs =
  Ok (mkR (upd (upd (r_fs rs) (PFile o FTmp) Complete) (PFile o FChTmp) Complete) (r_checked rs)).
Proof. intros o rs H. cbn. apply complete_true in H. rewrite H. reflexivity. Qed.
Lemma sem_renamech : forall o rs, r_fs rs (PFile o FChTmp) <> Absent ->
  step_sem (SRenameCh o) rs =
  Ok (mkR (upd (upd (r_fs rs) (PFile o FCh) (r_fs rs (PFile o FChTmp))) (PFile o FChTmp) Absent) (r_checked rs)).
Proof. intros o rs H. cbn. apply present_true in H. rewrite H. reflexivity. Qed.
Lemma sem_rename : forall o rs, r_fs rs (PFile o FTmp) <> Absent ->
  step_sem (SRename o) rs =
  Ok (mkR (upd (upd (r_fs rs) (PFile o FCbin) (r_fs rs (PFile o FTmp))) (PFile o FTmp) Absent) (r_checked rs)).
Proof. intros o rs H. cbn. apply present_true in H. rewrite H. reflexivity. Qed.
Lemma sem_unlink_present : forall p mok rs, r_fs rs p <> Absent ->
  step_sem (SUnlink p mok) rs = Ok (mkR (upd (r_fs rs) p Absent) (r_checked rs)).
Proof. intros p mok rs H. cbn. unfold unlink. apply present_true in H. rewrite H. reflexivity. Qed.
Lemma sem_unlink_mok : forall p rs, exists rs',
  step_sem (SUnlink p true) rs = Ok rs' /\ r_checked rs' = r_checked rs /\ r_fs rs' p = Absent /\ forall q, q <> p -> r_fs rs' q = r_fs rs q.
Proof.
  intros p rs. cbn. unfold unlink. destruct (present (r_fs rs) p) eqn:E.
  - eexists; split; [reflexivity|]. cbn. repeat split; [apply upd_same | intros; apply upd_other; auto].
  - exists rs. apply present_false in E. auto.
Qed.

Definition comp_core (o : owner) : list step :=
  [SCompBegin o; SCompEnd o; SRenameCh o; SRename o; SUnlink (PFile o FBin) false].

(* from a complete .bin the five core steps always succeed and leave .cbin + .ch *)
Lemma comp_core_run : forall o rs, r_fs rs (PFile o FBin) = Complete ->
  exists rs', exec (comp_core o) rs = (rs', None) /\ r_checked rs' = r_checked rs /\   r_fs rs' (PFile o FCbin) = Complete /\ r_fs rs' (PFile o FCh) = Complete /\   r_fs rs' (PFile o FBin) = Absent /\ r_fs rs' (PFile o FTmp) = Absent /\   forall q, (forall f, q <> PFile o f) -> r_fs rs' q = r_fs rs q.
Proof.
  intros o rs Hb. unfold comp_core. cbn [exec].
  rewrite sem_compbegin by (rewrite Hb; discriminate).
  rewrite sem_compend by (cbn; upd_simp; exact Hb).
  rewrite sem_renamech by (cbn; upd_simp; discriminate).
  rewrite sem_rename by (cbn; upd_simp; discriminate).
  rewrite sem_unlink_present by (cbn; upd_simp; rewrite Hb; discriminate).
  eexists; split; [reflexivity|]. cbn. upd_simp. repeat split; auto.
  intros q Hq. upd_simp. reflexivity.
Qed.

Lemma comp_steps_run : forall ow o rs, r_fs rs (PFile o FBin) = Complete ->
  exists rs', exec (comp_steps ow o) rs = (rs', None) /\ r_checked rs' = r_checked rs /\   r_fs rs' (PFile o FCbin) = Complete /\ r_fs rs' (PFile o FCh) = Complete /\   r_fs rs' (PFile o FBin) = Absent /\ r_fs rs' (PFile o FTmp) = Absent /\   forall q, (forall f, q <> PFile o f) -> r_fs rs' q = r_fs rs q.
Proof.
  intros ow o rs Hb. unfold comp_steps.
  change [SCompBegin o; SCompEnd o; SRenameCh o; SRename o; SUnlink (PFile o FBin) false] with (comp_core o).
  destruct ow; cbn [app].
  - destruct (sem_unlink_mok (PFile o FCbin) rs) as [rs1 [Hs [Hc [_ Hf]]]].
    destruct (comp_core_run o rs1) as [rs' [Hx [Hc' [H1 [H2 [H3 [H4 H5]]]]]]].
    { rewrite Hf by congruence. exact Hb. }
    exists rs'. cbn [exec]. rewrite Hs. rewrite Hx.
    repeat split; auto; try congruence. intros q Hq. rewrite H5 by auto. apply Hf. apply Hq.
  - apply comp_core_run. exact Hb.
Qed.

Lemma comp_one_post : forall ow o rs rs',
  exec (comp_steps ow o) rs = (rs', None) ->
  r_fs rs (PFile o FBin) = Complete ->
  r_fs rs' (PFile o FCbin) = Complete /\ r_fs rs' (PFile o FCh) = Complete /\ r_fs rs' (PFile o FBin) = Absent /\ r_fs rs' (PFile o FTmp) = Absent.
Proof.
  intros ow o rs rs' H Hb. destruct (comp_steps_run ow o rs Hb) as [rs2 [Hx [_ [H1 [H2 [H3 [H4 _]]]]]]].
  rewrite Hx in H. inversion H; subst. auto.
Qed.

Lemma touches_comp_other : forall ow o s p,
  In s (comp_steps ow o) -> (forall f, p <> PFile o f) -> touches s p = false.
Proof.
  intros ow o s p Hin Hp. unfold comp_steps in Hin.
  destruct ow; cbn in Hin;
    repeat (destruct Hin as [<-|Hin]; [cbn [touches]; repeat rewrite path_eqb_neq by apply Hp; reflexivity|]);
    destruct Hin.
Qed.

Lemma touches_comp_meta : forall ow o s o', In s (comp_steps ow o) -> touches s (PFile o' FMeta) = false.
Proof.
  intros ow o s o' Hin. unfold comp_steps in Hin.
  destruct ow; cbn in Hin;
    repeat (destruct Hin as [<-|Hin]; [cbn [touches]; repeat rewrite path_eqb_neq by congruence; reflexivity|]);
    destruct Hin.
Qed.

Definition compk (ow : bool) (k : nat) : list step :=
  comp_steps ow (Shank k Ap) ++ comp_steps ow (Shank k Lf).

Lemma touches_compk_other : forall ow k s p,
  In s (compk ow k) -> (forall e f, p <> PFile (Shank k e) f) -> touches s p = false.
Proof.
  intros ow k s p Hin Hp. apply in_app_or in Hin as [H|H];
    eapply touches_comp_other; eauto.
Qed.

Lemma compk_post : forall ow k rs rs',
  exec (compk ow k) rs = (rs', None) ->
  r_fs rs (PFile (Shank k Ap) FBin) = Complete ->
  r_fs rs' (PFile (Shank k Ap) FCbin) = Complete /\ r_fs rs' (PFile (Shank k Ap) FCh) = Complete.
Proof.
  intros ow k rs rs' H Hb. unfold compk in H. apply exec_app_ok in H as [rs1 [H1 H2]].
  destruct (comp_one_post _ _ _ _ H1 Hb) as [Hc [Hh _]].
  split; (erewrite exec_frame; [| exact H2 |]);
    try assumption; intros s Hs; eapply touches_comp_other; eauto; congruence.
Qed.

Lemma comp_list_post : forall ow ks rs rs',
  NoDup ks -> exec (flat_map (compk ow) ks) rs = (rs', None) ->
  (forall k, In k ks -> r_fs rs (PFile (Shank k Ap) FBin) = Complete) ->
  forall k, In k ks ->
    r_fs rs' (PFile (Shank k Ap) FCbin) = Complete /\ r_fs rs' (PFile (Shank k Ap) FCh) = Complete.
Proof.
  intros ow. induction ks as [|k0 ks IH]; intros rs rs' Hnd H Hb k Hin; [destruct Hin|].
  cbn [flat_map] in H. apply exec_app_ok in H as [rs1 [H1 H2]]. inversion Hnd; subst.
  destruct Hin as [->|Hin].
  - destruct (compk_post _ _ _ _ H1 (Hb k (or_introl eq_refl))) as [Hc Hh].
    split; (erewrite exec_frame; [| exact H2 |]); try assumption;
      intros s Hs; apply in_flat_map in Hs as [k' [Hk' Hs]];
      eapply touches_compk_other; eauto; intros e f Heq; inversion Heq; subst; contradiction.
  - apply (IH rs1 rs'); auto. intros k' Hk'.
    erewrite exec_frame; [apply Hb; right; exact Hk' | exact H1 |].
    intros s Hs. eapply touches_compk_other; eauto. intros e f Heq; inversion Heq; subst; contradiction.
Qed.

Lemma comp24_meta_frame : forall ow n rs rs' e o,
  exec (comp24 ow n) rs = (rs', e) -> r_fs rs' (PFile o FMeta) = r_fs rs (PFile o FMeta).
Proof.
  intros. eapply exec_frame; eauto. intros s Hs. unfold comp24 in Hs.
  apply in_flat_map in Hs as [k [_ Hs]]. apply in_app_or in Hs as [Hs|Hs]; eapply touches_comp_meta; eauto.
Qed.

Lemma all_ap_complete_spec : forall fs n,
  all_ap_complete fs n = true -> forall k, (k < n)%nat -> fs (PFile (Shank k Ap) FBin) = Complete.
Proof.
  intros fs n H k Hk. unfold all_ap_complete in H. rewrite forallb_forall in H.
  apply complete_true. apply H. apply in_seq. lia.
Qed.

Lemma no_verify_in : forall l, forallb (fun s => negb (is_verify s)) l = true ->
  forall s, In s l -> is_verify s = false.
Proof. intros l H s Hs. rewrite forallb_forall in H. apply negb_true_iff. auto. Qed.

Lemma prep24_noverify : forall ow fs n, forallb (fun s => negb (is_verify s)) (prep24 ow fs n) = true.
Proof.
  intros. unfold prep24. apply forallb_flat_map. intros k _. unfold prep_one.
  destruct (negb _ || ow); reflexivity.
Qed.
Lemma wins24_noverify : forall n w, forallb (fun s => negb (is_verify s)) (wins24 n w) = true.
Proof.
  intros. unfold wins24. destruct w; [reflexivity|]. rewrite forallb_app. apply andb_true_iff.
  split; [apply forallb_flat_map|]; reflexivity.
Qed.
Lemma comp24_noverify : forall ow n, forallb (fun s => negb (is_verify s)) (comp24 ow n) = true.
Proof.
  intros. unfold comp24. apply forallb_flat_map. intros k _. unfold comp_steps. destruct ow; reflexivity.
Qed.

(* the crux: if the steps before delete_NP24 ran to the end and left
   check_completed set, every shank's ap data and metadata are complete *)
Lemma body_checked_shanks_ok_gen : forall n w o ow corrupt fs ck rs1,
  (o_post o = false -> ck = false) ->
  exec (prep24 ow fs n ++ body24 n w o ow corrupt) (mkR fs ck) = (rs1, None) ->
  r_checked rs1 = true ->
  o_post o = true /\ shanks_ok n (r_fs rs1).
Proof.
  intros n w o ow corrupt fs ck rs1 Hck0 H Hck.
  apply exec_app_ok in H as [rsP [HP H]].
  pose proof (exec_checked _ _ _ _ HP (no_verify_in _ (prep24_noverify _ _ _))) as HcP. cbn in HcP.
  unfold body24 in H.
  apply exec_app_ok in H as [rsW [HW H]].
  pose proof (exec_checked _ _ _ _ HW (no_verify_in _ (wins24_noverify _ _))) as HcW.
  apply exec_app_ok in H as [rsM [HM H]].
  unfold metas24 in HM. apply exec_app_ok in HM as [rsA [HA HL]].
  destruct (writemeta_list_post _ _ _ _ HA) as [_ [HAk HAc]].
  destruct (writemeta_list_post _ _ _ _ HL) as [HLm [_ HLc]].
  assert (Hmeta : forall k, (k < n)%nat -> r_fs rsM (PFile (Shank k Ap) FMeta) = Complete).
  { intros k Hk. apply HLm. apply HAk. apply in_seq. lia. }
  assert (HcM : r_checked rsM = ck) by congruence.
  apply exec_app_ok in H as [rsV [HV HC]].
  destruct (o_post o) eqn:Epost.
  2:{ exfalso. cbn in HV. inversion HV; subst rsV.
      assert (r_checked rs1 = r_checked rsM).
      { destruct (o_comp o).
        - eapply exec_checked; eauto. apply no_verify_in, comp24_noverify.
        - cbn in HC. inversion HC; reflexivity. }
      rewrite (Hck0 eq_refl) in HcM. congruence. }
  split; [reflexivity|].
  (* the verification step succeeded on the state left by the (optional) adversary step *)
  assert (HVpost : (forall k, (k < n)%nat -> r_fs rsV (PFile (Shank k Ap) FBin) = Complete) /\
                   (forall o', r_fs rsV (PFile o' FMeta) = r_fs rsM (PFile o' FMeta))).
  { unfold verify24 in HV. apply exec_app_ok in HV as [rsC [HCr HVe]].
    cbn in HVe. destruct (all_ap_complete (r_fs rsC) n) eqn:Eall; [|discriminate].
    inversion HVe; subst rsV; cbn. split; [apply all_ap_complete_spec; exact Eall|].
    intros o'. eapply exec_frame; eauto. intros s Hs. destruct corrupt; cbn in Hs; [|destruct Hs].
    destruct Hs as [<-|[]]. cbn [touches]. apply path_eqb_neq. congruence. }
  destruct HVpost as [Hbin HmetaV].
  destruct (o_comp o).
  - intros k Hk. split.
    + right. unfold comp24 in HC. change (fun k0 => comp_steps ow (Shank k0 Ap) ++ comp_steps ow (Shank k0 Lf))
        with (compk ow) in HC.
      eapply comp_list_post; eauto; [apply seq_NoDup | | apply in_seq; lia].
      intros k' Hk'. apply Hbin. apply in_seq in Hk'. lia.
    + erewrite comp24_meta_frame by eauto. rewrite HmetaV. auto.
  - cbn in HC. inversion HC; subst rs1. intros k Hk. split; [left; auto|]. rewrite HmetaV. auto.
Qed.

(* ====================================================================== *)
(* Safety: every state a run can stop in keeps the original recoverable      *)
(* ====================================================================== *)
Lemma go_out : forall plan crash fs st al,
  exists c rs', exec (firstn c plan) (mkR fs false) = (rs', None) /\
    out_fs (go plan crash fs st al) = r_fs rs' /\
    out_checked (go plan crash fs st al) = r_checked rs'.
Proof.
  intros. unfold go.
  destruct (exec (match crash with Some c => firstn c plan | None => plan end) (mkR fs false))
    as [rs' e] eqn:E.
  destruct (exec_prefix _ _ _ _ E) as [c [Hc Hx]]. cbn.
  destruct crash as [c0|].
  - rewrite firstn_firstn in Hx. eauto.
  - eauto.
Qed.

Lemma input_present_orig : forall kd n fs t,
  input_state kd n fs t = Present ->
  fs (PFile Orig FMeta) = Complete /\
  (t = TBin -> fs (PFile Orig FBin) = Complete) /\
  (t = TCbin -> fs (PFile Orig FCbin) = Complete /\ fs (PFile Orig FCh) = Complete).
Proof.
  intros kd n fs t H. unfold input_state in H.
  destruct (complete fs (PFile Orig FMeta)) eqn:Em; cbn in H; [|discriminate].
  apply complete_true in Em. split; [exact Em|]. split; intros ->.
  - destruct (fs (PFile Orig FBin)); try discriminate. reflexivity.
  - destruct (fs (PFile Orig FCbin)); try discriminate.
    destruct (complete fs (PFile Orig FCh)) eqn:Ec; [|discriminate]. apply complete_true in Ec. auto.
Qed.

Lemma frame_inv : forall kd n fs fs',
  (forall f, fs' (PFile Orig f) = fs (PFile Orig f)) -> orig_ok fs -> inv kd n fs ->
  orig_ok fs' /\ inv kd n fs'.
Proof.
  intros kd n fs fs' Hf Ho [Hm [Hb _]].
  assert (orig_ok fs') by (unfold orig_ok in *; rewrite !Hf; exact Ho).
  split; [assumption|]. unfold inv. rewrite !Hf. repeat split; auto. left; assumption.
Qed.

Lemma shank_steps_frame_orig : forall l rs rs' e f,
  forallb shank_step l = true -> exec l rs = (rs', e) -> r_fs rs' (PFile Orig f) = r_fs rs (PFile Orig f).
Proof.
  intros l rs rs' e f Hs H. eapply exec_frame; eauto. intros s Hin.
  apply shank_step_orig. rewrite forallb_forall in Hs. auto.
Qed.

Lemma forallb_firstn : forall (A : Type) (P : A -> bool) c l,
  forallb P l = true -> forallb P (firstn c l) = true.
Proof.
  intros A P c l H. apply forallb_forall. intros x Hx. rewrite forallb_forall in H.
  apply H. eapply In_firstn; eauto.
Qed.

Lemma shanks_ok_upd_orig : forall n fs f v, shanks_ok n fs -> shanks_ok n (upd fs (PFile Orig f) v).
Proof. intros n fs f v H k Hk. unfold shank_ok. upd_simp. apply H; assumption. Qed.

(* NP2.4: every state along a run; and if the run changed an Orig file at all,
   it did so in its final delete_NP24 step, with check_completed set by a
   successful verification of this very run and all shank outputs complete *)
Lemma np24_prefix_gen : forall n w o ow corrupt tf fs ck c rs',
  (o_post o = false -> ck = false) ->
  (tf = FBin \/ tf = FCbin) -> orig_ok fs -> inv NP24 n fs ->
  exec (firstn c (plan24 n w o ow corrupt tf fs)) (mkR fs ck) = (rs', None) ->
  inv NP24 n (r_fs rs') /\
  ((exists f, r_fs rs' (PFile Orig f) <> fs (PFile Orig f)) ->
     o_post o = true /\ o_del o = true /\ r_checked rs' = true /\ shanks_ok n (r_fs rs') /\
     (length (prep24 ow fs n ++ body24 n w o ow corrupt) < c)%nat /\
     already24 ow fs n = false) /\
  (forall f, f <> tf -> r_fs rs' (PFile Orig f) = fs (PFile Orig f)) /\
  (r_fs rs' (PFile Orig tf) = fs (PFile Orig tf) \/ r_fs rs' (PFile Orig tf) = Absent).
Proof.
  intros n w o ow corrupt tf fs ck c rs' Hck0 Htf Ho Hinv H. unfold plan24 in H.
  destruct (already24 ow fs n) eqn:Eal.
  - assert (Hf : forall f, r_fs rs' (PFile Orig f) = fs (PFile Orig f)).
    { intros f. eapply (shank_steps_frame_orig _ (mkR fs ck)); eauto.
      apply forallb_firstn, prep24_shape. }
    split; [apply (frame_inv NP24 n fs); auto|].
    split; [intros [f Hne]; rewrite Hf in Hne; contradiction|].
    split; [intros; apply Hf | left; apply Hf].
  - set (A := prep24 ow fs n ++ body24 n w o ow corrupt) in *.
    rewrite firstn_app in H. apply exec_app_ok in H as [rs1 [HA HD]].
    assert (Hf1 : forall f, r_fs rs1 (PFile Orig f) = fs (PFile Orig f)).
    { intros f. eapply (shank_steps_frame_orig _ (mkR fs ck)); eauto.
      apply forallb_firstn, pre24_shape. }
    assert (Hsame : rs' = rs1 -> inv NP24 n (r_fs rs') /\
              ((exists f, r_fs rs' (PFile Orig f) <> fs (PFile Orig f)) ->
               o_post o = true /\ o_del o = true /\ r_checked rs' = true /\ shanks_ok n (r_fs rs') /\
               (length A < c)%nat /\ false = false) /\
              (forall f, f <> tf -> r_fs rs' (PFile Orig f) = fs (PFile Orig f)) /\
              (r_fs rs' (PFile Orig tf) = fs (PFile Orig tf) \/ r_fs rs' (PFile Orig tf) = Absent)).
    { intros ->. split; [apply (frame_inv NP24 n fs); auto|].
      split; [intros [f Hne]; rewrite Hf1 in Hne; contradiction|].
      split; [intros; apply Hf1 | left; apply Hf1]. }
    unfold del24 in HD. destruct (o_del o) eqn:Edel.
    2:{ rewrite firstn_nil in HD. cbn in HD. inversion HD; subst. auto. }
    destruct (c - length A)%nat as [|m] eqn:Ec.
    { cbn in HD. inversion HD; subst. auto. }
    cbn [firstn] in HD. rewrite firstn_nil in HD. cbn in HD.
    destruct (r_checked rs1) eqn:Eck.
    2:{ inversion HD; subst. auto. }
    unfold unlink in HD. destruct (present (r_fs rs1) (PFile Orig tf)) eqn:Epr; [|discriminate].
    inversion HD; subst rs'; clear HD. cbn.
    assert (HcA : (length A < c)%nat) by lia.
    rewrite firstn_all2 in HA by lia.
    destruct (body_checked_shanks_ok_gen _ _ _ _ _ _ _ _ Hck0 HA Eck) as [Hpost Hsh].
    destruct Hinv as [Hm [Hb _]].
    assert (Hsh' : shanks_ok n (upd (r_fs rs1) (PFile Orig tf) Absent)) by (apply shanks_ok_upd_orig; exact Hsh).
    split; [|split; [|split]].
    + unfold inv. repeat split.
      * destruct Htf as [-> | ->]; upd_simp; rewrite Hf1; exact Hm.
      * destruct Htf as [-> | ->]; upd_simp; [discriminate | rewrite Hf1; exact Hb].
      * right. split; [reflexivity | exact Hsh'].
    + intros _. split; [exact Hpost|]. split; [reflexivity|]. split; [exact Eck|].
      split; [exact Hsh'|]. split; [exact HcA | reflexivity].
    + intros f Hf. rewrite upd_other by congruence. apply Hf1.
    + right. apply upd_same.
Qed.

Lemma np24_prefix : forall n w o ow corrupt tf fs c rs',
  (tf = FBin \/ tf = FCbin) -> orig_ok fs -> inv NP24 n fs ->
  exec (firstn c (plan24 n w o ow corrupt tf fs)) (mkR fs false) = (rs', None) ->
  inv NP24 n (r_fs rs') /\
  ((exists f, r_fs rs' (PFile Orig f) <> fs (PFile Orig f)) ->
     o_post o = true /\ o_del o = true /\ r_checked rs' = true /\ shanks_ok n (r_fs rs') /\
     (length (prep24 ow fs n ++ body24 n w o ow corrupt) < c)%nat /\
     already24 ow fs n = false).
Proof.
  intros n w o ow corrupt tf fs c rs' Htf Ho Hinv H.
  destruct (np24_prefix_gen n w o ow corrupt tf fs false c rs' (fun _ => eq_refl) Htf Ho Hinv H) as [A [B _]].
  split; assumption.
Qed.

(* NP2.1 *)
Definition lf21_step (s : step) : bool :=
  match s with
  | SAppend21 _ => true
  | STrunc (PFile Lf21 _) | SUnlink (PFile Lf21 _) _ => true
  | SWriteMeta Lf21 | SCompBegin Lf21 | SCompEnd Lf21 | SRename Lf21 | SRenameCh Lf21 => true
  | _ => false
  end.
Lemma lf21_step_orig : forall s f, lf21_step s = true -> touches s (PFile Orig f) = false.
Proof.
  intros s f H. destruct s; cbn in *; try reflexivity; try discriminate;
    repeat match goal with
           | p : path |- _ => destruct p
           | o : owner |- _ => destruct o
           end; cbn in *; try reflexivity; try discriminate.
Qed.
Lemma lf21_steps_frame_orig : forall l rs rs' e f,
  forallb lf21_step l = true -> exec l rs = (rs', e) -> r_fs rs' (PFile Orig f) = r_fs rs (PFile Orig f).
Proof.
  intros l rs rs' e f Hs H. eapply exec_frame; eauto. intros s Hin.
  apply lf21_step_orig. rewrite forallb_forall in Hs. auto.
Qed.
Lemma head21_shape : forall w,
  forallb lf21_step ([STrunc (PFile Lf21 FBin)] ++ wins21 w ++ [SWriteMeta Lf21]) = true.
Proof.
  intros. cbn. rewrite forallb_app. apply andb_true_iff. split; [|reflexivity].
  unfold wins21. destruct w; [reflexivity|]. rewrite forallb_app. apply andb_true_iff. split; [|reflexivity].
  apply forallb_forall. intros s Hs. apply in_map_iff in Hs as [x [<- _]]. reflexivity.
Qed.
Lemma comp_lf21_shape : forall ow, forallb lf21_step (comp_steps ow Lf21) = true.
Proof. destruct ow; reflexivity. Qed.

(* the in-place compression of the original: at every point either the .bin is
   still complete, or it is gone and the finished .cbin + .ch are complete *)
Definition orig21_ok (fs : fsys) : Prop :=
  fs (PFile Orig FBin) = Complete \/
  (fs (PFile Orig FBin) = Absent /\ fs (PFile Orig FCbin) = Complete /\ fs (PFile Orig FCh) = Complete).

Lemma comp_core_orig_prefix : forall k rs rs',
  r_fs rs (PFile Orig FBin) = Complete ->
  exec (firstn k (comp_core Orig)) rs = (rs', None) ->
  orig21_ok (r_fs rs') /\ r_fs rs' (PFile Orig FMeta) = r_fs rs (PFile Orig FMeta).
Proof.
  intros k rs rs' Hb H. unfold comp_core in H.
  destruct k as [|[|[|[|[|k]]]]]; cbn [firstn exec] in H.
  - inversion H; subst. split; [left; exact Hb | reflexivity].
  - rewrite sem_compbegin in H by (rewrite Hb; discriminate). inversion H; subst; cbn.
    unfold orig21_ok. upd_simp. auto.
  - rewrite sem_compbegin in H by (rewrite Hb; discriminate).
    rewrite sem_compend in H by (cbn; upd_simp; exact Hb). inversion H; subst; cbn.
    unfold orig21_ok. upd_simp. auto.
  - rewrite sem_compbegin in H by (rewrite Hb; discriminate).
    rewrite sem_compend in H by (cbn; upd_simp; exact Hb).
    rewrite sem_renamech in H by (cbn; upd_simp; discriminate). inversion H; subst; cbn.
    unfold orig21_ok. upd_simp. auto.
  - rewrite sem_compbegin in H by (rewrite Hb; discriminate).
    rewrite sem_compend in H by (cbn; upd_simp; exact Hb).
    rewrite sem_renamech in H by (cbn; upd_simp; discriminate).
    rewrite sem_rename in H by (cbn; upd_simp; discriminate). inversion H; subst; cbn.
    unfold orig21_ok. upd_simp. auto.
  - rewrite firstn_nil in H.
    rewrite sem_compbegin in H by (rewrite Hb; discriminate).
    rewrite sem_compend in H by (cbn; upd_simp; exact Hb).
    rewrite sem_renamech in H by (cbn; upd_simp; discriminate).
    rewrite sem_rename in H by (cbn; upd_simp; discriminate).
    rewrite sem_unlink_present in H by (cbn; upd_simp; rewrite Hb; discriminate).
    inversion H; subst; cbn. unfold orig21_ok. upd_simp. split; [right; auto | reflexivity].
Qed.

Lemma orig21_ok_inv : forall n fs, orig21_ok fs -> fs (PFile Orig FMeta) = Complete -> inv NP21 n fs /\ orig_ok fs.
Proof.
  intros n fs H Hm. assert (orig_ok fs) by (destruct H as [H|[_ H]]; [left|right]; auto).
  split; [|assumption]. unfold inv. repeat split; auto.
  - destruct H as [H|[H _]]; rewrite H; discriminate.
  - left; assumption.
Qed.

Lemma np21_prefix : forall kd n w o ow tf fs c rs',
  orig_ok fs -> inv kd n fs -> (tf = FBin -> fs (PFile Orig FBin) = Complete) ->
  exec (firstn c (plan21 w o ow tf fs)) (mkR fs false) = (rs', None) ->
  inv kd n (r_fs rs') /\ orig_ok (r_fs rs') /\
  (fs (PFile Orig FBin) = Complete -> orig21_ok (r_fs rs')).
Proof.
  intros kd n w o ow tf fs c rs' Ho Hinv Htf H. unfold plan21 in H.
  assert (Hsame : forall rs1 : rstate, (forall f, r_fs rs1 (PFile Orig f) = fs (PFile Orig f)) ->
            inv kd n (r_fs rs1) /\ orig_ok (r_fs rs1) /\
            (fs (PFile Orig FBin) = Complete -> orig21_ok (r_fs rs1))).
  { intros rs1 Hf. destruct (frame_inv kd n fs (r_fs rs1) Hf Ho Hinv) as [X Y].
    split; [exact Y|]. split; [exact X|]. intros Hb. left. rewrite Hf. exact Hb. }
  destruct (already21 ow fs).
  { rewrite firstn_nil in H. cbn in H. inversion H; subst. apply Hsame. reflexivity. }
  rewrite firstn_app in H. apply exec_app_ok in H as [rs1 [HP HQ]].
  assert (Hf1 : forall f, r_fs rs1 (PFile Orig f) = fs (PFile Orig f)).
  { intros f. eapply (lf21_steps_frame_orig _ (mkR fs false)); eauto. apply forallb_firstn, head21_shape. }
  destruct (o_comp o).
  2:{ rewrite firstn_nil in HQ. cbn in HQ. inversion HQ; subst. apply Hsame. exact Hf1. }
  rewrite firstn_app in HQ. apply exec_app_ok in HQ as [rs2 [HO HL]].
  assert (Hf2 : forall f, r_fs rs' (PFile Orig f) = r_fs rs2 (PFile Orig f)).
  { intros f. eapply lf21_steps_frame_orig; eauto. apply forallb_firstn, comp_lf21_shape. }
  unfold origcomp21 in HO. destruct tf;
    try (rewrite firstn_nil in HO; cbn in HO; inversion HO; subst rs2;
         apply Hsame; intros f; rewrite Hf2; apply Hf1).
  fold (comp_core Orig) in HO.
  assert (Hb1 : r_fs rs1 (PFile Orig FBin) = Complete) by (rewrite Hf1; auto).
  destruct (comp_core_orig_prefix _ _ _ Hb1 HO) as [Hok Hm].
  assert (Hok' : orig21_ok (r_fs rs')) by (unfold orig21_ok in *; rewrite !Hf2; exact Hok).
  assert (Hm' : r_fs rs' (PFile Orig FMeta) = Complete).
  { rewrite Hf2, Hm, Hf1. apply Hinv. }
  destruct (orig21_ok_inv n _ Hok' Hm') as [Hi Hoo].
  split; [|split; [exact Hoo | intros _; exact Hok']].
  destruct Hi as [A [B _]]. unfold inv. split; [exact A|]. split; [exact B|]. left; exact Hoo.
Qed.

Lemma run_once_inv : forall kd n w fs r, inv kd n fs -> inv kd n (out_fs (run_once kd n w fs r)).
Proof.
  intros kd n w fs r Hinv. unfold run_once.
  destruct (input_state kd n fs (r_target r)) eqn:Ein; try exact Hinv.
  destruct (input_present_orig _ _ _ _ Ein) as [Hm [HB HC]].
  destruct (r_target r) eqn:Et; try exact Hinv.
  - (* TBin *)
    assert (Ho : orig_ok fs) by (left; auto).
    destruct kd; try exact Hinv.
    + destruct (go_out (plan24 n w (r_opts r) (r_ow r) (r_corrupt r) (target_form TBin) fs) (r_crash r) fs
                  (if already24 (r_ow r) fs n then 0%Z else 1%Z) (if already24 (r_ow r) fs n then 1%Z else 0%Z))
        as [c [rs' [Hx [Hfs _]]]].
      rewrite Hfs. exact (proj1 (np24_prefix _ _ _ _ _ _ _ _ _ (or_introl eq_refl) Ho Hinv Hx)).
    + destruct (go_out (plan21 w (r_opts r) (r_ow r) (target_form TBin) fs) (r_crash r) fs
                  (if already21 (r_ow r) fs then 0%Z else 1%Z) (if already21 (r_ow r) fs then 1%Z else 0%Z))
        as [c [rs' [Hx [Hfs _]]]].
      rewrite Hfs. exact (proj1 (np21_prefix _ _ _ _ _ _ _ _ _ Ho Hinv (fun _ => HB eq_refl) Hx)).
  - (* TCbin *)
    assert (Ho : orig_ok fs) by (right; auto).
    destruct kd; try exact Hinv.
    + destruct (go_out (plan24 n w (r_opts r) (r_ow r) (r_corrupt r) (target_form TCbin) fs) (r_crash r) fs
                  (if already24 (r_ow r) fs n then 0%Z else 1%Z) (if already24 (r_ow r) fs n then 1%Z else 0%Z))
        as [c [rs' [Hx [Hfs _]]]].
      rewrite Hfs. exact (proj1 (np24_prefix _ _ _ _ _ _ _ _ _ (or_intror eq_refl) Ho Hinv Hx)).
    + destruct (go_out (plan21 w (r_opts r) (r_ow r) (target_form TCbin) fs) (r_crash r) fs
                  (if already21 (r_ow r) fs then 0%Z else 1%Z) (if already21 (r_ow r) fs then 1%Z else 0%Z))
        as [c [rs' [Hx [Hfs _]]]].
      rewrite Hfs.
      assert (Htf : target_form TCbin = FBin -> fs (PFile Orig FBin) = Complete) by (cbn; discriminate).
      exact (proj1 (np21_prefix _ _ _ _ _ _ _ _ _ Ho Hinv Htf Hx)).
Qed.

Lemma init_inv : forall kd n c, inv kd n (init_fs c).
Proof.
  intros. unfold inv, recoverable, orig_ok. cbn. destruct c; repeat split; try discriminate; auto.
Qed.

Lemma history_inv : forall kd n w h fs, inv kd n fs -> inv kd n (state_after kd n w fs h).
Proof.
  intros kd n w. induction h as [|r h IH]; intros fs H; cbn; [exact H|].
  apply IH. apply run_once_inv. exact H.
Qed.

Lemma original_recoverable : forall kd n w c h,
  let fs := state_after kd n w (init_fs c) h in
  fs (PFile Orig FMeta) = Complete /\ recoverable kd n fs.
Proof.
  intros. destruct (history_inv kd n w h (init_fs c) (init_inv kd n c)) as [A [_ B]]. auto.
Qed.

(* check_completed is set only by a verification step that found every shank's
   ap.bin complete at that moment *)
Lemma check_completed_sound : forall l rs rs',
  r_checked rs = false -> exec l rs = (rs', None) -> r_checked rs' = true ->
  exists l1 m l2 rsv, l = l1 ++ SVerify m :: l2 /\ exec l1 rs = (rsv, None) /\
    forall k, (k < m)%nat -> r_fs rsv (PFile (Shank k Ap) FBin) = Complete.
Proof.
  induction l as [|s l IH]; intros rs rs' Hc H Hck.
  - cbn in H. inversion H; subst. congruence.
  - apply exec_cons_ok in H as [rs1 [Hs Hx]].
    destruct (is_verify s) eqn:Ev.
    + destruct s; try discriminate. exists [], n, l, rs. split; [reflexivity|]. split; [reflexivity|].
      cbn in Hs. destruct (all_ap_complete (r_fs rs) n) eqn:E; [|discriminate].
      apply all_ap_complete_spec. exact E.
    + pose proof (step_checked _ _ _ Hs Ev) as Hc1. rewrite Hc in Hc1.
      destruct (IH _ _ Hc1 Hx Hck) as [l1 [m [l2 [rsv [El [Hx1 Hall]]]]]].
      exists (s :: l1), m, l2, rsv. split; [cbn; rewrite El; reflexivity|]. split; [|exact Hall].
      cbn. rewrite Hs. exact Hx1.
Qed.

Lemma split_input_noop : forall kd n w fs r k,
  r_target r = TShank k -> input_state kd n fs (r_target r) = Present ->
  let o := run_once kd n w fs r in
  out_outcome o = Status 0 /\ out_processed o = true /\ out_trace o = [] /\ forall p, out_fs o p = fs p.
Proof.
  intros kd n w fs r k Ht Hin. unfold run_once. rewrite Hin, Ht. cbn. auto.
Qed.

(* ====================================================================== *)
(* Idempotence: a run without overwrite on a converted directory            *)
(* ====================================================================== *)
Lemma flat_map_nil : forall (A B : Type) (g : A -> list B) l,
  (forall x, In x l -> g x = []) -> flat_map g l = [].
Proof.
  intros A B g. induction l as [|a l IH]; intros H; cbn; [reflexivity|].
  rewrite H by (left; reflexivity). cbn. apply IH. intros; apply H; right; assumption.
Qed.

Lemma go_nil : forall crash fs st al,
  go [] crash fs st al = mkOut fs (Status st) false al false [].
Proof. intros. unfold go. destruct crash as [c|]; [rewrite firstn_nil|]; reflexivity. Qed.

Lemma rerun_noop24 : forall n w fs r,
  (1 <= n)%nat -> (forall k, (k < n)%nat -> fs (PDir k) <> Absent) ->
  r_ow r = false -> (r_target r = TBin \/ r_target r = TCbin) ->
  input_state NP24 n fs (r_target r) = Present ->
  run_once NP24 n w fs r = mkOut fs (Status 0) false 1 false [].
Proof.
  intros n w fs r Hn Hd How Ht Hin. unfold run_once. rewrite Hin, How.
  assert (Hal : already24 false fs n = true).
  { unfold already24. apply existsb_exists. exists 0%nat. split; [apply in_seq; lia|].
    rewrite (proj2 (present_true fs (PDir 0))); [reflexivity | apply Hd; lia]. }
  assert (Hpl : forall o c tf, plan24 n w o false c tf fs = []).
  { intros. unfold plan24. rewrite Hal. unfold prep24. apply flat_map_nil. intros k Hk.
    apply in_seq in Hk. unfold prep_one.
    rewrite (proj2 (present_true fs (PDir k))); [reflexivity | apply Hd; lia]. }
  destruct Ht as [-> | ->]; rewrite Hal, Hpl; apply go_nil.
Qed.

Lemma rerun_noop21 : forall n w fs r,
  (fs (PFile Lf21 FBin) <> Absent \/ fs (PFile Lf21 FCbin) <> Absent) ->
  r_ow r = false -> (r_target r = TBin \/ r_target r = TCbin) ->
  input_state NP21 n fs (r_target r) = Present ->
  run_once NP21 n w fs r = mkOut fs (Status 0) false 1 false [].
Proof.
  intros n w fs r Hd How Ht Hin. unfold run_once. rewrite Hin, How.
  assert (Hal : already21 false fs = true).
  { unfold already21. destruct Hd as [H|H]; apply present_true in H; rewrite H; cbn;
      [reflexivity | rewrite orb_true_r; reflexivity]. }
  assert (Hpl : forall o tf, plan21 w o false tf fs = []) by (intros; unfold plan21; rewrite Hal; reflexivity).
  destruct Ht as [-> | ->]; rewrite Hal, Hpl; apply go_nil.
Qed.

(* a run that returned a status executed its whole plan without error *)
Lemma go_status : forall plan crash fs st al z,
  out_outcome (go plan crash fs st al) = Status z ->
  exists rs', exec plan (mkR fs false) = (rs', None) /\ out_fs (go plan crash fs st al) = r_fs rs' /\
              out_checked (go plan crash fs st al) = r_checked rs' /\ z = st.
Proof.
  intros plan crash fs st al z H. unfold go in *.
  set (pl := match crash with Some c => firstn c plan | None => plan end) in *.
  destruct (exec pl (mkR fs false)) as [rs' e] eqn:E. cbn [out_outcome out_fs out_checked] in *.
  destruct e; [discriminate|].
  destruct (length pl <? length plan)%nat eqn:El; [discriminate|]. inversion H; subst z.
  apply Nat.ltb_ge in El.
  assert (pl = plan).
  { subst pl. destruct crash as [c|]; [|reflexivity]. rewrite firstn_length in El.
    apply firstn_all2. lia. }
  rewrite <- H0. eauto.
Qed.

Definition nodir_step (s : step) : bool :=
  match s with
  | SMkdir _ | STrunc (PDir _) | SCorrupt (PDir _) | SUnlink (PDir _) _ => false
  | _ => true
  end.
Lemma nodir_step_dir : forall s k, nodir_step s = true -> touches s (PDir k) = false.
Proof.
  intros s k H. destruct s; cbn in *; try reflexivity; try discriminate;
    try (destruct p; [discriminate | reflexivity]).
Qed.
Lemma comp_steps_nodir : forall ow o, forallb nodir_step (comp_steps ow o) = true.
Proof. destruct ow; reflexivity. Qed.
Lemma rest24_nodir : forall n w o ow corrupt tf,
  forallb nodir_step (body24 n w o ow corrupt ++ del24 o tf) = true.
Proof.
  intros. unfold body24, del24. repeat rewrite forallb_app. repeat (apply andb_true_iff; split).
  - unfold wins24. destruct w; [reflexivity|]. rewrite forallb_app. apply andb_true_iff. split; [|reflexivity].
    apply forallb_flat_map. reflexivity.
  - unfold metas24. rewrite forallb_app. apply andb_true_iff. split; apply forallb_flat_map; reflexivity.
  - destruct (o_post o); [|reflexivity]. unfold verify24. destruct corrupt; reflexivity.
  - destruct (o_comp o); [|reflexivity]. unfold comp24. apply forallb_flat_map. intros k _.
    rewrite forallb_app, !comp_steps_nodir. reflexivity.
  - destruct (o_del o); reflexivity.
Qed.

(* _prepare_files: folders that exist keep existing, created folders exist *)
Lemma prep_list_dirs : forall ow fs ks rs rs',
  exec (flat_map (prep_one ow fs) ks) rs = (rs', None) ->
  (forall k, r_fs rs (PDir k) = Complete -> r_fs rs' (PDir k) = Complete) /\
  (forall k, In k ks -> present fs (PDir k) && negb ow = false -> r_fs rs' (PDir k) = Complete).
Proof.
  intros ow fs. induction ks as [|k0 ks IH]; intros rs rs' H.
  - cbn in H. inversion H; subst. split; [auto | intros k []].
  - cbn [flat_map] in H. apply exec_app_ok in H as [rs1 [H1 H2]].
    destruct (IH _ _ H2) as [Hm Hk].
    assert (Hm1 : forall k, r_fs rs (PDir k) = Complete -> r_fs rs1 (PDir k) = Complete).
    { intros k Hc. unfold prep_one in H1. destruct (negb (present fs (PDir k0)) || ow).
      - cbn in H1. destruct (present _ _); [|discriminate]. cbn in H1.
        destruct (present _ _); [|discriminate]. inversion H1; subst; cbn. upd_simp.
        unfold upd. destruct (path_eqb _ _); auto.
      - cbn in H1. inversion H1; subst. exact Hc. }
    split; [intros k Hc; apply Hm, Hm1, Hc|].
    intros k [->|Hin] Hcond; [|apply Hk; assumption].
    apply Hm. unfold prep_one in H1.
    assert (E : negb (present fs (PDir k)) || ow = true).
    { destruct (present fs (PDir k)), ow; cbn in *; congruence. }
    rewrite E in H1. cbn in H1. destruct (present _ _); [|discriminate]. cbn in H1.
    destruct (present _ _); [|discriminate]. inversion H1; subst; cbn. upd_simp. reflexivity.
Qed.

Lemma complete24_dirs : forall n w fs r,
  (r_target r = TBin \/ r_target r = TCbin) ->
  out_outcome (run_once NP24 n w fs r) = Status 1 ->
  forall k, (k < n)%nat -> out_fs (run_once NP24 n w fs r) (PDir k) = Complete.
Proof.
  intros n w fs r Ht H k Hk. unfold run_once in *.
  destruct (input_state NP24 n fs (r_target r)); try discriminate.
  assert (G : forall tf,
    out_outcome (go (plan24 n w (r_opts r) (r_ow r) (r_corrupt r) tf fs) (r_crash r) fs
       (if already24 (r_ow r) fs n then 0%Z else 1%Z) (if already24 (r_ow r) fs n then 1%Z else 0%Z)) = Status 1 ->
    out_fs (go (plan24 n w (r_opts r) (r_ow r) (r_corrupt r) tf fs) (r_crash r) fs
       (if already24 (r_ow r) fs n then 0%Z else 1%Z) (if already24 (r_ow r) fs n then 1%Z else 0%Z)) (PDir k) = Complete).
  { intros tf Hs. apply go_status in Hs as [rs' [Hx [Hfs [_ Hst]]]]. rewrite Hfs.
    destruct (already24 (r_ow r) fs n) eqn:Eal; [discriminate|].
    unfold plan24 in Hx. rewrite Eal in Hx. rewrite <- app_assoc in Hx.
    apply exec_app_ok in Hx as [rs1 [HP HR]].
    destruct (prep_list_dirs _ _ _ _ _ HP) as [_ Hd].
    erewrite exec_frame; [apply Hd; [apply in_seq; lia|] | exact HR |].
    - unfold already24 in Eal. rewrite <- not_true_iff_false in Eal. rewrite existsb_exists in Eal.
      destruct (present fs (PDir k) && negb (r_ow r)) eqn:E; [|reflexivity].
      exfalso. apply Eal. exists k. split; [apply in_seq; lia | exact E].
    - intros s Hs. apply nodir_step_dir. pose proof (rest24_nodir n w (r_opts r) (r_ow r) (r_corrupt r) tf) as Hf.
      rewrite forallb_forall in Hf. auto. }
  destruct Ht as [Ht|Ht]; rewrite Ht in *; apply G; exact H.
Qed.

(* ====================================================================== *)
(* Forced re-run: from ANY directory in which the input exists, a fault-free *)
(* overwrite=True run completes with a full set of valid outputs             *)
(* ====================================================================== *)
Lemma prep_one_true_run : forall fs0 k rs,
  exec (prep_one true fs0 k) rs =
  (mkR (upd (upd (upd (r_fs rs) (PDir k) Complete) (PFile (Shank k Ap) FBin) Partial)
            (PFile (Shank k Lf) FBin) Partial) (r_checked rs), None).
Proof.
  intros. unfold prep_one. rewrite orb_true_r.
  repeat (cbn [exec step_sem dir_ok r_fs r_checked]; unfold present; upd_simp; cbn [fstate_eqb negb]).
  reflexivity.
Qed.

Lemma prep_list_run : forall fs0 ks rs, exists rs',
  exec (flat_map (prep_one true fs0) ks) rs = (rs', None) /\ r_checked rs' = r_checked rs /\
  (forall q, r_fs rs q <> Absent -> r_fs rs' q <> Absent) /\
  (forall k, In k ks -> r_fs rs' (PFile (Shank k Ap) FBin) <> Absent /\
                        r_fs rs' (PFile (Shank k Lf) FBin) <> Absent).
Proof.
  intros fs0. induction ks as [|k ks IH]; intros rs.
  - exists rs. cbn. repeat split; auto; intros ? [].
  - cbn [flat_map]. rewrite exec_app, prep_one_true_run.
    destruct (IH (mkR (upd (upd (upd (r_fs rs) (PDir k) Complete) (PFile (Shank k Ap) FBin) Partial)
                           (PFile (Shank k Lf) FBin) Partial) (r_checked rs))) as [rs' [Hx [Hc [Hm Hk]]]].
    exists rs'. split; [exact Hx|]. split; [exact Hc|]. split.
    + intros q Hq. apply Hm. cbn. unfold upd.
      repeat (destruct (path_eqb _ _); [discriminate|]). exact Hq.
    + intros k' [->|Hin]; [|apply Hk; exact Hin].
      split; apply Hm; cbn; upd_simp; discriminate.
Qed.

Definition is_append (s : step) : bool := match s with SAppendSh _ _ _ => true | _ => false end.
Lemma appends_run : forall l rs, forallb is_append l = true ->
  exists rs', exec l rs = (rs', None) /\ r_checked rs' = r_checked rs.
Proof.
  induction l as [|s l IH]; intros rs H; [exists rs; auto|].
  cbn in H. apply andb_true_iff in H as [Hs Hl]. destruct s; try discriminate.
  cbn [exec step_sem]. destruct (IH (mkR (fun q => match q with
        | PFile (Shank k e') FBin => if (k <? n)%nat && etype_eqb e e' then (if last then Complete else Partial)
                                     else r_fs rs q
        | _ => r_fs rs q end) (r_checked rs)) Hl) as [rs' [Hx Hc]].
  exists rs'. split; [exact Hx | exact Hc].
Qed.

Lemma wins24_run : forall n w' rs, exists rs',
  exec (wins24 n (S w')) rs = (rs', None) /\ r_checked rs' = r_checked rs /\
  forall k, (k < n)%nat -> r_fs rs' (PFile (Shank k Ap) FBin) = Complete /\
                           r_fs rs' (PFile (Shank k Lf) FBin) = Complete.
Proof.
  intros n w' rs. unfold wins24.
  destruct (appends_run (flat_map (fun _ : nat => [SAppendSh n Ap false; SAppendSh n Lf false]) (seq 0 w')) rs)
    as [rs1 [H1 Hc1]].
  { apply forallb_flat_map. reflexivity. }
  rewrite exec_app, H1. cbn [exec step_sem r_fs r_checked].
  eexists. split; [reflexivity|]. split; [exact Hc1|]. intros k Hk. cbn [r_fs etype_eqb].
  apply Nat.ltb_lt in Hk. rewrite Hk. cbn. auto.
Qed.

Lemma metas_list_run : forall e ks rs,
  (forall k, In k ks -> r_fs rs (PFile (Shank k e) FBin) <> Absent) ->
  exists rs', exec (flat_map (fun k => [SWriteMeta (Shank k e)]) ks) rs = (rs', None) /\
    (forall q, (forall o, q <> PFile o FMeta) -> r_fs rs' q = r_fs rs q).
Proof.
  intros e. induction ks as [|k ks IH]; intros rs Hb.
  - exists rs. cbn. auto.
  - cbn [flat_map app exec step_sem]. rewrite (proj2 (present_true _ _) (Hb k (or_introl eq_refl))).
    destruct (IH (mkR (upd (r_fs rs) (PFile (Shank k e) FMeta) Complete) (r_checked rs))) as [rs' [Hx Hf]].
    { intros k' Hk'. cbn. upd_simp. apply Hb. right; exact Hk'. }
    exists rs'. split; [exact Hx|]. intros q Hq. rewrite Hf by exact Hq. cbn. upd_simp. reflexivity.
Qed.

Definition out_ok (comp : bool) (fs : fsys) (o : owner) : Prop :=
  if comp then fs (PFile o FCbin) = Complete /\ fs (PFile o FCh) = Complete /\ fs (PFile o FBin) = Absent
          /\ fs (PFile o FTmp) = Absent
  else fs (PFile o FBin) = Complete.

Lemma compk_run : forall ow k rs,
  r_fs rs (PFile (Shank k Ap) FBin) = Complete -> r_fs rs (PFile (Shank k Lf) FBin) = Complete ->
  exists rs', exec (compk ow k) rs = (rs', None) /\ r_checked rs' = r_checked rs /\
    out_ok true (r_fs rs') (Shank k Ap) /\ out_ok true (r_fs rs') (Shank k Lf) /\
    forall q, (forall e f, q <> PFile (Shank k e) f) -> r_fs rs' q = r_fs rs q.
Proof.
  intros ow k rs Ha Hl. unfold compk.
  destruct (comp_steps_run ow (Shank k Ap) rs Ha) as [rs1 [H1 [Hc1 [A1 [A2 [A3 [A4 Hf1]]]]]]].
  destruct (comp_steps_run ow (Shank k Lf) rs1) as [rs2 [H2 [Hc2 [B1 [B2 [B3 [B4 Hf2]]]]]]].
  { rewrite Hf1 by congruence. exact Hl. }
  exists rs2. rewrite exec_app, H1. split; [exact H2|]. split; [congruence|].
  unfold out_ok. repeat split; auto; try (rewrite Hf2 by congruence; assumption).
  intros q Hq. rewrite Hf2 by (intros f; apply Hq). apply Hf1. intros f; apply Hq.
Qed.

Lemma comp_list_run : forall ow ks rs, NoDup ks ->
  (forall k, In k ks -> r_fs rs (PFile (Shank k Ap) FBin) = Complete /\
                        r_fs rs (PFile (Shank k Lf) FBin) = Complete) ->
  exists rs', exec (flat_map (compk ow) ks) rs = (rs', None) /\ r_checked rs' = r_checked rs /\
    (forall k, In k ks -> out_ok true (r_fs rs') (Shank k Ap) /\ out_ok true (r_fs rs') (Shank k Lf)) /\
    (forall q, (forall k e f, In k ks -> q <> PFile (Shank k e) f) -> r_fs rs' q = r_fs rs q).
Proof.
  intros ow. induction ks as [|k ks IH]; intros rs Hnd Hb.
  - exists rs. split; [reflexivity|]. split; [reflexivity|]. split; [intros ? [] | reflexivity].
  - inversion Hnd as [|k0 ks0 Hnotin Hnd']; subst.
    destruct (compk_run ow k rs) as [rs1 [H1 [Hc1 [Oa [Ol Hf1]]]]]; try (apply Hb; left; reflexivity).
    destruct (IH rs1 Hnd') as [rs2 [Hx [Hc2 [Hk Hf2]]]].
    { intros k' Hk'. rewrite !Hf1 by (intros e f Heq; inversion Heq; subst; contradiction).
      apply Hb. right; exact Hk'. }
    exists rs2. cbn [flat_map]. rewrite exec_app, H1. split; [exact Hx|]. split; [congruence|]. split.
    + intros k' [->|Hin]; [|apply Hk; exact Hin].
      unfold out_ok in *. destruct Oa as [a1 [a2 [a3 a4]]]. destruct Ol as [l1 [l2 [l3 l4]]].
      repeat split; (rewrite Hf2; [assumption|]);
        intros k'' e f Hin Heq; inversion Heq; subst; contradiction.
    + intros q Hq. rewrite Hf2 by (intros k' e f Hin; apply Hq; right; exact Hin).
      apply Hf1. intros e f. apply Hq. left; reflexivity.
Qed.

Lemma already24_true_ow : forall fs n, already24 true fs n = false.
Proof.
  intros. unfold already24. rewrite <- not_true_iff_false. rewrite existsb_exists.
  intros [k [_ H]]. rewrite andb_false_r in H. discriminate.
Qed.

Lemma all_ap_complete_intro : forall fs n,
  (forall k, (k < n)%nat -> fs (PFile (Shank k Ap) FBin) = Complete) -> all_ap_complete fs n = true.
Proof.
  intros fs n H. unfold all_ap_complete. apply forallb_forall. intros k Hk. apply in_seq in Hk.
  apply complete_true. apply H. lia.
Qed.

Definition final24_ok (n : nat) (o : opts) (fs : fsys) : Prop :=
  forall k, (k < n)%nat ->
    fs (PDir k) = Complete /\
    fs (PFile (Shank k Ap) FMeta) = Complete /\ fs (PFile (Shank k Lf) FMeta) = Complete /\
    out_ok (o_comp o) fs (Shank k Ap) /\ out_ok (o_comp o) fs (Shank k Lf).

Lemma forced24_exec : forall n w' o tf fs,
  fs (PFile Orig tf) <> Absent ->
  exists rs', exec (plan24 n (S w') o true None tf fs) (mkR fs false) = (rs', None) /\
    r_checked rs' = o_post o /\ final24_ok n o (r_fs rs') /\
    r_fs rs' (PFile Orig tf) = (if o_post o && o_del o then Absent else fs (PFile Orig tf)) /\
    forall f, f <> tf -> r_fs rs' (PFile Orig f) = fs (PFile Orig f).
Proof.
  intros n w' o tf fs Hin. unfold plan24. rewrite already24_true_ow.
  destruct (prep_list_run fs (seq 0 n) (mkR fs false)) as [rs1 [E1 [C1 [M1 K1]]]].
  destruct (prep_list_dirs _ _ _ _ _ E1) as [_ D1].
  destruct (wins24_run n w' rs1) as [rs2 [E2 [C2 K2]]].
  destruct (metas_list_run Ap (seq 0 n) rs2) as [rs3 [E3 F3]].
  { intros k Hk. apply in_seq in Hk. destruct (K2 k) as [A _]; [lia|]. rewrite A. discriminate. }
  destruct (metas_list_run Lf (seq 0 n) rs3) as [rs4 [E4 F4]].
  { intros k Hk. apply in_seq in Hk. rewrite F3 by congruence. destruct (K2 k) as [_ A]; [lia|].
    rewrite A. discriminate. }
  destruct (writemeta_list_post _ _ _ _ E3) as [_ [P3 Q3]].
  destruct (writemeta_list_post _ _ _ _ E4) as [P4a [P4 Q4]].
  assert (Hbins : forall k, (k < n)%nat -> r_fs rs4 (PFile (Shank k Ap) FBin) = Complete /\
                                          r_fs rs4 (PFile (Shank k Lf) FBin) = Complete).
  { intros k Hk. rewrite !F4, !F3 by congruence. apply K2. exact Hk. }
  (* verification *)
  set (rs5 := if o_post o then mkR (r_fs rs4) true else rs4).
  assert (E5 : exec (if o_post o then verify24 n None else []) rs4 = (rs5, None)).
  { subst rs5. destruct (o_post o); [|reflexivity]. cbn.
    rewrite all_ap_complete_intro; [reflexivity|]. intros k Hk. apply Hbins. exact Hk. }
  assert (F5 : r_fs rs5 = r_fs rs4) by (subst rs5; destruct (o_post o); reflexivity).
  assert (C5 : r_checked rs5 = o_post o).
  { subst rs5. cbn in C1. destruct (o_post o); [reflexivity|]. congruence. }
  (* compression *)
  assert (E6 : exists rs6, exec (if o_comp o then comp24 true n else []) rs5 = (rs6, None) /\
             r_checked rs6 = r_checked rs5 /\
             (forall k, (k < n)%nat -> out_ok (o_comp o) (r_fs rs6) (Shank k Ap) /\
                                       out_ok (o_comp o) (r_fs rs6) (Shank k Lf)) /\
             (forall q, (forall k e f, q = PFile (Shank k e) f -> f = FMeta) -> r_fs rs6 q = r_fs rs5 q)).
  { destruct (o_comp o).
    - destruct (comp_list_run true (seq 0 n) rs5 (seq_NoDup n 0)) as [rs6 [Hx [Hc [Hko Hf]]]].
      { intros k Hk. apply in_seq in Hk. rewrite F5. apply Hbins. lia. }
      exists rs6. split; [exact Hx|]. split; [exact Hc|]. split.
      + intros k Hk. apply Hko. apply in_seq. lia.
      + intros q Hq. destruct q as [d|ow0 f0].
        * apply Hf. intros; discriminate.
        * destruct (fkind_eqb f0 FMeta) eqn:Ef.
          -- apply fkind_eqb_eq in Ef. subst f0. eapply comp24_meta_frame. exact Hx.
          -- apply Hf. intros k e f _ Heq. inversion Heq; subst.
             rewrite (Hq k e f eq_refl) in Ef. discriminate.
    - exists rs5. cbn. split; [reflexivity|]. split; [reflexivity|]. split; [|reflexivity].
      intros k Hk. rewrite F5. apply Hbins. exact Hk. }
  destruct E6 as [rs6 [E6 [C6 [K6 F6]]]].
  (* delete_NP24 *)
  assert (Horig : forall f, r_fs rs6 (PFile Orig f) = fs (PFile Orig f)).
  { assert (S3 : forall e ks, forallb shank_step (flat_map (fun k => [SWriteMeta (Shank k e)]) ks) = true)
      by (intros; apply forallb_flat_map; reflexivity).
    intros f. rewrite F6 by (intros; discriminate). rewrite F5.
    rewrite (shank_steps_frame_orig _ _ _ _ f (S3 Lf _) E4).
    rewrite (shank_steps_frame_orig _ _ _ _ f (S3 Ap _) E3).
    transitivity (r_fs rs1 (PFile Orig f)).
    - eapply exec_frame; [exact E2|]. intros s Hs. apply shank_step_orig.
      pose proof (body24_shape n (S w') (mkO false false false) true None) as Hsh.
      unfold body24 in Hsh. cbn [o_post o_comp] in Hsh. rewrite !forallb_app in Hsh.
      apply andb_true_iff in Hsh as [Hsh _]. rewrite forallb_forall in Hsh. auto.
    - eapply (exec_frame _ (mkR fs false)); [exact E1|]. intros s Hs. apply shank_step_orig.
      pose proof (prep24_shape true fs n) as Hsh. rewrite forallb_forall in Hsh. auto. }
  assert (E7 : exists rs7, exec (del24 o tf) rs6 = (rs7, None) /\ r_checked rs7 = r_checked rs6 /\
            r_fs rs7 (PFile Orig tf) = (if o_post o && o_del o then Absent else fs (PFile Orig tf)) /\
            forall q, q <> PFile Orig tf -> r_fs rs7 q = r_fs rs6 q).
  { unfold del24. destruct (o_del o).
    - cbn [exec step_sem]. rewrite C6, C5. destruct (o_post o); cbn.
      + unfold unlink. rewrite (proj2 (present_true _ _)) by (rewrite Horig; exact Hin).
        eexists. split; [reflexivity|]. cbn. upd_simp. repeat split; auto. intros q Hq. upd_simp. reflexivity.
      + exists rs6. rewrite Horig. split; [reflexivity|]. split; [congruence|]. split; [reflexivity | auto].
    - exists rs6. cbn. rewrite andb_false_r, Horig. auto. }
  destruct E7 as [rs7 [E7 [C7 [O7 F7]]]].
  exists rs7. split.
  { rewrite exec_app. unfold prep24. unfold prep24 in E1. rewrite exec_app, E1.
    unfold body24, metas24. rewrite exec_app, E2. rewrite exec_app, exec_app, E3, E4.
    rewrite exec_app, E5, E6. exact E7. }
  split; [congruence|]. split; [|split; [exact O7|]].
  - intros k Hk. rewrite !F7 by congruence. destruct (K6 k Hk) as [Ka Kl].
    repeat split.
    + rewrite F6 by (intros; discriminate). rewrite F5, F4, F3 by congruence.
      destruct (wins24_run n w' rs1) as [rsx [Ex _]]. rewrite E2 in Ex. inversion Ex; subst rsx.
      erewrite exec_frame; [apply D1; [apply in_seq; lia | apply andb_false_r] | exact E2 |].
      intros s Hs. apply nodir_step_dir.
      pose proof (rest24_nodir n (S w') (mkO false false false) true None FBin) as Hnd.
      unfold body24 in Hnd. cbn [o_post o_comp] in Hnd. rewrite !forallb_app in Hnd.
      apply andb_true_iff in Hnd as [Hnd _]. apply andb_true_iff in Hnd as [Hnd _].
      rewrite forallb_forall in Hnd. auto.
    + rewrite F6 by (intros k0 e f Heq; inversion Heq; reflexivity). rewrite F5.
      apply P4a. apply P3. apply in_seq. lia.
    + rewrite F6 by (intros k0 e f Heq; inversion Heq; reflexivity). rewrite F5.
      apply P4. apply in_seq. lia.
    + unfold out_ok in *. destruct (o_comp o); rewrite !F7 by congruence; exact Ka.
    + unfold out_ok in *. destruct (o_comp o); rewrite !F7 by congruence; exact Kl.
  - intros f Hf. rewrite F7 by congruence. apply Horig.
Qed.

Lemma comp_steps_meta_frame : forall ow o rs rs' e o',
  exec (comp_steps ow o) rs = (rs', e) -> r_fs rs' (PFile o' FMeta) = r_fs rs (PFile o' FMeta).
Proof. intros. eapply exec_frame; eauto. intros s Hs. eapply touches_comp_meta; eauto. Qed.

Lemma appends21_run : forall l rs, forallb (fun s => match s with SAppend21 _ => true | _ => false end) l = true ->
  exists rs', exec l rs = (rs', None) /\ r_checked rs' = r_checked rs /\
    forall q, q <> PFile Lf21 FBin -> r_fs rs' q = r_fs rs q.
Proof.
  induction l as [|s l IH]; intros rs H; [exists rs; auto|].
  cbn in H. apply andb_true_iff in H as [Hs Hl]. destruct s; try discriminate.
  cbn [exec step_sem].
  destruct (IH (mkR (upd (r_fs rs) (PFile Lf21 FBin) (if last then Complete else Partial)) (r_checked rs)) Hl)
    as [rs' [Hx [Hc Hf]]].
  exists rs'. split; [exact Hx|]. split; [exact Hc|]. intros q Hq. rewrite Hf by exact Hq. cbn. upd_simp. reflexivity.
Qed.

Lemma forced21_exec : forall w' o tf fs,
  (tf = FBin -> fs (PFile Orig FBin) = Complete) ->
  exists rs', exec (plan21 (S w') o true tf fs) (mkR fs false) = (rs', None) /\
    r_fs rs' (PFile Lf21 FMeta) = Complete /\ out_ok (o_comp o) (r_fs rs') Lf21 /\
    (if o_comp o && fkind_eqb tf FBin then out_ok true (r_fs rs') Orig
     else forall f, r_fs rs' (PFile Orig f) = fs (PFile Orig f)) /\
    r_fs rs' (PFile Orig FMeta) = fs (PFile Orig FMeta).
Proof.
  intros w' o tf fs Htf. unfold plan21, already21. rewrite andb_false_r.
  (* head: truncate, windows, metadata *)
  assert (H1 : exists rs1, exec ([STrunc (PFile Lf21 FBin)] ++ wins21 (S w') ++ [SWriteMeta Lf21]) (mkR fs false)
                 = (rs1, None) /\ r_fs rs1 (PFile Lf21 FBin) = Complete /\
                 r_fs rs1 (PFile Lf21 FMeta) = Complete /\
                 forall f, r_fs rs1 (PFile Orig f) = fs (PFile Orig f)).
  { cbn [app exec step_sem dir_ok r_fs r_checked]. unfold wins21.
    destruct (appends21_run (map (fun _ : nat => SAppend21 false) (seq 0 w'))
                (mkR (upd fs (PFile Lf21 FBin) Partial) false)) as [rsa [Ha [_ Fa]]].
    { apply forallb_forall. intros s Hs. apply in_map_iff in Hs as [x [<- _]]. reflexivity. }
    rewrite <- app_assoc, exec_app, Ha. cbn [app exec step_sem r_fs r_checked].
    unfold present. upd_simp. cbn [fstate_eqb negb].
    eexists. split; [reflexivity|]. cbn [r_fs]. upd_simp. split; [reflexivity|]. split; [reflexivity|].
    intros f. upd_simp. rewrite Fa by congruence. cbn. upd_simp. reflexivity. }
  destruct H1 as [rs1 [E1 [B1 [M1 O1]]]].
  rewrite exec_app, E1.
  destruct (o_comp o); cbn [andb out_ok].
  2:{ exists rs1. split; [reflexivity|]. split; [exact M1|]. split; [exact B1|]. split; [exact O1 | apply O1]. }
  destruct (comp_steps_run true Lf21) with (rs := rs1) as [rsx _]; [exact B1|]. clear rsx.
  unfold origcomp21. destruct tf; cbn [fkind_eqb app];
    try (destruct (comp_steps_run true Lf21 rs1 B1) as [rs2 [E2 [_ [A1 [A2 [A3 [A4 F2]]]]]]];
         exists rs2; split; [exact E2|];
         split; [rewrite (comp_steps_meta_frame _ _ _ _ _ Lf21 E2); exact M1|];
         split; [auto|]; split; [intros f; rewrite F2 by congruence; apply O1
                               | rewrite F2 by congruence; apply O1]).
  change (SCompBegin Orig :: SCompEnd Orig :: SRenameCh Orig :: SRename Orig :: SUnlink (PFile Orig FBin) false
            :: comp_steps true Lf21) with (comp_core Orig ++ comp_steps true Lf21).
  destruct (comp_core_run Orig rs1) as [rs2 [E2 [_ [A1 [A2 [A3 [A4 F2]]]]]]].
  { rewrite O1. apply Htf. reflexivity. }
  destruct (comp_steps_run true Lf21 rs2) as [rs3 [E3 [_ [L1 [L2 [L3 [L4 F3]]]]]]].
  { rewrite F2 by congruence. exact B1. }
  exists rs3. rewrite exec_app, E2. split; [exact E3|].
  split; [rewrite (comp_steps_meta_frame _ _ _ _ _ Lf21 E3);
          rewrite (comp_steps_meta_frame false Orig _ _ _ Lf21 E2); exact M1|]. split; [auto|].
  split; [|rewrite F3 by congruence].
  - repeat split; rewrite F3 by congruence; assumption.
  - transitivity (r_fs rs1 (PFile Orig FMeta)); [|apply O1].
    eapply exec_frame; [exact E2|]. intros s Hs. unfold comp_core in Hs. cbn in Hs.
    repeat (destruct Hs as [<-|Hs]; [reflexivity|]). destruct Hs.
Qed.

(* top level *)
Lemma go_full : forall plan fs st al rs',
  exec plan (mkR fs false) = (rs', None) ->
  out_outcome (go plan None fs st al) = Status st /\ out_fs (go plan None fs st al) = r_fs rs' /\
  out_checked (go plan None fs st al) = r_checked rs'.
Proof.
  intros plan fs st al rs' H. unfold go. rewrite H. cbv beta iota zeta. rewrite Nat.ltb_irrefl.
  cbn [out_outcome out_fs out_checked]. auto.
Qed.

Lemma forced24 : forall n w' fs t o,
  (t = TBin \/ t = TCbin) -> input_state NP24 n fs t = Present ->
  let out := run_once NP24 n (S w') fs (mkRun t o true None None) in
  let tf := target_form t in
  out_outcome out = Status 1 /\ out_checked out = o_post o /\ final24_ok n o (out_fs out) /\
  out_fs out (PFile Orig tf) = (if o_post o && o_del o then Absent else fs (PFile Orig tf)) /\
  forall f, f <> tf -> out_fs out (PFile Orig f) = fs (PFile Orig f).
Proof.
  intros n w' fs t o Ht Hin. cbv zeta.
  destruct (input_present_orig _ _ _ _ Hin) as [_ [HB HC]].
  assert (Hp : fs (PFile Orig (target_form t)) <> Absent).
  { destruct Ht as [-> | ->]; cbn; [rewrite HB by reflexivity | destruct HC as [-> _]; [reflexivity|]]; discriminate. }
  destruct (forced24_exec n w' o (target_form t) fs Hp) as [rs' [Hx [Hc [Hf [Ho Hr]]]]].
  unfold run_once. cbn [r_target r_opts r_ow r_crash r_corrupt]. rewrite Hin.
  rewrite already24_true_ow.
  destruct (go_full _ fs 1%Z 0%Z rs' Hx) as [G1 [G2 G3]].
  destruct Ht as [-> | ->]; cbn [target_form] in *; rewrite G1, G2, G3; auto.
Qed.

Lemma forced21 : forall n w' fs t o,
  (t = TBin \/ t = TCbin) -> input_state NP21 n fs t = Present ->
  let out := run_once NP21 n (S w') fs (mkRun t o true None None) in
  out_outcome out = Status 1 /\
  out_fs out (PFile Lf21 FMeta) = Complete /\ out_ok (o_comp o) (out_fs out) Lf21 /\
  (if o_comp o && fkind_eqb (target_form t) FBin then out_ok true (out_fs out) Orig
   else forall f, out_fs out (PFile Orig f) = fs (PFile Orig f)) /\
  out_fs out (PFile Orig FMeta) = fs (PFile Orig FMeta).
Proof.
  intros n w' fs t o Ht Hin. cbv zeta.
  destruct (input_present_orig _ _ _ _ Hin) as [_ [HB HC]].
  assert (Htf : target_form t = FBin -> fs (PFile Orig FBin) = Complete).
  { destruct Ht as [-> | ->]; cbn; [auto | discriminate]. }
  destruct (forced21_exec w' o (target_form t) fs Htf) as [rs' [Hx [Hm [Hl [Ho Hom]]]]].
  unfold run_once. cbn [r_target r_opts r_ow r_crash r_corrupt]. rewrite Hin.
  assert (Hal : already21 true fs = false) by (unfold already21; apply andb_false_r).
  rewrite Hal.
  destruct (go_full _ fs 1%Z 0%Z rs' Hx) as [G1 [G2 G3]].
  destruct Ht as [-> | ->]; cbn [target_form] in *; rewrite G1, G2; auto.
Qed.

(* ====================================================================== *)
(* Several method calls on ONE converter object                              *)
(* ====================================================================== *)
Lemma exec_executed : forall l rs rs' e,
  exec l rs = (rs', e) -> exec (firstn (nexec l rs) l) rs = (rs', None).
Proof.
  induction l as [|s l IH]; intros rs rs' e H.
  - cbn in *. inversion H; reflexivity.
  - cbn [exec nexec] in *. destruct (step_sem s rs) as [rs1|e1] eqn:E.
    + cbn [firstn exec]. rewrite E. eapply IH; eauto.
    + inversion H; subst. reflexivity.
Qed.

Lemma obj_call_exec : forall kd n w ob fs c ob' o,
  obj_call kd n w ob fs c = (ob', o) ->
  exec (out_trace o) (mkR fs (ob_checked ob)) = (mkR (out_fs o) (ob_checked ob'), None).
Proof.
  intros kd n w ob fs c ob' o H. unfold obj_call in H.
  destruct (call_plan kd n w ob fs c) as [[[plan st] al]|].
  - cbv zeta in H.
    destruct (exec (match call_crash c with Some k => firstn k plan | None => plan end)
                   (mkR fs (ob_checked ob))) as [rs' e] eqn:E.
    inversion H; subst; cbn [out_trace out_fs ob_checked].
    rewrite (exec_executed _ _ _ _ E). destruct rs'; reflexivity.
  - inversion H; subst. reflexivity.
Qed.

Lemma obj_steps_exec : forall kd n w cs ob fs,
  exec (obj_steps kd n w ob fs cs) (mkR fs (ob_checked ob)) =
  (mkR (snd (obj_after kd n w ob fs cs)) (ob_checked (fst (obj_after kd n w ob fs cs))), None).
Proof.
  intros kd n w. induction cs as [|c cs IH]; intros ob fs; cbn [obj_steps obj_after].
  - reflexivity.
  - destruct (obj_call kd n w ob fs c) as [ob' o] eqn:E.
    rewrite exec_app, (obj_call_exec _ _ _ _ _ _ _ _ E). apply IH.
Qed.

(* check_completed true  ==>  some check_NP24 step executed by this object found every shank
   ap.bin complete.  (Not: the LAST one — see the _refuted theorems.) *)
Lemma object_check_completed_sound : forall kd n w cs ob fs,
  ob_checked ob = false -> ob_checked (fst (obj_after kd n w ob fs cs)) = true ->
  exists l1 m l2 rsv, obj_steps kd n w ob fs cs = l1 ++ SVerify m :: l2 /\
    exec l1 (mkR fs false) = (rsv, None) /\
    forall k, (k < m)%nat -> r_fs rsv (PFile (Shank k Ap) FBin) = Complete.
Proof.
  intros kd n w cs ob fs Hc H. pose proof (obj_steps_exec kd n w cs ob fs) as E. rewrite Hc in E.
  exact (check_completed_sound (obj_steps kd n w ob fs cs) (mkR fs false) _ eq_refl E H).
Qed.

(* --- sequences of process() calls with fixed options ----------------------------- *)
Definition objJ (n : nat) (ob : obj) (fs : fsys) : Prop :=
  (o_post (ob_opts ob) = false -> ob_checked ob = false) /\
  (ob_tf ob = FBin \/ ob_tf ob = FCbin) /\
  (ob_closed ob = false -> inv NP24 n fs /\ orig_ok fs /\ fs (PFile Orig (ob_tf ob)) <> Absent).

Lemma metas24_noverify : forall n, forallb (fun s => negb (is_verify s)) (metas24 n) = true.
Proof.
  intros. unfold metas24. rewrite forallb_app. apply andb_true_iff. split; apply forallb_flat_map; reflexivity.
Qed.

Lemma plan24_noverify : forall n w o ow corrupt tf fs,
  o_post o = false -> forallb (fun s => negb (is_verify s)) (plan24 n w o ow corrupt tf fs) = true.
Proof.
  intros n w o ow corrupt tf fs Hp. unfold plan24. destruct (already24 ow fs n); [apply prep24_noverify|].
  unfold body24, del24. rewrite Hp. repeat rewrite forallb_app.
  rewrite prep24_noverify, wins24_noverify, metas24_noverify. cbn [forallb andb].
  destruct (o_comp o); [rewrite comp24_noverify|]; destruct (o_del o); reflexivity.
Qed.

Lemma obj_process_step : forall n w ob fs ow cr cp ob' o,
  objJ n ob fs -> obj_call NP24 n w ob fs (CProcess ow cr cp) = (ob', o) ->
  objJ n ob' (out_fs o) /\ (ob_closed ob = false -> inv NP24 n (out_fs o)).
Proof.
  intros n w ob fs ow cr cp ob' o [Jc [Jtf Jo]] H. unfold obj_call in H. cbn [call_plan call_crash] in H.
  cbv zeta in H.
  match type of H with context [exec ?pl0 _] => set (pl := pl0) in * end.
  destruct (exec pl (mkR fs (ob_checked ob))) as [rs' e] eqn:E.
  inversion H; subst ob' o; clear H. cbn [out_fs ob_opts ob_checked ob_tf ob_closed].
  destruct (exec_prefix _ _ _ _ E) as [c0 [_ Hx]].
  destruct (ob_closed ob) eqn:Ecl.
  - (* the object has closed its reader: nothing is promised about the files, only about the flag *)
    split; [|discriminate]. unfold objJ. cbn [ob_opts ob_checked ob_tf ob_closed orb].
    split; [|split; [exact Jtf | discriminate]].
    intros Hp. rewrite <- (Jc Hp). change (r_checked rs' = r_checked (mkR fs (ob_checked ob))).
    eapply exec_checked; [exact Hx|].
    intros s Hs. apply In_firstn in Hs.
    assert (Hin : In s (prep24 ow fs n ++ [SFail (ob_tf ob)])).
    { subst pl. destruct cr as [k|]; [apply In_firstn in Hs|];
        destruct (already24 ow fs n); auto; apply in_or_app; left; exact Hs. }
    apply in_app_or in Hin as [Hin|[<-|[]]]; [|reflexivity].
    apply (no_verify_in _ (prep24_noverify ow fs n)). exact Hin.
  - destruct (Jo eq_refl) as [Hinv [Hok Hpr]].
    assert (Hx' : exists c1, exec (firstn c1 (plan24 n w (ob_opts ob) ow cp (ob_tf ob) fs)) (mkR fs (ob_checked ob))
                             = (rs', None)).
    { subst pl. destruct cr as [k|]; [rewrite firstn_firstn in Hx|]; eauto. }
    destruct Hx' as [c1 Hx1].
    destruct (np24_prefix_gen _ _ _ _ _ _ _ _ _ _ Jc Jtf Hok Hinv Hx1) as [Hinv' [_ [Hoth Htfc]]].
    split; [|intros _; exact Hinv'].
    unfold objJ. cbn [ob_opts ob_checked ob_tf ob_closed orb].
    split; [|split; [exact Jtf|]].
    + intros Hp. rewrite <- (Jc Hp). change (r_checked rs' = r_checked (mkR fs (ob_checked ob))).
      eapply exec_checked; [exact Hx1|].
      intros s Hs. apply In_firstn in Hs.
      apply (no_verify_in _ (plan24_noverify n w (ob_opts ob) ow cp (ob_tf ob) fs Hp)). exact Hs.
    + intros Hcl'. apply andb_false_iff in Hcl'.
      assert (Hp' : r_fs rs' (PFile Orig (ob_tf ob)) <> Absent).
      { destruct Hcl' as [Hc|Hc].
        - apply present_false in Hc. contradiction.
        - apply negb_false_iff in Hc. apply present_true in Hc. exact Hc. }
      assert (Hsame : forall f, r_fs rs' (PFile Orig f) = fs (PFile Orig f)).
      { intros f. destruct (fkind_eqb f (ob_tf ob)) eqn:Ef.
        - apply fkind_eqb_eq in Ef. subst f. destruct Htfc as [Heq|Ha]; [exact Heq | contradiction].
        - apply Hoth. intros ->. rewrite (proj2 (fkind_eqb_eq _ _) eq_refl) in Ef. discriminate. }
      destruct (frame_inv NP24 n fs (r_fs rs') Hsame Hok Hinv) as [Hok' _].
      split; [exact Hinv'|]. split; [exact Hok'|]. exact Hp'.
Qed.

Definition is_process (c : call) : bool := match c with CProcess _ _ _ => true | _ => false end.

Lemma obj_seq_J : forall n w cs ob fs,
  forallb is_process cs = true -> objJ n ob fs ->
  objJ n (fst (obj_after NP24 n w ob fs cs)) (snd (obj_after NP24 n w ob fs cs)).
Proof.
  intros n w. induction cs as [|c cs IH]; intros ob fs Hall HJ; cbn [obj_after]; [exact HJ|].
  cbn in Hall. apply andb_true_iff in Hall as [Hc Hall]. destruct c; try discriminate.
  destruct (obj_call NP24 n w ob fs (CProcess ow crash corrupt)) as [ob' o] eqn:E.
  apply IH; [exact Hall|]. exact (proj1 (obj_process_step _ _ _ _ _ _ _ _ _ HJ E)).
Qed.

Lemma obj_after_app : forall kd n w cs1 cs2 ob fs,
  obj_after kd n w ob fs (cs1 ++ cs2) =
  obj_after kd n w (fst (obj_after kd n w ob fs cs1)) (snd (obj_after kd n w ob fs cs1)) cs2.
Proof.
  intros kd n w. induction cs1 as [|c cs1 IH]; intros cs2 ob fs; cbn [app obj_after]; [reflexivity|].
  destruct (obj_call kd n w ob fs c) as [ob' o]. apply IH.
Qed.

(* any number of process() calls (any overwrite flag, interrupted anywhere, with or without a
   damaged shank file) on one object with fixed options: every call made while the object has not
   yet deleted the original leaves the original recoverable *)
Lemma object_process_sequences_safe : forall n w cs ow cr cp ob fs,
  forallb is_process cs = true -> objJ n ob fs ->
  ob_closed (fst (obj_after NP24 n w ob fs cs)) = false ->
  inv NP24 n (snd (obj_after NP24 n w ob fs (cs ++ [CProcess ow cr cp]))).
Proof.
  intros n w cs ow cr cp ob fs Hall HJ Hcl. rewrite obj_after_app.
  pose proof (obj_seq_J n w cs ob fs Hall HJ) as HJ1.
  set (ob1 := fst (obj_after NP24 n w ob fs cs)) in *. set (fs1 := snd (obj_after NP24 n w ob fs cs)) in *.
  cbn [obj_after]. destruct (obj_call NP24 n w ob1 fs1 (CProcess ow cr cp)) as [ob' o] eqn:E. cbn [snd].
  exact (proj2 (obj_process_step _ _ _ _ _ _ _ _ _ HJ1 E) Hcl).
Qed.

Lemma new_obj_J : forall n fs o (c : bool),
  inv NP24 n fs -> input_state NP24 n fs (if c then TCbin else TBin) = Present ->
  objJ n (new_obj o c) fs.
Proof.
  intros n fs o c Hinv Hin. destruct (input_present_orig _ _ _ _ Hin) as [_ [HB HC]].
  unfold objJ, new_obj. cbn [ob_opts ob_checked ob_tf ob_closed].
  split; [reflexivity|]. split; [destruct c; auto|]. intros _. split; [exact Hinv|].
  destruct c.
  - destruct (HC eq_refl) as [A B]. split; [right; auto | rewrite A; discriminate].
  - split; [left; auto | rewrite (HB eq_refl); discriminate].
Qed.
