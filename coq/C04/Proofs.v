(* C04 — lemmas about the file-level model (coq/C04/Model.v). *)
From Coq Require Import ZArith List Bool Arith Lia.
From IBL.C04 Require Import Model.
Import ListNotations.

(* ---- decidable equalities ---------------------------------------------------- *)
Lemma etype_eqb_eq : forall a b, etype_eqb a b = true <-> a = b.
Proof. destruct a, b; cbn; split; intros; congruence. Qed.
Lemma fkind_eqb_eq : forall a b, fkind_eqb a b = true <-> a = b.
Proof. destruct a, b; cbn; split; intros; congruence. Qed.
Lemma owner_eqb_eq : forall a b, owner_eqb a b = true <-> a = b.
Proof.
  destruct a, b; cbn; split; intros H; try congruence.
  - apply andb_true_iff in H as [H1 H2]. apply Nat.eqb_eq in H1. apply etype_eqb_eq in H2. congruence.
  - inversion H; subst. rewrite Nat.eqb_refl. cbn. apply etype_eqb_eq; reflexivity.
Qed.
Lemma path_eqb_eq : forall a b, path_eqb a b = true <-> a = b.
Proof.
  destruct a, b; cbn; split; intros H; try congruence.
  - apply Nat.eqb_eq in H. congruence.
  - inversion H. apply Nat.eqb_refl.
  - apply andb_true_iff in H as [H1 H2]. apply owner_eqb_eq in H1. apply fkind_eqb_eq in H2. congruence.
  - inversion H; subst. apply andb_true_iff. split; [apply owner_eqb_eq | apply fkind_eqb_eq]; reflexivity.
Qed.
Lemma path_eqb_refl : forall a, path_eqb a a = true.
Proof. intros; apply path_eqb_eq; reflexivity. Qed.
Lemma path_eqb_neq : forall a b, a <> b -> path_eqb a b = false.
Proof. intros a b H. destruct (path_eqb a b) eqn:E; [apply path_eqb_eq in E; contradiction | reflexivity]. Qed.

Lemma upd_same : forall fs p v, upd fs p v p = v.
Proof. intros. unfold upd. rewrite path_eqb_refl. reflexivity. Qed.
Lemma upd_other : forall fs p v q, q <> p -> upd fs p v q = fs q.
Proof. intros. unfold upd. rewrite path_eqb_neq; auto. Qed.

Lemma present_true : forall fs p, present fs p = true <-> fs p <> Absent.
Proof. intros. unfold present. destruct (fs p); cbn; split; intros; congruence. Qed.
Lemma present_false : forall fs p, present fs p = false <-> fs p = Absent.
Proof. intros. unfold present. destruct (fs p); cbn; split; intros; congruence. Qed.
Lemma complete_true : forall fs p, complete fs p = true <-> fs p = Complete.
Proof. intros. unfold complete. destruct (fs p); cbn; split; intros; congruence. Qed.

(* ---- exec ------------------------------------------------------------------------ *)
Lemma exec_app : forall l1 l2 rs,
  exec (l1 ++ l2) rs =
  match exec l1 rs with
  | (rs1, None) => exec l2 rs1
  | (rs1, Some e) => (rs1, Some e)
  end.
Proof.
  induction l1 as [|s l1 IH]; intros l2 rs; cbn; [reflexivity|].
  destruct (step_sem s rs); [apply IH | reflexivity].
Qed.

Lemma exec_app_ok : forall l1 l2 rs rs',
  exec (l1 ++ l2) rs = (rs', None) ->
  exists rs1, exec l1 rs = (rs1, None) /\ exec l2 rs1 = (rs', None).
Proof.
  intros l1 l2 rs rs' H. rewrite exec_app in H.
  destruct (exec l1 rs) as [rs1 [e|]]; [discriminate|]. eauto.
Qed.

(* the state in which a run stops is the state after some error-free prefix *)
Lemma exec_prefix : forall l rs rs' e,
  exec l rs = (rs', e) -> exists c, (c <= length l)%nat /\ exec (firstn c l) rs = (rs', None).
Proof.
  induction l as [|s l IH]; intros rs rs' e H; cbn in H.
  - inversion H; subst. exists 0%nat. split; [lia | reflexivity].
  - destruct (step_sem s rs) as [rs1|e1] eqn:E.
    + destruct (IH _ _ _ H) as [c [Hc Hx]]. exists (S c). split; [cbn; lia|].
      cbn. rewrite E. exact Hx.
    + inversion H; subst. exists 0%nat. split; [lia | reflexivity].
Qed.

(* ---- frames: which paths a step can modify ---------------------------------- *)
Definition touches (s : step) (p : path) : bool :=
  match s with
  | SMkdir k => path_eqb p (PDir k)
  | STrunc q | SCorrupt q | SUnlink q _ => path_eqb p q
  | SAppendSh n e _ =>
      match p with PFile (Shank k e') FBin => (k <? n)%nat && etype_eqb e e' | _ => false end
  | SAppend21 _ => path_eqb p (PFile Lf21 FBin)
  | SWriteMeta o => path_eqb p (PFile o FMeta)
  | SVerify _ => false
  | SCompBegin o => path_eqb p (PFile o FTmp)
  | SCompEnd o => path_eqb p (PFile o FTmp) || path_eqb p (PFile o FCh)
  | SRename o => path_eqb p (PFile o FTmp) || path_eqb p (PFile o FCbin)
  | SDeleteOrig f => path_eqb p (PFile Orig f)
  end.

Lemma unlink_frame : forall rs q mok rs' p,
  unlink rs q mok = Ok rs' -> path_eqb p q = false -> r_fs rs' p = r_fs rs p.
Proof.
  intros rs q mok rs' p H Hp. unfold unlink in H.
  destruct (present (r_fs rs) q).
  - inversion H; subst; cbn. unfold upd. rewrite Hp. reflexivity.
  - destruct mok; inversion H; subst; reflexivity.
Qed.

Lemma step_frame : forall s rs rs' p,
  step_sem s rs = Ok rs' -> touches s p = false -> r_fs rs' p = r_fs rs p.
Proof.
  intros s rs rs' p H Ht. destruct s; cbn in H, Ht.
  - inversion H; subst; cbn. unfold upd. rewrite Ht. reflexivity.
  - destruct (dir_ok _ _); inversion H; subst; cbn. unfold upd. rewrite Ht. reflexivity.
  - inversion H; subst; cbn. destruct p as [k|o f]; [reflexivity|].
    destruct o as [| |k e']; try reflexivity. destruct f; try reflexivity. rewrite Ht. reflexivity.
  - inversion H; subst; cbn. unfold upd. rewrite Ht. reflexivity.
  - destruct (present _ _); inversion H; subst; cbn. unfold upd. rewrite Ht. reflexivity.
  - destruct (present _ _); inversion H; subst; cbn; [|reflexivity]. unfold upd. rewrite Ht. reflexivity.
  - destruct (all_ap_complete _ _); inversion H; subst; reflexivity.
  - eapply unlink_frame; eauto.
  - destruct (present _ _); inversion H; subst; cbn. unfold upd. rewrite Ht. reflexivity.
  - apply orb_false_iff in Ht as [H1 H2]. inversion H; subst; cbn. unfold upd. rewrite H1, H2. reflexivity.
  - apply orb_false_iff in Ht as [H1 H2]. destruct (present _ _); inversion H; subst; cbn.
    unfold upd. rewrite H1, H2. reflexivity.
  - destruct (r_checked rs); [eapply unlink_frame; eauto | inversion H; subst; reflexivity].
Qed.

Lemma exec_frame : forall l rs rs' e p,
  exec l rs = (rs', e) -> (forall s, In s l -> touches s p = false) -> r_fs rs' p = r_fs rs p.
Proof.
  induction l as [|s l IH]; intros rs rs' e p H Hall; cbn in H.
  - inversion H; subst; reflexivity.
  - destruct (step_sem s rs) as [rs1|e1] eqn:E.
    + rewrite (IH _ _ _ _ H); [|intros; apply Hall; right; assumption].
      eapply step_frame; eauto. apply Hall. left; reflexivity.
    + inversion H; subst; reflexivity.
Qed.

(* only SVerify can set check_completed *)
Definition is_verify (s : step) : bool := match s with SVerify _ => true | _ => false end.

Lemma unlink_checked : forall rs q mok rs', unlink rs q mok = Ok rs' -> r_checked rs' = r_checked rs.
Proof.
  intros rs q mok rs' H. unfold unlink in H. destruct (present _ _).
  - inversion H; reflexivity.
  - destruct mok; inversion H; reflexivity.
Qed.

Lemma step_checked : forall s rs rs',
  step_sem s rs = Ok rs' -> is_verify s = false -> r_checked rs' = r_checked rs.
Proof.
  intros s rs rs' H Hv. destruct s; cbn in H, Hv; try discriminate;
    try (inversion H; subst; reflexivity);
    try (destruct (dir_ok _ _); inversion H; subst; reflexivity);
    try (destruct (present _ _); inversion H; subst; reflexivity).
  - eapply unlink_checked; eauto.
  - destruct (r_checked rs) eqn:Ec.
    + rewrite <- Ec. eapply unlink_checked; eauto.
    + inversion H; subst; exact Ec.
Qed.

Lemma exec_checked : forall l rs rs' e,
  exec l rs = (rs', e) -> (forall s, In s l -> is_verify s = false) -> r_checked rs' = r_checked rs.
Proof.
  induction l as [|s l IH]; intros rs rs' e H Hall; cbn in H.
  - inversion H; subst; reflexivity.
  - destruct (step_sem s rs) as [rs1|e1] eqn:E.
    + rewrite (IH _ _ _ H); [|intros; apply Hall; right; assumption].
      eapply step_checked; eauto. apply Hall. left; reflexivity.
    + inversion H; subst; reflexivity.
Qed.

(* check_completed never goes back to false within a run *)
Lemma step_checked_mono : forall s rs rs',
  step_sem s rs = Ok rs' -> r_checked rs = true -> r_checked rs' = true.
Proof.
  intros s rs rs' H Hc. destruct (is_verify s) eqn:Ev.
  - destruct s; try discriminate. cbn in H. destruct (all_ap_complete _ _); inversion H; reflexivity.
  - rewrite (step_checked _ _ _ H Ev). exact Hc.
Qed.

Lemma np1_noop : forall n w fs r k,
  r_target r <> TShank k -> input_state NP1 n fs (r_target r) = Present ->
  out_outcome (run_once NP1 n w fs r) = Status (-1) /\
  (forall p, out_fs (run_once NP1 n w fs r) p = fs p).
Proof.
  intros n w fs r k _ Hin. unfold run_once. rewrite Hin.
  destruct (r_target r); cbn; auto.
  unfold input_state in Hin. destruct (negb _); discriminate.
Qed.

(* ====================================================================== *)
(* Specification predicates                                                 *)
(* ====================================================================== *)
(* the original samples are on disk byte for byte, plain or compressed *)
Definition orig_ok (fs : fsys) : Prop :=
  fs (PFile Orig FBin) = Complete \/
  (fs (PFile Orig FCbin) = Complete /\ fs (PFile Orig FCh) = Complete).
(* shank k's split ap data (plain or compressed) and its metadata are complete *)
Definition shank_ok (fs : fsys) (k : nat) : Prop :=
  (fs (PFile (Shank k Ap) FBin) = Complete \/
   (fs (PFile (Shank k Ap) FCbin) = Complete /\ fs (PFile (Shank k Ap) FCh) = Complete))
  /\ fs (PFile (Shank k Ap) FMeta) = Complete.
Definition shanks_ok (n : nat) (fs : fsys) : Prop := forall k, (k < n)%nat -> shank_ok fs k.
Definition recoverable (kd : kind) (n : nat) (fs : fsys) : Prop :=
  orig_ok fs \/ (kd = NP24 /\ shanks_ok n fs).
Definition inv (kd : kind) (n : nat) (fs : fsys) : Prop :=
  fs (PFile Orig FMeta) = Complete /\ fs (PFile Orig FBin) <> Partial /\ recoverable kd n fs.

Ltac upd_simp :=
  repeat (rewrite upd_same || (rewrite upd_other by congruence)).

Lemma In_firstn : forall (A : Type) (x : A) c l, In x (firstn c l) -> In x l.
Proof.
  intros A x c. induction c as [|c IH]; intros l H; [destruct H|].
  destruct l; [destruct H|]. cbn in H. destruct H; [left; assumption | right; apply IH; assumption].
Qed.

Lemma exec_cons_ok : forall s l rs rs',
  exec (s :: l) rs = (rs', None) -> exists rs1, step_sem s rs = Ok rs1 /\ exec l rs1 = (rs', None).
Proof.
  intros s l rs rs' H. cbn in H. destruct (step_sem s rs) as [rs1|e]; [eauto | discriminate].
Qed.

Lemma forallb_flat_map : forall (A B : Type) (P : B -> bool) (g : A -> list B) l,
  (forall x, In x l -> forallb P (g x) = true) -> forallb P (flat_map g l) = true.
Proof.
  intros A B P g. induction l as [|a l IH]; intros H; cbn; [reflexivity|].
  rewrite forallb_app. rewrite H by (left; reflexivity). cbn. apply IH. intros; apply H; right; assumption.
Qed.

(* ---- shape of the NP2.4 steps before delete_NP24: they only concern shank folders --- *)
Definition shank_step (s : step) : bool :=
  match s with
  | SMkdir _ | SAppendSh _ _ _ | SVerify _ => true
  | STrunc (PFile (Shank _ _) _) | SCorrupt (PFile (Shank _ _) _)
  | SUnlink (PFile (Shank _ _) _) _ => true
  | SWriteMeta (Shank _ _) | SCompBegin (Shank _ _) | SCompEnd (Shank _ _) | SRename (Shank _ _) => true
  | _ => false
  end.

Lemma shank_step_orig : forall s f, shank_step s = true -> touches s (PFile Orig f) = false.
Proof.
  intros s f H. destruct s; cbn in *; try reflexivity; try discriminate;
    repeat match goal with
           | p : path |- _ => destruct p
           | o : owner |- _ => destruct o
           end; cbn in *; try reflexivity; try discriminate.
Qed.

Lemma comp_steps_shape : forall ow k e, forallb shank_step (comp_steps ow (Shank k e)) = true.
Proof. intros. destruct ow; reflexivity. Qed.

Lemma prep24_shape : forall ow fs n, forallb shank_step (prep24 ow fs n) = true.
Proof.
  intros. unfold prep24. apply forallb_flat_map. intros k _. unfold prep_one.
  destruct (negb _ || ow); reflexivity.
Qed.

Lemma body24_shape : forall n w o ow corrupt, forallb shank_step (body24 n w o ow corrupt) = true.
Proof.
  intros. unfold body24. repeat rewrite forallb_app. repeat (apply andb_true_iff; split).
  - unfold wins24. destruct w; [reflexivity|]. rewrite forallb_app. apply andb_true_iff. split; [|reflexivity].
    apply forallb_flat_map. reflexivity.
  - unfold metas24. rewrite forallb_app. apply andb_true_iff.
    split; apply forallb_flat_map; reflexivity.
  - destruct (o_post o); [|reflexivity]. unfold verify24. destruct corrupt; reflexivity.
  - destruct (o_comp o); [|reflexivity]. unfold comp24. apply forallb_flat_map. intros k _.
    rewrite forallb_app. rewrite !comp_steps_shape. reflexivity.
Qed.

Lemma pre24_shape : forall n w o ow corrupt fs,
  forallb shank_step (prep24 ow fs n ++ body24 n w o ow corrupt) = true.
Proof. intros. rewrite forallb_app, prep24_shape, body24_shape. reflexivity. Qed.

(* ---- write_meta_data steps only ever make paths Complete ---------------------- *)
Lemma writemeta_list_post : forall e ks rs rs',
  exec (flat_map (fun k => [SWriteMeta (Shank k e)]) ks) rs = (rs', None) ->
  (forall q, r_fs rs q = Complete -> r_fs rs' q = Complete) /\
  (forall k, In k ks -> r_fs rs' (PFile (Shank k e) FMeta) = Complete) /\
  r_checked rs' = r_checked rs.
Proof.
  intros e. induction ks as [|k ks IH]; intros rs rs' H.
  - cbn in H. inversion H; subst. repeat split; auto. intros k [].
  - cbn [flat_map app] in H. apply exec_cons_ok in H as [rs1 [Hs Hx]].
    cbn in Hs. destruct (present _ _); [|discriminate]. inversion Hs; subst; clear Hs.
    destruct (IH _ _ Hx) as [Hm [Hk Hc]]. cbn in *. repeat split.
    + intros q Hq. apply Hm. cbn. unfold upd. destruct (path_eqb _ _); auto.
    + intros k' [->|Hin]; [|auto]. apply Hm. cbn. apply upd_same.
    + exact Hc.
Qed.

(* ---- compressing one file ------------------------------------------------------- *)
Lemma sem_compbegin : forall o rs, r_fs rs (PFile o FBin) <> Absent ->
  step_sem (SCompBegin o) rs = Ok (mkR (upd (r_fs rs) (PFile o FTmp) Partial) (r_checked rs)).
Proof. intros o rs H. cbn. apply present_true in H. rewrite H. reflexivity. Qed.
Lemma sem_compend : forall o rs, r_fs rs (PFile o FBin) = Complete ->
  step_sem (SCompEnd o) rs =
  Ok (mkR (upd (upd (r_fs rs) (PFile o FTmp) Complete) (PFile o FCh) Complete) (r_checked rs)).
Proof. intros o rs H. cbn. apply complete_true in H. rewrite H. reflexivity. Qed.
Lemma sem_rename : forall o rs, r_fs rs (PFile o FTmp) <> Absent ->
  step_sem (SRename o) rs =
  Ok (mkR (upd (upd (r_fs rs) (PFile o FCbin) (r_fs rs (PFile o FTmp))) (PFile o FTmp) Absent) (r_checked rs)).
Proof. intros o rs H. cbn. apply present_true in H. rewrite H. reflexivity. Qed.
Lemma sem_unlink_present : forall p mok rs, r_fs rs p <> Absent ->
  step_sem (SUnlink p mok) rs = Ok (mkR (upd (r_fs rs) p Absent) (r_checked rs)).
Proof. intros p mok rs H. cbn. unfold unlink. apply present_true in H. rewrite H. reflexivity. Qed.
Lemma sem_unlink_mok : forall p rs, exists rs',
  step_sem (SUnlink p true) rs = Ok rs' /\ r_checked rs' = r_checked rs /\ r_fs rs' p = Absent /\ forall q, q <> p -> r_fs rs' q = r_fs rs q.
Proof.
  intros p rs. cbn. unfold unlink. destruct (present (r_fs rs) p) eqn:E.
  - eexists; split; [reflexivity|]. cbn. repeat split; [apply upd_same | intros; apply upd_other; auto].
  - exists rs. apply present_false in E. auto.
Qed.

Definition comp_core (o : owner) : list step :=
  [SCompBegin o; SCompEnd o; SRename o; SUnlink (PFile o FBin) false].

(* from a complete .bin the four core steps always succeed and leave .cbin + .ch *)
Lemma comp_core_run : forall o rs, r_fs rs (PFile o FBin) = Complete ->
  exists rs', exec (comp_core o) rs = (rs', None) /\ r_checked rs' = r_checked rs /\   r_fs rs' (PFile o FCbin) = Complete /\ r_fs rs' (PFile o FCh) = Complete /\   r_fs rs' (PFile o FBin) = Absent /\ r_fs rs' (PFile o FTmp) = Absent /\   forall q, (forall f, q <> PFile o f) -> r_fs rs' q = r_fs rs q.
Proof.
  intros o rs Hb. unfold comp_core. cbn [exec].
  rewrite sem_compbegin by (rewrite Hb; discriminate).
  rewrite sem_compend by (cbn; upd_simp; exact Hb).
  rewrite sem_rename by (cbn; upd_simp; discriminate).
  rewrite sem_unlink_present by (cbn; upd_simp; rewrite Hb; discriminate).
  eexists; split; [reflexivity|]. cbn. upd_simp. repeat split; auto.
  intros q Hq. upd_simp. reflexivity.
Qed.

Lemma comp_steps_run : forall ow o rs, r_fs rs (PFile o FBin) = Complete ->
  exists rs', exec (comp_steps ow o) rs = (rs', None) /\ r_checked rs' = r_checked rs /\   r_fs rs' (PFile o FCbin) = Complete /\ r_fs rs' (PFile o FCh) = Complete /\   r_fs rs' (PFile o FBin) = Absent /\ r_fs rs' (PFile o FTmp) = Absent /\   forall q, (forall f, q <> PFile o f) -> r_fs rs' q = r_fs rs q.
Proof.
  intros ow o rs Hb. unfold comp_steps.
  change [SCompBegin o; SCompEnd o; SRename o; SUnlink (PFile o FBin) false] with (comp_core o).
  destruct ow; cbn [app].
  - destruct (sem_unlink_mok (PFile o FCbin) rs) as [rs1 [Hs [Hc [_ Hf]]]].
    destruct (comp_core_run o rs1) as [rs' [Hx [Hc' [H1 [H2 [H3 [H4 H5]]]]]]].
    { rewrite Hf by congruence. exact Hb. }
    exists rs'. cbn [exec]. rewrite Hs. rewrite Hx.
    repeat split; auto; try congruence. intros q Hq. rewrite H5 by auto. apply Hf. apply Hq.
  - apply comp_core_run. exact Hb.
Qed.

Lemma comp_one_post : forall ow o rs rs',
  exec (comp_steps ow o) rs = (rs', None) ->
  r_fs rs (PFile o FBin) = Complete ->
  r_fs rs' (PFile o FCbin) = Complete /\ r_fs rs' (PFile o FCh) = Complete /\ r_fs rs' (PFile o FBin) = Absent /\ r_fs rs' (PFile o FTmp) = Absent.
Proof.
  intros ow o rs rs' H Hb. destruct (comp_steps_run ow o rs Hb) as [rs2 [Hx [_ [H1 [H2 [H3 [H4 _]]]]]]].
  rewrite Hx in H. inversion H; subst. auto.
Qed.

Lemma touches_comp_other : forall ow o s p,
  In s (comp_steps ow o) -> (forall f, p <> PFile o f) -> touches s p = false.
Proof.
  intros ow o s p Hin Hp. unfold comp_steps in Hin.
  destruct ow; cbn in Hin;
    repeat (destruct Hin as [<-|Hin]; [cbn [touches]; repeat rewrite path_eqb_neq by apply Hp; reflexivity|]);
    destruct Hin.
Qed.

Lemma touches_comp_meta : forall ow o s o', In s (comp_steps ow o) -> touches s (PFile o' FMeta) = false.
Proof.
  intros ow o s o' Hin. unfold comp_steps in Hin.
  destruct ow; cbn in Hin;
    repeat (destruct Hin as [<-|Hin]; [cbn [touches]; repeat rewrite path_eqb_neq by congruence; reflexivity|]);
    destruct Hin.
Qed.

Definition compk (ow : bool) (k : nat) : list step :=
  comp_steps ow (Shank k Ap) ++ comp_steps ow (Shank k Lf).

Lemma touches_compk_other : forall ow k s p,
  In s (compk ow k) -> (forall e f, p <> PFile (Shank k e) f) -> touches s p = false.
Proof.
  intros ow k s p Hin Hp. apply in_app_or in Hin as [H|H];
    eapply touches_comp_other; eauto.
Qed.

Lemma compk_post : forall ow k rs rs',
  exec (compk ow k) rs = (rs', None) ->
  r_fs rs (PFile (Shank k Ap) FBin) = Complete ->
  r_fs rs' (PFile (Shank k Ap) FCbin) = Complete /\ r_fs rs' (PFile (Shank k Ap) FCh) = Complete.
Proof.
  intros ow k rs rs' H Hb. unfold compk in H. apply exec_app_ok in H as [rs1 [H1 H2]].
  destruct (comp_one_post _ _ _ _ H1 Hb) as [Hc [Hh _]].
  split; (erewrite exec_frame; [| exact H2 |]);
    try assumption; intros s Hs; eapply touches_comp_other; eauto; congruence.
Qed.

Lemma comp_list_post : forall ow ks rs rs',
  NoDup ks -> exec (flat_map (compk ow) ks) rs = (rs', None) ->
  (forall k, In k ks -> r_fs rs (PFile (Shank k Ap) FBin) = Complete) ->
  forall k, In k ks ->
    r_fs rs' (PFile (Shank k Ap) FCbin) = Complete /\ r_fs rs' (PFile (Shank k Ap) FCh) = Complete.
Proof.
  intros ow. induction ks as [|k0 ks IH]; intros rs rs' Hnd H Hb k Hin; [destruct Hin|].
  cbn [flat_map] in H. apply exec_app_ok in H as [rs1 [H1 H2]]. inversion Hnd; subst.
  destruct Hin as [->|Hin].
  - destruct (compk_post _ _ _ _ H1 (Hb k (or_introl eq_refl))) as [Hc Hh].
    split; (erewrite exec_frame; [| exact H2 |]); try assumption;
      intros s Hs; apply in_flat_map in Hs as [k' [Hk' Hs]];
      eapply touches_compk_other; eauto; intros e f Heq; inversion Heq; subst; contradiction.
  - apply (IH rs1 rs'); auto. intros k' Hk'.
    erewrite exec_frame; [apply Hb; right; exact Hk' | exact H1 |].
    intros s Hs. eapply touches_compk_other; eauto. intros e f Heq; inversion Heq; subst; contradiction.
Qed.

Lemma comp24_meta_frame : forall ow n rs rs' e o,
  exec (comp24 ow n) rs = (rs', e) -> r_fs rs' (PFile o FMeta) = r_fs rs (PFile o FMeta).
Proof.
  intros. eapply exec_frame; eauto. intros s Hs. unfold comp24 in Hs.
  apply in_flat_map in Hs as [k [_ Hs]]. apply in_app_or in Hs as [Hs|Hs]; eapply touches_comp_meta; eauto.
Qed.

Lemma all_ap_complete_spec : forall fs n,
  all_ap_complete fs n = true -> forall k, (k < n)%nat -> fs (PFile (Shank k Ap) FBin) = Complete.
Proof.
  intros fs n H k Hk. unfold all_ap_complete in H. rewrite forallb_forall in H.
  apply complete_true. apply H. apply in_seq. lia.
Qed.

Lemma no_verify_in : forall l, forallb (fun s => negb (is_verify s)) l = true ->
  forall s, In s l -> is_verify s = false.
Proof. intros l H s Hs. rewrite forallb_forall in H. apply negb_true_iff. auto. Qed.

Lemma prep24_noverify : forall ow fs n, forallb (fun s => negb (is_verify s)) (prep24 ow fs n) = true.
Proof.
  intros. unfold prep24. apply forallb_flat_map. intros k _. unfold prep_one.
  destruct (negb _ || ow); reflexivity.
Qed.
Lemma wins24_noverify : forall n w, forallb (fun s => negb (is_verify s)) (wins24 n w) = true.
Proof.
  intros. unfold wins24. destruct w; [reflexivity|]. rewrite forallb_app. apply andb_true_iff.
  split; [apply forallb_flat_map|]; reflexivity.
Qed.
Lemma comp24_noverify : forall ow n, forallb (fun s => negb (is_verify s)) (comp24 ow n) = true.
Proof.
  intros. unfold comp24. apply forallb_flat_map. intros k _. unfold comp_steps. destruct ow; reflexivity.
Qed.

(* the crux: if the steps before delete_NP24 ran to the end and left
   check_completed set, every shank's ap data and metadata are complete *)
Lemma body_checked_shanks_ok : forall n w o ow corrupt fs rs1,
  exec (prep24 ow fs n ++ body24 n w o ow corrupt) (mkR fs false) = (rs1, None) ->
  r_checked rs1 = true ->
  o_post o = true /\ shanks_ok n (r_fs rs1).
Proof.
  intros n w o ow corrupt fs rs1 H Hck.
  apply exec_app_ok in H as [rsP [HP H]].
  pose proof (exec_checked _ _ _ _ HP (no_verify_in _ (prep24_noverify _ _ _))) as HcP. cbn in HcP.
  unfold body24 in H.
  apply exec_app_ok in H as [rsW [HW H]].
  pose proof (exec_checked _ _ _ _ HW (no_verify_in _ (wins24_noverify _ _))) as HcW.
  apply exec_app_ok in H as [rsM [HM H]].
  unfold metas24 in HM. apply exec_app_ok in HM as [rsA [HA HL]].
  destruct (writemeta_list_post _ _ _ _ HA) as [_ [HAk HAc]].
  destruct (writemeta_list_post _ _ _ _ HL) as [HLm [_ HLc]].
  assert (Hmeta : forall k, (k < n)%nat -> r_fs rsM (PFile (Shank k Ap) FMeta) = Complete).
  { intros k Hk. apply HLm. apply HAk. apply in_seq. lia. }
  assert (HcM : r_checked rsM = false) by congruence.
  apply exec_app_ok in H as [rsV [HV HC]].
  destruct (o_post o) eqn:Epost.
  2:{ exfalso. cbn in HV. inversion HV; subst rsV.
      assert (r_checked rs1 = r_checked rsM).
      { destruct (o_comp o).
        - eapply exec_checked; eauto. apply no_verify_in, comp24_noverify.
        - cbn in HC. inversion HC; reflexivity. }
      congruence. }
  split; [reflexivity|].
  (* the verification step succeeded on the state left by the (optional) adversary step *)
  assert (HVpost : (forall k, (k < n)%nat -> r_fs rsV (PFile (Shank k Ap) FBin) = Complete) /\
                   (forall o', r_fs rsV (PFile o' FMeta) = r_fs rsM (PFile o' FMeta))).
  { unfold verify24 in HV. apply exec_app_ok in HV as [rsC [HCr HVe]].
    cbn in HVe. destruct (all_ap_complete (r_fs rsC) n) eqn:Eall; [|discriminate].
    inversion HVe; subst rsV; cbn. split; [apply all_ap_complete_spec; exact Eall|].
    intros o'. eapply exec_frame; eauto. intros s Hs. destruct corrupt; cbn in Hs; [|destruct Hs].
    destruct Hs as [<-|[]]. cbn [touches]. apply path_eqb_neq. congruence. }
  destruct HVpost as [Hbin HmetaV].
  destruct (o_comp o).
  - intros k Hk. split.
    + right. unfold comp24 in HC. change (fun k0 => comp_steps ow (Shank k0 Ap) ++ comp_steps ow (Shank k0 Lf))
        with (compk ow) in HC.
      eapply comp_list_post; eauto; [apply seq_NoDup | | apply in_seq; lia].
      intros k' Hk'. apply Hbin. apply in_seq in Hk'. lia.
    + erewrite comp24_meta_frame by eauto. rewrite HmetaV. auto.
  - cbn in HC. inversion HC; subst rs1. intros k Hk. split; [left; auto|]. rewrite HmetaV. auto.
Qed.

(* ====================================================================== *)
(* Safety: every state a run can stop in keeps the original recoverable      *)
(* ====================================================================== *)
Lemma go_out : forall plan crash fs st al,
  exists c rs', exec (firstn c plan) (mkR fs false) = (rs', None) /\
    out_fs (go plan crash fs st al) = r_fs rs' /\
    out_checked (go plan crash fs st al) = r_checked rs'.
Proof.
  intros. unfold go.
  destruct (exec (match crash with Some c => firstn c plan | None => plan end) (mkR fs false))
    as [rs' e] eqn:E.
  destruct (exec_prefix _ _ _ _ E) as [c [Hc Hx]]. cbn.
  destruct crash as [c0|].
  - rewrite firstn_firstn in Hx. eauto.
  - eauto.
Qed.

Lemma input_present_orig : forall kd n fs t,
  input_state kd n fs t = Present ->
  fs (PFile Orig FMeta) = Complete /\
  (t = TBin -> fs (PFile Orig FBin) = Complete) /\
  (t = TCbin -> fs (PFile Orig FCbin) = Complete /\ fs (PFile Orig FCh) = Complete).
Proof.
  intros kd n fs t H. unfold input_state in H.
  destruct (complete fs (PFile Orig FMeta)) eqn:Em; cbn in H; [|discriminate].
  apply complete_true in Em. split; [exact Em|]. split; intros ->.
  - destruct (fs (PFile Orig FBin)); try discriminate. reflexivity.
  - destruct (fs (PFile Orig FCbin)); try discriminate.
    destruct (complete fs (PFile Orig FCh)) eqn:Ec; [|discriminate]. apply complete_true in Ec. auto.
Qed.

Lemma frame_inv : forall kd n fs fs',
  (forall f, fs' (PFile Orig f) = fs (PFile Orig f)) -> orig_ok fs -> inv kd n fs ->
  orig_ok fs' /\ inv kd n fs'.
Proof.
  intros kd n fs fs' Hf Ho [Hm [Hb _]].
  assert (orig_ok fs') by (unfold orig_ok in *; rewrite !Hf; exact Ho).
  split; [assumption|]. unfold inv. rewrite !Hf. repeat split; auto. left; assumption.
Qed.

Lemma shank_steps_frame_orig : forall l rs rs' e f,
  forallb shank_step l = true -> exec l rs = (rs', e) -> r_fs rs' (PFile Orig f) = r_fs rs (PFile Orig f).
Proof.
  intros l rs rs' e f Hs H. eapply exec_frame; eauto. intros s Hin.
  apply shank_step_orig. rewrite forallb_forall in Hs. auto.
Qed.

Lemma forallb_firstn : forall (A : Type) (P : A -> bool) c l,
  forallb P l = true -> forallb P (firstn c l) = true.
Proof.
  intros A P c l H. apply forallb_forall. intros x Hx. rewrite forallb_forall in H.
  apply H. eapply In_firstn; eauto.
Qed.

Lemma shanks_ok_upd_orig : forall n fs f v, shanks_ok n fs -> shanks_ok n (upd fs (PFile Orig f) v).
Proof. intros n fs f v H k Hk. unfold shank_ok. upd_simp. apply H; assumption. Qed.

(* NP2.4: every state along a run; and if the run changed an Orig file at all,
   it did so in its final delete_NP24 step, with check_completed set by a
   successful verification of this very run and all shank outputs complete *)
Lemma np24_prefix : forall n w o ow corrupt tf fs c rs',
  (tf = FBin \/ tf = FCbin) -> orig_ok fs -> inv NP24 n fs ->
  exec (firstn c (plan24 n w o ow corrupt tf fs)) (mkR fs false) = (rs', None) ->
  inv NP24 n (r_fs rs') /\
  ((exists f, r_fs rs' (PFile Orig f) <> fs (PFile Orig f)) ->
     o_post o = true /\ o_del o = true /\ r_checked rs' = true /\ shanks_ok n (r_fs rs') /\
     (length (prep24 ow fs n ++ body24 n w o ow corrupt) < c)%nat /\
     already24 ow fs n = false).
Proof.
  intros n w o ow corrupt tf fs c rs' Htf Ho Hinv H. unfold plan24 in H.
  destruct (already24 ow fs n) eqn:Eal.
  - assert (Hf : forall f, r_fs rs' (PFile Orig f) = fs (PFile Orig f)).
    { intros f. eapply (shank_steps_frame_orig _ (mkR fs false)); eauto.
      apply forallb_firstn, prep24_shape. }
    split; [apply (frame_inv NP24 n fs); auto|]. intros [f Hne]. rewrite Hf in Hne. contradiction.
  - set (A := prep24 ow fs n ++ body24 n w o ow corrupt) in *.
    rewrite firstn_app in H. apply exec_app_ok in H as [rs1 [HA HD]].
    assert (Hf1 : forall f, r_fs rs1 (PFile Orig f) = fs (PFile Orig f)).
    { intros f. eapply (shank_steps_frame_orig _ (mkR fs false)); eauto.
      apply forallb_firstn, pre24_shape. }
    assert (Hsame : rs' = rs1 -> inv NP24 n (r_fs rs') /\
              ((exists f, r_fs rs' (PFile Orig f) <> fs (PFile Orig f)) ->
               o_post o = true /\ o_del o = true /\ r_checked rs' = true /\ shanks_ok n (r_fs rs') /\
               (length A < c)%nat /\ false = false)).
    { intros ->. split; [apply (frame_inv NP24 n fs); auto|].
      intros [f Hne]. rewrite Hf1 in Hne. contradiction. }
    unfold del24 in HD. destruct (o_del o) eqn:Edel.
    2:{ rewrite firstn_nil in HD. cbn in HD. inversion HD; subst. auto. }
    destruct (c - length A)%nat as [|m] eqn:Ec.
    { cbn in HD. inversion HD; subst. auto. }
    cbn [firstn] in HD. rewrite firstn_nil in HD. cbn in HD.
    destruct (r_checked rs1) eqn:Eck.
    2:{ inversion HD; subst. auto. }
    unfold unlink in HD. destruct (present (r_fs rs1) (PFile Orig tf)) eqn:Epr; [|discriminate].
    inversion HD; subst rs'; clear HD. cbn.
    assert (HcA : (length A < c)%nat) by lia.
    rewrite firstn_all2 in HA by lia.
    destruct (body_checked_shanks_ok _ _ _ _ _ _ _ HA Eck) as [Hpost Hsh].
    destruct Hinv as [Hm [Hb _]].
    assert (Hsh' : shanks_ok n (upd (r_fs rs1) (PFile Orig tf) Absent)) by (apply shanks_ok_upd_orig; exact Hsh).
    split.
    + unfold inv. repeat split.
      * destruct Htf as [-> | ->]; upd_simp; rewrite Hf1; exact Hm.
      * destruct Htf as [-> | ->]; upd_simp; [discriminate | rewrite Hf1; exact Hb].
      * right. split; [reflexivity | exact Hsh'].
    + intros _. split; [exact Hpost|]. split; [reflexivity|]. split; [exact Eck|].
      split; [exact Hsh'|]. split; [exact HcA | reflexivity].
Qed.

(* NP2.1 *)
Definition lf21_step (s : step) : bool :=
  match s with
  | SAppend21 _ => true
  | STrunc (PFile Lf21 _) | SUnlink (PFile Lf21 _) _ => true
  | SWriteMeta Lf21 | SCompBegin Lf21 | SCompEnd Lf21 | SRename Lf21 => true
  | _ => false
  end.
Lemma lf21_step_orig : forall s f, lf21_step s = true -> touches s (PFile Orig f) = false.
Proof.
  intros s f H. destruct s; cbn in *; try reflexivity; try discriminate;
    repeat match goal with
           | p : path |- _ => destruct p
           | o : owner |- _ => destruct o
           end; cbn in *; try reflexivity; try discriminate.
Qed.
Lemma lf21_steps_frame_orig : forall l rs rs' e f,
  forallb lf21_step l = true -> exec l rs = (rs', e) -> r_fs rs' (PFile Orig f) = r_fs rs (PFile Orig f).
Proof.
  intros l rs rs' e f Hs H. eapply exec_frame; eauto. intros s Hin.
  apply lf21_step_orig. rewrite forallb_forall in Hs. auto.
Qed.
Lemma head21_shape : forall w,
  forallb lf21_step ([STrunc (PFile Lf21 FBin)] ++ wins21 w ++ [SWriteMeta Lf21]) = true.
Proof.
  intros. cbn. rewrite forallb_app. apply andb_true_iff. split; [|reflexivity].
  unfold wins21. destruct w; [reflexivity|]. rewrite forallb_app. apply andb_true_iff. split; [|reflexivity].
  apply forallb_forall. intros s Hs. apply in_map_iff in Hs as [x [<- _]]. reflexivity.
Qed.
Lemma comp_lf21_shape : forall ow, forallb lf21_step (comp_steps ow Lf21) = true.
Proof. destruct ow; reflexivity. Qed.

(* the in-place compression of the original: at every point either the .bin is
   still complete, or it is gone and the finished .cbin + .ch are complete *)
Definition orig21_ok (fs : fsys) : Prop :=
  fs (PFile Orig FBin) = Complete \/
  (fs (PFile Orig FBin) = Absent /\ fs (PFile Orig FCbin) = Complete /\ fs (PFile Orig FCh) = Complete).

Lemma comp_core_orig_prefix : forall k rs rs',
  r_fs rs (PFile Orig FBin) = Complete ->
  exec (firstn k (comp_core Orig)) rs = (rs', None) ->
  orig21_ok (r_fs rs') /\ r_fs rs' (PFile Orig FMeta) = r_fs rs (PFile Orig FMeta).
Proof.
  intros k rs rs' Hb H. unfold comp_core in H.
  destruct k as [|[|[|[|k]]]]; cbn [firstn exec] in H.
  - inversion H; subst. split; [left; exact Hb | reflexivity].
  - rewrite sem_compbegin in H by (rewrite Hb; discriminate). inversion H; subst; cbn.
    unfold orig21_ok. upd_simp. auto.
  - rewrite sem_compbegin in H by (rewrite Hb; discriminate).
    rewrite sem_compend in H by (cbn; upd_simp; exact Hb). inversion H; subst; cbn.
    unfold orig21_ok. upd_simp. auto.
  - rewrite sem_compbegin in H by (rewrite Hb; discriminate).
    rewrite sem_compend in H by (cbn; upd_simp; exact Hb).
    rewrite sem_rename in H by (cbn; upd_simp; discriminate). inversion H; subst; cbn.
    unfold orig21_ok. upd_simp. auto.
  - rewrite firstn_nil in H.
    rewrite sem_compbegin in H by (rewrite Hb; discriminate).
    rewrite sem_compend in H by (cbn; upd_simp; exact Hb).
    rewrite sem_rename in H by (cbn; upd_simp; discriminate).
    rewrite sem_unlink_present in H by (cbn; upd_simp; rewrite Hb; discriminate).
    inversion H; subst; cbn. unfold orig21_ok. upd_simp. split; [right; auto | reflexivity].
Qed.

Lemma orig21_ok_inv : forall n fs, orig21_ok fs -> fs (PFile Orig FMeta) = Complete -> inv NP21 n fs /\ orig_ok fs.
Proof.
  intros n fs H Hm. assert (orig_ok fs) by (destruct H as [H|[_ H]]; [left|right]; auto).
  split; [|assumption]. unfold inv. repeat split; auto.
  - destruct H as [H|[H _]]; rewrite H; discriminate.
  - left; assumption.
Qed.

Lemma np21_prefix : forall kd n w o ow tf fs c rs',
  orig_ok fs -> inv kd n fs -> (tf = FBin -> fs (PFile Orig FBin) = Complete) ->
  exec (firstn c (plan21 w o ow tf fs)) (mkR fs false) = (rs', None) ->
  inv kd n (r_fs rs') /\ orig_ok (r_fs rs') /\
  (fs (PFile Orig FBin) = Complete -> orig21_ok (r_fs rs')).
Proof.
  intros kd n w o ow tf fs c rs' Ho Hinv Htf H. unfold plan21 in H.
  assert (Hsame : forall rs1 : rstate, (forall f, r_fs rs1 (PFile Orig f) = fs (PFile Orig f)) ->
            inv kd n (r_fs rs1) /\ orig_ok (r_fs rs1) /\
            (fs (PFile Orig FBin) = Complete -> orig21_ok (r_fs rs1))).
  { intros rs1 Hf. destruct (frame_inv kd n fs (r_fs rs1) Hf Ho Hinv) as [X Y].
    split; [exact Y|]. split; [exact X|]. intros Hb. left. rewrite Hf. exact Hb. }
  destruct (already21 ow fs).
  { rewrite firstn_nil in H. cbn in H. inversion H; subst. apply Hsame. reflexivity. }
  rewrite firstn_app in H. apply exec_app_ok in H as [rs1 [HP HQ]].
  assert (Hf1 : forall f, r_fs rs1 (PFile Orig f) = fs (PFile Orig f)).
  { intros f. eapply (lf21_steps_frame_orig _ (mkR fs false)); eauto. apply forallb_firstn, head21_shape. }
  destruct (o_comp o).
  2:{ rewrite firstn_nil in HQ. cbn in HQ. inversion HQ; subst. apply Hsame. exact Hf1. }
  rewrite firstn_app in HQ. apply exec_app_ok in HQ as [rs2 [HO HL]].
  assert (Hf2 : forall f, r_fs rs' (PFile Orig f) = r_fs rs2 (PFile Orig f)).
  { intros f. eapply lf21_steps_frame_orig; eauto. apply forallb_firstn, comp_lf21_shape. }
  unfold origcomp21 in HO. destruct tf;
    try (rewrite firstn_nil in HO; cbn in HO; inversion HO; subst rs2;
         apply Hsame; intros f; rewrite Hf2; apply Hf1).
  fold (comp_core Orig) in HO.
  assert (Hb1 : r_fs rs1 (PFile Orig FBin) = Complete) by (rewrite Hf1; auto).
  destruct (comp_core_orig_prefix _ _ _ Hb1 HO) as [Hok Hm].
  assert (Hok' : orig21_ok (r_fs rs')) by (unfold orig21_ok in *; rewrite !Hf2; exact Hok).
  assert (Hm' : r_fs rs' (PFile Orig FMeta) = Complete).
  { rewrite Hf2, Hm, Hf1. apply Hinv. }
  destruct (orig21_ok_inv n _ Hok' Hm') as [Hi Hoo].
  split; [|split; [exact Hoo | intros _; exact Hok']].
  destruct Hi as [A [B _]]. unfold inv. split; [exact A|]. split; [exact B|]. left; exact Hoo.
Qed.

Lemma run_once_inv : forall kd n w fs r, inv kd n fs -> inv kd n (out_fs (run_once kd n w fs r)).
Proof.
  intros kd n w fs r Hinv. unfold run_once.
  destruct (input_state kd n fs (r_target r)) eqn:Ein; try exact Hinv.
  destruct (input_present_orig _ _ _ _ Ein) as [Hm [HB HC]].
  destruct (r_target r) eqn:Et; try exact Hinv.
  - (* TBin *)
    assert (Ho : orig_ok fs) by (left; auto).
    destruct kd; try exact Hinv.
    + destruct (go_out (plan24 n w (r_opts r) (r_ow r) (r_corrupt r) (target_form TBin) fs) (r_crash r) fs
                  (if already24 (r_ow r) fs n then 0%Z else 1%Z) (if already24 (r_ow r) fs n then 1%Z else 0%Z))
        as [c [rs' [Hx [Hfs _]]]].
      rewrite Hfs. exact (proj1 (np24_prefix _ _ _ _ _ _ _ _ _ (or_introl eq_refl) Ho Hinv Hx)).
    + destruct (go_out (plan21 w (r_opts r) (r_ow r) (target_form TBin) fs) (r_crash r) fs
                  (if already21 (r_ow r) fs then 0%Z else 1%Z) (if already21 (r_ow r) fs then 1%Z else 0%Z))
        as [c [rs' [Hx [Hfs _]]]].
      rewrite Hfs. exact (proj1 (np21_prefix _ _ _ _ _ _ _ _ _ Ho Hinv (fun _ => HB eq_refl) Hx)).
  - (* TCbin *)
    assert (Ho : orig_ok fs) by (right; auto).
    destruct kd; try exact Hinv.
    + destruct (go_out (plan24 n w (r_opts r) (r_ow r) (r_corrupt r) (target_form TCbin) fs) (r_crash r) fs
                  (if already24 (r_ow r) fs n then 0%Z else 1%Z) (if already24 (r_ow r) fs n then 1%Z else 0%Z))
        as [c [rs' [Hx [Hfs _]]]].
      rewrite Hfs. exact (proj1 (np24_prefix _ _ _ _ _ _ _ _ _ (or_intror eq_refl) Ho Hinv Hx)).
    + destruct (go_out (plan21 w (r_opts r) (r_ow r) (target_form TCbin) fs) (r_crash r) fs
                  (if already21 (r_ow r) fs then 0%Z else 1%Z) (if already21 (r_ow r) fs then 1%Z else 0%Z))
        as [c [rs' [Hx [Hfs _]]]].
      rewrite Hfs.
      assert (Htf : target_form TCbin = FBin -> fs (PFile Orig FBin) = Complete) by (cbn; discriminate).
      exact (proj1 (np21_prefix _ _ _ _ _ _ _ _ _ Ho Hinv Htf Hx)).
Qed.

Lemma init_inv : forall kd n c, inv kd n (init_fs c).
Proof.
  intros. unfold inv, recoverable, orig_ok. cbn. destruct c; repeat split; try discriminate; auto.
Qed.

Lemma history_inv : forall kd n w h fs, inv kd n fs -> inv kd n (state_after kd n w fs h).
Proof.
  intros kd n w. induction h as [|r h IH]; intros fs H; cbn; [exact H|].
  apply IH. apply run_once_inv. exact H.
Qed.

Lemma original_recoverable : forall kd n w c h,
  let fs := state_after kd n w (init_fs c) h in
  fs (PFile Orig FMeta) = Complete /\ recoverable kd n fs.
Proof.
  intros. destruct (history_inv kd n w h (init_fs c) (init_inv kd n c)) as [A [_ B]]. auto.
Qed.

(* check_completed is set only by a verification step that found every shank's
   ap.bin complete at that moment *)
Lemma check_completed_sound : forall l rs rs',
  r_checked rs = false -> exec l rs = (rs', None) -> r_checked rs' = true ->
  exists l1 m l2 rsv, l = l1 ++ SVerify m :: l2 /\ exec l1 rs = (rsv, None) /\
    forall k, (k < m)%nat -> r_fs rsv (PFile (Shank k Ap) FBin) = Complete.
Proof.
  induction l as [|s l IH]; intros rs rs' Hc H Hck.
  - cbn in H. inversion H; subst. congruence.
  - apply exec_cons_ok in H as [rs1 [Hs Hx]].
    destruct (is_verify s) eqn:Ev.
    + destruct s; try discriminate. exists [], n, l, rs. split; [reflexivity|]. split; [reflexivity|].
      cbn in Hs. destruct (all_ap_complete (r_fs rs) n) eqn:E; [|discriminate].
      apply all_ap_complete_spec. exact E.
    + pose proof (step_checked _ _ _ Hs Ev) as Hc1. rewrite Hc in Hc1.
      destruct (IH _ _ Hc1 Hx Hck) as [l1 [m [l2 [rsv [El [Hx1 Hall]]]]]].
      exists (s :: l1), m, l2, rsv. split; [cbn; rewrite El; reflexivity|]. split; [|exact Hall].
      cbn. rewrite Hs. exact Hx1.
Qed.

Lemma split_input_noop : forall kd n w fs r k,
  r_target r = TShank k -> input_state kd n fs (r_target r) = Present ->
  let o := run_once kd n w fs r in
  out_outcome o = Status 0 /\ out_processed o = true /\ out_trace o = [] /\ forall p, out_fs o p = fs p.
Proof.
  intros kd n w fs r k Ht Hin. unfold run_once. rewrite Hin, Ht. cbn. auto.
Qed.

(* ====================================================================== *)
(* Idempotence: a run without overwrite on a converted directory            *)
(* ====================================================================== *)
Lemma flat_map_nil : forall (A B : Type) (g : A -> list B) l,
  (forall x, In x l -> g x = []) -> flat_map g l = [].
Proof.
  intros A B g. induction l as [|a l IH]; intros H; cbn; [reflexivity|].
  rewrite H by (left; reflexivity). cbn. apply IH. intros; apply H; right; assumption.
Qed.

Lemma go_nil : forall crash fs st al,
  go [] crash fs st al = mkOut fs (Status st) false al false [].
Proof. intros. unfold go. destruct crash as [c|]; [rewrite firstn_nil|]; reflexivity. Qed.

Lemma rerun_noop24 : forall n w fs r,
  (1 <= n)%nat -> (forall k, (k < n)%nat -> fs (PDir k) <> Absent) ->
  r_ow r = false -> (r_target r = TBin \/ r_target r = TCbin) ->
  input_state NP24 n fs (r_target r) = Present ->
  run_once NP24 n w fs r = mkOut fs (Status 0) false 1 false [].
Proof.
  intros n w fs r Hn Hd How Ht Hin. unfold run_once. rewrite Hin, How.
  assert (Hal : already24 false fs n = true).
  { unfold already24. apply existsb_exists. exists 0%nat. split; [apply in_seq; lia|].
    rewrite (proj2 (present_true fs (PDir 0))); [reflexivity | apply Hd; lia]. }
  assert (Hpl : forall o c tf, plan24 n w o false c tf fs = []).
  { intros. unfold plan24. rewrite Hal. unfold prep24. apply flat_map_nil. intros k Hk.
    apply in_seq in Hk. unfold prep_one.
    rewrite (proj2 (present_true fs (PDir k))); [reflexivity | apply Hd; lia]. }
  destruct Ht as [-> | ->]; rewrite Hal, Hpl; apply go_nil.
Qed.

Lemma rerun_noop21 : forall n w fs r,
  (fs (PFile Lf21 FBin) <> Absent \/ fs (PFile Lf21 FCbin) <> Absent) ->
  r_ow r = false -> (r_target r = TBin \/ r_target r = TCbin) ->
  input_state NP21 n fs (r_target r) = Present ->
  run_once NP21 n w fs r = mkOut fs (Status 0) false 1 false [].
Proof.
  intros n w fs r Hd How Ht Hin. unfold run_once. rewrite Hin, How.
  assert (Hal : already21 false fs = true).
  { unfold already21. destruct Hd as [H|H]; apply present_true in H; rewrite H; cbn;
      [reflexivity | rewrite orb_true_r; reflexivity]. }
  assert (Hpl : forall o tf, plan21 w o false tf fs = []) by (intros; unfold plan21; rewrite Hal; reflexivity).
  destruct Ht as [-> | ->]; rewrite Hal, Hpl; apply go_nil.
Qed.

(* a run that returned a status executed its whole plan without error *)
Lemma go_status : forall plan crash fs st al z,
  out_outcome (go plan crash fs st al) = Status z ->
  exists rs', exec plan (mkR fs false) = (rs', None) /\ out_fs (go plan crash fs st al) = r_fs rs' /\
              out_checked (go plan crash fs st al) = r_checked rs' /\ z = st.
Proof.
  intros plan crash fs st al z H. unfold go in *.
  set (pl := match crash with Some c => firstn c plan | None => plan end) in *.
  destruct (exec pl (mkR fs false)) as [rs' e] eqn:E. cbn [out_outcome out_fs out_checked] in *.
  destruct e; [discriminate|].
  destruct (length pl <? length plan)%nat eqn:El; [discriminate|]. inversion H; subst z.
  apply Nat.ltb_ge in El.
  assert (pl = plan).
  { subst pl. destruct crash as [c|]; [|reflexivity]. rewrite firstn_length in El.
    apply firstn_all2. lia. }
  rewrite <- H0. eauto.
Qed.

Definition nodir_step (s : step) : bool :=
  match s with
  | SMkdir _ | STrunc (PDir _) | SCorrupt (PDir _) | SUnlink (PDir _) _ => false
  | _ => true
  end.
Lemma nodir_step_dir : forall s k, nodir_step s = true -> touches s (PDir k) = false.
Proof.
  intros s k H. destruct s; cbn in *; try reflexivity; try discriminate;
    try (destruct p; [discriminate | reflexivity]).
Qed.
Lemma comp_steps_nodir : forall ow o, forallb nodir_step (comp_steps ow o) = true.
Proof. destruct ow; reflexivity. Qed.
Lemma rest24_nodir : forall n w o ow corrupt tf,
  forallb nodir_step (body24 n w o ow corrupt ++ del24 o tf) = true.
Proof.
  intros. unfold body24, del24. repeat rewrite forallb_app. repeat (apply andb_true_iff; split).
  - unfold wins24. destruct w; [reflexivity|]. rewrite forallb_app. apply andb_true_iff. split; [|reflexivity].
    apply forallb_flat_map. reflexivity.
  - unfold metas24. rewrite forallb_app. apply andb_true_iff. split; apply forallb_flat_map; reflexivity.
  - destruct (o_post o); [|reflexivity]. unfold verify24. destruct corrupt; reflexivity.
  - destruct (o_comp o); [|reflexivity]. unfold comp24. apply forallb_flat_map. intros k _.
    rewrite forallb_app, !comp_steps_nodir. reflexivity.
  - destruct (o_del o); reflexivity.
Qed.

(* _prepare_files: folders that exist keep existing, created folders exist *)
Lemma prep_list_dirs : forall ow fs ks rs rs',
  exec (flat_map (prep_one ow fs) ks) rs = (rs', None) ->
  (forall k, r_fs rs (PDir k) = Complete -> r_fs rs' (PDir k) = Complete) /\
  (forall k, In k ks -> present fs (PDir k) && negb ow = false -> r_fs rs' (PDir k) = Complete).
Proof.
  intros ow fs. induction ks as [|k0 ks IH]; intros rs rs' H.
  - cbn in H. inversion H; subst. split; [auto | intros k []].
  - cbn [flat_map] in H. apply exec_app_ok in H as [rs1 [H1 H2]].
    destruct (IH _ _ H2) as [Hm Hk].
    assert (Hm1 : forall k, r_fs rs (PDir k) = Complete -> r_fs rs1 (PDir k) = Complete).
    { intros k Hc. unfold prep_one in H1. destruct (negb (present fs (PDir k0)) || ow).
      - cbn in H1. destruct (present _ _); [|discriminate]. cbn in H1.
        destruct (present _ _); [|discriminate]. inversion H1; subst; cbn. upd_simp.
        unfold upd. destruct (path_eqb _ _); auto.
      - cbn in H1. inversion H1; subst. exact Hc. }
    split; [intros k Hc; apply Hm, Hm1, Hc|].
    intros k [->|Hin] Hcond; [|apply Hk; assumption].
    apply Hm. unfold prep_one in H1.
    assert (E : negb (present fs (PDir k)) || ow = true).
    { destruct (present fs (PDir k)), ow; cbn in *; congruence. }
    rewrite E in H1. cbn in H1. destruct (present _ _); [|discriminate]. cbn in H1.
    destruct (present _ _); [|discriminate]. inversion H1; subst; cbn. upd_simp. reflexivity.
Qed.

Lemma complete24_dirs : forall n w fs r,
  (r_target r = TBin \/ r_target r = TCbin) ->
  out_outcome (run_once NP24 n w fs r) = Status 1 ->
  forall k, (k < n)%nat -> out_fs (run_once NP24 n w fs r) (PDir k) = Complete.
Proof.
  intros n w fs r Ht H k Hk. unfold run_once in *.
  destruct (input_state NP24 n fs (r_target r)); try discriminate.
  assert (G : forall tf,
    out_outcome (go (plan24 n w (r_opts r) (r_ow r) (r_corrupt r) tf fs) (r_crash r) fs
       (if already24 (r_ow r) fs n then 0%Z else 1%Z) (if already24 (r_ow r) fs n then 1%Z else 0%Z)) = Status 1 ->
    out_fs (go (plan24 n w (r_opts r) (r_ow r) (r_corrupt r) tf fs) (r_crash r) fs
       (if already24 (r_ow r) fs n then 0%Z else 1%Z) (if already24 (r_ow r) fs n then 1%Z else 0%Z)) (PDir k) = Complete).
  { intros tf Hs. apply go_status in Hs as [rs' [Hx [Hfs [_ Hst]]]]. rewrite Hfs.
    destruct (already24 (r_ow r) fs n) eqn:Eal; [discriminate|].
    unfold plan24 in Hx. rewrite Eal in Hx. rewrite <- app_assoc in Hx.
    apply exec_app_ok in Hx as [rs1 [HP HR]].
    destruct (prep_list_dirs _ _ _ _ _ HP) as [_ Hd].
    erewrite exec_frame; [apply Hd; [apply in_seq; lia|] | exact HR |].
    - unfold already24 in Eal. rewrite <- not_true_iff_false in Eal. rewrite existsb_exists in Eal.
      destruct (present fs (PDir k) && negb (r_ow r)) eqn:E; [|reflexivity].
      exfalso. apply Eal. exists k. split; [apply in_seq; lia | exact E].
    - intros s Hs. apply nodir_step_dir. pose proof (rest24_nodir n w (r_opts r) (r_ow r) (r_corrupt r) tf) as Hf.
      rewrite forallb_forall in Hf. auto. }
  destruct Ht as [Ht|Ht]; rewrite Ht in *; apply G; exact H.
Qed.
