(* C04 — lemmas about the file-level model (coq/C04/Model.v). *)
From Coq Require Import ZArith List Bool Arith Lia.
From IBL.C04 Require Import Model.
Import ListNotations.

(* ---- decidable equalities ---------------------------------------------------- *)
Lemma etype_eqb_eq : forall a b, etype_eqb a b = true <-> a = b.
Proof. destruct a, b; cbn; split; intros; congruence. Qed.
Lemma fkind_eqb_eq : forall a b, fkind_eqb a b = true <-> a = b.
Proof. destruct a, b; cbn; split; intros; congruence. Qed.
Lemma owner_eqb_eq : forall a b, owner_eqb a b = true <-> a = b.
Proof.
  destruct a, b; cbn; split; intros H; try congruence.
  - apply andb_true_iff in H as [H1 H2]. apply Nat.eqb_eq in H1. apply etype_eqb_eq in H2. congruence.
  - inversion H; subst. rewrite Nat.eqb_refl. cbn. apply etype_eqb_eq; reflexivity.
Qed.
Lemma path_eqb_eq : forall a b, path_eqb a b = true <-> a = b.
Proof.
  destruct a, b; cbn; split; intros H; try congruence.
  - apply Nat.eqb_eq in H. congruence.
  - inversion H. apply Nat.eqb_refl.
  - apply andb_true_iff in H as [H1 H2]. apply owner_eqb_eq in H1. apply fkind_eqb_eq in H2. congruence.
  - inversion H; subst. apply andb_true_iff. split; [apply owner_eqb_eq | apply fkind_eqb_eq]; reflexivity.
Qed.
Lemma path_eqb_refl : forall a, path_eqb a a = true.
Proof. intros; apply path_eqb_eq; reflexivity. Qed.
Lemma path_eqb_neq : forall a b, a <> b -> path_eqb a b = false.
Proof. intros a b H. destruct (path_eqb a b) eqn:E; [apply path_eqb_eq in E; contradiction | reflexivity]. Qed.

Lemma upd_same : forall fs p v, upd fs p v p = v.
Proof. intros. unfold upd. rewrite path_eqb_refl. reflexivity. Qed.
Lemma upd_other : forall fs p v q, q <> p -> upd fs p v q = fs q.
Proof. intros. unfold upd. rewrite path_eqb_neq; auto. Qed.

Lemma present_true : forall fs p, present fs p = true <-> fs p <> Absent.
Proof. intros. unfold present. destruct (fs p); cbn; split; intros; congruence. Qed.
Lemma present_false : forall fs p, present fs p = false <-> fs p = Absent.
Proof. intros. unfold present. destruct (fs p); cbn; split; intros; congruence. Qed.
Lemma complete_true : forall fs p, complete fs p = true <-> fs p = Complete.
Proof. intros. unfold complete. destruct (fs p); cbn; split; intros; congruence. Qed.

(* ---- exec ------------------------------------------------------------------------ *)
Lemma exec_app : forall l1 l2 rs,
  exec (l1 ++ l2) rs =
  match exec l1 rs with
  | (rs1, None) => exec l2 rs1
  | (rs1, Some e) => (rs1, Some e)
  end.
Proof.
  induction l1 as [|s l1 IH]; intros l2 rs; cbn; [reflexivity|].
  destruct (step_sem s rs); [apply IH | reflexivity].
Qed.

Lemma exec_app_ok : forall l1 l2 rs rs',
  exec (l1 ++ l2) rs = (rs', None) ->
  exists rs1, exec l1 rs = (rs1, None) /\ exec l2 rs1 = (rs', None).
Proof.
  intros l1 l2 rs rs' H. rewrite exec_app in H.
  destruct (exec l1 rs) as [rs1 [e|]]; [discriminate|]. eauto.
Qed.

(* the state in which a run stops is the state after some error-free prefix *)
Lemma exec_prefix : forall l rs rs' e,
  exec l rs = (rs', e) -> exists c, (c <= length l)%nat /\ exec (firstn c l) rs = (rs', None).
Proof.
  induction l as [|s l IH]; intros rs rs' e H; cbn in H.
  - inversion H; subst. exists 0%nat. split; [lia | reflexivity].
  - destruct (step_sem s rs) as [rs1|e1] eqn:E.
    + destruct (IH _ _ _ H) as [c [Hc Hx]]. exists (S c). split; [cbn; lia|].
      cbn. rewrite E. exact Hx.
    + inversion H; subst. exists 0%nat. split; [lia | reflexivity].
Qed.

(* ---- frames: which paths a step can modify ---------------------------------- *)
Definition touches (s : step) (p : path) : bool :=
  match s with
  | SMkdir k => path_eqb p (PDir k)
  | STrunc q | SCorrupt q | SUnlink q _ => path_eqb p q
  | SAppendSh n e _ =>
      match p with PFile (Shank k e') FBin => (k <? n)%nat && etype_eqb e e' | _ => false end
  | SAppendSub sub e _ =>
      match p with PFile (Shank k e') FBin => mem k sub && etype_eqb e e' | _ => false end
  | SAppend21 _ => path_eqb p (PFile Lf21 FBin)
  | SWriteMeta o => path_eqb p (PFile o FMeta)
  | SVerify _ | SVerifyS _ _ | SCheckBegin => false
  | SCompBegin o => path_eqb p (PFile o FTmp)
  | SCompEnd o => path_eqb p (PFile o FTmp) || path_eqb p (PFile o FChTmp)
  | SRenameCh o => path_eqb p (PFile o FChTmp) || path_eqb p (PFile o FCh)
  | SRename o => path_eqb p (PFile o FTmp) || path_eqb p (PFile o FCbin)
  | SDeleteOrig f => path_eqb p (PFile Orig f)
  | SFail _ => false
  end.

Lemma unlink_frame : forall rs q mok rs' p,
  unlink rs q mok = Ok rs' -> path_eqb p q = false -> r_fs rs' p = r_fs rs p.
Proof.
  intros rs q mok rs' p H Hp. unfold unlink in H.
  destruct (present (r_fs rs) q).
  - inversion H; subst; cbn. unfold upd. rewrite Hp. reflexivity.
  - destruct mok; inversion H; subst; reflexivity.
Qed.

Lemma step_frame : forall s rs rs' p,
  step_sem s rs = Ok rs' -> touches s p = false -> r_fs rs' p = r_fs rs p.
Proof.
  intros s rs rs' p H Ht. destruct s; cbn in H, Ht.
  - inversion H; subst; cbn. unfold upd. rewrite Ht. reflexivity.
  - destruct (dir_ok _ _); inversion H; subst; cbn. unfold upd. rewrite Ht. reflexivity.
  - inversion H; subst; cbn. destruct p as [k|o f|]; try reflexivity.
    destruct o as [| |k e']; try reflexivity. destruct f; try reflexivity. rewrite Ht. reflexivity.
  - inversion H; subst; cbn. destruct p as [k|o f|]; try reflexivity.
    destruct o as [| |k e']; try reflexivity. destruct f; try reflexivity. rewrite Ht. reflexivity.
  - inversion H; subst; cbn. unfold upd. rewrite Ht. reflexivity.
  - destruct (present _ _); inversion H; subst; cbn. unfold upd. rewrite Ht. reflexivity.
  - destruct (present _ _); inversion H; subst; cbn; [|reflexivity]. unfold upd. rewrite Ht. reflexivity.
  - inversion H; subst; reflexivity.
  - destruct (all_ap_complete _ _); inversion H; subst; reflexivity.
  - destruct (verify_cover _ _ _); inversion H; subst; reflexivity.
  - eapply unlink_frame; eauto.
  - destruct (present _ _); inversion H; subst; cbn. unfold upd. rewrite Ht. reflexivity.
  - apply orb_false_iff in Ht as [H1 H2]. inversion H; subst; cbn. unfold upd. rewrite H1, H2. reflexivity.
  - apply orb_false_iff in Ht as [H1 H2]. destruct (present _ _); inversion H; subst; cbn.
    unfold upd. rewrite H1, H2. reflexivity.
  - apply orb_false_iff in Ht as [H1 H2]. destruct (present _ _); inversion H; subst; cbn.
    unfold upd. rewrite H1, H2. reflexivity.
  - destruct (r_checked rs); [eapply unlink_frame; eauto | inversion H; subst; reflexivity].
  - discriminate.
Qed.

Lemma exec_frame : forall l rs rs' e p,
  exec l rs = (rs', e) -> (forall s, In s l -> touches s p = false) -> r_fs rs' p = r_fs rs p.
Proof.
  induction l as [|s l IH]; intros rs rs' e p H Hall; cbn in H.
  - inversion H; subst; reflexivity.
  - destruct (step_sem s rs) as [rs1|e1] eqn:E.
    + rewrite (IH _ _ _ _ H); [|intros; apply Hall; right; assumption].
      eapply step_frame; eauto. apply Hall. left; reflexivity.
    + inversion H; subst; reflexivity.
Qed.

(* only SVerify can set check_completed *)
(* the steps that write check_completed *)
Definition is_verify (s : step) : bool :=
  match s with SVerify _ | SVerifyS _ _ | SCheckBegin => true | _ => false end.

Lemma unlink_checked : forall rs q mok rs', unlink rs q mok = Ok rs' -> r_checked rs' = r_checked rs.
Proof.
  intros rs q mok rs' H. unfold unlink in H. destruct (present _ _).
  - inversion H; reflexivity.
  - destruct mok; inversion H; reflexivity.
Qed.

Lemma step_checked : forall s rs rs',
  step_sem s rs = Ok rs' -> is_verify s = false -> r_checked rs' = r_checked rs.
Proof.
  intros s rs rs' H Hv. destruct s; cbn in H, Hv; try discriminate;
    try (inversion H; subst; reflexivity);
    try (destruct (dir_ok _ _); inversion H; subst; reflexivity);
    try (destruct (present _ _); inversion H; subst; reflexivity).
  - eapply unlink_checked; eauto.
  - destruct (r_checked rs) eqn:Ec.
    + rewrite <- Ec. eapply unlink_checked; eauto.
    + inversion H; subst; exact Ec.
Qed.

Lemma exec_checked : forall l rs rs' e,
  exec l rs = (rs', e) -> (forall s, In s l -> is_verify s = false) -> r_checked rs' = r_checked rs.
Proof.
  induction l as [|s l IH]; intros rs rs' e H Hall; cbn in H.
  - inversion H; subst; reflexivity.
  - destruct (step_sem s rs) as [rs1|e1] eqn:E.
    + rewrite (IH _ _ _ H); [|intros; apply Hall; right; assumption].
      eapply step_checked; eauto. apply Hall. left; reflexivity.
    + inversion H; subst; reflexivity.
Qed.

Lemma np1_noop : forall n w fs r k,
  r_target r <> TShank k -> input_state NP1 n fs (r_target r) = Present ->
  out_outcome (run_once NP1 n w fs r) = Status (-1) /\
  (forall p, out_fs (run_once NP1 n w fs r) p = fs p).
Proof.
  intros n w fs r k _ Hin. unfold run_once. rewrite Hin.
  destruct (r_target r); cbn; auto.
  unfold input_state in Hin. destruct (negb _); discriminate.
Qed.

(* ====================================================================== *)
(* Specification predicates                                                 *)
(* ====================================================================== *)
(* the original samples are on disk byte for byte, plain or compressed *)
Definition orig_ok (fs : fsys) : Prop :=
  fs (PFile Orig FBin) = Complete \/
  (fs (PFile Orig FCbin) = Complete /\ fs (PFile Orig FCh) = Complete).
(* shank k's split ap data (plain or compressed) and its metadata are complete *)
Definition shank_ok (fs : fsys) (k : nat) : Prop :=
  (fs (PFile (Shank k Ap) FBin) = Complete \/
   (fs (PFile (Shank k Ap) FCbin) = Complete /\ fs (PFile (Shank k Ap) FCh) = Complete))
  /\ fs (PFile (Shank k Ap) FMeta) = Complete.
Definition shanks_ok (n : nat) (fs : fsys) : Prop := forall k, (k < n)%nat -> shank_ok fs k.
Definition recoverable (kd : kind) (n : nat) (fs : fsys) : Prop :=
  orig_ok fs \/ (kd = NP24 /\ shanks_ok n fs).
Definition inv (kd : kind) (n : nat) (fs : fsys) : Prop :=
  fs (PFile Orig FMeta) = Complete /\ fs (PFile Orig FBin) <> Partial /\ recoverable kd n fs.

Ltac upd_simp :=
  repeat (rewrite upd_same || (rewrite upd_other by congruence)).

Lemma In_firstn : forall (A : Type) (x : A) c l, In x (firstn c l) -> In x l.
Proof.
  intros A x c. induction c as [|c IH]; intros l H; [destruct H|].
  destruct l; [destruct H|]. cbn in H. destruct H; [left; assumption | right; apply IH; assumption].
Qed.

Lemma exec_cons_ok : forall s l rs rs',
  exec (s :: l) rs = (rs', None) -> exists rs1, step_sem s rs = Ok rs1 /\ exec l rs1 = (rs', None).
Proof.
  intros s l rs rs' H. cbn in H. destruct (step_sem s rs) as [rs1|e]; [eauto | discriminate].
Qed.

Lemma forallb_flat_map : forall (A B : Type) (P : B -> bool) (g : A -> list B) l,
  (forall x, In x l -> forallb P (g x) = true) -> forallb P (flat_map g l) = true.
Proof.
  intros A B P g. induction l as [|a l IH]; intros H; cbn; [reflexivity|].
  rewrite forallb_app. rewrite H by (left; reflexivity). cbn. apply IH. intros; apply H; right; assumption.
Qed.

(* ---- shape of the NP2.4 steps before delete_NP24: they only concern shank folders --- *)
Definition shank_step (s : step) : bool :=
  match s with
  | SMkdir _ | SAppendSh _ _ _ | SAppendSub _ _ _ | SVerify _ | SVerifyS _ _ | SCheckBegin => true
  | STrunc (PFile (Shank _ _) _) | SCorrupt (PFile (Shank _ _) _)
  | SUnlink (PFile (Shank _ _) _) _ => true
  | SWriteMeta (Shank _ _) | SCompBegin (Shank _ _) | SCompEnd (Shank _ _) | SRename (Shank _ _)
  | SRenameCh (Shank _ _) => true
  | _ => false
  end.

Lemma shank_step_orig : forall s f, shank_step s = true -> touches s (PFile Orig f) = false.
Proof.
  intros s f H. destruct s; cbn in *; try reflexivity; try discriminate;
    repeat match goal with
           | p : path |- _ => destruct p
           | o : owner |- _ => destruct o
           end; cbn in *; try reflexivity; try discriminate.
Qed.

Lemma comp_steps_shape : forall ow k e, forallb shank_step (comp_steps ow (Shank k e)) = true.
Proof. intros. destruct ow; reflexivity. Qed.

Lemma prep24_shape : forall ow fs n, forallb shank_step (prep24 ow fs n) = true.
Proof.
  intros. unfold prep24. apply forallb_flat_map. intros k _. unfold prep_one.
  destruct (negb _ || ow); reflexivity.
Qed.

Lemma body24_shape : forall n w o ow corrupt, forallb shank_step (body24 n w o ow corrupt) = true.
Proof.
  intros. unfold body24. repeat rewrite forallb_app. repeat (apply andb_true_iff; split).
  - unfold wins24. destruct w; [reflexivity|]. rewrite forallb_app. apply andb_true_iff. split; [|reflexivity].
    apply forallb_flat_map. reflexivity.
  - unfold metas24. rewrite forallb_app. apply andb_true_iff.
    split; apply forallb_flat_map; reflexivity.
  - destruct (o_post o); [|reflexivity]. unfold verify24. destruct corrupt; reflexivity.
  - destruct (o_comp o); [|reflexivity]. unfold comp24. apply forallb_flat_map. intros k _.
    rewrite forallb_app. rewrite !comp_steps_shape. reflexivity.
Qed.

Lemma pre24_shape : forall n w o ow corrupt fs,
  forallb shank_step (prep24 ow fs n ++ body24 n w o ow corrupt) = true.
Proof. intros. rewrite forallb_app, prep24_shape, body24_shape. reflexivity. Qed.

(* ---- write_meta_data steps only ever make paths Complete ---------------------- *)
Lemma writemeta_list_post : forall e ks rs rs',
  exec (flat_map (fun k => [SWriteMeta (Shank k e)]) ks) rs = (rs', None) ->
  (forall q, r_fs rs q = Complete -> r_fs rs' q = Complete) /\
  (forall k, In k ks -> r_fs rs' (PFile (Shank k e) FMeta) = Complete) /\
  r_checked rs' = r_checked rs.
Proof.
  intros e. induction ks as [|k ks IH]; intros rs rs' H.
  - cbn in H. inversion H; subst. repeat split; auto. intros k [].
  - cbn [flat_map app] in H. apply exec_cons_ok in H as [rs1 [Hs Hx]].
    cbn in Hs. destruct (present _ _); [|discriminate]. inversion Hs; subst; clear Hs.
    destruct (IH _ _ Hx) as [Hm [Hk Hc]]. cbn in *. repeat split.
    + intros q Hq. apply Hm. cbn. unfold upd. destruct (path_eqb _ _); auto.
    + intros k' [->|Hin]; [|auto]. apply Hm. cbn. apply upd_same.
    + exact Hc.
Qed.

(* ---- compressing one file ------------------------------------------------------- *)
Lemma sem_compbegin : forall o rs, r_fs rs (PFile o FBin) <> Absent ->
  step_sem (SCompBegin o) rs = Ok (mkR (upd (r_fs rs) (PFile o FTmp) Partial) (r_checked rs)).
Proof. intros o rs H. cbn. apply present_true in H. rewrite H. reflexivity. Qed.
Lemma sem_compend : forall o rs, r_fs rs (PFile o FBin) = Complete ->
  step_sem (SCompEnd o) rs =
  Ok (mkR (upd (upd (r_fs rs) (PFile o FTmp) Complete) (PFile o FChTmp) Complete) (r_checked rs)).
Proof. intros o rs H. cbn. apply complete_true in H. rewrite H. reflexivity. Qed.
Lemma sem_renamech : forall o rs, r_fs rs (PFile o FChTmp) <> Absent ->
  step_sem (SRenameCh o) rs =
  Ok (mkR (upd (upd (r_fs rs) (PFile o FCh) (r_fs rs (PFile o FChTmp))) (PFile o FChTmp) Absent) (r_checked rs)).
Proof. intros o rs H. cbn. apply present_true in H. rewrite H. reflexivity. Qed.
Lemma sem_rename : forall o rs, r_fs rs (PFile o FTmp) <> Absent ->
  step_sem (SRename o) rs =
  Ok (mkR (upd (upd (r_fs rs) (PFile o FCbin) (r_fs rs (PFile o FTmp))) (PFile o FTmp) Absent) (r_checked rs)).
Proof. intros o rs H. cbn. apply present_true in H. rewrite H. reflexivity. Qed.
Lemma sem_unlink_present : forall p mok rs, r_fs rs p <> Absent ->
  step_sem (SUnlink p mok) rs = Ok (mkR (upd (r_fs rs) p Absent) (r_checked rs)).
Proof. intros p mok rs H. cbn. unfold unlink. apply present_true in H. rewrite H. reflexivity. Qed.
Lemma sem_unlink_mok : forall p rs, exists rs',
  step_sem (SUnlink p true) rs = Ok rs' /\ r_checked rs' = r_checked rs /\ r_fs rs' p = Absent /\ forall q, q <> p -> r_fs rs' q = r_fs rs q.
Proof.
  intros p rs. cbn. unfold unlink. destruct (present (r_fs rs) p) eqn:E.
  - eexists; split; [reflexivity|]. cbn. repeat split; [apply upd_same | intros; apply upd_other; auto].
  - exists rs. apply present_false in E. auto.
Qed.

Definition comp_core (o : owner) : list step :=
  [SCompBegin o; SCompEnd o; SRenameCh o; SRename o; SUnlink (PFile o FBin) false].

(* from a complete .bin the five core steps always succeed and leave .cbin + .ch *)
Lemma comp_core_run : forall o rs, r_fs rs (PFile o FBin) = Complete ->
  exists rs', exec (comp_core o) rs = (rs', None) /\ r_checked rs' = r_checked rs /\   r_fs rs' (PFile o FCbin) = Complete /\ r_fs rs' (PFile o FCh) = Complete /\   r_fs rs' (PFile o FBin) = Absent /\ r_fs rs' (PFile o FTmp) = Absent /\   forall q, (forall f, q <> PFile o f) -> r_fs rs' q = r_fs rs q.
Proof.
  intros o rs Hb. unfold comp_core. cbn [exec].
  rewrite sem_compbegin by (rewrite Hb; discriminate).
  rewrite sem_compend by (cbn; upd_simp; exact Hb).
  rewrite sem_renamech by (cbn; upd_simp; discriminate).
  rewrite sem_rename by (cbn; upd_simp; discriminate).
  rewrite sem_unlink_present by (cbn; upd_simp; rewrite Hb; discriminate).
  eexists; split; [reflexivity|]. cbn. upd_simp. repeat split; auto.
  intros q Hq. upd_simp. reflexivity.
Qed.

Lemma comp_steps_run : forall ow o rs, r_fs rs (PFile o FBin) = Complete ->
  exists rs', exec (comp_steps ow o) rs = (rs', None) /\ r_checked rs' = r_checked rs /\   r_fs rs' (PFile o FCbin) = Complete /\ r_fs rs' (PFile o FCh) = Complete /\   r_fs rs' (PFile o FBin) = Absent /\ r_fs rs' (PFile o FTmp) = Absent /\   forall q, (forall f, q <> PFile o f) -> r_fs rs' q = r_fs rs q.
Proof.
  intros ow o rs Hb. unfold comp_steps.
  change [SCompBegin o; SCompEnd o; SRenameCh o; SRename o; SUnlink (PFile o FBin) false] with (comp_core o).
  destruct ow; cbn [app].
  - destruct (sem_unlink_mok (PFile o FCbin) rs) as [rs1 [Hs [Hc [_ Hf]]]].
    destruct (comp_core_run o rs1) as [rs' [Hx [Hc' [H1 [H2 [H3 [H4 H5]]]]]]].
    { rewrite Hf by congruence. exact Hb. }
    exists rs'. cbn [exec]. rewrite Hs. rewrite Hx.
    repeat split; auto; try congruence. intros q Hq. rewrite H5 by auto. apply Hf. apply Hq.
  - apply comp_core_run. exact Hb.
Qed.

Lemma comp_one_post : forall ow o rs rs',
  exec (comp_steps ow o) rs = (rs', None) ->
  r_fs rs (PFile o FBin) = Complete ->
  r_fs rs' (PFile o FCbin) = Complete /\ r_fs rs' (PFile o FCh) = Complete /\ r_fs rs' (PFile o FBin) = Absent /\ r_fs rs' (PFile o FTmp) = Absent.
Proof.
  intros ow o rs rs' H Hb. destruct (comp_steps_run ow o rs Hb) as [rs2 [Hx [_ [H1 [H2 [H3 [H4 _]]]]]]].
  rewrite Hx in H. inversion H; subst. auto.
Qed.

Lemma touches_comp_other : forall ow o s p,
  In s (comp_steps ow o) -> (forall f, p <> PFile o f) -> touches s p = false.
Proof.
  intros ow o s p Hin Hp. unfold comp_steps in Hin.
  destruct ow; cbn in Hin;
    repeat (destruct Hin as [<-|Hin]; [cbn [touches]; repeat rewrite path_eqb_neq by apply Hp; reflexivity|]);
    destruct Hin.
Qed.

Lemma touches_comp_meta : forall ow o s o', In s (comp_steps ow o) -> touches s (PFile o' FMeta) = false.
Proof.
  intros ow o s o' Hin. unfold comp_steps in Hin.
  destruct ow; cbn in Hin;
    repeat (destruct Hin as [<-|Hin]; [cbn [touches]; repeat rewrite path_eqb_neq by congruence; reflexivity|]);
    destruct Hin.
Qed.

Definition compk (ow : bool) (k : nat) : list step :=
  comp_steps ow (Shank k Ap) ++ comp_steps ow (Shank k Lf).

Lemma touches_compk_other : forall ow k s p,
  In s (compk ow k) -> (forall e f, p <> PFile (Shank k e) f) -> touches s p = false.
Proof.
  intros ow k s p Hin Hp. apply in_app_or in Hin as [H|H];
    eapply touches_comp_other; eauto.
Qed.

Lemma compk_post : forall ow k rs rs',
  exec (compk ow k) rs = (rs', None) ->
  r_fs rs (PFile (Shank k Ap) FBin) = Complete ->
  r_fs rs' (PFile (Shank k Ap) FCbin) = Complete /\ r_fs rs' (PFile (Shank k Ap) FCh) = Complete.
Proof.
  intros ow k rs rs' H Hb. unfold compk in H. apply exec_app_ok in H as [rs1 [H1 H2]].
  destruct (comp_one_post _ _ _ _ H1 Hb) as [Hc [Hh _]].
  split; (erewrite exec_frame; [| exact H2 |]);
    try assumption; intros s Hs; eapply touches_comp_other; eauto; congruence.
Qed.

Lemma comp_list_post : forall ow ks rs rs',
  NoDup ks -> exec (flat_map (compk ow) ks) rs = (rs', None) ->
  (forall k, In k ks -> r_fs rs (PFile (Shank k Ap) FBin) = Complete) ->
  forall k, In k ks ->
    r_fs rs' (PFile (Shank k Ap) FCbin) = Complete /\ r_fs rs' (PFile (Shank k Ap) FCh) = Complete.
Proof.
  intros ow. induction ks as [|k0 ks IH]; intros rs rs' Hnd H Hb k Hin; [destruct Hin|].
  cbn [flat_map] in H. apply exec_app_ok in H as [rs1 [H1 H2]]. inversion Hnd; subst.
  destruct Hin as [->|Hin].
  - destruct (compk_post _ _ _ _ H1 (Hb k (or_introl eq_refl))) as [Hc Hh].
    split; (erewrite exec_frame; [| exact H2 |]); try assumption;
      intros s Hs; apply in_flat_map in Hs as [k' [Hk' Hs]];
      eapply touches_compk_other; eauto; intros e f Heq; inversion Heq; subst; contradiction.
  - apply (IH rs1 rs'); auto. intros k' Hk'.
    erewrite exec_frame; [apply Hb; right; exact Hk' | exact H1 |].
    intros s Hs. eapply touches_compk_other; eauto. intros e f Heq; inversion Heq; subst; contradiction.
Qed.

Lemma comp24_meta_frame : forall ow n rs rs' e o,
  exec (comp24 ow n) rs = (rs', e) -> r_fs rs' (PFile o FMeta) = r_fs rs (PFile o FMeta).
Proof.
  intros. eapply exec_frame; eauto. intros s Hs. unfold comp24 in Hs.
  apply in_flat_map in Hs as [k [_ Hs]]. apply in_app_or in Hs as [Hs|Hs]; eapply touches_comp_meta; eauto.
Qed.

Lemma all_ap_complete_spec2 : forall fs n,
  all_ap_complete fs n = true -> forall k, (k < n)%nat ->
  fs (PFile (Shank k Ap) FBin) = Complete /\ fs (PFile (Shank k Ap) FMeta) = Complete.
Proof.
  intros fs n H k Hk. unfold all_ap_complete in H. rewrite forallb_forall in H.
  assert (Hin : In k (seq 0 n)) by (apply in_seq; lia).
  apply H in Hin. apply andb_true_iff in Hin as [A B]. split; apply complete_true; assumption.
Qed.
Lemma all_ap_complete_spec : forall fs n,
  all_ap_complete fs n = true -> forall k, (k < n)%nat -> fs (PFile (Shank k Ap) FBin) = Complete.
Proof. intros fs n H k Hk. apply (all_ap_complete_spec2 fs n H k Hk). Qed.

Lemma no_verify_in : forall l, forallb (fun s => negb (is_verify s)) l = true ->
  forall s, In s l -> is_verify s = false.
Proof. intros l H s Hs. rewrite forallb_forall in H. apply negb_true_iff. auto. Qed.

Lemma prep24_noverify : forall ow fs n, forallb (fun s => negb (is_verify s)) (prep24 ow fs n) = true.
Proof.
  intros. unfold prep24. apply forallb_flat_map. intros k _. unfold prep_one.
  destruct (negb _ || ow); reflexivity.
Qed.
Lemma wins24_noverify : forall n w, forallb (fun s => negb (is_verify s)) (wins24 n w) = true.
Proof.
  intros. unfold wins24. destruct w; [reflexivity|]. rewrite forallb_app. apply andb_true_iff.
  split; [apply forallb_flat_map|]; reflexivity.
Qed.
Lemma comp24_noverify : forall ow n, forallb (fun s => negb (is_verify s)) (comp24 ow n) = true.
Proof.
  intros. unfold comp24. apply forallb_flat_map. intros k _. unfold comp_steps. destruct ow; reflexivity.
Qed.

(* the crux: if the steps before delete_NP24 ran to the end and left
   check_completed set, every shank's ap data and metadata are complete *)
Lemma body_checked_shanks_ok_gen : forall n w o ow corrupt fs ck rs1,
  (o_post o = false -> ck = false) ->
  exec (prep24 ow fs n ++ body24 n w o ow corrupt) (mkR fs ck) = (rs1, None) ->
  r_checked rs1 = true ->
  o_post o = true /\ shanks_ok n (r_fs rs1).
Proof.
  intros n w o ow corrupt fs ck rs1 Hck0 H Hck.
  apply exec_app_ok in H as [rsP [HP H]].
  pose proof (exec_checked _ _ _ _ HP (no_verify_in _ (prep24_noverify _ _ _))) as HcP. cbn in HcP.
  unfold body24 in H.
  apply exec_app_ok in H as [rsW [HW H]].
  pose proof (exec_checked _ _ _ _ HW (no_verify_in _ (wins24_noverify _ _))) as HcW.
  apply exec_app_ok in H as [rsM [HM H]].
  unfold metas24 in HM. apply exec_app_ok in HM as [rsA [HA HL]].
  destruct (writemeta_list_post _ _ _ _ HA) as [_ [HAk HAc]].
  destruct (writemeta_list_post _ _ _ _ HL) as [HLm [_ HLc]].
  assert (Hmeta : forall k, (k < n)%nat -> r_fs rsM (PFile (Shank k Ap) FMeta) = Complete).
  { intros k Hk. apply HLm. apply HAk. apply in_seq. lia. }
  assert (HcM : r_checked rsM = ck) by congruence.
  apply exec_app_ok in H as [rsV [HV HC]].
  destruct (o_post o) eqn:Epost.
  2:{ exfalso. cbn in HV. inversion HV; subst rsV.
      assert (r_checked rs1 = r_checked rsM).
      { destruct (o_comp o).
        - eapply exec_checked; eauto. apply no_verify_in, comp24_noverify.
        - cbn in HC. inversion HC; reflexivity. }
      rewrite (Hck0 eq_refl) in HcM. congruence. }
  split; [reflexivity|].
  (* the verification step succeeded on the state left by the (optional) adversary step *)
  assert (HVpost : (forall k, (k < n)%nat -> r_fs rsV (PFile (Shank k Ap) FBin) = Complete) /\
                   (forall o', r_fs rsV (PFile o' FMeta) = r_fs rsM (PFile o' FMeta))).
  { unfold verify24 in HV. apply exec_app_ok in HV as [rsC [HCr HVe]].
    cbn in HVe. destruct (all_ap_complete (r_fs rsC) n) eqn:Eall; [|discriminate].
    inversion HVe; subst rsV; cbn. split; [apply all_ap_complete_spec; exact Eall|].
    intros o'. eapply exec_frame; eauto. intros s Hs. destruct corrupt; cbn in Hs; [|destruct Hs].
    destruct Hs as [<-|[]]. cbn [touches]. apply path_eqb_neq. congruence. }
  destruct HVpost as [Hbin HmetaV].
  destruct (o_comp o).
  - intros k Hk. split.
    + right. unfold comp24 in HC. change (fun k0 => comp_steps ow (Shank k0 Ap) ++ comp_steps ow (Shank k0 Lf))
        with (compk ow) in HC.
      eapply comp_list_post; eauto; [apply seq_NoDup | | apply in_seq; lia].
      intros k' Hk'. apply Hbin. apply in_seq in Hk'. lia.
    + erewrite comp24_meta_frame by eauto. rewrite HmetaV. auto.
  - cbn in HC. inversion HC; subst rs1. intros k Hk. split; [left; auto|]. rewrite HmetaV. auto.
Qed.

(* ====================================================================== *)
(* Safety: every state a run can stop in keeps the original recoverable      *)
(* ====================================================================== *)
Lemma go_out : forall plan crash fs st al,
  exists c rs', exec (firstn c plan) (mkR fs false) = (rs', None) /\
    out_fs (go plan crash fs st al) = r_fs rs' /\
    out_checked (go plan crash fs st al) = r_checked rs'.
Proof.
  intros. unfold go.
  destruct (exec (match crash with Some c => firstn c plan | None => plan end) (mkR fs false))
    as [rs' e] eqn:E.
  destruct (exec_prefix _ _ _ _ E) as [c [Hc Hx]]. cbn.
  destruct crash as [c0|].
  - rewrite firstn_firstn in Hx. eauto.
  - eauto.
Qed.

Lemma input_present_orig : forall kd n fs t,
  input_state kd n fs t = Present ->
  fs (PFile Orig FMeta) = Complete /\
  (t = TBin -> fs (PFile Orig FBin) = Complete) /\
  (t = TCbin -> fs (PFile Orig FCbin) = Complete /\ fs (PFile Orig FCh) = Complete).
Proof.
  intros kd n fs t H. unfold input_state in H.
  destruct (complete fs (PFile Orig FMeta)) eqn:Em; cbn in H; [|discriminate].
  apply complete_true in Em. split; [exact Em|]. split; intros ->.
  - destruct (fs (PFile Orig FBin)); try discriminate. reflexivity.
  - destruct (fs (PFile Orig FCbin)); try discriminate.
    destruct (complete fs (PFile Orig FCh)) eqn:Ec; [|discriminate]. apply complete_true in Ec. auto.
Qed.

Lemma frame_inv : forall kd n fs fs',
  (forall f, fs' (PFile Orig f) = fs (PFile Orig f)) -> orig_ok fs -> inv kd n fs ->
  orig_ok fs' /\ inv kd n fs'.
Proof.
  intros kd n fs fs' Hf Ho [Hm [Hb _]].
  assert (orig_ok fs') by (unfold orig_ok in *; rewrite !Hf; exact Ho).
  split; [assumption|]. unfold inv. rewrite !Hf. repeat split; auto. left; assumption.
Qed.

Lemma shank_steps_frame_orig : forall l rs rs' e f,
  forallb shank_step l = true -> exec l rs = (rs', e) -> r_fs rs' (PFile Orig f) = r_fs rs (PFile Orig f).
Proof.
  intros l rs rs' e f Hs H. eapply exec_frame; eauto. intros s Hin.
  apply shank_step_orig. rewrite forallb_forall in Hs. auto.
Qed.

Lemma forallb_firstn : forall (A : Type) (P : A -> bool) c l,
  forallb P l = true -> forallb P (firstn c l) = true.
Proof.
  intros A P c l H. apply forallb_forall. intros x Hx. rewrite forallb_forall in H.
  apply H. eapply In_firstn; eauto.
Qed.

Lemma shanks_ok_upd_orig : forall n fs f v, shanks_ok n fs -> shanks_ok n (upd fs (PFile Orig f) v).
Proof. intros n fs f v H k Hk. unfold shank_ok. upd_simp. apply H; assumption. Qed.

(* NP2.4: every state along a run; and if the run changed an Orig file at all,
   it did so in its final delete_NP24 step, with check_completed set by a
   successful verification of this very run and all shank outputs complete *)
Lemma np24_prefix_gen : forall n w o ow corrupt tf fs ck c rs',
  (o_post o = false -> ck = false) ->
  (tf = FBin \/ tf = FCbin) -> orig_ok fs -> inv NP24 n fs ->
  exec (firstn c (plan24 n w o ow corrupt tf fs)) (mkR fs ck) = (rs', None) ->
  inv NP24 n (r_fs rs') /\
  ((exists f, r_fs rs' (PFile Orig f) <> fs (PFile Orig f)) ->
     o_post o = true /\ o_del o = true /\ r_checked rs' = true /\ shanks_ok n (r_fs rs') /\
     (length (prep24 ow fs n ++ body24 n w o ow corrupt) < c)%nat /\
     already24 ow fs n = false) /\
  (forall f, f <> tf -> r_fs rs' (PFile Orig f) = fs (PFile Orig f)) /\
  (r_fs rs' (PFile Orig tf) = fs (PFile Orig tf) \/ r_fs rs' (PFile Orig tf) = Absent).
Proof.
  intros n w o ow corrupt tf fs ck c rs' Hck0 Htf Ho Hinv H. unfold plan24 in H.
  destruct (already24 ow fs n) eqn:Eal.
  - assert (Hf : forall f, r_fs rs' (PFile Orig f) = fs (PFile Orig f)).
    { intros f. eapply (shank_steps_frame_orig _ (mkR fs ck)); eauto.
      apply forallb_firstn, prep24_shape. }
    split; [apply (frame_inv NP24 n fs); auto|].
    split; [intros [f Hne]; rewrite Hf in Hne; contradiction|].
    split; [intros; apply Hf | left; apply Hf].
  - set (A := prep24 ow fs n ++ body24 n w o ow corrupt) in *.
    rewrite firstn_app in H. apply exec_app_ok in H as [rs1 [HA HD]].
    assert (Hf1 : forall f, r_fs rs1 (PFile Orig f) = fs (PFile Orig f)).
    { intros f. eapply (shank_steps_frame_orig _ (mkR fs ck)); eauto.
      apply forallb_firstn, pre24_shape. }
    assert (Hsame : rs' = rs1 -> inv NP24 n (r_fs rs') /\
              ((exists f, r_fs rs' (PFile Orig f) <> fs (PFile Orig f)) ->
               o_post o = true /\ o_del o = true /\ r_checked rs' = true /\ shanks_ok n (r_fs rs') /\
               (length A < c)%nat /\ false = false) /\
              (forall f, f <> tf -> r_fs rs' (PFile Orig f) = fs (PFile Orig f)) /\
              (r_fs rs' (PFile Orig tf) = fs (PFile Orig tf) \/ r_fs rs' (PFile Orig tf) = Absent)).
    { intros ->. split; [apply (frame_inv NP24 n fs); auto|].
      split; [intros [f Hne]; rewrite Hf1 in Hne; contradiction|].
      split; [intros; apply Hf1 | left; apply Hf1]. }
    unfold del24 in HD. destruct (o_del o) eqn:Edel.
    2:{ rewrite firstn_nil in HD. cbn in HD. inversion HD; subst. auto. }
    destruct (c - length A)%nat as [|m] eqn:Ec.
    { cbn in HD. inversion HD; subst. auto. }
    cbn [firstn] in HD. rewrite firstn_nil in HD. cbn in HD.
    destruct (r_checked rs1) eqn:Eck.
    2:{ inversion HD; subst. auto. }
    unfold unlink in HD. destruct (present (r_fs rs1) (PFile Orig tf)) eqn:Epr; [|discriminate].
    inversion HD; subst rs'; clear HD. cbn.
    assert (HcA : (length A < c)%nat) by lia.
    rewrite firstn_all2 in HA by lia.
    destruct (body_checked_shanks_ok_gen _ _ _ _ _ _ _ _ Hck0 HA Eck) as [Hpost Hsh].
    destruct Hinv as [Hm [Hb _]].
    assert (Hsh' : shanks_ok n (upd (r_fs rs1) (PFile Orig tf) Absent)) by (apply shanks_ok_upd_orig; exact Hsh).
    split; [|split; [|split]].
    + unfold inv. repeat split.
      * destruct Htf as [-> | ->]; upd_simp; rewrite Hf1; exact Hm.
      * destruct Htf as [-> | ->]; upd_simp; [discriminate | rewrite Hf1; exact Hb].
      * right. split; [reflexivity | exact Hsh'].
    + intros _. split; [exact Hpost|]. split; [reflexivity|]. split; [exact Eck|].
      split; [exact Hsh'|]. split; [exact HcA | reflexivity].
    + intros f Hf. rewrite upd_other by congruence. apply Hf1.
    + right. apply upd_same.
Qed.

Lemma np24_prefix : forall n w o ow corrupt tf fs c rs',
  (tf = FBin \/ tf = FCbin) -> orig_ok fs -> inv NP24 n fs ->
  exec (firstn c (plan24 n w o ow corrupt tf fs)) (mkR fs false) = (rs', None) ->
  inv NP24 n (r_fs rs') /\
  ((exists f, r_fs rs' (PFile Orig f) <> fs (PFile Orig f)) ->
     o_post o = true /\ o_del o = true /\ r_checked rs' = true /\ shanks_ok n (r_fs rs') /\
     (length (prep24 ow fs n ++ body24 n w o ow corrupt) < c)%nat /\
     already24 ow fs n = false).
Proof.
  intros n w o ow corrupt tf fs c rs' Htf Ho Hinv H.
  destruct (np24_prefix_gen n w o ow corrupt tf fs false c rs' (fun _ => eq_refl) Htf Ho Hinv H) as [A [B _]].
  split; assumption.
Qed.

(* NP2.1 *)
Definition lf21_step (s : step) : bool :=
  match s with
  | SAppend21 _ => true
  | STrunc (PFile Lf21 _) | SUnlink (PFile Lf21 _) _ => true
  | SWriteMeta Lf21 | SCompBegin Lf21 | SCompEnd Lf21 | SRename Lf21 | SRenameCh Lf21 => true
  | _ => false
  end.
Lemma lf21_step_orig : forall s f, lf21_step s = true -> touches s (PFile Orig f) = false.
Proof.
  intros s f H. destruct s; cbn in *; try reflexivity; try discriminate;
    repeat match goal with
           | p : path |- _ => destruct p
           | o : owner |- _ => destruct o
           end; cbn in *; try reflexivity; try discriminate.
Qed.
Lemma lf21_steps_frame_orig : forall l rs rs' e f,
  forallb lf21_step l = true -> exec l rs = (rs', e) -> r_fs rs' (PFile Orig f) = r_fs rs (PFile Orig f).
Proof.
  intros l rs rs' e f Hs H. eapply exec_frame; eauto. intros s Hin.
  apply lf21_step_orig. rewrite forallb_forall in Hs. auto.
Qed.
Lemma head21_shape : forall w,
  forallb lf21_step ([STrunc (PFile Lf21 FBin)] ++ wins21 w ++ [SWriteMeta Lf21]) = true.
Proof.
  intros. cbn. rewrite forallb_app. apply andb_true_iff. split; [|reflexivity].
  unfold wins21. destruct w; [reflexivity|]. rewrite forallb_app. apply andb_true_iff. split; [|reflexivity].
  apply forallb_forall. intros s Hs. apply in_map_iff in Hs as [x [<- _]]. reflexivity.
Qed.
Lemma comp_lf21_shape : forall ow, forallb lf21_step (comp_steps ow Lf21) = true.
Proof. destruct ow; reflexivity. Qed.

(* the in-place compression of the original: at every point either the .bin is
   still complete, or it is gone and the finished .cbin + .ch are complete *)
Definition orig21_ok (fs : fsys) : Prop :=
  fs (PFile Orig FBin) = Complete \/
  (fs (PFile Orig FBin) = Absent /\ fs (PFile Orig FCbin) = Complete /\ fs (PFile Orig FCh) = Complete).

Lemma comp_core_orig_prefix : forall k rs rs',
  r_fs rs (PFile Orig FBin) = Complete ->
  exec (firstn k (comp_core Orig)) rs = (rs', None) ->
  orig21_ok (r_fs rs') /\ r_fs rs' (PFile Orig FMeta) = r_fs rs (PFile Orig FMeta).
Proof.
  intros k rs rs' Hb H. unfold comp_core in H.
  destruct k as [|[|[|[|[|k]]]]]; cbn [firstn exec] in H.
  - inversion H; subst. split; [left; exact Hb | reflexivity].
  - rewrite sem_compbegin in H by (rewrite Hb; discriminate). inversion H; subst; cbn.
    unfold orig21_ok. upd_simp. auto.
  - rewrite sem_compbegin in H by (rewrite Hb; discriminate).
    rewrite sem_compend in H by (cbn; upd_simp; exact Hb). inversion H; subst; cbn.
    unfold orig21_ok. upd_simp. auto.
  - rewrite sem_compbegin in H by (rewrite Hb; discriminate).
    rewrite sem_compend in H by (cbn; upd_simp; exact Hb).
    rewrite sem_renamech in H by (cbn; upd_simp; discriminate). inversion H; subst; cbn.
    unfold orig21_ok. upd_simp. auto.
  - rewrite sem_compbegin in H by (rewrite Hb; discriminate).
    rewrite sem_compend in H by (cbn; upd_simp; exact Hb).
    rewrite sem_renamech in H by (cbn; upd_simp; discriminate).
    rewrite sem_rename in H by (cbn; upd_simp; discriminate). inversion H; subst; cbn.
    unfold orig21_ok. upd_simp. auto.
  - rewrite firstn_nil in H.
    rewrite sem_compbegin in H by (rewrite Hb; discriminate).
    rewrite sem_compend in H by (cbn; upd_simp; exact Hb).
    rewrite sem_renamech in H by (cbn; upd_simp; discriminate).
    rewrite sem_rename in H by (cbn; upd_simp; discriminate).
    rewrite sem_unlink_present in H by (cbn; upd_simp; rewrite Hb; discriminate).
    inversion H; subst; cbn. unfold orig21_ok. upd_simp. split; [right; auto | reflexivity].
Qed.

Lemma orig21_ok_inv : forall n fs, orig21_ok fs -> fs (PFile Orig FMeta) = Complete -> inv NP21 n fs /\ orig_ok fs.
Proof.
  intros n fs H Hm. assert (orig_ok fs) by (destruct H as [H|[_ H]]; [left|right]; auto).
  split; [|assumption]. unfold inv. repeat split; auto.
  - destruct H as [H|[H _]]; rewrite H; discriminate.
  - left; assumption.
Qed.

Lemma np21_prefix : forall kd n w o ow tf fs c rs',
  orig_ok fs -> inv kd n fs -> (tf = FBin -> fs (PFile Orig FBin) = Complete) ->
  exec (firstn c (plan21 w o ow tf fs)) (mkR fs false) = (rs', None) ->
  inv kd n (r_fs rs') /\ orig_ok (r_fs rs') /\
  (fs (PFile Orig FBin) = Complete -> orig21_ok (r_fs rs')).
Proof.
  intros kd n w o ow tf fs c rs' Ho Hinv Htf H. unfold plan21 in H.
  assert (Hsame : forall rs1 : rstate, (forall f, r_fs rs1 (PFile Orig f) = fs (PFile Orig f)) ->
            inv kd n (r_fs rs1) /\ orig_ok (r_fs rs1) /\
            (fs (PFile Orig FBin) = Complete -> orig21_ok (r_fs rs1))).
  { intros rs1 Hf. destruct (frame_inv kd n fs (r_fs rs1) Hf Ho Hinv) as [X Y].
    split; [exact Y|]. split; [exact X|]. intros Hb. left. rewrite Hf. exact Hb. }
  destruct (already21 ow fs).
  { rewrite firstn_nil in H. cbn in H. inversion H; subst. apply Hsame. reflexivity. }
  rewrite firstn_app in H. apply exec_app_ok in H as [rs1 [HP HQ]].
  assert (Hf1 : forall f, r_fs rs1 (PFile Orig f) = fs (PFile Orig f)).
  { intros f. eapply (lf21_steps_frame_orig _ (mkR fs false)); eauto. apply forallb_firstn, head21_shape. }
  destruct (o_comp o).
  2:{ rewrite firstn_nil in HQ. cbn in HQ. inversion HQ; subst. apply Hsame. exact Hf1. }
  rewrite firstn_app in HQ. apply exec_app_ok in HQ as [rs2 [HO HL]].
  assert (Hf2 : forall f, r_fs rs' (PFile Orig f) = r_fs rs2 (PFile Orig f)).
  { intros f. eapply lf21_steps_frame_orig; eauto. apply forallb_firstn, comp_lf21_shape. }
  unfold origcomp21 in HO. destruct tf;
    try (rewrite firstn_nil in HO; cbn in HO; inversion HO; subst rs2;
         apply Hsame; intros f; rewrite Hf2; apply Hf1).
  fold (comp_core Orig) in HO.
  assert (Hb1 : r_fs rs1 (PFile Orig FBin) = Complete) by (rewrite Hf1; auto).
  destruct (comp_core_orig_prefix _ _ _ Hb1 HO) as [Hok Hm].
  assert (Hok' : orig21_ok (r_fs rs')) by (unfold orig21_ok in *; rewrite !Hf2; exact Hok).
  assert (Hm' : r_fs rs' (PFile Orig FMeta) = Complete).
  { rewrite Hf2, Hm, Hf1. apply Hinv. }
  destruct (orig21_ok_inv n _ Hok' Hm') as [Hi Hoo].
  split; [|split; [exact Hoo | intros _; exact Hok']].
  destruct Hi as [A [B _]]. unfold inv. split; [exact A|]. split; [exact B|]. left; exact Hoo.
Qed.

(* the comparison steps, the number of shanks they cover *)
Definition is_sverify (s : step) : bool := match s with SVerify _ | SVerifyS _ _ => true | _ => false end.
Definition verify_n (s : step) : nat := match s with SVerify n | SVerifyS _ n => n | _ => O end.

Lemma mem_In : forall k l, mem k l = true <-> In k l.
Proof.
  intros k l. unfold mem. rewrite existsb_exists. split.
  - intros [x [Hx E]]. apply Nat.eqb_eq in E. subst. exact Hx.
  - intros H. exists k. split; [exact H | apply Nat.eqb_refl].
Qed.

Lemma verify_cover_spec : forall fs sub n, verify_cover fs sub n = true ->
  forall k, (k < n)%nat -> In k sub /\
    fs (PFile (Shank k Ap) FBin) = Complete /\ fs (PFile (Shank k Ap) FMeta) = Complete.
Proof.
  intros fs sub n H k Hk. unfold verify_cover in H. apply andb_true_iff in H as [Hc Ha].
  rewrite forallb_forall in Hc, Ha.
  assert (Hin : In k sub) by (apply mem_In; apply Hc; apply in_seq; lia).
  split; [exact Hin|]. specialize (Ha k Hin). apply andb_true_iff in Ha as [A B].
  split; apply complete_true; assumption.
Qed.

Lemma verify_cover_intro : forall fs sub n,
  (forall k, (k < n)%nat -> In k sub) ->
  (forall k, In k sub -> fs (PFile (Shank k Ap) FBin) = Complete /\ fs (PFile (Shank k Ap) FMeta) = Complete) ->
  verify_cover fs sub n = true.
Proof.
  intros fs sub n Hc Ha. unfold verify_cover. apply andb_true_iff. split; apply forallb_forall.
  - intros k Hk. apply in_seq in Hk. apply mem_In. apply Hc. lia.
  - intros k Hk. destruct (Ha k Hk) as [A B]. apply andb_true_iff. split; apply complete_true; assumption.
Qed.

Lemma sverify_ok_spec : forall v rs rs', is_sverify v = true -> step_sem v rs = Ok rs' ->
  r_checked rs' = true /\ r_fs rs' = r_fs rs /\
  forall k, (k < verify_n v)%nat ->
    r_fs rs (PFile (Shank k Ap) FBin) = Complete /\ r_fs rs (PFile (Shank k Ap) FMeta) = Complete.
Proof.
  intros v rs rs' Hv H. destruct v; try discriminate; cbn in H.
  - destruct (all_ap_complete (r_fs rs) n) eqn:E; [|discriminate]. inversion H; subst; cbn.
    split; [reflexivity|]. split; [reflexivity|]. apply all_ap_complete_spec2. exact E.
  - destruct (verify_cover (r_fs rs) sub n) eqn:E; [|discriminate]. inversion H; subst; cbn.
    split; [reflexivity|]. split; [reflexivity|]. intros k Hk. apply (verify_cover_spec _ _ _ E k Hk).
Qed.

(* check_completed is set only by a comparison step that found every shank's ap.bin (of all
   verify_n shanks of the probe) complete at that moment *)
Lemma check_completed_sound : forall l rs rs',
  r_checked rs = false -> exec l rs = (rs', None) -> r_checked rs' = true ->
  exists l1 v l2 rsv, l = l1 ++ v :: l2 /\ is_sverify v = true /\ exec l1 rs = (rsv, None) /\
    forall k, (k < verify_n v)%nat -> r_fs rsv (PFile (Shank k Ap) FBin) = Complete.
Proof.
  induction l as [|s l IH]; intros rs rs' Hc H Hck.
  - cbn in H. inversion H; subst. congruence.
  - apply exec_cons_ok in H as [rs1 [Hs Hx]].
    destruct (is_sverify s) eqn:Esv.
    + exists [], s, l, rs. split; [reflexivity|]. split; [exact Esv|]. split; [reflexivity|].
      intros k Hk. apply (sverify_ok_spec _ _ _ Esv Hs). exact Hk.
    + assert (Hc1 : r_checked rs1 = false).
      { destruct (is_verify s) eqn:Ev.
        - destruct s; try discriminate. cbn in Hs. inversion Hs; reflexivity.
        - rewrite (step_checked _ _ _ Hs Ev). exact Hc. }
      destruct (IH _ _ Hc1 Hx Hck) as [l1 [v [l2 [rsv [El [Hv [Hx1 Hall]]]]]]].
      exists (s :: l1), v, l2, rsv. split; [cbn; rewrite El; reflexivity|]. split; [exact Hv|].
      split; [|exact Hall]. cbn. rewrite Hs. exact Hx1.
Qed.

Lemma split_input_noop : forall kd n w fs r k,
  r_target r = TShank k -> input_state kd n fs (r_target r) = Present ->
  let o := run_once kd n w fs r in
  out_outcome o = Status 0 /\ out_processed o = true /\ out_trace o = [] /\ forall p, out_fs o p = fs p.
Proof.
  intros kd n w fs r k Ht Hin. unfold run_once. rewrite Hin, Ht. cbn. auto.
Qed.

(* ====================================================================== *)
(* Idempotence: a run without overwrite on a converted directory            *)
(* ====================================================================== *)
Lemma flat_map_nil : forall (A B : Type) (g : A -> list B) l,
  (forall x, In x l -> g x = []) -> flat_map g l = [].
Proof.
  intros A B g. induction l as [|a l IH]; intros H; cbn; [reflexivity|].
  rewrite H by (left; reflexivity). cbn. apply IH. intros; apply H; right; assumption.
Qed.

Lemma go_nil : forall crash fs st al,
  go [] crash fs st al = mkOut fs (Status st) false al false [].
Proof. intros. unfold go. destruct crash as [c|]; [rewrite firstn_nil|]; reflexivity. Qed.

Lemma rerun_noop24 : forall n w fs r,
  (1 <= n)%nat -> (forall k, (k < n)%nat -> fs (PDir k) <> Absent) ->
  r_ow r = false -> r_sub r = None -> (r_target r = TBin \/ r_target r = TCbin) ->
  input_state NP24 n fs (r_target r) = Present ->
  run_once NP24 n w fs r = mkOut fs (Status 0) false 1 false [].
Proof.
  intros n w fs r Hn Hd How Hsub Ht Hin. unfold run_once. rewrite Hin, How, Hsub.
  assert (Hal : already24 false fs n = true).
  { unfold already24. apply existsb_exists. exists 0%nat. split; [apply in_seq; lia|].
    rewrite (proj2 (present_true fs (PDir 0))); [reflexivity | apply Hd; lia]. }
  assert (Hpl : forall o c tf, plan24 n w o false c tf fs = []).
  { intros. unfold plan24. rewrite Hal. unfold prep24. apply flat_map_nil. intros k Hk.
    apply in_seq in Hk. unfold prep_one.
    rewrite (proj2 (present_true fs (PDir k))); [reflexivity | apply Hd; lia]. }
  destruct Ht as [-> | ->]; rewrite Hal, Hpl; apply go_nil.
Qed.

Lemma rerun_noop21 : forall n w fs r,
  (fs (PFile Lf21 FBin) <> Absent \/ fs (PFile Lf21 FCbin) <> Absent) ->
  r_ow r = false -> (r_target r = TBin \/ r_target r = TCbin) ->
  input_state NP21 n fs (r_target r) = Present ->
  run_once NP21 n w fs r = mkOut fs (Status 0) false 1 false [].
Proof.
  intros n w fs r Hd How Ht Hin. unfold run_once. rewrite Hin, How.
  assert (Hal : already21 false fs = true).
  { unfold already21. destruct Hd as [H|H]; apply present_true in H; rewrite H; cbn;
      [reflexivity | rewrite orb_true_r; reflexivity]. }
  assert (Hpl : forall o tf, plan21 w o false tf fs = []) by (intros; unfold plan21; rewrite Hal; reflexivity).
  destruct Ht as [-> | ->]; rewrite Hal, Hpl; apply go_nil.
Qed.

(* a run that returned a status executed its whole plan without error *)
Lemma go_status : forall plan crash fs st al z,
  out_outcome (go plan crash fs st al) = Status z ->
  exists rs', exec plan (mkR fs false) = (rs', None) /\ out_fs (go plan crash fs st al) = r_fs rs' /\
              out_checked (go plan crash fs st al) = r_checked rs' /\ z = st.
Proof.
  intros plan crash fs st al z H. unfold go in *.
  set (pl := match crash with Some c => firstn c plan | None => plan end) in *.
  destruct (exec pl (mkR fs false)) as [rs' e] eqn:E. cbn [out_outcome out_fs out_checked] in *.
  destruct e; [discriminate|].
  destruct (length pl <? length plan)%nat eqn:El; [discriminate|]. inversion H; subst z.
  apply Nat.ltb_ge in El.
  assert (pl = plan).
  { subst pl. destruct crash as [c|]; [|reflexivity]. rewrite firstn_length in El.
    apply firstn_all2. lia. }
  rewrite <- H0. eauto.
Qed.

Definition nodir_step (s : step) : bool :=
  match s with
  | SMkdir _ | STrunc (PDir _) | SCorrupt (PDir _) | SUnlink (PDir _) _ => false
  | _ => true
  end.
Lemma nodir_step_dir : forall s k, nodir_step s = true -> touches s (PDir k) = false.
Proof.
  intros s k H. destruct s; cbn in *; try reflexivity; try discriminate;
    try (destruct p; first [discriminate | reflexivity]).
Qed.
Lemma comp_steps_nodir : forall ow o, forallb nodir_step (comp_steps ow o) = true.
Proof. destruct ow; reflexivity. Qed.
Lemma rest24_nodir : forall n w o ow corrupt tf,
  forallb nodir_step (body24 n w o ow corrupt ++ del24 o tf) = true.
Proof.
  intros. unfold body24, del24. repeat rewrite forallb_app. repeat (apply andb_true_iff; split).
  - unfold wins24. destruct w; [reflexivity|]. rewrite forallb_app. apply andb_true_iff. split; [|reflexivity].
    apply forallb_flat_map. reflexivity.
  - unfold metas24. rewrite forallb_app. apply andb_true_iff. split; apply forallb_flat_map; reflexivity.
  - destruct (o_post o); [|reflexivity]. unfold verify24. destruct corrupt; reflexivity.
  - destruct (o_comp o); [|reflexivity]. unfold comp24. apply forallb_flat_map. intros k _.
    rewrite forallb_app, !comp_steps_nodir. reflexivity.
  - destruct (o_del o); reflexivity.
Qed.

(* _prepare_files: folders that exist keep existing, created folders exist *)
Lemma prep_list_dirs : forall ow fs ks rs rs',
  exec (flat_map (prep_one ow fs) ks) rs = (rs', None) ->
  (forall k, r_fs rs (PDir k) = Complete -> r_fs rs' (PDir k) = Complete) /\
  (forall k, In k ks -> present fs (PDir k) && negb ow = false -> r_fs rs' (PDir k) = Complete).
Proof.
  intros ow fs. induction ks as [|k0 ks IH]; intros rs rs' H.
  - cbn in H. inversion H; subst. split; [auto | intros k []].
  - cbn [flat_map] in H. apply exec_app_ok in H as [rs1 [H1 H2]].
    destruct (IH _ _ H2) as [Hm Hk].
    assert (Hm1 : forall k, r_fs rs (PDir k) = Complete -> r_fs rs1 (PDir k) = Complete).
    { intros k Hc. unfold prep_one in H1. destruct (negb (present fs (PDir k0)) || ow).
      - cbn in H1. destruct (present _ _); [|discriminate]. cbn in H1.
        destruct (present _ _); [|discriminate]. inversion H1; subst; cbn. upd_simp.
        unfold upd. destruct (path_eqb _ _); auto.
      - cbn in H1. inversion H1; subst. exact Hc. }
    split; [intros k Hc; apply Hm, Hm1, Hc|].
    intros k [->|Hin] Hcond; [|apply Hk; assumption].
    apply Hm. unfold prep_one in H1.
    assert (E : negb (present fs (PDir k)) || ow = true).
    { destruct (present fs (PDir k)), ow; cbn in *; congruence. }
    rewrite E in H1. cbn in H1. destruct (present _ _); [|discriminate]. cbn in H1.
    destruct (present _ _); [|discriminate]. inversion H1; subst; cbn. upd_simp. reflexivity.
Qed.

Lemma complete24_dirs : forall n w fs r,
  r_sub r = None -> (r_target r = TBin \/ r_target r = TCbin) ->
  out_outcome (run_once NP24 n w fs r) = Status 1 ->
  forall k, (k < n)%nat -> out_fs (run_once NP24 n w fs r) (PDir k) = Complete.
Proof.
  intros n w fs r Hsub Ht H k Hk. unfold run_once in *. rewrite Hsub in *.
  destruct (input_state NP24 n fs (r_target r)); try discriminate.
  assert (G : forall tf,
    out_outcome (go (plan24 n w (r_opts r) (r_ow r) (r_corrupt r) tf fs) (r_crash r) fs
       (if already24 (r_ow r) fs n then 0%Z else 1%Z) (if already24 (r_ow r) fs n then 1%Z else 0%Z)) = Status 1 ->
    out_fs (go (plan24 n w (r_opts r) (r_ow r) (r_corrupt r) tf fs) (r_crash r) fs
       (if already24 (r_ow r) fs n then 0%Z else 1%Z) (if already24 (r_ow r) fs n then 1%Z else 0%Z)) (PDir k) = Complete).
  { intros tf Hs. apply go_status in Hs as [rs' [Hx [Hfs [_ Hst]]]]. rewrite Hfs.
    destruct (already24 (r_ow r) fs n) eqn:Eal; [discriminate|].
    unfold plan24 in Hx. rewrite Eal in Hx. rewrite <- app_assoc in Hx.
    apply exec_app_ok in Hx as [rs1 [HP HR]].
    destruct (prep_list_dirs _ _ _ _ _ HP) as [_ Hd].
    erewrite exec_frame; [apply Hd; [apply in_seq; lia|] | exact HR |].
    - unfold already24 in Eal. rewrite <- not_true_iff_false in Eal. rewrite existsb_exists in Eal.
      destruct (present fs (PDir k) && negb (r_ow r)) eqn:E; [|reflexivity].
      exfalso. apply Eal. exists k. split; [apply in_seq; lia | exact E].
    - intros s Hs. apply nodir_step_dir. pose proof (rest24_nodir n w (r_opts r) (r_ow r) (r_corrupt r) tf) as Hf.
      rewrite forallb_forall in Hf. auto. }
  destruct Ht as [Ht|Ht]; rewrite Ht in *; apply G; exact H.
Qed.

(* ====================================================================== *)
(* Forced re-run: from ANY directory in which the input exists, a fault-free *)
(* overwrite=True run completes with a full set of valid outputs             *)
(* ====================================================================== *)
Lemma prep_one_true_run : forall ow fs0 k rs,
  negb (present fs0 (PDir k)) || ow = true ->
  exec (prep_one ow fs0 k) rs =
  (mkR (upd (upd (upd (r_fs rs) (PDir k) Complete) (PFile (Shank k Ap) FBin) Partial)
            (PFile (Shank k Lf) FBin) Partial) (r_checked rs), None).
Proof.
  intros ow fs0 k rs Hc. unfold prep_one. rewrite Hc.
  repeat (cbn [exec step_sem dir_ok r_fs r_checked]; unfold present; upd_simp; cbn [fstate_eqb negb]).
  reflexivity.
Qed.

Lemma prep_list_run : forall ow fs0 ks rs,
  (forall k, In k ks -> negb (present fs0 (PDir k)) || ow = true) -> exists rs',
  exec (flat_map (prep_one ow fs0) ks) rs = (rs', None) /\ r_checked rs' = r_checked rs /\
  (forall q, r_fs rs q <> Absent -> r_fs rs' q <> Absent) /\
  (forall k, In k ks -> r_fs rs' (PFile (Shank k Ap) FBin) <> Absent /\
                        r_fs rs' (PFile (Shank k Lf) FBin) <> Absent).
Proof.
  intros ow fs0. induction ks as [|k ks IH]; intros rs Hcond.
  - exists rs. cbn. repeat split; auto; intros ? [].
  - cbn [flat_map]. rewrite exec_app, prep_one_true_run by (apply Hcond; left; reflexivity).
    destruct (IH (mkR (upd (upd (upd (r_fs rs) (PDir k) Complete) (PFile (Shank k Ap) FBin) Partial)
                           (PFile (Shank k Lf) FBin) Partial) (r_checked rs))) as [rs' [Hx [Hc [Hm Hk]]]].
    { intros k' Hk'. apply Hcond. right; exact Hk'. }
    exists rs'. split; [exact Hx|]. split; [exact Hc|]. split.
    + intros q Hq. apply Hm. cbn. unfold upd.
      repeat (destruct (path_eqb _ _); [discriminate|]). exact Hq.
    + intros k' [->|Hin]; [|apply Hk; exact Hin].
      split; apply Hm; cbn; upd_simp; discriminate.
Qed.

Definition is_append (s : step) : bool := match s with SAppendSh _ _ _ => true | _ => false end.
Lemma appends_run : forall l rs, forallb is_append l = true ->
  exists rs', exec l rs = (rs', None) /\ r_checked rs' = r_checked rs.
Proof.
  induction l as [|s l IH]; intros rs H; [exists rs; auto|].
  cbn in H. apply andb_true_iff in H as [Hs Hl]. destruct s; try discriminate.
  cbn [exec step_sem]. destruct (IH (mkR (fun q => match q with
        | PFile (Shank k e') FBin => if (k <? n)%nat && etype_eqb e e' then (if last then Complete else Partial)
                                     else r_fs rs q
        | _ => r_fs rs q end) (r_checked rs)) Hl) as [rs' [Hx Hc]].
  exists rs'. split; [exact Hx | exact Hc].
Qed.

Lemma wins24_run : forall n w' rs, exists rs',
  exec (wins24 n (S w')) rs = (rs', None) /\ r_checked rs' = r_checked rs /\
  forall k, (k < n)%nat -> r_fs rs' (PFile (Shank k Ap) FBin) = Complete /\
                           r_fs rs' (PFile (Shank k Lf) FBin) = Complete.
Proof.
  intros n w' rs. unfold wins24.
  destruct (appends_run (flat_map (fun _ : nat => [SAppendSh n Ap false; SAppendSh n Lf false]) (seq 0 w')) rs)
    as [rs1 [H1 Hc1]].
  { apply forallb_flat_map. reflexivity. }
  rewrite exec_app, H1. cbn [exec step_sem r_fs r_checked].
  eexists. split; [reflexivity|]. split; [exact Hc1|]. intros k Hk. cbn [r_fs etype_eqb].
  apply Nat.ltb_lt in Hk. rewrite Hk. cbn. auto.
Qed.

Lemma metas_list_run : forall e ks rs,
  (forall k, In k ks -> r_fs rs (PFile (Shank k e) FBin) <> Absent) ->
  exists rs', exec (flat_map (fun k => [SWriteMeta (Shank k e)]) ks) rs = (rs', None) /\
    (forall q, (forall o, q <> PFile o FMeta) -> r_fs rs' q = r_fs rs q).
Proof.
  intros e. induction ks as [|k ks IH]; intros rs Hb.
  - exists rs. cbn. auto.
  - cbn [flat_map app exec step_sem]. rewrite (proj2 (present_true _ _) (Hb k (or_introl eq_refl))).
    destruct (IH (mkR (upd (r_fs rs) (PFile (Shank k e) FMeta) Complete) (r_checked rs))) as [rs' [Hx Hf]].
    { intros k' Hk'. cbn. upd_simp. apply Hb. right; exact Hk'. }
    exists rs'. split; [exact Hx|]. intros q Hq. rewrite Hf by exact Hq. cbn. upd_simp. reflexivity.
Qed.

Definition out_ok (comp : bool) (fs : fsys) (o : owner) : Prop :=
  if comp then fs (PFile o FCbin) = Complete /\ fs (PFile o FCh) = Complete /\ fs (PFile o FBin) = Absent
          /\ fs (PFile o FTmp) = Absent
  else fs (PFile o FBin) = Complete.

Lemma compk_run : forall ow k rs,
  r_fs rs (PFile (Shank k Ap) FBin) = Complete -> r_fs rs (PFile (Shank k Lf) FBin) = Complete ->
  exists rs', exec (compk ow k) rs = (rs', None) /\ r_checked rs' = r_checked rs /\
    out_ok true (r_fs rs') (Shank k Ap) /\ out_ok true (r_fs rs') (Shank k Lf) /\
    forall q, (forall e f, q <> PFile (Shank k e) f) -> r_fs rs' q = r_fs rs q.
Proof.
  intros ow k rs Ha Hl. unfold compk.
  destruct (comp_steps_run ow (Shank k Ap) rs Ha) as [rs1 [H1 [Hc1 [A1 [A2 [A3 [A4 Hf1]]]]]]].
  destruct (comp_steps_run ow (Shank k Lf) rs1) as [rs2 [H2 [Hc2 [B1 [B2 [B3 [B4 Hf2]]]]]]].
  { rewrite Hf1 by congruence. exact Hl. }
  exists rs2. rewrite exec_app, H1. split; [exact H2|]. split; [congruence|].
  unfold out_ok. repeat split; auto; try (rewrite Hf2 by congruence; assumption).
  intros q Hq. rewrite Hf2 by (intros f; apply Hq). apply Hf1. intros f; apply Hq.
Qed.

Lemma comp_list_run : forall ow ks rs, NoDup ks ->
  (forall k, In k ks -> r_fs rs (PFile (Shank k Ap) FBin) = Complete /\
                        r_fs rs (PFile (Shank k Lf) FBin) = Complete) ->
  exists rs', exec (flat_map (compk ow) ks) rs = (rs', None) /\ r_checked rs' = r_checked rs /\
    (forall k, In k ks -> out_ok true (r_fs rs') (Shank k Ap) /\ out_ok true (r_fs rs') (Shank k Lf)) /\
    (forall q, (forall k e f, In k ks -> q <> PFile (Shank k e) f) -> r_fs rs' q = r_fs rs q).
Proof.
  intros ow. induction ks as [|k ks IH]; intros rs Hnd Hb.
  - exists rs. split; [reflexivity|]. split; [reflexivity|]. split; [intros ? [] | reflexivity].
  - inversion Hnd as [|k0 ks0 Hnotin Hnd']; subst.
    destruct (compk_run ow k rs) as [rs1 [H1 [Hc1 [Oa [Ol Hf1]]]]]; try (apply Hb; left; reflexivity).
    destruct (IH rs1 Hnd') as [rs2 [Hx [Hc2 [Hk Hf2]]]].
    { intros k' Hk'. rewrite !Hf1 by (intros e f Heq; inversion Heq; subst; contradiction).
      apply Hb. right; exact Hk'. }
    exists rs2. cbn [flat_map]. rewrite exec_app, H1. split; [exact Hx|]. split; [congruence|]. split.
    + intros k' [->|Hin]; [|apply Hk; exact Hin].
      unfold out_ok in *. destruct Oa as [a1 [a2 [a3 a4]]]. destruct Ol as [l1 [l2 [l3 l4]]].
      repeat split; (rewrite Hf2; [assumption|]);
        intros k'' e f Hin Heq; inversion Heq; subst; contradiction.
    + intros q Hq. rewrite Hf2 by (intros k' e f Hin; apply Hq; right; exact Hin).
      apply Hf1. intros e f. apply Hq. left; reflexivity.
Qed.

Lemma already24_true_ow : forall fs n, already24 true fs n = false.
Proof.
  intros. unfold already24. rewrite <- not_true_iff_false. rewrite existsb_exists.
  intros [k [_ H]]. rewrite andb_false_r in H. discriminate.
Qed.

Lemma all_ap_complete_intro : forall fs n,
  (forall k, (k < n)%nat -> fs (PFile (Shank k Ap) FBin) = Complete /\
                            fs (PFile (Shank k Ap) FMeta) = Complete) -> all_ap_complete fs n = true.
Proof.
  intros fs n H. unfold all_ap_complete. apply forallb_forall. intros k Hk. apply in_seq in Hk.
  destruct (H k) as [A B]; [lia|]. apply andb_true_iff. split; apply complete_true; assumption.
Qed.

Definition final24_ok (n : nat) (o : opts) (fs : fsys) : Prop :=
  forall k, (k < n)%nat ->
    fs (PDir k) = Complete /\
    fs (PFile (Shank k Ap) FMeta) = Complete /\ fs (PFile (Shank k Lf) FMeta) = Complete /\
    out_ok (o_comp o) fs (Shank k Ap) /\ out_ok (o_comp o) fs (Shank k Lf).

Lemma run24_exec : forall n w' o ow tf fs,
  already24 ow fs n = false -> fs (PFile Orig tf) <> Absent ->
  exists rs', exec (plan24 n (S w') o ow None tf fs) (mkR fs false) = (rs', None) /\
    r_checked rs' = o_post o /\ final24_ok n o (r_fs rs') /\
    r_fs rs' (PFile Orig tf) = (if o_post o && o_del o then Absent else fs (PFile Orig tf)) /\
    forall f, f <> tf -> r_fs rs' (PFile Orig f) = fs (PFile Orig f).
Proof.
  intros n w' o ow tf fs Hal Hin. unfold plan24. rewrite Hal.
  assert (Hcond : forall k, In k (seq 0 n) -> present fs (PDir k) && negb ow = false).
  { intros k Hk. unfold already24 in Hal. rewrite <- not_true_iff_false in Hal. rewrite existsb_exists in Hal.
    destruct (present fs (PDir k) && negb ow) eqn:E; [|reflexivity]. exfalso. apply Hal. exists k. auto. }
  destruct (prep_list_run ow fs (seq 0 n) (mkR fs false)) as [rs1 [E1 [C1 [M1 K1]]]].
  { intros k Hk. specialize (Hcond k Hk). destruct (present fs (PDir k)), ow; cbn in *; congruence. }
  destruct (prep_list_dirs _ _ _ _ _ E1) as [_ D1].
  destruct (wins24_run n w' rs1) as [rs2 [E2 [C2 K2]]].
  destruct (metas_list_run Ap (seq 0 n) rs2) as [rs3 [E3 F3]].
  { intros k Hk. apply in_seq in Hk. destruct (K2 k) as [A _]; [lia|]. rewrite A. discriminate. }
  destruct (metas_list_run Lf (seq 0 n) rs3) as [rs4 [E4 F4]].
  { intros k Hk. apply in_seq in Hk. rewrite F3 by congruence. destruct (K2 k) as [_ A]; [lia|].
    rewrite A. discriminate. }
  destruct (writemeta_list_post _ _ _ _ E3) as [_ [P3 Q3]].
  destruct (writemeta_list_post _ _ _ _ E4) as [P4a [P4 Q4]].
  assert (Hbins : forall k, (k < n)%nat -> r_fs rs4 (PFile (Shank k Ap) FBin) = Complete /\
                                          r_fs rs4 (PFile (Shank k Lf) FBin) = Complete).
  { intros k Hk. rewrite !F4, !F3 by congruence. apply K2. exact Hk. }
  (* verification *)
  set (rs5 := if o_post o then mkR (r_fs rs4) true else rs4).
  assert (E5 : exec (if o_post o then verify24 n None else []) rs4 = (rs5, None)).
  { subst rs5. destruct (o_post o); [|reflexivity]. cbn.
    rewrite all_ap_complete_intro; [reflexivity|]. intros k Hk. split; [apply Hbins; exact Hk|].
    apply P4a. apply P3. apply in_seq. lia. }
  assert (F5 : r_fs rs5 = r_fs rs4) by (subst rs5; destruct (o_post o); reflexivity).
  assert (C5 : r_checked rs5 = o_post o).
  { subst rs5. cbn in C1. destruct (o_post o); [reflexivity|]. congruence. }
  (* compression *)
  assert (E6 : exists rs6, exec (if o_comp o then comp24 ow n else []) rs5 = (rs6, None) /\
             r_checked rs6 = r_checked rs5 /\
             (forall k, (k < n)%nat -> out_ok (o_comp o) (r_fs rs6) (Shank k Ap) /\
                                       out_ok (o_comp o) (r_fs rs6) (Shank k Lf)) /\
             (forall q, (forall k e f, q = PFile (Shank k e) f -> f = FMeta) -> r_fs rs6 q = r_fs rs5 q)).
  { destruct (o_comp o).
    - destruct (comp_list_run ow (seq 0 n) rs5 (seq_NoDup n 0)) as [rs6 [Hx [Hc [Hko Hf]]]].
      { intros k Hk. apply in_seq in Hk. rewrite F5. apply Hbins. lia. }
      exists rs6. split; [exact Hx|]. split; [exact Hc|]. split.
      + intros k Hk. apply Hko. apply in_seq. lia.
      + intros q Hq. destruct q as [d|ow0 f0|].
        * apply Hf. intros; discriminate.
        * destruct (fkind_eqb f0 FMeta) eqn:Ef.
          -- apply fkind_eqb_eq in Ef. subst f0. eapply comp24_meta_frame. exact Hx.
          -- apply Hf. intros k e f _ Heq. inversion Heq; subst.
             rewrite (Hq k e f eq_refl) in Ef. discriminate.
        * apply Hf. intros; discriminate.
    - exists rs5. cbn. split; [reflexivity|]. split; [reflexivity|]. split; [|reflexivity].
      intros k Hk. rewrite F5. apply Hbins. exact Hk. }
  destruct E6 as [rs6 [E6 [C6 [K6 F6]]]].
  (* delete_NP24 *)
  assert (Horig : forall f, r_fs rs6 (PFile Orig f) = fs (PFile Orig f)).
  { assert (S3 : forall e ks, forallb shank_step (flat_map (fun k => [SWriteMeta (Shank k e)]) ks) = true)
      by (intros; apply forallb_flat_map; reflexivity).
    intros f. rewrite F6 by (intros; discriminate). rewrite F5.
    rewrite (shank_steps_frame_orig _ _ _ _ f (S3 Lf _) E4).
    rewrite (shank_steps_frame_orig _ _ _ _ f (S3 Ap _) E3).
    transitivity (r_fs rs1 (PFile Orig f)).
    - eapply exec_frame; [exact E2|]. intros s Hs. apply shank_step_orig.
      pose proof (body24_shape n (S w') (mkO false false false) true None) as Hsh.
      unfold body24 in Hsh. cbn [o_post o_comp] in Hsh. rewrite !forallb_app in Hsh.
      apply andb_true_iff in Hsh as [Hsh _]. rewrite forallb_forall in Hsh. auto.
    - eapply (exec_frame _ (mkR fs false)); [exact E1|]. intros s Hs. apply shank_step_orig.
      pose proof (prep24_shape ow fs n) as Hsh. rewrite forallb_forall in Hsh. auto. }
  assert (E7 : exists rs7, exec (del24 o tf) rs6 = (rs7, None) /\ r_checked rs7 = r_checked rs6 /\
            r_fs rs7 (PFile Orig tf) = (if o_post o && o_del o then Absent else fs (PFile Orig tf)) /\
            forall q, q <> PFile Orig tf -> r_fs rs7 q = r_fs rs6 q).
  { unfold del24. destruct (o_del o).
    - cbn [exec step_sem]. rewrite C6, C5. destruct (o_post o); cbn.
      + unfold unlink. rewrite (proj2 (present_true _ _)) by (rewrite Horig; exact Hin).
        eexists. split; [reflexivity|]. cbn. upd_simp. repeat split; auto. intros q Hq. upd_simp. reflexivity.
      + exists rs6. rewrite Horig. split; [reflexivity|]. split; [congruence|]. split; [reflexivity | auto].
    - exists rs6. cbn. rewrite andb_false_r, Horig. auto. }
  destruct E7 as [rs7 [E7 [C7 [O7 F7]]]].
  exists rs7. split.
  { rewrite exec_app. unfold prep24. unfold prep24 in E1. rewrite exec_app, E1.
    unfold body24, metas24. rewrite exec_app, E2. rewrite exec_app, exec_app, E3, E4.
    rewrite exec_app, E5, E6. exact E7. }
  split; [congruence|]. split; [|split; [exact O7|]].
  - intros k Hk. rewrite !F7 by congruence. destruct (K6 k Hk) as [Ka Kl].
    repeat split.
    + rewrite F6 by (intros; discriminate). rewrite F5, F4, F3 by congruence.
      destruct (wins24_run n w' rs1) as [rsx [Ex _]]. rewrite E2 in Ex. inversion Ex; subst rsx.
      erewrite exec_frame; [apply D1; [apply in_seq; lia | apply Hcond; apply in_seq; lia] | exact E2 |].
      intros s Hs. apply nodir_step_dir.
      pose proof (rest24_nodir n (S w') (mkO false false false) true None FBin) as Hnd.
      unfold body24 in Hnd. cbn [o_post o_comp] in Hnd. rewrite !forallb_app in Hnd.
      apply andb_true_iff in Hnd as [Hnd _]. apply andb_true_iff in Hnd as [Hnd _].
      rewrite forallb_forall in Hnd. auto.
    + rewrite F6 by (intros k0 e f Heq; inversion Heq; reflexivity). rewrite F5.
      apply P4a. apply P3. apply in_seq. lia.
    + rewrite F6 by (intros k0 e f Heq; inversion Heq; reflexivity). rewrite F5.
      apply P4. apply in_seq. lia.
    + unfold out_ok in *. destruct (o_comp o); rewrite !F7 by congruence; exact Ka.
    + unfold out_ok in *. destruct (o_comp o); rewrite !F7 by congruence; exact Kl.
  - intros f Hf. rewrite F7 by congruence. apply Horig.
Qed.

Lemma comp_steps_meta_frame : forall ow o rs rs' e o',
  exec (comp_steps ow o) rs = (rs', e) -> r_fs rs' (PFile o' FMeta) = r_fs rs (PFile o' FMeta).
Proof. intros. eapply exec_frame; eauto. intros s Hs. eapply touches_comp_meta; eauto. Qed.

Lemma appends21_run : forall l rs, forallb (fun s => match s with SAppend21 _ => true | _ => false end) l = true ->
  exists rs', exec l rs = (rs', None) /\ r_checked rs' = r_checked rs /\
    forall q, q <> PFile Lf21 FBin -> r_fs rs' q = r_fs rs q.
Proof.
  induction l as [|s l IH]; intros rs H; [exists rs; auto|].
  cbn in H. apply andb_true_iff in H as [Hs Hl]. destruct s; try discriminate.
  cbn [exec step_sem].
  destruct (IH (mkR (upd (r_fs rs) (PFile Lf21 FBin) (if last then Complete else Partial)) (r_checked rs)) Hl)
    as [rs' [Hx [Hc Hf]]].
  exists rs'. split; [exact Hx|]. split; [exact Hc|]. intros q Hq. rewrite Hf by exact Hq. cbn. upd_simp. reflexivity.
Qed.

Lemma forced21_exec_gen : forall w' o tf fs ck,
  (tf = FBin -> fs (PFile Orig FBin) = Complete) ->
  exists rs', exec (plan21 (S w') o true tf fs) (mkR fs ck) = (rs', None) /\
    r_fs rs' (PFile Lf21 FMeta) = Complete /\ out_ok (o_comp o) (r_fs rs') Lf21 /\
    (if o_comp o && fkind_eqb tf FBin then out_ok true (r_fs rs') Orig
     else forall f, r_fs rs' (PFile Orig f) = fs (PFile Orig f)) /\
    r_fs rs' (PFile Orig FMeta) = fs (PFile Orig FMeta).
Proof.
  intros w' o tf fs ck Htf. unfold plan21, already21. rewrite andb_false_r.
  (* head: truncate, windows, metadata *)
  assert (H1 : exists rs1, exec ([STrunc (PFile Lf21 FBin)] ++ wins21 (S w') ++ [SWriteMeta Lf21]) (mkR fs ck)
                 = (rs1, None) /\ r_fs rs1 (PFile Lf21 FBin) = Complete /\
                 r_fs rs1 (PFile Lf21 FMeta) = Complete /\
                 forall f, r_fs rs1 (PFile Orig f) = fs (PFile Orig f)).
  { cbn [app exec step_sem dir_ok r_fs r_checked]. unfold wins21.
    destruct (appends21_run (map (fun _ : nat => SAppend21 false) (seq 0 w'))
                (mkR (upd fs (PFile Lf21 FBin) Partial) ck)) as [rsa [Ha [_ Fa]]].
    { apply forallb_forall. intros s Hs. apply in_map_iff in Hs as [x [<- _]]. reflexivity. }
    rewrite <- app_assoc, exec_app, Ha. cbn [app exec step_sem r_fs r_checked].
    unfold present. upd_simp. cbn [fstate_eqb negb].
    eexists. split; [reflexivity|]. cbn [r_fs]. upd_simp. split; [reflexivity|]. split; [reflexivity|].
    intros f. upd_simp. rewrite Fa by congruence. cbn. upd_simp. reflexivity. }
  destruct H1 as [rs1 [E1 [B1 [M1 O1]]]].
  rewrite exec_app, E1.
  destruct (o_comp o); cbn [andb out_ok].
  2:{ exists rs1. split; [reflexivity|]. split; [exact M1|]. split; [exact B1|]. split; [exact O1 | apply O1]. }
  destruct (comp_steps_run true Lf21) with (rs := rs1) as [rsx _]; [exact B1|]. clear rsx.
  unfold origcomp21. destruct tf; cbn [fkind_eqb app];
    try (destruct (comp_steps_run true Lf21 rs1 B1) as [rs2 [E2 [_ [A1 [A2 [A3 [A4 F2]]]]]]];
         exists rs2; split; [exact E2|];
         split; [rewrite (comp_steps_meta_frame _ _ _ _ _ Lf21 E2); exact M1|];
         split; [auto|]; split; [intros f; rewrite F2 by congruence; apply O1
                               | rewrite F2 by congruence; apply O1]).
  change (SCompBegin Orig :: SCompEnd Orig :: SRenameCh Orig :: SRename Orig :: SUnlink (PFile Orig FBin) false
            :: comp_steps true Lf21) with (comp_core Orig ++ comp_steps true Lf21).
  destruct (comp_core_run Orig rs1) as [rs2 [E2 [_ [A1 [A2 [A3 [A4 F2]]]]]]].
  { rewrite O1. apply Htf. reflexivity. }
  destruct (comp_steps_run true Lf21 rs2) as [rs3 [E3 [_ [L1 [L2 [L3 [L4 F3]]]]]]].
  { rewrite F2 by congruence. exact B1. }
  exists rs3. rewrite exec_app, E2. split; [exact E3|].
  split; [rewrite (comp_steps_meta_frame _ _ _ _ _ Lf21 E3);
          rewrite (comp_steps_meta_frame false Orig _ _ _ Lf21 E2); exact M1|]. split; [auto|].
  split; [|rewrite F3 by congruence].
  - repeat split; rewrite F3 by congruence; assumption.
  - transitivity (r_fs rs1 (PFile Orig FMeta)); [|apply O1].
    eapply exec_frame; [exact E2|]. intros s Hs. unfold comp_core in Hs. cbn in Hs.
    repeat (destruct Hs as [<-|Hs]; [reflexivity|]). destruct Hs.
Qed.

Lemma forced21_exec : forall w' o tf fs,
  (tf = FBin -> fs (PFile Orig FBin) = Complete) ->
  exists rs', exec (plan21 (S w') o true tf fs) (mkR fs false) = (rs', None) /\
    r_fs rs' (PFile Lf21 FMeta) = Complete /\ out_ok (o_comp o) (r_fs rs') Lf21 /\
    (if o_comp o && fkind_eqb tf FBin then out_ok true (r_fs rs') Orig
     else forall f, r_fs rs' (PFile Orig f) = fs (PFile Orig f)) /\
    r_fs rs' (PFile Orig FMeta) = fs (PFile Orig FMeta).
Proof. intros. apply forced21_exec_gen. assumption. Qed.

(* top level *)
Lemma go_full : forall plan fs st al rs',
  exec plan (mkR fs false) = (rs', None) ->
  out_outcome (go plan None fs st al) = Status st /\ out_fs (go plan None fs st al) = r_fs rs' /\
  out_checked (go plan None fs st al) = r_checked rs'.
Proof.
  intros plan fs st al rs' H. unfold go. rewrite H. cbv beta iota zeta. rewrite Nat.ltb_irrefl.
  cbn [out_outcome out_fs out_checked]. auto.
Qed.

Lemma forced24_exec : forall n w' o tf fs,
  fs (PFile Orig tf) <> Absent ->
  exists rs', exec (plan24 n (S w') o true None tf fs) (mkR fs false) = (rs', None) /\
    r_checked rs' = o_post o /\ final24_ok n o (r_fs rs') /\
    r_fs rs' (PFile Orig tf) = (if o_post o && o_del o then Absent else fs (PFile Orig tf)) /\
    forall f, f <> tf -> r_fs rs' (PFile Orig f) = fs (PFile Orig f).
Proof. intros. apply run24_exec; [apply already24_true_ow | assumption]. Qed.

(* any NP2.4 run that gets past the "already exists" test — overwrite or not — and is not
   interrupted completes with valid output, from ANY directory *)
Lemma run24_completes : forall n w' fs t o ow,
  (t = TBin \/ t = TCbin) -> input_state NP24 n fs t = Present -> already24 ow fs n = false ->
  let out := run_once NP24 n (S w') fs (mkRun t o ow None None None) in
  let tf := target_form t in
  out_outcome out = Status 1 /\ out_checked out = o_post o /\ final24_ok n o (out_fs out) /\
  out_fs out (PFile Orig tf) = (if o_post o && o_del o then Absent else fs (PFile Orig tf)) /\
  forall f, f <> tf -> out_fs out (PFile Orig f) = fs (PFile Orig f).
Proof.
  intros n w' fs t o ow Ht Hin Hal. cbv zeta.
  destruct (input_present_orig _ _ _ _ Hin) as [_ [HB HC]].
  assert (Hp : fs (PFile Orig (target_form t)) <> Absent).
  { destruct Ht as [-> | ->]; cbn; [rewrite HB by reflexivity | destruct HC as [-> _]; [reflexivity|]]; discriminate. }
  destruct (run24_exec n w' o ow (target_form t) fs Hal Hp) as [rs' [Hx [Hc [Hf [Ho Hr]]]]].
  unfold run_once. cbn [r_target r_opts r_ow r_crash r_corrupt r_sub]. rewrite Hin, Hal.
  destruct (go_full _ fs 1%Z 0%Z rs' Hx) as [G1 [G2 G3]].
  destruct Ht as [-> | ->]; cbn [target_form] in *; rewrite G1, G2, G3; auto.
Qed.

Lemma forced24 : forall n w' fs t o,
  (t = TBin \/ t = TCbin) -> input_state NP24 n fs t = Present ->
  let out := run_once NP24 n (S w') fs (mkRun t o true None None None) in
  let tf := target_form t in
  out_outcome out = Status 1 /\ out_checked out = o_post o /\ final24_ok n o (out_fs out) /\
  out_fs out (PFile Orig tf) = (if o_post o && o_del o then Absent else fs (PFile Orig tf)) /\
  forall f, f <> tf -> out_fs out (PFile Orig f) = fs (PFile Orig f).
Proof.
  intros n w' fs t o Ht Hin. cbv zeta.
  destruct (input_present_orig _ _ _ _ Hin) as [_ [HB HC]].
  assert (Hp : fs (PFile Orig (target_form t)) <> Absent).
  { destruct Ht as [-> | ->]; cbn; [rewrite HB by reflexivity | destruct HC as [-> _]; [reflexivity|]]; discriminate. }
  destruct (forced24_exec n w' o (target_form t) fs Hp) as [rs' [Hx [Hc [Hf [Ho Hr]]]]].
  unfold run_once. cbn [r_target r_opts r_ow r_crash r_corrupt r_sub]. rewrite Hin.
  rewrite already24_true_ow.
  destruct (go_full _ fs 1%Z 0%Z rs' Hx) as [G1 [G2 G3]].
  destruct Ht as [-> | ->]; cbn [target_form] in *; rewrite G1, G2, G3; auto.
Qed.

Lemma forced21 : forall n w' fs t o,
  (t = TBin \/ t = TCbin) -> input_state NP21 n fs t = Present ->
  let out := run_once NP21 n (S w') fs (mkRun t o true None None None) in
  out_outcome out = Status 1 /\
  out_fs out (PFile Lf21 FMeta) = Complete /\ out_ok (o_comp o) (out_fs out) Lf21 /\
  (if o_comp o && fkind_eqb (target_form t) FBin then out_ok true (out_fs out) Orig
   else forall f, out_fs out (PFile Orig f) = fs (PFile Orig f)) /\
  out_fs out (PFile Orig FMeta) = fs (PFile Orig FMeta).
Proof.
  intros n w' fs t o Ht Hin. cbv zeta.
  destruct (input_present_orig _ _ _ _ Hin) as [_ [HB HC]].
  assert (Htf : target_form t = FBin -> fs (PFile Orig FBin) = Complete).
  { destruct Ht as [-> | ->]; cbn; [auto | discriminate]. }
  destruct (forced21_exec w' o (target_form t) fs Htf) as [rs' [Hx [Hm [Hl [Ho Hom]]]]].
  unfold run_once. cbn [r_target r_opts r_ow r_crash r_corrupt r_sub]. rewrite Hin.
  assert (Hal : already21 true fs = false) by (unfold already21; apply andb_false_r).
  rewrite Hal.
  destruct (go_full _ fs 1%Z 0%Z rs' Hx) as [G1 [G2 G3]].
  destruct Ht as [-> | ->]; cbn [target_form] in *; rewrite G1, G2; auto.
Qed.

(* ====================================================================== *)
(* Several method calls on ONE converter object (code after 899cbec,         *)
(* 8b318aa, 8925238)                                                         *)
(* ====================================================================== *)
Definition data_ok (fs : fsys) (o : owner) : Prop :=
  fs (PFile o FBin) = Complete \/ (fs (PFile o FCbin) = Complete /\ fs (PFile o FCh) = Complete).

(* compression of one file, interrupted anywhere: the data stay complete as .bin or as .cbin+.ch *)
Lemma comp_core_prefix : forall o k rs rs',
  r_fs rs (PFile o FBin) = Complete ->
  exec (firstn k (comp_core o)) rs = (rs', None) -> data_ok (r_fs rs') o.
Proof.
  intros o k rs rs' Hb H. unfold comp_core in H. unfold data_ok.
  destruct k as [|[|[|[|[|k]]]]]; cbn [firstn exec] in H.
  - inversion H; subst. left; exact Hb.
  - rewrite sem_compbegin in H by (rewrite Hb; discriminate). inversion H; subst; cbn. upd_simp. auto.
  - rewrite sem_compbegin in H by (rewrite Hb; discriminate).
    rewrite sem_compend in H by (cbn; upd_simp; exact Hb). inversion H; subst; cbn. upd_simp. auto.
  - rewrite sem_compbegin in H by (rewrite Hb; discriminate).
    rewrite sem_compend in H by (cbn; upd_simp; exact Hb).
    rewrite sem_renamech in H by (cbn; upd_simp; discriminate). inversion H; subst; cbn. upd_simp. auto.
  - rewrite sem_compbegin in H by (rewrite Hb; discriminate).
    rewrite sem_compend in H by (cbn; upd_simp; exact Hb).
    rewrite sem_renamech in H by (cbn; upd_simp; discriminate).
    rewrite sem_rename in H by (cbn; upd_simp; discriminate). inversion H; subst; cbn. upd_simp. auto.
  - rewrite firstn_nil in H.
    rewrite sem_compbegin in H by (rewrite Hb; discriminate).
    rewrite sem_compend in H by (cbn; upd_simp; exact Hb).
    rewrite sem_renamech in H by (cbn; upd_simp; discriminate).
    rewrite sem_rename in H by (cbn; upd_simp; discriminate).
    rewrite sem_unlink_present in H by (cbn; upd_simp; rewrite Hb; discriminate).
    inversion H; subst; cbn. upd_simp. auto.
Qed.

Lemma comp_steps_prefix : forall ow o k rs rs',
  r_fs rs (PFile o FBin) = Complete ->
  exec (firstn k (comp_steps ow o)) rs = (rs', None) -> data_ok (r_fs rs') o.
Proof.
  intros ow o k rs rs' Hb H. unfold comp_steps in H.
  change [SCompBegin o; SCompEnd o; SRenameCh o; SRename o; SUnlink (PFile o FBin) false] with (comp_core o) in H.
  destruct ow; cbn [app] in H; [|eapply comp_core_prefix; eauto].
  destruct k as [|k]; cbn [firstn] in H.
  - cbn in H. inversion H; subst. left; exact Hb.
  - apply exec_cons_ok in H as [rs1 [Hs Hx]].
    eapply comp_core_prefix; [|exact Hx].
    rewrite (step_frame _ _ _ (PFile o FBin) Hs); [exact Hb|]. cbn [touches]. apply path_eqb_neq. congruence.
Qed.

Lemma data_ok_frame : forall fs fs' o,
  (forall f, fs' (PFile o f) = fs (PFile o f)) -> data_ok fs o -> data_ok fs' o.
Proof. intros fs fs' o Hf H. unfold data_ok in *. rewrite !Hf. exact H. Qed.

Lemma compk_prefix : forall ow k c rs rs',
  r_fs rs (PFile (Shank k Ap) FBin) = Complete ->
  exec (firstn c (compk ow k)) rs = (rs', None) -> data_ok (r_fs rs') (Shank k Ap).
Proof.
  intros ow k c rs rs' Hb H. unfold compk in H. rewrite firstn_app in H.
  apply exec_app_ok in H as [rs1 [H1 H2]].
  eapply data_ok_frame; [|eapply comp_steps_prefix; eauto].
  intros f. eapply exec_frame; [exact H2|]. intros s Hs. apply In_firstn in Hs.
  eapply touches_comp_other; eauto. congruence.
Qed.

Lemma comp_list_prefix : forall ow ks c rs rs',
  NoDup ks -> (forall k, In k ks -> r_fs rs (PFile (Shank k Ap) FBin) = Complete) ->
  exec (firstn c (flat_map (compk ow) ks)) rs = (rs', None) ->
  forall k, In k ks -> data_ok (r_fs rs') (Shank k Ap).
Proof.
  intros ow. induction ks as [|k0 ks IH]; intros c rs rs' Hnd Hb H k Hin; [destruct Hin|].
  cbn [flat_map] in H. rewrite firstn_app in H. apply exec_app_ok in H as [rs1 [H1 H2]].
  inversion Hnd as [|k0' ks' Hnotin Hnd']; subst.
  destruct Hin as [->|Hin].
  - eapply data_ok_frame; [|eapply compk_prefix; [apply Hb; left; reflexivity | exact H1]].
    intros f. eapply exec_frame; [exact H2|]. intros s Hs. apply In_firstn in Hs.
    apply in_flat_map in Hs as [k' [Hk' Hs]].
    eapply touches_compk_other; eauto. intros e f' Heq; inversion Heq; subst; contradiction.
  - apply (IH (c - length (compk ow k0))%nat rs1 rs' Hnd'); auto. intros k' Hk'.
    erewrite exec_frame; [apply Hb; right; exact Hk' | exact H1 |].
    intros s Hs. apply In_firstn in Hs. eapply touches_compk_other; eauto.
    intros e f Heq; inversion Heq; subst; contradiction.
Qed.

(* starting from a cleared flag, only a successful comparison sets it *)
Lemma step_checked_false : forall s rs rs',
  step_sem s rs = Ok rs' -> is_sverify s = false -> r_checked rs = false -> r_checked rs' = false.
Proof.
  intros s rs rs' H Hv Hc. destruct (is_verify s) eqn:Ev.
  - destruct s; try discriminate. cbn in H. inversion H; reflexivity.
  - rewrite (step_checked _ _ _ H Ev). exact Hc.
Qed.
Lemma exec_checked_false : forall l rs rs' e,
  exec l rs = (rs', e) -> forallb (fun s => negb (is_sverify s)) l = true ->
  r_checked rs = false -> r_checked rs' = false.
Proof.
  induction l as [|s l IH]; intros rs rs' e H Hall Hc; cbn in H.
  - inversion H; subst; exact Hc.
  - cbn in Hall. apply andb_true_iff in Hall as [Hs Hall]. apply negb_true_iff in Hs.
    destruct (step_sem s rs) as [rs1|e1] eqn:E.
    + eapply IH; eauto. eapply step_checked_false; eauto.
    + inversion H; subst; exact Hc.
Qed.

Lemma noverify_nosverify : forall l,
  forallb (fun s => negb (is_verify s)) l = true -> forallb (fun s => negb (is_sverify s)) l = true.
Proof.
  intros l H. apply forallb_forall. intros s Hs. rewrite forallb_forall in H. specialize (H s Hs).
  destruct s; try reflexivity; discriminate.
Qed.

Lemma metas24_noverify : forall n, forallb (fun s => negb (is_verify s)) (metas24 n) = true.
Proof.
  intros. unfold metas24. rewrite forallb_app. apply andb_true_iff. split; apply forallb_flat_map; reflexivity.
Qed.

Lemma plan24_noverify : forall n w o ow corrupt tf fs,
  o_post o = false -> forallb (fun s => negb (is_verify s)) (plan24 n w o ow corrupt tf fs) = true.
Proof.
  intros n w o ow corrupt tf fs Hp. unfold plan24. destruct (already24 ow fs n); [apply prep24_noverify|].
  unfold body24, del24. rewrite Hp. repeat rewrite forallb_app.
  rewrite prep24_noverify, wins24_noverify, metas24_noverify. cbn [forallb andb].
  destruct (o_comp o); [rewrite comp24_noverify|]; destruct (o_del o); reflexivity.
Qed.

Definition pre_verify (n w : nat) (ow : bool) (corrupt : option nat) (fs : fsys) : list step :=
  prep24 ow fs n ++ wins24 n w ++ metas24 n
  ++ match corrupt with Some k => [SCorrupt (PFile (Shank k Ap) FBin)] | None => [] end ++ [SCheckBegin].

Lemma plan24_split : forall n w o ow corrupt tf fs,
  already24 ow fs n = false -> o_post o = true ->
  plan24 n w o ow corrupt tf fs =
  pre_verify n w ow corrupt fs ++ SVerify n :: ((if o_comp o then comp24 ow n else []) ++ del24 o tf).
Proof.
  intros n w o ow corrupt tf fs Hal Hp. unfold plan24, body24, verify24, pre_verify. rewrite Hal, Hp.
  destruct corrupt; cbn [app]; repeat rewrite <- app_assoc; cbn [app]; reflexivity.
Qed.

Lemma pre_verify_nosverify : forall n w ow corrupt fs,
  forallb (fun s => negb (is_sverify s)) (pre_verify n w ow corrupt fs) = true.
Proof.
  intros. unfold pre_verify. repeat rewrite forallb_app.
  rewrite (noverify_nosverify _ (prep24_noverify ow fs n)), (noverify_nosverify _ (wins24_noverify n w)),
          (noverify_nosverify _ (metas24_noverify n)).
  destruct corrupt; reflexivity.
Qed.

(* K: a process() call stopped anywhere: check_completed set ==> every shank's ap data (as .bin or
   as .cbin+.ch) and metadata are complete at that moment *)
Lemma plan24_prefix_K : forall n w o ow corrupt tf fs c rs',
  exec (firstn c (plan24 n w o ow corrupt tf fs)) (mkR fs false) = (rs', None) ->
  r_checked rs' = true -> shanks_ok n (r_fs rs').
Proof.
  intros n w o ow corrupt tf fs c rs' H Hck.
  destruct (o_post o) eqn:Ep.
  2:{ exfalso. assert (r_checked rs' = false); [|congruence].
      eapply (exec_checked_false _ (mkR fs false)); [exact H | | reflexivity].
      apply forallb_firstn. apply noverify_nosverify. apply plan24_noverify. exact Ep. }
  destruct (already24 ow fs n) eqn:Eal.
  { exfalso. assert (r_checked rs' = false); [|congruence].
    unfold plan24 in H. rewrite Eal in H.
    eapply (exec_checked_false _ (mkR fs false)); [exact H | | reflexivity].
    apply forallb_firstn. apply noverify_nosverify. apply prep24_noverify. }
  rewrite (plan24_split _ _ _ _ _ _ _ Eal Ep) in H. rewrite firstn_app in H.
  apply exec_app_ok in H as [rs1 [H1 H2]].
  assert (Hc1 : r_checked rs1 = false).
  { eapply (exec_checked_false _ (mkR fs false)); [exact H1 | | reflexivity].
    apply forallb_firstn. apply pre_verify_nosverify. }
  destruct (c - length (pre_verify n w ow corrupt fs))%nat as [|m].
  { cbn in H2. inversion H2; subst. congruence. }
  cbn [firstn] in H2. apply exec_cons_ok in H2 as [rsV [HsV H3]].
  cbn in HsV. destruct (all_ap_complete (r_fs rs1) n) eqn:Eall; [|discriminate].
  inversion HsV; subst rsV; clear HsV.
  pose proof (all_ap_complete_spec2 _ _ Eall) as Hall.
  rewrite firstn_app in H3. apply exec_app_ok in H3 as [rs2 [HC HD]].
  assert (Hok2 : shanks_ok n (r_fs rs2)).
  { intros k Hk. destruct (Hall k Hk) as [Hb Hm]. split.
    - destruct (o_comp o).
      + unfold comp24 in HC.
        change (fun k0 => comp_steps ow (Shank k0 Ap) ++ comp_steps ow (Shank k0 Lf)) with (compk ow) in HC.
        apply (comp_list_prefix ow (seq 0 n) _ _ _ (seq_NoDup n 0)) with (k := k) in HC.
        * exact HC.
        * intros k' Hk'. apply in_seq in Hk'. apply Hall. lia.
        * apply in_seq. lia.
      + rewrite firstn_nil in HC. cbn in HC. inversion HC; subst. left. exact Hb.
    - rewrite (exec_frame _ _ _ _ (PFile (Shank k Ap) FMeta) HC); [exact Hm|]. intros s Hs. apply In_firstn in Hs.
      destruct (o_comp o); [|destruct Hs]. unfold comp24 in Hs.
      apply in_flat_map in Hs as [k' [_ Hs]]. apply in_app_or in Hs as [Hs|Hs]; eapply touches_comp_meta; eauto. }
  (* delete_NP24 does not touch shank files *)
  intros k Hk. specialize (Hok2 k Hk). unfold shank_ok in *.
  assert (Hf : forall e f, r_fs rs' (PFile (Shank k e) f) = r_fs rs2 (PFile (Shank k e) f)).
  { intros e f. eapply exec_frame; [exact HD|]. intros s Hs. apply In_firstn in Hs.
    unfold del24 in Hs. destruct (o_del o); [|destruct Hs]. destruct Hs as [<-|[]]. cbn [touches].
    apply path_eqb_neq. congruence. }
  rewrite !Hf. exact Hok2.
Qed.

(* ---- init_params(nshank=sub): only some shanks are written ----------------------- *)
Lemma nodupb_NoDup : forall l, nodupb l = true -> NoDup l.
Proof.
  induction l as [|k l IH]; intros H; [constructor|]. cbn in H. apply andb_true_iff in H as [A B].
  constructor; [|apply IH; exact B]. intros Hin. apply mem_In in Hin. rewrite Hin in A. discriminate.
Qed.
Lemma sub_ok_NoDup : forall sub n, sub_ok sub n = true -> NoDup sub.
Proof.
  intros sub n H. unfold sub_ok in H. apply andb_true_iff in H as [H _]. apply andb_true_iff in H as [_ H].
  apply nodupb_NoDup. exact H.
Qed.

Lemma prep24s_shape : forall ow fs sub, forallb shank_step (prep24s ow fs sub) = true.
Proof.
  intros. unfold prep24s. apply forallb_flat_map. intros k _. unfold prep_one.
  destruct (negb _ || ow); reflexivity.
Qed.
Lemma prep24s_noverify : forall ow fs sub, forallb (fun s => negb (is_verify s)) (prep24s ow fs sub) = true.
Proof.
  intros. unfold prep24s. apply forallb_flat_map. intros k _. unfold prep_one.
  destruct (negb _ || ow); reflexivity.
Qed.
Lemma wins24s_noverify : forall sub w, forallb (fun s => negb (is_verify s)) (wins24s sub w) = true.
Proof.
  intros. unfold wins24s. destruct w; [reflexivity|]. rewrite forallb_app. apply andb_true_iff.
  split; [apply forallb_flat_map|]; reflexivity.
Qed.
Lemma metas24s_noverify : forall sub, forallb (fun s => negb (is_verify s)) (metas24s sub) = true.
Proof.
  intros. unfold metas24s. rewrite forallb_app. apply andb_true_iff. split; apply forallb_flat_map; reflexivity.
Qed.
Lemma comp24s_noverify : forall ow sub, forallb (fun s => negb (is_verify s)) (comp24s ow sub) = true.
Proof.
  intros. unfold comp24s. apply forallb_flat_map. intros k _. unfold comp_steps. destruct ow; reflexivity.
Qed.

Lemma body24s_shape : forall sub n w o ow corrupt, forallb shank_step (body24s sub n w o ow corrupt) = true.
Proof.
  intros. unfold body24s. repeat rewrite forallb_app. repeat (apply andb_true_iff; split).
  - unfold wins24s. destruct w; [reflexivity|]. rewrite forallb_app. apply andb_true_iff. split; [|reflexivity].
    apply forallb_flat_map. reflexivity.
  - unfold metas24s. rewrite forallb_app. apply andb_true_iff. split; apply forallb_flat_map; reflexivity.
  - destruct (o_post o); [|reflexivity]. unfold verify24s. destruct corrupt; reflexivity.
  - destruct (o_comp o); [|reflexivity]. unfold comp24s. apply forallb_flat_map. intros k _.
    rewrite forallb_app. rewrite !comp_steps_shape. reflexivity.
Qed.

Lemma plan24s_noverify : forall sub n w o ow corrupt tf fs,
  o_post o = false -> forallb (fun s => negb (is_verify s)) (plan24s sub n w o ow corrupt tf fs) = true.
Proof.
  intros sub n w o ow corrupt tf fs Hp. unfold plan24s. destruct (already24s ow fs sub); [apply prep24s_noverify|].
  unfold body24s, del24. rewrite Hp. repeat rewrite forallb_app.
  rewrite prep24s_noverify, wins24s_noverify, metas24s_noverify. cbn [forallb andb].
  destruct (o_comp o); [rewrite comp24s_noverify|]; destruct (o_del o); reflexivity.
Qed.

Definition pre_verify_s (sub : list nat) (w : nat) (ow : bool) (corrupt : option nat) (fs : fsys) : list step :=
  prep24s ow fs sub ++ wins24s sub w ++ metas24s sub
  ++ match corrupt with Some k => [SCorrupt (PFile (Shank k Ap) FBin)] | None => [] end ++ [SCheckBegin].

Lemma plan24s_split : forall sub n w o ow corrupt tf fs,
  already24s ow fs sub = false -> o_post o = true ->
  plan24s sub n w o ow corrupt tf fs =
  pre_verify_s sub w ow corrupt fs ++ SVerifyS sub n :: ((if o_comp o then comp24s ow sub else []) ++ del24 o tf).
Proof.
  intros sub n w o ow corrupt tf fs Hal Hp. unfold plan24s, body24s, verify24s, pre_verify_s. rewrite Hal, Hp.
  destruct corrupt; cbn [app]; repeat rewrite <- app_assoc; cbn [app]; reflexivity.
Qed.

Lemma pre_verify_s_nosverify : forall sub w ow corrupt fs,
  forallb (fun s => negb (is_sverify s)) (pre_verify_s sub w ow corrupt fs) = true.
Proof.
  intros. unfold pre_verify_s. repeat rewrite forallb_app.
  rewrite (noverify_nosverify _ (prep24s_noverify ow fs sub)), (noverify_nosverify _ (wins24s_noverify sub w)),
          (noverify_nosverify _ (metas24s_noverify sub)).
  destruct corrupt; reflexivity.
Qed.

(* K for a subset run: check_completed set at any interruption point ==> the verification found the
   shank files covering EVERY channel of the original, each complete — so every shank k < n is ok *)
Lemma plan24s_prefix_K : forall sub n w o ow corrupt tf fs c rs',
  NoDup sub ->
  exec (firstn c (plan24s sub n w o ow corrupt tf fs)) (mkR fs false) = (rs', None) ->
  r_checked rs' = true -> shanks_ok n (r_fs rs').
Proof.
  intros sub n w o ow corrupt tf fs c rs' Hnd H Hck.
  destruct (o_post o) eqn:Ep.
  2:{ exfalso. assert (r_checked rs' = false); [|congruence].
      eapply (exec_checked_false _ (mkR fs false)); [exact H | | reflexivity].
      apply forallb_firstn. apply noverify_nosverify. apply plan24s_noverify. exact Ep. }
  destruct (already24s ow fs sub) eqn:Eal.
  { exfalso. assert (r_checked rs' = false); [|congruence].
    unfold plan24s in H. rewrite Eal in H.
    eapply (exec_checked_false _ (mkR fs false)); [exact H | | reflexivity].
    apply forallb_firstn. apply noverify_nosverify. apply prep24s_noverify. }
  rewrite (plan24s_split _ _ _ _ _ _ _ _ Eal Ep) in H. rewrite firstn_app in H.
  apply exec_app_ok in H as [rs1 [H1 H2]].
  assert (Hc1 : r_checked rs1 = false).
  { eapply (exec_checked_false _ (mkR fs false)); [exact H1 | | reflexivity].
    apply forallb_firstn. apply pre_verify_s_nosverify. }
  destruct (c - length (pre_verify_s sub w ow corrupt fs))%nat as [|m].
  { cbn in H2. inversion H2; subst. congruence. }
  cbn [firstn] in H2. apply exec_cons_ok in H2 as [rsV [HsV H3]].
  cbn in HsV. destruct (verify_cover (r_fs rs1) sub n) eqn:Ecov; [|discriminate].
  inversion HsV; subst rsV; clear HsV.
  pose proof (verify_cover_spec _ _ _ Ecov) as Hall.
  assert (Hsubbin : forall k, In k sub -> r_fs rs1 (PFile (Shank k Ap) FBin) = Complete).
  { intros k Hk. unfold verify_cover in Ecov. apply andb_true_iff in Ecov as [_ Ha].
    rewrite forallb_forall in Ha. specialize (Ha k Hk). apply andb_true_iff in Ha as [A _].
    apply complete_true. exact A. }
  rewrite firstn_app in H3. apply exec_app_ok in H3 as [rs2 [HC HD]].
  assert (Hok2 : shanks_ok n (r_fs rs2)).
  { intros k Hk. destruct (Hall k Hk) as [Hin [Hb Hm]]. split.
    - destruct (o_comp o).
      + unfold comp24s in HC.
        change (fun k0 => comp_steps ow (Shank k0 Ap) ++ comp_steps ow (Shank k0 Lf)) with (compk ow) in HC.
        apply (comp_list_prefix ow sub _ _ _ Hnd) with (k := k) in HC; [exact HC | exact Hsubbin | exact Hin].
      + rewrite firstn_nil in HC. cbn in HC. inversion HC; subst. left. exact Hb.
    - rewrite (exec_frame _ _ _ _ (PFile (Shank k Ap) FMeta) HC); [exact Hm|]. intros s Hs. apply In_firstn in Hs.
      destruct (o_comp o); [|destruct Hs]. unfold comp24s in Hs.
      apply in_flat_map in Hs as [k' [_ Hs]]. apply in_app_or in Hs as [Hs|Hs]; eapply touches_comp_meta; eauto. }
  intros k Hk. specialize (Hok2 k Hk). unfold shank_ok in *.
  assert (Hf : forall e f, r_fs rs' (PFile (Shank k e) f) = r_fs rs2 (PFile (Shank k e) f)).
  { intros e f. eapply exec_frame; [exact HD|]. intros s Hs. apply In_firstn in Hs.
    unfold del24 in Hs. destruct (o_del o); [|destruct Hs]. destruct Hs as [<-|[]]. cbn [touches].
    apply path_eqb_neq. congruence. }
  rewrite !Hf. exact Hok2.
Qed.

(* safety of a subset run stopped anywhere *)
Lemma np24s_prefix : forall sub n w o ow corrupt tf fs c rs',
  NoDup sub -> (tf = FBin \/ tf = FCbin) -> orig_ok fs -> inv NP24 n fs ->
  exec (firstn c (plan24s sub n w o ow corrupt tf fs)) (mkR fs false) = (rs', None) ->
  inv NP24 n (r_fs rs') /\
  (forall f, f <> tf -> r_fs rs' (PFile Orig f) = fs (PFile Orig f)) /\
  (r_fs rs' (PFile Orig tf) = fs (PFile Orig tf) \/ r_fs rs' (PFile Orig tf) = Absent) /\
  (r_fs rs' (PFile Orig tf) <> fs (PFile Orig tf) ->
   o_del o = true /\ r_checked rs' = true /\ shanks_ok n (r_fs rs')).
Proof.
  intros sub n w o ow corrupt tf fs c rs' Hnd Htf Ho Hinv H.
  pose proof (plan24s_prefix_K sub n w o ow corrupt tf fs c rs' Hnd H) as HK.
  unfold plan24s in H. destruct (already24s ow fs sub) eqn:Eal.
  - assert (Hf : forall f, r_fs rs' (PFile Orig f) = fs (PFile Orig f)).
    { intros f. eapply (shank_steps_frame_orig _ (mkR fs false)); eauto.
      apply forallb_firstn, prep24s_shape. }
    split; [apply (frame_inv NP24 n fs); auto|]. split; [intros; apply Hf|].
    split; [left; apply Hf | intros Hne; rewrite Hf in Hne; contradiction].
  - set (A := prep24s ow fs sub ++ body24s sub n w o ow corrupt) in *.
    rewrite firstn_app in H. apply exec_app_ok in H as [rs1 [HA HD]].
    assert (Hf1 : forall f, r_fs rs1 (PFile Orig f) = fs (PFile Orig f)).
    { intros f. eapply (shank_steps_frame_orig _ (mkR fs false)); eauto.
      apply forallb_firstn. subst A. rewrite forallb_app, prep24s_shape, body24s_shape. reflexivity. }
    assert (Hsame : rs' = rs1 -> inv NP24 n (r_fs rs') /\
              (forall f, f <> tf -> r_fs rs' (PFile Orig f) = fs (PFile Orig f)) /\
              (r_fs rs' (PFile Orig tf) = fs (PFile Orig tf) \/ r_fs rs' (PFile Orig tf) = Absent) /\
              (r_fs rs' (PFile Orig tf) <> fs (PFile Orig tf) ->
               o_del o = true /\ r_checked rs' = true /\ shanks_ok n (r_fs rs'))).
    { intros ->. split; [apply (frame_inv NP24 n fs); auto|]. split; [intros; apply Hf1|].
      split; [left; apply Hf1 | intros Hne; rewrite Hf1 in Hne; contradiction]. }
    unfold del24 in HD. destruct (o_del o) eqn:Edel.
    2:{ rewrite firstn_nil in HD. cbn in HD. inversion HD; subst. auto. }
    destruct (c - length A)%nat as [|m] eqn:Ec.
    { cbn in HD. inversion HD; subst. auto. }
    cbn [firstn] in HD. rewrite firstn_nil in HD. cbn in HD.
    destruct (r_checked rs1) eqn:Eck.
    2:{ inversion HD; subst. auto. }
    unfold unlink in HD. destruct (present (r_fs rs1) (PFile Orig tf)) eqn:Epr; [|discriminate].
    inversion HD; subst rs'; clear HD. cbn [r_fs r_checked] in *.
    pose proof (HK Eck) as Hsh'.
    destruct Hinv as [Hm [Hb _]].
    split; [|split; [|split]].
    + unfold inv. repeat split.
      * destruct Htf as [-> | ->]; upd_simp; rewrite Hf1; exact Hm.
      * destruct Htf as [-> | ->]; upd_simp; [discriminate | rewrite Hf1; exact Hb].
      * right. split; [reflexivity | exact Hsh'].
    + intros f Hf. rewrite upd_other by congruence. apply Hf1.
    + right. apply upd_same.
    + intros _. auto.
Qed.

(* ---- the invariant of one object over arbitrary method-call sequences ------------- *)
Definition objI (n : nat) (ob : obj) (fs : fsys) : Prop :=
  (ob_tf ob = FBin \/ ob_tf ob = FCbin) /\ inv NP24 n fs /\
  (ob_checked ob = true -> shanks_ok n fs) /\
  (fs (PFile Orig (ob_tf ob)) <> Absent -> orig_ok fs) /\
  (ob_closed ob = true -> fs (PFile Orig (ob_tf ob)) = Absent).

(* the adversary of the model (damage to a shank file) is not allowed to act in a direct
   check_NP24() call: there it could destroy the only copy after the original is gone, which no
   converter can prevent *)
Definition admissible (c : call) : bool := match c with CCheck _ (Some _) => false | _ => true end.

Lemma obj_call_np24 : forall n w ob fs c ob' o plan st al,
  obj_call NP24 n w ob fs c = (ob', o) -> refused ob fs c = false ->
  call_plan NP24 n w ob fs c = Some (plan, st, al) ->
  exists c1 rs', exec (firstn c1 plan) (mkR fs (start_flag NP24 ob c)) = (rs', None) /\
    out_fs o = r_fs rs' /\ ob_checked ob' = r_checked rs' /\ ob_tf ob' = ob_tf ob /\
    ob_closed ob' = ob_closed ob ||
      (present fs (PFile Orig (ob_tf ob)) && negb (present (r_fs rs') (PFile Orig (ob_tf ob)))).
Proof.
  intros n w ob fs c ob' o plan st al H Hr Hp. unfold obj_call in H. rewrite Hr, Hp in H. cbv zeta in H.
  destruct (exec (match call_crash c with Some k => firstn k plan | None => plan end)
                 (mkR fs (start_flag NP24 ob c))) as [rs' e] eqn:E.
  inversion H; subst ob' o; clear H. cbn [out_fs ob_checked ob_tf ob_closed].
  destruct (exec_prefix _ _ _ _ E) as [c0 [_ Hx]].
  destruct (call_crash c) as [k|]; [rewrite firstn_firstn in Hx|]; eauto 10.
Qed.

Lemma objI_step : forall n w ob fs c ob' o,
  objI n ob fs -> admissible c = true -> obj_call NP24 n w ob fs c = (ob', o) -> objI n ob' (out_fs o).
Proof.
  intros n w ob fs c ob' o HI Hadm H.
  destruct (refused ob fs c) eqn:Er.
  { unfold obj_call in H. rewrite Er in H. inversion H; subst. exact HI. }
  destruct (call_plan NP24 n w ob fs c) as [[[plan st] al]|] eqn:Ep.
  2:{ unfold obj_call in H. rewrite Er, Ep in H. inversion H; subst. exact HI. }
  destruct (obj_call_np24 _ _ _ _ _ _ _ _ _ _ H Er Ep) as [c1 [rs' [Hx [Hfs [Hck [Htf Hcl]]]]]].
  destruct HI as [Jtf [Jinv [JK [Jok Jcl]]]].
  rewrite Hfs. unfold objI. rewrite Hck, Htf, Hcl.
  (* the call left the files alone *)
  assert (Hsame : r_fs rs' = fs -> (r_checked rs' = true -> ob_checked ob = true) ->
            (ob_tf ob = FBin \/ ob_tf ob = FCbin) /\ inv NP24 n (r_fs rs') /\
            (r_checked rs' = true -> shanks_ok n (r_fs rs')) /\
            (r_fs rs' (PFile Orig (ob_tf ob)) <> Absent -> orig_ok (r_fs rs')) /\
            (ob_closed ob || (present fs (PFile Orig (ob_tf ob)) &&
                              negb (present (r_fs rs') (PFile Orig (ob_tf ob)))) = true ->
             r_fs rs' (PFile Orig (ob_tf ob)) = Absent)).
  { intros -> Hc. rewrite andb_negb_r, orb_false_r.
    split; [exact Jtf|]. split; [exact Jinv|]. split; [intros H0; apply JK; apply Hc; exact H0|].
    split; [exact Jok | exact Jcl]. }
  destruct c as [ow cr cp|cr cp|cr|o2]; cbn [call_plan] in Ep.
  - (* process() *)
    unfold refused in Er. cbn [is_process andb] in Er. apply negb_false_iff in Er.
    assert (Hpr : fs (PFile Orig (ob_tf ob)) <> Absent) by (apply present_true; exact Er).
    destruct (ob_closed ob) eqn:Ecl; [exfalso; apply Hpr; apply Jcl; reflexivity|].
    pose proof (Jok Hpr) as Hok. cbn [start_flag] in Hx.
    assert (Hgoal : inv NP24 n (r_fs rs') /\ (r_checked rs' = true -> shanks_ok n (r_fs rs')) /\
              (forall f, f <> ob_tf ob -> r_fs rs' (PFile Orig f) = fs (PFile Orig f)) /\
              (r_fs rs' (PFile Orig (ob_tf ob)) = fs (PFile Orig (ob_tf ob)) \/
               r_fs rs' (PFile Orig (ob_tf ob)) = Absent)).
    { destruct (ob_sub ob) as [sub|].
      - destruct (sub_ok sub n) eqn:Eok; [|discriminate]. inversion Ep; subst plan st al; clear Ep.
        pose proof (sub_ok_NoDup _ _ Eok) as Hnd.
        destruct (np24s_prefix _ _ _ _ _ _ _ _ _ _ Hnd Jtf Hok Jinv Hx) as [A [B [C _]]].
        split; [exact A|]. split; [|split; [exact B | exact C]].
        intros Hc. eapply plan24s_prefix_K; eauto.
      - inversion Ep; subst plan st al; clear Ep.
        destruct (np24_prefix_gen _ _ _ _ _ _ _ _ _ _ (fun _ => eq_refl) Jtf Hok Jinv Hx) as [A [_ [B C]]].
        split; [exact A|]. split; [|split; [exact B | exact C]].
        intros Hc. eapply plan24_prefix_K; eauto. }
    destruct Hgoal as [Hinv' [HK' [Hoth Htfc]]].
    split; [exact Jtf|]. split; [exact Hinv'|].
    split; [exact HK'|].
    split.
    + intros Hp'. assert (Hsm : forall f, r_fs rs' (PFile Orig f) = fs (PFile Orig f)).
      { intros f. destruct (fkind_eqb f (ob_tf ob)) eqn:Ef.
        - apply fkind_eqb_eq in Ef. subst f. destruct Htfc as [Heq|Ha]; [exact Heq | contradiction].
        - apply Hoth. intros ->. rewrite (proj2 (fkind_eqb_eq _ _) eq_refl) in Ef. discriminate. }
      exact (proj1 (frame_inv NP24 n fs (r_fs rs') Hsm Hok Jinv)).
    + cbn [orb]. rewrite Er. cbn [andb]. intros Hn. apply negb_true_iff in Hn. apply present_false. exact Hn.
  - (* check_NP24() *)
    destruct cp; [discriminate|]. destruct (ob_fullbin ob); [|discriminate].
    assert (Hcase : exists v, plan = [SCheckBegin; v] /\ is_sverify v = true /\ verify_n v = n).
    { destruct (ob_sub ob) as [sub|].
      - destruct (sub_ok sub n); [|discriminate]. inversion Ep; subst. exists (SVerifyS sub n). auto.
      - inversion Ep; subst. exists (SVerify n). auto. }
    destruct Hcase as [v [-> [Hv Hvn]]]. clear Ep. cbn [start_flag] in Hx.
    destruct c1 as [|[|c1]]; cbn [firstn] in Hx.
    + cbn in Hx. inversion Hx; subst rs'. apply Hsame; auto.
    + cbn in Hx. inversion Hx; subst rs'. apply Hsame; [reflexivity | discriminate].
    + rewrite firstn_nil in Hx. apply exec_cons_ok in Hx as [r1 [S1 Hx]].
      cbn in S1. inversion S1; subst r1; clear S1.
      apply exec_cons_ok in Hx as [rsv [Esv Hx]]. cbn in Hx. inversion Hx; subst rsv; clear Hx.
      destruct (sverify_ok_spec _ _ _ Hv Esv) as [Hc' [Hfs' Hall]]. cbn [r_fs] in Hfs', Hall.
      rewrite Hvn in Hall. rewrite Hfs'.
      rewrite andb_negb_r, orb_false_r. split; [exact Jtf|]. split; [exact Jinv|].
      split; [|split; [exact Jok | exact Jcl]].
      intros _ k Hk. destruct (Hall k Hk) as [A B]. split; [left; exact A | exact B].
  - (* delete_NP24() *)
    destruct (o_del (ob_opts ob)); [|discriminate]. inversion Ep; subst plan st al; clear Ep.
    cbn [start_flag] in Hx.
    destruct c1 as [|c1]; cbn [firstn] in Hx.
    + cbn in Hx. inversion Hx; subst rs'. apply Hsame; auto.
    + rewrite firstn_nil in Hx. cbn in Hx. destruct (ob_checked ob) eqn:Eck.
      2:{ inversion Hx; subst rs'. apply Hsame; auto. }
      unfold unlink in Hx. cbn [r_fs r_checked] in Hx.
      destruct (present fs (PFile Orig (ob_tf ob))) eqn:Epr; [|discriminate].
      inversion Hx; subst rs'; cbn [r_fs r_checked].
      pose proof (JK eq_refl) as Hsh.
      assert (Hsh' : shanks_ok n (upd fs (PFile Orig (ob_tf ob)) Absent)) by (apply shanks_ok_upd_orig; exact Hsh).
      destruct Jinv as [Hm [Hb _]].
      split; [exact Jtf|]. split.
      { unfold inv. split; [|split].
        - destruct Jtf as [-> | ->]; upd_simp; exact Hm.
        - destruct Jtf as [E | E]; rewrite E; upd_simp; [discriminate | exact Hb].
        - right. split; [reflexivity | exact Hsh']. }
      split; [intros _; exact Hsh'|]. split.
      * rewrite upd_same. intros Hne. contradiction.
      * intros _. apply upd_same.
  - (* attribute assignment *)
    inversion Ep; subst plan st al; clear Ep. rewrite firstn_nil in Hx. cbn in Hx. inversion Hx; subst rs'.
    apply Hsame; auto.
Qed.

Lemma objI_seq : forall n w cs ob fs,
  forallb admissible cs = true -> objI n ob fs ->
  objI n (fst (obj_after NP24 n w ob fs cs)) (snd (obj_after NP24 n w ob fs cs)).
Proof.
  intros n w. induction cs as [|c cs IH]; intros ob fs Hall HI; cbn [obj_after]; [exact HI|].
  cbn in Hall. apply andb_true_iff in Hall as [Hc Hall].
  destruct (obj_call NP24 n w ob fs c) as [ob' o] eqn:E.
  apply IH; [exact Hall|]. eapply objI_step; eauto.
Qed.

Lemma new_obj_I : forall n fs o (c : bool) sub,
  inv NP24 n fs -> input_state NP24 n fs (if c then TCbin else TBin) = Present ->
  objI n (new_obj_sub o c sub) fs.
Proof.
  intros n fs o c sub Hinv Hin. destruct (input_present_orig _ _ _ _ Hin) as [_ [HB HC]].
  unfold objI, new_obj_sub. cbn [ob_opts ob_checked ob_tf ob_closed].
  split; [destruct c; auto|]. split; [exact Hinv|]. split; [discriminate|]. split; [|discriminate].
  intros _. destruct c; [right; apply HC; reflexivity | left; apply HB; reflexivity].
Qed.

(* process() on an object whose original is gone raises before touching anything *)
Lemma process_without_original : forall kd n w ob fs ow cr cp,
  fs (PFile Orig (ob_tf ob)) = Absent ->
  obj_call kd n w ob fs (CProcess ow cr cp) = (ob, mkOut fs (Raised EFileNotFound) (ob_checked ob) 2 false []).
Proof.
  intros kd n w ob fs ow cr cp H. unfold obj_call, refused. cbn [is_process andb].
  rewrite (proj2 (present_false _ _) H). reflexivity.
Qed.

Lemma exec_executed : forall l rs rs' e,
  exec l rs = (rs', e) -> exec (firstn (nexec l rs) l) rs = (rs', None).
Proof.
  induction l as [|s l IH]; intros rs rs' e H.
  - cbn in *. inversion H; reflexivity.
  - cbn [exec nexec] in *. destruct (step_sem s rs) as [rs1|e1] eqn:E.
    + cbn [firstn exec]. rewrite E. eapply IH; eauto.
    + inversion H; subst. reflexivity.
Qed.

(* every comparison step of an NP2.4 process() plan is about all n shanks of the probe *)
Definition vn_ok (n : nat) (s : step) : bool := negb (is_sverify s) || Nat.eqb (verify_n s) n.
Lemma noverify_vn : forall n l, forallb (fun s => negb (is_verify s)) l = true -> forallb (vn_ok n) l = true.
Proof.
  intros n l H. apply forallb_forall. intros s Hs. rewrite forallb_forall in H. specialize (H s Hs).
  unfold vn_ok. destruct s; try reflexivity; discriminate.
Qed.
Lemma del24_vn : forall n o tf, forallb (vn_ok n) (del24 o tf) = true.
Proof. intros. unfold del24. destruct (o_del o); reflexivity. Qed.
Lemma plan24_vn : forall n w o ow corrupt tf fs, forallb (vn_ok n) (plan24 n w o ow corrupt tf fs) = true.
Proof.
  intros. unfold plan24. destruct (already24 ow fs n); [apply noverify_vn, prep24_noverify|].
  unfold body24. repeat rewrite forallb_app.
  rewrite (noverify_vn n _ (prep24_noverify ow fs n)), (noverify_vn n _ (wins24_noverify n w)),
          (noverify_vn n _ (metas24_noverify n)), del24_vn. cbn [andb].
  rewrite andb_true_r. apply andb_true_iff. split.
  - destruct (o_post o); [|reflexivity]. unfold verify24, vn_ok. destruct corrupt; cbn; rewrite Nat.eqb_refl; reflexivity.
  - destruct (o_comp o); [apply noverify_vn, comp24_noverify | reflexivity].
Qed.
Lemma plan24s_vn : forall sub n w o ow corrupt tf fs, forallb (vn_ok n) (plan24s sub n w o ow corrupt tf fs) = true.
Proof.
  intros. unfold plan24s. destruct (already24s ow fs sub); [apply noverify_vn, prep24s_noverify|].
  unfold body24s. repeat rewrite forallb_app.
  rewrite (noverify_vn n _ (prep24s_noverify ow fs sub)), (noverify_vn n _ (wins24s_noverify sub w)),
          (noverify_vn n _ (metas24s_noverify sub)), del24_vn. cbn [andb].
  rewrite andb_true_r. apply andb_true_iff. split.
  - destruct (o_post o); [|reflexivity]. unfold verify24s, vn_ok. destruct corrupt; cbn; rewrite Nat.eqb_refl; reflexivity.
  - destruct (o_comp o); [apply noverify_vn, comp24s_noverify | reflexivity].
Qed.
Lemma call_plan_vn : forall n w ob fs ow cr cp plan st al,
  call_plan NP24 n w ob fs (CProcess ow cr cp) = Some (plan, st, al) -> forallb (vn_ok n) plan = true.
Proof.
  intros n w ob fs ow cr cp plan st al Hp. cbn [call_plan] in Hp. destruct (ob_sub ob) as [sub|].
  - destruct (sub_ok sub n); [|discriminate]. inversion Hp; subst plan; clear Hp.
    destruct (ob_closed ob); [|apply plan24s_vn].
    destruct (already24s ow fs sub); [apply noverify_vn, prep24s_noverify|].
    rewrite forallb_app, (noverify_vn n _ (prep24s_noverify ow fs sub)). reflexivity.
  - inversion Hp; subst plan; clear Hp.
    destruct (ob_closed ob); [|apply plan24_vn].
    destruct (already24 ow fs n); [apply noverify_vn, prep24_noverify|].
    rewrite forallb_app, (noverify_vn n _ (prep24_noverify ow fs n)). reflexivity.
Qed.

(* an NP2.4 process() call that actually ran (the original exists) clears the flag first: if it ends
   with check_completed set, a comparison step of THIS call succeeded on complete shank files of
   all n shanks *)
Lemma process_flag_from_this_call : forall n w ob fs ow cr cp ob' o plan st al,
  fs (PFile Orig (ob_tf ob)) <> Absent ->
  call_plan NP24 n w ob fs (CProcess ow cr cp) = Some (plan, st, al) ->
  obj_call NP24 n w ob fs (CProcess ow cr cp) = (ob', o) -> ob_checked ob' = true ->
  exists l1 v l2 rsv, out_trace o = l1 ++ v :: l2 /\ is_sverify v = true /\ verify_n v = n /\
    exec l1 (mkR fs false) = (rsv, None) /\
    forall k, (k < n)%nat -> r_fs rsv (PFile (Shank k Ap) FBin) = Complete.
Proof.
  intros n w ob fs ow cr cp ob' o plan st al Hpr Hp H Hck. unfold obj_call, refused in H. cbn [is_process andb] in H.
  rewrite (proj2 (present_true _ _) Hpr) in H. cbn [negb] in H. rewrite Hp in H.
  cbn [call_crash start_flag] in H. cbv zeta in H.
  match type of H with context [exec ?pl0 _] => set (pl := pl0) in * end.
  destruct (exec pl (mkR fs false)) as [rs' e] eqn:E.
  inversion H; subst ob' o; clear H. cbn [out_trace ob_checked] in *.
  destruct (check_completed_sound _ (mkR fs false) rs' eq_refl (exec_executed _ _ _ _ E) Hck)
    as [l1 [v [l2 [rsv [El [Hv [Hx Hall]]]]]]].
  assert (Hn : verify_n v = n).
  { assert (Hin : In v plan).
    { assert (In v (firstn (nexec pl (mkR fs false)) pl)) by (rewrite El; apply in_or_app; right; left; reflexivity).
      apply In_firstn in H. subst pl. destruct cr; [apply In_firstn in H|]; exact H. }
    pose proof (call_plan_vn _ _ _ _ _ _ _ _ _ _ Hp) as Hvn. rewrite forallb_forall in Hvn.
    specialize (Hvn v Hin). unfold vn_ok in Hvn. rewrite Hv in Hvn. cbn in Hvn. apply Nat.eqb_eq. exact Hvn. }
  exists l1, v, l2, rsv. rewrite Hn in Hall. auto.
Qed.

(* NP2.1: a forced re-run on an object that is still usable completes with valid lf output, whatever
   the object did before (in particular after its own compress_NP21 replaced the reader: the
   reopened reader is unsorted, the lf file has the expected bytes) *)
Lemma np21_object_forced_rerun : forall n w' ob fs cp ob' o,
  ob_closed ob = false -> fs (PFile Orig (ob_tf ob)) <> Absent ->
  (ob_tf ob = FBin -> fs (PFile Orig FBin) = Complete) ->
  obj_call NP21 n (S w') ob fs (CProcess true None cp) = (ob', o) ->
  out_outcome o = Status 1 /\ out_fs o (PFile Lf21 FMeta) = Complete /\
  out_ok (o_comp (ob_opts ob)) (out_fs o) Lf21.
Proof.
  intros n w' ob fs cp ob' o Hcl Hpr Htf H. unfold obj_call, refused in H. cbn [is_process andb] in H.
  rewrite (proj2 (present_true _ _) Hpr) in H. cbn [negb] in H.
  cbn [call_plan call_crash start_flag] in H. rewrite Hcl in H.
  assert (Hal : already21 true fs = false) by (unfold already21; apply andb_false_r).
  rewrite Hal in H. cbv zeta in H.
  destruct (forced21_exec_gen w' (ob_opts ob) (ob_tf ob) fs (ob_checked ob) Htf) as [rs' [Hx [Hm [Hl _]]]].
  rewrite Hx in H. rewrite Nat.ltb_irrefl in H. inversion H; subst ob' o; clear H.
  cbn [out_outcome out_fs]. repeat split; auto.
Qed.

(* ====================================================================== *)
(* Histories of runs with a fresh converter each                             *)
(* ====================================================================== *)
Lemma run_once_inv : forall kd n w fs r, inv kd n fs -> inv kd n (out_fs (run_once kd n w fs r)).
Proof.
  intros kd n w fs r Hinv. unfold run_once.
  destruct (input_state kd n fs (r_target r)) eqn:Ein; try exact Hinv.
  destruct (input_present_orig _ _ _ _ Ein) as [Hm [HB HC]].
  destruct (r_target r) eqn:Et; try exact Hinv.
  - (* TBin *)
    assert (Ho : orig_ok fs) by (left; auto).
    destruct kd; try exact Hinv.
    + destruct (r_sub r) as [sub|].
      * destruct (sub_ok sub n) eqn:Eok; [|exact Hinv].
        destruct (go_out (plan24s sub n w (r_opts r) (r_ow r) (r_corrupt r) (target_form TBin) fs) (r_crash r) fs
                  (if already24s (r_ow r) fs sub then 0%Z else 1%Z) (if already24s (r_ow r) fs sub then 1%Z else 0%Z))
          as [c [rs' [Hx [Hfs _]]]].
        rewrite Hfs. exact (proj1 (np24s_prefix _ _ _ _ _ _ _ _ _ _ (sub_ok_NoDup _ _ Eok) (or_introl eq_refl) Ho Hinv Hx)).
      * destruct (go_out (plan24 n w (r_opts r) (r_ow r) (r_corrupt r) (target_form TBin) fs) (r_crash r) fs
                  (if already24 (r_ow r) fs n then 0%Z else 1%Z) (if already24 (r_ow r) fs n then 1%Z else 0%Z))
          as [c [rs' [Hx [Hfs _]]]].
        rewrite Hfs. exact (proj1 (np24_prefix _ _ _ _ _ _ _ _ _ (or_introl eq_refl) Ho Hinv Hx)).
    + destruct (go_out (plan21 w (r_opts r) (r_ow r) (target_form TBin) fs) (r_crash r) fs
                  (if already21 (r_ow r) fs then 0%Z else 1%Z) (if already21 (r_ow r) fs then 1%Z else 0%Z))
        as [c [rs' [Hx [Hfs _]]]].
      rewrite Hfs. exact (proj1 (np21_prefix _ _ _ _ _ _ _ _ _ Ho Hinv (fun _ => HB eq_refl) Hx)).
  - (* TCbin *)
    assert (Ho : orig_ok fs) by (right; auto).
    destruct kd; try exact Hinv.
    + destruct (r_sub r) as [sub|].
      * destruct (sub_ok sub n) eqn:Eok; [|exact Hinv].
        destruct (go_out (plan24s sub n w (r_opts r) (r_ow r) (r_corrupt r) (target_form TCbin) fs) (r_crash r) fs
                  (if already24s (r_ow r) fs sub then 0%Z else 1%Z) (if already24s (r_ow r) fs sub then 1%Z else 0%Z))
          as [c [rs' [Hx [Hfs _]]]].
        rewrite Hfs. exact (proj1 (np24s_prefix _ _ _ _ _ _ _ _ _ _ (sub_ok_NoDup _ _ Eok) (or_intror eq_refl) Ho Hinv Hx)).
      * destruct (go_out (plan24 n w (r_opts r) (r_ow r) (r_corrupt r) (target_form TCbin) fs) (r_crash r) fs
                  (if already24 (r_ow r) fs n then 0%Z else 1%Z) (if already24 (r_ow r) fs n then 1%Z else 0%Z))
          as [c [rs' [Hx [Hfs _]]]].
        rewrite Hfs. exact (proj1 (np24_prefix _ _ _ _ _ _ _ _ _ (or_intror eq_refl) Ho Hinv Hx)).
    + destruct (go_out (plan21 w (r_opts r) (r_ow r) (target_form TCbin) fs) (r_crash r) fs
                  (if already21 (r_ow r) fs then 0%Z else 1%Z) (if already21 (r_ow r) fs then 1%Z else 0%Z))
        as [c [rs' [Hx [Hfs _]]]].
      rewrite Hfs.
      assert (Htf : target_form TCbin = FBin -> fs (PFile Orig FBin) = Complete) by (cbn; discriminate).
      exact (proj1 (np21_prefix _ _ _ _ _ _ _ _ _ Ho Hinv Htf Hx)).
Qed.

Lemma init_inv : forall kd n c, inv kd n (init_fs c).
Proof.
  intros. unfold inv, recoverable, orig_ok. cbn. destruct c; repeat split; try discriminate; auto.
Qed.

Lemma history_inv : forall kd n w h fs, inv kd n fs -> inv kd n (state_after kd n w fs h).
Proof.
  intros kd n w. induction h as [|r h IH]; intros fs H; cbn; [exact H|].
  apply IH. apply run_once_inv. exact H.
Qed.

Lemma original_recoverable : forall kd n w c h,
  let fs := state_after kd n w (init_fs c) h in
  fs (PFile Orig FMeta) = Complete /\ recoverable kd n fs.
Proof.
  intros. destruct (history_inv kd n w h (init_fs c) (init_inv kd n c)) as [A [_ B]]. auto.
Qed.


(* ====================================================================== *)
(* Metadata markers and NP2Reconstructor                                     *)
(* ====================================================================== *)
Lemma go_processed : forall plan crash fs st al, out_processed (go plan crash fs st al) = false.
Proof.
  intros. unfold go.
  destruct (exec (match crash with Some c => firstn c plan | None => plan end) (mkR fs false)). reflexivity.
Qed.

Lemma orig_not_processed : forall fs t, (t = TBin \/ t = TCbin) -> marks_processed (marker_of fs t) = false.
Proof. intros fs t [-> | ->]; cbn; destruct (complete fs PMark); reflexivity. Qed.

(* already_processed is a function of the markers in the metadata of the file given *)
Lemma processed_decision : forall kd n w fs r,
  input_state kd n fs (r_target r) = Present ->
  out_processed (run_once kd n w fs r) = marks_processed (marker_of fs (r_target r)).
Proof.
  intros kd n w fs r Hin. unfold run_once. rewrite Hin.
  destruct (r_target r) eqn:Et; [| |reflexivity];
    (rewrite orig_not_processed by auto);
    (destruct kd; [|apply go_processed|reflexivity]);
    (destruct (r_sub r) as [sub|]; [destruct (sub_ok sub n); [apply go_processed | reflexivity] | apply go_processed]).
Qed.

Lemma recon_ok_spec : forall n fs, recon_ok n fs = true ->
  (1 <= n)%nat /\ (forall k, (k < n)%nat -> shank_src_ok fs k = true) /\
  fs (PFile Orig FBin) = Absent /\ fs (PFile Orig FCbin) = Absent /\
  (fs (PFile Orig FMeta) = Complete \/ fs (PFile Orig FMeta) = Absent).
Proof.
  intros n fs H. unfold recon_ok in H. repeat (apply andb_true_iff in H as [H ?]).
  split; [apply Nat.leb_le; exact H|]. split.
  - intros k Hk. rewrite forallb_forall in H3. apply H3. apply in_seq. lia.
  - split; [apply present_false, negb_true_iff; assumption|].
    split; [apply present_false, negb_true_iff; assumption|].
    apply orb_true_iff in H0 as [A|A]; [left; apply complete_true; exact A |
                                         right; apply present_false, negb_true_iff; exact A].
Qed.

Lemma recon_other : forall comp fs q,
  (forall f, q <> PFile Orig f) -> q <> PMark -> recon comp fs q = fs q.
Proof.
  intros comp fs q Hq Hm. unfold recon.
  destruct (present fs (PFile Orig FMeta)); destruct comp; upd_simp; reflexivity.
Qed.

(* the reconstructed original is a valid input again, plain or compressed *)
Lemma recon_input : forall n comp fs, recon_ok n fs = true ->
  input_state NP24 n (recon comp fs) (if comp then TCbin else TBin) = Present.
Proof.
  intros n comp fs H. destruct (recon_ok_spec _ _ H) as [_ [_ [Hb [Hc Hm]]]].
  unfold input_state, recon.
  destruct Hm as [Hm|Hm].
  - rewrite (proj2 (present_true fs (PFile Orig FMeta))) by (rewrite Hm; discriminate).
    destruct comp; unfold complete; upd_simp; rewrite Hm; cbn; upd_simp; reflexivity.
  - rewrite (proj2 (present_false fs (PFile Orig FMeta)) Hm).
    destruct comp; unfold complete; upd_simp; cbn; upd_simp; reflexivity.
Qed.

Lemma reconstructed_converts_again : forall n w' fs comp o,
  recon_ok n fs = true ->
  let fs1 := recon comp fs in
  let t := if comp then TCbin else TBin in
  let out := run_once NP24 n (S w') fs1 (mkRun t o true None None None) in
  out_processed out = false /\ out_outcome out = Status 1 /\ out_checked out = o_post o /\
  final24_ok n o (out_fs out) /\
  out_fs out (PFile Orig (target_form t)) =
    (if o_post o && o_del o then Absent else Complete).
Proof.
  intros n w' fs comp o H fs1 t out.
  pose proof (recon_input n comp fs H) as Hin. fold fs1 in Hin. fold t in Hin.
  assert (Ht : t = TBin \/ t = TCbin) by (subst t; destruct comp; auto).
  destruct (forced24 n w' fs1 t o Ht Hin) as [A [B [C [D _]]]].
  split.
  - pose proof (processed_decision NP24 n (S w') fs1 (mkRun t o true None None None) Hin) as P.
    cbn [r_target] in P. subst out. rewrite P. apply orig_not_processed. exact Ht.
  - split; [exact A|]. split; [exact B|]. split; [exact C|].
    fold out in D. rewrite D. destruct (o_post o && o_del o); [reflexivity|].
    destruct (input_present_orig _ _ _ _ Hin) as [_ [HB HC]].
    subst t. destruct comp; cbn; [apply HC; reflexivity | apply HB; reflexivity].
Qed.

(* ====================================================================== *)
(* File names                                                                *)
(* ====================================================================== *)
Lemma lf_name_cons2 : forall a p r,
  lf_name (a :: p :: r) = if ((a =? 97) && (p =? 112))%Z then 108%Z :: 102%Z :: lf_name r else a :: lf_name (p :: r).
Proof. reflexivity. Qed.
Lemma has_ap_cons2 : forall a p r, has_ap (a :: p :: r) = ((a =? 97) && (p =? 112))%Z || has_ap (p :: r).
Proof. reflexivity. Qed.

Lemma lf_name_props : forall n s, (length s <= n)%nat ->
  length (lf_name s) = length s /\
  (has_ap s = false -> lf_name s = s) /\ (has_ap s = true -> lf_name s <> s).
Proof.
  induction n as [|n IH]; intros s Hn.
  - destruct s; [|cbn in Hn; lia]. cbn. repeat split; auto; discriminate.
  - destruct s as [|a [|p r]].
    + cbn. repeat split; auto; discriminate.
    + cbn. repeat split; auto; discriminate.
    + rewrite lf_name_cons2, has_ap_cons2. destruct ((a =? 97) && (p =? 112))%Z eqn:E.
      * destruct (IH r) as [L _]; [cbn in Hn; lia|]. cbn [length]. rewrite L. cbn [orb].
        split; [reflexivity|]. split; [discriminate|]. intros _ Heq.
        apply andb_true_iff in E as [Ea _]. apply Z.eqb_eq in Ea. subst a. inversion Heq.
      * destruct (IH (p :: r)) as [L [F T]]; [cbn in Hn; cbn; lia|]. cbn [orb].
        split; [cbn [length]; rewrite L; reflexivity|]. split.
        -- intros H. rewrite (F H). reflexivity.
        -- intros H Heq. inversion Heq as [Heq']. exact (T H Heq').
Qed.

Lemma lf_name_length : forall s, length (lf_name s) = length s.
Proof. intros s. apply (lf_name_props (length s) s (le_n _)). Qed.
Lemma lf_name_alias_iff : forall s, lf_name s = s <-> has_ap s = false.
Proof.
  intros s. destruct (lf_name_props (length s) s (le_n _)) as [_ [F T]]. split.
  - intros H. destruct (has_ap s) eqn:E; [exfalso; exact (T eq_refl H) | reflexivity].
  - exact F.
Qed.

Lemma app_eq_length : forall (A : Type) (l1 l2 x y : list A),
  l1 ++ x = l2 ++ y -> length l1 = length l2 -> l1 = l2.
Proof.
  intros A. induction l1 as [|a l1 IH]; intros l2 x y H L; destruct l2 as [|b l2]; cbn in *; try lia; auto.
  inversion H; subst. f_equal. eapply IH; eauto.
Qed.

(* whatever is appended after the renamed part (extension, UUID, suffix swapped by with_suffix):
   an lf output path never equals a path of the file given, as soon as its name contains "ap" *)
Lemma lf_name_never_aliases : forall stem e e', has_ap stem = true -> lf_name stem ++ e' <> stem ++ e.
Proof.
  intros stem e e' H Heq. apply app_eq_length in Heq; [|apply lf_name_length].
  apply lf_name_alias_iff in Heq. congruence.
Qed.

Lemma non_np2_noop : forall v n w fs r k,
  kind_of_version v = NP1 -> r_target r <> TShank k -> input_state NP1 n fs (r_target r) = Present ->
  out_outcome (run_once (kind_of_version v) n w fs r) = Status (-1) /\
  (forall p, out_fs (run_once (kind_of_version v) n w fs r) p = fs p).
Proof. intros v n w fs r k Hv. rewrite Hv. apply np1_noop. Qed.
