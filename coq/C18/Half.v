(* C18 — fscale bins, freduce / fexpand. *)
From Coq Require Import ZArith List Bool Lia Arith.
From IBL.lib Require Import PyInt.
From IBL.C18 Require Import Model Proofs Conv.
Import ListNotations.
Open Scope Z_scope.

Lemma zseq_length n : forall a, length (zseq n a) = n.
Proof. induction n as [|n IH]; intros a; cbn [zseq length]; [reflexivity|]. now rewrite IH. Qed.

Lemma zseq_nth n : forall a i d, (i < n)%nat -> nth i (zseq n a) d = a + Z.of_nat i.
Proof.
  induction n as [|n IH]; intros a i d Hi; [lia|].
  destruct i as [|i]; cbn [zseq nth]; [lia|]. rewrite IH by lia. lia.
Qed.

Lemma div2_facts ns : 0 <= ns ->
  ns = 2 * (ns / 2) + ns mod 2 /\ 0 <= ns mod 2 < 2 /\ (ns + 1) / 2 = ns / 2 + ns mod 2.
Proof.
  intros H. pose proof (Z.div_mod ns 2 ltac:(lia)). pose proof (Z.mod_pos_bound ns 2 ltac:(lia)).
  pose proof (Z.div_mod (ns + 1) 2 ltac:(lia)). pose proof (Z.mod_pos_bound (ns + 1) 2 ltac:(lia)).
  lia.
Qed.

(* ---- fscale ---- *)
Lemma fscale_one_sided ns : 1 <= ns ->
  length (fscale_bins ns true) = Z.to_nat (ns / 2 + 1) /\
  forall i, 0 <= i <= ns / 2 -> nth (Z.to_nat i) (fscale_bins ns true) 0 = i.
Proof.
  intros H. unfold fscale_bins. destruct (div2_facts ns ltac:(lia)) as (H1 & H2 & H3).
  split; [apply zseq_length|]. intros i Hi. rewrite zseq_nth by lia. lia.
Qed.

Lemma fscale_two_sided ns : 1 <= ns ->
  length (fscale_bins ns false) = Z.to_nat ns /\
  forall i, 0 <= i < ns ->
    nth (Z.to_nat i) (fscale_bins ns false) 0 = if i <=? ns / 2 then i else i - ns.
Proof.
  intros H. unfold fscale_bins. destruct (div2_facts ns ltac:(lia)) as (H1 & H2 & H3).
  set (L := Z.to_nat (ns / 2 + 1)). set (fsc := zseq L 0).
  assert (HL : length fsc = L) by apply zseq_length.
  unfold pyslice_rev. rewrite HL.
  assert (Hs : norm_idx_neg (Z.of_nat L) (-2 + ns mod 2) = ns / 2 - 1 + ns mod 2).
  { unfold norm_idx_neg. destruct (-2 + ns mod 2 <? 0) eqn:E; [|lia].
    destruct (-2 + ns mod 2 + Z.of_nat L <? 0) eqn:E2; lia. }
  assert (He : norm_idx_neg (Z.of_nat L) 0 = 0).
  { unfold norm_idx_neg. cbn [Z.ltb Z.compare]. destruct (Z.of_nat L <=? 0) eqn:E; lia. }
  rewrite Hs, He.
  set (s := Z.to_nat (ns / 2 - 1 + ns mod 2 - 0)).
  change (Z.to_nat (0 + 1)) with 1%nat.
  set (mid := firstn s (skipn 1 fsc)).
  assert (Hmid : length mid = s).
  { unfold mid. rewrite firstn_length, skipn_length, HL. lia. }
  split.
  - rewrite app_length, map_length, rev_length, HL, Hmid. lia.
  - intros i Hi. destruct (i <=? ns / 2) eqn:E.
    + rewrite app_nth1 by lia. unfold fsc. rewrite zseq_nth by lia. lia.
    + rewrite app_nth2 by lia. rewrite HL.
      change 0 with (- 0) at 1. rewrite map_nth.
      rewrite rev_nth by lia. rewrite Hmid. unfold mid.
      rewrite nth_firstn_lt by lia. rewrite nth_skipn_add.
      unfold fsc. rewrite zseq_nth by lia. lia.
Qed.

(* ---- freduce / fexpand ---- *)
Section HalfProofs.
Variable A : Type.
Variable a0 : A.
Variable conj : A -> A.

Lemma nth_map_zrange (f : Z -> A) n i d : (i < n)%nat -> nth i (map f (zrange n)) d = f (Z.of_nat i).
Proof.
  intros H. unfold zrange. rewrite map_map. now rewrite (nth_map_seq (fun k => f (Z.of_nat k))).
Qed.

Lemma ilast_eq ns : 0 <= ns -> Z.quot (ns + ns mod 2) 2 = (ns + 1) / 2.
Proof.
  intros H. destruct (div2_facts ns H) as (H1 & H2 & H3).
  rewrite Z.quot_div_nonneg by lia.
  pose proof (Z.div_mod (ns + ns mod 2) 2 ltac:(lia)). pose proof (Z.mod_pos_bound (ns + ns mod 2) 2 ltac:(lia)).
  lia.
Qed.

(* freduce o fexpand = id, for every ns >= 1 and any half spectrum of the right length *)
Lemma freduce_fexpand (H : list A) ns : 1 <= ns -> Z.of_nat (length H) = ns / 2 + 1 ->
  exists E, fexpand a0 conj H ns = Some E /\ Z.of_nat (length E) = ns /\ freduce E = Some H.
Proof.
  intros Hns HH. destruct (div2_facts ns ltac:(lia)) as (H1 & H2 & H3).
  unfold fexpand. rewrite ilast_eq by lia.
  destruct ((1 <? (ns + 1) / 2) && (Z.of_nat (length H) <? (ns + 1) / 2)) eqn:G.
  { apply andb_true_iff in G as [_ G]. lia. }
  eexists. split; [reflexivity|].
  assert (HlenE : Z.of_nat (length (H ++ map (fun j => conj (nth (Z.to_nat ((ns + 1) / 2 - 1 - j)) H a0))
                                           (zrange (Z.to_nat ((ns + 1) / 2 - 1))))) = ns).
  { rewrite app_length, map_length, zrange_length. lia. }
  split; [exact HlenE|].
  unfold freduce. rewrite HlenE. destruct (ns =? 0) eqn:E0; [lia|].
  f_equal. rewrite firstn_app.
  replace (Z.to_nat (ns / 2 + 1)) with (length H) by lia.
  rewrite firstn_all, Nat.sub_diag. cbn [firstn]. apply app_nil_r.
Qed.

(* fexpand o freduce = id on Hermitian spectra, both parities *)
Lemma fexpand_freduce (X : list A) : (1 <= length X)%nat ->
  (forall k, (k < length X)%nat -> nth ((length X - k) mod length X) X a0 = conj (nth k X a0)) ->
  exists H, freduce X = Some H /\ Z.of_nat (length H) = Z.of_nat (length X) / 2 + 1 /\
            fexpand a0 conj H (Z.of_nat (length X)) = Some X.
Proof.
  intros Hn Hherm. set (n := length X) in *. set (ns := Z.of_nat n).
  destruct (div2_facts ns ltac:(lia)) as (H1 & H2 & H3).
  unfold freduce. fold n. fold ns. destruct (ns =? 0) eqn:E0; [lia|].
  set (m := Z.to_nat (ns / 2 + 1)).
  assert (Hm : (m <= n)%nat) by lia.
  exists (firstn m X). split; [reflexivity|].
  assert (HlenH : length (firstn m X) = m) by (rewrite firstn_length; fold n; lia).
  split; [rewrite HlenH; lia|].
  unfold fexpand. rewrite ilast_eq by lia. rewrite HlenH.
  destruct ((1 <? (ns + 1) / 2) && (Z.of_nat m <? (ns + 1) / 2)) eqn:G.
  { apply andb_true_iff in G as [_ G]. lia. }
  f_equal. transitivity (firstn m X ++ skipn m X); [|apply firstn_skipn]. f_equal.
  set (c := Z.to_nat ((ns + 1) / 2 - 1)).
  apply (nth_ext _ _ a0 a0).
  - rewrite map_length, zrange_length, skipn_length. fold n. lia.
  - intros i Hi. rewrite map_length, zrange_length in Hi.
    rewrite nth_map_zrange by exact Hi. rewrite nth_skipn_add.
    rewrite nth_firstn_lt by lia.
    set (k := Z.to_nat ((ns + 1) / 2 - 1 - Z.of_nat i)).
    rewrite <- (Hherm k) by lia. f_equal. fold n.
    rewrite Nat.mod_small by lia. lia.
Qed.
End HalfProofs.
