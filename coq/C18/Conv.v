(* C18 — convolution: index layer (circular = linear under zero padding) over a
   commutative ring, and the circular convolution theorem over a field with a
   primitive N-th root of unity. *)
From Coq Require Import ZArith List Bool Lia Ring Field Arith.
From IBL.lib Require Import PyInt.
From IBL.C18 Require Import Model Sums Proofs.
Import ListNotations.

Lemma nth_map_seq {A} (f : nat -> A) n k d : (k < n)%nat -> nth k (map f (seq 0 n)) d = f k.
Proof.
  intros H. rewrite (nth_indep _ d (f O)) by (now rewrite map_length, seq_length).
  rewrite (map_nth f (seq 0 n) O k), seq_nth by exact H. reflexivity.
Qed.

Lemma cmod_eval N j k : (j < N)%nat -> (k < N)%nat ->
  ((k + N - j) mod N = if j <=? k then k - j else k + N - j)%nat.
Proof.
  intros Hj Hk. destruct (j <=? k)%nat eqn:E.
  - apply Nat.leb_le in E. replace (k + N - j)%nat with ((k - j) + 1 * N)%nat by lia.
    rewrite Nat.mod_add by lia. apply Nat.mod_small. lia.
  - apply Nat.leb_gt in E. apply Nat.mod_small. lia.
Qed.

Section ConvRing.
Variable R : Type.
Variables (rO rI : R) (radd rmul rsub : R -> R -> R) (ropp : R -> R).
Hypothesis Rth : ring_theory rO rI radd rmul rsub ropp (@eq R).
Add Ring RringC : Rth.
Set Default Proof Using "Rth".

Local Notation "0" := rO.
Local Notation "1" := rI.
Local Infix "+" := radd.
Local Infix "*" := rmul.
Local Notation sum := (rsum R rO radd).
Local Notation get := (getr R rO).
Local Notation pad := (zero_pad R rO).

Lemma get_overflow x j : (length x <= j)%nat -> get x j = 0.
Proof. intros H. unfold getr. now apply nth_overflow. Qed.

Lemma get_pad x N j : get (pad x N) j = get x j.
Proof.
  unfold getr, zero_pad. destruct (Nat.lt_ge_cases j (length x)) as [H|H].
  - now rewrite app_nth1.
  - rewrite app_nth2 by exact H. rewrite nth_repeat. symmetry. now apply nth_overflow.
Qed.

Lemma pad_length x N : (length x <= N)%nat -> length (pad x N) = N.
Proof. intros H. unfold zero_pad. rewrite app_length, repeat_length. lia. Qed.

(* with N >= nsx + nsw - 1 the circular sum has no wrapped-around term *)
Lemma circ_eq_direct x w N k :
  (length x + length w <= N + 1)%nat -> (k < N)%nat ->
  circ_conv_at R rO radd rmul N (pad x N) (pad w N) k = conv_direct_at R rO radd rmul x w k.
Proof.
  intros HN Hk. unfold circ_conv_at, conv_direct_at.
  rewrite (sum_trunc R rO rI radd rmul rsub ropp Rth (S k) N); [ | lia | ].
  2:{ intros j Hj. rewrite !get_pad.
      rewrite (Nat.mod_small (k + N - j) N) by lia.
      destruct (Nat.lt_ge_cases j (length x)) as [Hx|Hx].
      - rewrite (get_overflow w) by lia. ring.
      - rewrite (get_overflow x) by lia. ring. }
  apply (sum_ext R rO rI radd rmul rsub ropp Rth). intros j Hj.
  rewrite !get_pad. f_equal. f_equal.
  rewrite cmod_eval by lia. destruct (j <=? k)%nat eqn:E; [reflexivity|]. apply Nat.leb_gt in E. lia.
Qed.

(* the direct convolution vanishes from index nsx + nsw - 1 on *)
Lemma direct_tail_zero x w k :
  (length x + length w <= k + 1)%nat -> conv_direct_at R rO radd rmul x w k = 0.
Proof.
  intros H. unfold conv_direct_at. apply (sum_zero R rO rI radd rmul rsub ropp Rth).
  intros j Hj. destruct (Nat.lt_ge_cases j (length x)) as [Hx|Hx].
  - rewrite (get_overflow w) by lia. ring.
  - rewrite (get_overflow x) by lia. ring.
Qed.

(* convolve(mode='full') for any circular product cc that agrees with circ_conv *)
Lemma full_spec_gen cc x w (o : option Z) :
  (forall N a b k, (k < N)%nat -> nth k (cc N a b) 0 = circ_conv_at R rO radd rmul N a b k) ->
  (forall N a b, length (cc N a b) = N) ->
  (forall ns, o = Some ns -> (Z.of_nat (length x + length w) <= ns)%Z) ->
  forall l,
  match o with
  | Some ns => Some (firstn (length x + length w)
                       (cc (Z.to_nat ns) (pad x (Z.to_nat ns)) (pad w (Z.to_nat ns))))
  | None => None
  end = Some l ->
  length l = (length x + length w)%nat /\
  forall k, (k < length x + length w)%nat -> nth k l 0 = conv_direct_at R rO radd rmul x w k.
Proof.
  intros Hcc Hlen Ho l H. destruct o as [ns|]; [|discriminate].
  injection H as <-. specialize (Ho ns eq_refl).
  assert (HN : (length x + length w <= Z.to_nat ns)%nat) by lia.
  split.
  - rewrite firstn_length, Hlen. lia.
  - intros k Hk. rewrite nth_firstn_lt by exact Hk. rewrite Hcc by lia.
    apply circ_eq_direct; lia.
Qed.

Lemma convolve_full_spec cc x w :
  (forall N a b k, (k < N)%nat -> nth k (cc N a b) 0 = circ_conv_at R rO radd rmul N a b k) ->
  (forall N a b, length (cc N a b) = N) ->
  forall l, convolve_full_with R rO cc x w = Some l ->
  length l = (length x + length w)%nat /\
  forall k, (k < length x + length w)%nat -> nth k l 0 = conv_direct_at R rO radd rmul x w k.
Proof.
  intros Hcc Hlen.
  exact (full_spec_gen cc x w (ns_optim (Z.of_nat (length x + length w))) Hcc Hlen
           (fun ns E => ns_optim_ge _ _ E)).
Qed.

Lemma circ_conv_nth N a b k : (k < N)%nat ->
  nth k (circ_conv R rO radd rmul N a b) 0 = circ_conv_at R rO radd rmul N a b k.
Proof. intros H. unfold circ_conv. now rewrite nth_map_seq. Qed.

Lemma circ_conv_length N a b : length (circ_conv R rO radd rmul N a b) = N.
Proof. unfold circ_conv. now rewrite map_length, seq_length. Qed.

Lemma nth_pmul : forall (a b : list R) m, (m < length a)%nat -> (m < length b)%nat ->
  nth m (pmul R rmul a b) 0 = nth m a 0 * nth m b 0.
Proof.
  induction a as [|x a IH]; intros b m Ha Hb; [cbn in Ha; lia|].
  destruct b as [|y b]; [cbn in Hb; lia|]. destruct m as [|m]; [reflexivity|].
  cbn [pmul nth]. apply IH; cbn in *; lia.
Qed.

Lemma pmul_length : forall (a b : list R), length a = length b -> length (pmul R rmul a b) = length a.
Proof.
  induction a as [|x a IH]; intros b H; [reflexivity|].
  destruct b as [|y b]; [discriminate|]. cbn [pmul length]. f_equal. apply IH. now injection H.
Qed.
End ConvRing.

(* ------------------------------------------------------------------ *)
Section ConvField.
Variable R : Type.
Variables (rO rI : R) (radd rmul rsub : R -> R -> R) (ropp : R -> R).
Variables (rdiv : R -> R -> R) (rinv : R -> R).
Hypothesis Fth : field_theory rO rI radd rmul rsub ropp rdiv rinv (@eq R).
Definition Rth_of := F_R Fth.
Add Ring RringF : Rth_of.

Local Notation "0" := rO.
Local Notation "1" := rI.
Local Infix "+" := radd.
Local Infix "*" := rmul.
Local Infix "-" := rsub.
Local Notation sum := (rsum R rO radd).
Local Notation pow := (rpow R rI rmul).
Local Notation get := (getr R rO).
Local Notation Rth := Rth_of.

Variable N : nat.
Variables om omi invN : R.
Hypothesis HN : (0 < N)%nat.
Hypothesis Hom : pow om N = 1.                                  (* om^N = 1 *)
Hypothesis Hinv : om * omi = 1.                                 (* omi = 1/om *)
Hypothesis Hprim : forall d, (0 < d < N)%nat -> pow om d <> 1.  (* primitive *)
Hypothesis HinvN : invN * sum N (fun _ => 1) = 1.               (* invN = 1/N *)
Set Default Proof Using "Fth HN Hom Hinv Hprim HinvN".

Local Notation S_ext := (sum_ext R rO rI radd rmul rsub ropp Rth).
Local Notation P_add := (pow_add R rO rI radd rmul rsub ropp Rth).
Local Notation P_mul := (pow_mul R rO rI radd rmul rsub ropp Rth).
Local Notation P_base := (pow_mul_base R rO rI radd rmul rsub ropp Rth).
Local Notation P_one := (pow_one R rO rI radd rmul rsub ropp Rth).

Lemma om_cancel k : pow om k * pow omi k = 1.
Proof. rewrite <- P_base, Hinv. apply P_one. Qed.

Lemma pow_om_sub a b : (a <= b)%nat -> pow om a = pow om b -> pow om (b - a) = 1.
Proof.
  intros Hab E. replace b with ((b - a) + a)%nat in E by lia. rewrite P_add in E.
  transitivity (pow om (b - a) * pow om a * pow omi a).
  - transitivity (pow om (b - a) * (pow om a * pow omi a)); [rewrite om_cancel; ring | ring].
  - rewrite <- E. apply om_cancel.
Qed.

Lemma pow_om_one_mod d : pow om d = 1 -> (d mod N = 0)%nat.
Proof.
  intros E. pose proof (Nat.div_mod d N ltac:(lia)) as Hd.
  pose proof (Nat.mod_upper_bound d N ltac:(lia)) as Hb.
  rewrite Hd in E. rewrite P_add, P_mul, Hom, P_one in E.
  destruct (Nat.eq_dec (d mod N) 0) as [H0|Hne]; [exact H0|].
  exfalso. apply (Hprim (d mod N)); [lia|]. transitivity (1 * pow om (d mod N)); [ring | exact E].
Qed.

Lemma pow_omi_N : pow omi N = 1.
Proof.
  transitivity (pow om N * pow omi N); [rewrite Hom; ring | apply om_cancel].
Qed.

(* orthogonality *)
Lemma ortho j l k : (j < N)%nat -> (l < N)%nat -> (k < N)%nat ->
  sum N (fun m => pow om (j * m) * pow om (l * m) * pow omi (m * k)) =
  if (l =? (k + N - j) mod N)%nat then sum N (fun _ => 1) else 0.
Proof.
  intros Hj Hl Hk.
  set (r := pow om j * pow om l * pow omi k).
  assert (Hterm : forall m, pow om (j * m) * pow om (l * m) * pow omi (m * k) = pow r m).
  { intros m. unfold r. rewrite !P_base. rewrite (Nat.mul_comm m k), !P_mul. reflexivity. }
  rewrite (S_ext N _ (fun m => pow r m)) by (intros; apply Hterm).
  assert (HrN : pow r N = 1).
  { unfold r. rewrite !P_base, <- !P_mul, (Nat.mul_comm j N), (Nat.mul_comm l N), (Nat.mul_comm k N).
    rewrite !P_mul, Hom, pow_omi_N, !P_one. ring. }
  assert (Hr : r = pow om (j + l) * pow omi k) by (unfold r; rewrite P_add; reflexivity).
  rewrite cmod_eval by lia.
  destruct (Nat.eqb_spec l (if (j <=? k)%nat then (k - j)%nat else (k + N - j)%nat)) as [E|E].
  - (* r = 1 *)
    assert (Hr1 : r = 1).
    { rewrite Hr. destruct (j <=? k)%nat eqn:Ejk.
      - apply Nat.leb_le in Ejk. replace (j + l)%nat with k by lia. apply om_cancel.
      - apply Nat.leb_gt in Ejk. replace (j + l)%nat with (k + N)%nat by lia.
        rewrite P_add, Hom. transitivity (pow om k * pow omi k); [ring | apply om_cancel]. }
    apply S_ext. intros m _. rewrite Hr1. apply P_one.
  - (* r <> 1, so the geometric sum vanishes *)
    assert (Hr1 : r <> 1).
    { intros Hr1. apply E. rewrite Hr in Hr1.
      assert (Heq : pow om (j + l) = pow om k).
      { transitivity (pow om (j + l) * pow omi k * pow om k); [|rewrite Hr1; ring].
        transitivity (pow om (j + l) * (pow om k * pow omi k)); [rewrite om_cancel; ring | ring]. }
      destruct (Nat.le_gt_cases k (j + l)) as [Hle|Hgt].
      + pose proof (pow_om_one_mod _ (pow_om_sub k (j + l) Hle (eq_sym Heq))) as Hm.
        apply Nat.mod_divides in Hm; [|lia]. destruct Hm as [c Hc].
        assert (c = 0 \/ c = 1)%nat as [-> | ->] by nia.
        * destruct (j <=? k)%nat eqn:Ejk; [lia | apply Nat.leb_gt in Ejk; lia].
        * destruct (j <=? k)%nat eqn:Ejk; [apply Nat.leb_le in Ejk; lia | lia].
      + pose proof (pow_om_one_mod _ (pow_om_sub (j + l) k ltac:(lia) Heq)) as Hm.
        rewrite Nat.mod_small in Hm by lia. lia. }
    pose proof (geom R rO rI radd rmul rsub ropp Rth N r) as G.
    rewrite HrN in G.
    assert (Hne : r - 1 <> 0).
    { intros H0. apply Hr1. transitivity ((r - 1) + 1); [ring | rewrite H0; ring]. }
    transitivity (rinv (r - 1) * (r - 1) * sum N (fun m => pow r m)).
    + rewrite (Finv_l Fth _ Hne). ring.
    + transitivity (rinv (r - 1) * ((r - 1) * sum N (fun m => pow r m))); [ring|].
      rewrite G. ring.
Qed.

(* circular convolution theorem: ifft(fft(a) * fft(b))[k] = sum_j a[j] b[(k - j) mod N] *)
Lemma conv_theorem a b k : (k < N)%nat ->
  nth k (spectral_conv R rO rI radd rmul om omi invN N a b) 0 =
  circ_conv_at R rO radd rmul N a b k.
Proof.
  intros Hk. unfold spectral_conv, idft. rewrite nth_map_seq by exact Hk.
  set (c := fun j => ((k + N - j) mod N)%nat).
  set (T := fun j l m => get a j * get b l * (pow om (j * m) * pow om (l * m) * pow omi (m * k))).
  assert (H1 : sum N (fun m => get (pmul R rmul (dft R rO rI radd rmul om N a) (dft R rO rI radd rmul om N b)) m
                                 * pow omi (m * k)) =
               sum N (fun m => sum N (fun j => sum N (fun l => T j l m)))).
  { apply S_ext. intros m Hm. unfold getr at 1.
    rewrite (nth_pmul R rO rI radd rmul rsub ropp Rth) by (unfold dft; rewrite map_length, seq_length; exact Hm).
    unfold dft. rewrite !nth_map_seq by exact Hm.
    rewrite (sum_mul_sum R rO rI radd rmul rsub ropp Rth).
    rewrite (sum_scale_r R rO rI radd rmul rsub ropp Rth). apply S_ext. intros j _.
    rewrite (sum_scale_r R rO rI radd rmul rsub ropp Rth). apply S_ext. intros l _.
    unfold T. ring. }
  rewrite H1.
  rewrite (sum_swap R rO rI radd rmul rsub ropp Rth N N (fun m j => sum N (fun l => T j l m))).
  assert (H2 : sum N (fun j => sum N (fun m => sum N (fun l => T j l m))) =
               sum N (fun j => get a j * get b (c j) * sum N (fun _ => 1))).
  { apply S_ext. intros j Hj.
    rewrite (sum_swap R rO rI radd rmul rsub ropp Rth N N (fun m l => T j l m)).
    rewrite (S_ext N _ (fun l => get a j * get b l *
                                 (if (l =? c j)%nat then sum N (fun _ => 1) else 0))).
    2:{ intros l Hl. unfold T. rewrite <- (sum_scale_l R rO rI radd rmul rsub ropp Rth).
        rewrite ortho by assumption. reflexivity. }
    rewrite (sum_delta R rO rI radd rmul rsub ropp Rth N (c j)).
    - rewrite Nat.eqb_refl. reflexivity.
    - unfold c. apply Nat.mod_upper_bound. lia.
    - intros l Hl Hne. destruct (Nat.eqb_spec l (c j)); [contradiction|]. ring. }
  rewrite H2. rewrite <- (sum_scale_r R rO rI radd rmul rsub ropp Rth).
  unfold circ_conv_at. subst c. cbv beta.
  set (S0 := sum N (fun j => get a j * get b ((k + N - j) mod N))).
  transitivity (S0 * (invN * sum N (fun _ => 1))); [ring|].
  rewrite HinvN. ring.
Qed.

Lemma spectral_conv_length a b : length (spectral_conv R rO rI radd rmul om omi invN N a b) = N.
Proof. unfold spectral_conv, idft. now rewrite map_length, seq_length. Qed.

(* inverse transform of the forward transform *)
Lemma idft_dft x k : (k < N)%nat ->
  nth k (idft R rO rI radd rmul omi invN N (dft R rO rI radd rmul om N x)) 0 = get x k.
Proof.
  intros Hk. unfold idft. rewrite nth_map_seq by exact Hk.
  set (T := fun j m => get x j * (pow om (j * m) * pow om (0 * m) * pow omi (m * k))).
  rewrite (S_ext N _ (fun m => sum N (fun j => T j m))).
  2:{ intros m Hm. unfold getr at 1, dft. rewrite nth_map_seq by exact Hm.
      rewrite (sum_scale_r R rO rI radd rmul rsub ropp Rth). apply S_ext. intros j _.
      unfold T. cbn [Nat.mul rpow]. ring. }
  rewrite (sum_swap R rO rI radd rmul rsub ropp Rth N N (fun m j => T j m)).
  rewrite (S_ext N _ (fun j => get x j * (if (j =? k)%nat then sum N (fun _ => 1) else 0))).
  2:{ intros j Hj. unfold T. rewrite <- (sum_scale_l R rO rI radd rmul rsub ropp Rth).
      rewrite (ortho j 0 k) by lia. rewrite cmod_eval by lia.
      destruct (j <=? k)%nat eqn:E1.
      - apply Nat.leb_le in E1.
        destruct (Nat.eqb_spec 0 (k - j)); destruct (Nat.eqb_spec j k); try lia; reflexivity.
      - apply Nat.leb_gt in E1.
        destruct (Nat.eqb_spec 0 (k + N - j)); destruct (Nat.eqb_spec j k); try lia; reflexivity. }
  rewrite (sum_delta R rO rI radd rmul rsub ropp Rth N k); [ | exact Hk | ].
  2:{ intros j Hj Hne. destruct (Nat.eqb_spec j k); [contradiction | ring]. }
  rewrite Nat.eqb_refl.
  transitivity (get x k * (invN * sum N (fun _ => 1))); [ring|]. rewrite HinvN. ring.
Qed.

End ConvField.
