(* C18 — frequency-domain filters: low-pass + high-pass with the same corners is
   the identity; band-pass response is the product of the two responses. *)
From Coq Require Import ZArith List Bool Lia Ring Field Arith.
From IBL.lib Require Import PyInt.
From IBL.C18 Require Import Model Sums Proofs Conv Half.
Import ListNotations.

Section FilterField.
Variable R : Type.
Variables (rO rI : R) (radd rmul rsub : R -> R -> R) (ropp : R -> R).
Variables (rdiv : R -> R -> R) (rinv : R -> R).
Hypothesis Fth : field_theory rO rI radd rmul rsub ropp rdiv rinv (@eq R).
Add Ring RringFl : (Rth_of R rO rI radd rmul rsub ropp rdiv rinv Fth).

Local Notation "0" := rO.
Local Notation "1" := rI.
Local Infix "+" := radd.
Local Infix "*" := rmul.
Local Infix "-" := rsub.
Local Notation sum := (rsum R rO radd).
Local Notation pow := (rpow R rI rmul).
Local Notation get := (getr R rO).
Local Notation Rth := (Rth_of R rO rI radd rmul rsub ropp rdiv rinv Fth).

Variable N : nat.
Variables om omi invN : R.
Hypothesis HN : (0 < N)%nat.
Hypothesis Hom : pow om N = 1.
Hypothesis Hinv : om * omi = 1.
Hypothesis Hprim : forall d, (0 < d < N)%nat -> pow om d <> 1.
Hypothesis HinvN : invN * sum N (fun _ => 1) = 1.
Variable conj : R -> R.
Hypothesis Hconj : forall v, conj (1 - v) = 1 - conj v.
Set Default Proof Using "Fth HN Hom Hinv Hprim HinvN Hconj".

Local Notation IDFT := (idft R rO rI radd rmul omi invN N).
Local Notation DFT := (dft R rO rI radd rmul om N).
Local Notation PMUL := (pmul R rmul).

(* two responses that add up to one, applied to the same spectrum *)
Lemma split_core X H1 H2 k : (k < N)%nat ->
  length X = N -> length H1 = N -> length H2 = N ->
  (forall m, (m < N)%nat -> nth m H1 0 + nth m H2 0 = 1) ->
  nth k (IDFT (PMUL X H1)) 0 + nth k (IDFT (PMUL X H2)) 0 = nth k (IDFT X) 0.
Proof.
  intros Hk HX HH1 HH2 Hs. unfold idft. rewrite !nth_map_seq by exact Hk.
  transitivity (invN * (sum N (fun m => get (PMUL X H1) m * pow omi (m * k)) + sum N (fun m => get (PMUL X H2) m * pow omi (m * k))));
    [ring|].
  f_equal. rewrite <- (sum_add R rO rI radd rmul rsub ropp Rth).
  apply (sum_ext R rO rI radd rmul rsub ropp Rth). intros m Hm. unfold getr.
  rewrite !(nth_pmul R rO rI radd rmul rsub ropp Rth) by lia.
  transitivity (nth m X 0 * (nth m H1 0 + nth m H2 0) * pow omi (m * k)); [ring|].
  rewrite Hs by exact Hm. ring.
Qed.

(* elementwise: fexpand(1 - c) + fexpand(c) = 1 *)
Lemma fexpand_complement c ns Hl Hh :
  fexpand rO conj (resp_lp R rI rsub c) ns = Some Hl -> fexpand rO conj c ns = Some Hh ->
  length Hl = length Hh /\
  forall m, (m < length Hh)%nat -> nth m Hl 0 + nth m Hh 0 = 1.
Proof.
  unfold fexpand, resp_lp. rewrite map_length.
  set (il := Z.quot (ns + ns mod 2) 2).
  destruct ((1 <? il)%Z && (Z.of_nat (length c) <? il)%Z) eqn:G; [discriminate|].
  intros [= <-] [= <-]. split.
  - rewrite !app_length, !map_length. reflexivity.
  - intros m Hm. rewrite app_length, map_length, zrange_length in Hm.
    destruct (Nat.lt_ge_cases m (length c)) as [Hc|Hc].
    + rewrite !app_nth1 by (rewrite ?map_length; exact Hc).
      rewrite (nth_indep _ 0 (1 - 0)) by (rewrite map_length; exact Hc).
      rewrite (map_nth (fun v => 1 - v)). ring.
    + rewrite !app_nth2 by (rewrite ?map_length; exact Hc). rewrite map_length.
      rewrite !(nth_map_zrange R) by lia.
      assert (Hq : (Z.to_nat (il - 1 - Z.of_nat (m - length c)) < length c)%nat).
      { apply andb_false_iff in G as [G|G]; lia. }
      rewrite (nth_indep _ 0 (1 - 0)) by (rewrite map_length; exact Hq).
      rewrite (map_nth (fun v => 1 - v)). rewrite Hconj. ring.
Qed.

(* lp + hp = identity (before np.real; the real part is additive) *)
Lemma lp_plus_hp c ts a b :
  Z.of_nat (length c) = (Z.of_nat N / 2 + 1)%Z ->
  freq_filter R rO rI radd rmul om omi invN conj N (resp_lp R rI rsub c) ts = Some a ->
  freq_filter R rO rI radd rmul om omi invN conj N c ts = Some b ->
  forall k, (k < N)%nat -> nth k a 0 + nth k b 0 = get ts k.
Proof.
  intros Hc Ha Hb k Hk. unfold freq_filter in Ha, Hb.
  destruct (fexpand rO conj (resp_lp R rI rsub c) (Z.of_nat N)) as [Hl|] eqn:El; [|discriminate].
  destruct (fexpand rO conj c (Z.of_nat N)) as [Hh|] eqn:Eh; [|discriminate].
  injection Ha as <-. injection Hb as <-.
  destruct (fexpand_complement c _ Hl Hh El Eh) as [Hlen Hsum].
  destruct (freduce_fexpand R rO conj c (Z.of_nat N) ltac:(lia) Hc) as (E & HE & HlenE & _).
  rewrite Eh in HE. injection HE as <-.
  assert (HhN : length Hh = N) by lia.
  rewrite (split_core (DFT ts) Hl Hh k Hk).
  - apply (idft_dft R rO rI radd rmul rsub ropp rdiv rinv Fth N om omi invN HN Hom Hinv Hprim HinvN ts k Hk).
  - unfold dft. now rewrite map_length, seq_length.
  - lia.
  - exact HhN.
  - intros m Hm. apply Hsum. lia.
Qed.

(* ---- forward transform of the inverse transform; band-pass = low-pass o high-pass ---- *)
Lemma omi_prim d : (0 < d < N)%nat -> pow omi d <> 1.
Proof using Fth HN Hom Hinv Hprim HinvN.
  intros Hd E. apply (Hprim d Hd).
  transitivity (pow om d * pow omi d); [rewrite E; ring|].
  apply (om_cancel R rO rI radd rmul rsub ropp rdiv rinv Fth N om omi invN HN Hom Hinv Hprim HinvN).
Qed.

Lemma dft_idft X k : (k < N)%nat -> nth k (DFT (IDFT X)) 0 = get X k.
Proof using Fth HN Hom Hinv Hprim HinvN.
  intros Hk.
  transitivity (nth k (idft R rO rI radd rmul om invN N (dft R rO rI radd rmul omi N X)) 0).
  - unfold idft, dft. rewrite (nth_map_seq _ N k 0 Hk).
    rewrite (nth_map_seq (fun k0 => invN * sum N (fun m => get (map _ (seq 0 N)) m * pow om (m * k0))) N k 0 Hk).
    rewrite (sum_scale_l R rO rI radd rmul rsub ropp Rth). apply (sum_ext R rO rI radd rmul rsub ropp Rth).
    intros j Hj. unfold getr at 1 3. rewrite !nth_map_seq by exact Hj. ring.
  - assert (Hinv' : omi * om = 1) by (rewrite <- Hinv; ring).
    apply (idft_dft R rO rI radd rmul rsub ropp rdiv rinv Fth N omi om invN HN
             (pow_omi_N R rO rI radd rmul rsub ropp rdiv rinv Fth N om omi invN HN Hom Hinv Hprim HinvN)
             Hinv' omi_prim HinvN X k Hk).
Qed.

Lemma fexpand_pmul c1 c2 ns H1 H2 :
  (forall a b, conj (a * b) = conj a * conj b) -> length c1 = length c2 ->
  fexpand rO conj c1 ns = Some H1 -> fexpand rO conj c2 ns = Some H2 ->
  exists H, fexpand rO conj (PMUL c1 c2) ns = Some H /\ length H = length H1 /\
    forall m, (m < length H1)%nat -> nth m H 0 = nth m H1 0 * nth m H2 0.
Proof using Fth HN Hom Hinv Hprim HinvN.
  intros Hcm Hlen. unfold fexpand.
  rewrite (pmul_length R rO rI radd rmul rsub ropp Rth c1 c2 Hlen). rewrite <- Hlen.
  set (il := Z.quot (ns + ns mod 2) 2).
  destruct ((1 <? il)%Z && (Z.of_nat (length c1) <? il)%Z) eqn:G; [discriminate|].
  intros [= <-] [= <-]. eexists. split; [reflexivity|]. split.
  - rewrite !app_length, !map_length. now rewrite (pmul_length R rO rI radd rmul rsub ropp Rth c1 c2 Hlen).
  - intros m Hm. rewrite app_length, map_length, zrange_length in Hm.
    assert (HP : length (PMUL c1 c2) = length c1) by apply (pmul_length R rO rI radd rmul rsub ropp Rth c1 c2 Hlen).
    destruct (Nat.lt_ge_cases m (length c1)) as [Hc|Hc].
    + rewrite !app_nth1 by lia. apply (nth_pmul R rO rI radd rmul rsub ropp Rth); lia.
    + rewrite !app_nth2 by lia. rewrite HP, <- Hlen.
      rewrite !(nth_map_zrange R) by lia.
      assert (Hq : (Z.to_nat (il - 1 - Z.of_nat (m - length c1)) < length c1)%nat).
      { apply andb_false_iff in G as [G|G]; lia. }
      rewrite (nth_pmul R rO rI radd rmul rsub ropp Rth) by lia. apply Hcm.
Qed.

(* band-pass (response c1 * c2) = filter c2 applied to filter c1 (before np.real) *)
Lemma bp_product c1 c2 ts r u v :
  (forall a b, conj (a * b) = conj a * conj b) ->
  Z.of_nat (length c1) = (Z.of_nat N / 2 + 1)%Z -> Z.of_nat (length c2) = (Z.of_nat N / 2 + 1)%Z ->
  freq_filter R rO rI radd rmul om omi invN conj N (PMUL c1 c2) ts = Some r ->
  freq_filter R rO rI radd rmul om omi invN conj N c1 ts = Some u ->
  freq_filter R rO rI radd rmul om omi invN conj N c2 u = Some v ->
  forall k, (k < N)%nat -> nth k r 0 = nth k v 0.
Proof using Fth HN Hom Hinv Hprim HinvN.
  intros Hcm Hc1 Hc2 Hr Hu Hv k Hk. unfold freq_filter in Hr, Hu, Hv.
  destruct (fexpand rO conj c1 (Z.of_nat N)) as [H1|] eqn:E1; [|discriminate].
  destruct (fexpand rO conj c2 (Z.of_nat N)) as [H2|] eqn:E2; [|discriminate].
  destruct (fexpand_pmul c1 c2 _ H1 H2 Hcm ltac:(lia) E1 E2) as (H12 & E12 & Hl12 & Hprod).
  rewrite E12 in Hr. injection Hr as <-. injection Hu as <-. injection Hv as <-.
  destruct (freduce_fexpand R rO conj c1 (Z.of_nat N) ltac:(lia) Hc1) as (E & HE & HlenE & _).
  rewrite E1 in HE. injection HE as <-.
  destruct (freduce_fexpand R rO conj c2 (Z.of_nat N) ltac:(lia) Hc2) as (E' & HE' & HlenE' & _).
  rewrite E2 in HE'. injection HE' as <-.
  assert (HD : forall y, length (DFT y) = N) by (intros; unfold dft; now rewrite map_length, seq_length).
  unfold idft at 1 2. rewrite !nth_map_seq by exact Hk. f_equal.
  apply (sum_ext R rO rI radd rmul rsub ropp Rth). intros m Hm. f_equal. unfold getr.
  rewrite !(nth_pmul R rO rI radd rmul rsub ropp Rth) by (rewrite ?HD; lia).
  rewrite Hprod by lia.
  rewrite (dft_idft _ m Hm). unfold getr.
  rewrite (nth_pmul R rO rI radd rmul rsub ropp Rth) by (rewrite ?HD; lia). ring.
Qed.

End FilterField.
