(* C18 — the half-spectrum path of convolve: for real (conjugation-fixed) inputs,
   irfft(rfft(a) * rfft(b), n=N) = ifft(fft(a) * fft(b)), for every N (odd and even). *)
From Coq Require Import ZArith List Bool Lia Ring Field Arith.
From IBL.lib Require Import PyInt.
From IBL.C18 Require Import Model Sums Proofs Conv Half.
Import ListNotations.

Section RfftField.
Variable R : Type.
Variables (rO rI : R) (radd rmul rsub : R -> R -> R) (ropp : R -> R).
Variables (rdiv : R -> R -> R) (rinv : R -> R).
Hypothesis Fth : field_theory rO rI radd rmul rsub ropp rdiv rinv (@eq R).
Add Ring RringRf : (Rth_of R rO rI radd rmul rsub ropp rdiv rinv Fth).

Local Notation "0" := rO.
Local Notation "1" := rI.
Local Infix "+" := radd.
Local Infix "*" := rmul.
Local Infix "-" := rsub.
Local Notation sum := (rsum R rO radd).
Local Notation pow := (rpow R rI rmul).
Local Notation get := (getr R rO).
Local Notation Rth := (Rth_of R rO rI radd rmul rsub ropp rdiv rinv Fth).

Variable N : nat.
Variables om omi invN : R.
Hypothesis HN : (0 < N)%nat.
Hypothesis Hom : pow om N = 1.
Hypothesis Hinv : om * omi = 1.
Hypothesis Hprim : forall d, (0 < d < N)%nat -> pow om d <> 1.
Hypothesis HinvN : invN * sum N (fun _ => 1) = 1.
Variable conj : R -> R.
Variable half : R.
Hypothesis conj_add : forall a b, conj (a + b) = conj a + conj b.
Hypothesis conj_mul : forall a b, conj (a * b) = conj a * conj b.
Hypothesis conj_1 : conj 1 = 1.
Hypothesis conj_om : conj om = omi.            (* the conjugate of the root is its inverse *)
Hypothesis Hhalf : half * (1 + 1) = 1.
Set Default Proof Using "Fth HN Hom Hinv Hprim HinvN conj_add conj_mul conj_1 conj_om Hhalf".

Local Notation IDFT := (idft R rO rI radd rmul omi invN N).
Local Notation DFT := (dft R rO rI radd rmul om N).
Local Notation PMUL := (pmul R rmul).
Local Notation OMC := (om_cancel R rO rI radd rmul rsub ropp rdiv rinv Fth N om omi invN HN Hom Hinv Hprim HinvN).

Lemma conj_0 : conj 0 = 0.
Proof.
  pose proof (conj_add 0 0) as H. replace (0 + 0) with 0 in H by ring.
  transitivity ((conj 0 + conj 0) - conj 0); [ring | rewrite <- H; ring].
Qed.

Lemma conj_sum n f : conj (sum n f) = sum n (fun i => conj (f i)).
Proof. induction n as [|n IH]; cbn [rsum]; [apply conj_0|]. now rewrite conj_add, IH. Qed.

Lemma conj_pow x n : conj (pow x n) = pow (conj x) n.
Proof. induction n as [|n IH]; cbn [rpow]; [apply conj_1|]. now rewrite conj_mul, IH. Qed.

Definition real_list (x : list R) : Prop := forall j, conj (get x j) = get x j.

Lemma real_pad x n : real_list x -> real_list (zero_pad R rO x n).
Proof.
  intros H j. rewrite (get_pad R rO rI radd rmul rsub ropp Rth). apply H.
Qed.

Lemma pow_mirror j k : (k < N)%nat -> pow om (j * ((N - k) mod N)) = pow omi (j * k).
Proof.
  intros Hk. destruct (Nat.eq_dec k 0) as [->|Hk0].
  - rewrite Nat.sub_0_r, Nat.mod_same by lia. rewrite !Nat.mul_0_r. reflexivity.
  - rewrite Nat.mod_small by lia.
    transitivity (pow om (j * (N - k)) * (pow om (j * k) * pow omi (j * k))); [rewrite OMC; ring|].
    transitivity (pow om (j * (N - k) + j * k) * pow omi (j * k));
      [rewrite (pow_add R rO rI radd rmul rsub ropp Rth); ring|].
    replace (j * (N - k) + j * k)%nat with (N * j)%nat by nia.
    rewrite (pow_mul R rO rI radd rmul rsub ropp Rth), Hom, (pow_one R rO rI radd rmul rsub ropp Rth). ring.
Qed.

(* the spectrum of a real signal is Hermitian *)
Lemma dft_herm x k : real_list x -> (k < N)%nat ->
  nth ((N - k) mod N) (DFT x) 0 = conj (nth k (DFT x) 0).
Proof.
  intros Hx Hk. unfold dft.
  rewrite nth_map_seq by (apply Nat.mod_upper_bound; lia). rewrite nth_map_seq by exact Hk.
  rewrite conj_sum. apply (sum_ext R rO rI radd rmul rsub ropp Rth). intros j Hj.
  rewrite conj_mul, conj_pow, conj_om, Hx, pow_mirror by exact Hk. reflexivity.
Qed.

Lemma dft_length x : length (DFT x) = N.
Proof. unfold dft. now rewrite map_length, seq_length. Qed.

Lemma pmul_herm a b k : real_list a -> real_list b -> (k < N)%nat ->
  nth ((N - k) mod N) (PMUL (DFT a) (DFT b)) 0 = conj (nth k (PMUL (DFT a) (DFT b)) 0).
Proof.
  intros Ha Hb Hk.
  assert (Hm : ((N - k) mod N < N)%nat) by (apply Nat.mod_upper_bound; lia).
  rewrite !(nth_pmul R rO rI radd rmul rsub ropp Rth) by (rewrite dft_length; assumption).
  rewrite conj_mul, <- !dft_herm by assumption. reflexivity.
Qed.

Lemma firstn_pmul m : forall a b, firstn m (PMUL a b) = PMUL (firstn m a) (firstn m b).
Proof using.
  induction m as [|m IH]; intros a b; [reflexivity|].
  destruct a as [|x a]; [reflexivity|]. destruct b as [|y b]; [reflexivity|].
  cbn [pmul firstn]. f_equal. apply IH.
Qed.

Lemma half_len_le : (half_len N <= N)%nat.
Proof using HN.
  unfold half_len. pose proof (Z.div_mod (Z.of_nat N) 2 ltac:(lia)).
  pose proof (Z.mod_pos_bound (Z.of_nat N) 2 ltac:(lia)). lia.
Qed.

(* discarding the imaginary part of bins 0 and N/2 changes nothing on a Hermitian spectrum *)
Lemma irfft_bins_eq P : length P = N ->
  (forall k, (k < N)%nat -> nth ((N - k) mod N) P 0 = conj (nth k P 0)) ->
  irfft_bins R rO radd rmul half conj N (firstn (half_len N) P) = firstn (half_len N) P.
Proof.
  intros HP Hh. pose proof half_len_le as Hle. unfold irfft_bins.
  apply (nth_ext _ _ 0 0).
  - rewrite map_length, seq_length, firstn_length. lia.
  - intros i Hi. rewrite map_length, seq_length in Hi. rewrite nth_map_seq by exact Hi.
    unfold getr. rewrite nth_firstn_lt by exact Hi.
    destruct ((i =? 0)%nat || ((N mod 2 =? 0)%nat && (i =? N / 2)%nat)) eqn:E; [|reflexivity].
    assert (Hself : conj (nth i P 0) = nth i P 0).
    { rewrite <- (Hh i) by lia. f_equal.
      apply orb_true_iff in E as [E|E].
      - apply Nat.eqb_eq in E. subst i. rewrite Nat.sub_0_r. apply Nat.mod_same. lia.
      - apply andb_true_iff in E as [E1 E2]. apply Nat.eqb_eq in E1, E2. subst i.
        pose proof (Nat.div_mod N 2 ltac:(lia)). rewrite Nat.mod_small by lia. lia. }
    unfold re_part. rewrite Hself.
    transitivity (half * (1 + 1) * nth i P 0); [ring | rewrite Hhalf; ring].
Qed.

(* the half-spectrum product path equals the full-spectrum product path *)
Lemma rfft_conv_eq a b : real_list a -> real_list b ->
  rfft_conv R rO rI radd rmul om omi invN half conj N a b =
  spectral_conv R rO rI radd rmul om omi invN N a b.
Proof.
  intros Ha Hb. unfold rfft_conv, irfft, rfft, spectral_conv.
  rewrite <- firstn_pmul. set (P := PMUL (DFT a) (DFT b)).
  assert (HP : length P = N).
  { unfold P. rewrite (pmul_length R rO rI radd rmul rsub ropp Rth); rewrite !dft_length; reflexivity. }
  rewrite irfft_bins_eq by (try exact HP; intros k Hk; apply pmul_herm; assumption).
  destruct (fexpand_freduce R 0 conj P ltac:(lia)) as (H & HF & _ & HE).
  { rewrite HP. intros k Hk. apply pmul_herm; assumption. }
  unfold freduce in HF. rewrite HP in HF.
  destruct (Z.of_nat N =? 0)%Z eqn:E0; [lia|]. injection HF as <-.
  rewrite HP in HE. fold (half_len N) in HE. rewrite HE. reflexivity.
Qed.

(* convolve(mode='full') through the half-spectrum path, real inputs, padded size N *)
Lemma rfft_full_gen x w :
  real_list x -> real_list w -> (length x + length w <= N)%nat ->
  let l := firstn (length x + length w)
             (rfft_conv R rO rI radd rmul om omi invN half conj N (zero_pad R rO x N) (zero_pad R rO w N)) in
  length l = (length x + length w)%nat /\
  forall k, (k < length x + length w)%nat -> nth k l 0 = conv_direct_at R rO radd rmul x w k.
Proof.
  intros Hx Hw Hle l. subst l.
  rewrite rfft_conv_eq by (apply real_pad; assumption).
  split.
  - rewrite firstn_length. unfold spectral_conv, idft. rewrite map_length, seq_length. lia.
  - intros k Hk. rewrite nth_firstn_lt by exact Hk.
    rewrite (conv_theorem R rO rI radd rmul rsub ropp rdiv rinv Fth N om omi invN HN Hom Hinv Hprim HinvN) by lia.
    apply (circ_eq_direct R rO rI radd rmul rsub ropp Rth); lia.
Qed.

Lemma convolve_rfft_gen x w (o : option Z) l :
  real_list x -> real_list w -> o = Some (Z.of_nat N) -> (length x + length w <= N)%nat ->
  match o with
  | Some ns => Some (firstn (length x + length w)
                       (rfft_conv R rO rI radd rmul om omi invN half conj (Z.to_nat ns)
                          (zero_pad R rO x (Z.to_nat ns)) (zero_pad R rO w (Z.to_nat ns))))
  | None => None
  end = Some l ->
  length l = (length x + length w)%nat /\
  forall k, (k < length x + length w)%nat -> nth k l 0 = conv_direct_at R rO radd rmul x w k.
Proof.
  intros Hx Hw Ho Hle H. subst o. rewrite Nat2Z.id in H. injection H as <-.
  exact (rfft_full_gen x w Hx Hw Hle).
Qed.

Lemma convolve_rfft_spec x w l :
  real_list x -> real_list w ->
  ns_optim (Z.of_nat (length x + length w)) = Some (Z.of_nat N) ->
  convolve_full_with R rO (rfft_conv R rO rI radd rmul om omi invN half conj) x w = Some l ->
  length l = (length x + length w)%nat /\
  forall k, (k < length x + length w)%nat -> nth k l 0 = conv_direct_at R rO radd rmul x w k.
Proof.
  intros Hx Hw Hns.
  assert (Hle : (length x + length w <= N)%nat) by (apply ns_optim_ge in Hns; lia).
  exact (convolve_rfft_gen x w (ns_optim (Z.of_nat (length x + length w))) l Hx Hw Hns Hle).
Qed.

End RfftField.
