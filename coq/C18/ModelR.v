(* C18 — real-valued model of utils.fcn_cosine / _fcn_extrap (definitions only).
     def _cos(x): return (1 - cos((x - bounds[0]) / (bounds[1] - bounds[0]) * pi)) / 2
     y = f(x); y[x < bounds[0]] = f(bounds[0]); y[x > bounds[1]] = f(bounds[1])
   (the second assignment is applied last, so it is tested first here). *)
From Coq Require Import Reals.
Open Scope R_scope.

Definition cosf (b0 b1 x : R) : R := (1 - cos ((x - b0) / (b1 - b0) * PI)) / 2.

Definition fcn_cosine (b0 b1 x : R) : R :=
  if Rlt_dec b1 x then cosf b0 b1 b1
  else if Rlt_dec x b0 then cosf b0 b1 b0
  else cosf b0 b1 x.
