(* C18 — executable model of the spectral helpers of src/ibldsp/fourier.py
   (ns_optim_fft, convolve, fscale, freduce, fexpand, _freq_vector/_freq_filter, dft)
   and of the piecewise structure of src/ibldsp/utils.py:fcn_cosine/_fcn_extrap.
   Definitions only; proofs are in Sums.v / Proofs.v, theorems in Props.v.
   The real-number model of the cosine taper itself is in ModelR.v.

   Python                                       model
   ------                                       -----
   ns_optim_fft(ns)                             ns_optim
   convolve(x, w, mode)                         convolve_full_with / convolve_same_with
       rfft * rfft -> irfft(n=ns)               spectral_conv (abstract root of unity) ;
                                                circ_conv (what it computes, executable)
   fscale(ns, si, one_sided)                    fscale_bins     (bin numbers; frequency = bin/ns/si)
   freduce(x) / fexpand(x, ns)                  freduce / fexpand
   _freq_vector(f, b, typ), fcn_cosine          taper_code / freq_vector_codes (the taper value kept symbolic)
   _freq_filter(ts, si, b, typ)                 freq_filter (abstract DFT) ; freq_response (executable)
   dft(x): nk                                   dft_nk
*)
From Coq Require Import ZArith List Bool Lia.
From IBL.lib Require Import PyInt.
Import ListNotations.
Open Scope Z_scope.

(* ------------------------------------------------------------------ *)
(* ns_optim_fft:
     p2, p3 = np.meshgrid(2 ** np.arange(25), 3 ** np.arange(15))
     sz = np.unique((p2 * p3).flatten())
     return sz[np.searchsorted(sz, ns)]                                   *)
Definition pow_table : list Z :=
  flat_map (fun b => map (fun a => 2 ^ a * 3 ^ b) (zrange 25)) (zrange 15).

(* np.unique: sorted ascending, duplicates removed *)
Fixpoint insert_u (x : Z) (l : list Z) : list Z :=
  match l with
  | [] => [x]
  | y :: t => if x <? y then x :: l else if x =? y then l else y :: insert_u x t
  end.
Definition np_unique (l : list Z) : list Z := fold_right insert_u [] l.

Definition sz_table : list Z := np_unique pow_table.

(* np.searchsorted(a, v) (side='left') on a sorted array: number of entries < v *)
Definition searchsorted_left (a : list Z) (v : Z) : nat :=
  length (filter (fun x => x <? v) a).

(* None = IndexError (argument above the largest table entry) *)
Definition ns_optim (n : Z) : option Z :=
  nth_error sz_table (searchsorted_left sz_table n).

(* ------------------------------------------------------------------ *)
(* Python slicing helpers *)

(* l[start:stop] (step 1) with Python's normalisation of negative / out of range bounds *)
Definition norm_idx (len i : Z) : Z :=
  if i <? 0 then Z.max (i + len) 0 else Z.min i len.
Definition pyslice {A} (l : list A) (start stop : Z) : list A :=
  let len := Z.of_nat (length l) in
  let s := norm_idx len start in
  let e := norm_idx len stop in
  firstn (Z.to_nat (e - s)) (skipn (Z.to_nat s) l).

(* l[start:stop:-1] (PySlice_AdjustIndices with a negative step) *)
Definition norm_idx_neg (len i : Z) : Z :=
  if i <? 0 then (if i + len <? 0 then -1 else i + len)
  else (if len <=? i then len - 1 else i).
Definition pyslice_rev {A} (l : list A) (start stop : Z) : list A :=
  let len := Z.of_nat (length l) in
  let s := norm_idx_neg len start in
  let e := norm_idx_neg len stop in
  (* indices s, s-1, ..., e+1  =  reverse of l[e+1 : s+1] *)
  rev (firstn (Z.to_nat (s - e)) (skipn (Z.to_nat (e + 1)) l)).

(* np.arange(a, a + n) as integers (linear time, unlike zrange on large counts) *)
Fixpoint zseq (n : nat) (a : Z) : list Z :=
  match n with O => [] | S m => a :: zseq m (a + 1) end.

(* ------------------------------------------------------------------ *)
(* fscale(ns, si, one_sided):
     fsc = np.arange(0, np.floor(ns / 2) + 1) / ns / si
     one_sided -> fsc ; else concatenate((fsc, -fsc[slice(-2 + (ns % 2), 0, -1)]))
   The model returns the bin numbers k; the frequency is k / ns / si. *)
Definition fscale_bins (ns : Z) (one_sided : bool) : list Z :=
  let fsc := zseq (Z.to_nat (ns / 2 + 1)) 0 in
  if one_sided then fsc
  else fsc ++ map Z.opp (pyslice_rev fsc (-2 + ns mod 2) 0).

(* ------------------------------------------------------------------ *)
(* freduce / fexpand over any carrier with a conjugation *)
Section Half.
Variable A : Type.
Variable a0 : A.               (* default for nth; never reached under the guards *)
Variable conj : A -> A.

(* freduce(x): siz = int(np.floor(n / 2 + 1)); np.take(x, arange(0, siz))
   (None = IndexError of np.take on an empty axis) *)
Definition freduce (x : list A) : option (list A) :=
  let n := Z.of_nat (length x) in
  if n =? 0 then None else Some (firstn (Z.to_nat (n / 2 + 1)) x).

(* fexpand(x, ns): ilast = int((ns + (ns % 2)) / 2)
     xcomp = conj(flip(take(x, arange(1, ilast))))  ->  x[ilast-1], ..., x[1], conjugated
     concatenate((x, xcomp))
   None = IndexError of np.take when ilast - 1 >= len(x). *)
Definition fexpand (x : list A) (ns : Z) : option (list A) :=
  let ilast := Z.quot (ns + ns mod 2) 2 in
  if (1 <? ilast) && (Z.of_nat (length x) <? ilast) then None
  else Some (x ++ map (fun j => conj (nth (Z.to_nat (ilast - 1 - j)) x a0))
                      (zrange (Z.to_nat (ilast - 1)))).
End Half.
Arguments freduce {A}.
Arguments fexpand {A}.

(* ------------------------------------------------------------------ *)
(* string-valued options of the anchored functions (ASCII codes).
   convolve:      if mode == "full": ... elif mode == "same": ...      (exact match; anything else falls
                  through and the function returns None)
   _freq_filter:  if typ == "bp": ... else: _freq_vector(f, b, typ=typ)  (exact match)
   _freq_vector:  typ.lower() in ["hp", "highpass"] -> filc ; in ["lp", "lowpass"] -> 1 - filc ;
                  anything else returns None and the caller fails on it *)
Fixpoint zs_eqb (a b : list Z) : bool :=
  match a, b with
  | [], [] => true
  | x :: a', y :: b' => (x =? y) && zs_eqb a' b'
  | _, _ => false
  end.
Definition lower_ascii (c : Z) : Z := if (65 <=? c) && (c <=? 90) then c + 32 else c.
Definition s_full : list Z := [102; 117; 108; 108].
Definition s_same : list Z := [115; 97; 109; 101].
Definition s_bp : list Z := [98; 112].
Definition s_hp : list Z := [104; 112].
Definition s_lp : list Z := [108; 112].
Definition s_highpass : list Z := [104; 105; 103; 104; 112; 97; 115; 115].
Definition s_lowpass : list Z := [108; 111; 119; 112; 97; 115; 115].
Inductive cmode := MFull | MSame | MOther.
Definition mode_class (s : list Z) : cmode :=
  if zs_eqb s s_full then MFull else if zs_eqb s s_same then MSame else MOther.
Inductive ftyp := THp | TLp | TBp | TBad.
Definition typ_class (s : list Z) : ftyp :=
  if zs_eqb s s_bp then TBp
  else let l := map lower_ascii s in
       if zs_eqb l s_hp || zs_eqb l s_highpass then THp
       else if zs_eqb l s_lp || zs_eqb l s_lowpass then TLp
       else TBad.
(* outcome of a Python call: a value, the value None, or an exception *)
Inductive pyres (A : Type) := Ret (a : A) | RetNone | Raise.
Arguments Ret {A}. Arguments RetNone {A}. Arguments Raise {A}.

(* ------------------------------------------------------------------ *)
(* Ring-generic part: sums, DFT, circular convolution, convolve, filters *)
Section RingModel.
Variable R : Type.
Variables (rO rI : R) (radd rmul rsub : R -> R -> R).

Definition getr (l : list R) (i : nat) : R := nth i l rO.

(* sum_{i<n} f i *)
Fixpoint rsum (n : nat) (f : nat -> R) : R :=
  match n with O => rO | S m => radd (rsum m f) (f m) end.

Fixpoint rpow (x : R) (n : nat) : R :=
  match n with O => rI | S m => rmul x (rpow x m) end.

(* np.concatenate((x, zeros(ns - nsx))) *)
Definition zero_pad (x : list R) (n : nat) : list R := x ++ repeat rO (n - length x).

Fixpoint pmul (a b : list R) : list R :=
  match a, b with x :: a', y :: b' => rmul x y :: pmul a' b' | _, _ => [] end.
Fixpoint padd (a b : list R) : list R :=
  match a, b with x :: a', y :: b' => radd x y :: padd a' b' | _, _ => [] end.

(* direct (textbook) linear convolution, entry k: sum_{j<=k} x[j] * w[k-j] *)
Definition conv_direct_at (x w : list R) (k : nat) : R :=
  rsum (S k) (fun j => rmul (getr x j) (getr w (k - j))).
Definition conv_direct (x w : list R) : list R :=
  map (conv_direct_at x w) (seq 0 (length x + length w - 1)).

(* circular convolution of length N: y[k] = sum_{j<N} a[j] * b[(k - j) mod N] *)
Definition circ_conv_at (N : nat) (a b : list R) (k : nat) : R :=
  rsum N (fun j => rmul (getr a j) (getr b ((k + N - j) mod N))).
Definition circ_conv (N : nat) (a b : list R) : list R :=
  map (circ_conv_at N a b) (seq 0 N).

(* DFT with an abstract N-th root of unity om, inverse with omi = 1/om and invN = 1/N.
   np.fft: X[k] = sum_j x[j] om^(j k), om = exp(-2 pi i / N). *)
Variables (om omi invN : R).
Definition dft (N : nat) (x : list R) : list R :=
  map (fun k => rsum N (fun j => rmul (getr x j) (rpow om (j * k)))) (seq 0 N).
Definition idft (N : nat) (X : list R) : list R :=
  map (fun k => rmul invN (rsum N (fun m => rmul (getr X m) (rpow omi (m * k))))) (seq 0 N).

(* dft(x, kscale=ks): the coefficients at a user-supplied list of bins (any integers:
   centred / negative bins, subsets, permutations); bin k is taken modulo N, which is
   what exp(-2 pi i n k / N) does.  X[j] = sum_n x[n] om^(n * (k_j mod N)). *)
Definition bin_of (N : nat) (k : Z) : nat := Z.to_nat (k mod Z.of_nat N).
Definition dft_bins (N : nat) (x : list R) (ks : list Z) : list R :=
  map (fun k => rsum N (fun j => rmul (getr x j) (rpow om (j * bin_of N k)))) ks.

(* ifft(fft(a) * fft(b)) *)
Definition spectral_conv (N : nat) (a b : list R) : list R :=
  idft N (pmul (dft N a) (dft N b)).

(* The half-spectrum path convolve actually takes:  irfft(rfft(x_) * rfft(w_), n=ns).
   rfft(x)      = bins 0 .. N div 2 of the DFT.
   irfft(X, n)  : uses bins 0 .. n div 2 of X (zero padded if shorter), discards the
                  imaginary part of bin 0 and, for even n, of bin n/2 (C2R transform),
                  mirrors the remaining bins by conjugation and applies the inverse
                  transform.  re z = (z + conj z)/2 with an abstract `half`. *)
Definition half_len (N : nat) : nat := Z.to_nat (Z.of_nat N / 2 + 1).
Definition rfft (N : nat) (x : list R) : list R := firstn (half_len N) (dft N x).
Definition re_part (half : R) (conj : R -> R) (z : R) : R := rmul half (radd z (conj z)).
Definition irfft_bins (half : R) (conj : R -> R) (N : nat) (X : list R) : list R :=
  map (fun i => if (i =? 0)%nat || ((N mod 2 =? 0)%nat && (i =? N / 2)%nat)
                then re_part half conj (getr X i) else getr X i)
      (seq 0 (half_len N)).
Definition irfft (half : R) (conj : R -> R) (N : nat) (X : list R) : list R :=
  match fexpand rO conj (irfft_bins half conj N X) (Z.of_nat N) with
  | Some H => idft N H
  | None => []
  end.
Definition rfft_conv (half : R) (conj : R -> R) (N : nat) (a b : list R) : list R :=
  irfft half conj N (pmul (rfft N a) (rfft N b)).

(* convolve(x, w, mode):
     nsx, nsw = x.shape[-1], w.shape[-1];  ns = ns_optim_fft(nsx + nsw)
     x_, w_ = zero padded to ns
     xw = real(irfft(rfft(x_) * rfft(w_), n=ns))[..., :nsx + nsw]
   parameterised by the length-ns circular product (spectral_conv in the
   theorems, circ_conv when run). *)
Definition convolve_full_with (cc : nat -> list R -> list R -> list R)
           (x w : list R) : option (list R) :=
  let nsx := length x in
  let nsw := length w in
  match ns_optim (Z.of_nat (nsx + nsw)) with
  | Some ns =>
      let N := Z.to_nat ns in
      Some (firstn (nsx + nsw) (cc N (zero_pad x N) (zero_pad w N)))
  | None => None
  end.

(*   mode == 'same':
       first = int(floor(nsw / 2)) - ((nsw + 1) % 2)
       last = int(ceil(nsw / 2)) + ((nsw + 1) % 2)
       return xw[..., first:-last]                                        *)
Definition same_first (nsw : Z) : Z := nsw / 2 - (nsw + 1) mod 2.
Definition same_last (nsw : Z) : Z := cdiv nsw 2 + (nsw + 1) mod 2.
Definition convolve_same_with (cc : nat -> list R -> list R -> list R)
           (x w : list R) : option (list R) :=
  match convolve_full_with cc x w with
  | Some xw =>
      let nsw := Z.of_nat (length w) in
      Some (pyslice xw (same_first nsw) (- same_last nsw))
  | None => None
  end.

(* _freq_filter(ts, si, b, typ), along one axis, before np.real:
     ifft(fft(ts) * fexpand(filc, ns))    with filc real (conj = id on it) *)
Definition resp_lp (c : list R) : list R := map (fun v => rsub rI v) c.   (* 1 - filc *)
(* bp: filc = _freq_vector(f, b[0:2], 'hp') * _freq_vector(f, b[2:4], 'lp')  — the PRODUCT of
   the high-pass response c1 and the low-pass response 1 - c2, whatever the corners *)
Definition bp_resp (c1 c2 : list R) : list R := pmul c1 (resp_lp c2).
Definition freq_filter (conj : R -> R) (N : nat) (filc ts : list R) : option (list R) :=
  match fexpand rO conj filc (Z.of_nat N) with
  | Some H => Some (idft N (pmul (dft N ts) H))
  | None => None
  end.

(* convolve(x, w, mode=<string>) as a whole: the padded size is computed first (IndexError beyond the
   table), then the mode is dispatched; an unknown mode returns None *)
Definition convolve_py (cc : nat -> list R -> list R -> list R) (mode : list Z) (x w : list R) : pyres (list R) :=
  match convolve_full_with cc x w with
  | None => Raise
  | Some xw =>
      match mode_class mode with
      | MFull => Ret xw
      | MSame => match convolve_same_with cc x w with Some s => Ret s | None => Raise end
      | MOther => RetNone
      end
  end.

(* _freq_filter(ts, si, b, typ=<string>): c1 = taper of b[0:2], c2 = taper of b[2:4] (bp only) *)
Definition freq_filter_py (conj : R -> R) (N : nat) (typ : list Z) (c1 c2 ts : list R) : pyres (list R) :=
  let run filc := match freq_filter conj N filc ts with Some y => Ret y | None => Raise end in
  match typ_class typ with
  | THp => run c1
  | TLp => run (resp_lp c1)
  | TBp => run (bp_resp c1 c2)
  | TBad => Raise
  end.

(* dft(x, xscale=xs, kscale=ks): X[j] = sum_n x[n] om^(xs[n] * k_j)   (integer positions and bins,
   exponent taken modulo N); xscale=None means xs = 0 .. N-1 *)
Definition dft_xk (N : nat) (x : list R) (xs ks : list Z) : list R :=
  map (fun k => rsum N (fun j => rmul (getr x j) (rpow om (bin_of N (nth j xs 0%Z * k))))) ks.
End RingModel.

(* ------------------------------------------------------------------ *)
(* fcn_cosine(bounds)(x) = _fcn_extrap(x, _cos, bounds):
     y = f(x); y[x < b0] = f(b0); y[x > b1] = f(b1)     (the second assignment wins)
     f(x) = (1 - cos((x - b0) / (b1 - b0) * pi)) / 2
   The model keeps the taper symbolic: a code (kind, num, den) stands for
     kind 0 -> f(b0)   kind 1 -> f(b1)   kind 2 -> f at t = num/den = (x-b0)/(b1-b0).
   x, b0, b1 are rationals over one positive common denominator: xn, b0n, b1n. *)
Definition taper_code (b0n b1n xn : Z) : Z * Z * Z :=
  if b1n <? xn then (1, 0, 1)
  else if xn <? b0n then (0, 0, 1)
  else (2, xn - b0n, b1n - b0n).

(* f = fscale(ns, si, one_sided=True) with si = sp/sq; bounds b = bn/bd:
   f_k = k*sq/(ns*sp); over the common denominator ns*sp*bd:
     f_k -> k*sq*bd ,  b -> bn*ns*sp                                        *)
Definition freq_vector_codes (ns sp sq bd b0n b1n : Z) : list (Z * Z * Z) :=
  map (fun k => taper_code (b0n * ns * sp) (b1n * ns * sp) (k * sq * bd))
      (fscale_bins ns true).

(* _freq_filter's response fexpand(filc, ns, axis=0) for typ hp / lp / bp, as
   codes; the response value of a code c is  T(c) (hp), 1 - T(c) (lp), and for
   bp  T(c1) * (1 - T(c2)) with c1 from b[0:2], c2 from b[2:4].  conj = id. *)
Definition freq_response (ns sp sq bd b0n b1n : Z) : option (list (Z * Z * Z)) :=
  fexpand (0, 0, 1) (fun c => c) (freq_vector_codes ns sp sq bd b0n b1n) ns.

(* ------------------------------------------------------------------ *)
(* dft(x): nk = ns if complex input else np.ceil((ns + 1) / 2) *)
Definition dft_nk (ns : Z) (is_complex : bool) : Z :=
  if is_complex then ns else cdiv (ns + 1) 2.
(* with kscale given: nk = kscale.size *)
Definition dft_nk_k (ns : Z) (is_complex : bool) (kscale_size : option Z) : Z :=
  match kscale_size with Some m => m | None => dft_nk ns is_complex end.

(* ------------------------------------------------------------------ *)
(* dtype promotion in convolve.  Each operand is zero padded IN ITS OWN dtype
   (zeros(..., dtype=x.dtype) for x, dtype=w.dtype for w): neither operand is
   converted to the other's dtype, so every sample enters the transform with its
   exact value (integers and float32 embed exactly into the carrier R of the
   theorems).  np.fft.rfft transforms float32 data in single precision and
   everything else (float64, every integer type) in double; the product of the two
   half spectra, hence the result, has the wider precision of the two. *)
Inductive dtype := F32 | F64 | IntT.
Definition fft_prec (d : dtype) : dtype := match d with F32 => F32 | _ => F64 end.
Definition conv_result_dtype (dx dw : dtype) : dtype :=
  match fft_prec dx, fft_prec dw with F32, F32 => F32 | _, _ => F64 end.

