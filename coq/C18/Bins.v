(* C18 — the explicit DFT at an arbitrary list of bins; the band-pass response vector. *)
From Coq Require Import ZArith List Bool Lia Ring Field Arith.
From IBL.lib Require Import PyInt.
From IBL.C18 Require Import Model Sums Proofs Conv Half Filter.
Import ListNotations.

Section BinsField.
Variable R : Type.
Variables (rO rI : R) (radd rmul rsub : R -> R -> R) (ropp : R -> R).
Variables (rdiv : R -> R -> R) (rinv : R -> R).
Hypothesis Fth : field_theory rO rI radd rmul rsub ropp rdiv rinv (@eq R).
Add Ring RringB : (Rth_of R rO rI radd rmul rsub ropp rdiv rinv Fth).

Local Notation "0" := rO.
Local Notation "1" := rI.
Local Infix "+" := radd.
Local Infix "*" := rmul.
Local Infix "-" := rsub.
Local Notation sum := (rsum R rO radd).
Local Notation pow := (rpow R rI rmul).
Local Notation get := (getr R rO).
Local Notation Rth := (Rth_of R rO rI radd rmul rsub ropp rdiv rinv Fth).

Variable N : nat.
Variables om omi invN : R.
Hypothesis HN : (0 < N)%nat.
Hypothesis Hom : pow om N = 1.
Hypothesis Hinv : om * omi = 1.
Hypothesis Hprim : forall d, (0 < d < N)%nat -> pow om d <> 1.
Hypothesis HinvN : invN * sum N (fun _ => 1) = 1.

Local Notation DFT := (dft R rO rI radd rmul om N).
Local Notation DFTB := (dft_bins R rO rI radd rmul om N).

Lemma bin_lt k : (bin_of N k < N)%nat.
Proof using HN.
  unfold bin_of. pose proof (Z.mod_pos_bound k (Z.of_nat N) ltac:(lia)). lia.
Qed.

(* entry j of dft(x, kscale=ks) is sum_n x[n] om^(n * k_j) (bin taken modulo N) *)
Lemma dft_bins_nth x ks j : (j < length ks)%nat ->
  nth j (DFTB x ks) 0 = sum N (fun n => get x n * pow om (n * bin_of N (nth j ks 0%Z))).
Proof using.
  intros Hj. unfold dft_bins.
  rewrite (nth_indep _ 0 ((fun k => sum N (fun n => get x n * pow om (n * bin_of N k))) 0%Z))
    by (now rewrite map_length).
  now rewrite (map_nth (fun k => sum N (fun n => get x n * pow om (n * bin_of N k)))).
Qed.

(* = the FFT coefficient at that bin *)
Lemma dft_bins_fft x ks j : (j < length ks)%nat ->
  nth j (DFTB x ks) 0 = nth (bin_of N (nth j ks 0%Z)) (DFT x) 0.
Proof using HN.
  intros Hj. rewrite dft_bins_nth by exact Hj. unfold dft.
  now rewrite nth_map_seq by apply bin_lt.
Qed.

(* kscale = 0 .. N-1 gives the whole transform *)
Lemma dft_bins_all x : DFTB x (map Z.of_nat (seq 0 N)) = DFT x.
Proof using Fth HN.
  unfold dft_bins, dft. rewrite map_map. apply map_ext_in. intros k Hk. apply in_seq in Hk.
  apply (sum_ext R rO rI radd rmul rsub ropp Rth). intros n _. f_equal. f_equal. f_equal.
  unfold bin_of. rewrite Z.mod_small by lia. lia.
Qed.

(* a negative bin -k stands for the inverse root: om^(n * ((-k) mod N)) = (1/om)^(n k) *)
Lemma neg_bin n k : pow om (n * bin_of N (- Z.of_nat k)) = pow omi (n * k).
Proof using Fth HN Hom Hinv Hprim HinvN.
  set (r := bin_of N (- Z.of_nat k)).
  assert (Hq : exists q, (r + k = N * q)%nat).
  { unfold r, bin_of.
    pose proof (Z.div_mod (- Z.of_nat k) (Z.of_nat N) ltac:(lia)) as Hd.
    pose proof (Z.mod_pos_bound (- Z.of_nat k) (Z.of_nat N) ltac:(lia)) as Hb.
    exists (Z.to_nat (- (- Z.of_nat k / Z.of_nat N))).
    assert (- Z.of_nat k / Z.of_nat N <= 0)%Z by (apply Z.div_le_upper_bound; lia).
    nia. }
  destruct Hq as [q Hq].
  pose proof (om_cancel R rO rI radd rmul rsub ropp rdiv rinv Fth N om omi invN HN Hom Hinv Hprim HinvN (n * k)) as Hc.
  transitivity (pow om (n * r) * (pow om (n * k) * pow omi (n * k))); [rewrite Hc; ring|].
  transitivity (pow om (n * r + n * k) * pow omi (n * k));
    [rewrite (pow_add R rO rI radd rmul rsub ropp Rth); ring|].
  replace (n * r + n * k)%nat with (N * (q * n))%nat by nia.
  rewrite (pow_mul R rO rI radd rmul rsub ropp Rth), Hom, (pow_one R rO rI radd rmul rsub ropp Rth). ring.
Qed.

(* ---- band-pass response vector = product, for arbitrary corners (arbitrary c1, c2) ---- *)
Lemma bp_resp_nth c1 c2 m : (m < length c1)%nat -> (m < length c2)%nat ->
  nth m (bp_resp R rI rmul rsub c1 c2) 0 = nth m c1 0 * (1 - nth m c2 0).
Proof using Fth.
  intros H1 H2. unfold bp_resp, resp_lp.
  rewrite (nth_pmul R rO rI radd rmul rsub ropp Rth) by (rewrite ?map_length; assumption).
  rewrite (nth_indep (map _ c2) 0 (1 - 0)) by (now rewrite map_length).
  now rewrite (map_nth (fun v => 1 - v)).
Qed.

Lemma bp_resp_expand (conj : R -> R) c1 c2 ns H1 H2 :
  (forall a b, conj (a * b) = conj a * conj b) -> length c1 = length c2 ->
  fexpand rO conj c1 ns = Some H1 -> fexpand rO conj (resp_lp R rI rsub c2) ns = Some H2 ->
  exists H, fexpand rO conj (bp_resp R rI rmul rsub c1 c2) ns = Some H /\ length H = length H1 /\
    forall m, (m < length H1)%nat -> nth m H 0 = nth m H1 0 * nth m H2 0.
Proof using Fth HN Hom Hinv Hprim HinvN.
  intros Hcm Hlen E1 E2. unfold bp_resp.
  apply (fexpand_pmul R rO rI radd rmul rsub ropp rdiv rinv Fth N om omi invN HN Hom Hinv Hprim HinvN conj
           c1 (resp_lp R rI rsub c2) ns H1 H2 Hcm); try assumption.
  unfold resp_lp. now rewrite map_length.
Qed.

End BinsField.
