(* C18 — the explicit DFT at an arbitrary list of bins; the band-pass response vector. *)
From Coq Require Import ZArith List Bool Lia Ring Field Arith.
From IBL.lib Require Import PyInt.
From IBL.C18 Require Import Model Sums Proofs Conv Half Filter.
Import ListNotations.

Section BinsField.
Variable R : Type.
Variables (rO rI : R) (radd rmul rsub : R -> R -> R) (ropp : R -> R).
Variables (rdiv : R -> R -> R) (rinv : R -> R).
Hypothesis Fth : field_theory rO rI radd rmul rsub ropp rdiv rinv (@eq R).
Add Ring RringB : (Rth_of R rO rI radd rmul rsub ropp rdiv rinv Fth).

Local Notation "0" := rO.
Local Notation "1" := rI.
Local Infix "+" := radd.
Local Infix "*" := rmul.
Local Infix "-" := rsub.
Local Notation sum := (rsum R rO radd).
Local Notation pow := (rpow R rI rmul).
Local Notation get := (getr R rO).
Local Notation Rth := (Rth_of R rO rI radd rmul rsub ropp rdiv rinv Fth).

Variable N : nat.
Variables om omi invN : R.
Hypothesis HN : (0 < N)%nat.
Hypothesis Hom : pow om N = 1.
Hypothesis Hinv : om * omi = 1.
Hypothesis Hprim : forall d, (0 < d < N)%nat -> pow om d <> 1.
Hypothesis HinvN : invN * sum N (fun _ => 1) = 1.

Local Notation DFT := (dft R rO rI radd rmul om N).
Local Notation DFTB := (dft_bins R rO rI radd rmul om N).

Lemma bin_lt k : (bin_of N k < N)%nat.
Proof using HN.
  unfold bin_of. pose proof (Z.mod_pos_bound k (Z.of_nat N) ltac:(lia)). lia.
Qed.

(* entry j of dft(x, kscale=ks) is sum_n x[n] om^(n * k_j) (bin taken modulo N) *)
Lemma dft_bins_nth x ks j : (j < length ks)%nat ->
  nth j (DFTB x ks) 0 = sum N (fun n => get x n * pow om (n * bin_of N (nth j ks 0%Z))).
Proof using.
  intros Hj. unfold dft_bins.
  rewrite (nth_indep _ 0 ((fun k => sum N (fun n => get x n * pow om (n * bin_of N k))) 0%Z))
    by (now rewrite map_length).
  now rewrite (map_nth (fun k => sum N (fun n => get x n * pow om (n * bin_of N k)))).
Qed.

(* = the FFT coefficient at that bin *)
Lemma dft_bins_fft x ks j : (j < length ks)%nat ->
  nth j (DFTB x ks) 0 = nth (bin_of N (nth j ks 0%Z)) (DFT x) 0.
Proof using HN.
  intros Hj. rewrite dft_bins_nth by exact Hj. unfold dft.
  now rewrite nth_map_seq by apply bin_lt.
Qed.

(* kscale = 0 .. N-1 gives the whole transform *)
Lemma dft_bins_all x : DFTB x (map Z.of_nat (seq 0 N)) = DFT x.
Proof using Fth HN.
  unfold dft_bins, dft. rewrite map_map. apply map_ext_in. intros k Hk. apply in_seq in Hk.
  apply (sum_ext R rO rI radd rmul rsub ropp Rth). intros n _. f_equal. f_equal. f_equal.
  unfold bin_of. rewrite Z.mod_small by lia. lia.
Qed.

(* a negative bin -k stands for the inverse root: om^(n * ((-k) mod N)) = (1/om)^(n k) *)
Lemma neg_bin n k : pow om (n * bin_of N (- Z.of_nat k)) = pow omi (n * k).
Proof using Fth HN Hom Hinv Hprim HinvN.
  set (r := bin_of N (- Z.of_nat k)).
  assert (Hq : exists q, (r + k = N * q)%nat).
  { unfold r, bin_of.
    pose proof (Z.div_mod (- Z.of_nat k) (Z.of_nat N) ltac:(lia)) as Hd.
    pose proof (Z.mod_pos_bound (- Z.of_nat k) (Z.of_nat N) ltac:(lia)) as Hb.
    exists (Z.to_nat (- (- Z.of_nat k / Z.of_nat N))).
    assert (- Z.of_nat k / Z.of_nat N <= 0)%Z by (apply Z.div_le_upper_bound; lia).
    nia. }
  destruct Hq as [q Hq].
  pose proof (om_cancel R rO rI radd rmul rsub ropp rdiv rinv Fth N om omi invN HN Hom Hinv Hprim HinvN (n * k)) as Hc.
  transitivity (pow om (n * r) * (pow om (n * k) * pow omi (n * k))); [rewrite Hc; ring|].
  transitivity (pow om (n * r + n * k) * pow omi (n * k));
    [rewrite (pow_add R rO rI radd rmul rsub ropp Rth); ring|].
  replace (n * r + n * k)%nat with (N * (q * n))%nat by nia.
  rewrite (pow_mul R rO rI radd rmul rsub ropp Rth), Hom, (pow_one R rO rI radd rmul rsub ropp Rth). ring.
Qed.

(* ---- band-pass response vector = product, for arbitrary corners (arbitrary c1, c2) ---- *)
Lemma bp_resp_nth c1 c2 m : (m < length c1)%nat -> (m < length c2)%nat ->
  nth m (bp_resp R rI rmul rsub c1 c2) 0 = nth m c1 0 * (1 - nth m c2 0).
Proof using Fth.
  intros H1 H2. unfold bp_resp, resp_lp.
  rewrite (nth_pmul R rO rI radd rmul rsub ropp Rth) by (rewrite ?map_length; assumption).
  rewrite (nth_indep (map _ c2) 0 (1 - 0)) by (now rewrite map_length).
  now rewrite (map_nth (fun v => 1 - v)).
Qed.

Lemma bp_resp_expand (conj : R -> R) c1 c2 ns H1 H2 :
  (forall a b, conj (a * b) = conj a * conj b) -> length c1 = length c2 ->
  fexpand rO conj c1 ns = Some H1 -> fexpand rO conj (resp_lp R rI rsub c2) ns = Some H2 ->
  exists H, fexpand rO conj (bp_resp R rI rmul rsub c1 c2) ns = Some H /\ length H = length H1 /\
    forall m, (m < length H1)%nat -> nth m H 0 = nth m H1 0 * nth m H2 0.
Proof using Fth HN Hom Hinv Hprim HinvN.
  intros Hcm Hlen E1 E2. unfold bp_resp.
  apply (fexpand_pmul R rO rI radd rmul rsub ropp rdiv rinv Fth N om omi invN HN Hom Hinv Hprim HinvN conj
           c1 (resp_lp R rI rsub c2) ns H1 H2 Hcm); try assumption.
  unfold resp_lp. now rewrite map_length.
Qed.

(* ---- dft with sample positions xscale ---- *)
Lemma pow_om_mod a : pow om a = pow om (a mod N).
Proof using Fth HN Hom.
  pose proof (Nat.div_mod a N ltac:(lia)) as Hd. rewrite Hd at 1.
  rewrite (pow_add R rO rI radd rmul rsub ropp Rth), (pow_mul R rO rI radd rmul rsub ropp Rth), Hom,
    (pow_one R rO rI radd rmul rsub ropp Rth). ring.
Qed.

Lemma bin_mul j k : ((j * bin_of N k) mod N)%nat = bin_of N (Z.of_nat j * k).
Proof using HN.
  unfold bin_of.
  pose proof (Z.mod_pos_bound k (Z.of_nat N) ltac:(lia)) as Hb.
  pose proof (Z.mod_pos_bound (Z.of_nat j * k) (Z.of_nat N) ltac:(lia)) as Hb2.
  apply Nat2Z.inj. rewrite Nat2Z.inj_mod. rewrite Nat2Z.inj_mul, !Z2Nat.id by lia.
  apply Z.mul_mod_idemp_r. lia.
Qed.

(* xscale = 0 .. N-1 (the default) gives dft at the requested bins *)
Lemma dft_xk_default x ks :
  dft_xk R rO rI radd rmul om N x (map Z.of_nat (seq 0 N)) ks = DFTB x ks.
Proof using Fth HN Hom.
  unfold dft_xk, dft_bins. apply map_ext. intros k.
  apply (sum_ext R rO rI radd rmul rsub ropp Rth). intros j Hj. f_equal.
  rewrite (nth_indep _ 0%Z (Z.of_nat 0)) by (now rewrite map_length, seq_length).
  rewrite (map_nth Z.of_nat), seq_nth by exact Hj. cbn [Nat.add].
  rewrite (pow_om_mod (j * bin_of N k)). now rewrite bin_mul.
Qed.

End BinsField.

(* ---- string-valued options (no ring structure needed) ---- *)
Lemma zs_eqb_eq a : forall b, zs_eqb a b = true <-> a = b.
Proof.
  induction a as [|x a IH]; intros [|y b]; cbn [zs_eqb]; try (split; [discriminate|congruence]); [tauto|].
  rewrite andb_true_iff, Z.eqb_eq, IH. split; [intros [-> ->]; reflexivity | intros [= -> ->]; tauto].
Qed.

Lemma option_dispatch :
  forall (R : Type) (rO rI : R) (radd rmul rsub : R -> R -> R) (om omi invN : R)
         (cc : nat -> list R -> list R -> list R) (conj : R -> R) (N : nat) (x w c1 c2 ts : list R) (s : list Z),
  (convolve_py R rO cc s_full x w = match convolve_full_with R rO cc x w with Some l => Ret l | None => Raise end) /\
  (convolve_full_with R rO cc x w <> None ->
   convolve_py R rO cc s_same x w = match convolve_same_with R rO cc x w with Some l => Ret l | None => Raise end) /\
  (mode_class s = MOther -> convolve_full_with R rO cc x w <> None -> convolve_py R rO cc s x w = RetNone) /\
  (mode_class s = MFull <-> s = s_full) /\ (mode_class s = MSame <-> s = s_same) /\
  (typ_class s = TBp <-> s = s_bp) /\
  (typ_class s = TBad -> freq_filter_py R rO rI radd rmul rsub om omi invN conj N s c1 c2 ts = Raise) /\
  (typ_class s = TLp -> freq_filter_py R rO rI radd rmul rsub om omi invN conj N s c1 c2 ts =
     match freq_filter R rO rI radd rmul om omi invN conj N (resp_lp R rI rsub c1) ts with Some y => Ret y | None => Raise end) /\
  (typ_class s = THp -> freq_filter_py R rO rI radd rmul rsub om omi invN conj N s c1 c2 ts =
     match freq_filter R rO rI radd rmul om omi invN conj N c1 ts with Some y => Ret y | None => Raise end) /\
  (typ_class s = TBp -> freq_filter_py R rO rI radd rmul rsub om omi invN conj N s c1 c2 ts =
     match freq_filter R rO rI radd rmul om omi invN conj N (bp_resp R rI rmul rsub c1 c2) ts with Some y => Ret y | None => Raise end).
Proof.
  intros. repeat split.
  - intros H. unfold convolve_py. destruct (convolve_full_with R rO cc x w) eqn:E; try reflexivity. exfalso. apply H. reflexivity.
  - intros Hm H. unfold convolve_py. rewrite Hm. destruct (convolve_full_with R rO cc x w); try reflexivity. exfalso. apply H. reflexivity.
  - unfold mode_class. destruct (zs_eqb s s_full) eqn:E; [intros _; now apply zs_eqb_eq|].
    destruct (zs_eqb s s_same); discriminate.
  - intros ->. reflexivity.
  - unfold mode_class. destruct (zs_eqb s s_full) eqn:E; [discriminate|].
    destruct (zs_eqb s s_same) eqn:E2; [intros _; now apply zs_eqb_eq|discriminate].
  - intros ->. reflexivity.
  - unfold typ_class. destruct (zs_eqb s s_bp) eqn:E; [intros _; now apply zs_eqb_eq|].
    destruct (zs_eqb (map lower_ascii s) s_hp || zs_eqb (map lower_ascii s) s_highpass); [discriminate|].
    destruct (zs_eqb (map lower_ascii s) s_lp || zs_eqb (map lower_ascii s) s_lowpass); discriminate.
  - intros ->. reflexivity.
  - intros H. unfold freq_filter_py. now rewrite H.
  - intros H. unfold freq_filter_py. now rewrite H.
  - intros H. unfold freq_filter_py. now rewrite H.
  - intros H. unfold freq_filter_py. now rewrite H.
Qed.

