(* C18 — the cosine soft threshold is monotone from 0 to 1 between its bounds. *)
From Coq Require Import Reals Lra.
From IBL.C18 Require Import ModelR.
Open Scope R_scope.

Section Cosine.
Variables b0 b1 : R.
Hypothesis Hb : b0 < b1.
Set Default Proof Using "Hb".

Definition u (x : R) : R := (x - b0) / (b1 - b0).

Lemma u_b0 : u b0 = 0. Proof. unfold u. field. lra. Qed.
Lemma u_b1 : u b1 = 1. Proof. unfold u. field. lra. Qed.
Lemma u_mono x y : x <= y -> u x <= u y.
Proof.
  intros H. unfold u, Rdiv. apply Rmult_le_compat_r; [|lra].
  left. apply Rinv_0_lt_compat. lra.
Qed.

Lemma cosf_b0 : cosf b0 b1 b0 = 0.
Proof. unfold cosf. fold (u b0). rewrite u_b0, Rmult_0_l, cos_0. lra. Qed.

Lemma cosf_b1 : cosf b0 b1 b1 = 1.
Proof. unfold cosf. fold (u b1). rewrite u_b1, Rmult_1_l, cos_PI. lra. Qed.

Lemma arg_range x : b0 <= x <= b1 -> 0 <= u x * PI <= PI.
Proof.
  intros [H0 H1]. pose proof PI_RGT_0 as HP.
  pose proof (u_mono b0 x H0) as Ha. rewrite u_b0 in Ha.
  pose proof (u_mono x b1 H1) as Hc. rewrite u_b1 in Hc.
  split; [apply Rmult_le_pos; lra|].
  rewrite <- (Rmult_1_l PI) at 2. apply Rmult_le_compat_r; lra.
Qed.

Lemma cosf_mono x y : b0 <= x -> x <= y -> y <= b1 -> cosf b0 b1 x <= cosf b0 b1 y.
Proof.
  intros H0 Hxy H1. unfold cosf. fold (u x) (u y).
  destruct (arg_range x ltac:(lra)) as [Hx0 Hx1]. destruct (arg_range y ltac:(lra)) as [Hy0 Hy1].
  assert (Hle : u x * PI <= u y * PI).
  { apply Rmult_le_compat_r; [pose proof PI_RGT_0; lra | now apply u_mono]. }
  pose proof (cos_decr_1 (u x * PI) (u y * PI) Hx0 Hx1 Hy0 Hy1 Hle). lra.
Qed.

Lemma fc_low x : x <= b0 -> fcn_cosine b0 b1 x = 0.
Proof.
  intros H. unfold fcn_cosine. destruct (Rlt_dec b1 x); [lra|].
  destruct (Rlt_dec x b0); [apply cosf_b0|]. replace x with b0 by lra. apply cosf_b0.
Qed.

Lemma fc_high x : b1 <= x -> fcn_cosine b0 b1 x = 1.
Proof.
  intros H. unfold fcn_cosine. destruct (Rlt_dec b1 x); [apply cosf_b1|].
  destruct (Rlt_dec x b0); [lra|]. replace x with b1 by lra. apply cosf_b1.
Qed.

Lemma fc_mid x : b0 <= x <= b1 -> fcn_cosine b0 b1 x = cosf b0 b1 x.
Proof.
  intros H. unfold fcn_cosine. destruct (Rlt_dec b1 x); [lra|]. destruct (Rlt_dec x b0); [lra|]. reflexivity.
Qed.

Lemma fc_mono x y : x <= y -> fcn_cosine b0 b1 x <= fcn_cosine b0 b1 y.
Proof.
  intros Hxy.
  destruct (Rle_lt_dec x b0) as [Hx|Hx].
  - rewrite (fc_low x Hx). destruct (Rle_lt_dec y b0) as [Hy|Hy]; [rewrite (fc_low y Hy); lra|].
    destruct (Rle_lt_dec b1 y) as [Hy1|Hy1]; [rewrite (fc_high y Hy1); lra|].
    rewrite (fc_mid y) by lra. rewrite <- cosf_b0. apply cosf_mono; lra.
  - destruct (Rle_lt_dec b1 y) as [Hy1|Hy1].
    + rewrite (fc_high y Hy1). destruct (Rle_lt_dec b1 x) as [Hx1|Hx1]; [rewrite (fc_high x Hx1); lra|].
      rewrite (fc_mid x) by lra. rewrite <- cosf_b1. apply cosf_mono; lra.
    + rewrite (fc_mid x), (fc_mid y) by lra. apply cosf_mono; lra.
Qed.

Lemma fc_range x : 0 <= fcn_cosine b0 b1 x <= 1.
Proof.
  split.
  - rewrite <- (fc_low b0) by lra. destruct (Rle_lt_dec b0 x); [apply fc_mono; lra|].
    rewrite (fc_low x), (fc_low b0); lra.
  - rewrite <- (fc_high b1) by lra. destruct (Rle_lt_dec x b1); [apply fc_mono; lra|].
    rewrite (fc_high x), (fc_high b1); lra.
Qed.
End Cosine.
