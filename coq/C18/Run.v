(* C18 — flat-integer interface of the model for the correspondence check.
   input (first entry = operation):
     [1; n]                                   ns_optim_fft(n)
     [2; nsx; nsw; x_0..x_{nsx-1}; w_0..]     convolve(x, w) 'full' and 'same' on integer sequences
     [3; ns; one_sided]                       fscale bin numbers
     [4; n; re_0; im_0; ...]                  freduce of a length-n complex (Gaussian integer) vector
     [5; ns; m; re_0; im_0; ...]              fexpand(x, ns) of a length-m vector
     [6; ns; sp; sq; bd; b0n; b1n]            expanded taper codes of _freq_filter (si = sp/sq, b = bn/bd)
     [7; ns; is_complex]                      dft: number of output coefficients
     [8; b0n; b1n; xn]                        fcn_cosine taper code at x (integers over a common denominator)
     [11; 0; chars..] / [11; 1; chars..]      class of a filter `typ` string / of a convolve `mode` string (ASCII codes)
     [12; nsx; nsw; mlen; mode..; x..; w..]   convolve(x, w, mode=<string>): 1::list, [2] = returns None, [0] = raises
     [10; ns; is_complex; m]                  dft with kscale of m entries (m < 0: kscale=None): number of coefficients
     [9; dx; dw]                              convolve: result dtype (0 float32, 1 float64, 2 integer) of operand dtypes
   output: see `run` (options as 0 / 1 :: payload, lists length-prefixed). *)
From Coq Require Import ZArith List Bool.
From IBL.lib Require Import PyInt RunLib.
From IBL.C18 Require Import Model.
Import ListNotations.
Open Scope Z_scope.

Definition zcirc := circ_conv Z 0 Z.add Z.mul.
Definition zconvolve_full := convolve_full_with Z 0 zcirc.
Definition zconvolve_same := convolve_same_with Z 0 zcirc.

Fixpoint pairs_of (l : list Z) : list (Z * Z) :=
  match l with a :: b :: t => (a, b) :: pairs_of t | _ => [] end.
Definition enc_pair (p : Z * Z) : list Z := [fst p; snd p].
Definition enc_triple (t : Z * Z * Z) : list Z := let '(a, b, c) := t in [a; b; c].
Definition gconj (p : Z * Z) : Z * Z := (fst p, - snd p).

Definition dec_dtype (c : Z) : dtype := if c =? 0 then F32 else if c =? 1 then F64 else IntT.
Definition enc_dtype (d : dtype) : Z := match d with F32 => 0 | F64 => 1 | IntT => 2 end.

Definition run (inp : list Z) : list Z :=
  match inp with
  | [1; n] => enc_option (fun m => [m]) (ns_optim n)
  | 2 :: nsx :: nsw :: r =>
      let x := firstn (Z.to_nat nsx) r in
      let w := firstn (Z.to_nat nsw) (skipn (Z.to_nat nsx) r) in
      enc_option enc_zlist (zconvolve_full x w) ++ enc_option enc_zlist (zconvolve_same x w)
  | [3; ns; os] => enc_zlist (fscale_bins ns (os =? 1))
  | 4 :: n :: r =>
      enc_option (enc_list enc_pair) (freduce (firstn (Z.to_nat n) (pairs_of r)))
  | 5 :: ns :: m :: r =>
      enc_option (enc_list enc_pair) (fexpand (0, 0) gconj (firstn (Z.to_nat m) (pairs_of r)) ns)
  | [6; ns; sp; sq; bd; b0n; b1n] =>
      enc_option (enc_list enc_triple) (freq_response ns sp sq bd b0n b1n)
  | [7; ns; c] => [dft_nk ns (c =? 1)]
  | [8; b0n; b1n; xn] => enc_triple (taper_code b0n b1n xn)
  | 11 :: 0 :: str => [match typ_class str with THp => 0 | TLp => 1 | TBp => 2 | TBad => 3 end]
  | 11 :: 1 :: str => [match mode_class str with MFull => 0 | MSame => 1 | MOther => 2 end]
  | 12 :: nsx :: nsw :: mlen :: r =>
      let mode := firstn (Z.to_nat mlen) r in
      let r' := skipn (Z.to_nat mlen) r in
      let x := firstn (Z.to_nat nsx) r' in
      let w := firstn (Z.to_nat nsw) (skipn (Z.to_nat nsx) r') in
      match convolve_py Z 0 zcirc mode x w with
      | Ret l => 1 :: enc_zlist l
      | RetNone => [2]
      | Raise => [0]
      end
  | [10; ns; c; m] => [dft_nk_k ns (c =? 1) (if m <? 0 then None else Some m)]
  | [9; dx; dw] => [enc_dtype (conv_result_dtype (dec_dtype dx) (dec_dtype dw))]
  | _ => [-999]
  end.

Definition mismatches := mismatches_of run.
