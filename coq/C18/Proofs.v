(* C18 — lemmas about the integer / list layer of the model. *)
From Coq Require Import ZArith List Bool Lia.
From IBL.lib Require Import PyInt.
From IBL.C18 Require Import Model.
Import ListNotations.
Open Scope Z_scope.

(* ------------------------------------------------------------------ *)
(* dft: number of coefficients for real input = length of the half spectrum *)
Lemma dft_nk_real ns : 0 <= ns -> dft_nk ns false = ns / 2 + 1.
Proof.
  intros H. unfold dft_nk. apply cdiv_unique; [lia|].
  pose proof (Z.div_mod ns 2 ltac:(lia)). pose proof (Z.mod_pos_bound ns 2 ltac:(lia)). lia.
Qed.

(* ------------------------------------------------------------------ *)
(* ns_optim *)
Definition B_limit : Z := 14155776.      (* largest table entry below 3^15 *)

Fixpoint ssorted (l : list Z) : bool :=
  match l with [] => true | y :: t => forallb (fun x => y <? x) t && ssorted t end.

Lemma filter_nil_above (t : list Z) y v :
  (forall x, In x t -> y < x) -> v <= y -> filter (fun x => x <? v) t = [].
Proof.
  intros H Hv. induction t as [|z t IH]; [reflexivity|].
  cbn [filter]. pose proof (H z (or_introl eq_refl)).
  destruct (z <? v) eqn:E; [lia|]. apply IH. intros x Hx. apply H. now right.
Qed.

Lemma search_spec l : ssorted l = true -> forall v m,
  nth_error l (searchsorted_left l v) = Some m ->
  v <= m /\ In m l /\ forall x, In x l -> v <= x -> m <= x.
Proof.
  induction l as [|y t IH]; intros Hs v m H.
  - discriminate.
  - cbn [ssorted] in Hs. apply andb_true_iff in Hs as [Hy Ht].
    rewrite forallb_forall in Hy.
    unfold searchsorted_left in *. cbn [filter] in H.
    destruct (y <? v) eqn:E.
    + cbn [length nth_error] in H. destruct (IH Ht v m H) as (H1 & H2 & H3).
      split; [exact H1|]. split; [now right|].
      intros x [<-|Hx] Hv; [lia|]. now apply H3.
    + assert (Hnil : filter (fun x => x <? v) t = []).
      { apply filter_nil_above with (y := y); [|lia]. intros x Hx. specialize (Hy x Hx). lia. }
      rewrite Hnil in H. cbn in H. injection H as <-.
      split; [lia|]. split; [now left|].
      intros x [<-|Hx] Hv; [lia|]. specialize (Hy x Hx). lia.
Qed.

Lemma filter_len_le {A} (f : A -> bool) l : (length (filter f l) <= length l)%nat.
Proof. induction l as [|a l IH]; cbn [filter length]; [lia|]. destruct (f a); cbn [length]; lia. Qed.

Lemma search_total l v b : In b l -> v <= b ->
  exists m, nth_error l (searchsorted_left l v) = Some m.
Proof.
  intros Hb Hv.
  assert (Hlt : (searchsorted_left l v < length l)%nat).
  { unfold searchsorted_left. induction l as [|y t IH]; [destruct Hb|].
    cbn [filter]. destruct Hb as [->|Hb].
    - destruct (b <? v) eqn:E; [lia|]. cbn [length].
      pose proof (filter_len_le (fun x => x <? v) t). lia.
    - specialize (IH Hb). destruct (y <? v); cbn [length]; lia. }
  destruct (nth_error l (searchsorted_left l v)) eqn:E; [eauto|].
  apply nth_error_None in E. lia.
Qed.

Lemma table_sorted : ssorted sz_table = true.
Proof. vm_compute. reflexivity. Qed.

Lemma table_sub_pow :
  forallb (fun x => existsb (fun p => x =? p) pow_table) sz_table = true.
Proof. vm_compute. reflexivity. Qed.

Lemma pow_sub_table :
  forallb (fun p => existsb (fun x => x =? p) sz_table) pow_table = true.
Proof. vm_compute. reflexivity. Qed.

Lemma B_in_table : existsb (fun x => x =? B_limit) sz_table = true.
Proof. vm_compute. reflexivity. Qed.

Lemma in_pow_table x :
  In x pow_table <-> exists a b, 0 <= a < 25 /\ 0 <= b < 15 /\ x = 2 ^ a * 3 ^ b.
Proof.
  unfold pow_table. rewrite in_flat_map. split.
  - intros (b & Hb & Hx). apply in_map_iff in Hx as (a & <- & Ha).
    apply in_zrange in Hb, Ha. exists a, b. cbn in *. lia.
  - intros (a & b & Ha & Hb & ->). exists b. split; [apply in_zrange; cbn; lia|].
    apply in_map_iff. exists a. split; [reflexivity|apply in_zrange; cbn; lia].
Qed.

Opaque sz_table pow_table.

Lemma in_table x :
  In x sz_table <-> exists a b, 0 <= a < 25 /\ 0 <= b < 15 /\ x = 2 ^ a * 3 ^ b.
Proof.
  rewrite <- in_pow_table. split; intros H.
  - pose proof table_sub_pow as T. rewrite forallb_forall in T. specialize (T x H).
    apply existsb_exists in T as (p & Hp & E). apply Z.eqb_eq in E. subst. exact Hp.
  - pose proof pow_sub_table as T. rewrite forallb_forall in T. specialize (T x H).
    apply existsb_exists in T as (p & Hp & E). apply Z.eqb_eq in E. subst. exact Hp.
Qed.

Lemma smooth_small a b : 0 <= a -> 0 <= b -> 2 ^ a * 3 ^ b < 3 ^ 15 -> a < 25 /\ b < 15.
Proof.
  intros Ha Hb H.
  assert (H2 : 1 <= 2 ^ a) by (apply (Z.pow_le_mono_r 2 0 a); lia).
  assert (H3 : 1 <= 3 ^ b) by (apply (Z.pow_le_mono_r 3 0 b); lia).
  split.
  - apply (Z.pow_lt_mono_r_iff 2); [lia|lia|].
    assert (3 ^ 15 < 2 ^ 25) by (vm_compute; reflexivity). nia.
  - apply (Z.pow_lt_mono_r_iff 3); [lia|lia|]. nia.
Qed.

Lemma ns_optim_smallest n : 1 <= n <= B_limit ->
  exists m, ns_optim n = Some m /\ n <= m /\
    (exists a b, 0 <= a /\ 0 <= b /\ m = 2 ^ a * 3 ^ b) /\
    (forall a b, 0 <= a -> 0 <= b -> n <= 2 ^ a * 3 ^ b -> m <= 2 ^ a * 3 ^ b).
Proof.
  intros Hn.
  assert (HB : In B_limit sz_table).
  { pose proof B_in_table as T. apply existsb_exists in T as (x & Hx & E).
    apply Z.eqb_eq in E. subst. exact Hx. }
  destruct (search_total sz_table n B_limit HB ltac:(lia)) as [m Hm].
  exists m. split; [exact Hm|].
  destruct (search_spec sz_table table_sorted n m Hm) as (H1 & H2 & H3).
  split; [exact H1|]. split.
  - destruct (proj1 (in_table m) H2) as (a & b & Ha & Hb & E). exists a, b. lia.
  - intros a b Ha Hb Hs.
    pose proof (H3 B_limit HB ltac:(lia)) as HmB.
    destruct (Z_lt_le_dec (2 ^ a * 3 ^ b) (3 ^ 15)) as [Hlt|Hge].
    + destruct (smooth_small a b Ha Hb Hlt) as [Ha' Hb'].
      apply H3; [|exact Hs]. apply (proj2 (in_table _)). exists a, b. lia.
    + assert (B_limit < 3 ^ 15) by (vm_compute; reflexivity). lia.
Qed.

(* the bound is tight: just above it the table misses 3^15 *)
Lemma ns_optim_bound_tight :
  exists m, ns_optim (B_limit + 1) = Some m /\ 3 ^ 15 < m /\ B_limit + 1 <= 3 ^ 15.
Proof. eexists. split; [vm_compute; reflexivity|]. split; vm_compute; congruence || reflexivity. Qed.

Lemma ns_optim_ge n m : ns_optim n = Some m -> n <= m.
Proof. intros H. unfold ns_optim in H. exact (proj1 (search_spec sz_table table_sorted n m H)). Qed.

Definition table_max : Z := 80244904034304.    (* 2^24 * 3^14 *)

Lemma ns_optim_some n : n <= table_max -> exists m, ns_optim n = Some m /\ n <= m.
Proof.
  intros Hn.
  assert (HB : In table_max sz_table).
  { apply (proj2 (in_table _)). exists 24, 14. repeat split; try lia. }
  destruct (search_total sz_table n table_max HB Hn) as [m Hm].
  exists m. split; [exact Hm|]. apply ns_optim_ge. exact Hm.
Qed.

(* ------------------------------------------------------------------ *)
(* list helpers *)
Lemma nth_firstn_lt {A} n : forall (l : list A) i d, (i < n)%nat -> nth i (firstn n l) d = nth i l d.
Proof.
  induction n as [|n IH]; intros l i d Hi; [lia|].
  destruct l as [|a l]; [reflexivity|]. destruct i as [|i]; [reflexivity|].
  cbn [firstn nth]. apply IH. lia.
Qed.

Lemma nth_skipn_add {A} s : forall (l : list A) i d, nth i (skipn s l) d = nth (s + i) l d.
Proof.
  induction s as [|s IH]; intros l i d; [reflexivity|].
  destruct l as [|a l]; [destruct i; reflexivity|]. cbn [skipn Nat.add nth]. apply IH.
Qed.

(* same-mode crop arithmetic *)
Lemma same_first_eq nsw : 1 <= nsw -> same_first nsw = (nsw - 1) / 2.
Proof.
  intros H. unfold same_first.
  pose proof (Z.div_mod nsw 2 ltac:(lia)). pose proof (Z.mod_pos_bound nsw 2 ltac:(lia)).
  pose proof (Z.div_mod (nsw + 1) 2 ltac:(lia)). pose proof (Z.mod_pos_bound (nsw + 1) 2 ltac:(lia)).
  pose proof (Z.div_mod (nsw - 1) 2 ltac:(lia)). pose proof (Z.mod_pos_bound (nsw - 1) 2 ltac:(lia)).
  lia.
Qed.

Lemma same_first_last nsw : 1 <= nsw -> same_first nsw + same_last nsw = nsw /\ 0 <= same_first nsw /\ 1 <= same_last nsw.
Proof.
  intros H. unfold same_first, same_last, cdiv.
  pose proof (Z.div_mod nsw 2 ltac:(lia)). pose proof (Z.mod_pos_bound nsw 2 ltac:(lia)).
  pose proof (Z.div_mod (nsw + 1) 2 ltac:(lia)). pose proof (Z.mod_pos_bound (nsw + 1) 2 ltac:(lia)).
  pose proof (Z.div_mod (- nsw) 2 ltac:(lia)). pose proof (Z.mod_pos_bound (- nsw) 2 ltac:(lia)).
  lia.
Qed.

(* xw[first:-last] on a list of length nsx + nsw is entries first .. first+nsx-1 *)
Lemma same_crop {A} (xw : list A) (nsx nsw : nat) d :
  (1 <= nsw)%nat -> length xw = (nsx + nsw)%nat ->
  let s := pyslice xw (same_first (Z.of_nat nsw)) (- same_last (Z.of_nat nsw)) in
  length s = nsx /\
  forall i, (i < nsx)%nat -> nth i s d = nth (i + Z.to_nat ((Z.of_nat nsw - 1) / 2)) xw d.
Proof.
  intros Hw Hlen s. subst s. unfold pyslice, norm_idx. rewrite Hlen.
  destruct (same_first_last (Z.of_nat nsw) ltac:(lia)) as (Hsum & Hf & Hl).
  rewrite <- same_first_eq by lia.
  set (f := same_first (Z.of_nat nsw)) in *. set (la := same_last (Z.of_nat nsw)) in *.
  destruct (f <? 0) eqn:E1; [lia|]. destruct (- la <? 0) eqn:E2; [|lia].
  replace (Z.max (- la + Z.of_nat (nsx + nsw)) 0 - Z.min f (Z.of_nat (nsx + nsw))) with (Z.of_nat nsx) by lia.
  replace (Z.min f (Z.of_nat (nsx + nsw))) with f by lia.
  rewrite Nat2Z.id. split.
  - rewrite firstn_length, skipn_length, Hlen. lia.
  - intros i Hi. rewrite nth_firstn_lt by exact Hi. rewrite nth_skipn_add. f_equal. lia.
Qed.
