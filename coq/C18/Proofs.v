(* C18 — lemmas about the integer / list layer of the model. *)
From Coq Require Import ZArith List Bool Lia.
From IBL.lib Require Import PyInt.
From IBL.C18 Require Import Model.
Import ListNotations.
Open Scope Z_scope.

(* dft: number of coefficients for real input = length of the half spectrum *)
Lemma dft_nk_real ns : 0 <= ns -> dft_nk ns false = ns / 2 + 1.
Proof.
  intros H. unfold dft_nk. apply cdiv_unique; [lia|].
  pose proof (Z.div_mod ns 2 ltac:(lia)). pose proof (Z.mod_pos_bound ns 2 ltac:(lia)). lia.
Qed.
