(* C18 — property theorems.  Only statements closed by `exact <lemma>` (or a 1-3
   line wrapper) and the Print Assumptions the check collects.
   Ring / field theorems quantify over an arbitrary carrier R with its
   ring_theory / field_theory, so they cover the reals and the complex numbers. *)
From Coq Require Import ZArith List Bool Lia Ring Field.
From IBL.lib Require Import PyInt.
From Coq Require Import Reals QArith.
From IBL.C18 Require Import Model Sums Proofs Conv Half Filter Rfft Bins ModelR ProofsR Inst.
Import ListNotations.
Open Scope Z_scope.

(* ---- ns_optim_fft ------------------------------------------------------ *)
(* For 1 <= n <= 14155776 (the largest table entry below 3^15, the first 3-smooth
   number the 25 x 15 table misses) the result is the least 2^a 3^b >= n. *)
Theorem C18_ns_optim_smallest : forall n, 1 <= n <= 14155776 ->
  exists m, ns_optim n = Some m /\ n <= m /\
    (exists a b, 0 <= a /\ 0 <= b /\ m = 2 ^ a * 3 ^ b) /\
    (forall a b, 0 <= a -> 0 <= b -> n <= 2 ^ a * 3 ^ b -> m <= 2 ^ a * 3 ^ b).
Proof. exact ns_optim_smallest. Qed.
Print Assumptions C18_ns_optim_smallest.

(* The bound is the table's documented limit: one above it the answer skips 3^15. *)
Theorem C18_ns_optim_bound_tight :
  exists m, ns_optim (14155776 + 1) = Some m /\ 3 ^ 15 < m /\ 14155776 + 1 <= 3 ^ 15.
Proof. exact ns_optim_bound_tight. Qed.
Print Assumptions C18_ns_optim_bound_tight.

(* Up to the end of the table (2^24 3^14) the helper returns a size not below its
   argument; convolve therefore never truncates. *)
Theorem C18_ns_optim_total : forall n, n <= 80244904034304 ->
  exists m, ns_optim n = Some m /\ n <= m.
Proof. exact ns_optim_some. Qed.
Print Assumptions C18_ns_optim_total.

(* ---- convolve ---------------------------------------------------------- *)
(* Circular convolution theorem, every N >= 1, any field with a primitive N-th
   root of unity om (omi = 1/om, invN = 1/N):
   ifft(fft(a) * fft(b))[k] = sum_{j<N} a[j] * b[(k - j) mod N]. *)
Theorem C18_circular_convolution_theorem :
  forall (R : Type) (rO rI : R) (radd rmul rsub : R -> R -> R) (ropp : R -> R)
         (rdiv : R -> R -> R) (rinv : R -> R),
  field_theory rO rI radd rmul rsub ropp rdiv rinv (@eq R) ->
  forall (N : nat) (om omi invN : R),
  (0 < N)%nat ->
  rpow R rI rmul om N = rI ->
  rmul om omi = rI ->
  (forall d, (0 < d < N)%nat -> rpow R rI rmul om d <> rI) ->
  rmul invN (rsum R rO radd N (fun _ => rI)) = rI ->
  forall (a b : list R) (k : nat), (k < N)%nat ->
  nth k (spectral_conv R rO rI radd rmul om omi invN N a b) rO =
  circ_conv_at R rO radd rmul N a b k.
Proof. exact conv_theorem. Qed.
Print Assumptions C18_circular_convolution_theorem.

(* The path convolve really takes, irfft(rfft(a) * rfft(b), n=N) (half spectra of
   N div 2 + 1 bins; irfft drops the imaginary part of bin 0 and, N even, of bin
   N/2, mirrors by conjugation), equals ifft(fft(a) * fft(b)) for inputs fixed by
   the conjugation (real signals), for EVERY N >= 1 — odd padded sizes included.
   conj is a ring morphism with conj om = 1/om; half = 1/2. *)
Theorem C18_rfft_path_equals_full :
  forall (R : Type) (rO rI : R) (radd rmul rsub : R -> R -> R) (ropp : R -> R)
         (rdiv : R -> R -> R) (rinv : R -> R),
  field_theory rO rI radd rmul rsub ropp rdiv rinv (@eq R) ->
  forall (N : nat) (om omi invN : R),
  (0 < N)%nat ->
  rpow R rI rmul om N = rI ->
  rmul om omi = rI ->
  (forall d, (0 < d < N)%nat -> rpow R rI rmul om d <> rI) ->
  rmul invN (rsum R rO radd N (fun _ => rI)) = rI ->
  forall (conj : R -> R) (half : R),
  (forall a b, conj (radd a b) = radd (conj a) (conj b)) ->
  (forall a b, conj (rmul a b) = rmul (conj a) (conj b)) ->
  conj rI = rI -> conj om = omi -> rmul half (radd rI rI) = rI ->
  forall a b : list R,
  (forall j, conj (getr R rO a j) = getr R rO a j) ->
  (forall j, conj (getr R rO b j) = getr R rO b j) ->
  rfft_conv R rO rI radd rmul om omi invN half conj N a b =
  spectral_conv R rO rI radd rmul om omi invN N a b.
Proof. exact rfft_conv_eq. Qed.
Print Assumptions C18_rfft_path_equals_full.

(* convolve(mode='full') through the rfft/irfft path, all nsx, nsw, real inputs:
   when ns_optim(nsx+nsw) = N (with a primitive N-th root available) the result has
   nsx + nsw entries and entry k is the direct convolution. *)
Theorem C18_fft_conv_full_rfft :
  forall (R : Type) (rO rI : R) (radd rmul rsub : R -> R -> R) (ropp : R -> R)
         (rdiv : R -> R -> R) (rinv : R -> R),
  field_theory rO rI radd rmul rsub ropp rdiv rinv (@eq R) ->
  forall (N : nat) (om omi invN : R),
  (0 < N)%nat ->
  rpow R rI rmul om N = rI ->
  rmul om omi = rI ->
  (forall d, (0 < d < N)%nat -> rpow R rI rmul om d <> rI) ->
  rmul invN (rsum R rO radd N (fun _ => rI)) = rI ->
  forall (conj : R -> R) (half : R),
  (forall a b, conj (radd a b) = radd (conj a) (conj b)) ->
  (forall a b, conj (rmul a b) = rmul (conj a) (conj b)) ->
  conj rI = rI -> conj om = omi -> rmul half (radd rI rI) = rI ->
  forall x w l : list R,
  (forall j, conj (getr R rO x j) = getr R rO x j) ->
  (forall j, conj (getr R rO w j) = getr R rO w j) ->
  ns_optim (Z.of_nat (length x + length w)) = Some (Z.of_nat N) ->
  convolve_full_with R rO (rfft_conv R rO rI radd rmul om omi invN half conj) x w = Some l ->
  length l = (length x + length w)%nat /\
  forall k, (k < length x + length w)%nat -> nth k l rO = conv_direct_at R rO radd rmul x w k.
Proof. exact convolve_rfft_spec. Qed.
Print Assumptions C18_fft_conv_full_rfft.

(* Index layer, all nsx, nsw (unbounded), any commutative ring: for ANY length-ns
   circular product cc that computes the circular sums (spectral_conv does, by
   the theorem above), convolve(mode='full') has nsx + nsw entries, entry k equals
   the direct convolution sum_{j<=k} x[j] w[k-j], and the entries from
   nsx + nsw - 1 on (the one extra trailing entry) are 0. *)
Theorem C18_fft_conv_full :
  forall (R : Type) (rO rI : R) (radd rmul rsub : R -> R -> R) (ropp : R -> R),
  ring_theory rO rI radd rmul rsub ropp (@eq R) ->
  forall (cc : nat -> list R -> list R -> list R) (x w : list R),
  (forall N a b k, (k < N)%nat -> nth k (cc N a b) rO = circ_conv_at R rO radd rmul N a b k) ->
  (forall N a b, length (cc N a b) = N) ->
  forall l, convolve_full_with R rO cc x w = Some l ->
  length l = (length x + length w)%nat /\
  (forall k, (k < length x + length w)%nat -> nth k l rO = conv_direct_at R rO radd rmul x w k) /\
  (forall k, (length x + length w <= k + 1)%nat -> conv_direct_at R rO radd rmul x w k = rO).
Proof.
  intros R rO rI radd rmul rsub ropp Rth cc x w Hcc Hlen l H.
  destruct (convolve_full_spec R rO rI radd rmul rsub ropp Rth cc x w Hcc Hlen l H) as [H1 H2].
  split; [exact H1|]. split; [exact H2|]. exact (direct_tail_zero R rO rI radd rmul rsub ropp Rth x w).
Qed.
Print Assumptions C18_fft_conv_full.

(* The executable circular product used when the model is run satisfies the
   hypotheses of C18_fft_conv_full. *)
Theorem C18_circ_conv_is_circular :
  forall (R : Type) (rO : R) (radd rmul : R -> R -> R) N a b,
  length (circ_conv R rO radd rmul N a b) = N /\
  forall k, (k < N)%nat -> nth k (circ_conv R rO radd rmul N a b) rO = circ_conv_at R rO radd rmul N a b k.
Proof.
  intros. split; [unfold circ_conv; now rewrite map_length, seq_length|].
  intros k Hk. unfold circ_conv. now rewrite nth_map_seq.
Qed.
Print Assumptions C18_circ_conv_is_circular.

(* dtype promotion of convolve: the result is single precision exactly when both
   operands are float32; an integer operand behaves like float64; the rule is
   symmetric (neither operand is cast to the other's type).  The value theorems
   above take x and w in ONE carrier R: integer and float32 samples embed exactly,
   i.e. the result is computed in the promoted type, no operand is truncated. *)
Theorem C18_convolve_dtype : forall dx dw,
  (conv_result_dtype dx dw = F32 <-> dx = F32 /\ dw = F32) /\
  (conv_result_dtype dx dw <> F32 -> conv_result_dtype dx dw = F64) /\
  conv_result_dtype dx dw = conv_result_dtype dw dx /\
  conv_result_dtype IntT dw = conv_result_dtype F64 dw.
Proof.
  intros dx dw. destruct dx, dw; cbn; repeat split; intros; try congruence; try tauto;
    match goal with H : _ /\ _ |- _ => destruct H; congruence | _ => idtac end.
Qed.
Print Assumptions C18_convolve_dtype.

(* mode='same', both parities of nsw, nsw > nsx included: nsx entries, entry i is
   entry i + (nsw-1) div 2 of the full result (SciPy's centring on the first argument). *)
Theorem C18_fft_conv_same :
  forall (R : Type) (rO : R) (cc : nat -> list R -> list R -> list R) (x w xw : list R),
  (1 <= length w)%nat ->
  convolve_full_with R rO cc x w = Some xw -> length xw = (length x + length w)%nat ->
  exists s, convolve_same_with R rO cc x w = Some s /\ length s = length x /\
    forall i, (i < length x)%nat ->
      nth i s rO = nth (i + Z.to_nat ((Z.of_nat (length w) - 1) / 2)) xw rO.
Proof.
  intros R rO cc x w xw Hw Hfull Hlen. unfold convolve_same_with. rewrite Hfull.
  eexists. split; [reflexivity|]. exact (same_crop xw (length x) (length w) rO Hw Hlen).
Qed.
Print Assumptions C18_fft_conv_same.

(* ---- explicit DFT ------------------------------------------------------ *)
Theorem C18_dft_lengths : forall ns, 0 <= ns ->
  dft_nk ns false = ns / 2 + 1 /\ dft_nk ns true = ns.
Proof. intros ns H. split; [exact (dft_nk_real ns H) | reflexivity]. Qed.
Print Assumptions C18_dft_lengths.

(* The inverse transform undoes the forward transform (same hypotheses as the
   convolution theorem). *)
Theorem C18_idft_dft :
  forall (R : Type) (rO rI : R) (radd rmul rsub : R -> R -> R) (ropp : R -> R)
         (rdiv : R -> R -> R) (rinv : R -> R),
  field_theory rO rI radd rmul rsub ropp rdiv rinv (@eq R) ->
  forall (N : nat) (om omi invN : R),
  (0 < N)%nat ->
  rpow R rI rmul om N = rI ->
  rmul om omi = rI ->
  (forall d, (0 < d < N)%nat -> rpow R rI rmul om d <> rI) ->
  rmul invN (rsum R rO radd N (fun _ => rI)) = rI ->
  forall (x : list R) (k : nat), (k < N)%nat ->
  nth k (idft R rO rI radd rmul omi invN N (dft R rO rI radd rmul om N x)) rO = getr R rO x k.
Proof. exact idft_dft. Qed.
Print Assumptions C18_idft_dft.


(* ---- fscale ------------------------------------------------------------ *)
(* bin numbers (frequency = bin / ns / si): two-sided = 0..ns/2 then -(ceil(ns/2)-1)..-1,
   i.e. the DFT bin frequencies with Nyquist counted positive; one-sided = 0..ns/2. *)
Theorem C18_fscale_bins : forall ns, 1 <= ns ->
  (length (fscale_bins ns false) = Z.to_nat ns /\
   forall i, 0 <= i < ns ->
     nth (Z.to_nat i) (fscale_bins ns false) 0 = if i <=? ns / 2 then i else i - ns) /\
  (length (fscale_bins ns true) = Z.to_nat (ns / 2 + 1) /\
   forall i, 0 <= i <= ns / 2 -> nth (Z.to_nat i) (fscale_bins ns true) 0 = i).
Proof. intros ns H. split; [exact (fscale_two_sided ns H) | exact (fscale_one_sided ns H)]. Qed.
Print Assumptions C18_fscale_bins.

(* ---- freduce / fexpand ------------------------------------------------- *)
(* Any carrier A with a conjugation.  (1) On a Hermitian spectrum of any length
   n >= 1 (X[(n-k) mod n] = conj X[k]; both parities) expansion of the reduction
   gives the spectrum back.  (2) For every ns >= 1 and every half spectrum of
   ns div 2 + 1 entries, reduction of the expansion (which has ns entries) gives
   it back. *)
Theorem C18_freduce_fexpand_inverse :
  forall (A : Type) (a0 : A) (conj : A -> A),
  (forall X : list A, (1 <= length X)%nat ->
     (forall k, (k < length X)%nat -> nth ((length X - k) mod length X) X a0 = conj (nth k X a0)) ->
     exists H, freduce X = Some H /\ Z.of_nat (length H) = Z.of_nat (length X) / 2 + 1 /\
               fexpand a0 conj H (Z.of_nat (length X)) = Some X) /\
  (forall (H : list A) ns, 1 <= ns -> Z.of_nat (length H) = ns / 2 + 1 ->
     exists E, fexpand a0 conj H ns = Some E /\ Z.of_nat (length E) = ns /\ freduce E = Some H).
Proof.
  intros A a0 conj. split; [exact (fexpand_freduce A a0 conj) | exact (freduce_fexpand A a0 conj)].
Qed.
Print Assumptions C18_freduce_fexpand_inverse.

(* ---- lp / hp / bp ------------------------------------------------------ *)
(* For every length N >= 1, every response vector c of N div 2 + 1 entries (the
   taper values stay abstract), any conjugation commuting with v |-> 1 - v:
   low-pass (response 1 - c) plus high-pass (response c) of ts is ts.  (Stated
   before np.real, which is additive.) *)
Theorem C18_lp_plus_hp_identity :
  forall (R : Type) (rO rI : R) (radd rmul rsub : R -> R -> R) (ropp : R -> R)
         (rdiv : R -> R -> R) (rinv : R -> R),
  field_theory rO rI radd rmul rsub ropp rdiv rinv (@eq R) ->
  forall (N : nat) (om omi invN : R),
  (0 < N)%nat ->
  rpow R rI rmul om N = rI ->
  rmul om omi = rI ->
  (forall d, (0 < d < N)%nat -> rpow R rI rmul om d <> rI) ->
  rmul invN (rsum R rO radd N (fun _ => rI)) = rI ->
  forall (conj : R -> R), (forall v, conj (rsub rI v) = rsub rI (conj v)) ->
  forall (c ts a b : list R),
  Z.of_nat (length c) = Z.of_nat N / 2 + 1 ->
  freq_filter R rO rI radd rmul om omi invN conj N (resp_lp R rI rsub c) ts = Some a ->
  freq_filter R rO rI radd rmul om omi invN conj N c ts = Some b ->
  forall k, (k < N)%nat -> radd (nth k a rO) (nth k b rO) = getr R rO ts k.
Proof. exact lp_plus_hp. Qed.
Print Assumptions C18_lp_plus_hp_identity.

(* The forward transform undoes the inverse transform (same hypotheses). *)
Theorem C18_dft_idft :
  forall (R : Type) (rO rI : R) (radd rmul rsub : R -> R -> R) (ropp : R -> R)
         (rdiv : R -> R -> R) (rinv : R -> R),
  field_theory rO rI radd rmul rsub ropp rdiv rinv (@eq R) ->
  forall (N : nat) (om omi invN : R),
  (0 < N)%nat ->
  rpow R rI rmul om N = rI ->
  rmul om omi = rI ->
  (forall d, (0 < d < N)%nat -> rpow R rI rmul om d <> rI) ->
  rmul invN (rsum R rO radd N (fun _ => rI)) = rI ->
  forall (X : list R) (k : nat), (k < N)%nat ->
  nth k (dft R rO rI radd rmul om N (idft R rO rI radd rmul omi invN N X)) rO = getr R rO X k.
Proof. intros R rO rI radd rmul rsub ropp rdiv rinv Fth N om omi invN HN Hom Hinv Hprim HinvN.
  exact (dft_idft R rO rI radd rmul rsub ropp rdiv rinv Fth N om omi invN HN Hom Hinv Hprim HinvN). Qed.
Print Assumptions C18_dft_idft.

(* Band-pass is the product: for every N and any two response vectors c1 (high-pass
   of b[0:2]) and c2 (low-pass of b[2:4]) of N div 2 + 1 entries and a multiplicative
   conjugation, the filter with response c1 * c2 (what bp builds) equals the filter
   c2 applied to the output of the filter c1.  (Before np.real; for real data and
   real responses the intermediate result is real.) *)
Theorem C18_bp_is_product :
  forall (R : Type) (rO rI : R) (radd rmul rsub : R -> R -> R) (ropp : R -> R)
         (rdiv : R -> R -> R) (rinv : R -> R),
  field_theory rO rI radd rmul rsub ropp rdiv rinv (@eq R) ->
  forall (N : nat) (om omi invN : R),
  (0 < N)%nat ->
  rpow R rI rmul om N = rI ->
  rmul om omi = rI ->
  (forall d, (0 < d < N)%nat -> rpow R rI rmul om d <> rI) ->
  rmul invN (rsum R rO radd N (fun _ => rI)) = rI ->
  forall (conj : R -> R), (forall a b, conj (rmul a b) = rmul (conj a) (conj b)) ->
  forall (c1 c2 ts r u v : list R),
  Z.of_nat (length c1) = Z.of_nat N / 2 + 1 -> Z.of_nat (length c2) = Z.of_nat N / 2 + 1 ->
  freq_filter R rO rI radd rmul om omi invN conj N (pmul R rmul c1 c2) ts = Some r ->
  freq_filter R rO rI radd rmul om omi invN conj N c1 ts = Some u ->
  freq_filter R rO rI radd rmul om omi invN conj N c2 u = Some v ->
  forall k, (k < N)%nat -> nth k r rO = nth k v rO.
Proof. intros R rO rI radd rmul rsub ropp rdiv rinv Fth N om omi invN HN Hom Hinv Hprim HinvN conj Hcm c1 c2 ts r u v.
  exact (bp_product R rO rI radd rmul rsub ropp rdiv rinv Fth N om omi invN HN Hom Hinv Hprim HinvN conj c1 c2 ts r u v Hcm). Qed.
Print Assumptions C18_bp_is_product.

(* dft(x, kscale=ks) for an ARBITRARY list of integer bins ks (centred / negative bins,
   subsets, permutations, repeats): entry j is sum_n x[n] om^(n * (k_j mod N)), which is
   the FFT coefficient at bin k_j mod N; ks = 0..N-1 gives the whole transform; for a
   negative bin -k the power om^(n * ((-k) mod N)) is (1/om)^(n k). *)
Theorem C18_dft_at_bins :
  forall (R : Type) (rO rI : R) (radd rmul rsub : R -> R -> R) (ropp : R -> R)
         (rdiv : R -> R -> R) (rinv : R -> R),
  field_theory rO rI radd rmul rsub ropp rdiv rinv (@eq R) ->
  forall (N : nat) (om omi invN : R),
  (0 < N)%nat ->
  rpow R rI rmul om N = rI ->
  rmul om omi = rI ->
  (forall d, (0 < d < N)%nat -> rpow R rI rmul om d <> rI) ->
  rmul invN (rsum R rO radd N (fun _ => rI)) = rI ->
  forall (x : list R) (ks : list Z),
  length (dft_bins R rO rI radd rmul om N x ks) = length ks /\
  (forall j, (j < length ks)%nat ->
     nth j (dft_bins R rO rI radd rmul om N x ks) rO =
       rsum R rO radd N (fun n => rmul (getr R rO x n) (rpow R rI rmul om (n * bin_of N (nth j ks 0)))) /\
     nth j (dft_bins R rO rI radd rmul om N x ks) rO =
       nth (bin_of N (nth j ks 0)) (dft R rO rI radd rmul om N x) rO) /\
  dft_bins R rO rI radd rmul om N x (map Z.of_nat (seq 0 N)) = dft R rO rI radd rmul om N x /\
  (forall n k, rpow R rI rmul om (n * bin_of N (- Z.of_nat k)) = rpow R rI rmul omi (n * k)).
Proof.
  intros R rO rI radd rmul rsub ropp rdiv rinv Fth N om omi invN HN Hom Hinv Hprim HinvN x ks.
  split; [unfold dft_bins; apply map_length|]. split; [|split].
  - intros j Hj. split.
    + exact (dft_bins_nth R rO rI radd rmul N om x ks j Hj).
    + exact (dft_bins_fft R rO rI radd rmul N om HN x ks j Hj).
  - exact (dft_bins_all R rO rI radd rmul rsub ropp rdiv rinv Fth N om HN x).
  - exact (neg_bin R rO rI radd rmul rsub ropp rdiv rinv Fth N om omi invN HN Hom Hinv Hprim HinvN).
Qed.
Print Assumptions C18_dft_at_bins.

(* The band-pass RESPONSE VECTOR is the product of the high-pass response c1 (corners
   b[0:2]) and the low-pass response 1 - c2 (corners b[2:4]) for arbitrary response
   vectors — no ordering of the corners is assumed (overlapping, nested, identical
   tapers included) — and so is its Hermitian expansion, bin by bin. *)
Theorem C18_bp_response_is_product :
  forall (R : Type) (rO rI : R) (radd rmul rsub : R -> R -> R) (ropp : R -> R)
         (rdiv : R -> R -> R) (rinv : R -> R),
  field_theory rO rI radd rmul rsub ropp rdiv rinv (@eq R) ->
  forall (N : nat) (om omi invN : R),
  (0 < N)%nat ->
  rpow R rI rmul om N = rI ->
  rmul om omi = rI ->
  (forall d, (0 < d < N)%nat -> rpow R rI rmul om d <> rI) ->
  rmul invN (rsum R rO radd N (fun _ => rI)) = rI ->
  forall (conj : R -> R) (c1 c2 : list R),
  length c1 = length c2 ->
  (forall m, (m < length c1)%nat ->
     nth m (bp_resp R rI rmul rsub c1 c2) rO = rmul (nth m c1 rO) (rsub rI (nth m c2 rO))) /\
  (forall ns H1 H2, (forall a b, conj (rmul a b) = rmul (conj a) (conj b)) ->
     fexpand rO conj c1 ns = Some H1 -> fexpand rO conj (resp_lp R rI rsub c2) ns = Some H2 ->
     exists H, fexpand rO conj (bp_resp R rI rmul rsub c1 c2) ns = Some H /\ length H = length H1 /\
       forall m, (m < length H1)%nat -> nth m H rO = rmul (nth m H1 rO) (nth m H2 rO)).
Proof.
  intros R rO rI radd rmul rsub ropp rdiv rinv Fth N om omi invN HN Hom Hinv Hprim HinvN conj c1 c2 Hlen.
  split.
  - intros m Hm. apply (bp_resp_nth R rO rI radd rmul rsub ropp rdiv rinv Fth); [exact Hm | now rewrite <- Hlen].
  - intros ns H1 H2 Hcm E1 E2.
    exact (bp_resp_expand R rO rI radd rmul rsub ropp rdiv rinv Fth N om omi invN HN Hom Hinv Hprim HinvN
             conj c1 c2 ns H1 H2 Hcm Hlen E1 E2).
Qed.
Print Assumptions C18_bp_response_is_product.

(* dft with sample positions: xscale = 0 .. N-1 (what xscale=None stands for) gives the
   coefficients at the requested bins; general integer positions xs[n] enter the
   exponent as om^(xs[n] * k_j mod N) (dft_xk, by definition). *)
Theorem C18_dft_xscale_default :
  forall (R : Type) (rO rI : R) (radd rmul rsub : R -> R -> R) (ropp : R -> R)
         (rdiv : R -> R -> R) (rinv : R -> R),
  field_theory rO rI radd rmul rsub ropp rdiv rinv (@eq R) ->
  forall (N : nat) (om : R),
  (0 < N)%nat -> rpow R rI rmul om N = rI ->
  forall (x : list R) (ks : list Z),
  dft_xk R rO rI radd rmul om N x (map Z.of_nat (seq 0 N)) ks = dft_bins R rO rI radd rmul om N x ks.
Proof. exact dft_xk_default. Qed.
Print Assumptions C18_dft_xscale_default.

(* String-valued options.  convolve: exactly "full" and "same" are modes (case
   sensitive); with them convolve_py is the 'full' / 'same' result of the theorems
   above; any other mode string returns None (when the padded size exists).
   Filters: exactly "bp" is the band-pass; "hp"/"highpass" and "lp"/"lowpass" in any
   letter case select the taper / its complement; every other string fails. *)
Theorem C18_option_dispatch :
  forall (R : Type) (rO rI : R) (radd rmul rsub : R -> R -> R) (om omi invN : R)
         (cc : nat -> list R -> list R -> list R) (conj : R -> R) (N : nat) (x w c1 c2 ts : list R) (s : list Z),
  (convolve_py R rO cc s_full x w = match convolve_full_with R rO cc x w with Some l => Ret l | None => Raise end) /\
  (convolve_full_with R rO cc x w <> None ->
   convolve_py R rO cc s_same x w = match convolve_same_with R rO cc x w with Some l => Ret l | None => Raise end) /\
  (mode_class s = MOther -> convolve_full_with R rO cc x w <> None -> convolve_py R rO cc s x w = RetNone) /\
  (mode_class s = MFull <-> s = s_full) /\ (mode_class s = MSame <-> s = s_same) /\
  (typ_class s = TBp <-> s = s_bp) /\
  (typ_class s = TBad -> freq_filter_py R rO rI radd rmul rsub om omi invN conj N s c1 c2 ts = Raise) /\
  (typ_class s = TLp -> freq_filter_py R rO rI radd rmul rsub om omi invN conj N s c1 c2 ts =
     match freq_filter R rO rI radd rmul om omi invN conj N (resp_lp R rI rsub c1) ts with Some y => Ret y | None => Raise end) /\
  (typ_class s = THp -> freq_filter_py R rO rI radd rmul rsub om omi invN conj N s c1 c2 ts =
     match freq_filter R rO rI radd rmul om omi invN conj N c1 ts with Some y => Ret y | None => Raise end) /\
  (typ_class s = TBp -> freq_filter_py R rO rI radd rmul rsub om omi invN conj N s c1 c2 ts =
     match freq_filter R rO rI radd rmul om omi invN conj N (bp_resp R rI rmul rsub c1 c2) ts with Some y => Ret y | None => Raise end).
Proof. exact option_dispatch. Qed.
Print Assumptions C18_option_dispatch.

(* ---- fcn_cosine -------------------------------------------------------- *)
(* Reals: for b0 < b1 the soft threshold is 0 up to b0, 1 from b1 on,
   non-decreasing everywhere and within [0, 1]. *)
Theorem C18_cosine_monotone : forall b0 b1 : R, (b0 < b1)%R ->
  (forall x, (x <= b0)%R -> fcn_cosine b0 b1 x = 0%R) /\
  (forall x, (b1 <= x)%R -> fcn_cosine b0 b1 x = 1%R) /\
  (forall x y, (x <= y)%R -> (fcn_cosine b0 b1 x <= fcn_cosine b0 b1 y)%R) /\
  (forall x, (0 <= fcn_cosine b0 b1 x <= 1)%R).
Proof.
  intros b0 b1 Hb. split; [exact (fc_low b0 b1 Hb)|]. split; [exact (fc_high b0 b1 Hb)|].
  split; [exact (fc_mono b0 b1 Hb) | exact (fc_range b0 b1 Hb)].
Qed.
Print Assumptions C18_cosine_monotone.

(* ---- non-vacuity ------------------------------------------------------- *)
(* padded size a power of three (odd): 3 + 24 = 27 *)
Example C18_example_ns_optim : ns_optim 27 = Some 27 /\ ns_optim 28 = Some 32 /\ ns_optim 65532 = Some 65536.
Proof. vm_compute. repeat split. Qed.

Example C18_example_convolve :
  convolve_full_with Z 0 (circ_conv Z 0 Z.add Z.mul) [1; 2] [1; 10; 100; 1000] = Some [1; 12; 120; 1200; 2000; 0] /\
  convolve_same_with Z 0 (circ_conv Z 0 Z.add Z.mul) [1; 2] [1; 10; 100; 1000] = Some [12; 120] /\
  convolve_same_with Z 0 (circ_conv Z 0 Z.add Z.mul) [1; 2; 3] [1; 10; 100] = Some [12; 123; 230].
Proof. vm_compute. repeat split. Qed.

Example C18_example_fscale : fscale_bins 7 false = [0; 1; 2; 3; -3; -2; -1] /\
                             fscale_bins 8 false = [0; 1; 2; 3; 4; -3; -2; -1] /\ fscale_bins 1 false = [0].
Proof. vm_compute. repeat split. Qed.

(* a Hermitian Gaussian-integer spectrum of odd and of even length *)
Example C18_example_half :
  let cj := fun p : Z * Z => (fst p, - snd p) in
  freduce [(6, 0); (1, 2); (3, -1); (3, 1); (1, -2)] = Some [(6, 0); (1, 2); (3, -1)] /\
  fexpand (0, 0) cj [(6, 0); (1, 2); (3, -1)] 5 = Some [(6, 0); (1, 2); (3, -1); (3, 1); (1, -2)] /\
  fexpand (0, 0) cj [(6, 0); (1, 2); (3, -1); (4, 0)] 6 = Some [(6, 0); (1, 2); (3, -1); (4, 0); (3, 1); (1, -2)].
Proof. vm_compute. repeat split. Qed.

(* ---- the field / root / conjugation hypotheses are satisfiable ---------------- *)
(* Gaussian rationals Q(i) (Inst.v), N = 4 (even: the Nyquist bin is exercised),
   om = -i = exp(-2 pi i/4), conj = complex conjugation (not the identity). *)
Example C18_example_hypotheses_satisfiable :
  field_theory g0 g1 gadd gmul gsub gopp gdiv ginv (@eq G) /\
  rpow G g1 gmul om4 4 = g1 /\ gmul om4 omi4 = g1 /\
  (forall d, (0 < d < 4)%nat -> rpow G g1 gmul om4 d <> g1) /\
  gmul inv4 (rsum G g0 gadd 4 (fun _ => g1)) = g1 /\ gmul ghalf (gadd g1 g1) = g1 /\
  (forall a b, gconj (gadd a b) = gadd (gconj a) (gconj b)) /\
  (forall a b, gconj (gmul a b) = gmul (gconj a) (gconj b)) /\
  gconj g1 = g1 /\ gconj om4 = omi4 /\ (forall v, gconj (gsub g1 v) = gsub g1 (gconj v)).
Proof.
  destruct inst_root as (H1 & H2 & H3 & H4 & H5). destruct inst_conj as (C1 & C2 & C3 & C4 & C5).
  exact (conj Gft (conj H1 (conj H2 (conj H3 (conj H4 (conj H5 (conj C1 (conj C2 (conj C3 (conj C4 C5)))))))))).
Qed.

(* the theorems instantiated there, and the same values obtained by evaluation *)
Example C18_example_rfft_instance :
  let x := map (fun z => gq z 0) [1; 2; 0; 0]%Z in
  let w := map (fun z => gq z 0) [3; 4; 0; 0]%Z in
  rfft_conv G g0 g1 gadd gmul om4 omi4 inv4 ghalf gconj 4 x w =
    spectral_conv G g0 g1 gadd gmul om4 omi4 inv4 4 x w /\
  (forall k, (k < 4)%nat -> nth k (spectral_conv G g0 g1 gadd gmul om4 omi4 inv4 4 x w) g0 =
                            circ_conv_at G g0 gadd gmul 4 x w k) /\
  map gview (rfft_conv G g0 g1 gadd gmul om4 omi4 inv4 ghalf gconj 4 x w) =
    [(Qmake 3 1, Qmake 0 1); (Qmake 10 1, Qmake 0 1); (Qmake 8 1, Qmake 0 1); (Qmake 0 1, Qmake 0 1)].
Proof.
  intros x w. destruct inst_root as (H1 & H2 & H3 & H4 & H5). destruct inst_conj as (C1 & C2 & C3 & C4 & C5).
  split; [|split].
  - apply (C18_rfft_path_equals_full G g0 g1 gadd gmul gsub gopp gdiv ginv Gft 4%nat om4 omi4 inv4
             ltac:(lia) H1 H2 H3 H4 gconj ghalf C1 C2 C3 C4 H5); apply real_gq.
  - intros k Hk. apply (C18_circular_convolution_theorem G g0 g1 gadd gmul gsub gopp gdiv ginv Gft 4%nat
                          om4 omi4 inv4 ltac:(lia) H1 H2 H3 H4 x w k Hk).
  - vm_compute. reflexivity.
Qed.

(* convolve 'full' through the half-spectrum path: [1, 2] * [3, 4] = [3, 10, 8, 0] *)
Example C18_example_convolve_rfft_instance :
  let x := map (fun z => gq z 0) [1; 2]%Z in
  let w := map (fun z => gq z 0) [3; 4]%Z in
  exists l, convolve_full_with G g0 (rfft_conv G g0 g1 gadd gmul om4 omi4 inv4 ghalf gconj) x w = Some l /\
    map gview l = [(Qmake 3 1, Qmake 0 1); (Qmake 10 1, Qmake 0 1); (Qmake 8 1, Qmake 0 1); (Qmake 0 1, Qmake 0 1)] /\
    forall k, (k < 4)%nat -> nth k l g0 = conv_direct_at G g0 gadd gmul x w k.
Proof.
  intros x w. destruct inst_root as (H1 & H2 & H3 & H4 & H5). destruct inst_conj as (C1 & C2 & C3 & C4 & C5).
  assert (Hns : ns_optim (Z.of_nat (length x + length w)) = Some (Z.of_nat 4)) by (vm_compute; reflexivity).
  set (l := firstn 4 (rfft_conv G g0 g1 gadd gmul om4 omi4 inv4 ghalf gconj 4
                        (zero_pad G g0 x 4) (zero_pad G g0 w 4))).
  assert (Hfull : convolve_full_with G g0 (rfft_conv G g0 g1 gadd gmul om4 omi4 inv4 ghalf gconj) x w = Some l)
    by (vm_compute; reflexivity).
  exists l. split; [exact Hfull|]. split; [vm_compute; reflexivity|].
  apply (C18_fft_conv_full_rfft G g0 g1 gadd gmul gsub gopp gdiv ginv Gft 4%nat om4 omi4 inv4
           ltac:(lia) H1 H2 H3 H4 gconj ghalf C1 C2 C3 C4 H5 x w l (real_gq _) (real_gq _) Hns Hfull).
Qed.

(* overlapping tapers: the product response differs from hp + lp - 1 (1/2 * 1/2 = 1/4, not 0) *)
Example C18_example_bp_overlap :
  map gview (bp_resp G g1 gmul gsub [ghalf; g1] [ghalf; g0]) = [(Qmake 1 4, Qmake 0 1); (Qmake 1 1, Qmake 0 1)] /\
  map gview (map (fun p => gsub (gadd (fst p) (gsub g1 (snd p))) g1) [(ghalf, ghalf)]) = [(Qmake 0 1, Qmake 0 1)].
Proof. split; vm_compute; reflexivity. Qed.

(* dft at centred bins on Q(i), N = 4: bins [-1; 2; 0] of x = [1, 2, 3, 4] *)
Example C18_example_dft_bins :
  map gview (dft_bins G g0 g1 gadd gmul om4 4 (map (fun z => gq z 0) [1; 2; 3; 4]%Z) [-1; 2; 0]%Z) =
  [(Qmake (-2) 1, Qmake (-2) 1); (Qmake (-2) 1, Qmake 0 1); (Qmake 10 1, Qmake 0 1)].
Proof. vm_compute. reflexivity. Qed.

Example C18_example_strings :
  typ_class [72; 105; 103; 104; 80; 97; 115; 115] = THp (* "HighPass" *) /\ typ_class [76; 80] = TLp (* "LP" *) /\
  typ_class [66; 80] = TBad (* "BP" *) /\ typ_class [98; 112] = TBp /\ typ_class [] = TBad /\
  mode_class [70; 85; 76; 76] = MOther (* "FULL" *) /\ mode_class [118; 97; 108; 105; 100] = MOther (* "valid" *) /\
  convolve_py Z 0 (circ_conv Z 0 Z.add Z.mul) [118; 97; 108; 105; 100] [1; 2] [1; 1] = RetNone.
Proof. vm_compute. repeat split. Qed.
