(* C18 — property theorems (statements closed by `exact <lemma>`). *)
From Coq Require Import ZArith List Bool Lia.
From IBL.lib Require Import PyInt.
From IBL.C18 Require Import Model Proofs.
Import ListNotations.
Open Scope Z_scope.

Theorem C18_dft_lengths : forall ns, 0 <= ns ->
  dft_nk ns false = ns / 2 + 1 /\ dft_nk ns true = ns.
Proof. intros ns H. split; [exact (dft_nk_real ns H) | reflexivity]. Qed.
Print Assumptions C18_dft_lengths.
