(* C18 — the hypotheses of the field theorems are satisfiable: the Gaussian rationals
   Q(i) (pairs of canonical rationals, Leibniz equality) form a field with the
   primitive 4-th root of unity om = -i = exp(-2 pi i / 4), complex conjugation is a
   ring morphism with conj om = 1/om, 1/4 and 1/2 exist.  N = 4 is even, so the
   Nyquist bin of the half-spectrum path is exercised; conj is not the identity. *)
From Coq Require Import QArith Qcanon ZArith List Lia Ring Field.
From IBL.C18 Require Import Model.
Import ListNotations.
Open Scope Qc_scope.

Definition G : Type := (Qc * Qc)%type.
Definition g0 : G := (0, 0).
Definition g1 : G := (1, 0).
Definition gadd (p q : G) : G := (fst p + fst q, snd p + snd q).
Definition gmul (p q : G) : G := (fst p * fst q - snd p * snd q, fst p * snd q + snd p * fst q).
Definition gopp (p : G) : G := (- fst p, - snd p).
Definition gsub (p q : G) : G := gadd p (gopp q).
Definition gnorm (p : G) : Qc := fst p * fst p + snd p * snd p.
Definition ginv (p : G) : G := (fst p / gnorm p, - snd p / gnorm p).
Definition gdiv (p q : G) : G := gmul p (ginv q).
Definition gconj (p : G) : G := (fst p, - snd p).
Definition gq (a b : Z) : G := (Q2Qc (inject_Z a), Q2Qc (inject_Z b)).

Lemma Grt : ring_theory g0 g1 gadd gmul gsub gopp (@eq G).
Proof.
  constructor; unfold g0, g1, gadd, gmul, gsub, gopp; cbn [fst snd].
  - intros [a b]; cbn [fst snd]; f_equal; ring.
  - intros [a b] [c d]; cbn [fst snd]; f_equal; ring.
  - intros [a b] [c d] [e f]; cbn [fst snd]; f_equal; ring.
  - intros [a b]; cbn [fst snd]; f_equal; ring.
  - intros [a b] [c d]; cbn [fst snd]; f_equal; ring.
  - intros [a b] [c d] [e f]; cbn [fst snd]; f_equal; ring.
  - intros [a b] [c d] [e f]; cbn [fst snd]; f_equal; ring.
  - intros [a b] [c d]; reflexivity.
  - intros [a b]; cbn [fst snd]; f_equal; ring.
Qed.

Lemma sq_nonneg (a : Qc) : 0 <= a * a.
Proof.
  assert (H : forall x : Qc, 0 <= x -> 0 <= x * x).
  { intros x Hx. pose proof (Qcmult_le_compat_r 0 x x Hx Hx) as H. now rewrite Qcmult_0_l in H. }
  destruct (Qclt_le_dec a 0) as [Hneg|Hpos]; [|now apply H].
  replace (a * a) with ((- a) * (- a)) by ring. apply H.
  apply Qclt_le_weak in Hneg. apply Qcopp_le_compat in Hneg.
  replace (- 0) with 0 in Hneg by ring. exact Hneg.
Qed.

Lemma sum_sq_zero (a b : Qc) : a * a + b * b = 0 -> a = 0.
Proof.
  intros H. pose proof (sq_nonneg a) as Ha. pose proof (sq_nonneg b) as Hb.
  assert (Hle : a * a <= 0).
  { rewrite <- H. pose proof (Qcplus_le_compat (a * a) (a * a) 0 (b * b) (Qcle_refl _) Hb) as P.
    replace (a * a + 0) with (a * a) in P by ring. exact P. }
  pose proof (Qcle_antisym _ _ Hle Ha) as E.
  destruct (Qcmult_integral _ _ E); assumption.
Qed.

Lemma gnorm_nz (p : G) : p <> g0 -> gnorm p <> 0.
Proof.
  destruct p as [a b]. unfold gnorm, g0; cbn [fst snd]. intros Hp Hn. apply Hp.
  f_equal; [exact (sum_sq_zero a b Hn)|]. apply (sum_sq_zero b a). rewrite <- Hn. ring.
Qed.

Lemma Gft : field_theory g0 g1 gadd gmul gsub gopp gdiv ginv (@eq G).
Proof.
  constructor.
  - exact Grt.
  - unfold g1, g0. intros H. apply (f_equal (fun p => Qnum (this (fst p)))) in H. vm_compute in H. discriminate.
  - reflexivity.
  - intros p Hp. pose proof (gnorm_nz p Hp) as Hn. destruct p as [a b].
    unfold gmul, ginv, g1, gnorm in *; cbn [fst snd] in *. f_equal; field; exact Hn.
Qed.

(* the root, its inverse, 1/4, 1/2 *)
Definition om4 : G := gq 0 (-1).
Definition omi4 : G := gq 0 1.
Definition inv4 : G := (Q2Qc (1 # 4), 0).
Definition ghalf : G := (Q2Qc (1 # 2), 0).

Definition gview (p : G) : Q * Q := (this (fst p), this (snd p)).

Lemma geq (p q : G) : gview p = gview q -> p = q.
Proof.
  destruct p as [a b], q as [c d]. unfold gview; cbn [fst snd]. intros H. injection H as H1 H2.
  f_equal; apply Qc_is_canon; [rewrite H1 | rewrite H2]; reflexivity.
Qed.

Lemma inst_root :
  rpow G g1 gmul om4 4 = g1 /\ gmul om4 omi4 = g1 /\
  (forall d, (0 < d < 4)%nat -> rpow G g1 gmul om4 d <> g1) /\
  gmul inv4 (rsum G g0 gadd 4 (fun _ => g1)) = g1 /\
  gmul ghalf (gadd g1 g1) = g1.
Proof.
  split; [apply geq; vm_compute; reflexivity|].
  split; [apply geq; vm_compute; reflexivity|].
  split.
  - intros d Hd H. apply (f_equal gview) in H.
    destruct d as [|[|[|[|d]]]]; try lia; vm_compute in H; discriminate.
  - split; apply geq; vm_compute; reflexivity.
Qed.

Lemma inst_conj :
  (forall a b, gconj (gadd a b) = gadd (gconj a) (gconj b)) /\
  (forall a b, gconj (gmul a b) = gmul (gconj a) (gconj b)) /\
  gconj g1 = g1 /\ gconj om4 = omi4 /\
  (forall v, gconj (gsub g1 v) = gsub g1 (gconj v)).
Proof.
  split; [intros [a b] [c d]; unfold gconj, gadd; cbn [fst snd]; f_equal; ring|].
  split; [intros [a b] [c d]; unfold gconj, gmul; cbn [fst snd]; f_equal; ring|].
  split; [apply geq; vm_compute; reflexivity|].
  split; [apply geq; vm_compute; reflexivity|].
  intros [a b]. unfold gconj, gsub, gadd, gopp, g1; cbn [fst snd]. f_equal; ring.
Qed.

(* real-valued (conjugation-fixed) lists *)
Lemma real_gq (l : list Z) : forall j, gconj (getr G g0 (map (fun z => gq z 0) l) j) = getr G g0 (map (fun z => gq z 0) l) j.
Proof.
  intros j. unfold getr.
  destruct (Nat.lt_ge_cases j (length l)) as [H|H].
  - rewrite (nth_indep _ g0 (gq 0 0)) by (now rewrite map_length).
    rewrite (map_nth (fun z => gq z 0)). apply geq. unfold gconj, gq, gview; cbn [fst snd].
    f_equal.
  - rewrite nth_overflow by (now rewrite map_length). apply geq. vm_compute. reflexivity.
Qed.
