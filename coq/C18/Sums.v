(* C18 — finite sums over an abstract commutative ring (self-contained). *)
From Coq Require Import ZArith List Bool Lia Ring Arith.
From IBL.C18 Require Import Model.
Import ListNotations.

Section Sums.
Variable R : Type.
Variables (rO rI : R) (radd rmul rsub : R -> R -> R) (ropp : R -> R).
Hypothesis Rth : ring_theory rO rI radd rmul rsub ropp (@eq R).
Add Ring Rring : Rth.
Set Default Proof Using "Rth".

Local Notation "0" := rO.
Local Notation "1" := rI.
Local Infix "+" := radd.
Local Infix "*" := rmul.
Local Infix "-" := rsub.
Local Notation sum := (rsum R rO radd).
Local Notation pow := (rpow R rI rmul).

Lemma sum_S n f : sum (S n) f = sum n f + f n.
Proof. reflexivity. Qed.

Lemma sum_ext n f g : (forall i, (i < n)%nat -> f i = g i) -> sum n f = sum n g.
Proof.
  induction n as [|n IH]; intros H; [reflexivity|].
  rewrite !sum_S, IH, (H n) by (intros; try apply H; lia). reflexivity.
Qed.

Lemma sum_zero n f : (forall i, (i < n)%nat -> f i = 0) -> sum n f = 0.
Proof.
  induction n as [|n IH]; intros H; [reflexivity|].
  rewrite sum_S, IH, (H n) by (intros; try apply H; lia). ring.
Qed.

Lemma sum_add n f g : sum n (fun i => f i + g i) = sum n f + sum n g.
Proof. induction n as [|n IH]; [cbn; ring|]. rewrite !sum_S, IH. ring. Qed.

Lemma sum_scale_l n c f : c * sum n f = sum n (fun i => c * f i).
Proof. induction n as [|n IH]; [cbn; ring|]. rewrite !sum_S, <- IH. ring. Qed.

Lemma sum_scale_r n c f : sum n f * c = sum n (fun i => f i * c).
Proof. induction n as [|n IH]; [cbn; ring|]. rewrite !sum_S, <- IH. ring. Qed.

Lemma sum_const n c : sum n (fun _ => c) = c * sum n (fun _ => 1).
Proof. rewrite sum_scale_l. apply sum_ext. intros. ring. Qed.

(* terms beyond m vanish *)
Lemma sum_trunc m n f : (m <= n)%nat -> (forall i, (m <= i < n)%nat -> f i = 0) -> sum n f = sum m f.
Proof.
  intros Hmn. induction n as [|n IH]; intros H.
  - assert (m = O) by lia. subst. reflexivity.
  - destruct (Nat.eq_dec m (S n)) as [->|Hne]; [reflexivity|].
    rewrite sum_S, IH, (H n) by (intros; try apply H; lia). ring.
Qed.

(* only one term survives *)
Lemma sum_delta n a f : (a < n)%nat -> (forall i, (i < n)%nat -> i <> a -> f i = 0) -> sum n f = f a.
Proof.
  induction n as [|n IH]; intros Ha H; [lia|].
  rewrite sum_S. destruct (Nat.eq_dec a n) as [->|Hne].
  - rewrite sum_zero by (intros; apply H; lia). ring.
  - rewrite IH, (H n) by (intros; try apply H; lia). ring.
Qed.

Lemma sum_swap n m (f : nat -> nat -> R) :
  sum n (fun i => sum m (fun j => f i j)) = sum m (fun j => sum n (fun i => f i j)).
Proof.
  induction n as [|n IH].
  - cbn. symmetry. apply sum_zero. reflexivity.
  - rewrite sum_S, IH, <- sum_add. apply sum_ext. intros. reflexivity.
Qed.

Lemma sum_mul_sum n m f g :
  sum n f * sum m g = sum n (fun i => sum m (fun j => f i * g j)).
Proof.
  rewrite sum_scale_r. apply sum_ext. intros i _. apply sum_scale_l.
Qed.

(* powers *)
Lemma pow_add x a b : pow x (a + b)%nat = pow x a * pow x b.
Proof. induction a as [|a IH]; cbn [Nat.add rpow]; [ring|]. rewrite IH. ring. Qed.

Lemma pow_one n : pow 1 n = 1.
Proof. induction n as [|n IH]; cbn [rpow]; [reflexivity|]. rewrite IH. ring. Qed.

Lemma pow_mul_base x y n : pow (x * y) n = pow x n * pow y n.
Proof. induction n as [|n IH]; cbn [rpow]; [ring|]. rewrite IH. ring. Qed.

Lemma pow_mul x a b : pow x (a * b)%nat = pow (pow x a) b.
Proof.
  induction b as [|b IH].
  - rewrite Nat.mul_0_r. reflexivity.
  - rewrite Nat.mul_succ_r, pow_add, IH. cbn [rpow]. ring.
Qed.

(* geometric sum *)
Lemma geom n r : (r - 1) * sum n (fun m => pow r m) = pow r n - 1.
Proof.
  induction n as [|n IH]; [cbn; ring|].
  rewrite sum_S. cbn [rpow].
  transitivity ((r - 1) * sum n (fun m => pow r m) + (r - 1) * pow r n); [ring|].
  rewrite IH. ring.
Qed.

End Sums.
