(* C05 — the hypotheses of the theorems are satisfiable: instances on the canonical
   rationals Qc (Leibniz equality), a concrete spatial high-pass, concrete inputs. *)
From Coq Require Import ZArith List Bool Lia Arith Ring Field QArith Qcanon Qcabs.
From IBL.C05 Require Import Model Proofs Agc.
Import ListNotations.

(* a linear high-pass along channels that preserves the shape and annihilates blocks of
   equal rows: first difference, row_i - row_(i-1) (row_0 - row_0 for the first) *)
Section Diff.
  Variable R : Type.
  Variables (rO : R) (rsub : R -> R -> R).
  Hypothesis sub_self : forall a, rsub a a = rO.

  Fixpoint diff_rows (prev : list R) (m : list (list R)) : list (list R) :=
    match m with
    | [] => []
    | r :: t => vsub R rsub r prev :: diff_rows r t
    end.
  Definition diffH (_ : Z) (m : list (list R)) : list (list R) :=
    match m with [] => [] | r :: _ => diff_rows r m end.

  Lemma diff_rows_length prev m : length (diff_rows prev m) = length m.
  Proof. revert prev; induction m as [|r t IH]; intros prev; cbn; auto. Qed.

  Lemma diffH_length b m : length (diffH b m) = length m.
  Proof. destruct m; [reflexivity|]. apply diff_rows_length. Qed.

  Lemma vsub_self' r : Forall (fun v => v = rO) (vsub R rsub r r).
  Proof. unfold vsub. induction r as [|a t IH]; cbn; constructor; auto. Qed.

  Lemma diff_rows_const r m : all_rows R m r -> all_zero R rO (diff_rows r m).
  Proof.
    induction m as [|a t IH]; intros Hall r' Hin; [destruct Hin|].
    assert (a = r) by (apply Hall; now left). subst a.
    destruct Hin as [<-|Hin]; [apply vsub_self'|].
    apply IH; [|exact Hin]. intros r'' H''. apply Hall. now right.
  Qed.

  Lemma diffH_kills b m r : all_rows R m r -> all_zero R rO (diffH b m).
  Proof.
    intros Hall. destruct m as [|a t]; [intros ? []|].
    assert (a = r) by (apply Hall; now left). subst a. now apply diff_rows_const.
  Qed.
End Diff.

Open Scope Qc_scope.
Definition qc (n : Z) : Qc := Q2Qc (inject_Z n).

Lemma Qc_sub_self (a : Qc) : a - a = 0. Proof. ring. Qed.

(* concrete input: 3 channels x 2 samples, groups {0,2} (label 7) and {1} (label 2) *)
Definition ex_x : list (list Qc) := [[qc 1; qc 5]; [qc 3; qc 2]; [qc 2; qc 9]].
Definition ex_coll : list Z := [7; 2; 7]%Z.

Lemma ex_rect : rect Qc ex_x.
Proof. intros r [<-|[<-|[<-|[]]]]; reflexivity. Qed.
