(* C05 — the hypotheses of the joint theorem (C07 `setting`, `ordered_field`, the phase
   table hypotheses) are jointly satisfiable: Gaussian rationals Qc[i], n = 4, w k = i^k,
   integer shifts. *)
From Coq Require Import ZArith List Bool Lia Ring Field QArith Qcanon.
From IBL.C07 Require Import Model Sums Proofs.
From IBL.C05 Require Import Model Proofs Agc.
Import ListNotations.
Open Scope Qc_scope.

Definition G : Type := (Qc * Qc)%type.
Definition g0 : G := (0, 0).
Definition g1 : G := (1, 0).
Definition gi : G := (0, 1).
Definition gadd (x y : G) : G := (fst x + fst y, snd x + snd y).
Definition gmul (x y : G) : G := (fst x * fst y - snd x * snd y, fst x * snd y + snd x * fst y).
Definition gopp (x : G) : G := (- fst x, - snd x).
Definition gconj (x : G) : G := (fst x, - snd x).
Definition norm2 (x : G) : Qc := fst x * fst x + snd x * snd x.
Definition ginv (x : G) : G := (fst x / norm2 x, - snd x / norm2 x).
Definition gleb (x y : G) : bool := qcleb (fst x) (fst y).
Definition geqb (x y : G) : bool :=
  if Qc_eq_dec (fst x) (fst y) then (if Qc_eq_dec (snd x) (snd y) then true else false) else false.

Lemma sq_nonneg (a : Qc) : 0 <= a * a.
Proof.
  destruct (Qclt_le_dec a 0) as [H|H].
  - replace (a * a) with ((- a) * (- a)) by ring.
    assert (H' : 0 <= - a).
    { apply Qclt_le_weak in H. apply Qcopp_le_compat in H. now replace (- 0) with 0 in H by ring. }
    replace 0 with (0 * - a) by ring. now apply Qcmult_le_compat_r.
  - replace 0 with (0 * a) by ring. now apply Qcmult_le_compat_r.
Qed.

Lemma norm2_zero x : norm2 x = 0 -> x = g0.
Proof.
  destruct x as [a b]. unfold norm2. cbn [fst snd]. intros E.
  pose proof (sq_nonneg a) as Ha. pose proof (sq_nonneg b) as Hb.
  apply qcleb_true in Ha, Hb.
  pose proof (nonneg_sum_zero_l Qc 0 1 Qcplus Qcmult Qcminus Qcdiv Qcopp Qcinv qcleb qceqb Qcabs.Qcabs
                ordered_field_Qc order_axioms_Qc _ _ Ha Hb E) as Ea.
  pose proof (nonneg_sum_zero_r Qc 0 1 Qcplus Qcmult Qcminus Qcdiv Qcopp Qcinv qcleb qceqb Qcabs.Qcabs
                ordered_field_Qc order_axioms_Qc _ _ Ha Hb E) as Eb.
  apply Qcmult_integral in Ea, Eb. unfold g0. f_equal; tauto.
Qed.

Ltac gring := intros; repeat match goal with x : G |- _ => destruct x end;
              unfold gadd, gmul, gopp, gconj, g0, g1, fsub, fdiv; cbn [fst snd]; f_equal; ring.

Lemma G_field : field_theory g0 g1 gadd gmul (fsub G gadd gopp) gopp (fdiv G gmul ginv) ginv eq.
Proof.
  constructor; [constructor| | |]; try gring; try reflexivity.
  - intros H. apply (f_equal fst) in H. cbn in H. discriminate.
  - intros p Hp. assert (Hn : norm2 p <> 0) by (intros E; apply Hp; now apply norm2_zero).
    destruct p as [a b]. unfold ginv, gmul, g1, norm2 in *. cbn [fst snd] in *. f_equal; field; exact Hn.
Qed.

Definition w4 (k : Z) : G :=
  match (k mod 4)%Z with
  | 0%Z => g1 | 1%Z => gi | 2%Z => gopp g1 | _ => gopp gi
  end.

Lemma mod4_cases k : ((k mod 4 = 0) \/ (k mod 4 = 1) \/ (k mod 4 = 2) \/ (k mod 4 = 3))%Z.
Proof. pose proof (Z.mod_pos_bound k 4). lia. Qed.

Ltac gneq := let H := fresh in intros H;
  first [ apply (f_equal (fun z : G => Qnum (fst z))) in H; vm_compute in H; discriminate
        | apply (f_equal (fun z : G => Qnum (snd z))) in H; vm_compute in H; discriminate ].

Lemma w4_add a b : w4 (a + b) = gmul (w4 a) (w4 b).
Proof.
  unfold w4. rewrite Z.add_mod by lia.
  destruct (mod4_cases a) as [Ea|[Ea|[Ea|Ea]]], (mod4_cases b) as [Eb|[Eb|[Eb|Eb]]];
    rewrite Ea, Eb; cbn [Z.add Z.modulo]; vm_compute (_ mod 4)%Z;
    unfold gmul, gopp, g1, gi; cbn [fst snd]; f_equal; ring.
Qed.

Lemma w4_conj k : gconj (w4 k) = w4 (- k).
Proof.
  unfold w4.
  assert (H : ((k mod 4 = 0 /\ (- k) mod 4 = 0) \/ (k mod 4 = 1 /\ (- k) mod 4 = 3) \/
               (k mod 4 = 2 /\ (- k) mod 4 = 2) \/ (k mod 4 = 3 /\ (- k) mod 4 = 1))%Z).
  { pose proof (Z.div_mod k 4). pose proof (Z.div_mod (- k) 4).
    pose proof (Z.mod_pos_bound k 4). pose proof (Z.mod_pos_bound (- k) 4). lia. }
  destruct H as [ [ -> -> ] | [ [ -> -> ] | [ [ -> -> ] | [ -> -> ] ] ] ];
    unfold gconj, gopp, g1, gi; cbn [fst snd]; f_equal; ring.
Qed.

Lemma G_setting : setting G g0 g1 gadd gmul gopp ginv gconj 4 w4.
Proof.
  constructor.
  - exact G_field.
  - gring.
  - gring.
  - gring.
  - lia.
  - exact w4_add.
  - reflexivity.
  - intros d Hd. assert (Hc : (d = 1 \/ d = 2 \/ d = 3)%Z) by lia.
    destruct Hc as [ -> | [ -> | -> ] ]; unfold w4; cbn; gneq.
  - exact w4_conj.
  - gneq.
  - gneq.
Qed.

Lemma fst_of_nat n : fst (of_nat G g0 g1 gadd n) = of_nat Qc 0 1 Qcplus n.
Proof. induction n as [|n IH]; [reflexivity|]. cbn [of_nat]. unfold gadd at 1. cbn [fst]. now rewrite IH. Qed.

Lemma G_ordered_field :
  ordered_field G g0 g1 gadd gmul (fsub G gadd gopp) (fdiv G gmul ginv) gopp ginv gleb geqb.
Proof.
  destruct ordered_field_Qc as (_ & _ & C & L & _).
  split; [exact G_field|]. split; [gneq|]. split; [|split].
  - intros n H. apply (C n). rewrite <- fst_of_nat, H. reflexivity.
  - intros [a1 a2] [b1 b2] [m1 m2]. unfold gleb, fsub, gadd, gopp. cbn [fst snd]. apply (L a1 b1 m1).
  - intros [a1 a2] [b1 b2]. unfold geqb. cbn [fst snd].
    destruct (Qc_eq_dec a1 b1), (Qc_eq_dec a2 b2); split; intros H; try discriminate; try congruence.
Qed.

(* integer shifts: phase s k = w(-(k s)) = rfft(dephas)[k]^s *)
Definition phase4 (s : Z) (k : nat) : G := w4 (- (Z.of_nat k * s)).

Lemma phase4_opp s k : gmul (phase4 (- s) k) (phase4 s k) = g1.
Proof.
  unfold phase4. rewrite <- w4_add. replace (- (Z.of_nat k * - s) + - (Z.of_nat k * s))%Z with 0%Z by lia.
  reflexivity.
Qed.

Lemma phase4_dc s : phase4 s 0 = g1.
Proof. unfold phase4. reflexivity. Qed.

(* the joint theorem applied to this instance: NP1 table, 3 channels, stripe = 2 + ((1+i) w^j + c.c.) *)
From IBL.C08 Require Model Props.
From IBL.C05 Require Import Joint.
From IBL.lib Require Import PyInt.

Definition inst_dc : G := (Q2Qc 2, 0%Qc).
Definition inst_terms : list (G * nat) := [((1%Qc, 1%Qc), 1%nat)].

Lemma joint_instance :
  exists x2,
    fshift_rows G g0 g1 gadd gmul ginv gconj 4%nat w4
      (map (fun k => table G 4%nat Z phase4 k) (firstn 3%nat (map (C08.Model.shift_closed C08.Model.NP1) (zrange C08.Model.NC))))
      (map (fun c => recorded G gadd gmul gconj 4%nat w4 Z Z.opp phase4 inst_dc inst_terms
                       (C08.Model.shift_closed C08.Model.NP1 c)) (zrange 3%nat)) = Some x2 /\
    length x2 = 3%nat /\
    all_zero G g0 (car_base G g0 g1 gadd (fsub G gadd gopp) (fdiv G gmul ginv) gleb 0 x2) /\
    all_zero G g0 (car_base G g0 g1 gadd (fsub G gadd gopp) (fdiv G gmul ginv) gleb 1 x2).
Proof.
  destruct (stripe_annihilated_joint G g0 g1 gadd gmul gopp ginv gconj 4%nat w4 gleb geqb Z Z.opp phase4
              G_setting G_ordered_field phase4_opp phase4_dc C08.Model.NP1 3%nat
              (firstn 3%nat (map (C08.Model.shift_closed C08.Model.NP1) (zrange C08.Model.NC)))
              (firstn 3%nat (map (C08.Model.adc_of C08.Model.NP1) (zrange C08.Model.NC))))
    with (dly := fun k : Z => k) (dc := inst_dc) (terms := inst_terms) as (x2 & A & B & _ & D & _).
  - unfold C08.Model.NC. lia.
  - apply (proj2 (proj2 (C08.Props.C08_adc_table C08.Model.NP1))).
  - lia.
  - unfold inst_dc, gconj. cbn [fst snd]. f_equal; try ring.
  - intros c a [H|[]]. inversion H; subst. split; lia.
  - exists x2. split; [exact A|]. split; [exact B|]. split; apply D; [now left|now right].
Qed.
