(* C05 — flat-integer interface of the model for the correspondence check.
   The numeric functions of Model.v are instantiated at Q (every operation
   followed by Qred).  Rationals are exchanged as numerator, denominator.

   input (first entry = operation)
     [1; op; has_coll; ncoll; coll_0..; nc; ns; xd; x_00 .. ]     car(x / xd, collection, operator); has_coll = 2: x has an
                                                                  integer dtype (result cast by truncation on scatter)
     [8; nc; has_shift; has_labels; label_0 ..]                   destripe: trace of (stage code, rows); has_labels = 2:
                                                                  channel_labels=True (labels = what detect_bad_channels returned)
     [2; p; q; nw; wd; w_0..; en; ed; nc; ns; xd; x_00 ..]        agc(x / xd, wl, si, epsilon) with wl/si = p/q,
                                                                  normalised window w/wd (nw entries), epsilon = en/ed
     [3; n; label_0 ..]                                           destripe: inside / outside index vectors
     [5; pad; tap; lagc; butter; gpu; ncoll; coll_0 ..]           kfilt: per-collection calls
     [6; si; dx; vb; btype; pad; tap; lagc; kf; ncoll; coll_0 ..] fk: per-collection calls
     [7; ver; nc]                                                 neuropixel.adc_shifts
   output: see `run`. *)
From Coq Require Import ZArith List Bool QArith Qabs Qreduction.
From IBL.lib Require Import PyInt RunLib.
From IBL.C05 Require Import Model.
Import ListNotations.
Open Scope Z_scope.

Definition q0 : Q := 0%Q.
Definition q1 : Q := 1%Q.
Definition qadd (a b : Q) : Q := Qred (a + b).
Definition qmul (a b : Q) : Q := Qred (a * b).
Definition qsub (a b : Q) : Q := Qred (a - b).
Definition qdiv (a b : Q) : Q := Qred (a / b).
Definition qleb (a b : Q) : bool := Qle_bool a b.
Definition qeqb (a b : Q) : bool := Qeq_bool a b.
Definition qabs (a : Q) : Q := Qabs a.

Definition qcar := car Q q0 q1 qadd qsub qdiv qleb.
(* C cast float -> integer: truncation towards zero *)
Definition qtrunc (a : Q) : Q := inject_Z (Z.quot (Qnum a) (Zpos (Qden a))).
Definition qcar_int := car_cast Q q0 q1 qadd qsub qdiv qleb qtrunc.
Definition qagc := agc Q q0 q1 qadd qmul qdiv qeqb qabs.

Definition mkq (n d : Z) : Q := Qred (Qmake n (Z.to_pos d)).
Definition enc_q (a : Q) : list Z := let r := Qred a in [Qnum r; Zpos (Qden r)].
Definition enc_qmat (m : list (list Q)) : list Z := flat_map (flat_map enc_q) m.

(* split a flat row-major list into rows of length ns *)
Fixpoint rows_of (nc : nat) (ns : nat) (l : list Q) : list (list Q) :=
  match nc with
  | O => []
  | S k => firstn ns l :: rows_of k ns (skipn ns l)
  end.
Definition mat_of (nc ns xd : Z) (l : list Z) : list (list Q) :=
  rows_of (Z.to_nat nc) (Z.to_nat ns) (map (fun v => mkq v xd) l).

Definition enc_nats (l : list nat) : list Z := enc_zlist (map Z.of_nat l).
Definition enc_kcall (c : Z * list nat * kfilt_params) : list Z :=
  let '(lab, idx, p) := c in
  lab :: enc_nats idx ++ [k_ntr_pad p; k_ntr_tap p; k_lagc p; k_butter p; k_gpu p].
Definition enc_fcall (c : Z * list nat * fk_params) : list Z :=
  let '(lab, idx, p) := c in
  lab :: enc_nats idx ++ [f_si p; f_dx p; f_vbounds p; f_btype p; f_ntr_pad p; f_ntr_tap p;
                          f_lagc p; f_kfilt p].
Definition enc_adc (p : Z * Z) : list Z := [fst p; snd p].

Definition run (inp : list Z) : list Z :=
  match inp with
  | 1 :: op :: has_coll :: ncoll :: r =>
      let coll := firstn (Z.to_nat ncoll) r in
      match skipn (Z.to_nat ncoll) r with
      | nc :: ns :: xd :: xs =>
          let x := mat_of nc ns xd xs in
          match (if has_coll =? 2 then qcar_int op (Some coll) x
                 else qcar op (if has_coll =? 1 then Some coll else None) x) with
          | None => [0]
          | Some y => 1 :: enc_qmat y
          end
      | _ => [-999]
      end
  | 2 :: p :: q :: nw :: wd :: r =>
      let w := map (fun v => mkq v wd) (firstn (Z.to_nat nw) r) in
      match skipn (Z.to_nat nw) r with
      | en :: ed :: nc :: ns :: xd :: xs =>
          if negb (agc_nswin p q =? nw) then [-1; agc_nswin p q]
          else
            let x := mat_of nc ns xd xs in
            let '(y, g) := qagc w (mkq en ed) x in
            (* a zero gain sample on a live row: NumPy divides by zero (inf / nan) *)
            if existsb (fun gr => negb (qeqb (rsum Q q0 qadd gr) q0) && existsb (fun v => qeqb v q0) gr) g
            then [2]
            else 1 :: enc_qmat y ++ enc_qmat g
      | _ => [-999]
      end
  | 3 :: n :: r =>
      let labels := firstn (Z.to_nat n) r in
      enc_nats (inside_brain labels) ++ enc_nats (outside_brain labels)
  | 5 :: pad :: tap :: lagc :: butter :: gpu :: ncoll :: r =>
      let coll := firstn (Z.to_nat ncoll) r in
      enc_list enc_kcall
        (kfilt_calls {| k_ntr_pad := pad; k_ntr_tap := tap; k_lagc := lagc; k_butter := butter;
                        k_gpu := gpu |} coll)
  | 6 :: si :: dx :: vb :: bt :: pad :: tap :: lagc :: kf :: ncoll :: r =>
      let coll := firstn (Z.to_nat ncoll) r in
      if negb (fk_args_ok {| f_si := si; f_dx := dx; f_vbounds := vb; f_btype := bt; f_ntr_pad := pad;
                             f_ntr_tap := tap; f_lagc := lagc; f_kfilt := kf |}) && negb (ncoll =? 0)
      then [-1]
      else
      enc_list enc_fcall
        (fk_calls {| f_si := si; f_dx := dx; f_vbounds := vb; f_btype := bt; f_ntr_pad := pad;
                     f_ntr_tap := tap; f_lagc := lagc; f_kfilt := kf |} coll)
  | 8 :: nc :: hs :: hl :: r =>
      flat_map (fun p => [fst p; snd p])
        (if hl =? 2 then destripe_trace_detect nc (hs =? 1) (firstn (Z.to_nat nc) r)
         else destripe_trace nc (hs =? 1) (if hl =? 1 then Some (firstn (Z.to_nat nc) r) else None))
  | [7; ver; nc] =>
      if negb (adc_version_ok ver) then [-1] else
      snd (adc_params ver) :: enc_list enc_adc (adc_shifts ver nc)
  | _ => [-999]
  end.

Definition mismatches := mismatches_of run.
