(* C05 — property theorems.  Only statements closed by `exact <lemma>` (or a
   short wrapper) and the Print Assumptions that the check collects.

   Carrier: any type R with (0, 1, +, *, -, /, opp, inv, <=?, =?) satisfying
   `ordered_field` (Proofs.v): field_theory with Leibniz equality, 1+1 <> 0,
   n <> 0 for n >= 1, a-m <=? b-m = a <=? b, =? decides equality.  Arrays are
   lists of rows (row = channel, entries = samples); `rect x` = all rows have
   the width of the first one. *)
From Coq Require Import ZArith List Bool Lia Ring Field QArith Qcanon.
From IBL.lib Require Import PyInt.
From IBL Require C07.Model C07.Sums C07.Proofs C08.Model.
From IBL.C05 Require Import Model Proofs Agc Joint Run Stages Instances.
From IBL.C05 Require JointInst.
Import ListNotations.

Local Notation pos c coll := (positions c coll O).

(* ---- referencing -------------------------------------------------------- *)

(* car(x, None, 'median'): at every sample the median over channels of the output is 0 *)
Theorem C05_car_zero_median :
  forall R rO rI radd rmul rsub rdiv ropp rinv rleb reqb,
  ordered_field R rO rI radd rmul rsub rdiv ropp rinv rleb reqb ->
  forall (x : list (list R)) j, rect R x -> x <> [] -> (j < ncols R x)%nat ->
  median R rO rI radd rdiv rleb (col R rO j (car_base R rO rI radd rsub rdiv rleb 0 x)) = rO.
Proof. intros until 1. destruct H as (F & T & C & L & E). eapply car_base_zero_median; eauto. Qed.
Print Assumptions C05_car_zero_median.

(* car(x, None, 'average'): at every sample the mean over channels of the output is 0 *)
Theorem C05_car_zero_mean :
  forall R rO rI radd rmul rsub rdiv ropp rinv rleb reqb,
  ordered_field R rO rI radd rmul rsub rdiv ropp rinv rleb reqb ->
  forall (x : list (list R)) j, rect R x -> x <> [] -> (j < ncols R x)%nat ->
  mean R rO rI radd rdiv (col R rO j (car_base R rO rI radd rsub rdiv rleb 1 x)) = rO.
Proof. intros until 1. destruct H as (F & T & C & L & E). eapply car_base_zero_mean; eauto. Qed.
Print Assumptions C05_car_zero_mean.

(* car(x, collection, operator): the rows of every channel group are car(rows of
   that group alone, None, the SAME operator); shape preserved; every channel
   belongs to the group of its label.  (The recursion forwards `operator`.) *)
Theorem C05_car_groups_honour_operator :
  forall R rO rI radd rmul rsub rdiv ropp rinv rleb reqb,
  ordered_field R rO rI radd rmul rsub rdiv ropp rinv rleb reqb ->
  forall op coll (x out : list (list R)), coll <> [] ->
  car R rO rI radd rsub rdiv rleb op (Some coll) x = Some out ->
  length out = length x /\ length coll = length x /\
  (forall c, In c coll ->
     gather [] (pos c coll) out = car_base R rO rI radd rsub rdiv rleb op (gather [] (pos c coll) x)) /\
  (forall i, (i < length x)%nat -> In i (pos (nth i coll 0%Z) coll)).
Proof.
  intros until 1. destruct H as (F & T & C & L & E). intros op coll x out Hne Hc.
  pose proof Hc as Hc'. unfold car in Hc'.
  destruct (grouped_spec _ [] (zero_row R rO) _
              (car_base_length R rO rI radd rmul rsub rdiv ropp rinv rleb reqb F T C L E op)
              coll x out Hne Hc') as (A1 & A2 & A3 & A4).
  split; [exact A2|]. split; [exact A1|]. split; [exact A3|exact A4].
Qed.
Print Assumptions C05_car_groups_honour_operator.

(* a collection of the wrong length is rejected (IndexError), never silently used *)
Theorem C05_car_collection_length_checked :
  forall R rO rI radd rsub rdiv rleb op coll (x : list (list R)),
  coll <> [] -> length coll <> length x ->
  car R rO rI radd rsub rdiv rleb op (Some coll) x = None.
Proof.
  intros R rO rI radd rsub rdiv rleb op coll x Hne HL. unfold car, grouped.
  destruct coll as [|c0 coll]; [congruence|].
  destruct (Nat.eqb_spec (length (c0 :: coll)) (length x)); [contradiction|reflexivity].
Qed.
Print Assumptions C05_car_collection_length_checked.

(* REFUTED for integer-typed x (F-C05-e): with a collection the result is scattered into
   np.zeros_like(x), i.e. truncated to integers; the group mean of the output is then not
   zero and the rows differ from the per-group call (which returns floats).  Witness
   x = [[0],[0],[2]], one group, operator 'average': exact -2/3, -2/3, 4/3; returned 0, 0, 1. *)
Theorem C05_car_groups_integer_dtype_refuted :
  exists (x : list (list Q)) coll out,
    qcar_int 1 (Some coll) x = Some out /\
    mean Q q0 q1 qadd qdiv (col Q q0 0 out) <> q0 /\
    qcar 1 (Some coll) x <> Some out.
Proof.
  exists [[0%Q]; [0%Q]; [2%Q]], [0; 0; 0]%Z, [[0%Q]; [0%Q]; [1%Q]].
  destruct car_int_groups_witness as (A & B & C). split; [exact A|]. split.
  - rewrite C. discriminate.
  - rewrite B. discriminate.
Qed.
Print Assumptions C05_car_groups_integer_dtype_refuted.

(* with groups: zero median at every sample within each channel group *)
Theorem C05_car_groups_zero_median :
  forall R rO rI radd rmul rsub rdiv ropp rinv rleb reqb,
  ordered_field R rO rI radd rmul rsub rdiv ropp rinv rleb reqb ->
  forall coll (x out : list (list R)) c j, rect R x -> coll <> [] ->
  car R rO rI radd rsub rdiv rleb 0 (Some coll) x = Some out -> In c coll -> (j < ncols R x)%nat ->
  median R rO rI radd rdiv rleb (col R rO j (gather [] (pos c coll) out)) = rO.
Proof. intros until 1. destruct H as (F & T & C & L & E). eapply car_grouped_zero_median; eauto. Qed.
Print Assumptions C05_car_groups_zero_median.

(* with groups and operator='average': zero mean within each channel group *)
Theorem C05_car_groups_zero_mean :
  forall R rO rI radd rmul rsub rdiv ropp rinv rleb reqb,
  ordered_field R rO rI radd rmul rsub rdiv ropp rinv rleb reqb ->
  forall coll (x out : list (list R)) c j, rect R x -> coll <> [] ->
  car R rO rI radd rsub rdiv rleb 1 (Some coll) x = Some out -> In c coll -> (j < ncols R x)%nat ->
  mean R rO rI radd rdiv (col R rO j (gather [] (pos c coll) out)) = rO.
Proof. intros until 1. destruct H as (F & T & C & L & E). eapply car_grouped_zero_mean; eauto. Qed.
Print Assumptions C05_car_groups_zero_mean.

(* ---- kfilt / fk with channel groups ------------------------------------- *)

(* kfilt(x, collection, lagc, butter_kwargs, gpu): every group's rows are the
   kfilt of that group alone with the same lagc, butter_kwargs (default resolved)
   and gpu, and with ntr_pad = 0, ntr_tap = None.  `base` = kfilt without collection. *)
Theorem C05_kfilt_groups_same_settings :
  forall R (rO : R) base p coll (x out : list (list R)) c,
  (forall q m, length (base q m) = length m) -> coll <> [] ->
  kfilt R rO base p (Some coll) x = Some out -> In c coll ->
  length out = length x /\
  exists q, gather [] (pos c coll) out = base q (gather [] (pos c coll) x) /\
            k_lagc q = k_lagc p /\ k_gpu q = k_gpu p /\
            k_butter q = (if (k_butter p =? -1)%Z then 0%Z else k_butter p) /\
            k_ntr_pad q = 0%Z /\ k_ntr_tap q = (-1)%Z.
Proof.
  intros R rO base p coll x out c Hb Hne H Hc.
  destruct (kfilt_groups R rO base p coll x out c Hb Hne H Hc) as [A B].
  split; [exact A|]. exists (kfilt_forward p). split; [exact B|]. apply kfilt_forward_settings.
Qed.
Print Assumptions C05_kfilt_groups_same_settings.

(* fk(x, collection, ...): every group's rows are fk of that group alone with ALL
   the caller's settings (si, dx, vbounds, btype, ntr_pad, ntr_tap, lagc, kfilt) *)
Theorem C05_fk_groups_same_settings :
  forall R (rO : R) base (p : fk_params) coll (x out : list (list R)) c,
  (forall q m, length (base q m) = length m) -> coll <> [] ->
  fk R rO base p (Some coll) x = Some out -> In c coll ->
  length out = length x /\
  gather [] (pos c coll) out = base p (gather [] (pos c coll) x).
Proof. exact fk_groups. Qed.
Print Assumptions C05_fk_groups_same_settings.

(* ---- gain control --------------------------------------------------------- *)

(* agc(x, wl, si, epsilon) over an ordered field (order_axioms: <=? is a total-order test
   compatible with + and *, |.| >= 0 and vanishes only at 0), for a non-negative window
   whose centre tap is non-zero (every Hann window of odd length >= 3, and [1]) and
   epsilon > 0:  data and gain have the input's shape and
       data[i][j] * gain[i][j] = x[i][j]      at EVERY sample of EVERY channel;
   on a live channel (gain sums to non-zero) no gain sample vanishes, so data = x / gain
   is a genuine division; a dead channel is returned unchanged and is identically zero. *)
Theorem C05_agc_product :
  forall R rO rI radd rmul rsub rdiv ropp rinv rleb reqb (rabs : R -> R),
  ordered_field R rO rI radd rmul rsub rdiv ropp rinv rleb reqb ->
  order_axioms R rO rI radd rmul rleb rabs ->
  forall (w : list R) (eps : R),
  Forall (fun v => rleb rO v = true) w ->
  w <> [] /\ nth ((length w - 1) / 2) w rO <> rO ->
  rleb rO eps = true -> eps <> rO ->
  forall (x : list (list R)) i j, (i < length x)%nat -> (j < length (nth i x []))%nat ->
  let r := nth i x [] in
  let o := nth i (fst (agc R rO rI radd rmul rdiv reqb rabs w eps x)) [] in
  let g := nth i (snd (agc R rO rI radd rmul rdiv reqb rabs w eps x)) [] in
  length o = length r /\ length g = length r /\
  rmul (nth j o rO) (nth j g rO) = nth j r rO /\
  (rsum R rO radd g <> rO -> nth j g rO <> rO) /\
  (rsum R rO radd g = rO -> o = r /\ nth j r rO = rO).
Proof. exact agc_product. Qed.
Print Assumptions C05_agc_product.

(* without the order hypotheses (any field): shapes; a dead channel is returned unchanged;
   on a live channel data * gain = input wherever the gain sample is non-zero *)
Theorem C05_agc_product_any_field :
  forall R rO rI radd rmul rsub rdiv ropp rinv rleb reqb (rabs : R -> R),
  ordered_field R rO rI radd rmul rsub rdiv ropp rinv rleb reqb ->
  forall w eps (x : list (list R)) i, (i < length x)%nat ->
  let r := nth i x [] in
  let o := nth i (fst (agc R rO rI radd rmul rdiv reqb rabs w eps x)) [] in
  let g := nth i (snd (agc R rO rI radd rmul rdiv reqb rabs w eps x)) [] in
  length (fst (agc R rO rI radd rmul rdiv reqb rabs w eps x)) = length x /\
  length (snd (agc R rO rI radd rmul rdiv reqb rabs w eps x)) = length x /\
  length o = length r /\ length g = length r /\
  (rsum R rO radd g = rO -> o = r) /\
  (rsum R rO radd g <> rO -> forall j, (j < length r)%nat -> nth j g rO <> rO ->
     rmul (nth j o rO) (nth j g rO) = nth j r rO).
Proof.
  intros until 1. destruct H as (F & T & C & L & E). intros w eps x i Hi.
  exact (agc_spec R rO rI radd rmul rsub rdiv ropp rinv rleb reqb rabs F T C L E w eps x i Hi).
Qed.
Print Assumptions C05_agc_product_any_field.

(* ---- destripe: channels outside the brain --------------------------------- *)

(* the spatial step of destripe: shape preserved; rows whose label is 3 are returned
   as they entered (as produced by the interpolation step); the rows handed to the
   spatial filter are exactly those with label <> 3, in channel order, and they are
   replaced by the filter's output; the index vector is characterised. *)
Theorem C05_outside_excluded :
  forall R (spatial : list (list R) -> list (list R)) labels (x : list (list R)),
  (forall m, length (spatial m) = length m) -> length labels = length x ->
  let y := spatial_step R spatial labels x in
  length y = length x /\
  (forall i, (i < length labels)%nat -> nth i labels 0%Z = 3%Z -> nth i y [] = nth i x []) /\
  gather [] (inside_brain labels) y = spatial (gather [] (inside_brain labels) x) /\
  (forall i, In i (inside_brain labels) <-> (i < length labels)%nat /\ nth i labels 0%Z <> 3%Z) /\
  NoDup (inside_brain labels).
Proof.
  intros R spatial labels x Hs HL.
  destruct (spatial_step_spec R spatial labels x Hs HL) as (A & B & C). cbv zeta.
  split; [exact A|]. split.
  - intros i Hi H3. apply B. intros Hin. apply inside_brain_spec in Hin. tauto.
  - split; [exact C|]. split; [apply inside_brain_spec|].
    apply incr_from_NoDup with O. apply positions_ne_incr.
Qed.
Print Assumptions C05_outside_excluded.

(* the data of channels labelled 3 is not an input of the spatial filter *)
Theorem C05_outside_not_an_input :
  forall R labels (x x' : list (list R)),
  (forall i, (i < length labels)%nat -> nth i labels 0%Z <> 3%Z -> nth i x [] = nth i x' []) ->
  gather ([] : list R) (inside_brain labels) x = gather [] (inside_brain labels) x'.
Proof.
  intros R labels x x' H. apply spatial_input_independent.
  intros i Hi. apply inside_brain_spec in Hi. now apply H.
Qed.
Print Assumptions C05_outside_not_an_input.

(* the order of destripe's stages is fixed: temporal filter, ADC re-alignment, bad-channel
   interpolation, spatial filter (stage codes 1, 2, 3, 4; 2 absent without a probe version,
   3 absent without labels); the trace compared with the implementation lists these codes *)
Theorem C05_destripe_stage_order :
  forall R butter1 fshift1 interp spatial shifts labels (x : list (list R)) nc,
  destripe R butter1 fshift1 interp spatial shifts labels x =
  fold_left (apply_stage R butter1 fshift1 interp spatial shifts labels)
            (stage_codes (match shifts with Some _ => true | None => false end) labels) x /\
  map fst (destripe_trace nc (match shifts with Some _ => true | None => false end) labels) =
  stage_codes (match shifts with Some _ => true | None => false end) labels.
Proof.
  intros. split; [symmetry; apply destripe_staged_eq|apply destripe_trace_codes].
Qed.
Print Assumptions C05_destripe_stage_order.

(* the order matters: interpolating before re-aligning gives a different array (Q witness) *)
Theorem C05_stage_order_matters :
  let run codes := fold_left (apply_stage Q (fun r => r) q_add_all q_interp (fun m => m)
                                (Some order_demo_shifts) (Some [0%Z; 1%Z])) codes order_demo_in in
  run [1%Z; 2%Z; 3%Z; 4%Z] <> run [1%Z; 3%Z; 2%Z; 4%Z].
Proof.
  cbv zeta. destruct stage_order_matters as [-> ->]. discriminate.
Qed.
Print Assumptions C05_stage_order_matters.

(* kfilt and fk bodies (after the repair 808a76c: ntr_pad = min(int(ntr_pad), nx)): for EVERY
   ntr_pad >= 0 (also larger than the number of channels), every ntr_tap and every gain-control
   setting the result has as many channels as the input, provided the inner filter (sosfiltfilt
   along channels / the f-k multiplication) preserves the shape and the taper vector has the
   padded length.  Consequently the spatial step of destripe with the k-filter is defined for
   every label vector, however few channels are inside the brain. *)
Theorem C05_kfilt_fk_preserve_channel_count :
  forall R rO rI radd rmul rsub rdiv ropp rinv rleb reqb (rabs : R -> R),
  ordered_field R rO rI radd rmul rsub rdiv ropp rinv rleb reqb ->
  forall taper eps window, (forall nxp tap, length (taper nxp tap) = nxp) ->
  (forall H p (x : list (list R)), (forall b m, length (H b m) = length m) ->
     length (kfilt_base R rO rI radd rmul rdiv reqb rabs H taper window eps p x) = length x) /\
  (forall F p (x : list (list R)), (forall q m, length (F q m) = length m) ->
     length (fk_base R rO rI radd rmul rdiv reqb rabs F taper window eps p x) = length x) /\
  (forall H p labels (x : list (list R)), (forall b m, length (H b m) = length m) ->
     length labels = length x ->
     let y := spatial_step R (kfilt_base R rO rI radd rmul rdiv reqb rabs H taper window eps p) labels x in
     length y = length x /\
     gather [] (inside_brain labels) y =
     kfilt_base R rO rI radd rmul rdiv reqb rabs H taper window eps p (gather [] (inside_brain labels) x)).
Proof.
  intros until 1. destruct H as (F & T & C & L & E). intros taper eps window HT.
  split; [|split].
  - intros H p x HL. now apply (kfilt_base_length R rO rI radd rmul rsub rdiv ropp rinv rleb reqb rabs F T C L E).
  - intros Ff p x HL. now apply (fk_base_length R rO rI radd rmul rsub rdiv ropp rinv rleb reqb rabs F T C L E).
  - intros H p labels x HL Hlab.
    destruct (spatial_step_spec R (kfilt_base R rO rI radd rmul rdiv reqb rabs H taper window eps p) labels x)
      as (A & _ & B); auto.
    intros m. now apply (kfilt_base_length R rO rI radd rmul rsub rdiv ropp rinv rleb reqb rabs F T C L E).
Qed.
Print Assumptions C05_kfilt_fk_preserve_channel_count.

(* channel_labels=True: the labels come from detect_bad_channels on the RAW input; everything
   proved for given labels applies to them (label-3 rows untouched by the spatial filter, the
   others handed to it in order); the trace starts with the detection stage *)
Theorem C05_destripe_autodetect :
  forall R detect butter1 fshift1 interp spatial shifts (x : list (list R)) nc,
  destripe_detect R detect butter1 fshift1 interp spatial shifts x =
  destripe R butter1 fshift1 interp spatial shifts (Some (detect x)) x /\
  map fst (destripe_trace_detect nc (match shifts with Some _ => true | None => false end) (detect x)) =
  5%Z :: stage_codes (match shifts with Some _ => true | None => false end) (Some (detect x)).
Proof.
  intros. split; [reflexivity|]. unfold destripe_trace_detect. cbn [map fst]. f_equal.
  apply destripe_trace_codes.
Qed.
Print Assumptions C05_destripe_autodetect.

(* fk's argument guards: an unknown btype or missing vbounds makes the call fail (also through a
   non-empty collection); with valid arguments the guarded function is fk *)
Theorem C05_fk_argument_guards :
  forall R (rO : R) base p coll (x : list (list R)),
  (fk_args_ok p = true -> fk_checked R rO base p coll x = fk R rO base p coll x) /\
  (fk_args_ok p = false -> coll <> Some [] -> fk_checked R rO base p coll x = None).
Proof.
  intros R rO base p coll x. unfold fk_checked. split.
  - intros ->. destruct coll as [[|c l]|]; reflexivity.
  - intros -> H. destruct coll as [[|c l]|]; try reflexivity. congruence.
Qed.
Print Assumptions C05_fk_argument_guards.

(* ---- the exact-arithmetic limit of "at least 40 dB" ------------------------ *)

(* car on channels that all carry the same waveform returns exactly zero (both operators) *)
Theorem C05_car_annihilates_common_signal :
  forall R rO rI radd rmul rsub rdiv ropp rinv rleb reqb,
  ordered_field R rO rI radd rmul rsub rdiv ropp rinv rleb reqb ->
  forall op (x : list (list R)) r, (op = 0 \/ op = 1)%Z -> x <> [] -> all_rows R x r ->
  all_zero R rO (car_base R rO rI radd rsub rdiv rleb op x).
Proof. intros until 1. destruct H as (F & T & C & L & E). eapply car_base_kills_common; eauto. Qed.
Print Assumptions C05_car_annihilates_common_signal.

(* kfilt (gain control, mirrored padding, high-pass H along channels, unpadding,
   gain restored; no taper, as in destripe) on channels that all carry the same
   waveform returns exactly zero, provided H returns zero on blocks of equal rows
   (a linear high-pass annihilating channel-constant input). *)
Theorem C05_kfilt_annihilates_common_signal :
  forall R rO rI radd rmul rsub rdiv ropp rinv rleb reqb (rabs : R -> R),
  ordered_field R rO rI radd rmul rsub rdiv ropp rinv rleb reqb ->
  forall H taper window eps,
  (forall b m r, all_rows R m r -> all_zero R rO (H b m)) ->
  forall p (x : list (list R)) r,
  (k_ntr_tap p = 0 \/ (k_ntr_tap p = -1 /\ k_ntr_pad p <= 0))%Z -> all_rows R x r ->
  all_zero R rO (kfilt_base R rO rI radd rmul rdiv reqb rabs H taper window eps p x).
Proof. intros until 1. destruct H as (F & T & C & L & E). intros. eapply kfilt_base_kills_common; eauto. Qed.
Print Assumptions C05_kfilt_annihilates_common_signal.

(* destripe (no labels): if re-aligning every temporally filtered channel by its own
   ADC delay yields one common waveform u (C07: fshift is an exact fractional delay of
   a band-limited periodic signal), and the spatial filter annihilates blocks of equal
   rows (the two theorems above), the output is exactly zero. *)
Theorem C05_stripe_annihilated :
  forall R (rO : R) butter1 fshift1 interp spatial shifts (x : list (list R)) u,
  length shifts = length x ->
  (forall c, (c < length x)%nat -> fshift1 (nth c shifts rO) (butter1 (nth c x [])) = u) ->
  (forall m, all_rows R m u -> all_zero R rO (spatial m)) ->
  all_zero R rO (destripe R butter1 fshift1 interp spatial (Some shifts) None x).
Proof. exact destripe_kills_aligned_stripe. Qed.
Print Assumptions C05_stripe_annihilated.

(* The same with the alignment step made concrete (joint with C07 and C08).
   C, w, `setting`: C07's field with involution and the FFT twiddle (C = the complex
   numbers, w k = e^{2 pi i k/n}); `phase s k` = np.exp(1j*np.angle(rfft(dephas))[k]*s)
   with C07's hypotheses (phase(-s)*phase(s) = 1, DC factor 1); dly k = the shift k/n_cycles.
   A real trigonometric polynomial with all harmonics strictly below Nyquist (`stripe`,
   `band_limited`) hits all channels at the same instant; channel c records it ADVANCED by
   its slot in the ADC cycle, `shift_closed g c` / n_cycles (`recorded`).  destripe shifts
   row c with C07's fshift (`fshift_rows`) by the table that C08's model of
   neuropixel.adc_shifts returns (`adc_shifts g nc = Some (tbl, _)`).  Then the re-aligned
   rows all equal the un-skewed waveform, and car (both operators) and the kfilt body
   return exactly zero.  (The temporal Butterworth step is not part of this statement:
   sosfiltfilt is not shift-equivariant at the window edges — see finding F-C05-d.) *)
Theorem C05_stripe_annihilated_joint :
  forall (C : Type) (c0 c1 : C) (cadd cmul : C -> C -> C) (copp cinv cconj : C -> C) (n : nat) (w : Z -> C)
         (rleb reqb : C -> C -> bool) (Sh : Type) (shopp : Sh -> Sh) (phase : Sh -> nat -> C),
  C07.Proofs.setting C c0 c1 cadd cmul copp cinv cconj n w ->
  ordered_field C c0 c1 cadd cmul (C07.Sums.fsub C cadd copp) (C07.Sums.fdiv C cmul cinv) copp cinv rleb reqb ->
  (forall s k, cmul (phase (shopp s) k) (phase s k) = c1) ->
  (forall s, phase s 0%nat = c1) ->
  forall (g : C08.Model.gen) (nc : nat) tbl adcs,
  (1 <= nc <= C08.Model.NC)%nat -> C08.Model.adc_shifts g nc = Some (tbl, adcs) ->
  forall (dly : Z -> Sh) (dc : C) (terms : list (C * nat)),
  (2 <= n)%nat -> cconj dc = dc -> band_limited C n terms ->
  let x := map (fun c => recorded C cadd cmul cconj n w Sh shopp phase dc terms
                           (dly (C08.Model.shift_closed g c))) (zrange nc) in
  let ps := map (fun k => table C n Sh phase (dly k)) tbl in
  exists x2,
    C07.Model.fshift_rows C c0 c1 cadd cmul cinv cconj n w ps x = Some x2 /\
    length x2 = nc /\ all_rows C x2 (common C c1 cadd cmul cconj n w dc terms) /\
    (forall op, (op = 0 \/ op = 1)%Z ->
       all_zero C c0 (car_base C c0 c1 cadd (C07.Sums.fsub C cadd copp) (C07.Sums.fdiv C cmul cinv) rleb op x2)) /\
    (forall rabs H taper window eps p,
       (forall b m r, all_rows C m r -> all_zero C c0 (H b m)) ->
       (k_ntr_tap p = 0 \/ (k_ntr_tap p = -1 /\ k_ntr_pad p <= 0))%Z ->
       all_zero C c0 (kfilt_base C c0 c1 cadd cmul (C07.Sums.fdiv C cmul cinv) reqb rabs H taper window eps p x2)).
Proof. exact stripe_annihilated_joint. Qed.
Print Assumptions C05_stripe_annihilated_joint.

(* ---- ADC delay table ------------------------------------------------------- *)

(* adc_shifts: channel c of the 384 sits in slot (c mod 2*adc_channels) / 2 of its
   ADC's sampling cycle, i.e. its delay is that slot / n_cycles, in [0, 1) sample
   (NP1 / NPultra: 12 of 13 cycles; NP2: 16 of 16). *)
Theorem C05_adc_delay_table : forall ver c, (0 <= c < 384)%Z ->
  let ac := fst (adc_params ver) in
  (adc_shift_num ver c = (c mod (2 * ac)) / 2 /\ 0 <= adc_shift_num ver c < ac /\
   ac <= snd (adc_params ver))%Z.
Proof. exact adc_closed_form. Qed.
Print Assumptions C05_adc_delay_table.

(* ---- non-vacuity ------------------------------------------------------------- *)
(* the carrier hypotheses hold for the canonical rationals (Leibniz equality) *)
Example C05_ordered_field_inhabited :
  ordered_field Qc 0%Qc 1%Qc Qcplus Qcmult Qcminus Qcdiv Qcopp Qcinv qcleb qceqb.
Proof. exact ordered_field_Qc. Qed.
Print Assumptions C05_ordered_field_inhabited.
Example C05_order_axioms_inhabited : order_axioms Qc 0%Qc 1%Qc Qcplus Qcmult qcleb Qcabs.Qcabs.
Proof. exact order_axioms_Qc. Qed.
Print Assumptions C05_order_axioms_inhabited.

(* the theorems applied to a concrete, non-trivial input over Qc: all hypotheses are met
   (3 channels x 2 samples, groups {0,2} and {1}) *)
Example C05_instance_car_groups :
  exists out,
    car Qc 0%Qc 1%Qc Qcplus Qcminus Qcdiv qcleb 0 (Some ex_coll) ex_x = Some out /\
    median Qc 0%Qc 1%Qc Qcplus Qcdiv qcleb (col Qc 0%Qc 1 (gather [] (positions 7 ex_coll O) out)) = 0%Qc /\
    gather [] (positions 7 ex_coll O) out
      = car_base Qc 0%Qc 1%Qc Qcplus Qcminus Qcdiv qcleb 0 (gather [] (positions 7 ex_coll O) ex_x).
Proof.
  eexists. split; [reflexivity|]. split.
  - apply (C05_car_groups_zero_median Qc 0%Qc 1%Qc Qcplus Qcmult Qcminus Qcdiv Qcopp Qcinv qcleb qceqb
             ordered_field_Qc ex_coll ex_x _ 7%Z 1%nat ex_rect); [discriminate|reflexivity|now left|cbn; lia].
  - refine (proj1 (proj2 (proj2 (C05_car_groups_honour_operator Qc 0%Qc 1%Qc Qcplus Qcmult Qcminus Qcdiv Qcopp Qcinv
             qcleb qceqb ordered_field_Qc 0%Z ex_coll ex_x _ _ eq_refl))) 7%Z _); [discriminate|now left].
Qed.

(* agc's hypotheses on Qc: window [0; 1; 0] (Hann, 3 taps), epsilon = 1/8 *)
Example C05_instance_agc :
  let w := [0%Qc; 1%Qc; 0%Qc] in
  let eps := Q2Qc (1 # 8) in
  forall i j, (i < length ex_x)%nat -> (j < length (nth i ex_x []))%nat ->
  Qcmult (nth j (nth i (fst (agc Qc 0%Qc 1%Qc Qcplus Qcmult Qcdiv qceqb Qcabs.Qcabs w eps ex_x)) []) 0%Qc)
         (nth j (nth i (snd (agc Qc 0%Qc 1%Qc Qcplus Qcmult Qcdiv qceqb Qcabs.Qcabs w eps ex_x)) []) 0%Qc)
  = nth j (nth i ex_x []) 0%Qc.
Proof.
  intros w eps i j Hi Hj.
  refine (proj1 (proj2 (proj2 (C05_agc_product Qc 0%Qc 1%Qc Qcplus Qcmult Qcminus Qcdiv Qcopp Qcinv qcleb qceqb Qcabs.Qcabs
            ordered_field_Qc order_axioms_Qc w eps _ _ _ _ ex_x i j Hi Hj)))).
  - repeat constructor.
  - split; [discriminate|]. cbn. discriminate.
  - reflexivity.
  - discriminate.
Qed.

(* a spatial high-pass meeting the hypotheses of the kfilt theorems: the first difference
   along channels preserves the shape and annihilates blocks of equal rows *)
Example C05_instance_spatial_highpass :
  (forall b (m : list (list Qc)), length (diffH Qc Qcminus b m) = length m) /\
  (forall b m r, all_rows Qc m r -> all_zero Qc 0%Qc (diffH Qc Qcminus b m)).
Proof.
  split; [apply diffH_length|]. intros b m r. apply diffH_kills. exact Qc_sub_self.
Qed.

(* all hypotheses of the joint theorem hold together for the Gaussian rationals Qc[i], n = 4,
   w k = i^k, integer shifts; the theorem applied to NP1's table, 3 channels, the stripe
   2 + ((1+i) w^j + c.c.) *)
Example C05_instance_joint :
  C07.Proofs.setting JointInst.G JointInst.g0 JointInst.g1 JointInst.gadd JointInst.gmul JointInst.gopp
    JointInst.ginv JointInst.gconj 4 JointInst.w4 /\
  ordered_field JointInst.G JointInst.g0 JointInst.g1 JointInst.gadd JointInst.gmul
    (C07.Sums.fsub JointInst.G JointInst.gadd JointInst.gopp) (C07.Sums.fdiv JointInst.G JointInst.gmul JointInst.ginv)
    JointInst.gopp JointInst.ginv JointInst.gleb JointInst.geqb /\
  exists x2,
    C07.Model.fshift_rows JointInst.G JointInst.g0 JointInst.g1 JointInst.gadd JointInst.gmul JointInst.ginv
      JointInst.gconj 4 JointInst.w4
      (map (fun k => table JointInst.G 4 Z JointInst.phase4 k)
           (firstn 3 (map (C08.Model.shift_closed C08.Model.NP1) (zrange C08.Model.NC))))
      (map (fun c => recorded JointInst.G JointInst.gadd JointInst.gmul JointInst.gconj 4 JointInst.w4 Z Z.opp
                       JointInst.phase4 JointInst.inst_dc JointInst.inst_terms
                       (C08.Model.shift_closed C08.Model.NP1 c)) (zrange 3)) = Some x2 /\
    length x2 = 3%nat /\
    all_zero JointInst.G JointInst.g0
      (car_base JointInst.G JointInst.g0 JointInst.g1 JointInst.gadd
         (C07.Sums.fsub JointInst.G JointInst.gadd JointInst.gopp)
         (C07.Sums.fdiv JointInst.G JointInst.gmul JointInst.ginv) JointInst.gleb 0 x2) /\
    all_zero JointInst.G JointInst.g0
      (car_base JointInst.G JointInst.g0 JointInst.g1 JointInst.gadd
         (C07.Sums.fsub JointInst.G JointInst.gadd JointInst.gopp)
         (C07.Sums.fdiv JointInst.G JointInst.gmul JointInst.ginv) JointInst.gleb 1 x2).
Proof.
  split; [exact JointInst.G_setting|]. split; [exact JointInst.G_ordered_field|exact JointInst.joint_instance].
Qed.
Print Assumptions C05_instance_joint.

(* the model run on concrete inputs (Q instance of Run.v) *)
Local Open Scope Z_scope.

(* three channels, groups {0,2} and {1}, operator 'average' and 'median' *)
Example C05_example_car_groups :
  run [1; 1; 1; 3; 7; 2; 7;  3; 2; 1;  1; 5;  3; 2;  2; 9]
    = [1;  -1; 2; -2; 1;  0; 1; 0; 1;  1; 2; 2; 1] /\
  run [1; 0; 0; 0;  3; 2; 1;  1; 5;  3; 2;  2; 9] = [1; -1; 1; 0; 1;  1; 1; -3; 1;  0; 1; 4; 1] /\
  run [1; 0; 1; 2; 0; 1;  3; 1; 1;  4; 5; 6] = [0].
Proof. vm_compute. repeat split. Qed.

(* agc with the 3-tap window [0,1,0], epsilon 1/8: a live row and a dead row *)
Example C05_example_agc :
  run [2; 2; 1; 3; 1; 0; 1; 0; 1; 8; 2; 3; 1;  1; -2; 3;  0; 0; 0]
    = [1; 4; 5; -8; 9; 12; 13; 0; 1; 0; 1; 0; 1;  5; 4; 9; 4; 13; 4; 0; 1; 0; 1; 0; 1].
Proof. vm_compute. reflexivity. Qed.

(* labels 0 3 1 3 2: inside = [0;2;4], outside = [1;3]; kfilt forwarding of lagc / butter *)
Example C05_example_labels_and_forwarding :
  run [3; 5; 0; 3; 1; 3; 2] = [3; 0; 2; 4; 2; 1; 3] /\
  run [5; 60; 0; 7; -1; 0; 4; 2; 1; 2; 1] = [2;  1; 2; 1; 3; 0; -1; 7; 0; 0;  2; 2; 0; 2; 0; -1; 7; 0; 0].
Proof. vm_compute. split; reflexivity. Qed.
