(* C05 — property theorems.  Only statements closed by `exact <lemma>` (or a
   short wrapper) and the Print Assumptions that the check collects. *)
From Coq Require Import ZArith List Bool Lia Ring Field.
From IBL.lib Require Import PyInt.
From IBL.C05 Require Import Model Proofs.
Import ListNotations.

(* destripe: the rows handed to the spatial filter are exactly the channels whose
   label is not 3 ("outside the brain"), in channel order. *)
Theorem C05_inside_brain_indices : forall labels i,
  In i (inside_brain labels) <-> (i < length labels)%nat /\ nth i labels 0%Z <> 3%Z.
Proof. exact inside_brain_spec. Qed.
Print Assumptions C05_inside_brain_indices.
