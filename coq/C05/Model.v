(* C05 — executable model of the referencing / spatial-filter wrappers of
   src/ibldsp/voltage.py (car, kfilt, fk, agc, destripe) and of
   src/neuropixel.py:adc_shifts.  Definitions only; proofs are in Proofs.v,
   the property theorems in Props.v.

   The numeric definitions are polymorphic in a carrier R with operations
   (0, 1, +, *, -, /, <=?, =?, |.|): the theorems are proved for every field
   (so for the reals, the intended semantics of the NumPy code), the
   correspondence check runs the very same functions at R = Q (Run.v).

   Python (src/ibldsp/voltage.py)              model
   ------------------------------              -----
   np.median(x, axis=0) / np.mean(x, axis=0)   median / mean / col_stats
   car(x, None, operator)                      car_base
   car / kfilt / fk: `for c in np.unique(collection): sel = collection == c;
        xout[sel, :] = f(x[sel, :], ...)`      grouped  (np_unique, positions, gather, scatter)
   car(x, collection, operator)                car
   kfilt(..., collection=...) recursion        kfilt_forward / kfilt_calls / kfilt
   fk(..., collection=...) recursion           fk_forward / fk_calls / fk
   agc(x, wl, si, epsilon)                     agc_nswin / conv_same / agc_row / agc
   kfilt body (agc, mirror pad, taper,
        sosfiltfilt along channels, unpad)     spatial_body / kfilt_base / fk_base (filter abstract)
   destripe: butter ; fshift ; interpolate ;
        x[inside] = spatial(x[inside])         inside_brain / outside_brain / spatial_step / destripe
   neuropixel.adc_shifts                       adc_params / adc_id / adc_shift_num
*)
From Coq Require Import ZArith List Bool Lia.
From IBL.lib Require Import PyInt.
Import ListNotations.

(* ------------------------------------------------------------------ *)
(* Integer / index part (no carrier)                                   *)

(* np.unique on the label vector: ascending, duplicates removed *)
Fixpoint insert_u (x : Z) (l : list Z) : list Z :=
  match l with
  | [] => [x]
  | y :: t => if (x <? y)%Z then x :: l else if (x =? y)%Z then l else y :: insert_u x t
  end.
Definition np_unique (l : list Z) : list Z := fold_right insert_u [] l.

(* np.where(collection == c)[0], positions counted from i *)
Fixpoint positions (c : Z) (coll : list Z) (i : nat) : list nat :=
  match coll with
  | [] => []
  | a :: t => if (a =? c)%Z then i :: positions c t (S i) else positions c t (S i)
  end.

(* destripe: inside_brain = np.where(channel_labels != 3)[0] *)
Fixpoint positions_ne (c : Z) (coll : list Z) (i : nat) : list nat :=
  match coll with
  | [] => []
  | a :: t => if (a =? c)%Z then positions_ne c t (S i) else i :: positions_ne c t (S i)
  end.
Definition inside_brain (labels : list Z) : list nat := positions_ne 3 labels 0.
Definition outside_brain (labels : list Z) : list nat := positions 3 labels 0.

Section Rows.
  Variable T : Type.
  Variable dflt : T.

  (* x[idx] (rows) *)
  Definition gather (idx : list nat) (x : list T) : list T :=
    map (fun i => nth i x dflt) idx.

  Fixpoint set_nth (i : nat) (v : T) (l : list T) : list T :=
    match l, i with
    | [], _ => []
    | _ :: t, O => v :: t
    | a :: t, S k => a :: set_nth k v t
    end.

  (* out[idx] = rows (idx strictly increasing in every use) *)
  Fixpoint scatter (idx : list nat) (rows : list T) (out : list T) : list T :=
    match idx, rows with
    | i :: idx', r :: rows' => scatter idx' rows' (set_nth i r out)
    | _, _ => out
    end.
End Rows.
Arguments gather {T}. Arguments set_nth {T}. Arguments scatter {T}.

(* The per-collection loop shared by car / kfilt / fk:
     xout = np.zeros_like(x)
     for c in np.unique(collection):
         sel = collection == c
         xout[sel, :] = f(x[sel, :])
     return xout
   None = IndexError (boolean index of the wrong length); an empty collection
   runs no iteration and returns the zeros. *)
Section Grouped.
  Variable T : Type.
  Variable dflt : T.
  Variable zero_like : T -> T.

  Definition grouped_loop (f : list T -> list T) (coll : list Z) (x : list T) : list T :=
    fold_left (fun out c => let idx := positions c coll 0 in
                            scatter idx (f (gather dflt idx x)) out)
              (np_unique coll) (map zero_like x).

  Definition grouped (f : list T -> list T) (coll : list Z) (x : list T) : option (list T) :=
    match coll with
    | [] => Some (map zero_like x)
    | _ => if Nat.eqb (length coll) (length x) then Some (grouped_loop f coll x) else None
    end.
End Grouped.
Arguments grouped_loop {T}. Arguments grouped {T}.

(* ------------------------------------------------------------------ *)
(* kfilt / fk keyword forwarding in the per-collection recursion.       *)
(* Settings are kept as opaque integers (ids of dictionaries / values), *)
(* -1 stands for Python None.                                            *)

Record kfilt_params := {
  k_ntr_pad : Z; k_ntr_tap : Z; k_lagc : Z; k_butter : Z; k_gpu : Z }.

(* kfilt():  if butter_kwargs is None: butter_kwargs = {'N': 3, 'Wn': 0.1, 'btype': 'highpass'}
   (dictionary id 0 in the harness table) *)
Definition kfilt_defaults (p : kfilt_params) : kfilt_params :=
  {| k_ntr_pad := k_ntr_pad p; k_ntr_tap := k_ntr_tap p; k_lagc := k_lagc p;
     k_butter := if (k_butter p =? -1)%Z then 0%Z else k_butter p; k_gpu := k_gpu p |}.

(* kfilt(x=x[sel, :], ntr_pad=0, ntr_tap=None, lagc=lagc, collection=None,
         butter_kwargs=butter_kwargs, gpu=gpu) *)
Definition kfilt_forward (p : kfilt_params) : kfilt_params :=
  let q := kfilt_defaults p in
  {| k_ntr_pad := 0; k_ntr_tap := -1; k_lagc := k_lagc q; k_butter := k_butter q;
     k_gpu := k_gpu q |}.

Record fk_params := {
  f_si : Z; f_dx : Z; f_vbounds : Z; f_btype : Z; f_ntr_pad : Z; f_ntr_tap : Z;
  f_lagc : Z; f_kfilt : Z }.

(* fk(x[sel, :], si=si, dx=dx, vbounds=vbounds, btype=btype, ntr_pad=ntr_pad,
      ntr_tap=ntr_tap, lagc=lagc, collection=None, kfilt=kfilt) *)
Definition fk_forward (p : fk_params) : fk_params := p.

(* fk argument guards: `assert vbounds` (None / empty -> AssertionError; id -1 = None) and
   btype.lower() in {'highpass','hp'} (code 0) / {'lowpass','lp'} (code 1); any other string leaves
   fk_att unbound (UnboundLocalError).  With a non-empty collection every per-group call raises;
   an empty collection runs no call at all and returns zeros. *)
Definition fk_args_ok (p : fk_params) : bool :=
  (((f_btype p =? 0) || (f_btype p =? 1)) && negb (f_vbounds p =? -1))%Z.

(* the recursive calls made for a collection: (label, selected rows, settings) *)
Definition group_calls {P} (fwd : P) (coll : list Z) : list (Z * list nat * P) :=
  map (fun c => (c, positions c coll 0, fwd)) (np_unique coll).
Definition kfilt_calls (p : kfilt_params) (coll : list Z) := group_calls (kfilt_forward p) coll.
Definition fk_calls (p : fk_params) (coll : list Z) := group_calls (fk_forward p) coll.

(* ------------------------------------------------------------------ *)
(* neuropixel.adc_shifts(version, nc):
     adc = floor(arange(384) / (adc_channels * 2)) * 2 + mod(arange(384), 2)
     for a in adc: sample_shift[adc == a] = arange(adc_channels) / n_cycles
   version code: 1 -> NP1, 0 -> 'NPultra', 2 -> any version with floor = 2. *)
Definition adc_params (ver : Z) : Z * Z :=
  if (ver =? 2)%Z then (16, 16)%Z else (12, 13)%Z.      (* (adc_channels, n_cycles) *)
(* any other version (neither 1 / 'NPultra' nor floor(version) = 2) leaves adc_channels unbound:
   the call raises (UnboundLocalError) *)
Definition adc_version_ok (ver : Z) : bool := ((ver =? 0) || (ver =? 1) || (ver =? 2))%Z.
Definition adc_id (ver c : Z) : Z :=
  let ac := fst (adc_params ver) in (c / (ac * 2) * 2 + c mod 2)%Z.
Definition adc_table (ver : Z) : list Z := map (adc_id ver) (zrange 384).
(* the assignment gives the k-th channel of an ADC (in channel order) the shift k / n_cycles *)
Definition adc_shift_num (ver c : Z) : Z :=
  Z.of_nat (length (filter (fun c' => (adc_id ver c' =? adc_id ver c)%Z)
                           (zrange (Z.to_nat c)))).
Definition adc_shifts (ver nc : Z) : list (Z * Z) :=       (* (shift numerator, adc) ; denominator = n_cycles *)
  map (fun c => (adc_shift_num ver c, adc_id ver c)) (zrange (Z.to_nat (Z.min nc 384))).

(* ------------------------------------------------------------------ *)
(* Numeric part, polymorphic in the carrier                            *)
Section Numeric.
  Variable R : Type.
  Variables (rO rI : R) (radd rmul rsub rdiv : R -> R -> R).
  Variable rleb : R -> R -> bool.          (* a <= b *)
  Variable reqb : R -> R -> bool.          (* a == b *)
  Variable rabs : R -> R.

  Definition vec := list R.
  Definition mat := list (list R).        (* rows = channels, columns = samples *)

  Fixpoint of_nat (n : nat) : R :=
    match n with O => rO | S k => radd rI (of_nat k) end.
  Definition rsum (l : vec) : R := fold_right radd rO l.
  Definition two : R := radd rI rI.

  (* sorting as np.sort / np.partition order statistics *)
  Fixpoint insert (a : R) (l : vec) : vec :=
    match l with
    | [] => [a]
    | b :: t => if rleb a b then a :: l else b :: insert a t
    end.
  Definition sort (l : vec) : vec := fold_right insert [] l.

  (* np.median: middle order statistic, or the mean of the two middle ones *)
  Definition median (l : vec) : R :=
    let s := sort l in
    let n := length l in
    if Nat.even n then rdiv (radd (nth (n / 2 - 1) s rO) (nth (n / 2) s rO)) two
    else nth (n / 2) s rO.
  Definition mean (l : vec) : R := rdiv (rsum l) (of_nat (length l)).

  Definition col (j : nat) (x : mat) : vec := map (fun r => nth j r rO) x.
  Definition ncols (x : mat) : nat := match x with [] => O | r :: _ => length r end.
  (* np.<stat>(x, axis=0) *)
  Definition col_stats (stat : vec -> R) (x : mat) : vec :=
    map (fun j => stat (col j x)) (seq 0 (ncols x)).
  Definition vsub (a b : vec) : vec := map (fun p => rsub (fst p) (snd p)) (combine a b).
  Definition vmul (a b : vec) : vec := map (fun p => rmul (fst p) (snd p)) (combine a b).
  Definition vdiv (a b : vec) : vec := map (fun p => rdiv (fst p) (snd p)) (combine a b).
  Definition zero_row (r : vec) : vec := map (fun _ => rO) r.

  (* car(x, collection=None, operator):
       'median' -> x - np.median(x, axis=0) ; 'average' -> x - np.mean(x, axis=0) ;
       any other string -> x unchanged.   operator code 0 / 1 / other *)
  Definition car_base (op : Z) (x : mat) : mat :=
    if (op =? 0)%Z then let s := col_stats median x in map (fun r => vsub r s) x
    else if (op =? 1)%Z then let s := col_stats mean x in map (fun r => vsub r s) x
    else x.

  (* car(x, collection, operator): the recursion forwards `operator` *)
  Definition car (op : Z) (coll : option (list Z)) (x : mat) : option mat :=
    match coll with
    | None => Some (car_base op x)
    | Some c => grouped [] zero_row (car_base op) c x
    end.

  (* the same when x has an integer dtype: `xout = np.zeros_like(x)` has x's dtype and the
     assignment `xout[sel, :] = car(...)` casts the float result (cast = truncation towards
     zero for integers, identity for floats); without a collection the float result is returned *)
  Definition car_cast (cast : R -> R) (op : Z) (coll : option (list Z)) (x : mat) : option mat :=
    match coll with
    | None => Some (car_base op x)
    | Some c => grouped [] zero_row (fun m => map (map cast) (car_base op m)) c x
    end.

  (* kfilt / fk with a collection: the per-group call is the same function with
     the forwarded settings (base = the function without collection) *)
  Definition kfilt (base : kfilt_params -> mat -> mat) (p : kfilt_params)
             (coll : option (list Z)) (x : mat) : option mat :=
    match coll with
    | None => Some (base (kfilt_defaults p) x)
    | Some c => grouped [] zero_row (base (kfilt_forward p)) c x
    end.
  Definition fk (base : fk_params -> mat -> mat) (p : fk_params)
             (coll : option (list Z)) (x : mat) : option mat :=
    match coll with
    | None => Some (base p x)
    | Some c => grouped [] zero_row (base (fk_forward p)) c x
    end.
  (* with the argument guards: None = the call raises *)
  Definition fk_checked (base : fk_params -> mat -> mat) (p : fk_params)
             (coll : option (list Z)) (x : mat) : option mat :=
    match coll with
    | Some [] => fk base p coll x
    | _ => if fk_args_ok p then fk base p coll x else None
    end.

  (* ---------------- agc ---------------- *)
  (* fourier.convolve(a, w, mode='same') for an odd-length window: sample j of the
     linear convolution, centred:  sum_k w[k] * a[j + h - k],  h = (len w - 1) / 2 *)
  Definition conv_same (w a : vec) : vec :=
    let h := ((length w - 1) / 2)%nat in
    map (fun j => rsum (map (fun k =>
                   rmul (nth k w rO)
                        (if (k <=? j + h)%nat && (j + h - k <? length a)%nat
                         then nth (j + h - k) a rO else rO))
                 (seq 0 (length w))))
        (seq 0 (length a)).

  (* one row of agc:
       gain = convolve(|x|, w, 'same');  gain += sum(gain) * epsilon / ns
       dead = sum(gain) == 0 ;  x = x / gain on live rows
     returns (output row, gain row) *)
  Definition agc_gain (w : vec) (eps : R) (row : vec) : vec :=
    let g0 := conv_same w (map rabs row) in
    let s := rsum g0 in
    map (fun v => radd v (rdiv (rmul s eps) (of_nat (length row)))) g0.
  Definition agc_row (w : vec) (eps : R) (row : vec) : vec * vec :=
    let g := agc_gain w eps row in
    (if reqb (rsum g) rO then row else vdiv row g, g).
  Definition agc (w : vec) (eps : R) (x : mat) : mat * mat :=
    (map (fun r => fst (agc_row w eps r)) x, map (fun r => snd (agc_row w eps r)) x).

  (* ---------------- kfilt body ---------------- *)
  (* H : the zero-phase Butterworth high-pass along channels (scipy sosfiltfilt,
     axis=0), abstract.  taper nxp ntap : the cosine taper vector, abstract.
     window lagc : the normalised Hann window of agc(x, wl=lagc, si=1.0), abstract data.
     lagc <= 0 stands for `not lagc` (None or 0). *)
  Definition lastn {A} (n : nat) (l : list A) : list A := skipn (length l - n) l.
  (* the body shared by kfilt and fk after the repair 808a76c:
       ntr_pad = min(int(ntr_pad), nx); ntr_tap = ntr_pad if ntr_tap is None else ntr_tap
       gain control (optional), mirrored padding, taper, filter Hf, cropping, gain restored *)
  Definition spatial_body (Hf : mat -> mat) (taper : nat -> nat -> vec) (agcw : option vec)
             (eps : R) (ntr_pad ntr_tap : Z) (x : mat) : mat :=
    let nx := length x in
    let pad := Nat.min (Z.to_nat ntr_pad) nx in
    let tap := if (ntr_tap =? -1)%Z then pad else Z.to_nat ntr_tap in
    let nxp := (nx + 2 * pad)%nat in
    let xg := match agcw with
              | None => (x, None)
              | Some w => let a := agc w eps x in (fst a, Some (snd a))
              end in
    let xf := fst xg in
    let xf := if (0 <? pad)%nat then rev (firstn pad xf) ++ xf ++ rev (lastn pad xf) else xf in
    let xf := if (0 <? tap)%nat
              then map (fun p => map (rmul (fst p)) (snd p)) (combine (taper nxp tap) xf) else xf in
    let xf := Hf xf in
    let xf := if (0 <? pad)%nat then firstn (length xf - 2 * pad) (skipn pad xf) else xf in
    match snd xg with
    | None => xf
    | Some g => map (fun p => vmul (fst p) (snd p)) (combine xf g)
    end.

  Definition kfilt_base (H : Z -> mat -> mat) (taper : nat -> nat -> vec)
             (window : Z -> vec) (eps : R) (p : kfilt_params) (x : mat) : mat :=
    spatial_body (H (k_butter p)) taper
      (if (k_lagc p <=? 0)%Z then None else Some (window (k_lagc p))) eps
      (k_ntr_pad p) (k_ntr_tap p) x.

  (* fk body: F p = the f-k domain multiplication (fft2, attenuation, ifft2), abstract *)
  Definition fk_base (F : fk_params -> mat -> mat) (taper : nat -> nat -> vec)
             (window : Z -> vec) (eps : R) (p : fk_params) (x : mat) : mat :=
    spatial_body (F p) taper
      (if (f_lagc p <=? 0)%Z then None else Some (window (f_lagc p))) eps
      (f_ntr_pad p) (f_ntr_tap p) x.

  (* ---------------- destripe ---------------- *)
  (* x[inside_brain, :] = spatial_fcn(x[inside_brain, :]) *)
  Definition spatial_step (spatial : mat -> mat) (labels : list Z) (x : mat) : mat :=
    let ins := inside_brain labels in
    scatter ins (spatial (gather [] ins x)) x.

  (* destripe(x, fs, h, neuropixel_version, channel_labels, k_filter):
       x = sosfiltfilt(butter, x)                      (row by row: butter1)
       x = fshift(x, h['sample_shift'], axis=1)        (row c shifted by shifts[c]) unless version is None
       labels given -> x = interpolate_bad_channels(x, labels) ; spatial on rows with label != 3
       else         -> x = spatial(x) *)
  Definition destripe (butter1 : vec -> vec) (fshift1 : R -> vec -> vec)
             (interp : list Z -> mat -> mat) (spatial : mat -> mat)
             (shifts : option (list R)) (labels : option (list Z)) (x : mat) : mat :=
    let x1 := map butter1 x in
    let x2 := match shifts with
              | Some s => map (fun p => fshift1 (fst p) (snd p)) (combine s x1)
              | None => x1
              end in
    match labels with
    | Some lab => spatial_step spatial lab (interp lab x2)
    | None => spatial x2
    end.
  (* the same as an explicit, ordered list of stages (the order is part of the model):
       1 temporal Butterworth (sosfiltfilt along time, every row)
       2 ADC re-alignment (fshift, every row)          -- absent when neuropixel_version is None
       3 interpolate_bad_channels (every row)          -- only with channel labels
       4 spatial filter, on the rows with label != 3 (or on every row without labels) *)
  Definition stage_codes (has_shift : bool) (labels : option (list Z)) : list Z :=
    [1%Z] ++ (if has_shift then [2%Z] else []) ++
    match labels with Some _ => [3%Z; 4%Z] | None => [4%Z] end.

  Definition apply_stage (butter1 : vec -> vec) (fshift1 : R -> vec -> vec)
             (interp : list Z -> mat -> mat) (spatial : mat -> mat)
             (shifts : option (list R)) (labels : option (list Z)) (x : mat) (code : Z) : mat :=
    if (code =? 1)%Z then map butter1 x
    else if (code =? 2)%Z then
      match shifts with
      | Some s => map (fun p => fshift1 (fst p) (snd p)) (combine s x)
      | None => x
      end
    else if (code =? 3)%Z then
      match labels with Some lab => interp lab x | None => x end
    else if (code =? 4)%Z then
      match labels with Some lab => spatial_step spatial lab x | None => spatial x end
    else x.

  Definition destripe_staged (butter1 : vec -> vec) (fshift1 : R -> vec -> vec)
             (interp : list Z -> mat -> mat) (spatial : mat -> mat)
             (shifts : option (list R)) (labels : option (list Z)) (x : mat) : mat :=
    fold_left (apply_stage butter1 fshift1 interp spatial shifts labels)
              (stage_codes (match shifts with Some _ => true | None => false end) labels) x.
  (* channel_labels=True: the labels are computed from the RAW input by detect_bad_channels
     (before the temporal filter), then the call proceeds as with given labels;
     channel_labels=False is the same as None *)
  Definition destripe_detect (detect : mat -> list Z) (butter1 : vec -> vec) (fshift1 : R -> vec -> vec)
             (interp : list Z -> mat -> mat) (spatial : mat -> mat)
             (shifts : option (list R)) (x : mat) : mat :=
    destripe butter1 fshift1 interp spatial shifts (Some (detect x)) x.
End Numeric.

(* the observable trace of destripe: (stage code, number of rows handed to the stage) *)
Definition destripe_trace (nc : Z) (has_shift : bool) (labels : option (list Z)) : list (Z * Z) :=
  map (fun code => (code,
                    if (code =? 4)%Z then
                      match labels with
                      | Some lab => Z.of_nat (length (inside_brain lab))
                      | None => nc
                      end
                    else nc))
      ([1%Z] ++ (if has_shift then [2%Z] else []) ++
       match labels with Some _ => [3%Z; 4%Z] | None => [4%Z] end).

(* agc: ns_win = int(np.round(wl / si / 2) * 2 + 1) with wl / si = p / q (q > 0);
   np.round rounds halves to even. *)
Definition round_half_even (a b : Z) : Z :=        (* round(a / b), b > 0 *)
  let q := (a / b)%Z in
  let r := (a mod b)%Z in
  if (2 * r <? b)%Z then q
  else if (b <? 2 * r)%Z then (q + 1)%Z
  else if Z.even q then q else (q + 1)%Z.
Definition agc_nswin (p q : Z) : Z := (round_half_even p (2 * q) * 2 + 1)%Z.

(* with channel_labels=True the trace starts with the detection stage (code 5) on all rows *)
Definition destripe_trace_detect (nc : Z) (has_shift : bool) (detected : list Z) : list (Z * Z) :=
  (5%Z, nc) :: destripe_trace nc has_shift (Some detected).
