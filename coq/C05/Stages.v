(* C05 — the order of destripe's stages, and the integer-dtype path of car with groups. *)
From Coq Require Import ZArith List Bool Lia QArith.
From IBL.C05 Require Import Model Proofs Run.
Import ListNotations.

(* destripe = the fold of its stages in the order 1 (temporal filter), 2 (ADC
   re-alignment), 3 (bad-channel interpolation), 4 (spatial filter) *)
Lemma destripe_staged_eq R butter1 fshift1 interp spatial shifts labels (x : list (list R)) :
  destripe_staged R butter1 fshift1 interp spatial shifts labels x =
  destripe R butter1 fshift1 interp spatial shifts labels x.
Proof.
  unfold destripe_staged, destripe, stage_codes.
  destruct shifts as [s|], labels as [lab|]; reflexivity.
Qed.

Lemma destripe_trace_codes nc has_shift labels :
  map fst (destripe_trace nc has_shift labels) = stage_codes has_shift labels.
Proof.
  unfold destripe_trace, stage_codes. rewrite map_map. cbn [fst]. now rewrite map_id.
Qed.

(* interpolation and re-alignment do not commute: with the two stages swapped the model
   gives a different result already for 2 channels x 2 samples (Q instance: butter = id,
   fshift1 s = add s to every sample, interp = replace row 1 by row 0, spatial = id) *)
Definition q_add_all (s : Q) (r : list Q) : list Q := map (fun v => qadd v s) r.
Definition q_interp (_ : list Z) (x : list (list Q)) : list (list Q) :=
  match x with a :: _ :: t => a :: a :: t | _ => x end.
Definition order_demo_in : list (list Q) := [[1%Q; 2%Q]; [5%Q; 7%Q]].
Definition order_demo_shifts : list Q := [0%Q; 10%Q].

Lemma stage_order_matters :
  let run codes := fold_left (apply_stage Q (fun r => r) q_add_all q_interp (fun m => m)
                                (Some order_demo_shifts) (Some [0%Z; 1%Z])) codes order_demo_in in
  run [1%Z; 2%Z; 3%Z; 4%Z] = [[1%Q; 2%Q]; [1%Q; 2%Q]] /\
  run [1%Z; 3%Z; 2%Z; 4%Z] = [[1%Q; 2%Q]; [11%Q; 12%Q]].
Proof. vm_compute. split; reflexivity. Qed.

(* ---- integer dtype + collection: the scatter into zeros_like(x) truncates ---- *)
(* x = [[0],[0],[2]] (one group), operator 'average': exact result -2/3, -2/3, 4/3;
   the integer output is 0, 0, 1 whose mean is 1/3, not 0, and it differs from the
   per-group call. *)
Lemma car_int_groups_witness :
  qcar_int 1 (Some [0; 0; 0]%Z) [[0%Q]; [0%Q]; [2%Q]] = Some [[0%Q]; [0%Q]; [1%Q]] /\
  qcar 1 (Some [0; 0; 0]%Z) [[0%Q]; [0%Q]; [2%Q]] = Some [[(-2 # 3)%Q]; [(-2 # 3)%Q]; [(4 # 3)%Q]] /\
  mean Q q0 q1 qadd qdiv (col Q q0 0 [[0%Q]; [0%Q]; [1%Q]]) = (1 # 3)%Q.
Proof. vm_compute. repeat split. Qed.

