(* C05 — lemmas about the referencing / grouping / gain-control / destripe model. *)
From Coq Require Import ZArith List Bool Lia Arith Ring Field Permutation.
From IBL.lib Require Import PyInt.
From IBL.C05 Require Import Model.
Import ListNotations.

(* ------------------------------------------------------------------ *)
(* index vectors                                                        *)

Lemma positions_spec c coll : forall k i,
  In i (positions c coll k) <-> (k <= i < k + length coll)%nat /\ nth (i - k) coll 0%Z = c.
Proof.
  induction coll as [|a t IH]; intros k i; cbn [positions length].
  - split; [intros []|]. intros [H _]. lia.
  - destruct (Z.eqb_spec a c) as [E|E].
    + cbn [In]. rewrite IH. split.
      * intros [<-|[H1 H2]].
        -- split; [lia|]. now rewrite Nat.sub_diag.
        -- split; [lia|]. replace (i - k)%nat with (S (i - S k)) by lia. exact H2.
      * intros [H1 H2]. destruct (Nat.eq_dec k i) as [->|N]; [now left|right].
        split; [lia|]. replace (i - k)%nat with (S (i - S k)) in H2 by lia. exact H2.
    + rewrite IH. split.
      * intros [H1 H2]. split; [lia|]. replace (i - k)%nat with (S (i - S k)) by lia. exact H2.
      * intros [H1 H2]. destruct (Nat.eq_dec k i) as [->|N].
        -- rewrite Nat.sub_diag in H2. cbn in H2. contradiction.
        -- split; [lia|]. replace (i - k)%nat with (S (i - S k)) in H2 by lia. exact H2.
Qed.

Lemma positions_ne_spec c coll : forall k i,
  In i (positions_ne c coll k) <-> (k <= i < k + length coll)%nat /\ nth (i - k) coll 0%Z <> c.
Proof.
  induction coll as [|a t IH]; intros k i; cbn [positions_ne length].
  - split; [intros []|]. intros [H _]. lia.
  - destruct (Z.eqb_spec a c) as [E|E].
    + rewrite IH. split.
      * intros [H1 H2]. split; [lia|]. replace (i - k)%nat with (S (i - S k)) by lia. exact H2.
      * intros [H1 H2]. destruct (Nat.eq_dec k i) as [->|N].
        -- rewrite Nat.sub_diag in H2. cbn in H2. contradiction.
        -- split; [lia|]. replace (i - k)%nat with (S (i - S k)) in H2 by lia. exact H2.
    + cbn [In]. rewrite IH. split.
      * intros [<-|[H1 H2]].
        -- split; [lia|]. now rewrite Nat.sub_diag.
        -- split; [lia|]. replace (i - k)%nat with (S (i - S k)) by lia. exact H2.
      * intros [H1 H2]. destruct (Nat.eq_dec k i) as [->|N]; [now left|right].
        split; [lia|]. replace (i - k)%nat with (S (i - S k)) in H2 by lia. exact H2.
Qed.

(* strictly increasing index vectors *)
Inductive incr_from : nat -> list nat -> Prop :=
| incr_nil k : incr_from k []
| incr_cons k i l : (k <= i)%nat -> incr_from (S i) l -> incr_from k (i :: l).

Lemma incr_from_weaken k k' l : (k' <= k)%nat -> incr_from k l -> incr_from k' l.
Proof. intros H I. destruct I; constructor; [lia|assumption]. Qed.

Lemma positions_incr c coll : forall k, incr_from k (positions c coll k).
Proof.
  induction coll as [|a t IH]; intros k; cbn [positions]; [constructor|].
  destruct (a =? c)%Z.
  - constructor; [lia|apply IH].
  - apply incr_from_weaken with (S k); [lia|apply IH].
Qed.

Lemma positions_ne_incr c coll : forall k, incr_from k (positions_ne c coll k).
Proof.
  induction coll as [|a t IH]; intros k; cbn [positions_ne]; [constructor|].
  destruct (a =? c)%Z.
  - apply incr_from_weaken with (S k); [lia|apply IH].
  - constructor; [lia|apply IH].
Qed.

Lemma incr_from_lb k l i : incr_from k l -> In i l -> (k <= i)%nat.
Proof.
  intros I. induction I as [|k j l Hk I IH]; intros H; [destruct H|].
  destruct H as [<-|H]; [assumption|]. specialize (IH H). lia.
Qed.

Lemma incr_from_NoDup k l : incr_from k l -> NoDup l.
Proof.
  intros I. induction I as [|k j l Hk I IH]; constructor; [|assumption].
  intros H. pose proof (incr_from_lb _ _ _ I H). lia.
Qed.

Lemma inside_brain_spec labels i :
  In i (inside_brain labels) <-> (i < length labels)%nat /\ nth i labels 0%Z <> 3%Z.
Proof.
  unfold inside_brain. rewrite positions_ne_spec. rewrite Nat.sub_0_r. split; intros [H1 H2]; (split; [lia|exact H2]).
Qed.

Lemma outside_brain_spec labels i :
  In i (outside_brain labels) <-> (i < length labels)%nat /\ nth i labels 0%Z = 3%Z.
Proof.
  unfold outside_brain. rewrite positions_spec. rewrite Nat.sub_0_r. split; intros [H1 H2]; (split; [lia|exact H2]).
Qed.
