(* C05 — lemmas about the referencing / grouping / gain-control / destripe model. *)
From Coq Require Import ZArith List Bool Lia Arith Ring Field Permutation.
From IBL.lib Require Import PyInt.
From IBL.C05 Require Import Model.
Import ListNotations.

(* ------------------------------------------------------------------ *)
(* index vectors                                                        *)

Lemma positions_spec c coll : forall k i,
  In i (positions c coll k) <-> (k <= i < k + length coll)%nat /\ nth (i - k) coll 0%Z = c.
Proof.
  induction coll as [|a t IH]; intros k i; cbn [positions length].
  - split; [intros []|]. intros [H _]. lia.
  - destruct (Z.eqb_spec a c) as [E|E].
    + cbn [In]. rewrite IH. split.
      * intros [<-|[H1 H2]].
        -- split; [lia|]. now rewrite Nat.sub_diag.
        -- split; [lia|]. replace (i - k)%nat with (S (i - S k)) by lia. exact H2.
      * intros [H1 H2]. destruct (Nat.eq_dec k i) as [->|N]; [now left|right].
        split; [lia|]. replace (i - k)%nat with (S (i - S k)) in H2 by lia. exact H2.
    + rewrite IH. split.
      * intros [H1 H2]. split; [lia|]. replace (i - k)%nat with (S (i - S k)) by lia. exact H2.
      * intros [H1 H2]. destruct (Nat.eq_dec k i) as [->|N].
        -- rewrite Nat.sub_diag in H2. cbn in H2. contradiction.
        -- split; [lia|]. replace (i - k)%nat with (S (i - S k)) in H2 by lia. exact H2.
Qed.

Lemma positions_ne_spec c coll : forall k i,
  In i (positions_ne c coll k) <-> (k <= i < k + length coll)%nat /\ nth (i - k) coll 0%Z <> c.
Proof.
  induction coll as [|a t IH]; intros k i; cbn [positions_ne length].
  - split; [intros []|]. intros [H _]. lia.
  - destruct (Z.eqb_spec a c) as [E|E].
    + rewrite IH. split.
      * intros [H1 H2]. split; [lia|]. replace (i - k)%nat with (S (i - S k)) by lia. exact H2.
      * intros [H1 H2]. destruct (Nat.eq_dec k i) as [->|N].
        -- rewrite Nat.sub_diag in H2. cbn in H2. contradiction.
        -- split; [lia|]. replace (i - k)%nat with (S (i - S k)) in H2 by lia. exact H2.
    + cbn [In]. rewrite IH. split.
      * intros [<-|[H1 H2]].
        -- split; [lia|]. now rewrite Nat.sub_diag.
        -- split; [lia|]. replace (i - k)%nat with (S (i - S k)) by lia. exact H2.
      * intros [H1 H2]. destruct (Nat.eq_dec k i) as [->|N]; [now left|right].
        split; [lia|]. replace (i - k)%nat with (S (i - S k)) in H2 by lia. exact H2.
Qed.

(* strictly increasing index vectors *)
Inductive incr_from : nat -> list nat -> Prop :=
| incr_nil k : incr_from k []
| incr_cons k i l : (k <= i)%nat -> incr_from (S i) l -> incr_from k (i :: l).

Lemma incr_from_weaken k k' l : (k' <= k)%nat -> incr_from k l -> incr_from k' l.
Proof. intros H I. destruct I; constructor; [lia|assumption]. Qed.

Lemma positions_incr c coll : forall k, incr_from k (positions c coll k).
Proof.
  induction coll as [|a t IH]; intros k; cbn [positions]; [constructor|].
  destruct (a =? c)%Z.
  - constructor; [lia|apply IH].
  - apply incr_from_weaken with (S k); [lia|apply IH].
Qed.

Lemma positions_ne_incr c coll : forall k, incr_from k (positions_ne c coll k).
Proof.
  induction coll as [|a t IH]; intros k; cbn [positions_ne]; [constructor|].
  destruct (a =? c)%Z.
  - apply incr_from_weaken with (S k); [lia|apply IH].
  - constructor; [lia|apply IH].
Qed.

Lemma incr_from_lb k l i : incr_from k l -> In i l -> (k <= i)%nat.
Proof.
  intros I. induction I as [|k j l Hk I IH]; intros H; [destruct H|].
  destruct H as [<-|H]; [assumption|]. specialize (IH H). lia.
Qed.

Lemma incr_from_NoDup k l : incr_from k l -> NoDup l.
Proof.
  intros I. induction I as [|k j l Hk I IH]; constructor; [|assumption].
  intros H. pose proof (incr_from_lb _ _ _ I H). lia.
Qed.

Lemma inside_brain_spec labels i :
  In i (inside_brain labels) <-> (i < length labels)%nat /\ nth i labels 0%Z <> 3%Z.
Proof.
  unfold inside_brain. rewrite positions_ne_spec. rewrite Nat.sub_0_r. split; intros [H1 H2]; (split; [lia|exact H2]).
Qed.

Lemma outside_brain_spec labels i :
  In i (outside_brain labels) <-> (i < length labels)%nat /\ nth i labels 0%Z = 3%Z.
Proof.
  unfold outside_brain. rewrite positions_spec. rewrite Nat.sub_0_r. split; intros [H1 H2]; (split; [lia|exact H2]).
Qed.

(* ------------------------------------------------------------------ *)
(* gather / scatter                                                     *)
Section RowsProofs.
  Variable T : Type.
  Variable d : T.

  Lemma set_nth_length i (v : T) l : length (set_nth i v l) = length l.
  Proof. revert i; induction l as [|a t IH]; intros [|i]; cbn; auto. Qed.

  Lemma nth_set_nth_eq i (v : T) l : (i < length l)%nat -> nth i (set_nth i v l) d = v.
  Proof.
    revert i; induction l as [|a t IH]; intros [|i] H; cbn in *; try lia; auto. apply IH; lia.
  Qed.

  Lemma nth_set_nth_neq i j (v : T) l : i <> j -> nth j (set_nth i v l) d = nth j l d.
  Proof.
    revert i j; induction l as [|a t IH]; intros [|i] [|j] H; cbn; auto; try congruence.
  Qed.

  Lemma scatter_length idx : forall (rows out : list T),
    length (scatter idx rows out) = length out.
  Proof.
    induction idx as [|i idx IH]; intros [|r rows] out; cbn; auto.
    rewrite IH. apply set_nth_length.
  Qed.

  Lemma scatter_nth_notin idx : forall (rows out : list T) j,
    ~ In j idx -> nth j (scatter idx rows out) d = nth j out d.
  Proof.
    induction idx as [|i idx IH]; intros [|r rows] out j H; cbn; auto.
    rewrite IH by (intros H'; apply H; now right).
    apply nth_set_nth_neq. intros ->. apply H. now left.
  Qed.

  Lemma scatter_nth_in idx : forall (rows out : list T) k,
    NoDup idx -> length rows = length idx -> (forall i, In i idx -> (i < length out)%nat) ->
    (k < length idx)%nat ->
    nth (nth k idx O) (scatter idx rows out) d = nth k rows d.
  Proof.
    induction idx as [|i idx IH]; intros [|r rows] out k ND HL HB Hk; cbn in *; try lia.
    inversion ND as [|? ? Hni ND']; subst.
    destruct k as [|k].
    - rewrite scatter_nth_notin by assumption. apply nth_set_nth_eq. apply HB. now left.
    - apply IH; try assumption; try lia.
      intros j Hj. rewrite set_nth_length. apply HB. now right.
  Qed.

  Lemma gather_length idx (x : list T) : length (gather d idx x) = length idx.
  Proof. unfold gather. apply map_length. Qed.

  Lemma gather_scatter idx (rows out : list T) :
    NoDup idx -> length rows = length idx -> (forall i, In i idx -> (i < length out)%nat) ->
    gather d idx (scatter idx rows out) = rows.
  Proof.
    intros ND HL HB. apply nth_ext with (d := d) (d' := d).
    - rewrite gather_length. auto.
    - intros k Hk. rewrite gather_length in Hk. unfold gather.
      rewrite nth_indep with (d' := nth O (scatter idx rows out) d) by (rewrite map_length; exact Hk).
      rewrite map_nth with (d := O). now apply scatter_nth_in.
  Qed.

  Lemma gather_ext idx (a b : list T) :
    (forall i, In i idx -> nth i a d = nth i b d) -> gather d idx a = gather d idx b.
  Proof. intros H. unfold gather. apply map_ext_in. exact H. Qed.
End RowsProofs.

Lemma firstn_In_sub {A} (a : A) n l : In a (firstn n l) -> In a l.
Proof.
  revert l; induction n as [|n IH]; intros [|b t] H; cbn in *; try contradiction.
  destruct H as [->|H]; [now left|right; now apply IH].
Qed.

Lemma skipn_In_sub {A} (a : A) n l : In a (skipn n l) -> In a l.
Proof.
  revert l; induction n as [|n IH]; intros [|b t] H; cbn in *; try contradiction; auto.
Qed.

(* ------------------------------------------------------------------ *)
(* np.unique                                                            *)
Fixpoint ssorted (l : list Z) : Prop :=
  match l with [] => True | a :: t => (forall b, In b t -> (a < b)%Z) /\ ssorted t end.

Lemma insert_u_in x l y : In y (insert_u x l) <-> y = x \/ In y l.
Proof.
  induction l as [|a t IH]; cbn.
  - intuition.
  - destruct (Z.ltb_spec x a); [cbn; intuition|].
    destruct (Z.eqb_spec x a); [subst; cbn; intuition|].
    cbn. rewrite IH. intuition.
Qed.

Lemma insert_u_sorted x l : ssorted l -> ssorted (insert_u x l).
Proof.
  induction l as [|a t IH]; cbn; [intuition|]. intros [Ha Ht].
  destruct (Z.ltb_spec x a).
  - cbn. split; [|split; assumption]. intros b [<-|Hb]; [assumption|]. specialize (Ha b Hb). lia.
  - destruct (Z.eqb_spec x a); [cbn; split; assumption|].
    cbn. split; [|apply IH; assumption].
    intros b Hb. apply insert_u_in in Hb. destruct Hb as [->|Hb]; [lia|apply Ha; assumption].
Qed.

Lemma np_unique_in l y : In y (np_unique l) <-> In y l.
Proof.
  induction l as [|a t IH]; cbn; [tauto|]. rewrite insert_u_in, IH. intuition.
Qed.

Lemma np_unique_sorted l : ssorted (np_unique l).
Proof. induction l as [|a t IH]; cbn; [exact I|]. now apply insert_u_sorted. Qed.

Lemma ssorted_NoDup l : ssorted l -> NoDup l.
Proof.
  induction l as [|a t IH]; cbn; [constructor|]. intros [Ha Ht]. constructor; [|auto].
  intros H. specialize (Ha a H). lia.
Qed.

(* ------------------------------------------------------------------ *)
(* the per-collection loop                                              *)
Section GroupedProofs.
  Variable T : Type.
  Variable d : T.
  Variable zero_like : T -> T.
  Variable f : list T -> list T.
  Hypothesis f_length : forall l, length (f l) = length l.
  Set Default Proof Using "f_length".

  Local Notation pos c coll := (positions c coll O).

  Lemma positions_bound c coll i : In i (pos c coll) -> (i < length coll)%nat.
  Proof. intros H. apply positions_spec in H. lia. Qed.

  Lemma positions_disjoint c c' coll i : In i (pos c coll) -> In i (pos c' coll) -> c = c'.
  Proof.
    intros H H'. apply positions_spec in H. apply positions_spec in H'.
    destruct H as [_ H], H' as [_ H']. congruence.
  Qed.

  Definition gstep (coll : list Z) (x : list T) (out : list T) (c : Z) : list T :=
    scatter (pos c coll) (f (gather d (pos c coll) x)) out.

  Lemma fold_groups coll x : forall labels out,
    NoDup labels -> length out = length coll ->
    let out' := fold_left (gstep coll x) labels out in
    length out' = length out /\
    (forall c, In c labels -> gather d (pos c coll) out' = f (gather d (pos c coll) x)) /\
    (forall j, (forall c, In c labels -> ~ In j (pos c coll)) -> nth j out' d = nth j out d).
  Proof.
    induction labels as [|c labels IH]; intros out ND HL; cbn [fold_left].
    - split; [reflexivity|]. split; [intros c []|reflexivity].
    - inversion ND as [|? ? Hnc ND']; subst.
      assert (HL1 : length (gstep coll x out c) = length coll).
      { unfold gstep. rewrite scatter_length. exact HL. }
      destruct (IH (gstep coll x out c) ND' HL1) as [A [B C]].
      split; [rewrite A; unfold gstep; apply scatter_length|]. split.
      + intros c' [<-|Hc'].
        * rewrite gather_ext with (b := gstep coll x out c).
          -- unfold gstep. apply gather_scatter.
             ++ apply incr_from_NoDup with O. apply positions_incr.
             ++ rewrite f_length. apply gather_length.
             ++ intros i Hi. rewrite HL. now apply positions_bound with c.
          -- intros i Hi. apply C. intros c'' Hc'' Hi'.
             assert (c = c'') by (eapply positions_disjoint; eassumption). subst. contradiction.
        * now apply B.
      + intros j Hj. rewrite C by (intros c' Hc'; apply Hj; now right).
        unfold gstep. apply scatter_nth_notin. apply Hj. now left.
  Qed.

  (* grouped f coll x: every group's rows are f applied to that group's rows
     alone; shape preserved; every row belongs to exactly the group of its label *)
  Lemma grouped_spec coll x out :
    coll <> [] -> grouped d zero_like f coll x = Some out ->
    length coll = length x /\ length out = length x /\
    (forall c, In c coll ->
       gather d (pos c coll) out = f (gather d (pos c coll) x)) /\
    (forall i, (i < length x)%nat -> In i (pos (nth i coll 0%Z) coll)).
  Proof.
    intros Hne H. unfold grouped in H. destruct coll as [|c0 coll']; [congruence|].
    set (coll := c0 :: coll') in *.
    destruct (Nat.eqb_spec (length coll) (length x)) as [E|E]; [|discriminate].
    injection H as <-. unfold grouped_loop.
    pose proof (fold_groups coll x (np_unique coll) (map zero_like x)
                  (ssorted_NoDup _ (np_unique_sorted coll))) as F.
    rewrite map_length in F. specialize (F (eq_sym E)). cbv zeta in F.
    destruct F as [A [B C]].
    split; [exact E|]. split; [exact A|]. split.
    - intros c Hc. apply B. now apply np_unique_in.
    - intros i Hi. apply positions_spec. split; [lia|]. now rewrite Nat.sub_0_r.
  Qed.

  Lemma grouped_mismatch coll x :
    coll <> [] -> length coll <> length x -> grouped d zero_like f coll x = None.
  Proof.
    intros Hne H. unfold grouped. destruct coll; [congruence|].
    destruct (Nat.eqb_spec (length (z :: coll)) (length x)); [contradiction|reflexivity].
  Qed.
End GroupedProofs.

(* ------------------------------------------------------------------ *)
(* numeric part over an abstract field with a translation-invariant <=? *)
Section NumericProofs.
  Variable R : Type.
  Variables (rO rI : R) (radd rmul rsub rdiv : R -> R -> R) (ropp rinv : R -> R).
  Variable rleb : R -> R -> bool.
  Variable reqb : R -> R -> bool.
  Variable rabs : R -> R.
  Hypothesis Rth : field_theory rO rI radd rmul rsub ropp rdiv rinv (@eq R).
  Hypothesis two_neq : radd rI rI <> rO.
  Hypothesis char0 : forall n, of_nat R rO rI radd (S n) <> rO.
  Hypothesis rleb_translate : forall a b m, rleb (rsub a m) (rsub b m) = rleb a b.
  Hypothesis reqb_ok : forall a b, reqb a b = true <-> a = b.
  Add Field Rfield : Rth.
  Set Default Proof Using "Rth two_neq char0 rleb_translate reqb_ok".

  Local Notation ofn := (of_nat R rO rI radd).
  Local Notation rsum := (rsum R rO radd).
  Local Notation insert := (insert R rleb).
  Local Notation sort := (sort R rleb).
  Local Notation median := (median R rO rI radd rdiv rleb).
  Local Notation mean := (mean R rO rI radd rdiv).
  Local Notation col := (col R rO).
  Local Notation ncols := (ncols R).
  Local Notation col_stats := (col_stats R rO).
  Local Notation vsub := (vsub R rsub).
  Local Notation car_base := (car_base R rO rI radd rsub rdiv rleb).
  Local Notation car := (car R rO rI radd rsub rdiv rleb).
  Local Notation zero_row := (zero_row R rO).
  Local Notation two := (two R rI radd).

  Definition rect (x : list (list R)) : Prop := forall r, In r x -> length r = ncols x.

  (* --- sorting commutes with order-preserving maps --- *)
  Lemma insert_map (g : R -> R) (Hg : forall a b, rleb (g a) (g b) = rleb a b) a l :
    insert (g a) (map g l) = map g (insert a l).
  Proof.
    induction l as [|b t IH]; cbn; [reflexivity|].
    rewrite Hg. destruct (rleb a b); cbn; [reflexivity|]. now rewrite IH.
  Qed.

  Lemma sort_map (g : R -> R) (Hg : forall a b, rleb (g a) (g b) = rleb a b) l :
    sort (map g l) = map g (sort l).
  Proof.
    induction l as [|a t IH]; cbn; [reflexivity|].
    unfold Model.sort in *. cbn. rewrite IH. now apply insert_map.
  Qed.

  Lemma insert_length a l : length (insert a l) = S (length l).
  Proof. induction l as [|b t IH]; cbn; [reflexivity|]. destruct (rleb a b); cbn; auto. Qed.

  Lemma sort_length l : length (sort l) = length l.
  Proof.
    induction l as [|a t IH]; cbn; [reflexivity|]. unfold Model.sort in *. cbn.
    rewrite insert_length. now rewrite IH.
  Qed.

  Lemma nth_map_lt (g : R -> R) k l : (k < length l)%nat -> nth k (map g l) rO = g (nth k l rO).
  Proof.
    intros H. rewrite nth_indep with (d' := g rO) by (now rewrite map_length). apply map_nth.
  Qed.

  (* median is translation-equivariant *)
  Lemma median_translate m l : l <> [] ->
    median (map (fun v => rsub v m) l) = rsub (median l) m.
  Proof.
    intros Hne. unfold Model.median. rewrite map_length.
    rewrite sort_map by (intros; apply rleb_translate).
    assert (Hn : (0 < length l)%nat) by (destruct l; [congruence|cbn; lia]).
    pose proof (sort_length l) as HS.
    destruct (Nat.even (length l)) eqn:E.
    - assert (Hn2 : (2 <= length l)%nat).
      { destruct l as [|a [|b t]]; cbn in *; try lia; discriminate. }
      assert (H1 : (length l / 2 < length l)%nat) by (apply Nat.div_lt; lia).
      assert (H0 : (length l / 2 - 1 < length l)%nat) by lia.
      rewrite !nth_map_lt by (rewrite HS; assumption).
      unfold Model.two. field. exact two_neq.
    - assert (H1 : (length l / 2 < length l)%nat) by (apply Nat.div_lt; lia).
      rewrite nth_map_lt by (rewrite HS; assumption). reflexivity.
  Qed.

  Lemma rsum_translate m l :
    rsum (map (fun v => rsub v m) l) = rsub (rsum l) (rmul (ofn (length l)) m).
  Proof.
    induction l as [|a t IH]; cbn; [ring|]. unfold Model.rsum in *. cbn. rewrite IH. ring.
  Qed.

  Lemma mean_translate m l : l <> [] ->
    mean (map (fun v => rsub v m) l) = rsub (mean l) m.
  Proof.
    intros Hne. unfold Model.mean. rewrite map_length, rsum_translate.
    destruct l as [|a t]; [congruence|]. pose proof (char0 (length t)) as Hc.
    cbn [length]. field. exact Hc.
  Qed.

  (* --- columns of x - stat(x, axis=0) --- *)
  Lemma nth_vsub j r s : length r = length s -> (j < length r)%nat ->
    nth j (vsub r s) rO = rsub (nth j r rO) (nth j s rO).
  Proof.
    intros HL Hj. unfold Model.vsub.
    rewrite nth_indep with (d' := (fun p => rsub (fst p) (snd p)) (rO, rO))
      by (rewrite map_length, combine_length; lia).
    rewrite (map_nth (fun p : R * R => rsub (fst p) (snd p)) (combine r s) (rO, rO) j).
    rewrite combine_nth by assumption. reflexivity.
  Qed.

  Lemma col_stats_length stat x : length (col_stats stat x) = ncols x.
  Proof. unfold Model.col_stats. now rewrite map_length, seq_length. Qed.

  Lemma nth_col_stats stat x j : (j < ncols x)%nat ->
    nth j (col_stats stat x) rO = stat (col j x).
  Proof.
    intros Hj. unfold Model.col_stats.
    rewrite nth_indep with (d' := (fun j => stat (col j x)) O) by (now rewrite map_length, seq_length).
    rewrite (map_nth (fun j => stat (col j x)) (seq 0 (ncols x)) O j). now rewrite seq_nth.
  Qed.

  Lemma col_sub_stats stat x j : rect x -> (j < ncols x)%nat ->
    col j (map (fun r => vsub r (col_stats stat x)) x) =
    map (fun v => rsub v (stat (col j x))) (col j x).
  Proof.
    intros Hr Hj. unfold Model.col. rewrite !map_map. apply map_ext_in. intros r Hin.
    rewrite nth_vsub.
    - now rewrite nth_col_stats.
    - rewrite col_stats_length. now apply Hr.
    - rewrite (Hr r Hin). exact Hj.
  Qed.

  Lemma col_nonempty j x : x <> [] -> col j x <> [].
  Proof. destruct x; [congruence|]. discriminate. Qed.

  Lemma car_base_length op x : length (car_base op x) = length x.
  Proof. unfold Model.car_base. destruct (op =? 0)%Z; [|destruct (op =? 1)%Z]; now rewrite ?map_length. Qed.

  Lemma car_base_zero_median x j : rect x -> x <> [] -> (j < ncols x)%nat ->
    median (col j (car_base 0 x)) = rO.
  Proof.
    intros Hr Hne Hj. unfold Model.car_base. change (0 =? 0)%Z with true. cbv iota.
    rewrite col_sub_stats by assumption.
    rewrite median_translate by (now apply col_nonempty). ring.
  Qed.

  Lemma car_base_zero_mean x j : rect x -> x <> [] -> (j < ncols x)%nat ->
    mean (col j (car_base 1 x)) = rO.
  Proof.
    intros Hr Hne Hj. unfold Model.car_base. change (1 =? 0)%Z with false. change (1 =? 1)%Z with true. cbv iota.
    rewrite col_sub_stats by assumption.
    rewrite mean_translate by (now apply col_nonempty). ring.
  Qed.

  (* --- a group's rows form a rectangular, non-empty block of the same width --- *)
  Lemma gather_rect idx x : rect x -> idx <> [] -> (forall i, In i idx -> (i < length x)%nat) ->
    rect (gather [] idx x) /\ gather [] idx x <> [] /\ ncols (gather [] idx x) = ncols x.
  Proof.
    intros Hr Hne Hb.
    assert (Hrow : forall i, In i idx -> length (nth i x []) = ncols x).
    { intros i Hi. apply Hr. apply nth_In. now apply Hb. }
    assert (Hnc : ncols (gather [] idx x) = ncols x).
    { destruct idx as [|i idx]; [congruence|]. cbn. apply Hrow. now left. }
    split; [|split; [destruct idx; [congruence|discriminate]|exact Hnc]].
    intros r Hin. rewrite Hnc. unfold gather in Hin. apply in_map_iff in Hin.
    destruct Hin as [i [<- Hi]]. now apply Hrow.
  Qed.

  Lemma positions_nonempty c coll : In c coll -> positions c coll O <> [].
  Proof.
    intros Hin. apply In_nth with (d := 0%Z) in Hin. destruct Hin as [i [Hi Hc]].
    intros E. assert (H : In i (positions c coll O)).
    { apply positions_spec. split; [lia|]. now rewrite Nat.sub_0_r. }
    rewrite E in H. destruct H.
  Qed.

  Lemma car_grouped_block op coll x out c :
    coll <> [] -> car op (Some coll) x = Some out -> In c coll ->
    length out = length x /\
    gather [] (positions c coll O) out = car_base op (gather [] (positions c coll O) x).
  Proof.
    intros Hne H Hc. unfold Model.car in H.
    destruct (grouped_spec _ [] zero_row (car_base op) (car_base_length op) coll x out Hne H)
      as [_ [HL [HG _]]].
    split; [exact HL|]. now apply HG.
  Qed.

  Lemma car_grouped_zero_median coll x out c j :
    rect x -> coll <> [] -> car 0 (Some coll) x = Some out -> In c coll -> (j < ncols x)%nat ->
    median (col j (gather [] (positions c coll O) out)) = rO.
  Proof.
    intros Hr Hne H Hc Hj.
    pose proof H as H'. unfold Model.car in H'.
    destruct (grouped_spec _ [] zero_row (car_base 0) (car_base_length 0) coll x out Hne H')
      as [HLc [HL [HG _]]].
    rewrite (HG c Hc).
    destruct (gather_rect (positions c coll O) x Hr (positions_nonempty c coll Hc)) as [G1 [G2 G3]].
    { intros i Hi. rewrite <- HLc. apply positions_spec in Hi. lia. }
    apply car_base_zero_median; [assumption|assumption|now rewrite G3].
  Qed.

  Lemma car_grouped_zero_mean coll x out c j :
    rect x -> coll <> [] -> car 1 (Some coll) x = Some out -> In c coll -> (j < ncols x)%nat ->
    mean (col j (gather [] (positions c coll O) out)) = rO.
  Proof.
    intros Hr Hne H Hc Hj.
    pose proof H as H'. unfold Model.car in H'.
    destruct (grouped_spec _ [] zero_row (car_base 1) (car_base_length 1) coll x out Hne H')
      as [HLc [HL [HG _]]].
    rewrite (HG c Hc).
    destruct (gather_rect (positions c coll O) x Hr (positions_nonempty c coll Hc)) as [G1 [G2 G3]].
    { intros i Hi. rewrite <- HLc. apply positions_spec in Hi. lia. }
    apply car_base_zero_mean; [assumption|assumption|now rewrite G3].
  Qed.

  (* ---------------- agc ---------------- *)
  Local Notation conv_same := (conv_same R rO radd rmul).
  Local Notation agc_gain := (agc_gain R rO rI radd rmul rdiv rabs).
  Local Notation agc_row := (agc_row R rO rI radd rmul rdiv reqb rabs).
  Local Notation agc := (agc R rO rI radd rmul rdiv reqb rabs).
  Local Notation vdiv := (vdiv R rdiv).
  Local Notation vmul := (vmul R rmul).

  Lemma conv_same_length w a : length (conv_same w a) = length a.
  Proof. unfold Model.conv_same. now rewrite map_length, seq_length. Qed.

  Lemma agc_gain_length w eps row : length (agc_gain w eps row) = length row.
  Proof. unfold Model.agc_gain. now rewrite map_length, conv_same_length, map_length. Qed.

  Lemma nth_vdiv j r s : length r = length s -> (j < length r)%nat ->
    nth j (vdiv r s) rO = rdiv (nth j r rO) (nth j s rO).
  Proof.
    intros HL Hj. unfold Model.vdiv.
    rewrite nth_indep with (d' := (fun p => rdiv (fst p) (snd p)) (rO, rO))
      by (rewrite map_length, combine_length; lia).
    rewrite (map_nth (fun p : R * R => rdiv (fst p) (snd p)) (combine r s) (rO, rO) j).
    rewrite combine_nth by assumption. reflexivity.
  Qed.

  Lemma agc_row_spec w eps row :
    let o := fst (agc_row w eps row) in
    let g := snd (agc_row w eps row) in
    length o = length row /\ length g = length row /\
    (rsum g = rO -> o = row) /\
    (rsum g <> rO -> forall j, (j < length row)%nat -> nth j g rO <> rO ->
       rmul (nth j o rO) (nth j g rO) = nth j row rO).
  Proof.
    cbv zeta. unfold Model.agc_row. cbn [fst snd].
    pose proof (agc_gain_length w eps row) as HG.
    destruct (reqb (rsum (agc_gain w eps row)) rO) eqn:E.
    - apply reqb_ok in E. repeat split; auto. intros N. contradiction.
    - assert (N : rsum (agc_gain w eps row) <> rO).
      { intros H. apply reqb_ok in H. congruence. }
      split; [unfold Model.vdiv; rewrite map_length, combine_length; lia|].
      split; [exact HG|]. split; [intros H; contradiction|].
      intros _ j Hj Hnz. rewrite nth_vdiv by (auto; lia). field. exact Hnz.
  Qed.

  Lemma nth_map_rows {A} (F : list R -> A) (dA : A) (x : list (list R)) i :
    (i < length x)%nat -> nth i (map F x) dA = F (nth i x []).
  Proof.
    intros H. rewrite nth_indep with (d' := F []) by (now rewrite map_length). apply map_nth.
  Qed.

  Lemma agc_spec w eps x i : (i < length x)%nat ->
    let r := nth i x [] in
    let o := nth i (fst (agc w eps x)) [] in
    let g := nth i (snd (agc w eps x)) [] in
    length (fst (agc w eps x)) = length x /\ length (snd (agc w eps x)) = length x /\
    length o = length r /\ length g = length r /\
    (rsum g = rO -> o = r) /\
    (rsum g <> rO -> forall j, (j < length r)%nat -> nth j g rO <> rO ->
       rmul (nth j o rO) (nth j g rO) = nth j r rO).
  Proof.
    intros Hi. cbv zeta. unfold Model.agc. cbn [fst snd].
    rewrite !map_length. rewrite !nth_map_rows by assumption.
    split; [reflexivity|]. split; [reflexivity|]. apply agc_row_spec.
  Qed.

  (* ---------------- blocks of equal rows (a perfectly aligned common stripe) ---------------- *)
  Definition all_rows (x : list (list R)) (r : list R) : Prop := forall r', In r' x -> r' = r.
  Definition all_zero (x : list (list R)) : Prop := forall r', In r' x -> Forall (fun v => v = rO) r'.

  Lemma all_rows_repeat x r : all_rows x r -> x = repeat r (length x).
  Proof.
    intros H. induction x as [|a t IH]; cbn; [reflexivity|].
    rewrite (H a (or_introl eq_refl)). f_equal. apply IH. intros r' Hr'. apply H. now right.
  Qed.

  Lemma nth_repeat_lt {A} (v dd : A) n k : (k < n)%nat -> nth k (repeat v n) dd = v.
  Proof. revert k; induction n as [|n IH]; intros [|k] H; cbn; try lia; auto. apply IH. lia. Qed.

  Lemma insert_repeat v n : insert v (repeat v n) = repeat v (S n).
  Proof.
    induction n as [|n IH]; cbn; [reflexivity|]. destruct (rleb v v); [reflexivity|].
    cbn in IH. now rewrite IH.
  Qed.

  Lemma sort_repeat v n : sort (repeat v n) = repeat v n.
  Proof.
    induction n as [|n IH]; cbn; [reflexivity|]. unfold Model.sort in *. cbn. rewrite IH.
    apply insert_repeat.
  Qed.

  Lemma median_repeat v n : (0 < n)%nat -> median (repeat v n) = v.
  Proof.
    intros Hn. unfold Model.median. rewrite sort_repeat, repeat_length.
    destruct (Nat.even n) eqn:E.
    - assert (Hn2 : (2 <= n)%nat) by (destruct n as [|[|n]]; try lia; discriminate).
      assert (H1 : (n / 2 < n)%nat) by (apply Nat.div_lt; lia).
      rewrite !nth_repeat_lt by lia. unfold Model.two. field. exact two_neq.
    - apply nth_repeat_lt. apply Nat.div_lt; lia.
  Qed.

  Lemma rsum_repeat v n : rsum (repeat v n) = rmul (ofn n) v.
  Proof. induction n as [|n IH]; cbn; [ring|]. unfold Model.rsum in *. cbn. rewrite IH. ring. Qed.

  Lemma mean_repeat v n : (0 < n)%nat -> mean (repeat v n) = v.
  Proof.
    intros Hn. unfold Model.mean. rewrite rsum_repeat, repeat_length.
    destruct n as [|n]; [lia|]. pose proof (char0 n). field. assumption.
  Qed.

  Lemma col_repeat j r n : col j (repeat r n) = repeat (nth j r rO) n.
  Proof. unfold Model.col. induction n as [|n IH]; cbn; [reflexivity|]. now rewrite IH. Qed.

  Lemma map_nth_seq (r : list R) : map (fun j => nth j r rO) (seq 0 (length r)) = r.
  Proof.
    apply nth_ext with (d := rO) (d' := rO); [now rewrite map_length, seq_length|].
    intros k Hk. rewrite map_length, seq_length in Hk.
    rewrite nth_indep with (d' := (fun j => nth j r rO) O) by (now rewrite map_length, seq_length).
    rewrite (map_nth (fun j => nth j r rO) (seq 0 (length r)) O k). now rewrite seq_nth.
  Qed.

  Lemma col_stats_repeat stat r n : (0 < n)%nat -> (forall v, stat (repeat v n) = v) ->
    col_stats stat (repeat r n) = r.
  Proof.
    intros Hn Hs. unfold Model.col_stats.
    assert (E : ncols (repeat r n) = length r) by (destruct n; [lia|reflexivity]).
    rewrite E. rewrite <- (map_nth_seq r) at 2. apply map_ext. intros j.
    now rewrite col_repeat, Hs.
  Qed.

  Lemma vsub_self r : Forall (fun v => v = rO) (vsub r r).
  Proof.
    unfold Model.vsub. induction r as [|a t IH]; cbn; constructor; [ring|exact IH].
  Qed.

  (* car on a block whose rows are all equal returns zeros, for both operators *)
  Lemma car_base_kills_common op x r : (op = 0 \/ op = 1)%Z -> x <> [] -> all_rows x r ->
    all_zero (car_base op x).
  Proof.
    intros Hop Hne Hall. rewrite (all_rows_repeat x r Hall).
    assert (Hn : (0 < length x)%nat) by (destruct x; [congruence|cbn; lia]).
    unfold Model.car_base. intros r' Hin.
    destruct Hop as [-> | ->].
    - change (0 =? 0)%Z with true in Hin. cbv iota in Hin.
      rewrite col_stats_repeat in Hin by (auto; intros; now apply median_repeat).
      apply in_map_iff in Hin. destruct Hin as [r0 [<- H0]]. apply repeat_spec in H0. subst.
      apply vsub_self.
    - change (1 =? 0)%Z with false in Hin. change (1 =? 1)%Z with true in Hin. cbv iota in Hin.
      rewrite col_stats_repeat in Hin by (auto; intros; now apply mean_repeat).
      apply in_map_iff in Hin. destruct Hin as [r0 [<- H0]]. apply repeat_spec in H0. subst.
      apply vsub_self.
  Qed.

  (* kfilt / fk body on a block of equal rows, no taper: zeros, whatever the gain control;
     and the body preserves the number of channels for every ntr_pad >= 0 *)
  Section Kfilt.
    Variable taper : nat -> nat -> list R.
    Variable eps : R.
    Local Notation spatial_body := (spatial_body R rO rI radd rmul rdiv reqb rabs).

    Lemma vmul_zero_l z g : Forall (fun v => v = rO) z -> Forall (fun v => v = rO) (vmul z g).
    Proof.
      unfold Model.vmul. revert g. induction z as [|a t IH]; intros g Hz; cbn; [constructor|].
      destruct g as [|b g]; cbn; [constructor|]. inversion Hz; subst. constructor; [ring|].
      now apply IH.
    Qed.

    Lemma pad_filter_unpad_zero (Hf : list (list R) -> list (list R)) pad (xf : list (list R)) r1 :
      (forall m r, all_rows m r -> all_zero (Hf m)) -> all_rows xf r1 ->
      all_zero (if (0 <? pad)%nat
                then firstn (length (Hf (if (0 <? pad)%nat
                                         then rev (firstn pad xf) ++ xf ++ rev (lastn pad xf) else xf))
                             - 2 * pad)
                            (skipn pad (Hf (if (0 <? pad)%nat
                                            then rev (firstn pad xf) ++ xf ++ rev (lastn pad xf) else xf)))
                else Hf (if (0 <? pad)%nat
                         then rev (firstn pad xf) ++ xf ++ rev (lastn pad xf) else xf)).
    Proof.
      intros HK Hr1.
      assert (H1 : all_rows (if (0 <? pad)%nat
                             then rev (firstn pad xf) ++ xf ++ rev (lastn pad xf) else xf) r1).
      { destruct (0 <? pad)%nat; [|exact Hr1]. intros r' Hin.
        apply in_app_or in Hin. destruct Hin as [Hin|Hin].
        - apply in_rev in Hin. apply Hr1. eapply firstn_In_sub. exact Hin.
        - apply in_app_or in Hin. destruct Hin as [Hin|Hin]; [now apply Hr1|].
          apply in_rev in Hin. apply Hr1. unfold lastn in Hin. eapply skipn_In_sub. exact Hin. }
      pose proof (HK _ r1 H1) as HZ.
      destruct (0 <? pad)%nat; [|exact HZ]. intros r' Hin. apply HZ.
      eapply skipn_In_sub. eapply firstn_In_sub. exact Hin.
    Qed.

    Lemma spatial_body_kills_common Hf agcw ntr_pad ntr_tap x r :
      (forall m r, all_rows m r -> all_zero (Hf m)) ->
      (ntr_tap = 0%Z \/ (ntr_tap = (-1)%Z /\ (ntr_pad <= 0)%Z)) ->
      all_rows x r -> all_zero (spatial_body Hf taper agcw eps ntr_pad ntr_tap x).
    Proof.
      intros HK Htap Hall. unfold Model.spatial_body. cbv zeta.
      assert (Htap0 : (if (ntr_tap =? -1)%Z then Nat.min (Z.to_nat ntr_pad) (length x)
                       else Z.to_nat ntr_tap) = O).
      { destruct Htap as [->|[-> Hp]]; cbn; [reflexivity|].
        replace (Z.to_nat ntr_pad) with O by lia. reflexivity. }
      rewrite Htap0. change (0 <? 0)%nat with false. cbv iota.
      destruct agcw as [w|]; cbn [fst snd].
      - intros r' Hin. apply in_map_iff in Hin. destruct Hin as [[z gr] [<- Hp]]. cbn [fst snd].
        apply vmul_zero_l. apply in_combine_l in Hp. revert z Hp.
        apply pad_filter_unpad_zero with (r1 := fst (agc_row w eps r)); [exact HK|].
        unfold Model.agc. cbn [fst].
        intros r'' Hin. apply in_map_iff in Hin. destruct Hin as [r0 [<- H0]]. now rewrite (Hall r0 H0).
      - now apply pad_filter_unpad_zero with r.
    Qed.

    (* shape: the body returns as many channels as it was given, for every ntr_pad >= 0 *)
    Lemma spatial_body_length Hf agcw ntr_pad ntr_tap x :
      (forall m, length (Hf m) = length m) ->
      (forall nxp tap, length (taper nxp tap) = nxp) ->
      length (spatial_body Hf taper agcw eps ntr_pad ntr_tap x) = length x.
    Proof.
      intros HL HT. unfold Model.spatial_body. cbv zeta.
      set (nx := length x). set (pad := Nat.min (Z.to_nat ntr_pad) nx).
      assert (Hpad : (pad <= nx)%nat) by (unfold pad; lia).
      set (xg := match agcw with
                 | Some w => (fst (agc w eps x), Some (snd (agc w eps x)))
                 | None => (x, None)
                 end).
      assert (Hx0 : length (fst xg) = nx).
      { unfold xg. destruct agcw; cbn [fst]; [|reflexivity]. unfold Model.agc. cbn [fst]. now rewrite map_length. }
      assert (Hg : match snd xg with Some g => length g = nx | None => True end).
      { unfold xg. destruct agcw; cbn [snd]; [|exact I]. unfold Model.agc. cbn [snd]. now rewrite map_length. }
      set (xf1 := if (0 <? pad)%nat then rev (firstn pad (fst xg)) ++ fst xg ++ rev (lastn pad (fst xg)) else fst xg).
      assert (H1 : length xf1 = (nx + 2 * pad)%nat).
      { unfold xf1. destruct (Nat.ltb_spec 0 pad) as [Hp|Hp]; [|lia].
        rewrite !app_length, !rev_length, firstn_length. unfold lastn. rewrite skipn_length. lia. }
      set (tap := if (ntr_tap =? -1)%Z then pad else Z.to_nat ntr_tap).
      set (xf2 := if (0 <? tap)%nat
                  then map (fun p => map (rmul (fst p)) (snd p)) (combine (taper (nx + 2 * pad) tap) xf1) else xf1).
      assert (H2 : length xf2 = (nx + 2 * pad)%nat).
      { unfold xf2. destruct (0 <? tap)%nat; [|exact H1]. rewrite map_length, combine_length, HT. lia. }
      set (xf3 := Hf xf2).
      assert (H3 : length xf3 = (nx + 2 * pad)%nat) by (unfold xf3; now rewrite HL).
      set (xf4 := if (0 <? pad)%nat then firstn (length xf3 - 2 * pad) (skipn pad xf3) else xf3).
      assert (H4 : length xf4 = nx).
      { unfold xf4. destruct (Nat.ltb_spec 0 pad) as [Hp|Hp]; [|lia].
        rewrite firstn_length, skipn_length. lia. }
      change (length (match snd xg with
                      | Some g => map (fun p => vmul (fst p) (snd p)) (combine xf4 g)
                      | None => xf4 end) = nx).
      destruct (snd xg) as [g|]; [|exact H4]. rewrite map_length, combine_length. lia.
    Qed.

    Variable H : Z -> list (list R) -> list (list R).
    Variable window : Z -> list R.
    Local Notation kfilt_base := (kfilt_base R rO rI radd rmul rdiv reqb rabs H taper window eps).

    Lemma kfilt_base_kills_common p x r :
      (forall b m r, all_rows m r -> all_zero (H b m)) ->
      (k_ntr_tap p = 0%Z \/ (k_ntr_tap p = (-1)%Z /\ (k_ntr_pad p <= 0)%Z)) ->
      all_rows x r -> all_zero (kfilt_base p x).
    Proof.
      intros HK Htap Hall. unfold Model.kfilt_base.
      apply spatial_body_kills_common with r; auto. intros m r0. apply HK.
    Qed.

    Lemma kfilt_base_length p x :
      (forall b m, length (H b m) = length m) -> (forall nxp tap, length (taper nxp tap) = nxp) ->
      length (kfilt_base p x) = length x.
    Proof. intros HL HT. unfold Model.kfilt_base. apply spatial_body_length; auto. Qed.

    Lemma fk_base_length (F : fk_params -> list (list R) -> list (list R)) p x :
      (forall q m, length (F q m) = length m) -> (forall nxp tap, length (taper nxp tap) = nxp) ->
      length (fk_base R rO rI radd rmul rdiv reqb rabs F taper window eps p x) = length x.
    Proof. intros HL HT. unfold Model.fk_base. apply spatial_body_length; auto. Qed.
  End Kfilt.
  Set Default Proof Using "Rth two_neq char0 rleb_translate reqb_ok".

  (* ---------------- destripe ---------------- *)
  Section Destripe.
    Variable butter1 : list R -> list R.
    Variable fshift1 : R -> list R -> list R.
    Variable interp : list Z -> list (list R) -> list (list R).
    Variable spatial : list (list R) -> list (list R).
    Local Notation destripe := (destripe R butter1 fshift1 interp spatial).
    Local Notation spatial_step := (spatial_step R spatial).

    (* the label restriction *)
    Lemma spatial_step_spec labels x :
      (forall m, length (spatial m) = length m) -> length labels = length x ->
      let y := spatial_step labels x in
      length y = length x /\
      (forall i, ~ In i (inside_brain labels) -> nth i y ([] : list R) = nth i x []) /\
      gather [] (inside_brain labels) y = spatial (gather [] (inside_brain labels) x).
    Proof using.
      intros Hs HL. cbv zeta. unfold Model.spatial_step. split; [apply scatter_length|]. split.
      - intros i Hi. now apply scatter_nth_notin.
      - apply gather_scatter.
        + apply incr_from_NoDup with O. apply positions_ne_incr.
        + rewrite Hs. apply gather_length.
        + intros i Hi. apply inside_brain_spec in Hi. lia.
    Qed.

    (* rows labelled 3 are not inputs of the spatial filter *)
    Lemma spatial_input_independent labels x x' :
      (forall i, In i (inside_brain labels) -> nth i x ([] : list R) = nth i x' []) ->
      gather ([] : list R) (inside_brain labels) x = gather [] (inside_brain labels) x'.
    Proof using. intros Hx. now apply gather_ext. Qed.

    (* all channels carry the same waveform once re-aligned: the output is zero *)
    Lemma destripe_kills_aligned_stripe shifts x u :
      length shifts = length x ->
      (forall c, (c < length x)%nat -> fshift1 (nth c shifts rO) (butter1 (nth c x [])) = u) ->
      (forall m, all_rows m u -> all_zero (spatial m)) ->
      all_zero (destripe (Some shifts) None x).
    Proof using.
      intros HL Hal Hsp. unfold Model.destripe. apply Hsp.
      intros r' Hin. apply in_map_iff in Hin. destruct Hin as [[s xc] [<- Hp]]. cbn [fst snd].
      apply In_nth with (d := (rO, [])) in Hp. destruct Hp as [c [Hc Hp]].
      rewrite combine_length, map_length in Hc.
      rewrite combine_nth in Hp by (now rewrite map_length).
      injection Hp as <- <-.
      rewrite nth_indep with (d' := butter1 []) by (rewrite map_length; lia).
      rewrite map_nth. apply Hal. lia.
    Qed.
  End Destripe.
End NumericProofs.
Unset Default Proof Using.

(* ------------------------------------------------------------------ *)
(* kfilt / fk with a collection = per-group call with the forwarded settings *)
Section FilterGroups.
  Variable R : Type.
  Variables (rO : R).
  Local Notation zero_row := (zero_row R rO).
  Local Notation kfilt := (kfilt R rO).
  Local Notation fk := (fk R rO).

  Lemma kfilt_groups base p coll x out c :
    (forall q m, length (base q m) = length m) ->
    coll <> [] -> kfilt base p (Some coll) x = Some out -> In c coll ->
    length out = length x /\
    gather [] (positions c coll O) out = base (kfilt_forward p) (gather [] (positions c coll O) x).
  Proof.
    intros Hb Hne H Hc. unfold Model.kfilt in H.
    destruct (grouped_spec _ [] zero_row (base (kfilt_forward p)) (Hb _) coll x out Hne H)
      as [_ [HL [HG _]]].
    split; [exact HL|]. now apply HG.
  Qed.

  Lemma kfilt_forward_settings p :
    let q := kfilt_forward p in
    k_lagc q = k_lagc p /\ k_gpu q = k_gpu p /\
    k_butter q = (if (k_butter p =? -1)%Z then 0%Z else k_butter p) /\
    k_ntr_pad q = 0%Z /\ k_ntr_tap q = (-1)%Z.
  Proof. cbv zeta. unfold kfilt_forward, kfilt_defaults. cbn. repeat split. Qed.

  Lemma fk_groups base (p : fk_params) coll x out c :
    (forall q m, length (base q m) = length m) ->
    coll <> [] -> fk base p (Some coll) x = Some out -> In c coll ->
    length out = length x /\
    gather [] (positions c coll O) out = base p (gather [] (positions c coll O) x).
  Proof.
    intros Hb Hne H Hc. unfold Model.fk in H.
    destruct (grouped_spec _ [] zero_row (base (fk_forward p)) (Hb _) coll x out Hne H)
      as [_ [HL [HG _]]].
    split; [exact HL|]. now apply HG.
  Qed.
End FilterGroups.

(* ------------------------------------------------------------------ *)
(* ADC delay table: the k-th channel of an ADC (in channel order) gets k / n_cycles *)
Lemma adc_id_ver ver c : adc_id ver c = adc_id (if (ver =? 2)%Z then 2 else 1)%Z c.
Proof. unfold adc_id, adc_params. destruct (ver =? 2)%Z; reflexivity. Qed.

Lemma adc_shift_num_ver ver c :
  adc_shift_num ver c = adc_shift_num (if (ver =? 2)%Z then 2 else 1)%Z c.
Proof.
  unfold adc_shift_num. f_equal. f_equal. rewrite <- (adc_id_ver ver c).
  apply filter_ext. intros c'. now rewrite <- (adc_id_ver ver c').
Qed.

Definition adc_ok (ver c : Z) : bool :=
  let ac := fst (adc_params ver) in
  ((adc_shift_num ver c =? (c mod (2 * ac)) / 2) && (adc_shift_num ver c <? ac)
   && (ac <=? snd (adc_params ver)))%Z.

Lemma adc_sweep : forallb (adc_ok 1) (zrange 384) = true /\ forallb (adc_ok 2) (zrange 384) = true.
Proof. split; vm_compute; reflexivity. Qed.

Lemma adc_closed_form ver c : (0 <= c < 384)%Z ->
  let ac := fst (adc_params ver) in
  (adc_shift_num ver c = (c mod (2 * ac)) / 2 /\ 0 <= adc_shift_num ver c < ac /\
   ac <= snd (adc_params ver))%Z.
Proof.
  intros Hc. cbv zeta. rewrite adc_shift_num_ver.
  assert (Hp : adc_params ver = adc_params (if (ver =? 2)%Z then 2 else 1)%Z).
  { unfold adc_params. destruct (ver =? 2)%Z; reflexivity. }
  rewrite Hp. destruct adc_sweep as [S1 S2].
  assert (Hin : In c (zrange 384)) by (apply in_zrange; lia).
  assert (H : adc_ok (if (ver =? 2)%Z then 2 else 1)%Z c = true).
  { destruct (ver =? 2)%Z; [exact (proj1 (forallb_forall _ _) S2 c Hin)
                           |exact (proj1 (forallb_forall _ _) S1 c Hin)]. }
  unfold adc_ok in H. apply andb_true_iff in H. destruct H as [H H3].
  apply andb_true_iff in H. destruct H as [H1 H2].
  apply Z.eqb_eq in H1. apply Z.ltb_lt in H2. apply Z.leb_le in H3.
  split; [exact H1|]. split; [|exact H3]. split; [|exact H2].
  unfold adc_shift_num. lia.
Qed.

(* ------------------------------------------------------------------ *)
(* the hypotheses on the carrier, bundled: a field (Leibniz equality) of
   characteristic 0 whose order test is invariant under translation and whose
   equality test is exact — every ordered field, in particular the reals *)
Definition ordered_field (R : Type) (rO rI : R) (radd rmul rsub rdiv : R -> R -> R)
           (ropp rinv : R -> R) (rleb reqb : R -> R -> bool) : Prop :=
  field_theory rO rI radd rmul rsub ropp rdiv rinv (@eq R) /\
  radd rI rI <> rO /\
  (forall n, of_nat R rO rI radd (S n) <> rO) /\
  (forall a b m, rleb (rsub a m) (rsub b m) = rleb a b) /\
  (forall a b, reqb a b = true <-> a = b).

(* ------------------------------------------------------------------ *)
(* the carrier hypotheses are satisfiable: canonical rationals Qc (Leibniz equality) *)
From Coq Require Import QArith Qcanon.
Definition qcleb (a b : Qc) : bool := if Qclt_le_dec b a then false else true.
Definition qceqb (a b : Qc) : bool := if Qc_eq_dec a b then true else false.

Lemma qc_of_nat_nonneg n : (0 <= of_nat Qc 0 1 Qcplus n)%Qc.
Proof.
  induction n as [|n IH]; [apply Qcle_refl|].
  change (of_nat Qc 0%Qc 1%Qc Qcplus (S n)) with (1 + of_nat Qc 0 1 Qcplus n)%Qc.
  rewrite <- (Qcplus_0_l 0). apply Qcplus_le_compat; [discriminate|exact IH].
Qed.

Lemma ordered_field_Qc :
  ordered_field Qc 0%Qc 1%Qc Qcplus Qcmult Qcminus Qcdiv Qcopp Qcinv qcleb qceqb.
Proof.
  split; [exact Qcft|]. split; [discriminate|]. split.
  - intros n H. change (of_nat Qc 0%Qc 1%Qc Qcplus (S n)) with (1 + of_nat Qc 0 1 Qcplus n)%Qc in H.
    pose proof (Qcplus_le_compat 1 1 0 _ (Qcle_refl 1) (qc_of_nat_nonneg n)) as P.
    rewrite H, Qcplus_0_r in P. apply (Qcle_not_lt _ _ P). reflexivity.
  - split.
    + intros a b m. unfold qcleb.
      destruct (Qclt_le_dec (b - m) (a - m)) as [H|H], (Qclt_le_dec b a) as [H'|H'];
        try reflexivity; exfalso.
      * apply (Qcle_not_lt (a - m) (b - m)); [|exact H].
        unfold Qcminus. apply Qcplus_le_compat; [exact H'|apply Qcle_refl].
      * apply (Qcle_not_lt a b); [|exact H'].
        replace a with ((a - m) + m)%Qc by ring. replace b with ((b - m) + m)%Qc by ring.
        apply Qcplus_le_compat; [exact H|apply Qcle_refl].
    + intros a b. unfold qceqb. destruct (Qc_eq_dec a b); split; congruence.
Qed.
