(* C05 — gain control at full strength: over an ordered field, with a non-negative
   window whose centre tap is positive and epsilon > 0, the gain does not vanish on
   live channels, dead channels are exactly the all-zero channels, hence
   data * gain = input at every sample of every channel. *)
From Coq Require Import ZArith List Bool Lia Arith Ring Field.
From IBL.C05 Require Import Model Proofs.
Import ListNotations.

(* the order hypotheses on the carrier (every ordered field with its |.|) *)
Definition order_axioms (R : Type) (rO rI : R) (radd rmul : R -> R -> R)
           (rleb : R -> R -> bool) (rabs : R -> R) : Prop :=
  (forall a, rleb a a = true) /\
  (forall a b c, rleb a b = true -> rleb b c = true -> rleb a c = true) /\
  (forall a b, rleb a b = true -> rleb b a = true -> a = b) /\
  (forall a b c, rleb a b = true -> rleb (radd a c) (radd b c) = true) /\
  (forall a b, rleb rO a = true -> rleb rO b = true -> rleb rO (rmul a b) = true) /\
  rleb rO rI = true /\
  (forall a, rleb rO (rabs a) = true) /\
  (forall a, rabs a = rO -> a = rO).

Section AgcOrder.
  Variable R : Type.
  Variables (rO rI : R) (radd rmul rsub rdiv : R -> R -> R) (ropp rinv : R -> R).
  Variable rleb : R -> R -> bool.
  Variable reqb : R -> R -> bool.
  Variable rabs : R -> R.
  Hypothesis OF : ordered_field R rO rI radd rmul rsub rdiv ropp rinv rleb reqb.
  Hypothesis OA : order_axioms R rO rI radd rmul rleb rabs.

  Local Notation ofn := (of_nat R rO rI radd).
  Local Notation rsum := (rsum R rO radd).
  Local Notation conv_same := (conv_same R rO radd rmul).
  Local Notation agc_gain := (agc_gain R rO rI radd rmul rdiv rabs).
  Local Notation agc_row := (agc_row R rO rI radd rmul rdiv reqb rabs).
  Local Notation agc := (agc R rO rI radd rmul rdiv reqb rabs).
  Local Notation "0" := rO.
  Local Notation "a <= b" := (rleb a b = true).
  Local Infix "+" := radd.
  Local Infix "*" := rmul.

  Definition Rth_of : field_theory rO rI radd rmul rsub ropp rdiv rinv (@eq R) := proj1 OF.
  Add Field RfieldA : Rth_of.
  Set Default Proof Using "OF OA".

  Lemma le_refl a : a <= a. Proof. destruct OA as (A & _). apply A. Qed.
  Lemma le_trans a b c : a <= b -> b <= c -> a <= c.
  Proof. destruct OA as (_ & T & _). apply T. Qed.
  Lemma le_antisym a b : a <= b -> b <= a -> a = b.
  Proof. destruct OA as (_ & _ & A & _). apply A. Qed.
  Lemma le_add a b c : a <= b -> a + c <= b + c.
  Proof. destruct OA as (_ & _ & _ & A & _). apply A. Qed.
  Lemma le_mul a b : 0 <= a -> 0 <= b -> 0 <= a * b.
  Proof. destruct OA as (_ & _ & _ & _ & A & _). apply A. Qed.
  Lemma le_0_1 : 0 <= rI.
  Proof. destruct OA as (_ & _ & _ & _ & _ & A & _). exact A. Qed.
  Lemma abs_nonneg a : 0 <= rabs a.
  Proof. destruct OA as (_ & _ & _ & _ & _ & _ & A & _). apply A. Qed.
  Lemma abs_zero a : rabs a = 0 -> a = 0.
  Proof. destruct OA as (_ & _ & _ & _ & _ & _ & _ & A). apply A. Qed.
  Lemma char0' n : ofn (S n) <> 0.
  Proof. destruct OF as (_ & _ & C & _). apply C. Qed.

  Lemma add_nonneg a b : 0 <= a -> 0 <= b -> 0 <= a + b.
  Proof.
    intros Ha Hb. apply le_trans with b; [exact Hb|].
    pose proof (le_add 0 a b Ha) as H. replace (0 + b) with b in H by ring. exact H.
  Qed.

  Lemma nonneg_sum_zero_r a b : 0 <= a -> 0 <= b -> a + b = 0 -> b = 0.
  Proof.
    intros Ha Hb E. apply le_antisym; [|exact Hb].
    pose proof (le_add 0 a b Ha) as H. replace (0 + b) with b in H by ring. now rewrite E in H.
  Qed.
  Lemma nonneg_sum_zero_l a b : 0 <= a -> 0 <= b -> a + b = 0 -> a = 0.
  Proof. intros Ha Hb E. apply (nonneg_sum_zero_r b a Hb Ha). rewrite <- E. ring. Qed.

  Definition nonneg_list (l : list R) : Prop := Forall (fun v => 0 <= v) l.

  Lemma rsum_cons v l : rsum (v :: l) = v + rsum l.
  Proof. reflexivity. Qed.

  Lemma rsum_nonneg l : nonneg_list l -> 0 <= rsum l.
  Proof.
    intros Hl. induction Hl as [|v l Hv Hl IH]; [apply le_refl|].
    rewrite rsum_cons. now apply add_nonneg.
  Qed.

  Lemma rsum_zero_all l : nonneg_list l -> rsum l = 0 -> Forall (fun v => v = 0) l.
  Proof.
    intros Hl. induction Hl as [|v l Hv Hl IH]; intros E; [constructor|].
    rewrite rsum_cons in E. pose proof (rsum_nonneg l Hl) as Hs. constructor.
    - now apply (nonneg_sum_zero_l v (rsum l)).
    - apply IH. now apply (nonneg_sum_zero_r v (rsum l)).
  Qed.

  Lemma ofn_nonneg n : 0 <= ofn n.
  Proof. induction n as [|n IH]; cbn; [apply le_refl|]. apply add_nonneg; [apply le_0_1|exact IH]. Qed.

  Lemma integral a b : a * b = 0 -> a <> 0 -> b = 0.
  Proof.
    intros E Ha. replace b with (rdiv (a * b) a) by (field; exact Ha). rewrite E. field. exact Ha.
  Qed.

  Lemma rsum_add_const t l : rsum (map (fun v => v + t) l) = rsum l + ofn (length l) * t.
  Proof.
    induction l as [|a l IH]; [cbn; ring|]. cbn [map length]. rewrite !rsum_cons, IH.
    change (ofn (S (length l))) with (rI + ofn (length l)). ring.
  Qed.

  Lemma nth_map0 (f : R -> R) l j : (j < length l)%nat -> nth j (map f l) 0 = f (nth j l 0).
  Proof. intros H. rewrite nth_indep with (d' := f 0) by (now rewrite map_length). apply map_nth. Qed.

  (* ---- window ---- *)
  Variable w : list R.
  Hypothesis w_nonneg : nonneg_list w.
  Set Default Proof Using "OF OA w_nonneg".

  Definition conv_term (a : list R) (j k : nat) : R :=
    nth k w 0 * (if (k <=? j + (length w - 1) / 2)%nat && (j + (length w - 1) / 2 - k <? length a)%nat
                 then nth (j + (length w - 1) / 2 - k) a 0 else 0).

  Lemma conv_same_unfold a :
    conv_same w a = map (fun j => rsum (map (conv_term a j) (seq 0 (length w)))) (seq 0 (length a)).
  Proof. reflexivity. Qed.

  Lemma w_nth_nonneg k : (k < length w)%nat -> 0 <= nth k w 0.
  Proof. intros Hk. unfold nonneg_list in w_nonneg. rewrite Forall_forall in w_nonneg. apply w_nonneg. now apply nth_In. Qed.

  Lemma conv_term_nonneg row j k : (k < length w)%nat -> 0 <= conv_term (map rabs row) j k.
  Proof.
    intros Hk. unfold conv_term. apply le_mul; [now apply w_nth_nonneg|].
    destruct ((k <=? j + (length w - 1) / 2)%nat && (j + (length w - 1) / 2 - k <? length (map rabs row))%nat) eqn:E;
      [|apply le_refl].
    apply andb_true_iff in E. destruct E as [_ E]. apply Nat.ltb_lt in E. rewrite map_length in E.
    rewrite nth_map0 by exact E. apply abs_nonneg.
  Qed.

  Lemma conv_terms_nonneg row j : nonneg_list (map (conv_term (map rabs row) j) (seq 0 (length w))).
  Proof.
    apply Forall_forall. intros v Hv. apply in_map_iff in Hv. destruct Hv as [k [<- Hk]].
    apply in_seq in Hk. apply conv_term_nonneg. lia.
  Qed.

  Lemma gain0_nonneg row : nonneg_list (conv_same w (map rabs row)).
  Proof.
    rewrite conv_same_unfold. apply Forall_forall. intros v Hv. apply in_map_iff in Hv.
    destruct Hv as [j [<- _]]. apply rsum_nonneg. apply conv_terms_nonneg.
  Qed.

  Lemma conv_same_len a : length (conv_same w a) = length a.
  Proof. rewrite conv_same_unfold. now rewrite map_length, seq_length. Qed.

  Variable eps : R.
  Hypothesis eps_nonneg : 0 <= eps.
  Hypothesis eps_nonzero : eps <> 0.
  Set Default Proof Using "OF OA w_nonneg eps_nonneg eps_nonzero".

  Lemma agc_gain_unfold row :
    agc_gain w eps row =
    map (fun v => v + rdiv (rsum (conv_same w (map rabs row)) * eps) (ofn (length row)))
        (conv_same w (map rabs row)).
  Proof. reflexivity. Qed.

  (* sum of the gain row = S (1 + eps) *)
  Lemma agc_gain_sum row : row <> [] ->
    rsum (agc_gain w eps row) = rsum (conv_same w (map rabs row)) * (rI + eps).
  Proof.
    intros Hne. rewrite agc_gain_unfold, rsum_add_const, conv_same_len, map_length.
    destruct row as [|a row]; [congruence|]. cbn [length]. pose proof (char0' (length row)).
    field. assumption.
  Qed.

  (* live channel: every gain sample is non-zero *)
  Lemma agc_gain_live_nonzero row j :
    rsum (agc_gain w eps row) <> 0 -> (j < length row)%nat -> nth j (agc_gain w eps row) 0 <> 0.
  Proof.
    intros Hlive Hj Hz.
    assert (Hne : row <> []) by (destruct row; [cbn in Hj; lia|discriminate]).
    set (g0 := conv_same w (map rabs row)) in *.
    pose proof (gain0_nonneg row) as Hg0. fold g0 in Hg0.
    assert (HS : 0 <= rsum g0) by now apply rsum_nonneg.
    assert (HSnz : rsum g0 <> 0).
    { intros E. apply Hlive. rewrite agc_gain_sum by exact Hne. fold g0. rewrite E. ring. }
    rewrite agc_gain_unfold in Hz. fold g0 in Hz.
    assert (Hjl : (j < length g0)%nat) by (unfold g0; now rewrite conv_same_len, map_length).
    rewrite nth_map0 in Hz by exact Hjl.
    assert (Hgj : 0 <= nth j g0 0).
    { unfold nonneg_list in Hg0. rewrite Forall_forall in Hg0. apply Hg0. now apply nth_In. }
    destruct row as [|a row]; [congruence|]. cbn [length] in Hz.
    pose proof (char0' (length row)) as Hn.
    assert (E : ofn (S (length row)) * nth j g0 0 + rsum g0 * eps = 0).
    { replace (ofn (S (length row)) * nth j g0 0 + rsum g0 * eps)
        with (ofn (S (length row)) * (nth j g0 0 + rdiv (rsum g0 * eps) (ofn (S (length row)))))
        by (field; exact Hn).
      rewrite Hz. ring. }
    apply nonneg_sum_zero_r in E.
    - apply eps_nonzero. now apply (integral (rsum g0) eps).
    - apply le_mul; [apply ofn_nonneg|exact Hgj].
    - now apply le_mul.
  Qed.

  (* dead channel (positive centre tap): the channel is identically zero *)
  Hypothesis centre_pos : w <> [] /\ nth ((length w - 1) / 2) w 0 <> 0.

  Lemma one_plus_eps_nonzero : rI + eps <> 0.
  Proof using OF OA eps_nonneg.
    intros E. pose proof (nonneg_sum_zero_l rI eps le_0_1 eps_nonneg E) as H1.
    destruct OF as (F & _). destruct F as [_ F1 _ _]. now apply F1.
  Qed.

  Lemma agc_gain_dead_zero row :
    rsum (agc_gain w eps row) = 0 -> Forall (fun v => v = 0) row.
  Proof using OF OA w_nonneg eps_nonneg eps_nonzero centre_pos.
    intros Hdead. destruct row as [|a0 row0]; [constructor|]. set (row := a0 :: row0) in *.
    assert (Hne : row <> []) by discriminate.
    rewrite agc_gain_sum in Hdead by exact Hne.
    set (g0 := conv_same w (map rabs row)) in *.
    assert (HS0 : rsum g0 = 0).
    { replace (rsum g0 * (rI + eps)) with ((rI + eps) * rsum g0) in Hdead by ring.
      apply (integral _ _ Hdead). apply one_plus_eps_nonzero. }
    pose proof (rsum_zero_all g0 (gain0_nonneg row) HS0) as Hall.
    apply Forall_forall. intros v Hv. apply In_nth with (d := 0) in Hv. destruct Hv as [j [Hj <-]].
    rewrite Forall_forall in Hall.
    assert (Hgj : nth j g0 0 = 0).
    { apply Hall. apply nth_In. unfold g0. now rewrite conv_same_len, map_length. }
    unfold g0 in Hgj. rewrite conv_same_unfold in Hgj.
    rewrite nth_indep with (d' := (fun j => rsum (map (conv_term (map rabs row) j) (seq 0 (length w)))) O) in Hgj
      by (now rewrite map_length, seq_length, map_length).
    rewrite (map_nth (fun j => rsum (map (conv_term (map rabs row) j) (seq 0 (length w)))) (seq 0 (length (map rabs row))) O j) in Hgj.
    rewrite seq_nth in Hgj by (now rewrite map_length). cbn [plus] in Hgj.
    pose proof (rsum_zero_all _ (conv_terms_nonneg row j) Hgj) as Hterms.
    rewrite Forall_forall in Hterms.
    destruct centre_pos as [Hw Hc].
    set (h := ((length w - 1) / 2)%nat) in *.
    assert (Hh : (h < length w)%nat).
    { destruct w as [|b w']; [congruence|]. cbn [length]. unfold h. cbn [length].
      apply Nat.le_lt_trans with (length w' - 0)%nat; [|lia]. rewrite Nat.sub_0_r.
      replace (S (length w') - 1)%nat with (length w') by lia. apply Nat.div_le_upper_bound; lia. }
    assert (Ht : conv_term (map rabs row) j h = 0).
    { apply Hterms. apply in_map_iff. exists h. split; [reflexivity|]. apply in_seq. lia. }
    unfold conv_term in Ht. fold h in Ht.
    replace (j + h - h)%nat with j in Ht by lia.
    assert (C1 : (h <=? j + h)%nat = true) by (apply Nat.leb_le; lia).
    assert (C2 : (j <? length (map rabs row))%nat = true) by (apply Nat.ltb_lt; now rewrite map_length).
    rewrite C1, C2 in Ht. cbn [andb] in Ht. rewrite nth_map0 in Ht by exact Hj.
    apply abs_zero. now apply (integral (nth h w 0)).
  Qed.

  (* ---- agc: data * gain = input, everywhere ---- *)
  Lemma agc_row_product row j : (j < length row)%nat ->
    let o := fst (agc_row w eps row) in
    let g := snd (agc_row w eps row) in
    rmul (nth j o 0) (nth j g 0) = nth j row 0 /\
    (rsum g <> 0 -> nth j g 0 <> 0) /\
    (rsum g = 0 -> o = row /\ nth j row 0 = 0).
  Proof using OF OA w_nonneg eps_nonneg eps_nonzero centre_pos.
    intros Hj. cbv zeta.
    destruct OF as (F & T & C & L & E).
    destruct (agc_row_spec R rO rI radd rmul rsub rdiv ropp rinv rleb reqb rabs F T C L E w eps row)
      as (Ho & Hg & Hdead & Hlive).
    unfold Model.agc_row in *. cbn [fst snd] in *.
    destruct (reqb (rsum (agc_gain w eps row)) 0) eqn:Eq.
    - apply E in Eq. pose proof (agc_gain_dead_zero row Eq) as Hz. rewrite Forall_forall in Hz.
      assert (Hr : nth j row 0 = 0) by (apply Hz; now apply nth_In).
      split; [rewrite Hr; ring|]. split; [intros N; contradiction|]. intros _. split; [reflexivity|exact Hr].
    - assert (N : rsum (agc_gain w eps row) <> 0) by (intros H; apply E in H; congruence).
      pose proof (agc_gain_live_nonzero row j N Hj) as Hnz.
      split; [apply Hlive; assumption|]. split; [intros _; exact Hnz|]. intros H; contradiction.
  Qed.
End AgcOrder.
Unset Default Proof Using.

Lemma nth_map_rows' {R A} (F : list R -> A) (dA : A) (x : list (list R)) i :
  (i < length x)%nat -> nth i (map F x) dA = F (nth i x []).
Proof.
  intros H. rewrite nth_indep with (d' := F []) by (now rewrite map_length). apply map_nth.
Qed.

(* matrix level *)
Lemma agc_product R rO rI radd rmul rsub rdiv ropp rinv rleb reqb rabs :
  ordered_field R rO rI radd rmul rsub rdiv ropp rinv rleb reqb ->
  order_axioms R rO rI radd rmul rleb rabs ->
  forall (w : list R) (eps : R),
  Forall (fun v => rleb rO v = true) w ->
  w <> [] /\ nth ((length w - 1) / 2) w rO <> rO ->
  rleb rO eps = true -> eps <> rO ->
  forall (x : list (list R)) i j, (i < length x)%nat -> (j < length (nth i x []))%nat ->
  let r := nth i x [] in
  let o := nth i (fst (agc R rO rI radd rmul rdiv reqb rabs w eps x)) [] in
  let g := nth i (snd (agc R rO rI radd rmul rdiv reqb rabs w eps x)) [] in
  length o = length r /\ length g = length r /\
  rmul (nth j o rO) (nth j g rO) = nth j r rO /\
  (rsum R rO radd g <> rO -> nth j g rO <> rO) /\
  (rsum R rO radd g = rO -> o = r /\ nth j r rO = rO).
Proof.
  intros OF OA w eps Hw Hc He1 He2 x i j Hi Hj. cbv zeta. unfold agc. cbn [fst snd].
  rewrite !nth_map_rows' by assumption.
  pose proof OF as (F & T & C & L & E).
  destruct (agc_row_spec R rO rI radd rmul rsub rdiv ropp rinv rleb reqb rabs F T C L E w eps (nth i x []))
    as (Ho & Hg & _ & _).
  split; [exact Ho|]. split; [exact Hg|].
  exact (agc_row_product R rO rI radd rmul rsub rdiv ropp rinv rleb reqb rabs OF OA w Hw eps He1 He2 Hc
           (nth i x []) j Hj).
Qed.

(* the order hypotheses are satisfiable: canonical rationals with Qcabs *)
From Coq Require Import QArith Qcanon Qcabs.
Lemma qcleb_true a b : qcleb a b = true <-> (a <= b)%Qc.
Proof.
  unfold qcleb. destruct (Qclt_le_dec b a) as [H|H]; split; intros H'; try discriminate; auto.
  exfalso. exact (Qcle_not_lt _ _ H' H).
Qed.

Lemma order_axioms_Qc : order_axioms Qc 0%Qc 1%Qc Qcplus Qcmult qcleb Qcabs.
Proof.
  unfold order_axioms.
  refine (conj _ (conj _ (conj _ (conj _ (conj _ (conj _ (conj _ _))))))).
  - intros a. apply qcleb_true. apply Qcle_refl.
  - intros a b c H1 H2. apply qcleb_true in H1, H2. apply qcleb_true. eapply Qcle_trans; eauto.
  - intros a b H1 H2. apply qcleb_true in H1, H2. now apply Qcle_antisym.
  - intros a b c H. apply qcleb_true in H. apply qcleb_true. apply Qcplus_le_compat; [exact H|apply Qcle_refl].
  - intros a b H1 H2. apply qcleb_true in H1, H2. apply qcleb_true.
    replace 0%Qc with (0 * b)%Qc by ring. now apply Qcmult_le_compat_r.
  - apply qcleb_true. discriminate.
  - intros a. apply qcleb_true. apply Qcabs_nonneg.
  - intros a. apply Qcabs_null.
Qed.
