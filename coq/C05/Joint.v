(* C05 — the alignment step made concrete: destripe's fshift is C07's model of
   fourier.fshift (rfft, phase table, irfft), the per-channel shifts are the table
   computed by C08's model of neuropixel.adc_shifts.  A band-limited periodic
   disturbance hitting all channels at the same physical instant is recorded by
   channel c with the advance d_c = (slot of c in its ADC's cycle) / n_cycles;
   after destripe's re-alignment all channels carry the same waveform, and the
   spatial filter (car, either operator; kfilt body) returns exactly zero. *)
From Coq Require Import ZArith List Bool Lia Arith Ring Field.
From IBL.lib Require Import PyInt.
From IBL.C07 Require Import Model Sums Proofs.
From IBL.C08 Require Model Adc Props.
From IBL.C05 Require Import Model Proofs.
Import ListNotations.

Lemma firstn_seq' k : forall s n, firstn k (seq s n) = seq s (Nat.min k n).
Proof.
  induction k as [|k IH]; intros s n; [reflexivity|].
  destruct n as [|n]; [reflexivity|].
  change (firstn (S k) (seq s (S n))) with (s :: firstn k (seq (S s) n)).
  change (seq s (Nat.min (S k) (S n))) with (s :: seq (S s) (Nat.min k n)).
  f_equal. apply IH.
Qed.

Lemma firstn_map_zrange {A} (f : Z -> A) k n : (k <= n)%nat ->
  firstn k (map f (zrange n)) = map f (zrange k).
Proof.
  intros H. unfold zrange. rewrite !firstn_map, firstn_seq'. now rewrite Nat.min_l.
Qed.

Lemma nth_map_seq0 {A} (f : nat -> A) m k d : (k < m)%nat -> nth k (map f (seq 0 m)) d = f k.
Proof.
  intros Hk. rewrite (nth_indep _ d (f 0%nat)) by (now rewrite map_length, seq_length).
  rewrite (map_nth f (seq 0 m) 0%nat k), seq_nth by exact Hk. reflexivity.
Qed.

Section Joint.
  Variable C : Type.
  Variables (c0 c1 : C) (cadd cmul : C -> C -> C) (copp cinv cconj : C -> C).
  Variable n : nat.
  Variable w : Z -> C.
  Hypothesis ST : setting C c0 c1 cadd cmul copp cinv cconj n w.

  (* shifts and their phase tables, as in C07 (Props.v, Section Phase):
     phase s k = np.exp(1j * np.angle(rfft(dephas))[k] * s) *)
  Variable Sh : Type.
  Variable shopp : Sh -> Sh.
  Variable phase : Sh -> nat -> C.
  Hypothesis phopp : forall s k, cmul (phase (shopp s) k) (phase s k) = c1.
  Hypothesis phdc : forall s, phase s 0%nat = c1.

  Local Notation fshift := (fshift_fun C c0 c1 cadd cmul cinv cconj n w).
  Local Notation fshift1 := (Model.fshift1 C c0 c1 cadd cmul cinv cconj n w).
  Local Notation frows := (fshift_rows C c0 c1 cadd cmul cinv cconj n w).
  Local Notation nthC := (nthC C c0).
  Local Notation zn := Z.of_nat.

  Definition Cth : field_theory c0 c1 cadd cmul (fsub C cadd copp) copp (fdiv C cmul cinv) cinv (@eq C) :=
    st_field _ _ _ _ _ _ _ _ _ _ ST.
  Add Field CfieldJ : Cth.
  Set Default Proof Using "ST phopp phdc".

  (* one real harmonic of frequency a with complex amplitude c, modulated by m a *)
  Definition harm (c : C) (m : nat -> C) (a i : nat) : C :=
    cadd (cmul (cmul c (m a)) (w (zn i * zn a)))
         (cmul (cconj (cmul c (m a))) (w (- (zn i * zn a)))).

  (* a real trigonometric polynomial: constant + harmonics (amplitude, frequency) *)
  Fixpoint stripe (dc : C) (terms : list (C * nat)) (m : nat -> C) (i : nat) : C :=
    match terms with
    | [] => dc
    | (c, a) :: t => cadd (harm c m a i) (stripe dc t m i)
    end.

  Definition band_limited (terms : list (C * nat)) : Prop :=
    forall c a, In (c, a) terms -> (0 < a)%nat /\ (2 * a < n)%nat.

  Lemma stripe_ext dc terms m m' i :
    (forall c a, In (c, a) terms -> m a = m' a) -> stripe dc terms m i = stripe dc terms m' i.
  Proof.
    induction terms as [|[c a] t IH]; intros H; cbn [stripe]; [reflexivity|].
    rewrite IH by (intros c' a' Hin; apply (H c' a'); now right).
    unfold harm. now rewrite (H c a (or_introl eq_refl)).
  Qed.

  (* C07: fshift multiplies the amplitude of every harmonic below Nyquist by the phase factor *)
  Lemma fshift_stripe p dc terms m j : cconj dc = dc -> p 0%nat = c1 -> band_limited terms ->
    fshift p (stripe dc terms m) j = stripe dc terms (fun a => cmul (m a) (p a)) j.
  Proof.
    intros Hdc Hp0. induction terms as [|[c a] t IH]; intros Hb.
    - cbn [stripe]. change (stripe dc [] m) with (fun _ : nat => dc).
      now apply (pub_constant C c0 c1 cadd cmul copp cinv cconj n w ST).
    - change (stripe dc ((c, a) :: t) m) with (fun i => cadd (harm c m a i) (stripe dc t m i)).
      rewrite (pub_additive C c0 c1 cadd cmul copp cinv cconj n w ST).
      rewrite IH by (intros c' a' Hin; apply (Hb c' a'); now right).
      cbn [stripe]. f_equal.
      destruct (Hb c a (or_introl eq_refl)) as [Ha1 Ha2].
      unfold harm at 1.
      rewrite (pub_harmonic C c0 c1 cadd cmul copp cinv cconj n w ST p (cmul c (m a)) a j Ha1 Ha2).
      unfold harm. replace (cmul (cmul c (m a)) (p a)) with (cmul c (cmul (m a) (p a))) by ring.
      reflexivity.
  Qed.

  (* a channel that recorded the waveform ADVANCED by s, shifted (delayed) by s, carries the waveform *)
  Lemma fshift_realigns s dc terms j : cconj dc = dc -> band_limited terms ->
    fshift (phase s) (stripe dc terms (phase (shopp s))) j = stripe dc terms (fun _ => c1) j.
  Proof.
    intros Hdc Hb. rewrite fshift_stripe by (auto using phdc).
    apply stripe_ext. intros c a _. apply phopp.
  Qed.

  Definition samples (f : nat -> C) : list C := map f (seq 0 n).
  Definition table (s : Sh) : list C := map (phase s) (seq 0 (n / 2 + 1)).
  Definition recorded (dc : C) (terms : list (C * nat)) (s : Sh) : list C :=
    samples (stripe dc terms (phase (shopp s))).
  Definition common (dc : C) (terms : list (C * nat)) : list C :=
    samples (stripe dc terms (fun _ => c1)).

  Lemma fshift1_realigns s dc terms : (2 <= n)%nat -> cconj dc = dc -> band_limited terms ->
    fshift1 (table s) (recorded dc terms s) = Some (common dc terms).
  Proof.
    intros H2 Hdc Hb. destruct ST as [F A1 A2 A3 A4 A5 A6 A7 A8 A9 A10].
    rewrite (fshift1_spec C c0 c1 cadd cmul copp cinv cconj F A1 A2 A3 n A4 w A5 A6 A7 A8 A9 A10)
      by (auto; unfold recorded, samples, table; now rewrite map_length, seq_length).
    f_equal. unfold common, samples. apply map_ext_in. intros j Hj. apply in_seq in Hj.
    rewrite <- (fshift_realigns s dc terms j Hdc Hb).
    apply (fshift_ext C c0 c1 cadd cmul copp cinv cconj F A1 A2 A3 n A4 w A5 A6 A7 A8 A9 A10).
    - intros k Hk. unfold Model.nthC, table. apply nth_map_seq0. lia.
    - intros i Hi. unfold Model.nthC, recorded, samples. now apply nth_map_seq0.
  Qed.

  Lemma frows_realign (ss : list Sh) dc terms : (2 <= n)%nat -> cconj dc = dc -> band_limited terms ->
    frows (map table ss) (map (recorded dc terms) ss) = Some (map (fun _ => common dc terms) ss).
  Proof.
    intros H2 Hdc Hb. induction ss as [|s ss IH]; [reflexivity|].
    cbn [map Model.fshift_rows]. rewrite fshift1_realigns by assumption. now rewrite IH.
  Qed.
End Joint.
Unset Default Proof Using.

(* ---- with C08's ADC table and C05's spatial filters ---- *)
Lemma stripe_annihilated_joint
  (C : Type) (c0 c1 : C) (cadd cmul : C -> C -> C) (copp cinv cconj : C -> C) (n : nat) (w : Z -> C)
  (rleb reqb : C -> C -> bool) (Sh : Type) (shopp : Sh -> Sh) (phase : Sh -> nat -> C) :
  setting C c0 c1 cadd cmul copp cinv cconj n w ->
  ordered_field C c0 c1 cadd cmul (fsub C cadd copp) (fdiv C cmul cinv) copp cinv rleb reqb ->
  (forall s k, cmul (phase (shopp s) k) (phase s k) = c1) ->
  (forall s, phase s 0%nat = c1) ->
  forall (g : C08.Model.gen) (nc : nat) tbl adcs,
  (1 <= nc <= C08.Model.NC)%nat -> C08.Model.adc_shifts g nc = Some (tbl, adcs) ->
  forall (dly : Z -> Sh) (dc : C) (terms : list (C * nat)),
  (2 <= n)%nat -> cconj dc = dc -> band_limited C n terms ->
  let x := map (fun c => recorded C cadd cmul cconj n w Sh shopp phase dc terms
                           (dly (C08.Model.shift_closed g c))) (zrange nc) in
  let ps := map (fun k => table C n Sh phase (dly k)) tbl in
  exists x2,
    fshift_rows C c0 c1 cadd cmul cinv cconj n w ps x = Some x2 /\
    length x2 = nc /\ all_rows C x2 (common C c1 cadd cmul cconj n w dc terms) /\
    (forall op, (op = 0 \/ op = 1)%Z ->
       all_zero C c0 (car_base C c0 c1 cadd (fsub C cadd copp) (fdiv C cmul cinv) rleb op x2)) /\
    (forall rabs H taper window eps p,
       (forall b m r, all_rows C m r -> all_zero C c0 (H b m)) ->
       (k_ntr_tap p = 0 \/ (k_ntr_tap p = -1 /\ k_ntr_pad p <= 0))%Z ->
       all_zero C c0 (kfilt_base C c0 c1 cadd cmul (fdiv C cmul cinv) reqb rabs H taper window eps p x2)).
Proof.
  intros ST OF phopp phdc g nc tbl adcs Hnc Hadc dly dc terms H2 Hdc Hb. cbv zeta.
  destruct (C08.Props.C08_adc_table g) as (_ & _ & Hpre).
  rewrite Hpre in Hadc.
  apply (f_equal (fun o : option (list Z * list Z) => match o with Some p => fst p | None => [] end)) in Hadc.
  cbv beta iota in Hadc. unfold fst in Hadc. subst tbl.
  rewrite (firstn_map_zrange (C08.Model.shift_closed g) nc C08.Model.NC) by lia.
  set (ss := map (fun c => dly (C08.Model.shift_closed g c)) (zrange nc)).
  assert (E1 : map (fun k => table C n Sh phase (dly k)) (map (C08.Model.shift_closed g) (zrange nc))
               = map (table C n Sh phase) ss) by (unfold ss; now rewrite !map_map).
  assert (E2 : map (fun c => recorded C cadd cmul cconj n w Sh shopp phase dc terms
                               (dly (C08.Model.shift_closed g c))) (zrange nc)
               = map (recorded C cadd cmul cconj n w Sh shopp phase dc terms) ss)
    by (unfold ss; now rewrite map_map).
  rewrite E1, E2.
  exists (map (fun _ => common C c1 cadd cmul cconj n w dc terms) ss).
  assert (Hall : all_rows C (map (fun _ : Sh => common C c1 cadd cmul cconj n w dc terms) ss)
                          (common C c1 cadd cmul cconj n w dc terms)).
  { intros r' Hin. apply in_map_iff in Hin. destruct Hin as [s [<- _]]. reflexivity. }
  assert (Hlen : length ss = nc) by (unfold ss; now rewrite map_length, zrange_length).
  split; [now apply (frows_realign C c0 c1 cadd cmul copp cinv cconj n w ST Sh shopp phase phopp phdc)|].
  split; [now rewrite map_length|]. split; [exact Hall|].
  destruct OF as (F & T & Ch & L & E). split.
  - intros op Hop.
    apply (car_base_kills_common C c0 c1 cadd cmul (fsub C cadd copp) (fdiv C cmul cinv) copp cinv rleb reqb
             F T Ch L E op _ (common C c1 cadd cmul cconj n w dc terms) Hop); [|exact Hall].
    destruct ss; [cbn in Hlen; lia|discriminate].
  - intros rabs H taper window eps p HH Htap.
    exact (kfilt_base_kills_common C c0 c1 cadd cmul (fsub C cadd copp) (fdiv C cmul cinv) copp cinv rleb reqb rabs
             F T Ch L E taper eps H window p _ (common C c1 cadd cmul cconj n w dc terms) HH Htap Hall).
Qed.
