(* C13 — executable model of waveform extraction to files
   (src/ibldsp/waveform_extraction.py, src/ibldsp/utils.py:make_channel_index).
   Definitions only; lemmas are in Proofs.v, property theorems in Props.v.

   Python                                              model
   ------                                              -----
   utils.make_channel_index(geom, radius, pad_val)     near / nbr_row / col_sum / n_nbors / channel_index
   _make_wfs_table                                     allowed / unit_ids / unit_spikeidx / unit_picks /
                                                       unit_wf_idx / wf_idx / wfi_of / table
   extract_wfs_cbin: s0_arr, s1_arr, slices            nchunks / s0 / s1 / ss / slice_rows
   write_wfs_chunk + extract_wfs_array                 py_start / py_stop / wrap_index / chan_row / gather /
                                                       chunk_wf / chunk_writes
   wfs_mmap[iw] = ...  (zero-initialised memmap)       upd / apply_writes / all_writes / traces
   wf_flat.sort_values(["cluster","sample"])           row_leb / sorted_table
   aggregate_by_clusters                               groups
   index_within_clusters (cumsum trick)                iwc_incr / cumsum / iwc
   templates ranges, channel map                       template_ranges / chan_map
   WaveformsLoader.load_waveforms (data_version 2)     load_rows

   Conventions: recording = function src channel sample (abstract value type V);
   a trace cell is option V with None = NaN; a waveform is nbr x L cells;
   an exception of the Python code = None at the level where it is raised.
   rng.choice is the Section variable `choose` (unit position, candidates, k).
   Preprocessing is off (preprocess_steps=[]), data version 2 of the loader. *)
From Coq Require Import ZArith List Bool Lia.
From IBL.lib Require Import PyInt.
Import ListNotations.
Open Scope Z_scope.

(* ---------- generic list idioms ---------- *)
Definition zlen {A} (l : list A) : Z := Z.of_nat (length l).
Definition znth {A} (d : A) (l : list A) (i : Z) : A := nth (Z.to_nat i) l d.
Definition enumerate {A} (l : list A) : list (Z * A) := combine (zrange (length l)) l.
(* row[:len l] = l on a row of length n prefilled with v *)
Definition pad (l : list Z) (n v : Z) : list Z := l ++ repeat v (Z.to_nat (n - zlen l)).

Fixpoint insert {A} (leb : A -> A -> bool) (x : A) (l : list A) : list A :=
  match l with
  | [] => [x]
  | y :: t => if leb x y then x :: l else y :: insert leb x t
  end.
(* np.sort / stable sort on a total order *)
Definition isort {A} (leb : A -> A -> bool) (l : list A) : list A := fold_right (insert leb) [] l.
(* np.unique: sorted distinct values *)
Definition zunique (l : list Z) : list Z := isort Z.leb (nodup Z.eq_dec l).

Fixpoint sequence {A} (l : list (option A)) : option (list A) :=
  match l with
  | [] => Some []
  | None :: _ => None
  | Some a :: t => match sequence t with Some r => Some (a :: r) | None => None end
  end.

Definition count_if (f : Z -> bool) (l : list Z) : Z := zlen (filter f l).

(* ---------- utils.make_channel_index ---------- *)
Definition dist2 (p q : Z * Z) : Z :=
  (fst p - fst q) * (fst p - fst q) + (snd p - snd q) * (snd p - snd q).
(* squareform(pdist(geom)) <= radius, radius^2 = r2n / r2d (integer coordinates) *)
Definition near (g : list (Z * Z)) (r2n r2d c j : Z) : bool :=
  dist2 (znth (0, 0) g c) (znth (0, 0) g j) * r2d <=? r2n.
Definition chans (g : list (Z * Z)) : list Z := zrange (length g).
(* np.flatnonzero(neighbors[c, :]) *)
Definition nbr_row g r2n r2d (c : Z) : list Z := filter (near g r2n r2d c) (chans g).
(* np.sum(neighbors, 0)[j] *)
Definition col_sum g r2n r2d (j : Z) : Z := zlen (filter (fun c => near g r2n r2d c j) (chans g)).
Definition zmax_list (l : list Z) : Z := fold_right Z.max 0 l.
Definition n_nbors g r2n r2d : Z := zmax_list (map (col_sum g r2n r2d) (chans g)).
Definition channel_index g r2n r2d (padv : Z) : list (list Z) :=
  let nn := n_nbors g r2n r2d in
  map (fun c => pad (nbr_row g r2n r2d c) nn padv) (chans g).

(* ---------- configuration of one extraction ---------- *)
Record cfg := mkCfg {
  c_ns : Z;            (* samples in the recording *)
  c_nc : Z;            (* data channels (= len geom); pad value / NaN row index *)
  c_to : Z;            (* trough_offset *)
  c_L : Z;             (* spike_length_samples *)
  c_maxwf : Z;
  c_size : Z;          (* chunksize_samples *)
  c_r2n : Z; c_r2d : Z;
  c_geom : list (Z * Z);
  c_spikes : list (Z * Z * Z)   (* (sample, cluster, peak channel), position = spike index *)
}.

Definition sp_sample (x : Z * Z * Z) : Z := fst (fst x).
Definition sp_cluster (x : Z * Z * Z) : Z := snd (fst x).
Definition sp_chan (x : Z * Z * Z) : Z := snd x.
Definition dspike : Z * Z * Z := (0, 0, 0).

Record row := mkRow { r_index : Z; r_sample : Z; r_cluster : Z; r_chan : Z; r_wfi : Z }.
Definition drow : row := mkRow 0 0 0 0 0.

(* searchsorted(side='left') on an ascending array = length of the prefix < v *)
Fixpoint ss (l : list Z) (v : Z) : nat :=
  match l with
  | [] => O
  | x :: t => if x <? v then S (ss t v) else O
  end.

(* slice bounds as PySlice_AdjustIndices does for step 1 *)
Definition py_start (n a : Z) : Z := if a <? 0 then Z.max 0 (a + n) else Z.min a n.
Definition py_stop (n b : Z) : Z := if b <? 0 then Z.max 0 (b + n) else Z.min b n.
(* numpy integer index on an axis of length len: negative wraps, else IndexError *)
Definition wrap_index (len q : Z) : option Z :=
  if (0 <=? q) && (q <? len) then Some q
  else if (- len <=? q) && (q <? 0) then Some (q + len) else None.

Fixpoint upd {A} (l : list A) (k : nat) (x : A) : list A :=
  match l, k with
  | [], _ => []
  | _ :: t, O => x :: t
  | y :: t, S k' => y :: upd t k' x
  end.

Fixpoint cumsum_from (acc : Z) (l : list Z) : list Z :=
  match l with [] => [] | x :: t => (acc + x) :: cumsum_from (acc + x) t end.
Definition cumsum := cumsum_from 0.

(* stable sort by (cluster, sample) = sort by (cluster, sample, original position);
   the original position is the table's own `index` column *)
Definition row_leb (a b : row) : bool :=
  if r_cluster a <? r_cluster b then true
  else if r_cluster b <? r_cluster a then false
  else if r_sample a <? r_sample b then true
  else if r_sample b <? r_sample a then false
  else r_index a <=? r_index b.

(* .astype(np.int16) *)
Definition to_int16 (x : Z) : Z := (x + 32768) mod 65536 - 32768.

Section Extract.
  Variable V : Type.
  Variable src : Z -> Z -> V.                      (* channel, sample *)
  Variable choose : Z -> list Z -> Z -> list Z.    (* rng.choice(a, k, replace=False) for unit #i *)
  Variable P : cfg.

  Definition wf := list (list (option V)).

  (* ---- _make_wfs_table ---- *)
  (* (spike_samples > trough_offset) & (spike_samples < sr.ns - (spike_length_samples - trough_offset)) *)
  Definition allowed (s : Z) : bool :=
    (c_to P <? s) && (s <? c_ns P - (c_L P - c_to P)).
  Definition unit_ids : list Z := zunique (map sp_cluster (c_spikes P)).
  (* np.where((spike_clusters == u) & allowed_idx)[0] *)
  Definition unit_spikeidx (u : Z) : list Z :=
    map fst (filter (fun e => (sp_cluster (snd e) =? u) && allowed (sp_sample (snd e)))
                    (enumerate (c_spikes P))).
  Definition unit_k (u : Z) : Z := Z.min (c_maxwf P) (zlen (unit_spikeidx u)).
  Definition unit_picks (e : Z * Z) : list Z :=
    choose (fst e) (unit_spikeidx (snd e)) (unit_k (snd e)).
  (* unit_wf_idx = np.full((nu, max_wf), -1); unit_wf_idx[i, :k] = picks *)
  Definition unit_wf_idx : list (list Z) :=
    map (fun e => pad (unit_picks e) (c_maxwf P) (-1)) (enumerate unit_ids).
  (* wf_idx = np.sort(unit_wf_idx.flatten()); wf_idx = wf_idx[wf_idx >= 0] *)
  Definition wf_idx : list Z := filter (fun x => 0 <=? x) (isort Z.leb (concat unit_wf_idx)).
  (* waveform_index: wf_flat.loc[argsort(cluster_index, stable), 'waveform_index'] = arange(n),
     i.e. the rank of row k in the stable sort by cluster:
     #rows with a smaller cluster + #earlier rows of the same cluster *)
  Definition wfi_of (clusters : list Z) (k : Z) : Z :=
    let c := znth 0 clusters k in
    count_if (fun x => x <? c) clusters + count_if (fun x => x =? c) (firstn (Z.to_nat k) clusters).
  Definition table : list row :=
    let cl := map (fun i => sp_cluster (znth dspike (c_spikes P) i)) wf_idx in
    map (fun e => let sp := znth dspike (c_spikes P) (snd e) in
                  mkRow (fst e) (sp_sample sp) (sp_cluster sp) (sp_chan sp) (wfi_of cl (fst e)))
        (enumerate wf_idx).

  (* ---- extract_wfs_cbin: chunks and slices ---- *)
  (* s0_arr = np.arange(0, ns, chunk); s1_arr = s0_arr + chunk; s1_arr[-1] = ns *)
  Definition nchunks : Z := cdiv (c_ns P) (c_size P).
  Definition s0 (i : Z) : Z := i * c_size P.
  Definition s1 (i : Z) : Z := if i =? nchunks - 1 then c_ns P else s0 i + c_size P.
  (* wf_flat.iloc[lo:hi] with lo, hi = searchsorted(wf_flat["sample"], [s0, s1]) *)
  Definition slice_rows (tb : list row) (i : Z) : list row :=
    let sm := map r_sample tb in
    let lo := ss sm (s0 i) in
    let hi := ss sm (s1 i) in
    firstn (hi - lo) (skipn lo tb).

  (* ---- write_wfs_chunk / extract_wfs_array ---- *)
  Definition cidx : list (list Z) := channel_index (c_geom P) (c_r2n P) (c_r2d P) (c_nc P).
  (* channel_neighbors[peak_channel] *)
  Definition chan_row (ci : list (list Z)) (pc : Z) : option (list Z) :=
    match wrap_index (zlen ci) pc with
    | Some p => Some (znth [] ci p)
    | None => None
    end.
  (* arr[:, sind][cind, :] with the NaN row appended at index nc *)
  Definition gather (cind cols : list Z) : wf :=
    map (fun ch => map (fun c => if ch =? c_nc P then None else Some (src ch c)) cols) cind.
  Definition chunk_offset (i : Z) : Z := if i =? 0 then 0 else c_to P.
  (* one waveform of chunk i; the snippet is recording[a : a+len] *)
  Definition chunk_wf (ci : list (list Z)) (i a len : Z) (r : row) : option wf :=
    let loc := r_sample r + chunk_offset i - i * c_size P in
    match chan_row ci (r_chan r),
          sequence (map (fun t => option_map (Z.add a) (wrap_index len (loc + t - c_to P)))
                        (zrange (Z.to_nat (c_L P)))) with
    | Some cind, Some cols => Some (gather cind cols)
    | _, _ => None
    end.
  (* the (row, waveform) pairs chunk i writes; None = the job raises *)
  Definition chunk_writes (ci : list (list Z)) (tb : list row) (i : Z) : option (list (Z * wf)) :=
    let rows := slice_rows tb i in
    match rows with
    | [] => Some []                                        (* if len(wf_flat) == 0: return *)
    | _ =>
      let a := py_start (c_ns P) (s0 i - chunk_offset i) in
      let b := py_stop (c_ns P) (s1 i + c_L P - c_to P) in
      let len := Z.max 0 (b - a) in
      let lastr := last rows drow in
      (* assert last_idx + (spike_length_samples - trough_offset) < arr.shape[1] *)
      if (r_sample lastr + chunk_offset i - i * c_size P) + (c_L P - c_to P) <? len
      then sequence (map (fun r => option_map (pair (r_wfi r)) (chunk_wf ci i a len r)) rows)
      else None
    end.
  (* the public array-level entry point extract_wfs_array(arr, df, channel_neighbors, trough_offset,
     spike_length_samples): arr has `ns` columns and its NaN row (appended by add_nan_trace, or already
     there) has index c_nc P; one waveform per row of df; None = IndexError / AssertionError.
     It is write_wfs_chunk's inner call with chunk 0, snippet = the whole array. *)
  Definition extract_array (ci : list (list Z)) (ns : Z) (rows : list row) : option (list wf) :=
    match rows with
    | [] => None                                           (* df["sample"].iloc[-1] *)
    | _ => if r_sample (last rows drow) + (c_L P - c_to P) <? ns
           then sequence (map (chunk_wf ci 0 0 ns) rows) else None
    end.
  Definition job_writes (ci : list (list Z)) (tb : list row) : list (option (list (Z * wf))) :=
    map (chunk_writes ci tb) (zrange (Z.to_nat nchunks)).
  Definition all_writes (ci : list (list Z)) (tb : list row) : option (list (Z * wf)) :=
    option_map (@concat _) (sequence (job_writes ci tb)).
  (* memmap: None = never written (zeros on disk) *)
  Definition apply_writes (ws : list (Z * wf)) (m : list (option wf)) : list (option wf) :=
    fold_left (fun m e => upd m (Z.to_nat (fst e)) (Some (snd e))) ws m.
  Definition mem0 (tb : list row) : list (option wf) := repeat None (length tb).
  Definition traces : option (list (option wf)) :=
    let tb := table in
    option_map (fun ws => apply_writes ws (mem0 tb)) (all_writes cidx tb).

  (* the reference: window of the whole recording around sample s on the neighbours of pc *)
  Definition window (s pc : Z) : wf :=
    gather (znth [] cidx pc) (map (fun t => s - c_to P + t) (zrange (Z.to_nat (c_L P)))).

  (* ---- final sort, aggregation, derived columns ---- *)
  Definition sorted_table : list row := isort row_leb table.
  (* df.loc[df['sample'] >= 0].groupby('cluster').aggregate(count, min wfi, max wfi) *)
  Definition groups (tb : list row) : list (Z * Z * Z * Z) :=
    let ok := filter (fun r => 0 <=? r_sample r) tb in
    map (fun u => let ws := map r_wfi (filter (fun r => r_cluster r =? u) ok) in
                  (u, zlen ws, fold_right Z.min (hd 0 ws) ws, fold_right Z.max (hd 0 ws) ws))
        (zunique (map r_cluster ok)).
  Definition g_count (g : Z * Z * Z * Z) : Z := snd (fst (fst g)).
  Definition g_first (g : Z * Z * Z * Z) : Z := snd (fst g).
  Definition g_last (g : Z * Z * Z * Z) : Z := snd g.
  (* ones; .loc[inewc] = -count[:-1] + 1  (ValueError when the lengths differ) *)
  Fixpoint iwc_incr (prev : Z) (rows : list row) (vals : list Z) : option (list Z) :=
    match rows with
    | [] => match vals with [] => Some [] | _ => None end
    | r :: t =>
        if r_cluster r =? prev then option_map (cons 1) (iwc_incr prev t vals)
        else match vals with
             | [] => None
             | v :: vs => option_map (cons v) (iwc_incr (r_cluster r) t vs)
             end
    end.
  Definition iwc (tb : list row) : option (list Z) :=
    match tb with
    | [] => None                                            (* cluster.values[0]: IndexError *)
    | r0 :: _ =>
        match iwc_incr (r_cluster r0) tb
                       (map (fun g => - g_count g + 1) (removelast (groups tb))) with
        | Some inc => Some (map (fun x => x - 1) (cumsum inc))
        | None => None
        end
    end.
  (* wfs[rec.first_index:rec.last_index + 1] for the i-th group *)
  Definition template_ranges : list (Z * Z) :=
    map (fun g => (g_first g, g_last g + 1)) (groups sorted_table).
  (* channel_neighbors[peak_channel.astype(int16)] *)
  Definition chan_map : option (list (list Z)) :=
    let ci := cidx in
    sequence (map (fun r => chan_row ci (to_int16 (r_chan r))) sorted_table).

  (* ---- WaveformsLoader.load_waveforms(labels, indices), data version 2 ---- *)
  Definition load_rows (tb : list row) (iw : list Z) (labels : option (list Z))
             (indices : option (list Z)) : list Z :=
    let labs := match labels with Some l => l | None => map (fun g => fst (fst (fst g))) (groups tb) end in
    map fst (filter (fun e => let '(k, (r, w)) := e in
                       existsb (Z.eqb (r_cluster r)) labs &&
                       match indices with None => true | Some ix => existsb (Z.eqb w) ix end)
                    (combine (zrange (length tb)) (combine tb iw))).

  (* what load_waveforms returns: (traces[iw], df_wav.loc[iw], channels[iw]) row by row *)
  Definition load_waveforms (mem : list (option wf)) (tb : list row) (iw : list Z) (cm : list (list Z))
             (labels indices : option (list Z)) : list (option wf * row * Z * list Z) :=
    map (fun k => (znth None mem k, znth drow tb k, znth 0 iw k, znth [] cm k))
        (load_rows tb iw labels indices).

  (* The loader as a function of the FILES only: its state is the content of the four files
     (WaveformsLoader.__init__ re-reads them; load_waveforms writes nothing).  A call sequence: *)
  Record files := mkFiles { f_traces : list (option wf); f_table : list row; f_iwc : list Z;
                            f_chans : list (list Z) }.
  Definition query := (option (list Z) * option (list Z))%type.      (* labels, indices *)
  Definition loader_call (F : files) (q : query) : files * list (option wf * row * Z * list Z) :=
    (F, load_waveforms (f_traces F) (f_table F) (f_iwc F) (f_chans F) (fst q) (snd q)).
  Fixpoint loader_calls (F : files) (qs : list query) : files * list (list (option wf * row * Z * list Z)) :=
    match qs with
    | [] => (F, [])
    | q :: t => let c := loader_call F q in
                let r := loader_calls (fst c) t in (fst r, snd c :: snd r)
    end.
End Extract.

(* ================================================================== *)
(* write_wfs_chunk with preprocess_steps                               *)
(* ================================================================== *)
(* The snippet of chunk i (c_nc P rows, chunk_len i columns) goes through the requested steps, always in
   the order butterworth -> phase_shift -> bad_channel_interpolation -> car -> kfilt, before the windows are
   gathered from it.  What each library function computes is not C13's matter (C05 / C07 / C15): the steps
   are Section variables taking (rows, columns, snippet).  Step codes: 1 butterworth, 2 phase_shift,
   3 bad_channel_interpolation, 4 car, 5 kfilt. *)
Section Preprocess.
  Variable V : Type.
  Variable src : Z -> Z -> V.
  Definition snippet := Z -> Z -> V.                       (* channel, local column *)
  Variables f_butter f_shift f_interp f_car f_kfilt : Z -> Z -> snippet -> snippet.
  Variable choose : Z -> list Z -> Z -> list Z.
  Variable P : cfg.

  Definition has_step (k : Z) (steps : list Z) : bool := existsb (Z.eqb k) steps.
  (* assert set(preprocess_steps).issubset({...}); "car" and "kfilt" together: ValueError *)
  Definition steps_ok (steps : list Z) : bool :=
    forallb (fun k => (1 <=? k) && (k <=? 5)) steps && negb (has_step 4 steps && has_step 5 steps).
  Definition preprocess (steps : list Z) (nrows len : Z) (s : snippet) : snippet :=
    let s1 := if has_step 1 steps then f_butter nrows len s else s in
    let s2 := if has_step 2 steps then f_shift nrows len s1 else s1 in
    let s3 := if has_step 3 steps then f_interp nrows len s2 else s2 in
    let s4 := if has_step 4 steps then f_car nrows len s3 else s3 in
    if has_step 5 steps then f_kfilt nrows len s4 else s4.

  (* my_sr[s0 - offset : s1 + spike_length_samples - trough_offset, :-nsync].T *)
  Definition chunk_a (i : Z) : Z := py_start (c_ns P) (s0 P i - chunk_offset P i).
  Definition chunk_len (i : Z) : Z :=
    Z.max 0 (py_stop (c_ns P) (s1 P i + c_L P - c_to P) - chunk_a i).
  Definition raw_snippet (i : Z) : snippet := fun ch q => src ch (chunk_a i + q).
  (* the processed snippet of chunk i, addressed by absolute sample like the recording *)
  Definition pp_source (steps : list Z) (i : Z) : Z -> Z -> V :=
    fun ch c => preprocess steps (c_nc P) (chunk_len i) (raw_snippet i) ch (c - chunk_a i).
  Definition chunk_writes_pp (steps : list Z) (ci : list (list Z)) (tb : list row) (i : Z) :=
    chunk_writes V (pp_source steps i) P ci tb i.
  Definition all_writes_pp (steps : list Z) (ci : list (list Z)) (tb : list row) : option (list (Z * wf V)) :=
    option_map (@concat _) (sequence (map (chunk_writes_pp steps ci tb) (zrange (Z.to_nat (nchunks P))))).
  Definition traces_pp (steps : list Z) : option (list (option (wf V))) :=
    if steps_ok steps then
      let tb := table choose P in
      option_map (fun ws => apply_writes V ws (mem0 V tb)) (all_writes_pp steps (cidx P) tb)
    else None.
  (* what the harness needs to cut the expected waveforms out of processed snippets:
     (waveform_index, chunk, snippet start, snippet length, local column of the window start, peak channel) *)
  Definition gather_plan : list (list Z) :=
    let tb := table choose P in
    flat_map (fun i => map (fun r => [r_wfi r; i; chunk_a i; chunk_len i;
                                      r_sample r + chunk_offset P i - i * c_size P - c_to P; r_chan r])
                           (slice_rows P tb i))
             (zrange (Z.to_nat (nchunks P))).
End Preprocess.
