(* C13 — lemmas about the model (coq/C13/Model.v). *)
From Coq Require Import ZArith List Bool Lia Permutation Sorted.
From IBL.lib Require Import PyInt.
From IBL.C13 Require Import Model.
Import ListNotations.
Open Scope Z_scope.

(* ------------------------------------------------------------------ *)
(* generic list facts                                                  *)
(* ------------------------------------------------------------------ *)
Lemma zrange_S n : zrange (S n) = zrange n ++ [Z.of_nat n].
Proof. unfold zrange. rewrite seq_S, map_app. reflexivity. Qed.

Lemma firstn_skipn_app {A} (m : list A) p q :
  firstn p m ++ firstn q (skipn p m) = firstn (p + q) m.
Proof.
  revert m. induction p as [|p IH]; intros m; [reflexivity|].
  destruct m as [|x m]; [now rewrite !firstn_nil|].
  cbn [skipn firstn Nat.add app]. f_equal. apply IH.
Qed.

Lemma skipn_add {A} (l : list A) p q : skipn p (skipn q l) = skipn (q + p) l.
Proof.
  revert l. induction q as [|q IH]; intros l; [reflexivity|].
  destruct l as [|x l]; [now rewrite !skipn_nil|]. cbn [skipn Nat.add]. apply IH.
Qed.

Lemma slice_app {A} (l : list A) a b c : (a <= b <= c)%nat ->
  firstn (b - a) (skipn a l) ++ firstn (c - b) (skipn b l) = firstn (c - a) (skipn a l).
Proof.
  intros H. replace (skipn b l) with (skipn (b - a) (skipn a l)).
  - rewrite firstn_skipn_app. f_equal. lia.
  - rewrite skipn_add. f_equal. lia.
Qed.

(* ------------------------------------------------------------------ *)
(* searchsorted                                                        *)
(* ------------------------------------------------------------------ *)
Lemma ss_le_length l v : (ss l v <= length l)%nat.
Proof. induction l as [|x l IH]; cbn; [lia|]. destruct (x <? v); lia. Qed.

Lemma ss_mono l v v' : v <= v' -> (ss l v <= ss l v')%nat.
Proof.
  intros H. induction l as [|x l IH]; cbn; [lia|].
  destruct (x <? v) eqn:E; [|lia].
  assert (E' : x <? v' = true) by lia. rewrite E'. lia.
Qed.

Lemma ss_all_lt l v : Forall (fun x => x < v) l -> ss l v = length l.
Proof.
  induction 1 as [|x l Hx _ IH]; cbn; [reflexivity|].
  assert (E : x <? v = true) by lia. now rewrite E, IH.
Qed.

Lemma ss_none l v : Forall (fun x => v <= x) l -> ss l v = 0%nat.
Proof.
  destruct 1 as [|x l Hx _]; cbn; [reflexivity|].
  assert (E : x <? v = false) by lia. now rewrite E.
Qed.

(* elements before position ss are < v *)
Lemma ss_prefix_lt l v k : (k < ss l v)%nat -> nth k l 0 < v.
Proof.
  revert k. induction l as [|x l IH]; cbn; intros k Hk; [lia|].
  destruct (x <? v) eqn:E; [|lia].
  destruct k; [lia|]. apply IH. lia.
Qed.

(* on an ascending list, elements from position ss on are >= v *)
Lemma ss_suffix_ge l v k : StronglySorted Z.le l -> (ss l v <= k < length l)%nat -> v <= nth k l 0.
Proof.
  intros Hs. revert k. induction Hs as [|x l Hs IH Hx]; cbn; intros k Hk; [lia|].
  destruct (x <? v) eqn:E.
  - destruct k; [lia|]. apply IH. lia.
  - destruct k; [lia|].
    assert (Hin : In (nth k l 0) l) by (apply nth_In; lia).
    rewrite Forall_forall in Hx. specialize (Hx _ Hin). lia.
Qed.

(* ------------------------------------------------------------------ *)
(* chunks and slices                                                   *)
(* ------------------------------------------------------------------ *)
Section Chunks.
  Variable P : cfg.
  Hypothesis Hns : 1 <= c_ns P.
  Hypothesis Hsize : 1 <= c_size P.
  Set Default Proof Using "Hns Hsize".

  Lemma nchunks_spec : (nchunks P - 1) * c_size P < c_ns P <= nchunks P * c_size P /\ 1 <= nchunks P.
  Proof.
    unfold nchunks. pose proof (cdiv_spec (c_ns P) (c_size P) ltac:(lia)).
    pose proof (cdiv_pos (c_ns P) (c_size P) ltac:(lia) ltac:(lia)). lia.
  Qed.

  (* chunk boundaries: bound i = s0 i, bound (i+1) = s1 i *)
  Definition bound (i : Z) : Z := if i =? nchunks P then c_ns P else i * c_size P.

  Lemma s0_bound i : 0 <= i < nchunks P -> s0 P i = bound i.
  Proof. intros H. unfold bound, s0. destruct (i =? nchunks P) eqn:E; lia. Qed.

  Lemma s1_bound i : s1 P i = bound (i + 1).
  Proof.
    unfold bound, s1, s0.
    destruct (i =? nchunks P - 1) eqn:E; destruct (i + 1 =? nchunks P) eqn:E'; lia.
  Qed.

  Lemma bound_mono i : 0 <= i < nchunks P -> bound i <= bound (i + 1).
  Proof.
    intros H. pose proof nchunks_spec as Hn. unfold bound.
    destruct (i =? nchunks P) eqn:E; destruct (i + 1 =? nchunks P) eqn:E'; try nia.
  Qed.

  Lemma bound_range i : 0 <= i < nchunks P -> 0 <= bound i /\ bound i < bound (i + 1) /\ bound (i + 1) <= c_ns P.
  Proof.
    intros H. pose proof nchunks_spec as Hn. unfold bound.
    destruct (i =? nchunks P) eqn:E; destruct (i + 1 =? nchunks P) eqn:E'; try nia.
  Qed.

  Lemma slice_rows_bound tb i : 0 <= i < nchunks P ->
    slice_rows P tb i =
    firstn (ss (map r_sample tb) (bound (i + 1)) - ss (map r_sample tb) (bound i))
           (skipn (ss (map r_sample tb) (bound i)) tb).
  Proof. intros H. unfold slice_rows. now rewrite s1_bound, s0_bound. Qed.

  Lemma slices_concat tb k : (Z.of_nat k <= nchunks P) ->
    ss (map r_sample tb) (bound 0) = 0%nat ->
    concat (map (slice_rows P tb) (zrange k)) = firstn (ss (map r_sample tb) (bound (Z.of_nat k))) tb.
  Proof.
    intros Hk H0. induction k as [|k IH].
    - cbn. now rewrite H0.
    - rewrite zrange_S, map_app, concat_app, IH by lia. cbn [map concat]. rewrite app_nil_r.
      rewrite slice_rows_bound by lia.
      replace (Z.of_nat (S k)) with (Z.of_nat k + 1) by lia.
      pose proof (ss_mono (map r_sample tb) _ _ (bound_mono (Z.of_nat k) ltac:(lia))) as Hm.
      set (a := ss (map r_sample tb) (bound (Z.of_nat k))) in *.
      set (b := ss (map r_sample tb) (bound (Z.of_nat k + 1))) in *.
      pose proof (slice_app tb 0 a b ltac:(lia)) as Hs. cbn [skipn] in Hs.
      rewrite !Nat.sub_0_r in Hs. exact Hs.
  Qed.

  (* the searchsorted slices partition the rows of any table whose samples lie in [0, ns) *)
  Lemma slices_partition tb :
    Forall (fun r => 0 <= r_sample r < c_ns P) tb ->
    concat (map (slice_rows P tb) (zrange (Z.to_nat (nchunks P)))) = tb.
  Proof.
    intros Hr. pose proof nchunks_spec as Hn.
    rewrite slices_concat.
    - rewrite Z2Nat.id by lia. unfold bound. rewrite Z.eqb_refl.
      rewrite ss_all_lt.
      + rewrite map_length. apply firstn_all.
      + rewrite Forall_map. eapply Forall_impl; [|exact Hr]. cbn. lia.
    - lia.
    - apply ss_none. rewrite Forall_map. eapply Forall_impl; [|exact Hr]. cbn.
      intros r Hr'. unfold bound. destruct (0 =? nchunks P) eqn:E; lia.
  Qed.
End Chunks.
Set Default Proof Using "Type".

(* ------------------------------------------------------------------ *)
(* more list facts                                                     *)
(* ------------------------------------------------------------------ *)
Lemma zlen_nonneg {A} (l : list A) : 0 <= zlen l.
Proof. unfold zlen. lia. Qed.

Lemma nth_zrange n k : (k < n)%nat -> nth k (zrange n) 0 = Z.of_nat k.
Proof.
  intros H. unfold zrange. change 0 with (Z.of_nat 0). rewrite map_nth, seq_nth by lia. reflexivity.
Qed.

Lemma NoDup_zrange n : NoDup (zrange n).
Proof.
  unfold zrange. apply FinFun.Injective_map_NoDup; [|apply seq_NoDup].
  intros a b H. lia.
Qed.

Lemma skipn_cons_nth {A} (l : list A) k d : (k < length l)%nat -> skipn k l = nth k l d :: skipn (S k) l.
Proof.
  revert k. induction l as [|x l IH]; intros k H; cbn in H; [lia|].
  destruct k; [reflexivity|]. cbn [skipn nth]. apply IH. lia.
Qed.

Lemma nth_firstn_lt {A} (l : list A) n i d : (i < n)%nat -> nth i (firstn n l) d = nth i l d.
Proof.
  revert n i. induction l as [|x l IH]; intros n i H; [now rewrite firstn_nil|].
  destruct n; [lia|]. destruct i; [reflexivity|]. cbn. apply IH. lia.
Qed.

Lemma nth_skipn_add {A} (l : list A) q i d : nth i (skipn q l) d = nth (q + i) l d.
Proof.
  revert l. induction q as [|q IH]; intros l; [reflexivity|].
  destruct l as [|x l]; [now destruct i|]. cbn. apply IH.
Qed.

Lemma in_slice {A} (l : list A) p q r d : In r (firstn p (skipn q l)) ->
  exists k, (q <= k < q + p)%nat /\ (k < length l)%nat /\ nth k l d = r.
Proof.
  intros H. destruct (In_nth _ _ d H) as [j [Hj Hn]].
  rewrite firstn_length, skipn_length in Hj.
  exists (q + j)%nat. repeat split; try lia.
  rewrite <- Hn. rewrite nth_firstn_lt by lia. now rewrite nth_skipn_add.
Qed.

Lemma sequence_map_some {A B} (f : A -> option B) (g : A -> B) l :
  (forall x, In x l -> f x = Some (g x)) -> sequence (map f l) = Some (map g l).
Proof.
  induction l as [|x l IH]; intros H; cbn; [reflexivity|].
  rewrite (H x) by now left. rewrite IH; [reflexivity|]. intros y Hy. apply H. now right.
Qed.

Lemma sequence_some_length {A} (l : list (option A)) r : sequence l = Some r -> length r = length l.
Proof.
  revert r. induction l as [|[a|] l IH]; intros r H; cbn in H; try discriminate.
  - now inversion H.
  - destruct (sequence l); [|discriminate]. inversion H; subst. cbn. f_equal. now apply IH.
Qed.

(* ------------------------------------------------------------------ *)
(* one chunk job extracts the global window of each of its rows        *)
(* ------------------------------------------------------------------ *)
Section Window.
  Variable V : Type.
  Variable src : Z -> Z -> V.
  Variable P : cfg.
  Hypothesis Hns : 1 <= c_ns P.
  Hypothesis Hsize : 1 <= c_size P.
  Hypothesis Hto : 0 <= c_to P <= c_L P.
  Hypothesis Hts : c_to P <= c_size P \/ nchunks P = 1.
  Set Default Proof Using "Hns Hsize Hto Hts".

  (* a row of a valid spike: strictly inside the window margins, peak channel on the probe *)
  Definition valid_row (r : row) : Prop :=
    c_to P < r_sample r < c_ns P - (c_L P - c_to P) /\ 0 <= r_chan r < zlen (c_geom P).

  Lemma zlen_cidx : zlen (cidx P) = zlen (c_geom P).
  Proof.
    unfold cidx, channel_index, chans, zlen. cbv zeta. now rewrite map_length, zrange_length.
  Qed.

  Lemma chunk_geometry i : 0 <= i < nchunks P ->
    let off := chunk_offset P i in
    0 <= s0 P i - off /\ s0 P i - off <= c_ns P /\ s0 P i < s1 P i /\ s1 P i <= c_ns P /\
    s0 P i = i * c_size P /\ ((i = 0 /\ off = 0) \/ (1 <= i /\ off = c_to P)).
  Proof.
    intros Hi off. pose proof (bound_range P Hns Hsize i Hi) as Hb.
    rewrite <- (s0_bound P Hns Hsize i Hi), <- (s1_bound P Hns Hsize) in Hb.
    assert (Hs0 : s0 P i = i * c_size P) by reflexivity.
    unfold off, chunk_offset. destruct (i =? 0) eqn:E.
    - repeat split; try lia.
    - assert (c_to P <= i * c_size P) by (destruct Hts; [nia|lia]).
      repeat split; try lia.
  Qed.

  Lemma chunk_wf_window i r : 0 <= i < nchunks P -> valid_row r ->
    s0 P i <= r_sample r < s1 P i ->
    let off := chunk_offset P i in
    let a := py_start (c_ns P) (s0 P i - off) in
    let b := py_stop (c_ns P) (s1 P i + c_L P - c_to P) in
    let len := Z.max 0 (b - a) in
    chunk_wf V src P (cidx P) i a len r = Some (window V src P (r_sample r) (r_chan r)) /\
    (r_sample r + off - i * c_size P) + (c_L P - c_to P) < len.
  Proof.
    intros Hi [Hv Hc] Hs off a b len.
    destruct (chunk_geometry i Hi) as (Ha0 & Ha1 & Hlt & Hs1 & Hs0 & Hoff). fold off in Ha0, Ha1, Hoff.
    assert (Ea : a = s0 P i - off).
    { unfold a, py_start. destruct (s0 P i - off <? 0) eqn:E; lia. }
    assert (Eb : b = Z.min (s1 P i + c_L P - c_to P) (c_ns P)).
    { unfold b, py_stop. destruct (s1 P i + c_L P - c_to P <? 0) eqn:E; lia. }
    assert (Hlen : r_sample r - c_to P + c_L P < a + len /\ a + len = b) by (unfold len; lia).
    assert (Hq0 : a <= r_sample r - c_to P) by lia.
    split; [|lia].
    unfold chunk_wf, chan_row. fold off. rewrite zlen_cidx.
    assert (Ew : wrap_index (zlen (c_geom P)) (r_chan r) = Some (r_chan r)).
    { unfold wrap_index. assert (E : (0 <=? r_chan r) && (r_chan r <? zlen (c_geom P)) = true) by lia.
      now rewrite E. }
    rewrite Ew.
    rewrite (sequence_map_some _ (fun t => r_sample r - c_to P + t)).
    - reflexivity.
    - intros t Ht. apply in_zrange in Ht. rewrite Z2Nat.id in Ht by lia.
      unfold wrap_index.
      assert (E : (0 <=? r_sample r + off - i * c_size P + t - c_to P) &&
                  (r_sample r + off - i * c_size P + t - c_to P <? len) = true) by lia.
      rewrite E. cbn. f_equal. lia.
  Qed.

  Lemma slice_rows_in tb i r : StronglySorted Z.le (map r_sample tb) ->
    In r (slice_rows P tb i) -> In r tb /\ s0 P i <= r_sample r < s1 P i.
  Proof.
    intros Hs Hin. unfold slice_rows in Hin.
    destruct (in_slice _ _ _ _ drow Hin) as [k [Hk [Hkl Hn]]].
    set (sm := map r_sample tb) in *.
    assert (Esm : nth k sm 0 = r_sample r).
    { unfold sm. change 0 with (r_sample drow). rewrite map_nth. now rewrite Hn. }
    split; [rewrite <- Hn; apply nth_In; exact Hkl|].
    rewrite <- Esm. split.
    - assert (Hl : length sm = length tb) by (unfold sm; apply map_length).
      apply ss_suffix_ge; [exact Hs|]. lia.
    - apply ss_prefix_lt. lia.
  Qed.

  Lemma last_in {A} (l : list A) d : l <> [] -> In (last l d) l.
  Proof.
    induction l as [|x l IH]; intros H; [congruence|].
    destruct l as [|y l]; [now left|]. right. apply IH. discriminate.
  Qed.

  Definition canon_write (r : row) : Z * wf V :=
    (r_wfi r, window V src P (r_sample r) (r_chan r)).

  Lemma chunk_writes_canon tb i : 0 <= i < nchunks P ->
    StronglySorted Z.le (map r_sample tb) -> Forall valid_row tb ->
    chunk_writes V src P (cidx P) tb i = Some (map canon_write (slice_rows P tb i)).
  Proof.
    intros Hi Hs Hv. unfold chunk_writes.
    destruct (slice_rows P tb i) as [|r0 rows] eqn:Er; [reflexivity|].
    assert (Hrows : forall r, In r (r0 :: rows) -> valid_row r /\ s0 P i <= r_sample r < s1 P i).
    { intros r Hr. rewrite <- Er in Hr. destruct (slice_rows_in tb i r Hs Hr) as [Hin Hrg].
      split; [|exact Hrg]. rewrite Forall_forall in Hv. now apply Hv. }
    assert (Hne : r0 :: rows <> []) by discriminate.
    destruct (Hrows (last (r0 :: rows) drow) (last_in _ drow Hne)) as [Hlv Hls].
    destruct (chunk_wf_window i _ Hi Hlv Hls) as [_ Hass].
    apply Z.ltb_lt in Hass. rewrite Hass.
    apply sequence_map_some. intros r Hr. destruct (Hrows r Hr) as [Hrv Hrs].
    destruct (chunk_wf_window i r Hi Hrv Hrs) as [Hw _]. rewrite Hw. reflexivity.
  Qed.

  Lemma valid_rows_in_recording tb : Forall valid_row tb ->
    Forall (fun r => 0 <= r_sample r < c_ns P) tb.
  Proof. apply Forall_impl. intros r [Hv _]. lia. Qed.

  (* every job succeeds and together they write, for each table row, the window of that row *)
  Lemma all_writes_canon tb : StronglySorted Z.le (map r_sample tb) -> Forall valid_row tb ->
    all_writes V src P (cidx P) tb = Some (map canon_write tb).
  Proof.
    intros Hs Hv. unfold all_writes, job_writes.
    rewrite (sequence_map_some _ (fun i => map canon_write (slice_rows P tb i))).
    - cbn [option_map]. f_equal.
      rewrite <- (map_map (slice_rows P tb) (map canon_write)), <- concat_map.
      f_equal. apply slices_partition; auto. now apply valid_rows_in_recording.
    - intros i Hi. apply in_zrange in Hi. pose proof (nchunks_spec P Hns Hsize).
      rewrite Z2Nat.id in Hi by lia. now apply chunk_writes_canon.
  Qed.
End Window.
Set Default Proof Using "Type".

(* ------------------------------------------------------------------ *)
(* the memmap: writes to distinct rows commute                         *)
(* ------------------------------------------------------------------ *)
Section Memory.
  Variable V : Type.
  Notation key := (fun e : Z * wf V => Z.to_nat (fst e)).

  Lemma upd_length {A} (l : list A) k x : length (upd l k x) = length l.
  Proof. revert k. induction l as [|y l IH]; intros [|k]; cbn; auto. Qed.

  Lemma upd_nth_same {A} (l : list A) k x d : (k < length l)%nat -> nth k (upd l k x) d = x.
  Proof. revert k. induction l as [|y l IH]; intros [|k] H; cbn in *; try lia; auto. apply IH. lia. Qed.

  Lemma upd_nth_other {A} (l : list A) k k' x d : k <> k' -> nth k' (upd l k x) d = nth k' l d.
  Proof.
    revert k k'. induction l as [|y l IH]; intros [|k] [|k'] H; cbn; auto; try congruence.
  Qed.

  Lemma aw_length (ws : list (Z * wf V)) m : length (apply_writes V ws m) = length m.
  Proof.
    revert m. induction ws as [|e ws IH]; intros m; cbn; [reflexivity|].
    unfold apply_writes in IH. rewrite IH. apply upd_length.
  Qed.

  Lemma aw_nth_notin (ws : list (Z * wf V)) m k : ~ In k (map key ws) ->
    nth k (apply_writes V ws m) None = nth k m None.
  Proof.
    revert m. induction ws as [|e ws IH]; intros m H; cbn; [reflexivity|].
    cbn in H. unfold apply_writes in IH. rewrite IH by tauto.
    apply upd_nth_other. tauto.
  Qed.

  Lemma aw_nth_in (ws : list (Z * wf V)) m e : NoDup (map key ws) -> In e ws ->
    (key e < length m)%nat -> nth (key e) (apply_writes V ws m) None = Some (snd e).
  Proof.
    revert m. induction ws as [|e0 ws IH]; intros m Hnd Hin Hk; [contradiction|].
    cbn [map] in Hnd. inversion Hnd as [|? ? Hn0 Hnd']; subst.
    change (apply_writes V (e0 :: ws) m) with (apply_writes V ws (upd m (key e0) (Some (snd e0)))).
    destruct Hin as [->|Hin].
    - rewrite aw_nth_notin by exact Hn0. now apply upd_nth_same.
    - apply IH; auto. now rewrite upd_length.
  Qed.

  (* any schedule (permutation) of the same writes to distinct rows gives the same memmap *)
  Lemma writes_commute (ws sched : list (Z * wf V)) m : NoDup (map key ws) ->
    Permutation sched ws -> apply_writes V sched m = apply_writes V ws m.
  Proof.
    intros Hnd Hp.
    assert (Hnd' : NoDup (map key sched)).
    { eapply Permutation_NoDup; [|exact Hnd]. apply Permutation_map. now symmetry. }
    apply nth_ext with (d := None) (d' := None); [now rewrite !aw_length|].
    intros k Hk. rewrite aw_length in Hk.
    destruct (in_dec Nat.eq_dec k (map key ws)) as [Hin|Hnin].
    - apply in_map_iff in Hin. destruct Hin as [e [<- He]].
      rewrite (aw_nth_in ws m e Hnd He Hk).
      apply aw_nth_in; auto. eapply Permutation_in; [symmetry; exact Hp|exact He].
    - rewrite (aw_nth_notin ws m k Hnin). apply aw_nth_notin.
      intros Hin. apply Hnin. eapply Permutation_in; [|exact Hin]. now apply Permutation_map.
  Qed.
End Memory.

(* ------------------------------------------------------------------ *)
(* insertion sort                                                      *)
(* ------------------------------------------------------------------ *)
Section Sort.
  Context {A : Type} (leb : A -> A -> bool).
  Notation R := (fun a b => leb a b = true).

  Lemma insert_perm x l : Permutation (insert leb x l) (x :: l).
  Proof.
    induction l as [|y l IH]; cbn; [reflexivity|].
    destruct (leb x y); [reflexivity|]. rewrite IH. apply perm_swap.
  Qed.

  Lemma isort_perm l : Permutation (isort leb l) l.
  Proof.
    induction l as [|x l IH]; cbn; [reflexivity|].
    rewrite insert_perm. now constructor.
  Qed.

  Hypothesis total : forall a b, leb a b = true \/ leb b a = true.
  Hypothesis trans : forall a b c, leb a b = true -> leb b c = true -> leb a c = true.

  Lemma insert_hdrel a x l : R a x -> HdRel R a l -> HdRel R a (insert leb x l).
  Proof.
    intros Hax H. destruct l as [|y l]; cbn; [now constructor|].
    destruct (leb x y); constructor; auto. now inversion H.
  Qed.

  Lemma insert_sorted x l : Sorted R l -> Sorted R (insert leb x l).
  Proof using total.
    induction 1 as [|a l Hs IH Hd]; cbn; [repeat constructor|].
    destruct (leb x a) eqn:E.
    - constructor; [now constructor|now constructor].
    - constructor; [exact IH|]. apply insert_hdrel; auto.
      destruct (total x a); congruence.
  Qed.

  Lemma isort_sorted l : StronglySorted R (isort leb l).
  Proof using total trans.
    apply Sorted_StronglySorted.
    - intros a b c. apply trans.
    - induction l as [|x l IH]; cbn; [constructor|]. now apply insert_sorted.
  Qed.
End Sort.

Lemma StronglySorted_impl {A} (R R' : A -> A -> Prop) l :
  (forall a b, In a l -> In b l -> R a b -> R' a b) -> StronglySorted R l -> StronglySorted R' l.
Proof.
  intros H Hs. induction Hs as [|x l Hs IH Hx]; constructor.
  - apply IH. intros a b Ha Hb. apply H; now right.
  - rewrite Forall_forall in *. intros b Hb. apply H; [now left|now right|now apply Hx].
Qed.

Lemma zsort_sorted l : StronglySorted Z.le (isort Z.leb l).
Proof.
  eapply StronglySorted_impl; [|apply isort_sorted].
  - intros a b _ _ H. now apply Z.leb_le.
  - intros a b. lia.
  - intros a b c. lia.
Qed.

Lemma StronglySorted_filter {A} (R : A -> A -> Prop) f l :
  StronglySorted R l -> StronglySorted R (filter f l).
Proof.
  induction 1 as [|x l Hs IH Hx]; cbn; [constructor|].
  destruct (f x); [|exact IH]. constructor; [exact IH|].
  rewrite Forall_forall in *. intros b Hb. apply filter_In in Hb. now apply Hx.
Qed.

Lemma Permutation_filter {A} (f : A -> bool) l l' :
  Permutation l l' -> Permutation (filter f l) (filter f l').
Proof.
  induction 1 as [|x l l' Hp IH|x y l|l l' l'' H1 IH1 H2 IH2]; cbn.
  - constructor.
  - destruct (f x); [now constructor|exact IH].
  - destruct (f x), (f y); try reflexivity. apply perm_swap.
  - now rewrite IH1.
Qed.

(* a strictly increasing list of m integers from [0, m) is 0, 1, ..., m-1 *)
Lemma ssorted_gap W : StronglySorted Z.lt W -> forall i j, (i <= j < length W)%nat ->
  nth i W 0 + Z.of_nat (j - i) <= nth j W 0.
Proof.
  induction 1 as [|x W Hs IH Hx]; intros i j Hij; cbn in Hij; [lia|].
  destruct i as [|i], j as [|j]; cbn [nth]; try lia.
  - assert (Hin : In (nth 0 W 0) W) by (apply nth_In; lia).
    rewrite Forall_forall in Hx. specialize (Hx _ Hin).
    specialize (IH 0%nat j ltac:(lia)). lia.
  - specialize (IH i j ltac:(lia)). replace (S j - S i)%nat with (j - i)%nat by lia. exact IH.
Qed.

Lemma ssorted_range_id W : StronglySorted Z.lt W ->
  Forall (fun w => 0 <= w < Z.of_nat (length W)) W ->
  forall r, (r < length W)%nat -> nth r W 0 = Z.of_nat r.
Proof.
  intros Hs Hr r Hlt. rewrite Forall_forall in Hr.
  pose proof (ssorted_gap W Hs 0%nat r ltac:(lia)) as H1.
  pose proof (ssorted_gap W Hs r (length W - 1)%nat ltac:(lia)) as H2.
  assert (H0 : 0 <= nth 0 W 0) by (apply Hr, nth_In; lia).
  assert (Hl : nth (length W - 1) W 0 < Z.of_nat (length W)) by (apply Hr, nth_In; lia).
  lia.
Qed.

(* ------------------------------------------------------------------ *)
(* the table as a function of the list of selected spikes              *)
(* ------------------------------------------------------------------ *)
Definition mk_table (l : list (Z * Z * Z)) : list row :=
  let cl := map sp_cluster l in
  map (fun e => mkRow (fst e) (sp_sample (snd e)) (sp_cluster (snd e)) (sp_chan (snd e))
                      (wfi_of cl (fst e))) (enumerate l).

Lemma combine_map_r {A B C} (f : B -> C) (a : list A) (b : list B) :
  combine a (map f b) = map (fun e => (fst e, f (snd e))) (combine a b).
Proof.
  revert b. induction a as [|x a IH]; intros [|y b]; cbn; auto. now rewrite IH.
Qed.

Lemma enumerate_map {A B} (f : A -> B) l :
  enumerate (map f l) = map (fun e => (fst e, f (snd e))) (enumerate l).
Proof. unfold enumerate. now rewrite map_length, combine_map_r. Qed.

Lemma enumerate_length {A} (l : list A) : length (enumerate l) = length l.
Proof. unfold enumerate. rewrite combine_length, zrange_length. lia. Qed.

Lemma enumerate_nth {A} (l : list A) k d : (k < length l)%nat ->
  nth k (enumerate l) (0, d) = (Z.of_nat k, nth k l d).
Proof.
  intros H. unfold enumerate. rewrite combine_nth by now rewrite zrange_length.
  now rewrite nth_zrange.
Qed.

Lemma enumerate_in {A} (l : list A) p x d : In (p, x) (enumerate l) ->
  0 <= p < zlen l /\ x = nth (Z.to_nat p) l d.
Proof.
  intros H. destruct (In_nth _ _ (0, d) H) as [k [Hk Hn]].
  rewrite enumerate_length in Hk. rewrite enumerate_nth in Hn by exact Hk.
  inversion Hn; subst. unfold zlen. rewrite Nat2Z.id. split; [lia|reflexivity].
Qed.

Lemma enumerate_in_conv {A} (l : list A) p d : 0 <= p < zlen l ->
  In (p, nth (Z.to_nat p) l d) (enumerate l).
Proof.
  intros H. unfold zlen in H.
  replace (p, nth (Z.to_nat p) l d) with (nth (Z.to_nat p) (enumerate l) (0, d)).
  - apply nth_In. rewrite enumerate_length. lia.
  - rewrite enumerate_nth by lia. f_equal. lia.
Qed.

Lemma map_fst_combine {A B} (a : list A) (b : list B) : length a = length b -> map fst (combine a b) = a.
Proof.
  revert b. induction a as [|x a IH]; intros [|y b] H; cbn in *; try lia; auto. f_equal. apply IH. lia.
Qed.

Lemma map_snd_combine {A B} (a : list A) (b : list B) : length a = length b -> map snd (combine a b) = b.
Proof.
  revert b. induction a as [|x a IH]; intros [|y b] H; cbn in *; try lia; auto. f_equal. apply IH. lia.
Qed.

Lemma mk_table_length l : length (mk_table l) = length l.
Proof. unfold mk_table. cbv zeta. now rewrite map_length, enumerate_length. Qed.

Lemma nth_map' {A B} (f : A -> B) l k d d' : (k < length l)%nat -> nth k (map f l) d' = f (nth k l d).
Proof.
  intros H. rewrite nth_indep with (d' := f d) by (rewrite map_length; lia). apply map_nth.
Qed.

Lemma mk_table_nth l k : (k < length l)%nat ->
  nth k (mk_table l) drow =
  let x := nth k l dspike in
  mkRow (Z.of_nat k) (sp_sample x) (sp_cluster x) (sp_chan x) (wfi_of (map sp_cluster l) (Z.of_nat k)).
Proof.
  intros H. unfold mk_table. cbv zeta.
  rewrite (nth_map' _ _ _ (0, dspike)) by now rewrite enumerate_length.
  rewrite enumerate_nth by exact H. reflexivity.
Qed.

Lemma mk_table_in l r : In r (mk_table l) ->
  exists k, (k < length l)%nat /\ r = nth k (mk_table l) drow.
Proof.
  intros H. destruct (In_nth _ _ drow H) as [k [Hk Hn]]. rewrite mk_table_length in Hk.
  exists k. split; [exact Hk|now symmetry].
Qed.

(* counting *)
Lemma count_if_app f a b : count_if f (a ++ b) = count_if f a + count_if f b.
Proof. unfold count_if, zlen. rewrite filter_app, app_length. lia. Qed.

Lemma count_if_nonneg f l : 0 <= count_if f l.
Proof. unfold count_if. apply zlen_nonneg. Qed.

Lemma count_if_cons f x l : count_if f (x :: l) = (if f x then 1 else 0) + count_if f l.
Proof. unfold count_if, zlen. cbn. destruct (f x); cbn [length]; lia. Qed.

Lemma count_lt_eq_le c c' l : c < c' ->
  count_if (fun x => x <? c) l + count_if (fun x => x =? c) l <= count_if (fun x => x <? c') l.
Proof.
  intros H. induction l as [|x l IH]; [cbn; lia|]. rewrite !count_if_cons.
  destruct (x <? c) eqn:E1, (x =? c) eqn:E2, (x <? c') eqn:E3; lia.
Qed.

Lemma count_lt_eq_len c l :
  count_if (fun x => x <? c) l + count_if (fun x => x =? c) l <= zlen l.
Proof.
  induction l as [|x l IH]; [cbn; lia|]. rewrite !count_if_cons. unfold zlen in *. cbn [length].
  destruct (x <? c) eqn:E1, (x =? c) eqn:E2; lia.
Qed.

(* position k holds c: strictly fewer c's before k than before any later position / in total *)
Lemma count_eq_prefix_lt c l k k' : (k < k' <= length l)%nat -> nth k l 0 = c ->
  count_if (fun x => x =? c) (firstn k l) < count_if (fun x => x =? c) (firstn k' l).
Proof.
  intros Hk Hc. replace k' with (k + (k' - k))%nat by lia.
  rewrite <- firstn_skipn_app, count_if_app.
  rewrite (skipn_cons_nth l k 0) by lia.
  destruct (k' - k)%nat as [|d] eqn:E; [lia|]. cbn [firstn]. rewrite count_if_cons, Hc, Z.eqb_refl.
  pose proof (count_if_nonneg (fun x => x =? c) (firstn d (skipn (S k) l))). lia.
Qed.

Lemma count_eq_prefix_total c l k : (k < length l)%nat -> nth k l 0 = c ->
  count_if (fun x => x =? c) (firstn k l) < count_if (fun x => x =? c) l.
Proof.
  intros Hk Hc. pose proof (count_eq_prefix_lt c l k (length l) ltac:(lia) Hc) as H.
  now rewrite firstn_all in H.
Qed.

Lemma count_eq_prefix_le c l k : count_if (fun x => x =? c) (firstn k l) <= count_if (fun x => x =? c) l.
Proof.
  rewrite <- (firstn_skipn k l) at 2. rewrite count_if_app.
  pose proof (count_if_nonneg (fun x => x =? c) (skipn k l)). lia.
Qed.

Section Rank.
  Variable cl : list Z.
  Notation wfi k := (wfi_of cl (Z.of_nat k)).

  Lemma wfi_unfold k : wfi k = count_if (fun x => x <? nth k cl 0) cl +
                               count_if (fun x => x =? nth k cl 0) (firstn k cl).
  Proof. unfold wfi_of, znth. now rewrite Nat2Z.id. Qed.

  Lemma wfi_range k : (k < length cl)%nat -> 0 <= wfi k < zlen cl.
  Proof.
    intros H. rewrite wfi_unfold.
    pose proof (count_eq_prefix_total _ cl k H eq_refl).
    pose proof (count_lt_eq_len (nth k cl 0) cl).
    pose proof (count_if_nonneg (fun x => x <? nth k cl 0) cl).
    pose proof (count_if_nonneg (fun x => x =? nth k cl 0) (firstn k cl)). lia.
  Qed.

  Lemma wfi_lt_cluster k k' : (k < length cl)%nat -> (k' < length cl)%nat ->
    nth k cl 0 < nth k' cl 0 -> wfi k < wfi k'.
  Proof.
    intros Hk Hk' Hc. rewrite !wfi_unfold.
    pose proof (count_eq_prefix_total _ cl k Hk eq_refl).
    pose proof (count_lt_eq_le _ _ cl Hc).
    pose proof (count_if_nonneg (fun x => x =? nth k' cl 0) (firstn k' cl)). lia.
  Qed.

  Lemma wfi_lt_pos k k' : (k < k' < length cl)%nat -> nth k cl 0 = nth k' cl 0 -> wfi k < wfi k'.
  Proof.
    intros Hk Hc. rewrite !wfi_unfold. rewrite <- Hc.
    pose proof (count_eq_prefix_lt _ cl k k' ltac:(lia) eq_refl). lia.
  Qed.
End Rank.

Lemma row_leb_total a b : row_leb a b = true \/ row_leb b a = true.
Proof.
  unfold row_leb.
  destruct (r_cluster a <? r_cluster b) eqn:E1, (r_cluster b <? r_cluster a) eqn:E2,
           (r_sample a <? r_sample b) eqn:E3, (r_sample b <? r_sample a) eqn:E4; lia.
Qed.

Lemma row_leb_trans a b c : row_leb a b = true -> row_leb b c = true -> row_leb a c = true.
Proof.
  unfold row_leb.
  destruct (r_cluster a <? r_cluster b) eqn:E1, (r_cluster b <? r_cluster a) eqn:E2,
           (r_sample a <? r_sample b) eqn:E3, (r_sample b <? r_sample a) eqn:E4,
           (r_cluster b <? r_cluster c) eqn:E5, (r_cluster c <? r_cluster b) eqn:E6,
           (r_sample b <? r_sample c) eqn:E7, (r_sample c <? r_sample b) eqn:E8,
           (r_cluster a <? r_cluster c) eqn:E9, (r_cluster c <? r_cluster a) eqn:E10,
           (r_sample a <? r_sample c) eqn:E11, (r_sample c <? r_sample a) eqn:E12; lia.
Qed.

Lemma sorted_le_nth sm : StronglySorted Z.le sm -> forall i j, (i <= j < length sm)%nat ->
  nth i sm 0 <= nth j sm 0.
Proof.
  induction 1 as [|x sm Hs IH Hx]; intros i j Hij; cbn in Hij; [lia|].
  destruct i as [|i], j as [|j]; cbn [nth]; try lia.
  - rewrite Forall_forall in Hx. apply Hx, nth_In. lia.
  - apply IH. lia.
Qed.

(* ------------------------------------------------------------------ *)
(* after the final sort, row r has waveform_index r                    *)
(* ------------------------------------------------------------------ *)
Section SortedTable.
  Variable l : list (Z * Z * Z).
  Hypothesis Hasc : StronglySorted Z.le (map sp_sample l).
  Set Default Proof Using "Hasc".
  Notation T := (mk_table l).
  Notation cl := (map sp_cluster l).

  Lemma cl_nth k : (k < length l)%nat -> nth k cl 0 = sp_cluster (nth k l dspike).
  Proof. intros H. now apply nth_map'. Qed.

  Lemma row_order k k' : (k < length l)%nat -> (k' < length l)%nat -> k <> k' ->
    row_leb (nth k T drow) (nth k' T drow) = true ->
    r_wfi (nth k T drow) < r_wfi (nth k' T drow).
  Proof.
    intros Hk Hk' Hne. rewrite !mk_table_nth by assumption. cbv zeta.
    unfold row_leb. cbn [r_cluster r_sample r_index r_wfi].
    pose proof (cl_nth k Hk) as Ec. pose proof (cl_nth k' Hk') as Ec'.
    assert (Hs : forall i j, (i <= j < length l)%nat ->
                 sp_sample (nth i l dspike) <= sp_sample (nth j l dspike)).
    { intros i j Hij. pose proof (sorted_le_nth _ Hasc i j) as H.
      rewrite map_length in H. specialize (H Hij).
      rewrite !(nth_map' sp_sample l _ dspike 0) in H by lia. exact H. }
    assert (Hl : length cl = length l) by apply map_length.
    destruct (sp_cluster (nth k l dspike) <? sp_cluster (nth k' l dspike)) eqn:E1.
    - intros _. apply wfi_lt_cluster; lia.
    - destruct (sp_cluster (nth k' l dspike) <? sp_cluster (nth k l dspike)) eqn:E2; [discriminate|].
      assert (Hkk : (k < k')%nat -> wfi_of cl (Z.of_nat k) < wfi_of cl (Z.of_nat k')).
      { intros Hlt. apply wfi_lt_pos; lia. }
      destruct (sp_sample (nth k l dspike) <? sp_sample (nth k' l dspike)) eqn:E3.
      + intros _. apply Hkk. destruct (Nat.lt_ge_cases k k') as [|Hge]; [assumption|].
        specialize (Hs k' k ltac:(lia)). lia.
      + destruct (sp_sample (nth k' l dspike) <? sp_sample (nth k l dspike)) eqn:E4; [discriminate|].
        intros Hi. apply Hkk. lia.
  Qed.

  Lemma mk_table_index : map r_index T = zrange (length l).
  Proof.
    unfold mk_table. cbv zeta. rewrite map_map. cbn [r_index].
    unfold enumerate. apply map_fst_combine. now rewrite zrange_length.
  Qed.

  Lemma row_index_nth k : (k < length l)%nat -> r_index (nth k T drow) = Z.of_nat k.
  Proof. intros H. now rewrite mk_table_nth. Qed.

  Lemma sorted_wfi_increasing S : StronglySorted (fun a b => row_leb a b = true) S ->
    (forall x, In x S -> In x T) -> NoDup (map r_index S) ->
    StronglySorted Z.lt (map r_wfi S).
  Proof.
    induction 1 as [|a S Hs IH Ha]; intros Hin Hnd; cbn; [constructor|].
    cbn in Hnd. inversion Hnd as [|? ? Hna Hnd']; subst.
    constructor; [apply IH; auto; intros x Hx; apply Hin; now right|].
    rewrite Forall_forall. intros w Hw. apply in_map_iff in Hw. destruct Hw as [b [<- Hb]].
    rewrite Forall_forall in Ha. specialize (Ha b Hb).
    destruct (mk_table_in l a (Hin a (or_introl eq_refl))) as [k [Hk Ea]].
    destruct (mk_table_in l b (Hin b (or_intror Hb))) as [k' [Hk' Eb]].
    assert (Hne : k <> k').
    { intros ->. apply Hna. apply in_map_iff. exists b. split; [congruence|exact Hb]. }
    rewrite Ea, Eb in Ha |- *. apply row_order; auto.
  Qed.

  Lemma sorted_wfi_id r : (r < length l)%nat ->
    r_wfi (nth r (isort row_leb T) drow) = Z.of_nat r.
  Proof.
    intros Hr. set (S := isort row_leb T).
    assert (Hp : Permutation S T) by apply isort_perm.
    assert (Hlen : length S = length l).
    { rewrite (Permutation_length Hp). apply mk_table_length. }
    assert (Hss : StronglySorted Z.lt (map r_wfi S)).
    { apply sorted_wfi_increasing.
      - apply isort_sorted; [apply row_leb_total|apply row_leb_trans].
      - intros x Hx. eapply Permutation_in; eauto.
      - eapply Permutation_NoDup; [apply Permutation_map; symmetry; exact Hp|].
        rewrite mk_table_index. apply NoDup_zrange. }
    rewrite <- (nth_map' r_wfi S r drow 0) by lia.
    apply ssorted_range_id; [exact Hss| |rewrite map_length; lia].
    rewrite map_length, Hlen, Forall_map, Forall_forall. intros x Hx.
    assert (HxT : In x T) by (eapply Permutation_in; eauto).
    destruct (mk_table_in l x HxT) as [k [Hk ->]]. rewrite mk_table_nth by exact Hk. cbv zeta. cbn [r_wfi].
    pose proof (wfi_range cl k) as Hw. unfold zlen in Hw. rewrite map_length in Hw. now apply Hw.
  Qed.

  (* distinct rows get distinct waveform indices: the keys of the writes are pairwise different *)
  Lemma mk_table_wfi_nodup : NoDup (map (fun r => Z.to_nat (r_wfi r)) T).
  Proof.
    set (S := isort row_leb T).
    assert (Hp : Permutation S T) by apply isort_perm.
    eapply Permutation_NoDup; [apply Permutation_map; exact Hp|].
    assert (Hlen : length S = length l).
    { rewrite (Permutation_length Hp). apply mk_table_length. }
    assert (E : map (fun r => Z.to_nat (r_wfi r)) S = seq 0 (length l)).
    { apply nth_ext with (d := O) (d' := O); [now rewrite map_length, seq_length|].
      intros n Hn. rewrite map_length in Hn.
      rewrite (nth_map' _ S n drow) by exact Hn. unfold S. rewrite sorted_wfi_id by lia.
      rewrite seq_nth by lia. lia. }
    rewrite E. apply seq_NoDup.
  Qed.
End SortedTable.
Set Default Proof Using "Type".

(* ------------------------------------------------------------------ *)
(* _make_wfs_table                                                     *)
(* ------------------------------------------------------------------ *)
Lemma NoDup_map_filter {A B} (h : A -> B) g L : NoDup (map h L) -> NoDup (map h (filter g L)).
Proof.
  induction L as [|a L IH]; cbn; intros H; [constructor|].
  inversion H as [|? ? Hn Hd]; subst.
  destruct (g a); [|now apply IH]. cbn. constructor; [|now apply IH].
  intros Hin. apply Hn. apply in_map_iff in Hin. destruct Hin as [x [Hx Hi]].
  apply filter_In in Hi. apply in_map_iff. exists x. tauto.
Qed.

Lemma NoDup_app_intro {A} (a b : list A) : NoDup a -> NoDup b -> (forall x, In x a -> ~ In x b) ->
  NoDup (a ++ b).
Proof.
  induction a as [|x a IH]; intros Ha Hb H; cbn; [exact Hb|].
  inversion Ha; subst. constructor.
  - rewrite in_app_iff. intros [Hi|Hi]; [contradiction|]. apply (H x); [now left|exact Hi].
  - apply IH; auto. intros y Hy. apply H. now right.
Qed.

(* lists tagged by distinct keys, every element carrying its list's key *)
Lemma NoDup_concat_key {E} (key : Z -> Z) (tag : E -> Z) (g : E -> list Z) (L : list E) :
  NoDup (map tag L) -> (forall e, In e L -> NoDup (g e) /\ forall x, In x (g e) -> key x = tag e) ->
  NoDup (concat (map g L)).
Proof.
  induction L as [|e L IH]; cbn; intros Hnd H; [constructor|].
  inversion Hnd as [|? ? Hn Hd]; subst.
  apply NoDup_app_intro.
  - apply H. now left.
  - apply IH; auto.
  - intros x Hx Hc. apply in_concat in Hc. destruct Hc as [lx [Hlx Hxl]].
    apply in_map_iff in Hlx. destruct Hlx as [e' [<- He']].
    apply Hn. apply in_map_iff. exists e'. split; [|exact He'].
    destruct (H e (or_introl eq_refl)) as [_ K1]. destruct (H e' (or_intror He')) as [_ K2].
    rewrite <- (K1 x Hx), <- (K2 x Hxl). reflexivity.
Qed.

Lemma sorted_le_nodup_lt l : StronglySorted Z.le l -> NoDup l -> StronglySorted Z.lt l.
Proof.
  induction 1 as [|x l Hs IH Hx]; intros Hnd; constructor; inversion Hnd; subst; auto.
  rewrite Forall_forall in *. intros y Hy. specialize (Hx y Hy).
  assert (x <> y) by (intros ->; contradiction). lia.
Qed.

Lemma filter_id {A} (f : A -> bool) l : Forall (fun x => f x = true) l -> filter f l = l.
Proof. induction 1 as [|x l Hx _ IH]; cbn; [reflexivity|]. now rewrite Hx, IH. Qed.

Lemma filter_none {A} (f : A -> bool) l : Forall (fun x => f x = false) l -> filter f l = [].
Proof. induction 1 as [|x l Hx _ IH]; cbn; [reflexivity|]. now rewrite Hx. Qed.

Lemma count_if_map (f : Z -> bool) {A} (g : A -> Z) l :
  count_if f (map g l) = zlen (filter (fun x => f (g x)) l).
Proof.
  unfold count_if, zlen. f_equal. induction l as [|x l IH]; cbn; [reflexivity|].
  destruct (f (g x)); cbn; now rewrite IH.
Qed.

Lemma filter_concat_tag_none {E} (key : Z -> Z) (tag : E -> Z) (g : E -> list Z) (L : list E) u :
  (forall e, In e L -> forall x, In x (g e) -> key x = tag e) ->
  (forall e, In e L -> tag e <> u) ->
  filter (fun x => key x =? u) (concat (map g L)) = [].
Proof.
  induction L as [|e L IH]; cbn; intros Hk Ht; [reflexivity|].
  rewrite filter_app, IH by (intros; auto). rewrite app_nil_r.
  apply filter_none. rewrite Forall_forall. intros x Hx.
  rewrite (Hk e (or_introl eq_refl) x Hx). specialize (Ht e (or_introl eq_refl)). lia.
Qed.

Lemma filter_concat_tag_one {E} (key : Z -> Z) (tag : E -> Z) (g : E -> list Z) (L : list E) e :
  NoDup (map tag L) -> (forall e, In e L -> forall x, In x (g e) -> key x = tag e) ->
  In e L -> filter (fun x => key x =? tag e) (concat (map g L)) = g e.
Proof.
  induction L as [|e0 L IH]; cbn; intros Hnd Hk Hin; [contradiction|].
  inversion Hnd as [|? ? Hn Hd]; subst. rewrite filter_app. destruct Hin as [->|Hin].
  - rewrite (filter_concat_tag_none key tag g L (tag e)); auto.
    + rewrite app_nil_r. apply filter_id. rewrite Forall_forall. intros x Hx.
      rewrite (Hk e (or_introl eq_refl) x Hx). lia.
    + intros e' He' Heq. apply Hn. rewrite <- Heq. now apply in_map.
  - rewrite IH; auto. rewrite filter_none; [reflexivity|].
    rewrite Forall_forall. intros x Hx. rewrite (Hk e0 (or_introl eq_refl) x Hx).
    assert (tag e0 <> tag e) by (intros Heq; apply Hn; rewrite Heq; now apply in_map). lia.
Qed.

Section Table.
  Variable choose : Z -> list Z -> Z -> list Z.
  Variable P : cfg.
  Notation sp := (c_spikes P).
  Hypothesis Hsorted : StronglySorted Z.le (map sp_sample sp).
  Hypothesis Hchoose : forall i a k, 0 <= k <= zlen a -> NoDup a ->
    length (choose i a k) = Z.to_nat k /\ NoDup (choose i a k) /\ incl (choose i a k) a.
  Hypothesis Hmax : 0 <= c_maxwf P.
  Set Default Proof Using "Hsorted Hchoose Hmax".

  Notation EN := (enumerate (unit_ids P)).
  Notation picks := (unit_picks choose P).
  Notation PK := (concat (map picks EN)).

  Lemma usi_in u p : In p (unit_spikeidx P u) <->
    0 <= p < zlen sp /\ sp_cluster (znth dspike sp p) = u /\ allowed P (sp_sample (znth dspike sp p)) = true.
  Proof.
    unfold unit_spikeidx. rewrite in_map_iff. split.
    - intros [[q x] [Hq Hf]]. cbn in Hq. subst q. apply filter_In in Hf. destruct Hf as [Hin Hc].
      apply (enumerate_in sp p x dspike) in Hin. destruct Hin as [Hr ->]. cbn in Hc.
      apply andb_true_iff in Hc. unfold znth. split; [exact Hr|]. split; [lia|tauto].
    - intros [Hr [Hc Ha]]. exists (p, znth dspike sp p). split; [reflexivity|].
      apply filter_In. split; [apply enumerate_in_conv; exact Hr|]. cbn. rewrite Ha. lia.
  Qed.

  Lemma usi_nodup u : NoDup (unit_spikeidx P u).
  Proof.
    unfold unit_spikeidx. apply NoDup_map_filter. unfold enumerate.
    rewrite map_fst_combine by now rewrite zrange_length. apply NoDup_zrange.
  Qed.

  Lemma unit_k_range u : 0 <= unit_k P u <= zlen (unit_spikeidx P u).
  Proof. unfold unit_k. pose proof (zlen_nonneg (unit_spikeidx P u)). lia. Qed.

  Lemma picks_spec e : length (picks e) = Z.to_nat (unit_k P (snd e)) /\ NoDup (picks e) /\
                       incl (picks e) (unit_spikeidx P (snd e)).
  Proof. unfold unit_picks. apply Hchoose; [apply unit_k_range|apply usi_nodup]. Qed.

  Lemma unit_ids_nodup : NoDup (unit_ids P).
  Proof.
    unfold unit_ids, zunique. eapply Permutation_NoDup; [symmetry; apply isort_perm|]. apply NoDup_nodup.
  Qed.

  Lemma EN_snd : map snd EN = unit_ids P.
  Proof. unfold enumerate. apply map_snd_combine. now rewrite zrange_length. Qed.

  Lemma PK_nodup : NoDup PK.
  Proof.
    apply (NoDup_concat_key (fun x => sp_cluster (znth dspike sp x)) snd).
    - rewrite EN_snd. apply unit_ids_nodup.
    - intros e _. destruct (picks_spec e) as [_ [Hn Hi]]. split; [exact Hn|].
      intros x Hx. apply Hi in Hx. apply usi_in in Hx. tauto.
  Qed.

  Lemma PK_in x : In x PK -> exists e, In e EN /\ In x (unit_spikeidx P (snd e)).
  Proof.
    intros H. apply in_concat in H. destruct H as [lx [Hl Hx]].
    apply in_map_iff in Hl. destruct Hl as [e [<- He]]. exists e. split; [exact He|].
    destruct (picks_spec e) as [_ [_ Hi]]. now apply Hi.
  Qed.

  Lemma pad_filter e : filter (fun x => 0 <=? x) (pad (picks e) (c_maxwf P) (-1)) = picks e.
  Proof.
    unfold pad. rewrite filter_app.
    rewrite (filter_none _ (repeat (-1) _)); [rewrite app_nil_r|].
    - apply filter_id. rewrite Forall_forall. intros x Hx.
      destruct (picks_spec e) as [_ [_ Hi]]. apply Hi, usi_in in Hx. lia.
    - rewrite Forall_forall. intros x Hx. apply repeat_spec in Hx. now subst.
  Qed.

  Lemma wf_idx_perm : Permutation (wf_idx choose P) PK.
  Proof.
    unfold wf_idx. rewrite (Permutation_filter _ _ _ (isort_perm Z.leb _)).
    unfold unit_wf_idx. rewrite <- concat_filter_map, map_map.
    erewrite map_ext; [reflexivity|]. intros e. apply pad_filter.
  Qed.

  Lemma wf_idx_nodup : NoDup (wf_idx choose P).
  Proof. eapply Permutation_NoDup; [symmetry; apply wf_idx_perm|apply PK_nodup]. Qed.

  Lemma wf_idx_increasing : StronglySorted Z.lt (wf_idx choose P).
  Proof.
    apply sorted_le_nodup_lt; [|apply wf_idx_nodup].
    unfold wf_idx. apply StronglySorted_filter, zsort_sorted.
  Qed.

  (* every selected index is the position of a valid spike *)
  Lemma wf_idx_valid x : In x (wf_idx choose P) ->
    0 <= x < zlen sp /\ allowed P (sp_sample (znth dspike sp x)) = true.
  Proof.
    intros H. apply (Permutation_in _ wf_idx_perm) in H. apply PK_in in H.
    destruct H as [e [_ Hx]]. apply usi_in in Hx. tauto.
  Qed.

  Notation sel := (map (znth dspike sp) (wf_idx choose P)).

  Lemma table_eq : table choose P = mk_table sel.
  Proof.
    unfold table, mk_table. cbv zeta. rewrite enumerate_map, !map_map. reflexivity.
  Qed.

  Lemma sel_ascending : StronglySorted Z.le (map sp_sample sel).
  Proof.
    rewrite map_map.
    assert (Hv : forall x, In x (wf_idx choose P) -> 0 <= x < zlen sp) by (intros x Hx; now apply wf_idx_valid).
    pose proof wf_idx_increasing as Hinc. revert Hv.
    induction Hinc as [|x l Hs IH Hx]; intros Hv; cbn; constructor.
    - apply IH. intros y Hy. apply Hv. now right.
    - rewrite Forall_map, Forall_forall. intros y Hy. rewrite Forall_forall in Hx. specialize (Hx y Hy).
      pose proof (Hv x (or_introl eq_refl)) as Hxr. pose proof (Hv y (or_intror Hy)) as Hyr.
      unfold zlen in *.
      pose proof (sorted_le_nth _ Hsorted (Z.to_nat x) (Z.to_nat y)) as H. rewrite map_length in H.
      specialize (H ltac:(lia)).
      rewrite !(nth_map' sp_sample sp _ dspike 0) in H by lia. exact H.
  Qed.

  Lemma table_rows_are_spikes :
    map (fun r => (r_sample r, r_cluster r, r_chan r)) (table choose P) = sel.
  Proof.
    rewrite table_eq. unfold mk_table. cbv zeta. rewrite map_map. cbn [r_sample r_cluster r_chan].
    erewrite map_ext with (g := snd).
    - unfold enumerate. apply map_snd_combine. now rewrite zrange_length.
    - intros [k [[s c] ch]]. reflexivity.
  Qed.

  (* each unit receives min(max_wf, number of its valid spikes) rows *)
  Lemma unit_counts u : In u (unit_ids P) ->
    count_if (fun c => c =? u) (map r_cluster (table choose P)) =
    Z.min (c_maxwf P) (zlen (unit_spikeidx P u)).
  Proof.
    intros Hu. rewrite <- EN_snd in Hu. apply in_map_iff in Hu. destruct Hu as [e [<- He]].
    assert (Hc : map r_cluster (table choose P) =
                 map (fun x => sp_cluster (znth dspike sp x)) (wf_idx choose P)).
    { rewrite <- (map_map (znth dspike sp) sp_cluster), <- table_rows_are_spikes, map_map. reflexivity. }
    rewrite Hc, count_if_map. unfold zlen.
    rewrite (Permutation_length (Permutation_filter _ _ _ wf_idx_perm)).
    rewrite (filter_concat_tag_one (fun x => sp_cluster (znth dspike sp x)) snd picks EN e).
    - destruct (picks_spec e) as [Hl _]. rewrite Hl. pose proof (unit_k_range (snd e)).
      rewrite Z2Nat.id by lia. reflexivity.
    - rewrite EN_snd. apply unit_ids_nodup.
    - intros e' _ x Hx. destruct (picks_spec e') as [_ [_ Hi]]. apply Hi, usi_in in Hx. tauto.
    - exact He.
  Qed.
End Table.
Set Default Proof Using "Type".

(* ------------------------------------------------------------------ *)
(* assembling: extract_wfs_cbin                                        *)
(* ------------------------------------------------------------------ *)
Definition set_size (P : cfg) (sz : Z) : cfg :=
  mkCfg (c_ns P) (c_nc P) (c_to P) (c_L P) (c_maxwf P) sz (c_r2n P) (c_r2d P) (c_geom P) (c_spikes P).

Lemma window_cell V (src : Z -> Z -> V) P s pc j t :
  (j < length (znth [] (cidx P) pc))%nat -> 0 <= t < c_L P ->
  nth (Z.to_nat t) (nth j (window V src P s pc) []) None =
  let ch := nth j (znth [] (cidx P) pc) 0 in
  if ch =? c_nc P then None else Some (src ch (s - c_to P + t)).
Proof.
  intros Hj Ht. unfold window, gather. cbv zeta.
  rewrite (nth_map' _ _ j 0) by exact Hj.
  rewrite (nth_map' _ _ (Z.to_nat t) 0) by (rewrite map_length, zrange_length; lia).
  rewrite (nth_map' _ _ (Z.to_nat t) 0) by (rewrite zrange_length; lia).
  rewrite nth_zrange by lia. rewrite Z2Nat.id by lia. reflexivity.
Qed.

Section Main.
  Variable V : Type.
  Variable src : Z -> Z -> V.
  Variable choose : Z -> list Z -> Z -> list Z.
  Variable P : cfg.
  Notation sp := (c_spikes P).
  Hypothesis Hns : 1 <= c_ns P.
  Hypothesis Hsize : 1 <= c_size P.
  Hypothesis Hto : 0 <= c_to P <= c_L P.
  Hypothesis Hts : c_to P <= c_size P \/ nchunks P = 1.
  Hypothesis Hsorted : StronglySorted Z.le (map sp_sample sp).
  Hypothesis Hchoose : forall i a k, 0 <= k <= zlen a -> NoDup a ->
    length (choose i a k) = Z.to_nat k /\ NoDup (choose i a k) /\ incl (choose i a k) a.
  Hypothesis Hmax : 0 <= c_maxwf P.
  Hypothesis Hchan : Forall (fun s => 0 <= sp_chan s < zlen (c_geom P)) sp.
  Set Default Proof Using "Hns Hsize Hto Hts Hsorted Hchoose Hmax Hchan".

  Notation T := (table choose P).
  Notation ST := (sorted_table choose P).
  Notation canon := (canon_write V src P).

  Lemma table_row_spike r : In r T ->
    exists x, In x (wf_idx choose P) /\
      let s := znth dspike sp x in r_sample r = sp_sample s /\ r_cluster r = sp_cluster s /\ r_chan r = sp_chan s.
  Proof.
    intros Hr.
    apply (in_map (fun r => (r_sample r, r_cluster r, r_chan r))) in Hr.
    rewrite (table_rows_are_spikes choose P Hsorted Hchoose Hmax) in Hr.
    apply in_map_iff in Hr. destruct Hr as [x [Hx Hin]]. exists x. split; [exact Hin|].
    cbv zeta. rewrite Hx. cbn. auto.
  Qed.

  Lemma table_valid : Forall (valid_row P) T.
  Proof.
    rewrite Forall_forall. intros r Hr. destruct (table_row_spike r Hr) as [x [Hx [Hs [_ Hc]]]].
    destruct (wf_idx_valid choose P Hsorted Hchoose Hmax x Hx) as [Hxr Ha].
    unfold valid_row. rewrite Hs, Hc. unfold allowed in Ha. split; [lia|].
    rewrite Forall_forall in Hchan. apply Hchan. unfold znth. apply nth_In. unfold zlen in Hxr. lia.
  Qed.

  Lemma table_ascending : StronglySorted Z.le (map r_sample T).
  Proof.
    replace (map r_sample T) with (map sp_sample (map (fun r => (r_sample r, r_cluster r, r_chan r)) T))
      by (rewrite map_map; reflexivity).
    rewrite (table_rows_are_spikes choose P Hsorted Hchoose Hmax).
    apply sel_ascending; assumption.
  Qed.

  (* no assertion fires, no index is out of range, and the memmap receives, for every table row,
     the window of that row at row waveform_index *)
  Lemma traces_canon :
    traces V src choose P = Some (apply_writes V (map canon T) (mem0 V T)).
  Proof.
    unfold traces. cbv zeta.
    rewrite (all_writes_canon V src P Hns Hsize Hto Hts T table_ascending table_valid). reflexivity.
  Qed.

  Lemma table_keys_nodup : NoDup (map (fun e : Z * wf V => Z.to_nat (fst e)) (map canon T)).
  Proof.
    rewrite map_map. cbn [canon_write fst].
    rewrite (table_eq choose P Hsorted Hchoose Hmax). apply mk_table_wfi_nodup. apply sel_ascending; assumption.
  Qed.

  Lemma table_length : length T = length (wf_idx choose P).
  Proof. rewrite (table_eq choose P Hsorted Hchoose Hmax), mk_table_length. apply map_length. Qed.

  Lemma sorted_row_wfi r : (r < length T)%nat -> r_wfi (nth r ST drow) = Z.of_nat r.
  Proof.
    intros Hr. unfold sorted_table. rewrite (table_eq choose P Hsorted Hchoose Hmax) in *. rewrite mk_table_length in Hr.
    apply sorted_wfi_id; [apply sel_ascending; assumption|exact Hr].
  Qed.

  Lemma sorted_perm : Permutation ST T.
  Proof. apply isort_perm. Qed.

  (* row r of the traces file is the window of row r of the (sorted) table *)
  Lemma traces_row r : (r < length T)%nat ->
    exists mem, traces V src choose P = Some mem /\ length mem = length T /\
      let row := nth r ST drow in
      r_wfi row = Z.of_nat r /\ valid_row P row /\
      nth r mem None = Some (window V src P (r_sample row) (r_chan row)).
  Proof.
    intros Hr. eexists. split; [apply traces_canon|].
    split; [rewrite aw_length; unfold mem0; apply repeat_length|].
    cbv zeta. set (row := nth r ST drow).
    assert (Hin : In row T).
    { eapply Permutation_in; [apply sorted_perm|]. apply nth_In.
      now rewrite (Permutation_length sorted_perm). }
    pose proof (sorted_row_wfi r Hr) as Hw. fold row in Hw.
    split; [exact Hw|]. split; [pose proof table_valid as Hv; rewrite Forall_forall in Hv; now apply Hv|].
    pose proof (aw_nth_in V (map canon T) (mem0 V T) (canon row) table_keys_nodup (in_map canon _ _ Hin)) as H.
    cbn [canon_write fst snd] in H. rewrite Hw, Nat2Z.id in H. apply H.
    unfold mem0. rewrite repeat_length. exact Hr.
  Qed.

  (* any schedule of the individual row writes of all the jobs gives the same file *)
  Lemma schedule_independent sched : Permutation sched (map canon T) ->
    Some (apply_writes V sched (mem0 V T)) = traces V src choose P.
  Proof.
    intros Hp. rewrite traces_canon. f_equal. apply writes_commute; [apply table_keys_nodup|exact Hp].
  Qed.
End Main.
Set Default Proof Using "Type".

(* the result does not depend on the chunk size *)
Lemma chunk_size_independent V (src : Z -> Z -> V) choose P sz sz' :
  1 <= c_ns P -> 0 <= c_to P <= c_L P -> 1 <= sz -> 1 <= sz' -> c_to P <= sz -> c_to P <= sz' ->
  StronglySorted Z.le (map sp_sample (c_spikes P)) ->
  (forall i a k, 0 <= k <= zlen a -> NoDup a ->
    length (choose i a k) = Z.to_nat k /\ NoDup (choose i a k) /\ incl (choose i a k) a) ->
  0 <= c_maxwf P -> Forall (fun s => 0 <= sp_chan s < zlen (c_geom P)) (c_spikes P) ->
  traces V src choose (set_size P sz) = traces V src choose (set_size P sz').
Proof.
  intros Hns Hto H1 H2 H3 H4 Hs Hc Hm Hch.
  rewrite (traces_canon V src choose (set_size P sz) Hns H1 Hto (or_introl H3) Hs Hc Hm Hch).
  rewrite (traces_canon V src choose (set_size P sz') Hns H2 Hto (or_introl H4) Hs Hc Hm Hch).
  reflexivity.
Qed.

(* ------------------------------------------------------------------ *)
(* make_channel_index                                                  *)
(* ------------------------------------------------------------------ *)
Lemma zrange_ssorted n : StronglySorted Z.lt (zrange n).
Proof.
  induction n as [|n IH]; [constructor|]. rewrite zrange_S.
  assert (H : forall l x, StronglySorted Z.lt l -> Forall (fun y => y < x) l -> StronglySorted Z.lt (l ++ [x])).
  { induction l as [|y l IHl]; intros x Hs Hf; cbn; [repeat constructor|].
    inversion Hs; inversion Hf; subst. constructor; [now apply IHl|].
    rewrite Forall_app. split; [assumption|repeat constructor; assumption]. }
  apply H; [exact IH|]. rewrite Forall_forall. intros y Hy. apply in_zrange in Hy. lia.
Qed.

Lemma near_sym g r2n r2d c j : near g r2n r2d c j = near g r2n r2d j c.
Proof. unfold near, dist2. f_equal. f_equal. ring. Qed.

Lemma zmax_list_ge l x : In x l -> x <= zmax_list l.
Proof.
  unfold zmax_list. induction l as [|y l IH]; cbn [In fold_right]; [intros []|intros [->|H]]; [lia|].
  specialize (IH H). lia.
Qed.

Lemma nbr_row_le_n_nbors g r2n r2d c : 0 <= c < zlen g -> zlen (nbr_row g r2n r2d c) <= n_nbors g r2n r2d.
Proof.
  intros Hc. unfold n_nbors. apply zmax_list_ge. apply in_map_iff. exists c. split.
  - unfold col_sum, nbr_row. f_equal. apply filter_ext. intros j. apply near_sym.
  - unfold chans. apply in_zrange. exact Hc.
Qed.

(* row c: the channels within the radius in ascending order, then pad_val, n_nbors columns *)
Lemma channel_index_row g r2n r2d padv c : 0 <= c < zlen g ->
  let row := znth [] (channel_index g r2n r2d padv) c in
  let nb := nbr_row g r2n r2d c in
  row = nb ++ repeat padv (Z.to_nat (n_nbors g r2n r2d - zlen nb)) /\
  zlen row = n_nbors g r2n r2d /\
  StronglySorted Z.lt nb /\
  (forall j, In j nb <-> 0 <= j < zlen g /\
     dist2 (znth (0, 0) g c) (znth (0, 0) g j) * r2d <= r2n).
Proof.
  intros Hc row nb. unfold zlen in Hc.
  assert (Er : row = pad nb (n_nbors g r2n r2d) padv).
  { unfold row, channel_index, znth, chans. cbv zeta.
    rewrite (nth_map' _ _ _ 0) by (rewrite zrange_length; lia).
    rewrite nth_zrange by lia. rewrite Z2Nat.id by lia. reflexivity. }
  split; [exact Er|]. split.
  - rewrite Er. unfold pad, zlen. rewrite app_length, repeat_length.
    pose proof (nbr_row_le_n_nbors g r2n r2d c ltac:(unfold zlen; lia)) as H. fold nb in H.
    unfold zlen in H. lia.
  - split.
    + unfold nb, nbr_row. apply StronglySorted_filter, zrange_ssorted.
    + intros j. unfold nb, nbr_row, chans. rewrite filter_In, in_zrange. unfold near, zlen.
      rewrite Z.leb_le. reflexivity.
Qed.

Section ChanMap.
  Variable choose : Z -> list Z -> Z -> list Z.
  Variable P : cfg.

  Lemma chan_row_valid pc : 0 <= pc < zlen (c_geom P) -> zlen (c_geom P) <= 32768 ->
    chan_row (cidx P) (to_int16 pc) = Some (znth [] (cidx P) pc).
  Proof.
    intros Hpc Hn. unfold to_int16. rewrite Z.mod_small by lia.
    replace (pc + 32768 - 32768) with pc by lia.
    unfold chan_row.
    assert (Hz : zlen (cidx P) = zlen (c_geom P)).
    { unfold cidx, channel_index, chans, zlen. cbv zeta. now rewrite map_length, zrange_length. }
    rewrite Hz. unfold wrap_index.
    assert (E : (0 <=? pc) && (pc <? zlen (c_geom P)) = true) by lia. now rewrite E.
  Qed.

  Lemma chan_map_canon : zlen (c_geom P) <= 32768 ->
    Forall (valid_row P) (table choose P) ->
    chan_map choose P = Some (map (fun r => znth [] (cidx P) (r_chan r)) (sorted_table choose P)).
  Proof.
    intros Hn Hv. unfold chan_map. cbv zeta. apply sequence_map_some.
    intros r Hr. apply chan_row_valid; [|exact Hn].
    rewrite Forall_forall in Hv. apply Hv. eapply Permutation_in; [apply isort_perm|exact Hr].
  Qed.
End ChanMap.

(* ================================================================== *)
(* Round 2: index_within_clusters, template ranges, loader selection   *)
(* ================================================================== *)
Lemma ssorted_lt_unique a b : StronglySorted Z.lt a -> StronglySorted Z.lt b ->
  (forall x, In x a <-> In x b) -> a = b.
Proof.
  intros Ha. revert b. induction Ha as [|x a Ha IH Hx]; intros b Hb H.
  - destruct b as [|y b]; [reflexivity|]. exfalso. apply (H y). now left.
  - destruct b as [|y b]; [exfalso; apply (H x); now left|].
    inversion Hb as [|? ? Hb' Hy]; subst. rewrite Forall_forall in Hx, Hy.
    assert (x = y).
    { destruct (proj1 (H x) (or_introl eq_refl)) as [->|Hxb]; [reflexivity|].
      destruct (proj2 (H y) (or_introl eq_refl)) as [->|Hya]; [reflexivity|].
      specialize (Hx _ Hya). specialize (Hy _ Hxb). lia. }
    subst y. f_equal. apply IH; [exact Hb'|]. intros z. split; intros Hz.
    + destruct (proj1 (H z) (or_intror Hz)) as [->|]; [|assumption]. specialize (Hx _ Hz). lia.
    + destruct (proj2 (H z) (or_intror Hz)) as [->|]; [|assumption]. specialize (Hy _ Hz). lia.
Qed.

Lemma zunique_ssorted l : StronglySorted Z.lt (zunique l).
Proof.
  unfold zunique. apply sorted_le_nodup_lt; [apply zsort_sorted|].
  eapply Permutation_NoDup; [symmetry; apply isort_perm|apply NoDup_nodup].
Qed.

Lemma zunique_in l x : In x (zunique l) <-> In x l.
Proof.
  unfold zunique. split; intros H.
  - apply (nodup_In Z.eq_dec). eapply Permutation_in; [apply isort_perm|exact H].
  - eapply Permutation_in; [symmetry; apply isort_perm|]. now apply nodup_In.
Qed.

(* run heads of an ascending list *)
Fixpoint heads (prev : Z) (l : list Z) : list Z :=
  match l with
  | [] => []
  | x :: t => if x =? prev then heads prev t else x :: heads x t
  end.

Lemma heads_spec l : StronglySorted Z.le l -> forall prev, Forall (fun y => prev <= y) l ->
  StronglySorted Z.lt (heads prev l) /\ Forall (fun y => prev < y) (heads prev l) /\
  forall y, In y (heads prev l) <-> In y l /\ y <> prev.
Proof.
  induction 1 as [|x t Hs IH Hx]; intros prev Hp; cbn.
  - split; [constructor|]. split; [constructor|]. intros y. tauto.
  - inversion Hp as [|? ? Hpx Hpt]; subst. destruct (x =? prev) eqn:E.
    + apply Z.eqb_eq in E. subst x. destruct (IH prev Hpt) as (A & B & C).
      split; [exact A|]. split; [exact B|]. intros y. rewrite C. cbn [In]. split.
      * intros [Hy Hne]. split; [now right|exact Hne].
      * intros [[<-|Hy] Hne]; [congruence|split; assumption].
    + apply Z.eqb_neq in E. destruct (IH x Hx) as (A & B & C).
      split; [constructor; assumption|]. split.
      * constructor; [lia|]. eapply Forall_impl; [|exact B]. cbn. lia.
      * intros y. cbn [In]. rewrite C. rewrite Forall_forall in Hx. split.
        -- intros [<-|[Hy Hne]]; [split; [now left|lia]|]. specialize (Hx _ Hy). split; [now right|lia].
        -- intros [[<-|Hy] Hne]; [now left|]. destruct (Z.eq_dec x y); [now left|right; split; auto].
Qed.

Lemma zunique_heads c0 t : StronglySorted Z.le (c0 :: t) -> zunique (c0 :: t) = c0 :: heads c0 t.
Proof.
  intros Hs. inversion Hs as [|? ? Ht Hc]; subst.
  destruct (heads_spec t Ht c0 Hc) as (A & B & C).
  apply ssorted_lt_unique; [apply zunique_ssorted|constructor; assumption|].
  intros y. rewrite zunique_in. cbn [In]. rewrite C.
  destruct (Z.eq_dec c0 y); intuition.
Qed.

Lemma StronglySorted_app_r {A} (R : A -> A -> Prop) a b : StronglySorted R (a ++ b) -> StronglySorted R b.
Proof. induction a as [|x a IH]; cbn; intros H; [exact H|]. inversion H; auto. Qed.

Lemma count_if_zero c l : Forall (fun y => y <> c) l -> count_if (fun x => x =? c) l = 0.
Proof.
  intros H. unfold count_if. rewrite filter_none; [reflexivity|].
  eapply Forall_impl; [|exact H]. cbn. intros y Hy. now apply Z.eqb_neq.
Qed.

Lemma removelast_map {A B} (f : A -> B) l : removelast (map f l) = map f (removelast l).
Proof.
  induction l as [|x l IH]; [reflexivity|]. cbn [map removelast].
  destruct l as [|y l]; [reflexivity|]. cbn [map] in *. now rewrite IH.
Qed.

Lemma cumsum_from_length acc l : length (cumsum_from acc l) = length l.
Proof. revert acc. induction l as [|x l IH]; intros acc; cbn; [reflexivity|]. now rewrite IH. Qed.

(* iwc_incr only looks at the cluster column *)
Fixpoint iwc_incr_c (prev : Z) (cs vals : list Z) : option (list Z) :=
  match cs with
  | [] => match vals with [] => Some [] | _ => None end
  | c :: t =>
      if c =? prev then option_map (cons 1) (iwc_incr_c prev t vals)
      else match vals with
           | [] => None
           | v :: vs => option_map (cons v) (iwc_incr_c c t vs)
           end
  end.

Lemma iwc_incr_map prev rows vals : iwc_incr prev rows vals = iwc_incr_c prev (map r_cluster rows) vals.
Proof.
  revert prev vals. induction rows as [|r t IH]; intros prev vals; cbn; [reflexivity|].
  destruct (r_cluster r =? prev); [now rewrite IH|]. destruct vals; [reflexivity|now rewrite IH].
Qed.

Section Cumsum.
  Variable cs : list Z.
  Hypothesis Hcs : StronglySorted Z.le cs.
  Notation C := (fun p => count_if (fun x => x =? p) cs).

  Lemma iwc_walk rest : forall seen prev acc, cs = seen ++ rest ->
    Forall (fun y => y <= prev) seen -> Forall (fun y => prev <= y) rest ->
    acc = count_if (fun x => x =? prev) seen ->
    exists inc,
      iwc_incr_c prev rest (map (fun p => - C p + 1) (removelast (prev :: heads prev rest))) = Some inc /\
      length inc = length rest /\
      forall j, (j < length rest)%nat ->
        nth j (cumsum_from acc inc) 0 - 1 = count_if (fun x => x =? nth j rest 0) (seen ++ firstn j rest).
  Proof using Hcs.
    induction rest as [|x t IH]; intros seen prev acc Ecs Hseen Hrest Hacc.
    - exists []. cbn. repeat split. intros j Hj. lia.
    - pose proof (Forall_inv Hrest) as Hpx. pose proof (Forall_inv_tail Hrest) as Hpt. cbn beta in Hpx.
      assert (Hsx : StronglySorted Z.le (x :: t)) by (apply (StronglySorted_app_r _ seen); now rewrite <- Ecs).
      apply StronglySorted_inv in Hsx. destruct Hsx as [Hst Hxt].
      assert (Ecs' : cs = (seen ++ [x]) ++ t) by (rewrite Ecs, <- app_assoc; reflexivity).
      cbn [heads iwc_incr_c]. destruct (x =? prev) eqn:E.
      + apply Z.eqb_eq in E. subst x.
        destruct (IH (seen ++ [prev]) prev (acc + 1)) as (inc & Hi & Hl & Hn).
        * exact Ecs'.
        * rewrite Forall_app. split; [assumption|repeat constructor; lia].
        * exact Hpt.
        * rewrite count_if_app, count_if_cons, Z.eqb_refl. cbn. lia.
        * exists (1 :: inc). rewrite Hi. cbn [option_map length]. repeat split; [now rewrite Hl|].
          intros [|j] Hj; cbn [cumsum_from nth firstn].
          -- rewrite app_nil_r. lia.
          -- rewrite Hn by (cbn in Hj; lia). now rewrite <- app_assoc.
      + apply Z.eqb_neq in E. assert (Hlt : prev < x) by lia.
        change (removelast (prev :: x :: heads x t)) with (prev :: removelast (x :: heads x t)).
        cbn [map].
        assert (HC : count_if (fun y => y =? prev) cs = acc).
        { rewrite Ecs, count_if_app, (count_if_zero prev (x :: t)); [lia|].
          constructor; [lia|]. eapply Forall_impl; [|exact Hxt]. cbn. lia. }
        assert (Hz : count_if (fun y => y =? x) seen = 0).
        { apply count_if_zero. eapply Forall_impl; [|exact Hseen]. cbn. lia. }
        destruct (IH (seen ++ [x]) x 1) as (inc & Hi & Hl & Hn).
        * exact Ecs'.
        * rewrite Forall_app. split; [eapply Forall_impl; [|exact Hseen]; cbn; lia|repeat constructor; lia].
        * exact Hxt.
        * rewrite count_if_app, count_if_cons, Z.eqb_refl, Hz. cbn. lia.
        * exists ((- count_if (fun y => y =? prev) cs + 1) :: inc). rewrite Hi. cbn [option_map length].
          split; [reflexivity|]. split; [now rewrite Hl|].
          intros [|j] Hj; cbn [cumsum_from nth firstn].
          -- rewrite app_nil_r, Hz. lia.
          -- replace (acc + (- count_if (fun y => y =? prev) cs + 1)) with 1 by lia.
             rewrite Hn by (cbn in Hj; lia). now rewrite <- app_assoc.
  Qed.
End Cumsum.

Lemma groups_counts tb : Forall (fun r => 0 <= r_sample r) tb ->
  map (fun g => - g_count g + 1) (removelast (groups tb)) =
  map (fun p => - count_if (fun x => x =? p) (map r_cluster tb) + 1) (removelast (zunique (map r_cluster tb))) /\
  map (fun g => fst (fst (fst g))) (groups tb) = zunique (map r_cluster tb).
Proof.
  intros Hs. unfold groups. cbv zeta.
  rewrite (filter_id (fun r => 0 <=? r_sample r) tb)
    by (eapply Forall_impl; [|exact Hs]; cbn; intros r Hr; lia).
  split.
  - rewrite removelast_map, map_map. apply map_ext. intros u. unfold g_count. cbn [fst snd].
    unfold zlen at 1. rewrite map_length. now rewrite (count_if_map (fun x => x =? u) r_cluster tb).
  - rewrite map_map. cbn [fst]. apply map_id.
Qed.

(* the cumsum trick yields the position of each row inside its cluster *)
Lemma iwc_spec tb : tb <> [] -> StronglySorted Z.le (map r_cluster tb) ->
  Forall (fun r => 0 <= r_sample r) tb ->
  exists l, iwc tb = Some l /\ length l = length tb /\
    forall j, (j < length tb)%nat ->
      nth j l 0 = count_if (fun x => x =? r_cluster (nth j tb drow)) (firstn j (map r_cluster tb)).
Proof.
  intros Hne Hcs Hs. destruct tb as [|r0 t]; [congruence|].
  unfold iwc. rewrite iwc_incr_map. destruct (groups_counts (r0 :: t) Hs) as [Hv _]. rewrite Hv.
  set (cs := map r_cluster (r0 :: t)) in *.
  assert (Ecs : cs = r_cluster r0 :: map r_cluster t) by reflexivity.
  assert (Hu : zunique cs = r_cluster r0 :: heads (r_cluster r0) cs).
  { rewrite Ecs. rewrite zunique_heads by (rewrite <- Ecs; exact Hcs). cbn [heads]. now rewrite Z.eqb_refl. }
  rewrite Hu.
  destruct (iwc_walk cs Hcs cs [] (r_cluster r0) 0) as (inc & Hi & Hl & Hn).
  - reflexivity.
  - constructor.
  - rewrite Ecs. constructor; [lia|]. rewrite Ecs in Hcs. now apply StronglySorted_inv in Hcs.
  - reflexivity.
  - rewrite Hi. eexists. split; [reflexivity|].
    assert (Hlen : length cs = S (length t)) by (unfold cs; cbn; now rewrite map_length).
    split; [rewrite map_length; unfold cumsum; rewrite cumsum_from_length, Hl; exact Hlen|].
    intros j Hj. cbn [length] in Hj.
    rewrite (nth_map' (fun x => x - 1) _ j 0 0) by (unfold cumsum; rewrite cumsum_from_length, Hl; lia).
    unfold cumsum. rewrite Hn by lia. cbn [app]. f_equal.
    unfold cs. now rewrite (nth_map' r_cluster (r0 :: t) j drow 0) by (cbn [length]; lia).
Qed.

(* min / max of a non-empty list *)
Lemma fold_min_spec d l : let m := fold_right Z.min d l in
  (m = d \/ In m l) /\ m <= d /\ forall w, In w l -> m <= w.
Proof.
  cbv zeta. induction l as [|x l IH]; cbn [fold_right In].
  - split; [now left|]. split; [lia|tauto].
  - destruct IH as (H1 & H2 & H3). split; [|split; [lia|]].
    + destruct (Z.min_spec x (fold_right Z.min d l)) as [[_ E]|[_ E]]; rewrite E.
      * right. now left.
      * destruct H1 as [H1|H1]; [now left|right; now right].
    + intros w [<-|Hw]; [lia|]. specialize (H3 w Hw). lia.
Qed.

Lemma fold_max_spec d l : let m := fold_right Z.max d l in
  (m = d \/ In m l) /\ d <= m /\ forall w, In w l -> w <= m.
Proof.
  cbv zeta. induction l as [|x l IH]; cbn [fold_right In].
  - split; [now left|]. split; [lia|tauto].
  - destruct IH as (H1 & H2 & H3). split; [|split; [lia|]].
    + destruct (Z.max_spec x (fold_right Z.max d l)) as [[_ E]|[_ E]]; rewrite E.
      * destruct H1 as [H1|H1]; [now left|right; now right].
      * right. now left.
    + intros w [<-|Hw]; [lia|]. specialize (H3 w Hw). lia.
Qed.

(* aggregate_by_clusters on a table sorted by cluster whose waveform_index is the row number:
   [first_index, last_index] is exactly the set of rows of the cluster *)
Lemma group_range tb g : StronglySorted Z.le (map r_cluster tb) ->
  Forall (fun r => 0 <= r_sample r) tb ->
  (forall k, (k < length tb)%nat -> r_wfi (nth k tb drow) = Z.of_nat k) ->
  In g (groups tb) ->
  let u := fst (fst (fst g)) in
  In u (map r_cluster tb) /\
  g_count g = count_if (fun x => x =? u) (map r_cluster tb) /\
  forall k, (k < length tb)%nat ->
    (g_first g <= Z.of_nat k <= g_last g <-> r_cluster (nth k tb drow) = u).
Proof.
  intros Hcs Hs Hw Hg. unfold groups in Hg. cbv zeta in Hg.
  rewrite (filter_id (fun r => 0 <=? r_sample r) tb) in Hg
    by (eapply Forall_impl; [|exact Hs]; cbn; intros r Hr; lia).
  apply in_map_iff in Hg. destruct Hg as [u [<- Hu]]. cbn [fst snd]. unfold g_count, g_first, g_last. cbn [fst snd].
  apply (proj1 (zunique_in _ _)) in Hu.
  set (ws := map r_wfi (filter (fun r => r_cluster r =? u) tb)).
  split; [exact Hu|]. split.
  { unfold ws, zlen at 1. rewrite map_length. now rewrite (count_if_map (fun x => x =? u) r_cluster tb). }
  assert (Hws : forall w, In w ws <-> exists k, (k < length tb)%nat /\ w = Z.of_nat k /\ r_cluster (nth k tb drow) = u).
  { intros w. unfold ws. rewrite in_map_iff. split.
    - intros [r [<- Hr]]. apply filter_In in Hr. destruct Hr as [Hin Hc]. apply Z.eqb_eq in Hc.
      destruct (In_nth _ _ drow Hin) as [k [Hk <-]]. exists k. repeat split; auto.
    - intros [k [Hk [-> Hc]]]. exists (nth k tb drow). split; [now apply Hw|].
      apply filter_In. split; [now apply nth_In|]. now apply Z.eqb_eq. }
  assert (Hne : In (hd 0 ws) ws).
  { apply in_map_iff in Hu. destruct Hu as [r [Hc Hin]].
    assert (Hin' : In (r_wfi r) ws).
    { unfold ws. apply in_map. apply filter_In. split; [exact Hin|]. now apply Z.eqb_eq. }
    destruct ws; [contradiction|now left]. }
  assert (Hmono : forall a b, (a <= b < length tb)%nat -> r_cluster (nth a tb drow) <= r_cluster (nth b tb drow)).
  { intros a b Hab. pose proof (sorted_le_nth _ Hcs a b) as H. rewrite map_length in H. specialize (H Hab).
    now rewrite !(nth_map' r_cluster tb _ drow 0) in H by lia. }
  destruct (fold_min_spec (hd 0 ws) ws) as (Hmi & _ & Hml).
  destruct (fold_max_spec (hd 0 ws) ws) as (Hma & _ & Hmu).
  assert (Hmin : In (fold_right Z.min (hd 0 ws) ws) ws) by (destruct Hmi as [->|]; assumption).
  assert (Hmax : In (fold_right Z.max (hd 0 ws) ws) ws) by (destruct Hma as [->|]; assumption).
  intros k Hk. split.
  - intros [Hlo Hhi].
    apply Hws in Hmin. destruct Hmin as [a [Ha [Ea Hca]]].
    apply Hws in Hmax. destruct Hmax as [b [Hb [Eb Hcb]]].
    rewrite Ea in Hlo. rewrite Eb in Hhi.
    pose proof (Hmono a k ltac:(lia)). pose proof (Hmono k b ltac:(lia)). lia.
  - intros Hc. assert (Hin : In (Z.of_nat k) ws) by (apply Hws; exists k; auto).
    split; [now apply Hml|now apply Hmu].
Qed.

(* WaveformsLoader.load_waveforms: row selection *)
Lemma ssorted_map_filter {A} (h : A -> Z) g L : StronglySorted Z.lt (map h L) ->
  StronglySorted Z.lt (map h (filter g L)).
Proof.
  induction L as [|a L IH]; cbn; intros H; [constructor|].
  apply StronglySorted_inv in H. destruct H as [Hs Hf].
  destruct (g a); [|now apply IH]. cbn. constructor; [now apply IH|].
  rewrite Forall_forall in *. intros y Hy. apply Hf.
  apply in_map_iff in Hy. destruct Hy as [x [<- Hx]]. apply filter_In in Hx. apply in_map. tauto.
Qed.

Lemma load_rows_spec tb iw labels indices : length iw = length tb ->
  let labs := match labels with Some l => l | None => map (fun g => fst (fst (fst g))) (groups tb) end in
  StronglySorted Z.lt (load_rows tb iw labels indices) /\
  forall k, In k (load_rows tb iw labels indices) <->
    0 <= k < zlen tb /\ In (r_cluster (znth drow tb k)) labs /\
    match indices with None => True | Some ix => In (znth 0 iw k) ix end.
Proof.
  intros Hl labs. unfold load_rows. fold labs.
  set (L := combine tb iw).
  assert (HL : length L = length tb) by (unfold L; rewrite combine_length; lia).
  replace (combine (zrange (length tb)) L) with (enumerate L) by (unfold enumerate; now rewrite HL).
  split.
  - apply ssorted_map_filter. unfold enumerate. rewrite map_fst_combine by now rewrite zrange_length.
    apply zrange_ssorted.
  - intros k. rewrite in_map_iff. unfold zlen. rewrite <- HL.
    assert (Hnth : forall p, (p < length L)%nat -> nth p L (drow, 0) = (nth p tb drow, nth p iw 0)).
    { intros p Hp. unfold L. apply combine_nth. lia. }
    assert (Hex : forall c (l : list Z), existsb (Z.eqb c) l = true <-> In c l).
    { intros c l. rewrite existsb_exists. split; [intros [x [Hx He]]; apply Z.eqb_eq in He; now subst|].
      intros Hc. exists c. split; [exact Hc|apply Z.eqb_refl]. }
    split.
    + intros [[q [r w]] [Hq Hf]]. cbn in Hq. subst q. apply filter_In in Hf. destruct Hf as [Hin Hc].
      apply (enumerate_in L k (r, w) (drow, 0)) in Hin. destruct Hin as [Hr Hx]. unfold zlen in Hr.
      rewrite Hnth in Hx by lia. inversion Hx; subst r w.
      apply andb_true_iff in Hc. destruct Hc as [Hc1 Hc2]. apply Hex in Hc1.
      split; [exact Hr|]. split; [exact Hc1|]. destruct indices as [ix|]; [now apply Hex in Hc2|exact I].
    + intros [Hr [Hc1 Hc2]]. exists (k, nth (Z.to_nat k) L (drow, 0)). split; [reflexivity|].
      apply filter_In. split; [apply enumerate_in_conv; unfold zlen; exact Hr|].
      rewrite Hnth by lia. apply andb_true_iff. split; [now apply Hex|].
      destruct indices as [ix|]; [now apply Hex|reflexivity].
Qed.

Lemma StronglySorted_map {A B} (R : B -> B -> Prop) (f : A -> B) l :
  StronglySorted (fun a b => R (f a) (f b)) l -> StronglySorted R (map f l).
Proof.
  induction 1 as [|x l Hs IH Hx]; cbn; constructor; [exact IH|]. now rewrite Forall_map.
Qed.

Lemma row_leb_cluster a b : row_leb a b = true -> r_cluster a <= r_cluster b.
Proof.
  unfold row_leb. destruct (r_cluster a <? r_cluster b) eqn:E1; [lia|].
  destruct (r_cluster b <? r_cluster a) eqn:E2; [discriminate|lia].
Qed.

Section Main2.
  Variable V : Type.
  Variable src : Z -> Z -> V.
  Variable choose : Z -> list Z -> Z -> list Z.
  Variable P : cfg.
  Notation sp := (c_spikes P).
  Hypothesis Hns : 1 <= c_ns P.
  Hypothesis Hsize : 1 <= c_size P.
  Hypothesis Hto : 0 <= c_to P <= c_L P.
  Hypothesis Hts : c_to P <= c_size P \/ nchunks P = 1.
  Hypothesis Hsorted : StronglySorted Z.le (map sp_sample sp).
  Hypothesis Hchoose : forall i a k, 0 <= k <= zlen a -> NoDup a ->
    length (choose i a k) = Z.to_nat k /\ NoDup (choose i a k) /\ incl (choose i a k) a.
  Hypothesis Hmax : 0 <= c_maxwf P.
  Hypothesis Hchan : Forall (fun s => 0 <= sp_chan s < zlen (c_geom P)) sp.
  Set Default Proof Using "Hns Hsize Hto Hts Hsorted Hchoose Hmax Hchan".

  Notation T := (table choose P).
  Notation ST := (sorted_table choose P).

  Lemma ST_length : length ST = length T.
  Proof. apply Permutation_length, isort_perm. Qed.

  Lemma ST_clusters_sorted : StronglySorted Z.le (map r_cluster ST).
  Proof.
    apply StronglySorted_map. eapply StronglySorted_impl; [|apply isort_sorted].
    - intros a b _ _. apply row_leb_cluster.
    - apply row_leb_total.
    - apply row_leb_trans.
  Qed.

  Lemma ST_valid : Forall (valid_row P) ST.
  Proof.
    pose proof (table_valid choose P Hns Hsize Hto Hts Hsorted Hchoose Hmax Hchan) as Hv.
    rewrite Forall_forall in *. intros r Hr. apply Hv. eapply Permutation_in; [apply isort_perm|exact Hr].
  Qed.

  Lemma ST_samples_nonneg : Forall (fun r => 0 <= r_sample r) ST.
  Proof. eapply Forall_impl; [|apply ST_valid]. intros r [Hv _]. lia. Qed.

  Lemma ST_wfi k : (k < length ST)%nat -> r_wfi (nth k ST drow) = Z.of_nat k.
  Proof.
    intros Hk. rewrite ST_length in Hk.
    exact (sorted_row_wfi choose P Hns Hsize Hto Hts Hsorted Hchoose Hmax Hchan k Hk).
  Qed.

  Lemma iwc_ST : T <> [] ->
    exists l, iwc ST = Some l /\ length l = length ST /\
      forall j, (j < length ST)%nat ->
        nth j l 0 = count_if (fun x => x =? r_cluster (nth j ST drow)) (firstn j (map r_cluster ST)).
  Proof.
    intros Hne. apply iwc_spec; [|apply ST_clusters_sorted|apply ST_samples_nonneg].
    intros E. apply Hne. apply length_zero_iff_nil. rewrite <- ST_length, E. reflexivity.
  Qed.

  Lemma groups_ST g : In g (groups ST) ->
    let u := fst (fst (fst g)) in
    In u (map r_cluster ST) /\
    g_count g = count_if (fun x => x =? u) (map r_cluster ST) /\
    forall k, (k < length ST)%nat ->
      (g_first g <= Z.of_nat k <= g_last g <-> r_cluster (nth k ST drow) = u).
  Proof.
    apply group_range; [apply ST_clusters_sorted|apply ST_samples_nonneg|apply ST_wfi].
  Qed.

  Lemma groups_ST_clusters : map (fun g => fst (fst (fst g))) (groups ST) = zunique (map r_cluster ST).
  Proof. apply groups_counts, ST_samples_nonneg. Qed.

  (* the loader gives back, for every selected row, exactly what the four files hold for that row *)
  Lemma loader_saved mem iw cm labels indices : zlen (c_geom P) <= 32768 ->
    traces V src choose P = Some mem -> iwc ST = Some iw -> chan_map choose P = Some cm ->
    load_waveforms V mem ST iw cm labels indices =
    map (fun k => let row := znth drow ST k in
                  (Some (window V src P (r_sample row) (r_chan row)), row,
                   count_if (fun x => x =? r_cluster row) (firstn (Z.to_nat k) (map r_cluster ST)),
                   znth [] (cidx P) (r_chan row)))
        (load_rows ST iw labels indices).
  Proof.
    intros Hn Hm Hi Hc. unfold load_waveforms.
    assert (HT : T <> []).
    { intros E. unfold iwc in Hi. assert (ST = []) as E' by (apply length_zero_iff_nil; now rewrite ST_length, E).
      rewrite E' in Hi. discriminate. }
    destruct (iwc_ST HT) as (l & Hl & Hll & Hln). rewrite Hi in Hl. inversion Hl; subst l.
    rewrite (chan_map_canon choose P Hn (table_valid choose P Hns Hsize Hto Hts Hsorted Hchoose Hmax Hchan)) in Hc.
    inversion Hc; subst cm. clear Hc Hl.
    destruct (load_rows_spec ST iw labels indices Hll) as [_ Hsel].
    apply map_ext_in. intros k Hk. apply Hsel in Hk. destruct Hk as [Hr _]. unfold zlen in Hr.
    assert (Hkn : (Z.to_nat k < length ST)%nat) by lia. cbv zeta.
    destruct (traces_row V src choose P Hns Hsize Hto Hts Hsorted Hchoose Hmax Hchan (Z.to_nat k)
                ltac:(rewrite <- ST_length; exact Hkn)) as (mem' & Hm' & _ & _ & _ & Hrow).
    rewrite Hm in Hm'. inversion Hm'; subst mem'.
    unfold znth. rewrite Hrow, Hln by exact Hkn.
    rewrite (nth_map' _ ST (Z.to_nat k) drow []) by exact Hkn. reflexivity.
  Qed.
End Main2.
Set Default Proof Using "Type".

(* any sequence of load_waveforms calls leaves the files unchanged and every call returns what
   the same query returns on the initial files (in particular what it returned the first time) *)
Lemma loader_calls_pure V (F : files V) qs :
  fst (loader_calls V F qs) = F /\
  snd (loader_calls V F qs) = map (fun q => snd (loader_call V F q)) qs.
Proof.
  induction qs as [|q t IH]; [split; reflexivity|]. destruct IH as [IH1 IH2].
  cbn [loader_calls]. cbv zeta. change (fst (loader_call V F q)) with F.
  cbn [fst snd map]. rewrite IH1, IH2. split; reflexivity.
Qed.

(* ------------------------------------------------------------------ *)
(* extract_wfs_array on a whole array                                  *)
(* ------------------------------------------------------------------ *)
Lemma extract_array_window V (src : Z -> Z -> V) P ns rows : rows <> [] -> 0 <= c_to P <= c_L P ->
  (forall r, In r rows -> c_to P <= r_sample r /\ r_sample r + (c_L P - c_to P) <= ns /\
                          0 <= r_chan r < zlen (c_geom P)) ->
  r_sample (last rows drow) + (c_L P - c_to P) < ns ->
  extract_array V src P (cidx P) ns rows = Some (map (fun r => window V src P (r_sample r) (r_chan r)) rows).
Proof.
  intros Hne Hto Hr Hl. unfold extract_array. destruct rows as [|r0 rt]; [congruence|].
  apply Z.ltb_lt in Hl. rewrite Hl. apply sequence_map_some. intros r Hin.
  destruct (Hr r Hin) as (H1 & H2 & H3).
  unfold chunk_wf, chan_row, chunk_offset. cbn [Z.eqb].
  assert (Hz : zlen (cidx P) = zlen (c_geom P)).
  { unfold cidx, channel_index, chans, zlen. cbv zeta. now rewrite map_length, zrange_length. }
  rewrite Hz. unfold wrap_index at 1.
  assert (E : (0 <=? r_chan r) && (r_chan r <? zlen (c_geom P)) = true) by lia. rewrite E.
  rewrite (sequence_map_some _ (fun t => r_sample r - c_to P + t)); [reflexivity|].
  intros t Ht. apply in_zrange in Ht. rewrite Z2Nat.id in Ht by lia. unfold wrap_index.
  assert (E2 : (0 <=? r_sample r + 0 - 0 * c_size P + t - c_to P) &&
               (r_sample r + 0 - 0 * c_size P + t - c_to P <? ns) = true) by lia.
  rewrite E2. cbn. f_equal. lia.
Qed.

(* ================================================================== *)
(* Round 4: preprocess_steps                                           *)
(* ================================================================== *)
Lemma gather_ext V (src1 src2 : Z -> Z -> V) P cind cols :
  (forall ch c, src1 ch c = src2 ch c) -> gather V src1 P cind cols = gather V src2 P cind cols.
Proof.
  intros H. unfold gather. apply map_ext. intros ch. apply map_ext. intros c.
  destruct (ch =? c_nc P); [reflexivity|]. now rewrite H.
Qed.

Lemma chunk_writes_ext V (src1 src2 : Z -> Z -> V) P ci tb i :
  (forall ch c, src1 ch c = src2 ch c) -> chunk_writes V src1 P ci tb i = chunk_writes V src2 P ci tb i.
Proof.
  intros H. unfold chunk_writes. destruct (slice_rows P tb i) as [|r0 rows]; [reflexivity|].
  cbv zeta. destruct (_ <? _); [|reflexivity]. f_equal. apply map_ext. intros r.
  unfold chunk_wf. destruct (chan_row ci (r_chan r)); [|reflexivity].
  destruct (sequence _); [|reflexivity]. cbn. now rewrite (gather_ext V src1 src2 P _ _ H).
Qed.

Section PP.
  Variable V : Type.
  Variable src : Z -> Z -> V.
  Variables f1 f2 f3 f4 f5 : Z -> Z -> snippet V -> snippet V.
  Variable choose : Z -> list Z -> Z -> list Z.
  Variable P : cfg.
  Notation sp := (c_spikes P).
  Hypothesis Hns : 1 <= c_ns P.
  Hypothesis Hsize : 1 <= c_size P.
  Hypothesis Hto : 0 <= c_to P <= c_L P.
  Hypothesis Hts : c_to P <= c_size P \/ nchunks P = 1.
  Hypothesis Hsorted : StronglySorted Z.le (map sp_sample sp).
  Hypothesis Hchoose : forall i a k, 0 <= k <= zlen a -> NoDup a ->
    length (choose i a k) = Z.to_nat k /\ NoDup (choose i a k) /\ incl (choose i a k) a.
  Hypothesis Hmax : 0 <= c_maxwf P.
  Hypothesis Hchan : Forall (fun s => 0 <= sp_chan s < zlen (c_geom P)) sp.
  Set Default Proof Using "Hns Hsize Hto Hts Hsorted Hchoose Hmax Hchan".

  Notation T := (table choose P).
  Notation ST := (sorted_table choose P).
  Notation pps := (pp_source V src f1 f2 f3 f4 f5 P).

  (* without steps the processed snippet is the recording itself *)
  Lemma pp_source_nil i ch c : pps [] i ch c = src ch c.
  Proof using. unfold pp_source, preprocess, raw_snippet. cbn. f_equal. lia. Qed.

  Lemma traces_pp_nil : traces_pp V src f1 f2 f3 f4 f5 choose P [] = traces V src choose P.
  Proof using.
    unfold traces_pp, traces, all_writes_pp, all_writes, job_writes. cbn [steps_ok forallb has_step existsb andb negb].
    cbv zeta. do 3 f_equal. apply map_ext. intros i. unfold chunk_writes_pp.
    apply chunk_writes_ext. intros ch c. apply pp_source_nil.
  Qed.

  Lemma chunk_of_sample i s : 0 <= i < nchunks P -> s0 P i <= s < s1 P i -> s / c_size P = i.
  Proof.
    intros Hi Hs. pose proof (nchunks_spec P Hns Hsize) as Hn.
    assert (H0 : s0 P i = i * c_size P) by reflexivity.
    assert (H1 : s1 P i <= (i + 1) * c_size P).
    { unfold s1, s0. destruct (i =? nchunks P - 1) eqn:E; [|lia].
      apply Z.eqb_eq in E. replace (i + 1) with (nchunks P) by lia. lia. }
    symmetry. apply Z.div_unique with (r := s - i * c_size P); [left; lia|lia].
  Qed.

  Definition canon_pp (steps : list Z) (r : row) : Z * wf V :=
    canon_write V (pps steps (r_sample r / c_size P)) P r.

  Lemma chunk_writes_pp_canon steps tb i : 0 <= i < nchunks P ->
    StronglySorted Z.le (map r_sample tb) -> Forall (valid_row P) tb ->
    chunk_writes_pp V src f1 f2 f3 f4 f5 P steps (cidx P) tb i =
    Some (map (canon_pp steps) (slice_rows P tb i)).
  Proof.
    intros Hi Hs Hv. unfold chunk_writes_pp.
    rewrite (chunk_writes_canon V (pps steps i) P Hns Hsize Hto Hts tb i Hi Hs Hv). f_equal.
    apply map_ext_in. intros r Hr.
    destruct (slice_rows_in P Hns Hsize Hto Hts tb i r Hs Hr) as [_ Hrg].
    unfold canon_pp. now rewrite (chunk_of_sample i (r_sample r) Hi Hrg).
  Qed.

  Lemma all_writes_pp_canon steps tb : StronglySorted Z.le (map r_sample tb) -> Forall (valid_row P) tb ->
    all_writes_pp V src f1 f2 f3 f4 f5 P steps (cidx P) tb = Some (map (canon_pp steps) tb).
  Proof.
    intros Hs Hv. unfold all_writes_pp.
    rewrite (sequence_map_some _ (fun i => map (canon_pp steps) (slice_rows P tb i))).
    - cbn [option_map]. f_equal.
      rewrite <- (map_map (slice_rows P tb) (map (canon_pp steps))), <- concat_map.
      f_equal. apply slices_partition; auto. eapply Forall_impl; [|exact Hv]. intros r [Hr _]. lia.
    - intros i Hi. apply in_zrange in Hi. pose proof (nchunks_spec P Hns Hsize).
      rewrite Z2Nat.id in Hi by lia. now apply chunk_writes_pp_canon.
  Qed.

  (* with any admissible step list no job raises, and row r of the traces is the window of table row r
     gathered from the processed snippet of the chunk that contains its sample *)
  Lemma traces_pp_row steps r : steps_ok steps = true -> (r < length T)%nat ->
    exists mem, traces_pp V src f1 f2 f3 f4 f5 choose P steps = Some mem /\ length mem = length T /\
      let row := nth r ST drow in
      r_wfi row = Z.of_nat r /\ valid_row P row /\
      nth r mem None = Some (window V (pps steps (r_sample row / c_size P)) P (r_sample row) (r_chan row)).
  Proof.
    intros Hok Hr. unfold traces_pp. rewrite Hok. cbv zeta.
    pose proof (table_ascending choose P Hns Hsize Hto Hts Hsorted Hchoose Hmax Hchan) as Hasc.
    pose proof (table_valid choose P Hns Hsize Hto Hts Hsorted Hchoose Hmax Hchan) as Hval.
    rewrite (all_writes_pp_canon steps T Hasc Hval). cbn [option_map].
    eexists. split; [reflexivity|].
    split; [rewrite aw_length; unfold mem0; apply repeat_length|].
    cbv zeta. set (row := nth r ST drow).
    pose proof (sorted_perm choose P Hns Hsize Hto Hts Hsorted Hchoose Hmax Hchan) as Hp.
    assert (Hin : In row T).
    { eapply Permutation_in; [exact Hp|]. apply nth_In. now rewrite (Permutation_length Hp). }
    pose proof (sorted_row_wfi choose P Hns Hsize Hto Hts Hsorted Hchoose Hmax Hchan r Hr) as Hw. fold row in Hw.
    split; [exact Hw|]. split; [rewrite Forall_forall in Hval; now apply Hval|].
    assert (Hnd : NoDup (map (fun e : Z * wf V => Z.to_nat (fst e)) (map (canon_pp steps) T))).
    { pose proof (table_keys_nodup V src choose P Hns Hsize Hto Hts Hsorted Hchoose Hmax Hchan) as H.
      rewrite map_map in H |- *. exact H. }
    pose proof (aw_nth_in V (map (canon_pp steps) T) (mem0 V T) (canon_pp steps row) Hnd
                  (in_map (canon_pp steps) _ _ Hin)) as H.
    unfold canon_pp in H at 1 2. cbn [canon_write fst snd] in H. rewrite Hw, Nat2Z.id in H. apply H.
    unfold mem0. rewrite repeat_length. exact Hr.
  Qed.
End PP.
Set Default Proof Using "Type".
