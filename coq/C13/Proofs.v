(* C13 — lemmas about the model (coq/C13/Model.v). *)
From Coq Require Import ZArith List Bool Lia Permutation Sorted.
From IBL.lib Require Import PyInt.
From IBL.C13 Require Import Model.
Import ListNotations.
Open Scope Z_scope.

(* ------------------------------------------------------------------ *)
(* generic list facts                                                  *)
(* ------------------------------------------------------------------ *)
Lemma zrange_S n : zrange (S n) = zrange n ++ [Z.of_nat n].
Proof. unfold zrange. rewrite seq_S, map_app. reflexivity. Qed.

Lemma firstn_skipn_app {A} (m : list A) p q :
  firstn p m ++ firstn q (skipn p m) = firstn (p + q) m.
Proof.
  revert m. induction p as [|p IH]; intros m; [reflexivity|].
  destruct m as [|x m]; [now rewrite !firstn_nil|].
  cbn [skipn firstn Nat.add app]. f_equal. apply IH.
Qed.

Lemma skipn_add {A} (l : list A) p q : skipn p (skipn q l) = skipn (q + p) l.
Proof.
  revert l. induction q as [|q IH]; intros l; [reflexivity|].
  destruct l as [|x l]; [now rewrite !skipn_nil|]. cbn [skipn Nat.add]. apply IH.
Qed.

Lemma slice_app {A} (l : list A) a b c : (a <= b <= c)%nat ->
  firstn (b - a) (skipn a l) ++ firstn (c - b) (skipn b l) = firstn (c - a) (skipn a l).
Proof.
  intros H. replace (skipn b l) with (skipn (b - a) (skipn a l)).
  - rewrite firstn_skipn_app. f_equal. lia.
  - rewrite skipn_add. f_equal. lia.
Qed.

(* ------------------------------------------------------------------ *)
(* searchsorted                                                        *)
(* ------------------------------------------------------------------ *)
Lemma ss_le_length l v : (ss l v <= length l)%nat.
Proof. induction l as [|x l IH]; cbn; [lia|]. destruct (x <? v); lia. Qed.

Lemma ss_mono l v v' : v <= v' -> (ss l v <= ss l v')%nat.
Proof.
  intros H. induction l as [|x l IH]; cbn; [lia|].
  destruct (x <? v) eqn:E; [|lia].
  assert (E' : x <? v' = true) by lia. rewrite E'. lia.
Qed.

Lemma ss_all_lt l v : Forall (fun x => x < v) l -> ss l v = length l.
Proof.
  induction 1 as [|x l Hx _ IH]; cbn; [reflexivity|].
  assert (E : x <? v = true) by lia. now rewrite E, IH.
Qed.

Lemma ss_none l v : Forall (fun x => v <= x) l -> ss l v = 0%nat.
Proof.
  destruct 1 as [|x l Hx _]; cbn; [reflexivity|].
  assert (E : x <? v = false) by lia. now rewrite E.
Qed.

(* elements before position ss are < v *)
Lemma ss_prefix_lt l v k : (k < ss l v)%nat -> nth k l 0 < v.
Proof.
  revert k. induction l as [|x l IH]; cbn; intros k Hk; [lia|].
  destruct (x <? v) eqn:E; [|lia].
  destruct k; [lia|]. apply IH. lia.
Qed.

(* on an ascending list, elements from position ss on are >= v *)
Lemma ss_suffix_ge l v k : StronglySorted Z.le l -> (ss l v <= k < length l)%nat -> v <= nth k l 0.
Proof.
  intros Hs. revert k. induction Hs as [|x l Hs IH Hx]; cbn; intros k Hk; [lia|].
  destruct (x <? v) eqn:E.
  - destruct k; [lia|]. apply IH. lia.
  - destruct k; [lia|].
    assert (Hin : In (nth k l 0) l) by (apply nth_In; lia).
    rewrite Forall_forall in Hx. specialize (Hx _ Hin). lia.
Qed.

(* ------------------------------------------------------------------ *)
(* chunks and slices                                                   *)
(* ------------------------------------------------------------------ *)
Section Chunks.
  Variable P : cfg.
  Hypothesis Hns : 1 <= c_ns P.
  Hypothesis Hsize : 1 <= c_size P.
  Set Default Proof Using "Hns Hsize".

  Lemma nchunks_spec : (nchunks P - 1) * c_size P < c_ns P <= nchunks P * c_size P /\ 1 <= nchunks P.
  Proof.
    unfold nchunks. pose proof (cdiv_spec (c_ns P) (c_size P) ltac:(lia)).
    pose proof (cdiv_pos (c_ns P) (c_size P) ltac:(lia) ltac:(lia)). lia.
  Qed.

  (* chunk boundaries: bound i = s0 i, bound (i+1) = s1 i *)
  Definition bound (i : Z) : Z := if i =? nchunks P then c_ns P else i * c_size P.

  Lemma s0_bound i : 0 <= i < nchunks P -> s0 P i = bound i.
  Proof. intros H. unfold bound, s0. destruct (i =? nchunks P) eqn:E; lia. Qed.

  Lemma s1_bound i : s1 P i = bound (i + 1).
  Proof.
    unfold bound, s1, s0.
    destruct (i =? nchunks P - 1) eqn:E; destruct (i + 1 =? nchunks P) eqn:E'; lia.
  Qed.

  Lemma bound_mono i : 0 <= i < nchunks P -> bound i <= bound (i + 1).
  Proof.
    intros H. pose proof nchunks_spec as Hn. unfold bound.
    destruct (i =? nchunks P) eqn:E; destruct (i + 1 =? nchunks P) eqn:E'; try nia.
  Qed.

  Lemma bound_range i : 0 <= i < nchunks P -> 0 <= bound i /\ bound i < bound (i + 1) /\ bound (i + 1) <= c_ns P.
  Proof.
    intros H. pose proof nchunks_spec as Hn. unfold bound.
    destruct (i =? nchunks P) eqn:E; destruct (i + 1 =? nchunks P) eqn:E'; try nia.
  Qed.

  Lemma slice_rows_bound tb i : 0 <= i < nchunks P ->
    slice_rows P tb i =
    firstn (ss (map r_sample tb) (bound (i + 1)) - ss (map r_sample tb) (bound i))
           (skipn (ss (map r_sample tb) (bound i)) tb).
  Proof. intros H. unfold slice_rows. now rewrite s1_bound, s0_bound. Qed.

  Lemma slices_concat tb k : (Z.of_nat k <= nchunks P) ->
    ss (map r_sample tb) (bound 0) = 0%nat ->
    concat (map (slice_rows P tb) (zrange k)) = firstn (ss (map r_sample tb) (bound (Z.of_nat k))) tb.
  Proof.
    intros Hk H0. induction k as [|k IH].
    - cbn. now rewrite H0.
    - rewrite zrange_S, map_app, concat_app, IH by lia. cbn [map concat]. rewrite app_nil_r.
      rewrite slice_rows_bound by lia.
      replace (Z.of_nat (S k)) with (Z.of_nat k + 1) by lia.
      pose proof (ss_mono (map r_sample tb) _ _ (bound_mono (Z.of_nat k) ltac:(lia))) as Hm.
      set (a := ss (map r_sample tb) (bound (Z.of_nat k))) in *.
      set (b := ss (map r_sample tb) (bound (Z.of_nat k + 1))) in *.
      pose proof (slice_app tb 0 a b ltac:(lia)) as Hs. cbn [skipn] in Hs.
      rewrite !Nat.sub_0_r in Hs. exact Hs.
  Qed.

  (* the searchsorted slices partition the rows of any table whose samples lie in [0, ns) *)
  Lemma slices_partition tb :
    Forall (fun r => 0 <= r_sample r < c_ns P) tb ->
    concat (map (slice_rows P tb) (zrange (Z.to_nat (nchunks P)))) = tb.
  Proof.
    intros Hr. pose proof nchunks_spec as Hn.
    rewrite slices_concat.
    - rewrite Z2Nat.id by lia. unfold bound. rewrite Z.eqb_refl.
      rewrite ss_all_lt.
      + rewrite map_length. apply firstn_all.
      + rewrite Forall_map. eapply Forall_impl; [|exact Hr]. cbn. lia.
    - lia.
    - apply ss_none. rewrite Forall_map. eapply Forall_impl; [|exact Hr]. cbn.
      intros r Hr'. unfold bound. destruct (0 =? nchunks P) eqn:E; lia.
  Qed.
End Chunks.
