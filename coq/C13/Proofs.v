(* C13 — lemmas about the model (coq/C13/Model.v). *)
From Coq Require Import ZArith List Bool Lia Permutation Sorted.
From IBL.lib Require Import PyInt.
From IBL.C13 Require Import Model.
Import ListNotations.
Open Scope Z_scope.

(* ------------------------------------------------------------------ *)
(* generic list facts                                                  *)
(* ------------------------------------------------------------------ *)
Lemma zrange_S n : zrange (S n) = zrange n ++ [Z.of_nat n].
Proof. unfold zrange. rewrite seq_S, map_app. reflexivity. Qed.

Lemma firstn_skipn_app {A} (m : list A) p q :
  firstn p m ++ firstn q (skipn p m) = firstn (p + q) m.
Proof.
  revert m. induction p as [|p IH]; intros m; [reflexivity|].
  destruct m as [|x m]; [now rewrite !firstn_nil|].
  cbn [skipn firstn Nat.add app]. f_equal. apply IH.
Qed.

Lemma skipn_add {A} (l : list A) p q : skipn p (skipn q l) = skipn (q + p) l.
Proof.
  revert l. induction q as [|q IH]; intros l; [reflexivity|].
  destruct l as [|x l]; [now rewrite !skipn_nil|]. cbn [skipn Nat.add]. apply IH.
Qed.

Lemma slice_app {A} (l : list A) a b c : (a <= b <= c)%nat ->
  firstn (b - a) (skipn a l) ++ firstn (c - b) (skipn b l) = firstn (c - a) (skipn a l).
Proof.
  intros H. replace (skipn b l) with (skipn (b - a) (skipn a l)).
  - rewrite firstn_skipn_app. f_equal. lia.
  - rewrite skipn_add. f_equal. lia.
Qed.

(* ------------------------------------------------------------------ *)
(* searchsorted                                                        *)
(* ------------------------------------------------------------------ *)
Lemma ss_le_length l v : (ss l v <= length l)%nat.
Proof. induction l as [|x l IH]; cbn; [lia|]. destruct (x <? v); lia. Qed.

Lemma ss_mono l v v' : v <= v' -> (ss l v <= ss l v')%nat.
Proof.
  intros H. induction l as [|x l IH]; cbn; [lia|].
  destruct (x <? v) eqn:E; [|lia].
  assert (E' : x <? v' = true) by lia. rewrite E'. lia.
Qed.

Lemma ss_all_lt l v : Forall (fun x => x < v) l -> ss l v = length l.
Proof.
  induction 1 as [|x l Hx _ IH]; cbn; [reflexivity|].
  assert (E : x <? v = true) by lia. now rewrite E, IH.
Qed.

Lemma ss_none l v : Forall (fun x => v <= x) l -> ss l v = 0%nat.
Proof.
  destruct 1 as [|x l Hx _]; cbn; [reflexivity|].
  assert (E : x <? v = false) by lia. now rewrite E.
Qed.

(* elements before position ss are < v *)
Lemma ss_prefix_lt l v k : (k < ss l v)%nat -> nth k l 0 < v.
Proof.
  revert k. induction l as [|x l IH]; cbn; intros k Hk; [lia|].
  destruct (x <? v) eqn:E; [|lia].
  destruct k; [lia|]. apply IH. lia.
Qed.

(* on an ascending list, elements from position ss on are >= v *)
Lemma ss_suffix_ge l v k : StronglySorted Z.le l -> (ss l v <= k < length l)%nat -> v <= nth k l 0.
Proof.
  intros Hs. revert k. induction Hs as [|x l Hs IH Hx]; cbn; intros k Hk; [lia|].
  destruct (x <? v) eqn:E.
  - destruct k; [lia|]. apply IH. lia.
  - destruct k; [lia|].
    assert (Hin : In (nth k l 0) l) by (apply nth_In; lia).
    rewrite Forall_forall in Hx. specialize (Hx _ Hin). lia.
Qed.

(* ------------------------------------------------------------------ *)
(* chunks and slices                                                   *)
(* ------------------------------------------------------------------ *)
Section Chunks.
  Variable P : cfg.
  Hypothesis Hns : 1 <= c_ns P.
  Hypothesis Hsize : 1 <= c_size P.
  Set Default Proof Using "Hns Hsize".

  Lemma nchunks_spec : (nchunks P - 1) * c_size P < c_ns P <= nchunks P * c_size P /\ 1 <= nchunks P.
  Proof.
    unfold nchunks. pose proof (cdiv_spec (c_ns P) (c_size P) ltac:(lia)).
    pose proof (cdiv_pos (c_ns P) (c_size P) ltac:(lia) ltac:(lia)). lia.
  Qed.

  (* chunk boundaries: bound i = s0 i, bound (i+1) = s1 i *)
  Definition bound (i : Z) : Z := if i =? nchunks P then c_ns P else i * c_size P.

  Lemma s0_bound i : 0 <= i < nchunks P -> s0 P i = bound i.
  Proof. intros H. unfold bound, s0. destruct (i =? nchunks P) eqn:E; lia. Qed.

  Lemma s1_bound i : s1 P i = bound (i + 1).
  Proof.
    unfold bound, s1, s0.
    destruct (i =? nchunks P - 1) eqn:E; destruct (i + 1 =? nchunks P) eqn:E'; lia.
  Qed.

  Lemma bound_mono i : 0 <= i < nchunks P -> bound i <= bound (i + 1).
  Proof.
    intros H. pose proof nchunks_spec as Hn. unfold bound.
    destruct (i =? nchunks P) eqn:E; destruct (i + 1 =? nchunks P) eqn:E'; try nia.
  Qed.

  Lemma bound_range i : 0 <= i < nchunks P -> 0 <= bound i /\ bound i < bound (i + 1) /\ bound (i + 1) <= c_ns P.
  Proof.
    intros H. pose proof nchunks_spec as Hn. unfold bound.
    destruct (i =? nchunks P) eqn:E; destruct (i + 1 =? nchunks P) eqn:E'; try nia.
  Qed.

  Lemma slice_rows_bound tb i : 0 <= i < nchunks P ->
    slice_rows P tb i =
    firstn (ss (map r_sample tb) (bound (i + 1)) - ss (map r_sample tb) (bound i))
           (skipn (ss (map r_sample tb) (bound i)) tb).
  Proof. intros H. unfold slice_rows. now rewrite s1_bound, s0_bound. Qed.

  Lemma slices_concat tb k : (Z.of_nat k <= nchunks P) ->
    ss (map r_sample tb) (bound 0) = 0%nat ->
    concat (map (slice_rows P tb) (zrange k)) = firstn (ss (map r_sample tb) (bound (Z.of_nat k))) tb.
  Proof.
    intros Hk H0. induction k as [|k IH].
    - cbn. now rewrite H0.
    - rewrite zrange_S, map_app, concat_app, IH by lia. cbn [map concat]. rewrite app_nil_r.
      rewrite slice_rows_bound by lia.
      replace (Z.of_nat (S k)) with (Z.of_nat k + 1) by lia.
      pose proof (ss_mono (map r_sample tb) _ _ (bound_mono (Z.of_nat k) ltac:(lia))) as Hm.
      set (a := ss (map r_sample tb) (bound (Z.of_nat k))) in *.
      set (b := ss (map r_sample tb) (bound (Z.of_nat k + 1))) in *.
      pose proof (slice_app tb 0 a b ltac:(lia)) as Hs. cbn [skipn] in Hs.
      rewrite !Nat.sub_0_r in Hs. exact Hs.
  Qed.

  (* the searchsorted slices partition the rows of any table whose samples lie in [0, ns) *)
  Lemma slices_partition tb :
    Forall (fun r => 0 <= r_sample r < c_ns P) tb ->
    concat (map (slice_rows P tb) (zrange (Z.to_nat (nchunks P)))) = tb.
  Proof.
    intros Hr. pose proof nchunks_spec as Hn.
    rewrite slices_concat.
    - rewrite Z2Nat.id by lia. unfold bound. rewrite Z.eqb_refl.
      rewrite ss_all_lt.
      + rewrite map_length. apply firstn_all.
      + rewrite Forall_map. eapply Forall_impl; [|exact Hr]. cbn. lia.
    - lia.
    - apply ss_none. rewrite Forall_map. eapply Forall_impl; [|exact Hr]. cbn.
      intros r Hr'. unfold bound. destruct (0 =? nchunks P) eqn:E; lia.
  Qed.
End Chunks.
Set Default Proof Using "Type".

(* ------------------------------------------------------------------ *)
(* more list facts                                                     *)
(* ------------------------------------------------------------------ *)
Lemma zlen_nonneg {A} (l : list A) : 0 <= zlen l.
Proof. unfold zlen. lia. Qed.

Lemma nth_zrange n k : (k < n)%nat -> nth k (zrange n) 0 = Z.of_nat k.
Proof.
  intros H. unfold zrange. change 0 with (Z.of_nat 0). rewrite map_nth, seq_nth by lia. reflexivity.
Qed.

Lemma NoDup_zrange n : NoDup (zrange n).
Proof.
  unfold zrange. apply FinFun.Injective_map_NoDup; [|apply seq_NoDup].
  intros a b H. lia.
Qed.

Lemma skipn_cons_nth {A} (l : list A) k d : (k < length l)%nat -> skipn k l = nth k l d :: skipn (S k) l.
Proof.
  revert k. induction l as [|x l IH]; intros k H; cbn in H; [lia|].
  destruct k; [reflexivity|]. cbn [skipn nth]. apply IH. lia.
Qed.

Lemma nth_firstn_lt {A} (l : list A) n i d : (i < n)%nat -> nth i (firstn n l) d = nth i l d.
Proof.
  revert n i. induction l as [|x l IH]; intros n i H; [now rewrite firstn_nil|].
  destruct n; [lia|]. destruct i; [reflexivity|]. cbn. apply IH. lia.
Qed.

Lemma nth_skipn_add {A} (l : list A) q i d : nth i (skipn q l) d = nth (q + i) l d.
Proof.
  revert l. induction q as [|q IH]; intros l; [reflexivity|].
  destruct l as [|x l]; [now destruct i|]. cbn. apply IH.
Qed.

Lemma in_slice {A} (l : list A) p q r d : In r (firstn p (skipn q l)) ->
  exists k, (q <= k < q + p)%nat /\ (k < length l)%nat /\ nth k l d = r.
Proof.
  intros H. destruct (In_nth _ _ d H) as [j [Hj Hn]].
  rewrite firstn_length, skipn_length in Hj.
  exists (q + j)%nat. repeat split; try lia.
  rewrite <- Hn. rewrite nth_firstn_lt by lia. now rewrite nth_skipn_add.
Qed.

Lemma sequence_map_some {A B} (f : A -> option B) (g : A -> B) l :
  (forall x, In x l -> f x = Some (g x)) -> sequence (map f l) = Some (map g l).
Proof.
  induction l as [|x l IH]; intros H; cbn; [reflexivity|].
  rewrite (H x) by now left. rewrite IH; [reflexivity|]. intros y Hy. apply H. now right.
Qed.

Lemma sequence_some_length {A} (l : list (option A)) r : sequence l = Some r -> length r = length l.
Proof.
  revert r. induction l as [|[a|] l IH]; intros r H; cbn in H; try discriminate.
  - now inversion H.
  - destruct (sequence l); [|discriminate]. inversion H; subst. cbn. f_equal. now apply IH.
Qed.

(* ------------------------------------------------------------------ *)
(* one chunk job extracts the global window of each of its rows        *)
(* ------------------------------------------------------------------ *)
Section Window.
  Variable V : Type.
  Variable src : Z -> Z -> V.
  Variable P : cfg.
  Hypothesis Hns : 1 <= c_ns P.
  Hypothesis Hsize : 1 <= c_size P.
  Hypothesis Hto : 0 <= c_to P <= c_L P.
  Hypothesis Hts : c_to P <= c_size P \/ nchunks P = 1.
  Set Default Proof Using "Hns Hsize Hto Hts".

  (* a row of a valid spike: strictly inside the window margins, peak channel on the probe *)
  Definition valid_row (r : row) : Prop :=
    c_to P < r_sample r < c_ns P - (c_L P - c_to P) /\ 0 <= r_chan r < zlen (c_geom P).

  Lemma zlen_cidx : zlen (cidx P) = zlen (c_geom P).
  Proof.
    unfold cidx, channel_index, chans, zlen. cbv zeta. now rewrite map_length, zrange_length.
  Qed.

  Lemma chunk_geometry i : 0 <= i < nchunks P ->
    let off := chunk_offset P i in
    0 <= s0 P i - off /\ s0 P i - off <= c_ns P /\ s0 P i < s1 P i /\ s1 P i <= c_ns P /\
    s0 P i = i * c_size P /\ ((i = 0 /\ off = 0) \/ (1 <= i /\ off = c_to P)).
  Proof.
    intros Hi off. pose proof (bound_range P Hns Hsize i Hi) as Hb.
    rewrite <- (s0_bound P Hns Hsize i Hi), <- (s1_bound P Hns Hsize) in Hb.
    assert (Hs0 : s0 P i = i * c_size P) by reflexivity.
    unfold off, chunk_offset. destruct (i =? 0) eqn:E.
    - repeat split; try lia.
    - assert (c_to P <= i * c_size P) by (destruct Hts; [nia|lia]).
      repeat split; try lia.
  Qed.

  Lemma chunk_wf_window i r : 0 <= i < nchunks P -> valid_row r ->
    s0 P i <= r_sample r < s1 P i ->
    let off := chunk_offset P i in
    let a := py_start (c_ns P) (s0 P i - off) in
    let b := py_stop (c_ns P) (s1 P i + c_L P - c_to P) in
    let len := Z.max 0 (b - a) in
    chunk_wf V src P (cidx P) i a len r = Some (window V src P (r_sample r) (r_chan r)) /\
    (r_sample r + off - i * c_size P) + (c_L P - c_to P) < len.
  Proof.
    intros Hi [Hv Hc] Hs off a b len.
    destruct (chunk_geometry i Hi) as (Ha0 & Ha1 & Hlt & Hs1 & Hs0 & Hoff). fold off in Ha0, Ha1, Hoff.
    assert (Ea : a = s0 P i - off).
    { unfold a, py_start. destruct (s0 P i - off <? 0) eqn:E; lia. }
    assert (Eb : b = Z.min (s1 P i + c_L P - c_to P) (c_ns P)).
    { unfold b, py_stop. destruct (s1 P i + c_L P - c_to P <? 0) eqn:E; lia. }
    assert (Hlen : r_sample r - c_to P + c_L P < a + len /\ a + len = b) by (unfold len; lia).
    assert (Hq0 : a <= r_sample r - c_to P) by lia.
    split; [|lia].
    unfold chunk_wf, chan_row. fold off. rewrite zlen_cidx.
    assert (Ew : wrap_index (zlen (c_geom P)) (r_chan r) = Some (r_chan r)).
    { unfold wrap_index. assert (E : (0 <=? r_chan r) && (r_chan r <? zlen (c_geom P)) = true) by lia.
      now rewrite E. }
    rewrite Ew.
    rewrite (sequence_map_some _ (fun t => r_sample r - c_to P + t)).
    - reflexivity.
    - intros t Ht. apply in_zrange in Ht. rewrite Z2Nat.id in Ht by lia.
      unfold wrap_index.
      assert (E : (0 <=? r_sample r + off - i * c_size P + t - c_to P) &&
                  (r_sample r + off - i * c_size P + t - c_to P <? len) = true) by lia.
      rewrite E. cbn. f_equal. lia.
  Qed.

  Lemma slice_rows_in tb i r : StronglySorted Z.le (map r_sample tb) ->
    In r (slice_rows P tb i) -> In r tb /\ s0 P i <= r_sample r < s1 P i.
  Proof.
    intros Hs Hin. unfold slice_rows in Hin.
    destruct (in_slice _ _ _ _ drow Hin) as [k [Hk [Hkl Hn]]].
    set (sm := map r_sample tb) in *.
    assert (Esm : nth k sm 0 = r_sample r).
    { unfold sm. change 0 with (r_sample drow). rewrite map_nth. now rewrite Hn. }
    split; [rewrite <- Hn; apply nth_In; exact Hkl|].
    rewrite <- Esm. split.
    - assert (Hl : length sm = length tb) by (unfold sm; apply map_length).
      apply ss_suffix_ge; [exact Hs|]. lia.
    - apply ss_prefix_lt. lia.
  Qed.

  Lemma last_in {A} (l : list A) d : l <> [] -> In (last l d) l.
  Proof.
    induction l as [|x l IH]; intros H; [congruence|].
    destruct l as [|y l]; [now left|]. right. apply IH. discriminate.
  Qed.

  Definition canon_write (r : row) : Z * wf V :=
    (r_wfi r, window V src P (r_sample r) (r_chan r)).

  Lemma chunk_writes_canon tb i : 0 <= i < nchunks P ->
    StronglySorted Z.le (map r_sample tb) -> Forall valid_row tb ->
    chunk_writes V src P (cidx P) tb i = Some (map canon_write (slice_rows P tb i)).
  Proof.
    intros Hi Hs Hv. unfold chunk_writes.
    destruct (slice_rows P tb i) as [|r0 rows] eqn:Er; [reflexivity|].
    assert (Hrows : forall r, In r (r0 :: rows) -> valid_row r /\ s0 P i <= r_sample r < s1 P i).
    { intros r Hr. rewrite <- Er in Hr. destruct (slice_rows_in tb i r Hs Hr) as [Hin Hrg].
      split; [|exact Hrg]. rewrite Forall_forall in Hv. now apply Hv. }
    assert (Hne : r0 :: rows <> []) by discriminate.
    destruct (Hrows (last (r0 :: rows) drow) (last_in _ drow Hne)) as [Hlv Hls].
    destruct (chunk_wf_window i _ Hi Hlv Hls) as [_ Hass].
    apply Z.ltb_lt in Hass. rewrite Hass.
    apply sequence_map_some. intros r Hr. destruct (Hrows r Hr) as [Hrv Hrs].
    destruct (chunk_wf_window i r Hi Hrv Hrs) as [Hw _]. rewrite Hw. reflexivity.
  Qed.

  Lemma valid_rows_in_recording tb : Forall valid_row tb ->
    Forall (fun r => 0 <= r_sample r < c_ns P) tb.
  Proof. apply Forall_impl. intros r [Hv _]. lia. Qed.

  (* every job succeeds and together they write, for each table row, the window of that row *)
  Lemma all_writes_canon tb : StronglySorted Z.le (map r_sample tb) -> Forall valid_row tb ->
    all_writes V src P (cidx P) tb = Some (map canon_write tb).
  Proof.
    intros Hs Hv. unfold all_writes, job_writes.
    rewrite (sequence_map_some _ (fun i => map canon_write (slice_rows P tb i))).
    - cbn [option_map]. f_equal.
      rewrite <- (map_map (slice_rows P tb) (map canon_write)), <- concat_map.
      f_equal. apply slices_partition; auto. now apply valid_rows_in_recording.
    - intros i Hi. apply in_zrange in Hi. pose proof (nchunks_spec P Hns Hsize).
      rewrite Z2Nat.id in Hi by lia. now apply chunk_writes_canon.
  Qed.
End Window.
Set Default Proof Using "Type".

(* ------------------------------------------------------------------ *)
(* the memmap: writes to distinct rows commute                         *)
(* ------------------------------------------------------------------ *)
Section Memory.
  Variable V : Type.
  Notation key := (fun e : Z * wf V => Z.to_nat (fst e)).

  Lemma upd_length {A} (l : list A) k x : length (upd l k x) = length l.
  Proof. revert k. induction l as [|y l IH]; intros [|k]; cbn; auto. Qed.

  Lemma upd_nth_same {A} (l : list A) k x d : (k < length l)%nat -> nth k (upd l k x) d = x.
  Proof. revert k. induction l as [|y l IH]; intros [|k] H; cbn in *; try lia; auto. apply IH. lia. Qed.

  Lemma upd_nth_other {A} (l : list A) k k' x d : k <> k' -> nth k' (upd l k x) d = nth k' l d.
  Proof.
    revert k k'. induction l as [|y l IH]; intros [|k] [|k'] H; cbn; auto; try congruence.
  Qed.

  Lemma aw_length (ws : list (Z * wf V)) m : length (apply_writes V ws m) = length m.
  Proof.
    revert m. induction ws as [|e ws IH]; intros m; cbn; [reflexivity|].
    unfold apply_writes in IH. rewrite IH. apply upd_length.
  Qed.

  Lemma aw_nth_notin (ws : list (Z * wf V)) m k : ~ In k (map key ws) ->
    nth k (apply_writes V ws m) None = nth k m None.
  Proof.
    revert m. induction ws as [|e ws IH]; intros m H; cbn; [reflexivity|].
    cbn in H. unfold apply_writes in IH. rewrite IH by tauto.
    apply upd_nth_other. tauto.
  Qed.

  Lemma aw_nth_in (ws : list (Z * wf V)) m e : NoDup (map key ws) -> In e ws ->
    (key e < length m)%nat -> nth (key e) (apply_writes V ws m) None = Some (snd e).
  Proof.
    revert m. induction ws as [|e0 ws IH]; intros m Hnd Hin Hk; [contradiction|].
    cbn [map] in Hnd. inversion Hnd as [|? ? Hn0 Hnd']; subst.
    change (apply_writes V (e0 :: ws) m) with (apply_writes V ws (upd m (key e0) (Some (snd e0)))).
    destruct Hin as [->|Hin].
    - rewrite aw_nth_notin by exact Hn0. now apply upd_nth_same.
    - apply IH; auto. now rewrite upd_length.
  Qed.

  (* any schedule (permutation) of the same writes to distinct rows gives the same memmap *)
  Lemma writes_commute (ws sched : list (Z * wf V)) m : NoDup (map key ws) ->
    Permutation sched ws -> apply_writes V sched m = apply_writes V ws m.
  Proof.
    intros Hnd Hp.
    assert (Hnd' : NoDup (map key sched)).
    { eapply Permutation_NoDup; [|exact Hnd]. apply Permutation_map. now symmetry. }
    apply nth_ext with (d := None) (d' := None); [now rewrite !aw_length|].
    intros k Hk. rewrite aw_length in Hk.
    destruct (in_dec Nat.eq_dec k (map key ws)) as [Hin|Hnin].
    - apply in_map_iff in Hin. destruct Hin as [e [<- He]].
      rewrite (aw_nth_in ws m e Hnd He Hk).
      apply aw_nth_in; auto. eapply Permutation_in; [symmetry; exact Hp|exact He].
    - rewrite (aw_nth_notin ws m k Hnin). apply aw_nth_notin.
      intros Hin. apply Hnin. eapply Permutation_in; [|exact Hin]. now apply Permutation_map.
  Qed.
End Memory.

(* ------------------------------------------------------------------ *)
(* insertion sort                                                      *)
(* ------------------------------------------------------------------ *)
Section Sort.
  Context {A : Type} (leb : A -> A -> bool).
  Notation R := (fun a b => leb a b = true).

  Lemma insert_perm x l : Permutation (insert leb x l) (x :: l).
  Proof.
    induction l as [|y l IH]; cbn; [reflexivity|].
    destruct (leb x y); [reflexivity|]. rewrite IH. apply perm_swap.
  Qed.

  Lemma isort_perm l : Permutation (isort leb l) l.
  Proof.
    induction l as [|x l IH]; cbn; [reflexivity|].
    rewrite insert_perm. now constructor.
  Qed.

  Hypothesis total : forall a b, leb a b = true \/ leb b a = true.
  Hypothesis trans : forall a b c, leb a b = true -> leb b c = true -> leb a c = true.

  Lemma insert_hdrel a x l : R a x -> HdRel R a l -> HdRel R a (insert leb x l).
  Proof.
    intros Hax H. destruct l as [|y l]; cbn; [now constructor|].
    destruct (leb x y); constructor; auto. now inversion H.
  Qed.

  Lemma insert_sorted x l : Sorted R l -> Sorted R (insert leb x l).
  Proof using total.
    induction 1 as [|a l Hs IH Hd]; cbn; [repeat constructor|].
    destruct (leb x a) eqn:E.
    - constructor; [now constructor|now constructor].
    - constructor; [exact IH|]. apply insert_hdrel; auto.
      destruct (total x a); congruence.
  Qed.

  Lemma isort_sorted l : StronglySorted R (isort leb l).
  Proof using total trans.
    apply Sorted_StronglySorted.
    - intros a b c. apply trans.
    - induction l as [|x l IH]; cbn; [constructor|]. now apply insert_sorted.
  Qed.
End Sort.

Lemma StronglySorted_impl {A} (R R' : A -> A -> Prop) l :
  (forall a b, In a l -> In b l -> R a b -> R' a b) -> StronglySorted R l -> StronglySorted R' l.
Proof.
  intros H Hs. induction Hs as [|x l Hs IH Hx]; constructor.
  - apply IH. intros a b Ha Hb. apply H; now right.
  - rewrite Forall_forall in *. intros b Hb. apply H; [now left|now right|now apply Hx].
Qed.

Lemma zsort_sorted l : StronglySorted Z.le (isort Z.leb l).
Proof.
  eapply StronglySorted_impl; [|apply isort_sorted].
  - intros a b _ _ H. now apply Z.leb_le.
  - intros a b. lia.
  - intros a b c. lia.
Qed.

Lemma StronglySorted_filter {A} (R : A -> A -> Prop) f l :
  StronglySorted R l -> StronglySorted R (filter f l).
Proof.
  induction 1 as [|x l Hs IH Hx]; cbn; [constructor|].
  destruct (f x); [|exact IH]. constructor; [exact IH|].
  rewrite Forall_forall in *. intros b Hb. apply filter_In in Hb. now apply Hx.
Qed.

Lemma Permutation_filter {A} (f : A -> bool) l l' :
  Permutation l l' -> Permutation (filter f l) (filter f l').
Proof.
  induction 1 as [|x l l' Hp IH|x y l|l l' l'' H1 IH1 H2 IH2]; cbn.
  - constructor.
  - destruct (f x); [now constructor|exact IH].
  - destruct (f x), (f y); try reflexivity. apply perm_swap.
  - now rewrite IH1.
Qed.

(* a strictly increasing list of m integers from [0, m) is 0, 1, ..., m-1 *)
Lemma ssorted_gap W : StronglySorted Z.lt W -> forall i j, (i <= j < length W)%nat ->
  nth i W 0 + Z.of_nat (j - i) <= nth j W 0.
Proof.
  induction 1 as [|x W Hs IH Hx]; intros i j Hij; cbn in Hij; [lia|].
  destruct i as [|i], j as [|j]; cbn [nth]; try lia.
  - assert (Hin : In (nth 0 W 0) W) by (apply nth_In; lia).
    rewrite Forall_forall in Hx. specialize (Hx _ Hin).
    specialize (IH 0%nat j ltac:(lia)). lia.
  - specialize (IH i j ltac:(lia)). replace (S j - S i)%nat with (j - i)%nat by lia. exact IH.
Qed.

Lemma ssorted_range_id W : StronglySorted Z.lt W ->
  Forall (fun w => 0 <= w < Z.of_nat (length W)) W ->
  forall r, (r < length W)%nat -> nth r W 0 = Z.of_nat r.
Proof.
  intros Hs Hr r Hlt. rewrite Forall_forall in Hr.
  pose proof (ssorted_gap W Hs 0%nat r ltac:(lia)) as H1.
  pose proof (ssorted_gap W Hs r (length W - 1)%nat ltac:(lia)) as H2.
  assert (H0 : 0 <= nth 0 W 0) by (apply Hr, nth_In; lia).
  assert (Hl : nth (length W - 1) W 0 < Z.of_nat (length W)) by (apply Hr, nth_In; lia).
  lia.
Qed.

(* ------------------------------------------------------------------ *)
(* the table as a function of the list of selected spikes              *)
(* ------------------------------------------------------------------ *)
Definition mk_table (l : list (Z * Z * Z)) : list row :=
  let cl := map sp_cluster l in
  map (fun e => mkRow (fst e) (sp_sample (snd e)) (sp_cluster (snd e)) (sp_chan (snd e))
                      (wfi_of cl (fst e))) (enumerate l).

Lemma combine_map_r {A B C} (f : B -> C) (a : list A) (b : list B) :
  combine a (map f b) = map (fun e => (fst e, f (snd e))) (combine a b).
Proof.
  revert b. induction a as [|x a IH]; intros [|y b]; cbn; auto. now rewrite IH.
Qed.

Lemma enumerate_map {A B} (f : A -> B) l :
  enumerate (map f l) = map (fun e => (fst e, f (snd e))) (enumerate l).
Proof. unfold enumerate. now rewrite map_length, combine_map_r. Qed.

Lemma enumerate_length {A} (l : list A) : length (enumerate l) = length l.
Proof. unfold enumerate. rewrite combine_length, zrange_length. lia. Qed.

Lemma enumerate_nth {A} (l : list A) k d : (k < length l)%nat ->
  nth k (enumerate l) (0, d) = (Z.of_nat k, nth k l d).
Proof.
  intros H. unfold enumerate. rewrite combine_nth by now rewrite zrange_length.
  now rewrite nth_zrange.
Qed.

Lemma enumerate_in {A} (l : list A) p x d : In (p, x) (enumerate l) ->
  0 <= p < zlen l /\ x = nth (Z.to_nat p) l d.
Proof.
  intros H. destruct (In_nth _ _ (0, d) H) as [k [Hk Hn]].
  rewrite enumerate_length in Hk. rewrite enumerate_nth in Hn by exact Hk.
  inversion Hn; subst. unfold zlen. rewrite Nat2Z.id. split; [lia|reflexivity].
Qed.

Lemma enumerate_in_conv {A} (l : list A) p d : 0 <= p < zlen l ->
  In (p, nth (Z.to_nat p) l d) (enumerate l).
Proof.
  intros H. unfold zlen in H.
  replace (p, nth (Z.to_nat p) l d) with (nth (Z.to_nat p) (enumerate l) (0, d)).
  - apply nth_In. rewrite enumerate_length. lia.
  - rewrite enumerate_nth by lia. f_equal. lia.
Qed.

Lemma map_fst_combine {A B} (a : list A) (b : list B) : length a = length b -> map fst (combine a b) = a.
Proof.
  revert b. induction a as [|x a IH]; intros [|y b] H; cbn in *; try lia; auto. f_equal. apply IH. lia.
Qed.

Lemma map_snd_combine {A B} (a : list A) (b : list B) : length a = length b -> map snd (combine a b) = b.
Proof.
  revert b. induction a as [|x a IH]; intros [|y b] H; cbn in *; try lia; auto. f_equal. apply IH. lia.
Qed.

Lemma mk_table_length l : length (mk_table l) = length l.
Proof. unfold mk_table. cbv zeta. now rewrite map_length, enumerate_length. Qed.

Lemma nth_map' {A B} (f : A -> B) l k d d' : (k < length l)%nat -> nth k (map f l) d' = f (nth k l d).
Proof.
  intros H. rewrite nth_indep with (d' := f d) by (rewrite map_length; lia). apply map_nth.
Qed.

Lemma mk_table_nth l k : (k < length l)%nat ->
  nth k (mk_table l) drow =
  let x := nth k l dspike in
  mkRow (Z.of_nat k) (sp_sample x) (sp_cluster x) (sp_chan x) (wfi_of (map sp_cluster l) (Z.of_nat k)).
Proof.
  intros H. unfold mk_table. cbv zeta.
  rewrite (nth_map' _ _ _ (0, dspike)) by now rewrite enumerate_length.
  rewrite enumerate_nth by exact H. reflexivity.
Qed.

Lemma mk_table_in l r : In r (mk_table l) ->
  exists k, (k < length l)%nat /\ r = nth k (mk_table l) drow.
Proof.
  intros H. destruct (In_nth _ _ drow H) as [k [Hk Hn]]. rewrite mk_table_length in Hk.
  exists k. split; [exact Hk|now symmetry].
Qed.

(* counting *)
Lemma count_if_app f a b : count_if f (a ++ b) = count_if f a + count_if f b.
Proof. unfold count_if, zlen. rewrite filter_app, app_length. lia. Qed.

Lemma count_if_nonneg f l : 0 <= count_if f l.
Proof. unfold count_if. apply zlen_nonneg. Qed.

Lemma count_if_cons f x l : count_if f (x :: l) = (if f x then 1 else 0) + count_if f l.
Proof. unfold count_if, zlen. cbn. destruct (f x); cbn [length]; lia. Qed.

Lemma count_lt_eq_le c c' l : c < c' ->
  count_if (fun x => x <? c) l + count_if (fun x => x =? c) l <= count_if (fun x => x <? c') l.
Proof.
  intros H. induction l as [|x l IH]; [cbn; lia|]. rewrite !count_if_cons.
  destruct (x <? c) eqn:E1, (x =? c) eqn:E2, (x <? c') eqn:E3; lia.
Qed.

Lemma count_lt_eq_len c l :
  count_if (fun x => x <? c) l + count_if (fun x => x =? c) l <= zlen l.
Proof.
  induction l as [|x l IH]; [cbn; lia|]. rewrite !count_if_cons. unfold zlen in *. cbn [length].
  destruct (x <? c) eqn:E1, (x =? c) eqn:E2; lia.
Qed.

(* position k holds c: strictly fewer c's before k than before any later position / in total *)
Lemma count_eq_prefix_lt c l k k' : (k < k' <= length l)%nat -> nth k l 0 = c ->
  count_if (fun x => x =? c) (firstn k l) < count_if (fun x => x =? c) (firstn k' l).
Proof.
  intros Hk Hc. replace k' with (k + (k' - k))%nat by lia.
  rewrite <- firstn_skipn_app, count_if_app.
  rewrite (skipn_cons_nth l k 0) by lia.
  destruct (k' - k)%nat as [|d] eqn:E; [lia|]. cbn [firstn]. rewrite count_if_cons, Hc, Z.eqb_refl.
  pose proof (count_if_nonneg (fun x => x =? c) (firstn d (skipn (S k) l))). lia.
Qed.

Lemma count_eq_prefix_total c l k : (k < length l)%nat -> nth k l 0 = c ->
  count_if (fun x => x =? c) (firstn k l) < count_if (fun x => x =? c) l.
Proof.
  intros Hk Hc. pose proof (count_eq_prefix_lt c l k (length l) ltac:(lia) Hc) as H.
  now rewrite firstn_all in H.
Qed.

Lemma count_eq_prefix_le c l k : count_if (fun x => x =? c) (firstn k l) <= count_if (fun x => x =? c) l.
Proof.
  rewrite <- (firstn_skipn k l) at 2. rewrite count_if_app.
  pose proof (count_if_nonneg (fun x => x =? c) (skipn k l)). lia.
Qed.

Section Rank.
  Variable cl : list Z.
  Notation wfi k := (wfi_of cl (Z.of_nat k)).

  Lemma wfi_unfold k : wfi k = count_if (fun x => x <? nth k cl 0) cl +
                               count_if (fun x => x =? nth k cl 0) (firstn k cl).
  Proof. unfold wfi_of, znth. now rewrite Nat2Z.id. Qed.

  Lemma wfi_range k : (k < length cl)%nat -> 0 <= wfi k < zlen cl.
  Proof.
    intros H. rewrite wfi_unfold.
    pose proof (count_eq_prefix_total _ cl k H eq_refl).
    pose proof (count_lt_eq_len (nth k cl 0) cl).
    pose proof (count_if_nonneg (fun x => x <? nth k cl 0) cl).
    pose proof (count_if_nonneg (fun x => x =? nth k cl 0) (firstn k cl)). lia.
  Qed.

  Lemma wfi_lt_cluster k k' : (k < length cl)%nat -> (k' < length cl)%nat ->
    nth k cl 0 < nth k' cl 0 -> wfi k < wfi k'.
  Proof.
    intros Hk Hk' Hc. rewrite !wfi_unfold.
    pose proof (count_eq_prefix_total _ cl k Hk eq_refl).
    pose proof (count_lt_eq_le _ _ cl Hc).
    pose proof (count_if_nonneg (fun x => x =? nth k' cl 0) (firstn k' cl)). lia.
  Qed.

  Lemma wfi_lt_pos k k' : (k < k' < length cl)%nat -> nth k cl 0 = nth k' cl 0 -> wfi k < wfi k'.
  Proof.
    intros Hk Hc. rewrite !wfi_unfold. rewrite <- Hc.
    pose proof (count_eq_prefix_lt _ cl k k' ltac:(lia) eq_refl). lia.
  Qed.
End Rank.

Lemma row_leb_total a b : row_leb a b = true \/ row_leb b a = true.
Proof.
  unfold row_leb.
  destruct (r_cluster a <? r_cluster b) eqn:E1, (r_cluster b <? r_cluster a) eqn:E2,
           (r_sample a <? r_sample b) eqn:E3, (r_sample b <? r_sample a) eqn:E4; lia.
Qed.

Lemma row_leb_trans a b c : row_leb a b = true -> row_leb b c = true -> row_leb a c = true.
Proof.
  unfold row_leb.
  destruct (r_cluster a <? r_cluster b) eqn:E1, (r_cluster b <? r_cluster a) eqn:E2,
           (r_sample a <? r_sample b) eqn:E3, (r_sample b <? r_sample a) eqn:E4,
           (r_cluster b <? r_cluster c) eqn:E5, (r_cluster c <? r_cluster b) eqn:E6,
           (r_sample b <? r_sample c) eqn:E7, (r_sample c <? r_sample b) eqn:E8,
           (r_cluster a <? r_cluster c) eqn:E9, (r_cluster c <? r_cluster a) eqn:E10,
           (r_sample a <? r_sample c) eqn:E11, (r_sample c <? r_sample a) eqn:E12; lia.
Qed.

Lemma sorted_le_nth sm : StronglySorted Z.le sm -> forall i j, (i <= j < length sm)%nat ->
  nth i sm 0 <= nth j sm 0.
Proof.
  induction 1 as [|x sm Hs IH Hx]; intros i j Hij; cbn in Hij; [lia|].
  destruct i as [|i], j as [|j]; cbn [nth]; try lia.
  - rewrite Forall_forall in Hx. apply Hx, nth_In. lia.
  - apply IH. lia.
Qed.

(* ------------------------------------------------------------------ *)
(* after the final sort, row r has waveform_index r                    *)
(* ------------------------------------------------------------------ *)
Section SortedTable.
  Variable l : list (Z * Z * Z).
  Hypothesis Hasc : StronglySorted Z.le (map sp_sample l).
  Set Default Proof Using "Hasc".
  Notation T := (mk_table l).
  Notation cl := (map sp_cluster l).

  Lemma cl_nth k : (k < length l)%nat -> nth k cl 0 = sp_cluster (nth k l dspike).
  Proof. intros H. now apply nth_map'. Qed.

  Lemma row_order k k' : (k < length l)%nat -> (k' < length l)%nat -> k <> k' ->
    row_leb (nth k T drow) (nth k' T drow) = true ->
    r_wfi (nth k T drow) < r_wfi (nth k' T drow).
  Proof.
    intros Hk Hk' Hne. rewrite !mk_table_nth by assumption. cbv zeta.
    unfold row_leb. cbn [r_cluster r_sample r_index r_wfi].
    pose proof (cl_nth k Hk) as Ec. pose proof (cl_nth k' Hk') as Ec'.
    assert (Hs : forall i j, (i <= j < length l)%nat ->
                 sp_sample (nth i l dspike) <= sp_sample (nth j l dspike)).
    { intros i j Hij. pose proof (sorted_le_nth _ Hasc i j) as H.
      rewrite map_length in H. specialize (H Hij).
      rewrite !(nth_map' sp_sample l _ dspike 0) in H by lia. exact H. }
    assert (Hl : length cl = length l) by apply map_length.
    destruct (sp_cluster (nth k l dspike) <? sp_cluster (nth k' l dspike)) eqn:E1.
    - intros _. apply wfi_lt_cluster; lia.
    - destruct (sp_cluster (nth k' l dspike) <? sp_cluster (nth k l dspike)) eqn:E2; [discriminate|].
      assert (Hkk : (k < k')%nat -> wfi_of cl (Z.of_nat k) < wfi_of cl (Z.of_nat k')).
      { intros Hlt. apply wfi_lt_pos; lia. }
      destruct (sp_sample (nth k l dspike) <? sp_sample (nth k' l dspike)) eqn:E3.
      + intros _. apply Hkk. destruct (Nat.lt_ge_cases k k') as [|Hge]; [assumption|].
        specialize (Hs k' k ltac:(lia)). lia.
      + destruct (sp_sample (nth k' l dspike) <? sp_sample (nth k l dspike)) eqn:E4; [discriminate|].
        intros Hi. apply Hkk. lia.
  Qed.

  Lemma mk_table_index : map r_index T = zrange (length l).
  Proof.
    unfold mk_table. cbv zeta. rewrite map_map. cbn [r_index].
    unfold enumerate. apply map_fst_combine. now rewrite zrange_length.
  Qed.

  Lemma row_index_nth k : (k < length l)%nat -> r_index (nth k T drow) = Z.of_nat k.
  Proof. intros H. now rewrite mk_table_nth. Qed.

  Lemma sorted_wfi_increasing S : StronglySorted (fun a b => row_leb a b = true) S ->
    (forall x, In x S -> In x T) -> NoDup (map r_index S) ->
    StronglySorted Z.lt (map r_wfi S).
  Proof.
    induction 1 as [|a S Hs IH Ha]; intros Hin Hnd; cbn; [constructor|].
    cbn in Hnd. inversion Hnd as [|? ? Hna Hnd']; subst.
    constructor; [apply IH; auto; intros x Hx; apply Hin; now right|].
    rewrite Forall_forall. intros w Hw. apply in_map_iff in Hw. destruct Hw as [b [<- Hb]].
    rewrite Forall_forall in Ha. specialize (Ha b Hb).
    destruct (mk_table_in l a (Hin a (or_introl eq_refl))) as [k [Hk Ea]].
    destruct (mk_table_in l b (Hin b (or_intror Hb))) as [k' [Hk' Eb]].
    assert (Hne : k <> k').
    { intros ->. apply Hna. apply in_map_iff. exists b. split; [congruence|exact Hb]. }
    rewrite Ea, Eb in Ha |- *. apply row_order; auto.
  Qed.

  Lemma sorted_wfi_id r : (r < length l)%nat ->
    r_wfi (nth r (isort row_leb T) drow) = Z.of_nat r.
  Proof.
    intros Hr. set (S := isort row_leb T).
    assert (Hp : Permutation S T) by apply isort_perm.
    assert (Hlen : length S = length l).
    { rewrite (Permutation_length Hp). apply mk_table_length. }
    assert (Hss : StronglySorted Z.lt (map r_wfi S)).
    { apply sorted_wfi_increasing.
      - apply isort_sorted; [apply row_leb_total|apply row_leb_trans].
      - intros x Hx. eapply Permutation_in; eauto.
      - eapply Permutation_NoDup; [apply Permutation_map; symmetry; exact Hp|].
        rewrite mk_table_index. apply NoDup_zrange. }
    rewrite <- (nth_map' r_wfi S r drow 0) by lia.
    apply ssorted_range_id; [exact Hss| |rewrite map_length; lia].
    rewrite map_length, Hlen, Forall_map, Forall_forall. intros x Hx.
    assert (HxT : In x T) by (eapply Permutation_in; eauto).
    destruct (mk_table_in l x HxT) as [k [Hk ->]]. rewrite mk_table_nth by exact Hk. cbv zeta. cbn [r_wfi].
    pose proof (wfi_range cl k) as Hw. unfold zlen in Hw. rewrite map_length in Hw. now apply Hw.
  Qed.

  (* distinct rows get distinct waveform indices: the keys of the writes are pairwise different *)
  Lemma mk_table_wfi_nodup : NoDup (map (fun r => Z.to_nat (r_wfi r)) T).
  Proof.
    set (S := isort row_leb T).
    assert (Hp : Permutation S T) by apply isort_perm.
    eapply Permutation_NoDup; [apply Permutation_map; exact Hp|].
    assert (Hlen : length S = length l).
    { rewrite (Permutation_length Hp). apply mk_table_length. }
    assert (E : map (fun r => Z.to_nat (r_wfi r)) S = seq 0 (length l)).
    { apply nth_ext with (d := O) (d' := O); [now rewrite map_length, seq_length|].
      intros n Hn. rewrite map_length in Hn.
      rewrite (nth_map' _ S n drow) by exact Hn. unfold S. rewrite sorted_wfi_id by lia.
      rewrite seq_nth by lia. lia. }
    rewrite E. apply seq_NoDup.
  Qed.
End SortedTable.
Set Default Proof Using "Type".
