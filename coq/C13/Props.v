(* C13 — property theorems.  Only statements closed by `exact <lemma>` (or a
   short intros/exact wrapper) and the Print Assumptions that the check collects.

   Common hypotheses (the guards under which the Python code is used):
     1 <= ns, 1 <= chunk size, 0 <= trough_offset <= spike_length_samples,
     trough_offset <= chunk size (or a single chunk), spike train sorted by time,
     0 <= max_wf, peak channels on the probe, and `choose` (rng.choice) returns
     k distinct members of its candidates.  V (sample values) and src (the
     recording) are arbitrary. *)
From Coq Require Import ZArith List Bool Lia Permutation Sorted.
From IBL.lib Require Import PyInt.
From IBL.C13 Require Import Model Proofs.
Import ListNotations.
Open Scope Z_scope.

Definition choose_ok (choose : Z -> list Z -> Z -> list Z) : Prop :=
  forall i a k, 0 <= k <= zlen a -> NoDup a ->
    length (choose i a k) = Z.to_nat k /\ NoDup (choose i a k) /\ incl (choose i a k) a.

Definition guards (P : cfg) : Prop :=
  1 <= c_ns P /\ 1 <= c_size P /\ 0 <= c_to P <= c_L P /\
  (c_to P <= c_size P \/ nchunks P = 1) /\
  StronglySorted Z.le (map sp_sample (c_spikes P)) /\ 0 <= c_maxwf P /\
  Forall (fun s => 0 <= sp_chan s < zlen (c_geom P)) (c_spikes P).

(* make_channel_index: row c lists, in ascending order, exactly the channels whose
   squared distance to c is within the squared radius, then pad_val, and every
   row has n_nbors columns — any geometry, radius, pad value. *)
Theorem C13_channel_index_rows : forall g r2n r2d padv c, 0 <= c < zlen g ->
  let row := znth [] (channel_index g r2n r2d padv) c in
  let nb := nbr_row g r2n r2d c in
  row = nb ++ repeat padv (Z.to_nat (n_nbors g r2n r2d - zlen nb)) /\
  zlen row = n_nbors g r2n r2d /\
  StronglySorted Z.lt nb /\
  (forall j, In j nb <-> 0 <= j < zlen g /\
     dist2 (znth (0, 0) g c) (znth (0, 0) g j) * r2d <= r2n).
Proof. exact channel_index_row. Qed.
Print Assumptions C13_channel_index_rows.

(* The searchsorted slices of the chunks [s0_i, s1_i) partition the rows of the
   table (every row goes to exactly one chunk job, in order), for every
   recording length and chunk size. *)
Theorem C13_chunks_partition_rows : forall (P : cfg) (tb : list row),
  1 <= c_ns P -> 1 <= c_size P ->
  Forall (fun r => 0 <= r_sample r < c_ns P) tb ->
  concat (map (slice_rows P tb) (zrange (Z.to_nat (nchunks P)))) = tb.
Proof. intros P tb H1 H2. exact (slices_partition P H1 H2 tb). Qed.
Print Assumptions C13_chunks_partition_rows.

(* Different table rows are written to different memmap rows (waveform_index is
   injective), so the row sets written by different chunk jobs are disjoint. *)
Theorem C13_write_rows_distinct : forall choose P, guards P -> choose_ok choose ->
  NoDup (map (fun r => Z.to_nat (r_wfi r)) (table choose P)) /\
  Forall (fun r => 0 <= r_wfi r < zlen (table choose P)) (table choose P).
Proof.
  intros choose P (H1 & H2 & H3 & H4 & H5 & H6 & H7) Hc. split.
  - pose proof (table_keys_nodup unit (fun _ _ => tt) choose P H1 H2 H3 H4 H5 Hc H6 H7) as H.
    rewrite map_map in H. exact H.
  - rewrite Forall_forall. intros r Hr.
    pose proof (sorted_perm choose P H1 H2 H3 H4 H5 Hc H6 H7) as Hp.
    apply (Permutation_in _ (Permutation_sym Hp)) in Hr.
    destruct (In_nth _ _ drow Hr) as [k [Hk <-]]. rewrite (Permutation_length Hp) in Hk.
    rewrite (sorted_row_wfi choose P H1 H2 H3 H4 H5 Hc H6 H7 k Hk).
    unfold zlen. lia.
Qed.
Print Assumptions C13_write_rows_distinct.

(* Window correctness and row agreement.  No job raises; after the final sort
   row r of the table has waveform_index = r, is a spike strictly inside the
   margins with its peak on the probe, and row r of the traces is the window of
   that spike: cell (j, t) = source[nbr(peak)[j]][sample - trough_offset + t],
   NaN (None) where the neighbour is the pad value nc; the sample index read is
   inside the recording. *)
Theorem C13_window_correct : forall V (src : Z -> Z -> V) choose P, guards P -> choose_ok choose ->
  forall r, (r < length (table choose P))%nat ->
  exists mem, traces V src choose P = Some mem /\ length mem = length (table choose P) /\
    let row := nth r (sorted_table choose P) drow in
    r_wfi row = Z.of_nat r /\
    c_to P < r_sample row < c_ns P - (c_L P - c_to P) /\ 0 <= r_chan row < zlen (c_geom P) /\
    exists w, nth r mem None = Some w /\
      forall j t, (j < length (znth [] (cidx P) (r_chan row)))%nat -> 0 <= t < c_L P ->
        0 <= r_sample row - c_to P + t < c_ns P /\
        nth (Z.to_nat t) (nth j w []) None =
        let ch := nth j (znth [] (cidx P) (r_chan row)) 0 in
        if ch =? c_nc P then None else Some (src ch (r_sample row - c_to P + t)).
Proof.
  intros V src choose P (H1 & H2 & H3 & H4 & H5 & H6 & H7) Hc r Hr.
  destruct (traces_row V src choose P H1 H2 H3 H4 H5 Hc H6 H7 r Hr) as [mem [Ht [Hl [Hw [[Hv Hch] Hn]]]]].
  exists mem. split; [exact Ht|]. split; [exact Hl|]. cbv zeta.
  split; [exact Hw|]. split; [exact Hv|]. split; [exact Hch|].
  eexists. split; [exact Hn|]. intros j t Hj Htt. split; [lia|].
  now apply window_cell.
Qed.
Print Assumptions C13_window_correct.

(* The public array-level function extract_wfs_array (arr with ns columns, NaN row at index nc,
   channel table of the geometry): for spikes whose window [sample - to, sample - to + L) lies in
   the array (the last one strictly, as the source asserts) it does not raise and waveform w is the
   window of spike w; with window_cell: cell (w, j, t) = arr[nbr(peak_w)[j]][sample_w - to + t],
   NaN where the neighbour is the NaN-row index. *)
Theorem C13_extract_array_window : forall V (src : Z -> Z -> V) P ns rows,
  rows <> [] -> 0 <= c_to P <= c_L P ->
  (forall r, In r rows -> c_to P <= r_sample r /\ r_sample r + (c_L P - c_to P) <= ns /\
                          0 <= r_chan r < zlen (c_geom P)) ->
  r_sample (last rows drow) + (c_L P - c_to P) < ns ->
  extract_array V src P (cidx P) ns rows = Some (map (fun r => window V src P (r_sample r) (r_chan r)) rows) /\
  forall r j t, In r rows -> (j < length (znth [] (cidx P) (r_chan r)))%nat -> 0 <= t < c_L P ->
    nth (Z.to_nat t) (nth j (window V src P (r_sample r) (r_chan r)) []) None =
    let ch := nth j (znth [] (cidx P) (r_chan r)) 0 in
    if ch =? c_nc P then None else Some (src ch (r_sample r - c_to P + t)).
Proof.
  intros V src P ns rows H1 H2 H3 H4. split; [now apply extract_array_window|].
  intros r j t _ Hj Ht. now apply window_cell.
Qed.
Print Assumptions C13_extract_array_window.

(* The final file is the same for every order / interleaving of the individual
   row writes of all chunk jobs (hence for every n_jobs). *)
Theorem C13_writes_commute : forall V (src : Z -> Z -> V) choose P, guards P -> choose_ok choose ->
  forall sched, Permutation sched (map (canon_write V src P) (table choose P)) ->
  Some (apply_writes V sched (mem0 V (table choose P))) = traces V src choose P.
Proof.
  intros V src choose P (H1 & H2 & H3 & H4 & H5 & H6 & H7) Hc sched.
  exact (schedule_independent V src choose P H1 H2 H3 H4 H5 Hc H6 H7 sched).
Qed.
Print Assumptions C13_writes_commute.

(* ... and for every chunk size >= trough_offset (the table does not depend on it). *)
Theorem C13_chunk_size_independent : forall V (src : Z -> Z -> V) choose P sz sz',
  1 <= c_ns P -> 0 <= c_to P <= c_L P -> 1 <= sz -> 1 <= sz' -> c_to P <= sz -> c_to P <= sz' ->
  StronglySorted Z.le (map sp_sample (c_spikes P)) -> choose_ok choose ->
  0 <= c_maxwf P -> Forall (fun s => 0 <= sp_chan s < zlen (c_geom P)) (c_spikes P) ->
  traces V src choose (set_size P sz) = traces V src choose (set_size P sz') /\
  table choose (set_size P sz) = table choose (set_size P sz').
Proof.
  intros V src choose P sz sz' H1 H2 H3 H4 H5 H6 H7 H8 H9 H10. split; [|reflexivity].
  exact (chunk_size_independent V src choose P sz sz' H1 H2 H3 H4 H5 H6 H7 H8 H9 H10).
Qed.
Print Assumptions C13_chunk_size_independent.

(* The channel-map file: row r is the neighbourhood of the peak channel of table row r. *)
Theorem C13_chan_map_rows : forall choose P, guards P -> choose_ok choose ->
  zlen (c_geom P) <= 32768 ->
  chan_map choose P = Some (map (fun r => znth [] (cidx P) (r_chan r)) (sorted_table choose P)).
Proof.
  intros choose P (H1 & H2 & H3 & H4 & H5 & H6 & H7) Hc Hn.
  apply chan_map_canon; [exact Hn|].
  exact (table_valid choose P H1 H2 H3 H4 H5 Hc H6 H7).
Qed.
Print Assumptions C13_chan_map_rows.

(* Unit counts: each unit receives min(max_wf, #valid spikes of the unit) rows, and
   the rows of the table are distinct valid spikes (strictly increasing spike indices,
   each strictly inside the margins); the table is the selected spikes in time order. *)
Theorem C13_unit_counts : forall choose P,
  StronglySorted Z.le (map sp_sample (c_spikes P)) -> choose_ok choose -> 0 <= c_maxwf P ->
  (forall u, In u (unit_ids P) ->
     count_if (fun c => c =? u) (map r_cluster (table choose P)) =
     Z.min (c_maxwf P) (zlen (unit_spikeidx P u))) /\
  (forall u p, In p (unit_spikeidx P u) <->
     0 <= p < zlen (c_spikes P) /\ sp_cluster (znth dspike (c_spikes P) p) = u /\
     c_to P < sp_sample (znth dspike (c_spikes P) p) < c_ns P - (c_L P - c_to P)) /\
  StronglySorted Z.lt (wf_idx choose P) /\
  (forall x, In x (wf_idx choose P) -> 0 <= x < zlen (c_spikes P) /\
     c_to P < sp_sample (znth dspike (c_spikes P) x) < c_ns P - (c_L P - c_to P)) /\
  map (fun r => (r_sample r, r_cluster r, r_chan r)) (table choose P) =
  map (znth dspike (c_spikes P)) (wf_idx choose P).
Proof.
  intros choose P Hs Hc Hm. split; [|split; [|split; [|split]]].
  - exact (unit_counts choose P Hs Hc Hm).
  - intros u p. rewrite (usi_in choose P Hs Hc Hm u p). unfold allowed. rewrite andb_true_iff, !Z.ltb_lt. tauto.
  - exact (wf_idx_increasing choose P Hs Hc Hm).
  - intros x Hx. destruct (wf_idx_valid choose P Hs Hc Hm x Hx) as [Hr Ha].
    unfold allowed in Ha. rewrite andb_true_iff, !Z.ltb_lt in Ha. tauto.
  - exact (table_rows_are_spikes choose P Hs Hc Hm).
Qed.
Print Assumptions C13_unit_counts.

(* index_within_clusters (the cumsum trick, including pandas' length check): when at least one
   spike is valid the computation succeeds and row j gets the number of earlier rows of the same
   cluster, i.e. its position inside its cluster. *)
Theorem C13_index_within_clusters : forall choose P, guards P -> choose_ok choose ->
  table choose P <> [] ->
  exists l, iwc (sorted_table choose P) = Some l /\ length l = length (sorted_table choose P) /\
    forall j, (j < length (sorted_table choose P))%nat ->
      nth j l 0 = count_if (fun x => x =? r_cluster (nth j (sorted_table choose P) drow))
                           (firstn j (map r_cluster (sorted_table choose P))).
Proof.
  intros choose P (H1 & H2 & H3 & H4 & H5 & H6 & H7) Hc.
  exact (iwc_ST choose P H1 H2 H3 H4 H5 Hc H6 H7).
Qed.
Print Assumptions C13_index_within_clusters.

(* aggregate_by_clusters / templates: the groups are the clusters PRESENT in the table in
   ascending order (template i belongs to the i-th of them, as in the loader's df_clusters);
   each group's count is the number of its rows and the memmap slice
   [first_index, last_index + 1) the template is computed from is exactly the set of rows of
   that cluster. *)
Theorem C13_template_ranges : forall choose P, guards P -> choose_ok choose ->
  let ST := sorted_table choose P in
  map (fun g => fst (fst (fst g))) (groups ST) = zunique (map r_cluster ST) /\
  template_ranges choose P = map (fun g => (g_first g, g_last g + 1)) (groups ST) /\
  forall g, In g (groups ST) ->
    let u := fst (fst (fst g)) in
    In u (map r_cluster ST) /\
    g_count g = count_if (fun x => x =? u) (map r_cluster ST) /\
    forall k, (k < length ST)%nat ->
      (g_first g <= Z.of_nat k < g_last g + 1 <-> r_cluster (nth k ST drow) = u).
Proof.
  intros choose P (H1 & H2 & H3 & H4 & H5 & H6 & H7) Hc ST. split; [|split].
  - exact (groups_ST_clusters choose P H1 H2 H3 H4 H5 Hc H6 H7).
  - reflexivity.
  - intros g Hg.
    destruct (groups_ST choose P H1 H2 H3 H4 H5 Hc H6 H7 g Hg) as (A & B & C).
    split; [exact A|]. split; [exact B|]. intros k Hk. split; intros H; [apply (C k Hk); lia|apply (C k Hk) in H; lia].
Qed.
Print Assumptions C13_template_ranges.

(* WaveformsLoader.load_waveforms, row selection (any table, any labels / indices): the rows
   returned are, in ascending order, exactly those whose cluster is among the labels (default:
   all clusters of the table) and whose index_within_clusters is among the indices (default: all). *)
Theorem C13_loader_selection : forall tb iw labels indices, length iw = length tb ->
  let labs := match labels with Some l => l | None => map (fun g => fst (fst (fst g))) (groups tb) end in
  StronglySorted Z.lt (load_rows tb iw labels indices) /\
  forall k, In k (load_rows tb iw labels indices) <->
    0 <= k < zlen tb /\ In (r_cluster (znth drow tb k)) labs /\
    match indices with None => True | Some ix => In (znth 0 iw k) ix end.
Proof. exact load_rows_spec. Qed.
Print Assumptions C13_loader_selection.

(* ... and what it returns for a selected row k is what the four files hold for row k: the
   window of the spike of table row k, that table row, its position inside its cluster, and the
   neighbourhood of its peak channel. *)
Theorem C13_loader_returns_saved : forall V (src : Z -> Z -> V) choose P mem iw cm labels indices,
  guards P -> choose_ok choose -> zlen (c_geom P) <= 32768 ->
  traces V src choose P = Some mem -> iwc (sorted_table choose P) = Some iw ->
  chan_map choose P = Some cm ->
  load_waveforms V mem (sorted_table choose P) iw cm labels indices =
  map (fun k => let row := znth drow (sorted_table choose P) k in
                (Some (window V src P (r_sample row) (r_chan row)), row,
                 count_if (fun x => x =? r_cluster row)
                          (firstn (Z.to_nat k) (map r_cluster (sorted_table choose P))),
                 znth [] (cidx P) (r_chan row)))
      (load_rows (sorted_table choose P) iw labels indices).
Proof.
  intros V src choose P mem iw cm labels indices (H1 & H2 & H3 & H4 & H5 & H6 & H7) Hc.
  exact (loader_saved V src choose P H1 H2 H3 H4 H5 Hc H6 H7 mem iw cm labels indices).
Qed.
Print Assumptions C13_loader_returns_saved.

(* The loader is a function of the files only: any sequence of load_waveforms calls (same or fresh
   loader) leaves the four files unchanged, and each call returns what that query returns on the
   initial files — hence the same value every time it is repeated.  (That the implementation's
   results do not ALIAS the files or the loader's arrays is not a statement about this pure model:
   it is validated on the real code by call sequences with in-place mutation, not proved.) *)
Theorem C13_loader_sequence_pure : forall V (F : files V) (qs : list query),
  fst (loader_calls V F qs) = F /\
  snd (loader_calls V F qs) = map (fun q => snd (loader_call V F q)) qs.
Proof. exact loader_calls_pure. Qed.
Print Assumptions C13_loader_sequence_pure.

(* ---- preprocess_steps (round 4): the library steps are abstract functions f1..f5 of (rows, columns, snippet) ---- *)

(* With no step requested the pipeline is the extraction studied above: every theorem about `traces`
   is a theorem about traces_pp [] . *)
Theorem C13_preprocess_none : forall V (src : Z -> Z -> V) f1 f2 f3 f4 f5 choose P,
  traces_pp V src f1 f2 f3 f4 f5 choose P [] = traces V src choose P.
Proof. intros. apply traces_pp_nil. Qed.
Print Assumptions C13_preprocess_none.

(* With any admissible step list (subset of the five, not car and kfilt together) no job raises, row r of
   the table still has waveform_index r, and cell (r, j, t) of the traces is read from the snippet of the
   chunk i = sample // chunk_size that contains the spike, AFTER the requested steps have been applied to
   that snippet (c_nc rows, chunk_len i columns, starting at sample chunk_a i of the recording), at
   channel nbr(peak)[j] and local column sample - trough_offset + t - chunk_a i; NaN where the neighbour
   is the pad value. *)
Theorem C13_preprocess_window : forall V (src : Z -> Z -> V) f1 f2 f3 f4 f5 choose P steps,
  guards P -> choose_ok choose -> steps_ok steps = true ->
  forall r, (r < length (table choose P))%nat ->
  exists mem, traces_pp V src f1 f2 f3 f4 f5 choose P steps = Some mem /\
    length mem = length (table choose P) /\
    let row := nth r (sorted_table choose P) drow in
    let i := r_sample row / c_size P in
    r_wfi row = Z.of_nat r /\
    exists w, nth r mem None = Some w /\
      forall j t, (j < length (znth [] (cidx P) (r_chan row)))%nat -> 0 <= t < c_L P ->
        nth (Z.to_nat t) (nth j w []) None =
        let ch := nth j (znth [] (cidx P) (r_chan row)) 0 in
        if ch =? c_nc P then None
        else Some (preprocess V f1 f2 f3 f4 f5 steps (c_nc P) (chunk_len P i) (raw_snippet V src P i) ch
                              (r_sample row - c_to P + t - chunk_a P i)).
Proof.
  intros V src f1 f2 f3 f4 f5 choose P steps (H1 & H2 & H3 & H4 & H5 & H6 & H7) Hc Hok r Hr.
  destruct (traces_pp_row V src f1 f2 f3 f4 f5 choose P H1 H2 H3 H4 H5 Hc H6 H7 steps r Hok Hr)
    as [mem [Ht [Hl [Hw [_ Hn]]]]].
  exists mem. split; [exact Ht|]. split; [exact Hl|]. cbv zeta. split; [exact Hw|].
  eexists. split; [exact Hn|]. intros j t Hj Htt.
  rewrite window_cell by assumption. cbv zeta. reflexivity.
Qed.
Print Assumptions C13_preprocess_window.

(* The order of application is fixed (butterworth, phase_shift, bad_channel_interpolation, car, kfilt) and
   does not depend on the order in which the caller lists the steps; an inadmissible list is refused. *)
Theorem C13_preprocess_order : forall V f1 f2 f3 f4 f5 (steps steps' : list Z) nrows len (s : snippet V),
  (Permutation steps steps' ->
     preprocess V f1 f2 f3 f4 f5 steps nrows len s = preprocess V f1 f2 f3 f4 f5 steps' nrows len s) /\
  preprocess V f1 f2 f3 f4 f5 [5; 3; 2; 1] nrows len s =
    f5 nrows len (f3 nrows len (f2 nrows len (f1 nrows len s))) /\
  preprocess V f1 f2 f3 f4 f5 [4; 1] nrows len s = f4 nrows len (f1 nrows len s) /\
  forall src choose P, steps_ok steps = false -> traces_pp V src f1 f2 f3 f4 f5 choose P steps = None.
Proof.
  intros V f1 f2 f3 f4 f5 steps steps' nrows len s. split; [|split; [reflexivity|split; [reflexivity|]]].
  - intros Hp.
    assert (H : forall k, has_step k steps = has_step k steps').
    { intros k. unfold has_step. destruct (existsb (Z.eqb k) steps) eqn:E; symmetry.
      - apply existsb_exists in E. destruct E as [x [Hx He]]. apply existsb_exists. exists x. split; [|exact He].
        eapply Permutation_in; eauto.
      - destruct (existsb (Z.eqb k) steps') eqn:E'; [|reflexivity].
        apply existsb_exists in E'. destruct E' as [x [Hx He]].
        assert (existsb (Z.eqb k) steps = true); [|congruence].
        apply existsb_exists. exists x. split; [|exact He]. eapply Permutation_in; [symmetry|]; eauto. }
    unfold preprocess. now rewrite !H.
  - intros src choose P Hok. unfold traces_pp. now rewrite Hok.
Qed.
Print Assumptions C13_preprocess_order.

(* The hypothesis trough_offset <= chunk size (with more than one chunk) cannot be dropped:
   with chunk size 8 < trough_offset 10 the second job's snippet start s0 - trough_offset is
   negative, the Python slice wraps to the end of the file, the snippet is empty and the job
   raises (model: None).  Outside the property's quantifier (chunk sizes 500..10000, default
   trough_offset 42); every other guard holds for this input. *)
Definition exSmallChunk : cfg :=
  mkCfg 100 2 10 16 2 8 40000 1 [(0, 0); (0, 20)] [(12, 1, 0)].
Theorem C13_chunk_below_trough_offset_raises :
  1 <= c_ns exSmallChunk /\ 1 <= c_size exSmallChunk /\ 0 <= c_to exSmallChunk <= c_L exSmallChunk /\
  c_size exSmallChunk < c_to exSmallChunk /\ 1 < nchunks exSmallChunk /\
  map (fun r => r_sample r) (table (fun _ a _ => a) exSmallChunk) = [12] /\
  traces Z (fun ch s => 10 * s + ch) (fun _ a _ => a) exSmallChunk = None.
Proof. vm_compute. repeat split; congruence. Qed.
Print Assumptions C13_chunk_below_trough_offset_raises.

(* ---- the hypotheses are satisfiable on a non-trivial concrete input ---- *)
Definition exP : cfg :=
  mkCfg 1000 4 3 8 2 300 40000 1 [(0, 0); (0, 150); (0, 300); (0, 450)]
        [(2, 1, 0); (4, 1, 1); (299, 2, 3); (300, 1, 2); (300, 2, 0); (301, 1, 3); (600, 2, 1); (996, 2, 2)].
(* a deterministic stand-in for rng.choice: the last k candidates *)
Definition ex_choose (_ : Z) (a : list Z) (k : Z) : list Z := skipn (length a - Z.to_nat k) a.

Example ex_table : map (fun r => (r_sample r, r_cluster r, r_wfi r)) (sorted_table ex_choose exP) =
  [(300, 1, 0); (301, 1, 1); (300, 2, 2); (600, 2, 3)].
Proof. vm_compute. reflexivity. Qed.

Example ex_traces : option_map (map (option_map (fun w => nth 0 w []))) (traces Z (fun ch s => 10 * s + ch) ex_choose exP) =
  Some [Some [Some 2971; Some 2981; Some 2991; Some 3001; Some 3011; Some 3021; Some 3031; Some 3041];
        Some [Some 2982; Some 2992; Some 3002; Some 3012; Some 3022; Some 3032; Some 3042; Some 3052];
        Some [Some 2970; Some 2980; Some 2990; Some 3000; Some 3010; Some 3020; Some 3030; Some 3040];
        Some [Some 5970; Some 5980; Some 5990; Some 6000; Some 6010; Some 6020; Some 6030; Some 6040]].
Proof. vm_compute. reflexivity. Qed.

Example ex_chan_index : channel_index (c_geom exP) 40000 1 4 = [[0; 1; 4]; [0; 1; 2]; [1; 2; 3]; [2; 3; 4]].
Proof. vm_compute. reflexivity. Qed.

(* Observation recorded in the notes (not a clause of the property): the templates follow the
   clusters present in the table, not np.unique(spike_clusters).  Unit 2 below has no valid
   spike: unit_ids = [1; 2; 3] but the groups (template rows 0, 1) are clusters 1 and 3. *)
Definition exGap : cfg :=
  mkCfg 1000 2 3 8 2 300 40000 1 [(0, 0); (0, 20)] [(1, 2, 0); (100, 1, 0); (200, 3, 1); (999, 2, 1)].
Example ex_templates_follow_present_clusters :
  unit_ids exGap = [1; 2; 3] /\
  map (fun g => fst (fst (fst g))) (groups (sorted_table ex_choose exGap)) = [1; 3] /\
  template_ranges ex_choose exGap = [(0, 1); (1, 2)].
Proof. vm_compute. repeat split. Qed.

(* ---- the hypotheses of the theorems above hold on the concrete inputs (vm_compute) ---- *)
Lemma NoDup_skipn {A} n (a : list A) : NoDup a -> NoDup (skipn n a).
Proof.
  revert a. induction n as [|n IH]; intros a H; [exact H|].
  destruct a as [|x a]; [constructor|]. cbn. apply IH. now inversion H.
Qed.

Lemma ex_choose_ok : choose_ok ex_choose.
Proof.
  intros i a k Hk Hnd. unfold ex_choose, zlen in *.
  split; [rewrite skipn_length; lia|]. split.
  - now apply NoDup_skipn.
  - intros x Hx. rewrite <- (firstn_skipn (length a - Z.to_nat k) a). apply in_or_app. now right.
Qed.

Example ex_guards : guards exP.
Proof.
  unfold guards. cbv beta iota delta [exP c_ns c_size c_to c_L c_maxwf c_spikes c_geom].
  split; [lia|]. split; [lia|]. split; [lia|]. split; [left; lia|].
  split; [cbv [map sp_sample fst]; repeat (constructor; try lia)|]. split; [lia|].
  cbv [sp_chan snd zlen length]. repeat (constructor; try lia).
Qed.

(* so every guarded theorem applies to exP / ex_choose, e.g.: *)
Example ex_window_applies : exists mem, traces Z (fun ch s => 10 * s + ch) ex_choose exP = Some mem /\
  length mem = 4%nat.
Proof.
  destruct (C13_window_correct Z (fun ch s => 10 * s + ch) ex_choose exP ex_guards ex_choose_ok 0%nat)
    as [mem [H [Hl _]]]; [vm_compute; lia|].
  exists mem. split; [exact H|]. rewrite Hl. reflexivity.
Qed.

Example ex_table_nonempty : table ex_choose exP <> [].
Proof. vm_compute. discriminate. Qed.

Example ex_loader_hyps :
  zlen (c_geom exP) <= 32768 /\
  (exists mem, traces Z (fun ch s => 10 * s + ch) ex_choose exP = Some mem) /\
  iwc (sorted_table ex_choose exP) = Some [0; 1; 0; 1] /\
  chan_map ex_choose exP = Some [[1; 2; 3]; [2; 3; 4]; [0; 1; 4]; [0; 1; 2]] /\
  load_rows (sorted_table ex_choose exP) [0; 1; 0; 1] (Some [2]) (Some [1]) = [3].
Proof.
  split; [vm_compute; discriminate|]. split; [eexists; vm_compute; reflexivity|].
  repeat split; vm_compute; reflexivity.
Qed.

(* extract_wfs_array: hypotheses of C13_extract_array_window on a window touching both array ends *)
Example ex_extract_array_hyps :
  let P := mkCfg 20 4 3 8 0 1 40000 1 [(0, 0); (0, 150); (0, 300); (0, 450)] [] in
  let rows := [mkRow 0 3 0 0 0; mkRow 0 14 0 3 0] in
  rows <> [] /\ 0 <= c_to P <= c_L P /\
  (forall r, In r rows -> c_to P <= r_sample r /\ r_sample r + (c_L P - c_to P) <= 20 /\
                          0 <= r_chan r < zlen (c_geom P)) /\
  r_sample (last rows drow) + (c_L P - c_to P) < 20 /\
  option_map (map (fun w => map (fun row => nth 0 row None) w))
             (extract_array Z (fun ch s => 10 * s + ch) P (cidx P) 20 rows) =
  Some [[Some 0; Some 1; None]; [Some 112; Some 113; None]].
Proof.
  cbv zeta. split; [discriminate|]. split; [vm_compute; split; discriminate|]. split.
  - intros r [<-|[<-|[]]]; vm_compute; repeat split; congruence.
  - split; vm_compute; reflexivity.
Qed.
