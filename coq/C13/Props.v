(* C13 — property theorems.  Only statements closed by `exact <lemma>` and the
   Print Assumptions that the check collects. *)
From Coq Require Import ZArith List Bool Lia Permutation Sorted.
From IBL.lib Require Import PyInt.
From IBL.C13 Require Import Model Proofs.
Import ListNotations.
Open Scope Z_scope.

(* The searchsorted slices of the chunks [s0_i, s1_i) partition the rows of the
   table (every row goes to exactly one chunk job, in order), for every
   recording length and chunk size. *)
Theorem C13_chunks_partition_rows : forall (P : cfg) (tb : list row),
  1 <= c_ns P -> 1 <= c_size P ->
  Forall (fun r => 0 <= r_sample r < c_ns P) tb ->
  concat (map (slice_rows P tb) (zrange (Z.to_nat (nchunks P)))) = tb.
Proof. intros P tb H1 H2. exact (slices_partition P H1 H2 tb). Qed.
Print Assumptions C13_chunks_partition_rows.
