(* C13 — the one floating-point step of make_channel_index: `sqrt(d2) <= radius` evaluated in
   binary64 (scipy pdist takes a correctly rounded square root of the exactly representable integer
   d2) decides exactly `d2 <= radius^2`, for every integer squared distance and every radius that is a
   multiple of 1/2 below 2^20 (the model compares 4*d2 <= k*k with radius = k/2).
   rnd = IEEE-754 binary64 round-to-nearest-even (with gradual underflow). *)
From Coq Require Import ZArith Reals Lia Lra Psatz.
From Flocq Require Import Core.
Open Scope R_scope.

Definition fexp64 := FLT_exp (-1074) 53.
Definition rnd64 := round radix2 fexp64 ZnearestE.

Lemma fmt_half (k : Z) : (Z.abs k < 2 ^ 53)%Z -> generic_format radix2 fexp64 (IZR k / 2).
Proof.
  intros H. apply generic_format_FLT. apply (FLT_spec _ _ _ _ (Float radix2 k (-1))).
  - unfold F2R. cbn. lra.
  - exact H.
  - cbn. lia.
Qed.

Lemma fmt_witness (k : Z) : (0 <= k < 2 ^ 21)%Z ->
  generic_format radix2 fexp64 (IZR k / 2 + / 1073741824).
Proof.
  intros H. apply generic_format_FLT.
  apply (FLT_spec _ _ _ _ (Float radix2 (k * 536870912 + 1) (-30))).
  - unfold F2R. cbn [Fnum Fexp]. rewrite plus_IZR, mult_IZR.
    replace (bpow radix2 (-30)) with (/ 1073741824) by (cbn; now vm_compute (Z.pow_pos 2 30)).
    field.
  - cbn [Fnum]. assert (Hb : (Z.abs (k * 536870912 + 1) < 2 ^ 53)%Z) by lia. exact Hb.
  - cbn. lia.
Qed.

Theorem C13_radius_test_exact : forall d2 k : Z, (0 <= d2)%Z -> (0 <= k < 2 ^ 21)%Z ->
  (rnd64 (sqrt (IZR d2)) <= IZR k / 2 <-> (4 * d2 <= k * k)%Z).
Proof.
  intros d2 k Hd Hk. unfold rnd64.
  assert (Hk0 : 0 <= IZR k) by (apply IZR_le; lia).
  assert (Hkb : IZR k < 2097152) by (apply IZR_lt; lia).
  split.
  - intros Hle. destruct (Z_le_gt_dec (4 * d2) (k * k)) as [|Hgt]; [assumption|exfalso].
    assert (Hd2 : IZR k * IZR k + 1 <= 4 * IZR d2).
    { rewrite <- mult_IZR, <- plus_IZR. change 4 with (IZR 4). rewrite <- mult_IZR. apply IZR_le. lia. }
    set (y := IZR k / 2 + / 1073741824).
    assert (Hy : y <= sqrt (IZR d2)).
    { apply Rsqr_incr_0_var; [|apply sqrt_pos].
      rewrite Rsqr_sqrt by (apply IZR_le; lia). unfold Rsqr, y. nra. }
    assert (Hr : y <= round radix2 fexp64 ZnearestE (sqrt (IZR d2))).
    { rewrite <- (round_generic radix2 fexp64 ZnearestE y) by (apply fmt_witness; exact Hk).
      apply round_le; [apply FLT_exp_valid; reflexivity|apply valid_rnd_N|exact Hy]. }
    unfold y in Hr. lra.
  - intros Hle.
    assert (Hd2 : 4 * IZR d2 <= IZR k * IZR k).
    { rewrite <- mult_IZR. change 4 with (IZR 4). rewrite <- mult_IZR. apply IZR_le. lia. }
    assert (Hs : sqrt (IZR d2) <= IZR k / 2).
    { apply Rsqr_incr_0_var; [|lra].
      rewrite Rsqr_sqrt by (apply IZR_le; lia). unfold Rsqr. nra. }
    rewrite <- (round_generic radix2 fexp64 ZnearestE (IZR k / 2)) by (apply fmt_half; lia).
    apply round_le; [apply FLT_exp_valid; reflexivity|apply valid_rnd_N|exact Hs].
Qed.
Print Assumptions C13_radius_test_exact.

(* the default radius of extract_wfs_cbin, 200.0 um: distance exactly 200 is inside, d2 = 40001 is outside *)
Example ex_radius_200 : rnd64 (sqrt 40000) <= 200 /\ ~ rnd64 (sqrt 40001) <= 200.
Proof.
  replace 200 with (IZR 400 / 2) by lra. split.
  - apply (C13_radius_test_exact 40000 400); lia.
  - intros H. apply (C13_radius_test_exact 40001 400) in H; lia.
Qed.
