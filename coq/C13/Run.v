(* C13 — flat-integer interface of the model for the correspondence check.

   mode 2 (make_channel_index alone):
     input : [2; r2n; r2d; padv] ++ geom
     output: n_rows :: n_cols :: cells
   mode 1 (extract_wfs_cbin + WaveformsLoader on a recording whose value at
           (sample s, channel c) is s*stride + c):
     input : [1; ns; nc; to; L; maxwf; size; r2n; r2d; stride] ++ geom ++ spikes ++ picks ++ labels ++ indices
             geom   = n :: x0 y0 x1 y1 ...        spikes = n :: s0 c0 ch0 ...
             picks  = nunits :: (k :: items)...   (what rng.choice returned, unit by unit)
             labels, indices = 0 | 1 :: n :: items
     output: [0] when the model says the Python code raises, else
             1 :: picks_ok :: table ++ traces ++ chan_map ++ templates ++ loaded_rows
             table  = n :: (index sample cluster peak_channel waveform_index index_within_clusters)*
             traces = n :: nnb :: L :: cells (NaN = -1; a row never written = nnb*L times -7)
             chan_map = n :: nnb :: cells
             templates = nu :: ngroups :: for each group nnb*L cells 2*nanmedian (all-NaN = -1)
             loaded_rows = n :: row numbers, for (labels, indices), (None, None), (labels, None), (None, indices) *)
From Coq Require Import ZArith List Bool.
From IBL.lib Require Import PyInt RunLib.
From IBL.C13 Require Import Model.
Import ListNotations.
Open Scope Z_scope.

Fixpoint pairs_of (l : list Z) : list (Z * Z) :=
  match l with x :: y :: t => (x, y) :: pairs_of t | _ => [] end.
Fixpoint triples_of (l : list Z) : list (Z * Z * Z) :=
  match l with x :: y :: z :: t => (x, y, z) :: triples_of t | _ => [] end.

(* n :: 2n items *)
Definition dec_pairs (l : list Z) : list (Z * Z) * list Z :=
  match l with [] => ([], []) | n :: r => let '(a, b) := take_z (2 * n) r in (pairs_of a, b) end.
Definition dec_triples (l : list Z) : list (Z * Z * Z) * list Z :=
  match l with [] => ([], []) | n :: r => let '(a, b) := take_z (3 * n) r in (triples_of a, b) end.
Fixpoint dec_lists (n : nat) (l : list Z) : list (list Z) * list Z :=
  match n with
  | O => ([], l)
  | S n' => let '(a, r) := dec_zlist l in let '(t, r') := dec_lists n' r in (a :: t, r')
  end.
Definition dec_listlist (l : list Z) : list (list Z) * list Z :=
  match l with [] => ([], []) | n :: r => dec_lists (Z.to_nat n) r end.
Definition dec_optlist (l : list Z) : option (list Z) * list Z :=
  match l with
  | 1 :: r => let '(a, b) := dec_zlist r in (Some a, b)
  | _ :: r => (None, r)
  | [] => (None, [])
  end.

Definition enc_cell (c : option Z) : Z := match c with Some v => v | None => -1 end.
Definition enc_wf (nnb L : Z) (w : option (list (list (option Z)))) : list Z :=
  match w with
  | Some w => flat_map (map enc_cell) w
  | None => repeat (-7) (Z.to_nat (nnb * L))
  end.

(* rng.choice replayed from the recorded picks *)
Definition choose_data (picks : list (list Z)) (i : Z) (_ : list Z) (_ : Z) : list Z := znth [] picks i.

Fixpoint nodupb (l : list Z) : bool :=
  match l with [] => true | x :: t => negb (existsb (Z.eqb x) t) && nodupb t end.

(* the recorded picks are k distinct members of the candidates, unit by unit *)
Definition picks_ok (P : cfg) (picks : list (list Z)) : bool :=
  let us := unit_ids P in
  (length picks =? length us)%nat &&
  forallb (fun e => let p := znth [] picks (fst e) in
                    let a := unit_spikeidx P (snd e) in
                    (zlen p =? unit_k P (snd e)) && nodupb p &&
                    forallb (fun x => existsb (Z.eqb x) a) p)
          (enumerate us).

(* 2 * nanmedian of the (j, t) cells of the memmap rows [f, l) *)
Definition median2 (vals : list Z) : Z :=
  let s := isort Z.leb vals in
  let n := length s in
  match n with
  | O => -1
  | _ => if Nat.even n then nth (n / 2 - 1) s 0 + nth (n / 2) s 0 else 2 * nth (n / 2) s 0
  end.
Definition cell_at (j t : nat) (w : option (list (list (option Z)))) : list Z :=
  match w with
  | Some w => match nth t (nth j w []) None with Some v => [v] | None => [] end
  | None => []
  end.
Definition template2 (mem : list (option (list (list (option Z))))) (nnb L : nat) (fl : Z * Z) : list Z :=
  let rows := firstn (Z.to_nat (snd fl - fst fl)) (skipn (Z.to_nat (fst fl)) mem) in
  flat_map (fun j => map (fun t => median2 (flat_map (cell_at j t) rows)) (seq 0 L)) (seq 0 nnb).

Definition run_extract (r : list Z) : list Z :=
  match r with
  | ns :: nc :: to :: L :: maxwf :: size :: r2n :: r2d :: stride :: r1 =>
      let '(geom, r2) := dec_pairs r1 in
      let '(spikes, r3) := dec_triples r2 in
      let '(picks, r4) := dec_listlist r3 in
      let '(labels, r5) := dec_optlist r4 in
      let '(indices, _) := dec_optlist r5 in
      let P := mkCfg ns nc to L maxwf size r2n r2d geom spikes in
      let src := fun ch s => s * stride + ch in
      let ch := choose_data picks in
      let st := sorted_table ch P in
      let nnb := n_nbors geom r2n r2d in
      match traces Z src ch P, iwc st, chan_map ch P with
      | Some mem, Some iw, Some cm =>
          let tr := template_ranges ch P in
          [1; enc_bool (picks_ok P picks)]
          ++ enc_list (fun e => [r_index (fst e); r_sample (fst e); r_cluster (fst e);
                                 r_chan (fst e); r_wfi (fst e); snd e]) (combine st iw)
          ++ [zlen mem; nnb; L] ++ flat_map (enc_wf nnb L) mem
          ++ [zlen cm; nnb] ++ concat cm
          ++ [zlen (unit_ids P); zlen tr]
          ++ flat_map (template2 mem (Z.to_nat nnb) (Z.to_nat L)) tr
          ++ enc_zlist (load_rows st iw labels indices)
          ++ enc_zlist (load_rows st iw None None)
          ++ enc_zlist (load_rows st iw labels None)
          ++ enc_zlist (load_rows st iw None indices)
      | _, _, _ => [0]
      end
  | _ => [-999]
  end.

(* mode 3: extract_wfs_array alone.
   input : [3; ns; nan_row; to; L; stride] ++ channel_neighbors (n :: (k :: items)...) ++ spikes (n :: sample peak ...)
   output: [0] | 1 :: n :: nnb :: L :: cells (NaN = -1) ++ cind (n*nnb) *)
Definition run_array (r : list Z) : list Z :=
  match r with
  | ns :: nanrow :: to :: L :: stride :: r1 =>
      let '(ci, r2) := dec_listlist r1 in
      let '(sps, _) := dec_pairs r2 in
      let P := mkCfg ns nanrow to L 0 1 0 1 [] [] in
      let rows := map (fun sp => mkRow 0 (fst sp) 0 (snd sp) 0) sps in
      let nnb := match ci with [] => 0 | c :: _ => zlen c end in
      match extract_array Z (fun ch s => s * stride + ch) P ci ns rows,
            sequence (map (fun sp => chan_row ci (snd sp)) sps) with
      | Some wfs, Some cind =>
          [1; zlen wfs; nnb; L] ++ flat_map (fun w => enc_wf nnb L (Some w)) wfs ++ concat cind
      | _, _ => [0]
      end
  | _ => [-999]
  end.

(* mode 4: extraction whose trace VALUES are not integers (preprocess_steps, .cbin with gains): same input
   as mode 1 followed by the step codes (n :: codes); the model gives everything but the values:
   output: [0] | 1 :: picks_ok :: table ++ plan ++ chan_map ++ [nu; ngroups] ++ template ranges ++ loaded rows x 4
           plan = n :: (waveform_index chunk snippet_start snippet_len local_column_of_window_start peak)*  *)
Definition run_plan (r : list Z) : list Z :=
  match r with
  | ns :: nc :: to :: L :: maxwf :: size :: r2n :: r2d :: stride :: r1 =>
      let '(geom, r2) := dec_pairs r1 in
      let '(spikes, r3) := dec_triples r2 in
      let '(picks, r4) := dec_listlist r3 in
      let '(labels, r5) := dec_optlist r4 in
      let '(indices, r6) := dec_optlist r5 in
      let '(steps, _) := dec_zlist r6 in
      let P := mkCfg ns nc to L maxwf size r2n r2d geom spikes in
      let ch := choose_data picks in
      let st := sorted_table ch P in
      let idf := fun (_ _ : Z) (s : Z -> Z -> Z) => s in
      match traces_pp Z (fun _ _ => 0) idf idf idf idf idf ch P steps, iwc st, chan_map ch P with
      | Some mem, Some iw, Some cm =>
          let tr := template_ranges ch P in
          [1; enc_bool (picks_ok P picks)]
          ++ enc_list (fun e => [r_index (fst e); r_sample (fst e); r_cluster (fst e);
                                 r_chan (fst e); r_wfi (fst e); snd e]) (combine st iw)
          ++ enc_list (fun x => x) (gather_plan ch P)
          ++ [zlen cm; n_nbors geom r2n r2d] ++ concat cm
          ++ [zlen (unit_ids P); zlen tr] ++ flat_map (fun p => [fst p; snd p]) tr
          ++ enc_zlist (load_rows st iw labels indices)
          ++ enc_zlist (load_rows st iw None None)
          ++ enc_zlist (load_rows st iw labels None)
          ++ enc_zlist (load_rows st iw None indices)
      | _, _, _ => [0]
      end
  | _ => [-999]
  end.

Definition run (inp : list Z) : list Z :=
  match inp with
  | 1 :: r => run_extract r
  | 3 :: r => run_array r
  | 4 :: r => run_plan r
  | 2 :: r2n :: r2d :: padv :: r =>
      let '(geom, _) := dec_pairs r in
      let ci := channel_index geom r2n r2d padv in
      zlen ci :: n_nbors geom r2n r2d :: concat ci
  | _ => [-999]
  end.

Definition mismatches := mismatches_of run.
