(* C09 — the property's grammar (key=value lines; string, decimal-scalar and
   integer-list values) and totality of read_meta_data on it. *)
From Coq Require Import String ZArith List Bool Lia.
From IBL.C09 Require Import Model Proofs.
Import ListNotations.
Open Scope Z_scope.

Definition nonempty_digits (p : str) : Prop := digits p = true /\ p <> [].
(* 123   |   12.5  .5  5. *)
Definition scalar_lit (v : str) : Prop :=
  nonempty_digits v \/
  exists a b, v = a ++ 46 :: b /\ digits a = true /\ digits b = true /\ (a <> [] \/ b <> []).
(* 384,0,1 *)
Definition int_list_lit (v : str) : Prop :=
  exists ps, (2 <= length ps)%nat /\ Forall nonempty_digits ps /\ v = join [44] ps.
(* anything without a line break that fails the numeric test (incl. the empty value) *)
Definition string_lit (v : str) : Prop := numeric v = false /\ plain v = true.
Definition gram_value (v : str) : Prop := string_lit v \/ scalar_lit v \/ int_list_lit v.
Definition gram_line (kv : str * str) : Prop :=
  forallb (fun c => negb (c =? 61)) (fst kv) = true /\ plain (fst kv) = true /\ gram_value (snd kv).
Definition line_text (kv : str * str) : str := fst kv ++ 61 :: snd kv.
(* the two keys fed to int(): a scalar or nothing *)
Definition serial_lines_ok (ls : list (str * str)) : Prop :=
  forall k v, In (k, v) ls -> In (untilde k) serial_keys -> scalar_lit v \/ v = [].

Lemma parse_float_digits p : nonempty_digits p -> parse_float p = Some (dvalue p, O).
Proof.
  intros [Hd Hne]. unfold parse_float. pose proof (digits_dd p Hd) as Hdd. unfold dd in Hdd. rewrite Hdd.
  unfold split_on. rewrite split_by_none by (now apply digits_no).
  destruct p; [congruence|]. reflexivity.
Qed.

Lemma parse_scalar v : scalar_lit v -> exists d, parse_value v = Some (VNum d).
Proof.
  intros [Hv|[a [b [-> [Ha [Hb Hne]]]]]].
  - exists (dvalue v, O). pose proof Hv as [Hd Hne]. unfold parse_value, numeric.
    rewrite (digits_numch v Hd), (digits_count46 v Hd).
    destruct v as [|c0 v0] eqn:E; [congruence|]. cbn [null negb andb]. rewrite <- E in *.
    change (0 <? 2) with true. cbv iota. unfold split_on.
    rewrite split_by_none by (now apply digits_no). cbn [mapM].
    now rewrite parse_float_digits.
  - exists (norm (dvalue (a ++ b)) (length b)).
    assert (Hdd : dd (a ++ 46 :: b) = true).
    { unfold dd. rewrite forallb_app. cbn [forallb]. pose proof (digits_dd a Ha) as H1.
      pose proof (digits_dd b Hb) as H2. unfold dd in H1, H2. now rewrite H1, H2. }
    assert (Hpf : parse_float (a ++ 46 :: b) = Some (norm (dvalue (a ++ b)) (length b))).
    { unfold parse_float. unfold dd in Hdd. rewrite Hdd. unfold split_on.
      rewrite split_by_app_sep; [|now apply digits_no|reflexivity].
      rewrite split_by_none by (now apply digits_no).
      destruct a, b; cbn [null andb]; try reflexivity. destruct Hne; congruence. }
    unfold parse_value, numeric. rewrite (dd_numch _ Hdd).
    rewrite count_app. change (46 :: b) with ([46] ++ b). rewrite count_app.
    rewrite (digits_count46 a Ha), (digits_count46 b Hb).
    destruct (a ++ [46] ++ b) eqn:E; [destruct a; discriminate|].
    cbn [null negb andb]. rewrite <- E. change (0 + (count 46 [46] + 0) <? 2) with true. cbv iota.
    unfold split_on. rewrite split_by_none by (now apply dd_no44). cbn [mapM].
    change (a ++ [46] ++ b) with (a ++ 46 :: b). now rewrite Hpf.
Qed.

Lemma parse_int_list v : int_list_lit v ->
  exists l, parse_value v = Some (VList l) /\ Forall (fun d => snd d = O) l.
Proof.
  intros [ps [HL [Hps ->]]]. exists (map (fun p => (dvalue p, O)) ps). split.
  - assert (Hd : Forall (fun q => digits q = true) ps).
    { eapply Forall_impl; [|exact Hps]. now intros q [H _]. }
    pose proof (join_dc ps Hd) as Hdc.
    assert (Hne : join [44] ps <> []).
    { destruct ps as [|p ps]; [cbn in HL; lia|]. inversion Hps as [|? ? [_ Hp] _]; subst.
      destruct ps; cbn; destruct p; cbn; congruence. }
    unfold parse_value, numeric. rewrite dc_numch, dc_count46 by exact Hdc.
    destruct (join [44] ps) as [|c0 r0] eqn:E; [congruence|]. cbn [null negb andb Z.ltb Z.compare].
    rewrite <- E. rewrite split_on_join.
    + rewrite <- (map_id ps) at 1. rewrite (mapM_map (fun p => p) parse_float (fun p => (dvalue p, O))).
      * destruct ps as [|p1 [|p2 ps]]; cbn in HL; try lia. reflexivity.
      * intros p Hp. rewrite Forall_forall in Hps. now apply parse_float_digits, Hps.
    + destruct ps; [cbn in HL; lia|discriminate].
    + eapply Forall_impl; [|exact Hd]. intros q Hq. cbn beta. now apply digits_no.
  - apply Forall_forall. intros d Hd. apply in_map_iff in Hd as [p [<- _]]. reflexivity.
Qed.

Lemma scalar_plain v : scalar_lit v -> plain v = true.
Proof.
  intros [[Hd _]|[a [b [-> [Ha [Hb _]]]]]].
  - now apply numch_plain, digits_numch.
  - unfold plain. rewrite forallb_app. cbn [forallb]. fold (plain a) (plain b).
    rewrite (numch_plain a), (numch_plain b) by now apply digits_numch. reflexivity.
Qed.
Lemma int_list_plain v : int_list_lit v -> plain v = true.
Proof.
  intros [ps [_ [Hps ->]]]. apply numch_plain, dc_numch, join_dc.
  eapply Forall_impl; [|exact Hps]. now intros q [H _].
Qed.
Lemma gram_value_plain v : gram_value v -> plain v = true.
Proof. intros [[_ H]|[H|H]]; [exact H|now apply scalar_plain|now apply int_list_plain]. Qed.

(* what a grammar value parses to *)
Definition gram_parsed (v : str) (x : value) : Prop :=
  int_lists_val x /\ (scalar_lit v \/ v = [] -> (exists d, x = VNum d) \/ x = VStr []).

Lemma parse_gram_value v : gram_value v -> exists x, parse_value v = Some x /\ gram_parsed v x.
Proof.
  intros [[Hn Hp]|[H|H]].
  - exists (VStr v). unfold parse_value. rewrite Hn. split; [reflexivity|]. split; [exact I|].
    intros [Hs| ->]; [|now right]. destruct (parse_scalar v Hs) as [d Hd].
    unfold parse_value in Hd. rewrite Hn in Hd. discriminate.
  - destruct (parse_scalar v H) as [d Hd]. exists (VNum d). split; [exact Hd|]. split; [exact I|]. eauto.
  - destruct (parse_int_list v H) as [l [Hl Hi]]. exists (VList l). split; [exact Hl|]. split; [exact Hi|].
    intros [Hs| ->].
    + destruct (parse_scalar v Hs) as [d Hd]. congruence.
    + discriminate Hl.
Qed.

Lemma mapM_total {A B} (f : A -> option B) (R : A -> B -> Prop) l :
  (forall a, In a l -> exists b, f a = Some b /\ R a b) ->
  exists r, mapM f l = Some r /\ Forall2 R l r.
Proof.
  induction l as [|a l IH]; intros H.
  - exists []. split; [reflexivity|constructor].
  - destruct (H a (or_introl eq_refl)) as [b [Hb Rb]].
    destruct IH as [r [Hr HR]]; [intros; apply H; now right|].
    exists (b :: r). cbn. rewrite Hb, Hr. split; [reflexivity|now constructor].
Qed.

Definition line_entry (kv : str * str) (e : str * value) : Prop :=
  fst e = untilde (fst kv) /\ gram_parsed (snd kv) (snd e).

Lemma parse_gram_line kv : gram_line kv -> exists e, parse_line (line_text kv) = Some e /\ line_entry kv e.
Proof.
  destruct kv as [k v]. intros [Hk [_ Hv]]. cbn [fst snd] in *.
  destruct (parse_gram_value v Hv) as [x [Hx Hg]]. exists (untilde k, x).
  unfold parse_line, line_text. cbn [fst snd]. rewrite break_eq_app by exact Hk. rewrite Hx.
  split; [reflexivity|]. split; [reflexivity|exact Hg].
Qed.

Lemma dict_of_Forall (P : str * value -> Prop) es : Forall P es -> Forall P (dict_of es).
Proof.
  unfold dict_of. assert (G : forall acc, Forall P acc -> Forall P es ->
    Forall P (fold_left (fun d e => dset (fst e) (snd e) d) es acc)).
  { induction es as [|[k v] es IH]; intros acc Ha He; cbn [fold_left]; [exact Ha|].
    inversion He; subst. apply IH; [|assumption]. now apply Forall_dset. }
  intros H. apply G; [constructor|exact H].
Qed.

Lemma lookup_rev_In k x es : lookup k (rev es) = Some x -> In (k, x) es.
Proof. intros H. apply lookup_Some_In in H. now apply in_rev. Qed.

Lemma serial_total d :
  (forall k x, In k serial_keys -> lookup k d = Some x -> (exists dd, x = VNum dd) \/ x = VStr []) ->
  serial d <> None.
Proof.
  intros H. unfold serial.
  pose proof (H (lit "imProbeSN")) as H1. pose proof (H (lit "imDatPrb_sn")) as H2.
  assert (G : forall o, (forall x, o = Some x -> (exists dd, x = VNum dd) \/ x = VStr []) ->
            match o with None => Some None
                       | Some v => if truthy v then option_map Some (py_int v) else Some None end <> None).
  { intros [x|] Ho; [|discriminate]. destruct (Ho x eq_refl) as [[dd ->]| ->]; cbn.
    - destruct (negb _); discriminate.
    - discriminate. }
  destruct (lookup (lit "imProbeSN") d) as [v|] eqn:E1.
  - destruct (truthy v) eqn:Et.
    + destruct (H1 v) as [[dd ->]| ->]; [unfold serial_keys; cbn; auto|reflexivity| |].
      * cbn in *. rewrite Et. discriminate.
      * discriminate Et.
    + apply G. intros x Hx. apply H2; [unfold serial_keys; cbn; auto|exact Hx].
  - apply G. intros x Hx. apply H2; [unfold serial_keys; cbn; auto|exact Hx].
Qed.

(* Totality: every text whose lines are key=value lines over the grammar is read,
   and the result has integer lists only. *)
Lemma read_meta_total f ls :
  splitlines (univ_nl f) = map line_text ls -> Forall gram_line ls -> serial_lines_ok ls ->
  exists d, read_meta f = Some d /\ Forall (fun e => int_lists_val (snd e)) d.
Proof.
  intros Hf Hg Hs.
  destruct (mapM_total parse_line (fun l e => exists kv, In kv ls /\ l = line_text kv /\ line_entry kv e)
              (map line_text ls)) as [es [Hes HR]].
  { intros l Hl. apply in_map_iff in Hl as [kv [<- Hkv]]. rewrite Forall_forall in Hg.
    destruct (parse_gram_line kv (Hg _ Hkv)) as [e [He Hle]]. exists e. split; [exact He|]. eauto. }
  assert (Hent : forall e, In e es -> exists kv, In kv ls /\ line_entry kv e).
  { intros e He. clear -HR He. induction HR as [|l e0 ls0 es0 [kv [H1 [_ H3]]] _ IH]; [destruct He|].
    destruct He as [<-|He]; eauto. }
  rewrite read_meta_finish. unfold read_base. rewrite Hf, Hes. cbn [option_map].
  set (b := dict_of es).
  assert (Hb : Forall (fun e => int_lists_val (snd e)) b).
  { apply dict_of_Forall. apply Forall_forall. intros e He.
    destruct (Hent e He) as [kv [_ [_ [Hi _]]]]. exact Hi. }
  unfold finish. fold kN.
  destruct (serial (dset kN (version_value b) b)) as [s|] eqn:Es.
  - eexists. split; [reflexivity|]. apply Forall_dset; [apply Forall_dset; [exact Hb|]|].
    + unfold version_value. destruct (version b); exact I.
    + destruct s; exact I.
  - exfalso. revert Es. apply serial_total. intros k x Hk Hl.
    rewrite lookup_dset in Hl. destruct (str_eq_dec k kN) as [->|_].
    { unfold serial_keys in Hk. cbn [In] in Hk. repeat (destruct Hk as [Hk|Hk]; [discriminate Hk|]). destruct Hk. }
    subst b. rewrite last_key_wins in Hl. apply lookup_rev_In in Hl.
    destruct (Hent _ Hl) as [[k0 v0] [Hin [Hk0 [_ Hgp]]]]. cbn [fst snd] in *. subst k.
    apply Hgp. now apply (Hs k0 v0).
Qed.

Lemma roundtrip_grammar f ls :
  splitlines (univ_nl f) = map line_text ls -> Forall gram_line ls -> serial_lines_ok ls ->
  exists d, read_meta f = Some d /\ read_meta (write_meta d) = Some d.
Proof.
  intros Hf Hg Hs. destruct (read_meta_total f ls Hf Hg Hs) as [d [Hd Hi]].
  exists d. split; [exact Hd|]. now apply (roundtrip f d).
Qed.

(* the plain "\n"-terminated file of these lines satisfies the first hypothesis *)
Lemma lf_file_lines ls : Forall gram_line ls ->
  splitlines (univ_nl (concat (map (fun kv => line_text kv ++ [10]) ls))) = map line_text ls.
Proof.
  intros Hg.
  assert (Hp : Forall (fun b => plain b = true) (map line_text ls)).
  { apply Forall_forall. intros b Hb. apply in_map_iff in Hb as [kv [<- Hkv]].
    rewrite Forall_forall in Hg. destruct (Hg _ Hkv) as [_ [Hk Hv]]. apply gram_value_plain in Hv.
    unfold line_text, plain. rewrite forallb_app. cbn [forallb]. fold (plain (fst kv)) (plain (snd kv)).
    now rewrite Hk, Hv. }
  rewrite <- (map_map line_text (fun b => b ++ [10])).
  rewrite univ_nl_id by now apply concat_lines_no13.
  now apply splitlines_written.
Qed.
