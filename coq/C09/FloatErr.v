(* C09 — rounding-error budget of the two float computations the model treats exactly:
     sample2volts (float32):  fl( fl(1 / g) * fl(range / maxint) )        (g an integer gain < 2^24: exact)
     Reader.ns    (float64):  fl( fl(fileTimeSecs) * fl(fs) )
   Standard model of IEEE arithmetic (no underflow): every rounding multiplies the exact value by
   (1 + d), |d| <= eps.  Three roundings: relative error at most (1+eps)^3 - 1 <= 4 eps. *)
From Coq Require Import Reals Lra Lia Psatz.
Open Scope R_scope.

Lemma three_roundings x d1 d2 d3 e :
  0 <= e -> Rabs d1 <= e -> Rabs d2 <= e -> Rabs d3 <= e ->
  Rabs (x * (1 + d1) * (1 + d2) * (1 + d3) - x) <= ((1 + e) ^ 3 - 1) * Rabs x.
Proof.
  intros He H1 H2 H3.
  replace (x * (1 + d1) * (1 + d2) * (1 + d3) - x)
    with (x * ((1 + d1) * (1 + d2) * (1 + d3) - 1)) by ring.
  rewrite Rabs_mult, Rmult_comm. apply Rmult_le_compat_r; [apply Rabs_pos|].
  replace ((1 + d1) * (1 + d2) * (1 + d3) - 1)
    with (d1 + d2 + d3 + d1 * d2 + d1 * d3 + d2 * d3 + d1 * d2 * d3) by ring.
  assert (A12 : Rabs (d1 * d2) <= e * e).
  { rewrite Rabs_mult. apply Rmult_le_compat; try apply Rabs_pos; assumption. }
  assert (A13 : Rabs (d1 * d3) <= e * e).
  { rewrite Rabs_mult. apply Rmult_le_compat; try apply Rabs_pos; assumption. }
  assert (A23 : Rabs (d2 * d3) <= e * e).
  { rewrite Rabs_mult. apply Rmult_le_compat; try apply Rabs_pos; assumption. }
  assert (A123 : Rabs (d1 * d2 * d3) <= e * e * e).
  { rewrite Rabs_mult. apply Rmult_le_compat; try apply Rabs_pos; assumption. }
  eapply Rle_trans; [apply Rabs_triang|]. eapply Rle_trans; [apply Rplus_le_compat_r, Rabs_triang|].
  eapply Rle_trans; [apply Rplus_le_compat_r, Rplus_le_compat_r, Rabs_triang|].
  eapply Rle_trans; [apply Rplus_le_compat_r, Rplus_le_compat_r, Rplus_le_compat_r, Rabs_triang|].
  eapply Rle_trans; [apply Rplus_le_compat_r, Rplus_le_compat_r, Rplus_le_compat_r, Rplus_le_compat_r, Rabs_triang|].
  eapply Rle_trans; [apply Rplus_le_compat_r, Rplus_le_compat_r, Rplus_le_compat_r, Rplus_le_compat_r,
                       Rplus_le_compat_r, Rabs_triang|].
  replace ((1 + e) ^ 3 - 1) with (e + e + e + e * e + e * e + e * e + e * e * e) by ring.
  lra.
Qed.

Lemma four_eps e : 0 <= e <= / 4 -> (1 + e) ^ 3 - 1 <= 4 * e.
Proof. intros [H0 H1]. replace ((1 + e) ^ 3 - 1) with (e * (3 + 3 * e + e * e)) by ring. nra. Qed.

(* sample2volts, float32: computed = v/g after three roundings with eps = 2^-24 -> within 2.4e-7 (< 1e-6) *)
Lemma s2v_float32_budget v g d1 d2 d3 :
  g <> 0 -> Rabs d1 <= / 2 ^ 24 -> Rabs d2 <= / 2 ^ 24 -> Rabs d3 <= / 2 ^ 24 ->
  Rabs ((1 / g * (1 + d1)) * (v * (1 + d2)) * (1 + d3) - v / g) <= 1 / 1000000 * Rabs (v / g).
Proof.
  intros Hg H1 H2 H3.
  replace ((1 / g * (1 + d1)) * (v * (1 + d2)) * (1 + d3)) with (v / g * (1 + d1) * (1 + d2) * (1 + d3))
    by (field; exact Hg).
  assert (He : 0 <= / 2 ^ 24 <= / 4) by (split; [lra|apply Rinv_le_contravar; lra]).
  eapply Rle_trans; [apply (three_roundings _ d1 d2 d3 (/ 2 ^ 24)); tauto || lra|].
  apply Rmult_le_compat_r; [apply Rabs_pos|].
  eapply Rle_trans; [apply four_eps; exact He|]. lra.
Qed.

(* Reader.ns, float64: the float product is within 4 * 2^-53 relative of the exact product *)
Lemma ns_float64_budget a b d1 d2 d3 :
  Rabs d1 <= / 2 ^ 53 -> Rabs d2 <= / 2 ^ 53 -> Rabs d3 <= / 2 ^ 53 ->
  Rabs ((a * (1 + d1)) * (b * (1 + d2)) * (1 + d3) - a * b) <= 4 * / 2 ^ 53 * Rabs (a * b).
Proof.
  intros H1 H2 H3.
  replace ((a * (1 + d1)) * (b * (1 + d2)) * (1 + d3)) with (a * b * (1 + d1) * (1 + d2) * (1 + d3)) by ring.
  assert (He : 0 <= / 2 ^ 53 <= / 4) by (split; [lra|apply Rinv_le_contravar; lra]).
  eapply Rle_trans; [apply (three_roundings _ d1 d2 d3 (/ 2 ^ 53)); tauto || lra|].
  apply Rmult_le_compat_r; [apply Rabs_pos|]. apply four_eps; exact He.
Qed.
