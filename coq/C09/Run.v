(* C09 — flat-integer interface of the model for the correspondence check.
   input : the decoded text of a .meta file (code points)
   output: [L] ++ s2v-section (L integers) ++ rest
     s2v-section : [0] on error | 1 :: rm :: rs :: maxint :: kind :: vectors
                   kind 0 (imec): enc_list conv ap ++ enc_list conv lf ; kind 1 (nidq): enc_list conv g
                   conv : CG (m,s) -> [0;m;s] | C1 -> [1;0;0]
     rest : [0] when read_meta_data raises, else
            1 :: enc(dict) ++ enc_str(write text) ++ [re-read equal?]
              ++ version ++ type ++ nchannels ++ sync ++ fs ++ ns ++ maxint ++ sample2volts-selector
              ++ major version ++ analog sync (count, first index when count > 0)
              ++ max int with neuropixel_version='3A' ++ max int with neuropixel_version='NP2.4' *)
From Coq Require Import ZArith List Bool.
From IBL.lib Require Import PyInt RunLib.
From IBL.C09 Require Import Model.
Import ListNotations.
Open Scope Z_scope.

Definition enc_str (s : str) : list Z := enc_zlist s.
Definition enc_dec (d : dec) : list Z := [fst d; Z.of_nat (snd d)].
Definition enc_value (v : value) : list Z :=
  match v with
  | VStr s => 0 :: enc_str s
  | VNum d => 1 :: enc_dec d
  | VList l => 2 :: enc_list enc_dec l
  | VInt z => [3; z]
  | VNone => [4]
  end.
Definition enc_entry (e : str * value) : list Z := enc_str (fst e) ++ enc_value (snd e).
Definition enc_dict (d : dict) : list Z := enc_list enc_entry d.
Definition enc_conv (c : conv) : list Z :=
  match c with CG g => 0 :: enc_dec g | C1 => [1; 0; 0] end.
Definition vers_idx (v : vers) : Z :=
  match v with V3A => 0 | V3B1 => 1 | V3B2 => 2 | VNP21 => 3 | VNP24 => 4 | VNPultra => 5 end.
Definition stream_idx (s : stream) : Z := match s with SAp => 1 | SLf => 2 | SNidq => 3 end.
Definition enc_zopt (o : option Z) : list Z := enc_option (fun z => [z]) o.

Definition enc_s2v (d : dict) : list Z :=
  match s2v d with
  | None => [0]
  | Some (r, mi, o) =>
      1 :: enc_dec r ++ mi ::
      match o with
      | S2Imec ap lf => 0 :: enc_list enc_conv ap ++ enc_list enc_conv lf
      | S2Nidq g => 1 :: enc_list enc_conv g
      end
  end.

Definition enc_derived (d : dict) : list Z :=
  enc_option (fun v => [vers_idx v]) (version d)
  ++ match get_type d with
     | None => [-1] | Some None => [0] | Some (Some s) => [stream_idx s] end
  ++ enc_zopt (nchannels d)
  ++ enc_option (fun p => [fst p; snd p]) (sync_indices d)
  ++ enc_option enc_value (get_fs d)
  ++ enc_zopt (get_ns d)
  ++ enc_zopt (max_int d)
  ++ match sample2volts d with
     | None => [0] | Some (_, _, l) => [1; Z.of_nat (length l)] end
  ++ enc_option (fun m => [match m with MJ1 => 1 | MJ2 => 2 | MJ24 => 3 | MJultra => 4 end]) (major_version d)
  ++ enc_option (fun p => [snd p; if 0 <? snd p then fst p else 0]) (analog_sync d)
  ++ enc_zopt (max_int_with (Some V3A) d) ++ enc_zopt (max_int_with (Some VNP24) d).

Definition run (inp : list Z) : list Z :=
  match read_meta inp with
  | None => [1; 0; 0]
  | Some d =>
      let s := enc_s2v d in
      let w := write_meta d in
      let rr := match read_meta w with
                | Some d' => zlist_eqb (enc_dict d') (enc_dict d)
                | None => false
                end in
      Z.of_nat (length s) :: s ++ 1 :: enc_dict d ++ enc_str w ++ [enc_bool rr] ++ enc_derived d
  end.

Definition mismatches := mismatches_of run.
