(* C09 — property theorems. *)
From Coq Require Import ZArith List Bool.
From IBL.C09 Require Import Model Proofs.
Import ListNotations.
Open Scope Z_scope.

(* tildes never survive in a key name *)
Theorem C09_untilde_no_tilde : forall k, ~ In 126 (untilde k).
Proof. exact untilde_no_tilde. Qed.
Print Assumptions C09_untilde_no_tilde.
