(* C09 — property theorems.  Only statements closed by `exact <lemma>` (or a short
   wrapper) and the Print Assumptions that the check collects.
   Text = list of code points; floats from literals = exact decimals (m, s) in
   normal form (faithful to Python for m < 10^15, s <= 290, see Model.v). *)
From Coq Require Import String ZArith List Bool.
From IBL.C09 Require Import Model Proofs.
Import ListNotations.
Open Scope Z_scope.

(* Round trip.  For EVERY text f that read_meta_data accepts (any characters, any
   separators, tilde and duplicate keys, '=' inside values, empty values, scalars
   of any size) whose list values hold integers — the property's grammar —
   writing the parsed dictionary and parsing the written file gives the same
   dictionary, entry for entry and in the same order. *)
Theorem C09_roundtrip : forall f d,
  read_meta f = Some d ->
  (forall k l, In (k, VList l) d -> Forall (fun x => snd x = O) l) ->
  read_meta (write_meta d) = Some d.
Proof. exact roundtrip_pub. Qed.
Print Assumptions C09_roundtrip.

(* The integer-list guard is necessary: a list holding a fraction is written
   through int() and does not come back (outside the property's grammar). *)
Theorem C09_roundtrip_fractional_list_refuted : exists f d,
  read_meta f = Some d /\ read_meta (write_meta d) <> Some d.
Proof.
  exists (lit "x=1.5,2"), [(lit "x", VList [(15, 1%nat); (2, O)]);
                           (lit "neuropixelVersion", VNone); (lit "serial", VNone)].
  split; [vm_compute; reflexivity|]. vm_compute. discriminate.
Qed.
Print Assumptions C09_roundtrip_fractional_list_refuted.

(* Keys of a parsed dictionary are unique and carry no tilde, no '=' and no
   line-break character. *)
Theorem C09_keys_clean : forall f d, read_meta f = Some d ->
  NoDup (map fst d) /\
  forall k, In k (map fst d) -> ~ In 126 k /\ ~ In 61 k /\ plain k = true.
Proof. exact read_meta_keys. Qed.
Print Assumptions C09_keys_clean.

(* Last key wins: the value stored under a key is that of the last line carrying
   it (after tilde removal), whatever the number of repetitions. *)
Theorem C09_last_key_wins : forall f es k,
  mapM parse_line (splitlines (univ_nl f)) = Some es ->
  read_base f = Some (dict_of es) /\ lookup k (dict_of es) = lookup k (rev es).
Proof.
  intros f es k H. split; [unfold read_base; now rewrite H|apply last_key_wins].
Qed.
Print Assumptions C09_last_key_wins.

(* Written numbers are read back as the same number: every decimal in normal
   form, however small (no exponent notation: F-C09-a repaired) or large. *)
Theorem C09_scalar_roundtrip : forall m s, 0 <= m -> (s = O \/ m mod 10 <> 0) ->
  parse_value (show_value (VNum (m, s))) = Some (VNum (m, s)).
Proof. intros m s H1 H2. apply (parse_value_num (m, s)). split; assumption. Qed.
Print Assumptions C09_scalar_roundtrip.

(* Probe generation: the decision table of _get_neuropixel_version_from_meta
   (priorities included; the codes are mutually exclusive). *)
Theorem C09_version_table : forall d,
  (has (lit "typeEnabled") d = true -> version d = Some V3A) /\
  (has (lit "typeEnabled") d = false -> lookup (lit "imDatPrb_type") d = None -> version d = None) /\
  (forall t, has (lit "typeEnabled") d = false -> lookup (lit "imDatPrb_type") d = Some t ->
     (val_eq_int t 0 = true ->
        version d = Some (if has (lit "imDatPrb_port") d && has (lit "imDatPrb_slot") d then V3B2 else V3B1)) /\
     (val_eq_int t 21 = true \/ val_eq_int t 1030 = true -> version d = Some VNP21) /\
     (val_eq_int t 24 = true \/ val_eq_int t 2013 = true -> version d = Some VNP24) /\
     (val_eq_int t 1100 = true -> version d = Some VNPultra) /\
     ((forall c, In c [0; 21; 1030; 24; 2013; 1100] -> val_eq_int t c = false) -> version d = None)).
Proof. exact version_table. Qed.
Print Assumptions C09_version_table.

(* Stream type from snsApLfSy = [nAP, nLF, nSY, ...] / typeThis. *)
Theorem C09_type_table : forall d,
  (forall a l rest, lookup (lit "snsApLfSy") d = Some (VList (a :: l :: rest)) ->
     (fst a = 0 -> fst l <> 0 -> get_type d = Some (Some SLf)) /\
     (fst a <> 0 -> fst l = 0 -> get_type d = Some (Some SAp)) /\
     ((fst a = 0 <-> fst l = 0) -> get_type d = Some None)) /\
  (lookup (lit "snsApLfSy") d = None ->
     get_type d = Some (if val_is_str (lookup (lit "typeThis") d) (lit "nidq") then Some SNidq else None)).
Proof. exact type_table. Qed.
Print Assumptions C09_type_table.

(* Channel count = nSavedChans; the sync traces are the last nSY of them. *)
Theorem C09_counts : forall d a l sy rest n st,
  lookup (lit "snsApLfSy") d = Some (VList (a :: l :: sy :: rest)) ->
  lookup (lit "nSavedChans") d = Some (VNum n) ->
  get_type d = Some (Some st) ->
  nchannels d = Some (dec_trunc n) /\
  sync_indices d = Some (dec_trunc n - dec_trunc sy, Z.max 0 (dec_trunc sy)).
Proof. exact counts_table. Qed.
Print Assumptions C09_counts.

(* ---- the hypotheses are satisfiable on non-trivial inputs *)
Definition nl : string := String (Ascii.ascii_of_nat 10) EmptyString.
Definition ex_file : str :=
  lit ("a=1.50" ++ nl ++ "~b=x=y" ++ nl ++ "snsApLfSy=384,0,1" ++ nl ++ "a=.25" ++ nl ++
       "imDatPrb_type=0" ++ nl ++ "imDatPrb_sn=0641" ++ nl ++ "e=0.00005" ++ nl ++ "nSavedChans=385" ++ nl).
Example ex_read : exists d, read_meta ex_file = Some d /\ length d = 9%nat /\
  lookup (lit "a") d = Some (VNum (25, 2%nat)) /\
  lookup (lit "b") d = Some (VStr (lit "x=y")) /\
  lookup (lit "e") d = Some (VNum (5, 5%nat)) /\
  lookup (lit "neuropixelVersion") d = Some (VStr (lit "3B1")) /\
  lookup (lit "serial") d = Some (VInt 641) /\
  get_type d = Some (Some SAp) /\ sync_indices d = Some (384, 1) /\
  read_meta (write_meta d) = Some d.
Proof. eexists. split; [vm_compute; reflexivity|]. vm_compute. repeat split. Qed.
