(* C09 — property theorems.  Only statements closed by `exact <lemma>` (or a short
   wrapper) and the Print Assumptions that the check collects.
   Text = list of code points; floats from literals = exact decimals (m, s) in
   normal form (faithful to Python for m < 10^15, s <= 290, see Model.v). *)
From Coq Require Import String ZArith List Bool.
From IBL.C09 Require Import Model Proofs.
Import ListNotations.
Open Scope Z_scope.

Definition nl : string := String (Ascii.ascii_of_nat 10) EmptyString.

(* Round trip.  For EVERY text f that read_meta_data accepts (any characters, any
   separators, tilde and duplicate keys, '=' inside values, empty values, scalars
   of any size) whose list values hold integers — the property's grammar —
   writing the parsed dictionary and parsing the written file gives the same
   dictionary, entry for entry and in the same order. *)
Theorem C09_roundtrip : forall f d,
  read_meta f = Some d ->
  (forall k l, In (k, VList l) d -> Forall (fun x => snd x = O) l) ->
  read_meta (write_meta d) = Some d.
Proof. exact roundtrip_pub. Qed.
Print Assumptions C09_roundtrip.

(* The integer-list guard is necessary: a list holding a fraction is written
   through int() and does not come back (outside the property's grammar). *)
Theorem C09_roundtrip_fractional_list_refuted : exists f d,
  read_meta f = Some d /\ read_meta (write_meta d) <> Some d.
Proof.
  exists (lit "x=1.5,2"), [(lit "x", VList [(15, 1%nat); (2, O)]);
                           (lit "neuropixelVersion", VNone); (lit "serial", VNone)].
  split; [vm_compute; reflexivity|]. vm_compute. discriminate.
Qed.
Print Assumptions C09_roundtrip_fractional_list_refuted.

(* Keys of a parsed dictionary are unique and carry no tilde, no '=' and no
   line-break character. *)
Theorem C09_keys_clean : forall f d, read_meta f = Some d ->
  NoDup (map fst d) /\
  forall k, In k (map fst d) -> ~ In 126 k /\ ~ In 61 k /\ plain k = true.
Proof. exact read_meta_keys. Qed.
Print Assumptions C09_keys_clean.

(* Last key wins: the value stored under a key is that of the last line carrying
   it (after tilde removal), whatever the number of repetitions. *)
Theorem C09_last_key_wins : forall f es k,
  mapM parse_line (splitlines (univ_nl f)) = Some es ->
  read_base f = Some (dict_of es) /\ lookup k (dict_of es) = lookup k (rev es).
Proof.
  intros f es k H. split; [unfold read_base; now rewrite H|apply last_key_wins].
Qed.
Print Assumptions C09_last_key_wins.

(* Written numbers are read back as the same number: every decimal in normal
   form, however small (no exponent notation: F-C09-a repaired) or large. *)
Theorem C09_scalar_roundtrip : forall m s, 0 <= m -> (s = O \/ m mod 10 <> 0) ->
  parse_value (show_value (VNum (m, s))) = Some (VNum (m, s)).
Proof. intros m s H1 H2. apply (parse_value_num (m, s)). split; assumption. Qed.
Print Assumptions C09_scalar_roundtrip.

(* Probe generation: the decision table of _get_neuropixel_version_from_meta
   (priorities included; the codes are mutually exclusive). *)
Theorem C09_version_table : forall d,
  (has (lit "typeEnabled") d = true -> version d = Some V3A) /\
  (has (lit "typeEnabled") d = false -> lookup (lit "imDatPrb_type") d = None -> version d = None) /\
  (forall t, has (lit "typeEnabled") d = false -> lookup (lit "imDatPrb_type") d = Some t ->
     (val_eq_int t 0 = true ->
        version d = Some (if has (lit "imDatPrb_port") d && has (lit "imDatPrb_slot") d then V3B2 else V3B1)) /\
     (val_eq_int t 21 = true \/ val_eq_int t 1030 = true -> version d = Some VNP21) /\
     (val_eq_int t 24 = true \/ val_eq_int t 2013 = true -> version d = Some VNP24) /\
     (val_eq_int t 1100 = true -> version d = Some VNPultra) /\
     ((forall c, In c [0; 21; 1030; 24; 2013; 1100] -> val_eq_int t c = false) -> version d = None)).
Proof. exact version_table. Qed.
Print Assumptions C09_version_table.

(* Stream type from snsApLfSy = [nAP, nLF, nSY, ...] / typeThis. *)
Theorem C09_type_table : forall d,
  (forall a l rest, lookup (lit "snsApLfSy") d = Some (VList (a :: l :: rest)) ->
     (fst a = 0 -> fst l <> 0 -> get_type d = Some (Some SLf)) /\
     (fst a <> 0 -> fst l = 0 -> get_type d = Some (Some SAp)) /\
     ((fst a = 0 <-> fst l = 0) -> get_type d = Some None)) /\
  (lookup (lit "snsApLfSy") d = None ->
     get_type d = Some (if val_is_str (lookup (lit "typeThis") d) (lit "nidq") then Some SNidq else None)).
Proof. exact type_table. Qed.
Print Assumptions C09_type_table.

(* Channel count = nSavedChans; the sync traces are the last nSY of them. *)
Theorem C09_counts : forall d a l sy rest n st,
  lookup (lit "snsApLfSy") d = Some (VList (a :: l :: sy :: rest)) ->
  lookup (lit "nSavedChans") d = Some (VNum n) ->
  get_type d = Some (Some st) ->
  nchannels d = Some (dec_trunc n) /\
  sync_indices d = Some (dec_trunc n - dec_trunc sy, Z.max 0 (dec_trunc sy)).
Proof. exact counts_table. Qed.
Print Assumptions C09_counts.

(* The IMRO scanner (re.findall of five blank-separated digit runs) returns, for
   EVERY table laid out as SpikeGLX writes it — header "(h1,h2,...)" then one
   "(chan bank ref apgain lfgain[ filter])" group per site — exactly the first
   five fields of every entry, in order. *)
Theorem C09_imro_scan : forall h es, imro_scan (imro_text h es) = map entry_runs es.
Proof. exact imro_scan_text. Qed.
Print Assumptions C09_imro_scan.

(* Volts per bit, Neuropixels 1.0 / Ultra streams, for every IMRO table and every
   saved-channel count n = nSavedChans - nSync: entry c < n of the AP (LF) vector
   is range / maxint / apgain_c (lfgain_c) of IMRO entry c, the following nSY
   entries are 1, nothing else.  (CG g denotes range/maxint/g; C1 denotes 1.) *)
Theorem C09_s2v_np1 : forall d rng mi v h es x y sy ntr st nsy,
  int2volt d = Some (rng, mi) ->
  lookup (lit "imroTbl") d = Some (VStr (imro_text h es)) ->
  lookup (lit "snsApLfSy") d = Some x -> py_index x (-1) = Some y -> py_int y = Some sy -> 0 <= sy ->
  nchannels d = Some ntr -> sync_indices d = Some (st, nsy) ->
  version d = Some v -> is_np2 v = false ->
  Forall (fun e => 0 <= ap_gain e) es -> Forall (fun e => 0 <= lf_gain e) es ->
  0 <= ntr - nsy ->
  let n := Z.to_nat (ntr - nsy) in
  s2v d = Some (rng, mi,
                S2Imec (map (fun e => CG (ap_gain e, O)) (firstn n es) ++ zrepeat C1 sy)
                       (map (fun e => CG (lf_gain e, O)) (firstn n es) ++ zrepeat C1 sy)).
Proof. exact s2v_np1. Qed.
Print Assumptions C09_s2v_np1.

(* Neuropixels 2.0: fixed gain 80 on every saved channel, 1 on sync. *)
Theorem C09_s2v_np2 : forall d rng mi v tbl x y sy ntr st nsy,
  int2volt d = Some (rng, mi) ->
  lookup (lit "imroTbl") d = Some tbl ->
  lookup (lit "snsApLfSy") d = Some x -> py_index x (-1) = Some y -> py_int y = Some sy -> 0 <= sy ->
  nchannels d = Some ntr -> sync_indices d = Some (st, nsy) ->
  version d = Some v -> is_np2 v = true -> 0 <= ntr - nsy ->
  let g := zrepeat (CG (80, O)) (ntr - nsy) ++ zrepeat C1 sy in
  s2v d = Some (rng, mi, S2Imec g g).
Proof. exact s2v_np2. Qed.
Print Assumptions C09_s2v_np2.

(* Entry-wise reading of such a vector: length n + nSY (= nSavedChans when the
   two sync counts agree), entry c < n carries the gain of IMRO entry c, entries
   n .. n+nSY-1 are 1. *)
Theorem C09_s2v_entries : forall (f : Z * Z * Z * Z * Z * option Z -> conv) es n sy c,
  (n <= length es)%nat ->
  let vec := map f (firstn n es) ++ zrepeat C1 sy in
  length vec = (n + Z.to_nat sy)%nat /\
  ((c < n)%nat -> nth_error vec c = option_map f (nth_error es c)) /\
  ((n <= c < n + Z.to_nat sy)%nat -> nth_error vec c = Some C1).
Proof. intros f es n sy c. exact (vector_entries f es n sy c). Qed.
Print Assumptions C09_s2v_entries.

(* Saved-channel subsets: the gains are those of IMRO entries 0..n-1 whatever
   channels were saved — with snsSaveChanSubset=2:3 and a non-uniform table the
   two saved channels get the gains of entries 0 and 1 (500), not of entries 2
   and 3 (250).  Confirmed on the implementation (known finding F-C09-b). *)
Definition subset_file : str :=
  lit ("typeThis=imec" ++ nl ++ "imDatPrb_type=0" ++ nl ++ "imAiRangeMax=0.6" ++ nl ++ "nSavedChans=3" ++ nl ++
       "snsApLfSy=2,0,1" ++ nl ++ "snsSaveChanSubset=2:3,8" ++ nl ++
       "~imroTbl=(0,4)(0 0 0 500 250 1)(1 0 0 500 250 1)(2 0 0 250 125 1)(3 0 0 250 125 1)" ++ nl).
Theorem C09_s2v_subset_refuted : exists d,
  read_meta subset_file = Some d /\
  lookup (lit "snsSaveChanSubset") d = Some (VStr (lit "2:3,8")) /\
  option_map (fun r => match snd r with S2Imec ap _ => ap | S2Nidq g => g end) (s2v d)
    = Some [CG (500, O); CG (500, O); C1].
Proof. eexists. split; [vm_compute; reflexivity|]. split; vm_compute; reflexivity. Qed.
Print Assumptions C09_s2v_subset_refuted.

(* ---- the hypotheses are satisfiable on non-trivial inputs *)
Definition ex_file : str :=
  lit ("a=1.50" ++ nl ++ "~b=x=y" ++ nl ++ "snsApLfSy=384,0,1" ++ nl ++ "a=.25" ++ nl ++
       "imDatPrb_type=0" ++ nl ++ "imDatPrb_sn=0641" ++ nl ++ "e=0.00005" ++ nl ++ "nSavedChans=385" ++ nl).
Example ex_read : exists d, read_meta ex_file = Some d /\ length d = 9%nat /\
  lookup (lit "a") d = Some (VNum (25, 2%nat)) /\
  lookup (lit "b") d = Some (VStr (lit "x=y")) /\
  lookup (lit "e") d = Some (VNum (5, 5%nat)) /\
  lookup (lit "neuropixelVersion") d = Some (VStr (lit "3B1")) /\
  lookup (lit "serial") d = Some (VInt 641) /\
  get_type d = Some (Some SAp) /\ sync_indices d = Some (384, 1) /\
  read_meta (write_meta d) = Some d.
Proof. eexists. split; [vm_compute; reflexivity|]. vm_compute. repeat split. Qed.
