(* C09 — property theorems.  Only statements closed by `exact <lemma>` (or a short
   wrapper) and the Print Assumptions that the check collects.
   Text = list of code points; floats from literals = exact decimals (m, s) in
   normal form (faithful to Python for m < 10^15, s <= 290, see Model.v). *)
From Coq Require Import String ZArith List Bool.
From IBL.C09 Require Import Model Proofs Grammar Tables Floats.
Import ListNotations.
Open Scope Z_scope.

Definition nl : string := String (Ascii.ascii_of_nat 10) EmptyString.

(* Round trip.  For EVERY text f that read_meta_data accepts (any characters, any
   separators, tilde and duplicate keys, '=' inside values, empty values, scalars
   of any size) whose list values hold integers — the property's grammar —
   writing the parsed dictionary and parsing the written file gives the same
   dictionary, entry for entry and in the same order. *)
Theorem C09_roundtrip : forall f d,
  read_meta f = Some d ->
  (forall k l, In (k, VList l) d -> Forall (fun x => snd x = O) l) ->
  read_meta (write_meta d) = Some d.
Proof. exact roundtrip_pub. Qed.
Print Assumptions C09_roundtrip.

(* The integer-list guard is necessary: a list holding a fraction is written
   through int() and does not come back (outside the property's grammar). *)
Theorem C09_roundtrip_fractional_list_refuted : exists f d,
  read_meta f = Some d /\ read_meta (write_meta d) <> Some d.
Proof.
  exists (lit "x=1.5,2"), [(lit "x", VList [(15, 1%nat); (2, O)]);
                           (lit "neuropixelVersion", VNone); (lit "serial", VNone)].
  split; [vm_compute; reflexivity|]. vm_compute. discriminate.
Qed.
Print Assumptions C09_roundtrip_fractional_list_refuted.

(* Keys of a parsed dictionary are unique and carry no tilde, no '=' and no
   line-break character. *)
Theorem C09_keys_clean : forall f d, read_meta f = Some d ->
  NoDup (map fst d) /\
  forall k, In k (map fst d) -> ~ In 126 k /\ ~ In 61 k /\ plain k = true.
Proof. exact read_meta_keys. Qed.
Print Assumptions C09_keys_clean.

(* Last key wins: the value stored under a key is that of the last line carrying
   it (after tilde removal), whatever the number of repetitions. *)
Theorem C09_last_key_wins : forall f es k,
  mapM parse_line (splitlines (univ_nl f)) = Some es ->
  read_base f = Some (dict_of es) /\ lookup k (dict_of es) = lookup k (rev es).
Proof.
  intros f es k H. split; [unfold read_base; now rewrite H|apply last_key_wins].
Qed.
Print Assumptions C09_last_key_wins.

(* Written numbers are read back as the same number: every decimal in normal
   form, however small (no exponent notation: F-C09-a repaired) or large. *)
Theorem C09_scalar_roundtrip : forall m s, 0 <= m -> (s = O \/ m mod 10 <> 0) ->
  parse_value (show_value (VNum (m, s))) = Some (VNum (m, s)).
Proof. intros m s H1 H2. apply (parse_value_num (m, s)). split; assumption. Qed.
Print Assumptions C09_scalar_roundtrip.

(* Probe generation: the decision table of _get_neuropixel_version_from_meta
   (priorities included; the codes are mutually exclusive). *)
Theorem C09_version_table : forall d,
  (has (lit "typeEnabled") d = true -> version d = Some V3A) /\
  (has (lit "typeEnabled") d = false -> lookup (lit "imDatPrb_type") d = None -> version d = None) /\
  (forall t, has (lit "typeEnabled") d = false -> lookup (lit "imDatPrb_type") d = Some t ->
     (val_eq_int t 0 = true ->
        version d = Some (if has (lit "imDatPrb_port") d && has (lit "imDatPrb_slot") d then V3B2 else V3B1)) /\
     (val_eq_int t 21 = true \/ val_eq_int t 1030 = true -> version d = Some VNP21) /\
     (val_eq_int t 24 = true \/ val_eq_int t 2013 = true -> version d = Some VNP24) /\
     (val_eq_int t 1100 = true -> version d = Some VNPultra) /\
     ((forall c, In c [0; 21; 1030; 24; 2013; 1100] -> val_eq_int t c = false) -> version d = None)).
Proof. exact version_table. Qed.
Print Assumptions C09_version_table.

(* Stream type from snsApLfSy = [nAP, nLF, nSY, ...] / typeThis. *)
Theorem C09_type_table : forall d,
  (forall a l rest, lookup (lit "snsApLfSy") d = Some (VList (a :: l :: rest)) ->
     (fst a = 0 -> fst l <> 0 -> get_type d = Some (Some SLf)) /\
     (fst a <> 0 -> fst l = 0 -> get_type d = Some (Some SAp)) /\
     ((fst a = 0 <-> fst l = 0) -> get_type d = Some None)) /\
  (lookup (lit "snsApLfSy") d = None ->
     get_type d = Some (if val_is_str (lookup (lit "typeThis") d) (lit "nidq") then Some SNidq else None)).
Proof. exact type_table. Qed.
Print Assumptions C09_type_table.

(* Channel count = nSavedChans; the sync traces are the last nSY of them. *)
Theorem C09_counts : forall d a l sy rest n st,
  lookup (lit "snsApLfSy") d = Some (VList (a :: l :: sy :: rest)) ->
  lookup (lit "nSavedChans") d = Some (VNum n) ->
  get_type d = Some (Some st) ->
  nchannels d = Some (dec_trunc n) /\
  sync_indices d = Some (dec_trunc n - dec_trunc sy, Z.max 0 (dec_trunc sy)).
Proof. exact counts_table. Qed.
Print Assumptions C09_counts.

(* The IMRO scanner (re.findall of five blank-separated digit runs) returns, for
   EVERY table laid out as SpikeGLX writes it — header "(h1,h2,...)" then one
   "(chan bank ref apgain lfgain[ filter])" group per site — exactly the first
   five fields of every entry, in order. *)
Theorem C09_imro_scan : forall h es, imro_scan (imro_text h es) = map entry_runs es.
Proof. exact imro_scan_text. Qed.
Print Assumptions C09_imro_scan.

(* Volts per bit, Neuropixels 1.0 / Ultra streams, for every IMRO table and every
   saved-channel count n = nSavedChans - nSync: entry c < n of the AP (LF) vector
   is range / maxint / apgain_c (lfgain_c) of IMRO entry c, the following nSY
   entries are 1, nothing else.  (CG g denotes range/maxint/g; C1 denotes 1.) *)
Theorem C09_s2v_np1 : forall d rng mi v h es x y sy ntr st nsy,
  int2volt d = Some (rng, mi) ->
  lookup (lit "imroTbl") d = Some (VStr (imro_text h es)) ->
  lookup (lit "snsApLfSy") d = Some x -> py_index x (-1) = Some y -> py_int y = Some sy -> 0 <= sy ->
  nchannels d = Some ntr -> sync_indices d = Some (st, nsy) ->
  version d = Some v -> is_np2 v = false ->
  Forall (fun e => 0 <= ap_gain e) es -> Forall (fun e => 0 <= lf_gain e) es ->
  0 <= ntr - nsy ->
  let n := Z.to_nat (ntr - nsy) in
  s2v d = Some (rng, mi,
                S2Imec (map (fun e => CG (ap_gain e, O)) (firstn n es) ++ zrepeat C1 sy)
                       (map (fun e => CG (lf_gain e, O)) (firstn n es) ++ zrepeat C1 sy)).
Proof. exact s2v_np1. Qed.
Print Assumptions C09_s2v_np1.

(* Neuropixels 2.0: fixed gain 80 on every saved channel, 1 on sync. *)
Theorem C09_s2v_np2 : forall d rng mi v tbl x y sy ntr st nsy,
  int2volt d = Some (rng, mi) ->
  lookup (lit "imroTbl") d = Some tbl ->
  lookup (lit "snsApLfSy") d = Some x -> py_index x (-1) = Some y -> py_int y = Some sy -> 0 <= sy ->
  nchannels d = Some ntr -> sync_indices d = Some (st, nsy) ->
  version d = Some v -> is_np2 v = true -> 0 <= ntr - nsy ->
  let g := zrepeat (CG (80, O)) (ntr - nsy) ++ zrepeat C1 sy in
  s2v d = Some (rng, mi, S2Imec g g).
Proof. exact s2v_np2. Qed.
Print Assumptions C09_s2v_np2.

(* Entry-wise reading of such a vector: length n + nSY (= nSavedChans when the
   two sync counts agree), entry c < n carries the gain of IMRO entry c, entries
   n .. n+nSY-1 are 1. *)
Theorem C09_s2v_entries : forall (f : Z * Z * Z * Z * Z * option Z -> conv) es n sy c,
  (n <= length es)%nat ->
  let vec := map f (firstn n es) ++ zrepeat C1 sy in
  length vec = (n + Z.to_nat sy)%nat /\
  ((c < n)%nat -> nth_error vec c = option_map f (nth_error es c)) /\
  ((n <= c < n + Z.to_nat sy)%nat -> nth_error vec c = Some C1).
Proof. intros f es n sy c. exact (vector_entries f es n sy c). Qed.
Print Assumptions C09_s2v_entries.

(* Saved-channel subsets: the gains are those of IMRO entries 0..n-1 whatever
   channels were saved — with snsSaveChanSubset=2:3 and a non-uniform table the
   two saved channels get the gains of entries 0 and 1 (500), not of entries 2
   and 3 (250).  Confirmed on the implementation (known finding F-C09-b). *)
Definition subset_file : str :=
  lit ("typeThis=imec" ++ nl ++ "imDatPrb_type=0" ++ nl ++ "imAiRangeMax=0.6" ++ nl ++ "nSavedChans=3" ++ nl ++
       "snsApLfSy=2,0,1" ++ nl ++ "snsSaveChanSubset=2:3,8" ++ nl ++
       "~imroTbl=(0,4)(0 0 0 500 250 1)(1 0 0 500 250 1)(2 0 0 250 125 1)(3 0 0 250 125 1)" ++ nl).
Theorem C09_s2v_subset_refuted : exists d,
  read_meta subset_file = Some d /\
  lookup (lit "snsSaveChanSubset") d = Some (VStr (lit "2:3,8")) /\
  option_map (fun r => match snd r with S2Imec ap _ => ap | S2Nidq g => g end) (s2v d)
    = Some [CG (500, O); CG (500, O); C1].
Proof. eexists. split; [vm_compute; reflexivity|]. split; vm_compute; reflexivity. Qed.
Print Assumptions C09_s2v_subset_refuted.

(* ------------------------------------------------------------------ round 2 *)

(* The property's grammar, and the round trip stated ON it.  A line is key=value
   with a key free of '=' and line breaks and a value that is a string (fails the
   numeric test; may be empty, may contain '='), a decimal scalar (digits with at
   most one dot, not just "."), or a list of >= 2 non-empty digit strings.  The two
   keys fed to int() (imProbeSN, imDatPrb_sn) hold a scalar or nothing.  For every
   text whose lines (under any separators) are such lines: read_meta_data succeeds,
   and writing + reading its result gives the same dictionary. *)
Theorem C09_roundtrip_grammar : forall f ls,
  splitlines (univ_nl f) = map line_text ls -> Forall gram_line ls -> serial_lines_ok ls ->
  exists d, read_meta f = Some d /\ read_meta (write_meta d) = Some d.
Proof. exact roundtrip_grammar. Qed.
Print Assumptions C09_roundtrip_grammar.

(* ... in particular for the file made of these lines, each terminated by "\n". *)
Theorem C09_roundtrip_grammar_lf : forall ls,
  Forall gram_line ls -> serial_lines_ok ls ->
  exists d, read_meta (concat (map (fun kv => line_text kv ++ [10]) ls)) = Some d /\
            read_meta (write_meta d) = Some d.
Proof. intros ls Hg Hs. apply (roundtrip_grammar _ ls); auto. now apply lf_file_lines. Qed.
Print Assumptions C09_roundtrip_grammar_lf.

(* Max int: nidq/other default 32768; imec needs a probe generation; NP2 requires
   imMaxInt; NP1/Ultra default 512. *)
Theorem C09_max_int_table : forall d,
  (is_imec d = false ->
     max_int d = match lookup (lit "imMaxInt") d with Some x => py_int x | None => Some 32768 end) /\
  (is_imec d = true -> version d = None -> max_int d = None) /\
  (forall v, is_imec d = true -> version d = Some v ->
     (is_np2 v = true ->
        max_int d = match lookup (lit "imMaxInt") d with Some x => py_int x | None => None end) /\
     (is_np2 v = false ->
        max_int d = match lookup (lit "imMaxInt") d with Some x => py_int x | None => Some 512 end)).
Proof. exact max_int_table. Qed.
Print Assumptions C09_max_int_table.

(* The optional neuropixel_version argument replaces the generation read from the dictionary
   (and is ignored for non-imec streams). *)
Theorem C09_max_int_with_table : forall d,
  max_int_with None d = max_int d /\
  (forall v, is_imec d = false -> max_int_with (Some v) d = max_int d) /\
  (forall v, is_imec d = true ->
     max_int_with (Some v) d =
       if is_np2 v then match lookup (lit "imMaxInt") d with Some x => py_int x | None => None end
       else match lookup (lit "imMaxInt") d with Some x => py_int x | None => Some 512 end).
Proof. exact max_int_with_table. Qed.
Print Assumptions C09_max_int_with_table.

(* Sampling rate and full-scale conversion read the imec or the ni field. *)
Theorem C09_fs_int2volt_table : forall d,
  get_fs d = (if is_imec d then lookup (lit "imSampRate") d else lookup (lit "niSampRate") d) /\
  (forall mi r, max_int d = Some mi -> mi <> 0 ->
     (if is_imec d then lookup (lit "imAiRangeMax") d else lookup (lit "niAiRangeMax") d) = Some (VNum r) ->
     int2volt d = Some (r, mi)).
Proof. intros d. split; [apply fs_table|intros mi r; apply int2volt_table]. Qed.
Print Assumptions C09_fs_int2volt_table.

(* Sample count: the integer nearest to fileTimeSecs * fs (exact product), ties to even. *)
Theorem C09_ns_spec : forall d m1 s1 m2 s2,
  lookup (lit "fileTimeSecs") d = Some (VNum (m1, s1)) -> get_fs d = Some (VNum (m2, s2)) ->
  exists r, get_ns d = Some r /\
    let p := pow10 (s1 + s2) in let m := m1 * m2 in
    2 * r * p - p <= 2 * m <= 2 * r * p + p /\
    (2 * m = 2 * r * p - p \/ 2 * m = 2 * r * p + p -> r mod 2 = 0).
Proof.
  intros d m1 s1 m2 s2 H1 H2. exists (round_half_even (m1 * m2) (s1 + s2)).
  split; [exact (ns_table d m1 s1 m2 s2 H1 H2)|apply round_half_even_spec].
Qed.
Print Assumptions C09_ns_spec.

(* nidq volts per bit: MN channels range/maxint/niMNGain, MA channels /niMAGain,
   XA channels gain 1, digital words 1; as many entries as snsMnMaXaDw announces. *)
Theorem C09_s2v_nidq : forall d rng mi gmn gma c0 c1 c2 c3,
  int2volt d = Some (rng, mi) ->
  lookup (lit "imroTbl") d = None ->
  lookup (lit "niMNGain") d = Some (VNum gmn) -> lookup (lit "niMAGain") d = Some (VNum gma) ->
  lookup (lit "snsMnMaXaDw") d = Some (VList [c0; c1; c2; c3]) ->
  0 <= dec_trunc c0 -> 0 <= dec_trunc c1 -> 0 <= dec_trunc c2 -> 0 <= dec_trunc c3 ->
  let vec := zrepeat (CG gmn) (dec_trunc c0) ++ zrepeat (CG gma) (dec_trunc c1) ++
             zrepeat (CG (1, O)) (dec_trunc c2) ++ zrepeat C1 (dec_trunc c3) in
  s2v d = Some (rng, mi, S2Nidq vec) /\
  Z.of_nat (length vec) = dec_trunc c0 + dec_trunc c1 + dec_trunc c2 + dec_trunc c3.
Proof.
  intros d rng mi gmn gma c0 c1 c2 c3 Hi Ht Hmn Hma Hx H0 H1 H2 H3 vec. split.
  - now apply s2v_nidq.
  - now apply nidq_vector_length.
Qed.
Print Assumptions C09_s2v_nidq.

(* Reader.sample2volts is the vector of the stream type. *)
Theorem C09_sample2volts_table : forall d r mi,
  (forall ap lf, s2v d = Some (r, mi, S2Imec ap lf) ->
     (get_type d = Some (Some SAp) -> sample2volts d = Some (r, mi, ap)) /\
     (get_type d = Some (Some SLf) -> sample2volts d = Some (r, mi, lf))) /\
  (forall g, s2v d = Some (r, mi, S2Nidq g) -> get_type d = Some (Some SNidq) ->
     sample2volts d = Some (r, mi, g)).
Proof. exact sample2volts_table. Qed.
Print Assumptions C09_sample2volts_table.

(* Serial number (part of the parsed dictionary): first truthy of imProbeSN,
   imDatPrb_sn, through int(); None when neither is. *)
Theorem C09_serial_table : forall d,
  (forall v, lookup (lit "imProbeSN") d = Some v -> truthy v = true ->
     serial d = option_map Some (py_int v)) /\
  ((lookup (lit "imProbeSN") d = None \/ exists v, lookup (lit "imProbeSN") d = Some v /\ truthy v = false) ->
     (forall w, lookup (lit "imDatPrb_sn") d = Some w -> truthy w = true ->
        serial d = option_map Some (py_int w)) /\
     ((lookup (lit "imDatPrb_sn") d = None \/
       exists w, lookup (lit "imDatPrb_sn") d = Some w /\ truthy w = false) -> serial d = Some None)).
Proof. exact serial_table. Qed.
Print Assumptions C09_serial_table.

(* Analog sync traces: none on imec streams; on nidq the XA channels, placed
   after the MN and MA channels. *)
Theorem C09_analog_sync_table : forall d,
  (forall st, get_type d = Some (Some st) -> st <> SNidq -> analog_sync d = Some (0, 0)) /\
  (forall m0 m1 m2 c3, get_type d = Some (Some SNidq) ->
     lookup (lit "snsMnMaXaDw") d = Some (VList [(m0, O); (m1, O); (m2, O); c3]) ->
     analog_sync d = Some (m0 + m1, Z.max 0 m2)).
Proof. exact analog_sync_table. Qed.
Print Assumptions C09_analog_sync_table.

(* Beyond 15 digits.  Over an ABSTRACT float type, assuming only
     (repr_roundtrip) rd (repr x) = x         float(format_float_positional(x)) == x
     (int_exact)      is_int x -> rd (int x) = x   float(str(int(x))) == x
   (and that repr prints a normal-form decimal), every written value re-reads as
   itself, and writing then reading ANY dictionary of strings, floats and
   integer-valued float lists is the identity — 17-digit doubles included. *)
Theorem C09_float_value_roundtrip :
  forall (F : Type) (rd : dec -> F) (repr : F -> dec) (is_int : F -> bool) (to_int : F -> Z),
  (forall x, normd (repr x)) -> (forall x, rd (repr x) = x) ->
  (forall x, is_int x = true -> 0 <= to_int x /\ rd (to_int x, O) = x) ->
  forall v, fcanon F is_int v ->
  option_map (fv_of F rd) (parse_value (fshow F repr is_int to_int v)) = Some v.
Proof. exact fvalue_roundtrip. Qed.
Print Assumptions C09_float_value_roundtrip.

Theorem C09_float_dict_roundtrip :
  forall (F : Type) (rd : dec -> F) (repr : F -> dec) (is_int : F -> bool) (to_int : F -> Z),
  (forall x, normd (repr x)) -> (forall x, rd (repr x) = x) ->
  (forall x, is_int x = true -> 0 <= to_int x /\ rd (to_int x, O) = x) ->
  forall d : fdict F,
  NoDup (map fst d) -> Forall (fun e => key_ok (fst e) /\ fcanon F is_int (snd e)) d ->
  fread_base F rd (fwrite F repr is_int to_int d) = Some d.
Proof. exact fdict_roundtrip. Qed.
Print Assumptions C09_float_dict_roundtrip.

(* ---- the hypotheses are satisfiable on non-trivial inputs *)
Definition ex_file : str :=
  lit ("a=1.50" ++ nl ++ "~b=x=y" ++ nl ++ "snsApLfSy=384,0,1" ++ nl ++ "a=.25" ++ nl ++
       "imDatPrb_type=0" ++ nl ++ "imDatPrb_sn=0641" ++ nl ++ "e=0.00005" ++ nl ++ "nSavedChans=385" ++ nl).
Example ex_read : exists d, read_meta ex_file = Some d /\ length d = 9%nat /\
  lookup (lit "a") d = Some (VNum (25, 2%nat)) /\
  lookup (lit "b") d = Some (VStr (lit "x=y")) /\
  lookup (lit "e") d = Some (VNum (5, 5%nat)) /\
  lookup (lit "neuropixelVersion") d = Some (VStr (lit "3B1")) /\
  lookup (lit "serial") d = Some (VInt 641) /\
  get_type d = Some (Some SAp) /\ sync_indices d = Some (384, 1) /\
  read_meta (write_meta d) = Some d.
Proof. eexists. split; [vm_compute; reflexivity|]. vm_compute. repeat split. Qed.

(* the grammar hypotheses hold for a file with every kind of value *)
Example ex_grammar :
  let ls := [(lit "a", lit "1.50"); (lit "~b", lit "x=y"); (lit "snsApLfSy", lit "384,0,1");
             (lit "e", lit ".5"); (lit "n", lit "5."); (lit "empty", []); (lit "imDatPrb_sn", lit "0641")] in
  Forall gram_line ls /\ serial_lines_ok ls.
Proof.
  cbv zeta. split.
  - assert (K : forall k v, forallb (fun c => negb (c =? 61)) k = true -> plain k = true ->
                gram_value v -> gram_line (k, v)) by (intros; repeat split; assumption).
    repeat (apply Forall_cons; [apply K; [reflexivity|reflexivity|]|]); [| | | | | | |apply Forall_nil].
    + right. left. right. exists (lit "1"), (lit "50"). repeat split; try reflexivity. left; discriminate.
    + left. split; reflexivity.
    + right. right. exists [lit "384"; lit "0"; lit "1"]. split; [cbn; auto|]. split; [|reflexivity].
      repeat (apply Forall_cons; [split; [reflexivity|discriminate]|]). apply Forall_nil.
    + right. left. right. exists [], (lit "5"). repeat split; try reflexivity. right; discriminate.
    + right. left. right. exists (lit "5"), []. repeat split; try reflexivity. left; discriminate.
    + left. split; reflexivity.
    + right. left. left. split; [reflexivity|discriminate].
  - intros k v Hin Hk. cbn [In] in Hin. repeat destruct Hin as [Hin|Hin]; try contradiction.
    all: injection Hin as <- <-.
    all: try (exfalso; unfold serial_keys in Hk; cbn [In] in Hk;
              repeat (destruct Hk as [Hk|Hk]; [discriminate Hk|]); exact Hk).
    left. left. split; [reflexivity|discriminate].
Qed.

(* ---- round 3: every theorem with hypotheses has a concrete non-trivial instance *)
Definition np1_file : str :=
  lit ("typeThis=imec" ++ nl ++ "imDatPrb_type=0" ++ nl ++ "imDatPrb_port=1" ++ nl ++ "imDatPrb_slot=2" ++ nl ++
       "imAiRangeMax=0.6" ++ nl ++ "imSampRate=30000.5" ++ nl ++ "fileTimeSecs=2.5" ++ nl ++
       "nSavedChans=4" ++ nl ++ "snsApLfSy=3,0,1" ++ nl ++
       "~imroTbl=(0,4)(0 0 0 500 250 1)(1 0 0 50 125 1)(2 0 0 1000 250 1)(3 0 0 250 125 1)" ++ nl).
Definition np1_entries : list (Z * Z * Z * Z * Z * option Z) :=
  [(0, 0, 0, 500, 250, Some 1); (1, 0, 0, 50, 125, Some 1); (2, 0, 0, 1000, 250, Some 1); (3, 0, 0, 250, 125, Some 1)].
(* hypotheses of C09_s2v_np1 / C09_counts / C09_ns_spec / C09_max_int_table / C09_sample2volts_table *)
Example ex_np1 : exists d, read_meta np1_file = Some d /\
  lookup (lit "imroTbl") d = Some (VStr (imro_text [0; 4] np1_entries)) /\
  int2volt d = Some ((6, 1%nat), 512) /\ version d = Some V3B2 /\ is_np2 V3B2 = false /\
  get_type d = Some (Some SAp) /\ nchannels d = Some 4 /\ sync_indices d = Some (3, 1) /\
  lookup (lit "snsApLfSy") d = Some (VList [(3, O); (0, O); (1, O)]) /\
  py_index (VList [(3, O); (0, O); (1, O)]) (-1) = Some (VNum (1, O)) /\
  is_imec d = true /\ max_int d = Some 512 /\
  lookup (lit "fileTimeSecs") d = Some (VNum (25, 1%nat)) /\ get_fs d = Some (VNum (300005, 1%nat)) /\
  get_ns d = Some 75001 /\
  option_map (fun r => snd r) (s2v d) =
    Some (S2Imec [CG (500, O); CG (50, O); CG (1000, O); C1] [CG (250, O); CG (125, O); CG (250, O); C1]) /\
  option_map (fun r => snd r) (sample2volts d) = Some [CG (500, O); CG (50, O); CG (1000, O); C1].
Proof. eexists. split; [vm_compute; reflexivity|]. repeat split; vm_compute; reflexivity. Qed.

Definition np2_file : str :=
  lit ("typeThis=imec" ++ nl ++ "imDatPrb_type=24" ++ nl ++ "imAiRangeMax=0.5" ++ nl ++ "imMaxInt=8192" ++ nl ++
       "nSavedChans=3" ++ nl ++ "snsApLfSy=0,3,0" ++ nl ++ "~imroTbl=(24,3)(0 0 0 0 0)(1 0 0 0 1)(2 0 0 0 2)" ++ nl).
(* hypotheses of C09_s2v_np2: NP2.4, LF stream, no sync channel saved *)
Example ex_np2 : exists d, read_meta np2_file = Some d /\
  version d = Some VNP24 /\ int2volt d = Some ((5, 1%nat), 8192) /\ sync_indices d = Some (3, 0) /\
  option_map (fun r => snd r) (s2v d) =
    Some (S2Imec [CG (80, O); CG (80, O); CG (80, O)] [CG (80, O); CG (80, O); CG (80, O)]).
Proof. eexists. split; [vm_compute; reflexivity|]. repeat split; vm_compute; reflexivity. Qed.

Definition nidq_file : str :=
  lit ("typeThis=nidq" ++ nl ++ "niAiRangeMax=5" ++ nl ++ "niMNGain=200" ++ nl ++ "niMAGain=2.5" ++ nl ++
       "snsMnMaXaDw=2,1,2,1" ++ nl ++ "nSavedChans=6" ++ nl ++ "niSampRate=30003.0003" ++ nl).
(* hypotheses of C09_s2v_nidq / C09_analog_sync_table / C09_type_table (nidq row) *)
Example ex_nidq : exists d, read_meta nidq_file = Some d /\
  lookup (lit "imroTbl") d = None /\ get_type d = Some (Some SNidq) /\ is_imec d = false /\
  int2volt d = Some ((5, O), 32768) /\ analog_sync d = Some (3, 2) /\ sync_indices d = Some (5, 1) /\
  option_map (fun r => snd r) (s2v d) =
    Some (S2Nidq [CG (200, O); CG (200, O); CG (25, 1%nat); CG (1, O); CG (1, O); C1]).
Proof. eexists. split; [vm_compute; reflexivity|]. repeat split; vm_compute; reflexivity. Qed.

(* hypotheses of C09_serial_table: both keys present, the first one falsy *)
Example ex_serial : exists d,
  read_meta (lit ("imProbeSN=0" ++ nl ++ "imDatPrb_sn=18005116811" ++ nl)) = Some d /\
  lookup (lit "serial") d = Some (VInt 18005116811).
Proof. eexists. split; vm_compute; reflexivity. Qed.

(* hypotheses of C09_float_*_roundtrip are consistent: a (small) float type satisfying them — the
   naturals with rd = truncation; binary64 with NumPy's shortest-digits printing is the intended one *)
Example ex_float_hyps :
  let rd := fun d : dec => Z.to_nat (dec_trunc d) in
  let repr := fun n : nat => (Z.of_nat n, O) in
  (forall x, normd (repr x)) /\ (forall x, rd (repr x) = x) /\
  (forall x, true = true -> 0 <= Z.of_nat x /\ rd (Z.of_nat x, O) = x).
Proof.
  cbv zeta. assert (E : forall x : nat, Z.to_nat (dec_trunc (Z.of_nat x, O)) = x).
  { intros x. rewrite dec_trunc_int by reflexivity. cbn [fst]. apply Nat2Z.id. }
  split; [|split].
  - intros x. split; [apply Nat2Z.is_nonneg|now left].
  - exact E.
  - intros x _. split; [apply Nat2Z.is_nonneg|apply E].
Qed.
