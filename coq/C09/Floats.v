(* C09 — the write/read layer over an ABSTRACT binary float type.
   The decimal model of Model.v is faithful to Python for literals of at most
   15 significant digits.  Here the float type is abstract and the only facts
   used about it are explicit hypotheses (named in the trusted base):
     repr_roundtrip : float(np.format_float_positional(x, trim='-')) == x   (shortest-digits output re-reads as x)
     int_exact      : float(str(int(x))) == x for integer-valued x           (integers convert exactly)
   Under them, writing ANY dictionary of strings / floats / integer lists and
   reading it back gives the same dictionary — 16- and 17-digit doubles included. *)
From Coq Require Import String ZArith List Bool Lia.
From IBL.C09 Require Import Model Proofs.
Import ListNotations.
Open Scope Z_scope.

Section FloatRepr.
  Variable F : Type.                 (* finite binary floats >= 0 *)
  Variable rd : dec -> F.            (* float(literal) *)
  Variable repr : F -> dec.          (* digits printed by format_float_positional(unique=True) *)
  Variable is_int : F -> bool.       (* x.is_integer() *)
  Variable to_int : F -> Z.          (* int(x) *)
  Hypothesis repr_norm : forall x, normd (repr x).
  Hypothesis repr_roundtrip : forall x, rd (repr x) = x.
  Hypothesis int_exact : forall x, is_int x = true -> 0 <= to_int x /\ rd (to_int x, O) = x.
  Set Default Proof Using "repr_norm repr_roundtrip int_exact".

  Inductive fvalue := FStr (s : str) | FNum (x : F) | FList (xs : list F).
  Definition fdict := list (str * fvalue).

  (* write_meta_data on Python values *)
  Definition fshow (v : fvalue) : str :=
    match v with
    | FStr s => s
    | FNum x => if is_int x then print_int (to_int x) else print_dec (repr x)
    | FList xs => join [44] (map (fun x => print_int (to_int x)) xs)
    end.
  Definition fwrite (d : fdict) : str :=
    concat (map (fun e => fst e ++ [61] ++ fshow (snd e) ++ [10]) d).
  (* read_meta_data's key=value layer, numbers rounded to floats *)
  Definition fv_of (v : value) : fvalue :=
    match v with
    | VStr s => FStr s
    | VNum d => FNum (rd d)
    | VList l => FList (map rd l)
    | VInt z => FNum (rd (z, O))
    | VNone => FStr []
    end.
  Definition fread_base (f : str) : option fdict :=
    option_map (map (fun e => (fst e, fv_of (snd e)))) (read_base f).

  Definition fcanon (v : fvalue) : Prop :=
    match v with
    | FStr s => numeric s = false /\ plain s = true
    | FNum _ => True
    | FList xs => (2 <= length xs)%nat /\ Forall (fun x => is_int x = true) xs
    end.

  (* the decimal value whose text is the same *)
  Definition dv_of (v : fvalue) : value :=
    match v with
    | FStr s => VStr s
    | FNum x => VNum (if is_int x then (to_int x, O) else repr x)
    | FList xs => VList (map (fun x => (to_int x, O)) xs)
    end.

  Lemma dv_show v : fcanon v -> show_value (dv_of v) = fshow v.
  Proof.
    destruct v as [s|x|xs]; cbn [dv_of show_value fshow fcanon]; [reflexivity| |].
    - intros _. destruct (is_int x) eqn:E; [|reflexivity].
      destruct (int_exact x E) as [H0 _]. cbn [print_dec]. now rewrite print_int_nonneg.
    - intros [_ HF]. f_equal. rewrite map_map. apply map_ext. intros x.
      now rewrite dec_trunc_int.
  Qed.

  Lemma dv_ok v : fcanon v -> val_ok (dv_of v) /\ int_lists_val (dv_of v).
  Proof.
    destruct v as [s|x|xs]; cbn [dv_of fcanon val_ok int_lists_val].
    - auto.
    - intros _. split; [|exact I]. destruct (is_int x) eqn:E; [|apply repr_norm].
      destruct (int_exact x E) as [H0 _]. split; cbn; auto.
    - intros [HL HF]. split; [split|].
      + now rewrite map_length.
      + apply Forall_forall. intros d Hd. apply in_map_iff in Hd as [x [<- Hx]].
        rewrite Forall_forall in HF. destruct (int_exact x (HF x Hx)) as [H0 _]. split; cbn; auto.
      + apply Forall_forall. intros d Hd. apply in_map_iff in Hd as [x [<- _]]. reflexivity.
  Qed.

  Lemma fv_dv v : fcanon v -> fv_of (dv_of v) = v.
  Proof.
    destruct v as [s|x|xs]; cbn [dv_of fv_of fcanon]; [reflexivity| |].
    - intros _. f_equal. destruct (is_int x) eqn:E; [now destruct (int_exact x E)|apply repr_roundtrip].
    - intros [_ HF]. f_equal. rewrite map_map. rewrite <- (map_id xs) at 2. apply map_ext_in.
      intros x Hx. rewrite Forall_forall in HF. now destruct (int_exact x (HF x Hx)).
  Qed.

  (* one value: the text written for it parses, after rounding, to the value itself *)
  Lemma fvalue_roundtrip v : fcanon v -> option_map fv_of (parse_value (fshow v)) = Some v.
  Proof.
    intros Hc. destruct (dv_ok v Hc) as [Hok Hi]. rewrite <- (dv_show v Hc).
    destruct (parse_show (dv_of v) Hok) as [-> _]. cbn [option_map].
    now rewrite (reparse_int_lists _ Hi), (fv_dv v Hc).
  Qed.

  (* whole dictionaries *)
  Lemma fdict_roundtrip (d : fdict) :
    NoDup (map fst d) -> Forall (fun e => key_ok (fst e) /\ fcanon (snd e)) d ->
    fread_base (fwrite d) = Some d.
  Proof.
    intros Hnd Hd. set (dd := map (fun e => (fst e, dv_of (snd e))) d).
    assert (Hw : fwrite d = write_meta dd).
    { unfold fwrite, write_meta, dd. rewrite map_map. f_equal. apply map_ext_in. intros [k v] He.
      unfold write_line. cbn [fst snd]. rewrite Forall_forall in Hd. destruct (Hd _ He) as [_ Hc].
      now rewrite (dv_show v Hc). }
    assert (Hk : keys dd = map fst d) by (unfold keys, dd; rewrite map_map; reflexivity).
    unfold fread_base. rewrite Hw, read_base_written.
    - cbn [option_map]. f_equal. unfold dd. rewrite !map_map. rewrite <- (map_id d) at 2.
      apply map_ext_in. intros [k v] He. cbn [fst snd]. f_equal.
      rewrite Forall_forall in Hd. destruct (Hd _ He) as [_ Hc]. cbn [snd] in Hc.
      destruct (dv_ok v Hc) as [Hok Hi]. unfold rp. destruct (parse_show _ Hok) as [-> _].
      now rewrite (reparse_int_lists _ Hi), (fv_dv v Hc).
    - now rewrite Hk.
    - unfold dd. apply Forall_forall. intros e He. apply in_map_iff in He as [[k v] [<- He]].
      cbn [fst snd]. rewrite Forall_forall in Hd. destruct (Hd _ He) as [Hkk Hc]. split; [exact Hkk|].
      destruct (dv_ok v Hc) as [Hok _]. destruct (parse_show _ Hok) as [E P]. split; [congruence|exact P].
  Qed.
End FloatRepr.
