(* C09 — decision tables of the remaining derived quantities: max int, sampling
   rate, sample count, full-scale conversion, nidq volts-per-bit, serial number,
   analog sync traces. *)
From Coq Require Import String ZArith List Bool Lia.
From IBL.C09 Require Import Model Proofs.
Import ListNotations.
Open Scope Z_scope.

Lemma max_int_table d :
  (is_imec d = false ->
     max_int d = match lookup (lit "imMaxInt") d with Some x => py_int x | None => Some 32768 end) /\
  (is_imec d = true -> version d = None -> max_int d = None) /\
  (forall v, is_imec d = true -> version d = Some v ->
     (is_np2 v = true ->
        max_int d = match lookup (lit "imMaxInt") d with Some x => py_int x | None => None end) /\
     (is_np2 v = false ->
        max_int d = match lookup (lit "imMaxInt") d with Some x => py_int x | None => Some 512 end)).
Proof.
  unfold max_int. split; [intros ->; reflexivity|]. split; [intros -> ->; reflexivity|].
  intros v -> ->. split; intros ->; reflexivity.
Qed.

Lemma fs_table d :
  get_fs d = if is_imec d then lookup (lit "imSampRate") d else lookup (lit "niSampRate") d.
Proof. reflexivity. Qed.

Lemma int2volt_table d mi r :
  max_int d = Some mi -> mi <> 0 ->
  (if is_imec d then lookup (lit "imAiRangeMax") d else lookup (lit "niAiRangeMax") d) = Some (VNum r) ->
  int2volt d = Some (r, mi).
Proof.
  intros Hm Hz Hr. unfold int2volt. rewrite Hm, Hr. apply Z.eqb_neq in Hz. now rewrite Hz.
Qed.

(* round half to even of the exact quotient m / 10^s: r is a nearest integer, and on a tie r is even *)
Lemma round_half_even_spec m s :
  let p := pow10 s in let r := round_half_even m s in
  2 * r * p - p <= 2 * m <= 2 * r * p + p /\
  (2 * m = 2 * r * p - p \/ 2 * m = 2 * r * p + p -> r mod 2 = 0).
Proof.
  cbv zeta. unfold round_half_even. pose proof (pow10_pos s) as Hp. set (p := pow10 s) in *.
  pose proof (Z.div_mod m p ltac:(lia)) as Hdm. pose proof (Z.mod_pos_bound m p Hp) as Hb.
  set (q := m / p) in *. set (rr := m mod p) in *.
  pose proof (Z.div_mod q 2 ltac:(lia)) as Hq2. pose proof (Z.mod_pos_bound q 2 ltac:(lia)) as Hb2.
  destruct (Z.ltb_spec (2 * rr) p) as [H1|H1]; [split; [nia|intros [H|H]; nia]|].
  destruct (Z.ltb_spec p (2 * rr)) as [H2|H2]; [split; [nia|intros [H|H]; nia]|].
  assert (E : 2 * rr = p) by lia.
  assert (Hc : q mod 2 = 0 \/ q mod 2 = 1) by lia.
  destruct Hc as [Hc|Hc]; rewrite Hc.
  - split; [nia|]. intros _. rewrite Z.add_0_r. exact Hc.
  - split; [nia|]. intros _. apply Z.mod_divide; [lia|]. exists (q / 2 + 1). lia.
Qed.

Lemma ns_table d m1 s1 m2 s2 :
  lookup (lit "fileTimeSecs") d = Some (VNum (m1, s1)) -> get_fs d = Some (VNum (m2, s2)) ->
  get_ns d = Some (round_half_even (m1 * m2) (s1 + s2)).
Proof. intros H1 H2. unfold get_ns. now rewrite H1, H2. Qed.

(* nidq volts per bit *)
Lemma py_nth_4 {A} (a b c e : A) :
  py_nth [a; b; c; e] 0 = Some a /\ py_nth [a; b; c; e] 1 = Some b /\
  py_nth [a; b; c; e] 2 = Some c /\ py_nth [a; b; c; e] 3 = Some e /\
  py_nth [a; b; c; e] (-1) = Some e /\ py_nth [a; b; c; e] (-2) = Some c.
Proof. repeat split; reflexivity. Qed.

Lemma s2v_nidq d rng mi gmn gma c0 c1 c2 c3 :
  int2volt d = Some (rng, mi) ->
  lookup (lit "imroTbl") d = None ->
  lookup (lit "niMNGain") d = Some (VNum gmn) -> lookup (lit "niMAGain") d = Some (VNum gma) ->
  lookup (lit "snsMnMaXaDw") d = Some (VList [c0; c1; c2; c3]) ->
  0 <= dec_trunc c0 -> 0 <= dec_trunc c1 -> 0 <= dec_trunc c2 ->
  s2v d = Some (rng, mi,
                S2Nidq (zrepeat (CG gmn) (dec_trunc c0) ++ zrepeat (CG gma) (dec_trunc c1) ++
                        zrepeat (CG (1, O)) (dec_trunc c2) ++ zrepeat C1 (dec_trunc c3))).
Proof.
  intros Hi Ht Hmn Hma Hx H0 H1 H2. unfold s2v. rewrite Hi, Ht, Hmn, Hx, Hma.
  destruct (py_nth_4 c0 c1 c2 c3) as [E0 [E1 [E2 [E3 _]]]].
  cbn [py_index]. rewrite E0, E1, E2, E3. cbn [option_map py_int].
  destruct (Z.ltb_spec (dec_trunc c0) 0); [lia|]. destruct (Z.ltb_spec (dec_trunc c1) 0); [lia|].
  destruct (Z.ltb_spec (dec_trunc c2) 0); [lia|]. reflexivity.
Qed.

Lemma nidq_vector_length (gmn gma : dec) n0 n1 n2 n3 :
  0 <= n0 -> 0 <= n1 -> 0 <= n2 -> 0 <= n3 ->
  Z.of_nat (length (zrepeat (CG gmn) n0 ++ zrepeat (CG gma) n1 ++ zrepeat (CG (1, O)) n2 ++ zrepeat C1 n3))
  = n0 + n1 + n2 + n3.
Proof.
  intros. unfold zrepeat. rewrite !app_length, !repeat_length. lia.
Qed.

(* Reader.sample2volts picks the vector of the stream type *)
Lemma sample2volts_table d r mi :
  (forall ap lf, s2v d = Some (r, mi, S2Imec ap lf) ->
     (get_type d = Some (Some SAp) -> sample2volts d = Some (r, mi, ap)) /\
     (get_type d = Some (Some SLf) -> sample2volts d = Some (r, mi, lf))) /\
  (forall g, s2v d = Some (r, mi, S2Nidq g) -> get_type d = Some (Some SNidq) ->
     sample2volts d = Some (r, mi, g)).
Proof.
  unfold sample2volts. split.
  - intros ap lf ->. split; intros ->; reflexivity.
  - intros g -> ->. reflexivity.
Qed.

(* serial number: first truthy of imProbeSN / imDatPrb_sn, through int() *)
Lemma serial_table d :
  (forall v, lookup (lit "imProbeSN") d = Some v -> truthy v = true ->
     serial d = option_map Some (py_int v)) /\
  ((lookup (lit "imProbeSN") d = None \/ exists v, lookup (lit "imProbeSN") d = Some v /\ truthy v = false) ->
     (forall w, lookup (lit "imDatPrb_sn") d = Some w -> truthy w = true ->
        serial d = option_map Some (py_int w)) /\
     ((lookup (lit "imDatPrb_sn") d = None \/
       exists w, lookup (lit "imDatPrb_sn") d = Some w /\ truthy w = false) -> serial d = Some None)).
Proof.
  unfold serial. split.
  - intros v -> Ht. rewrite Ht. cbv beta iota. now rewrite Ht.
  - intros H. assert (E : match lookup (lit "imProbeSN") d with
                          | Some v => if truthy v then Some v else lookup (lit "imDatPrb_sn") d
                          | None => lookup (lit "imDatPrb_sn") d end = lookup (lit "imDatPrb_sn") d).
    { destruct H as [->|[v [-> Ht]]]; [reflexivity|now rewrite Ht]. }
    rewrite E. split.
    + intros w -> Ht. now rewrite Ht.
    + intros [->|[w [-> Ht]]]; [reflexivity|now rewrite Ht].
Qed.

(* analog sync traces of a nidq stream: after the MN and MA channels, XA of them *)
Lemma analog_sync_table d :
  (forall st, get_type d = Some (Some st) -> st <> SNidq -> analog_sync d = Some (0, 0)) /\
  (forall m0 m1 m2 c3, get_type d = Some (Some SNidq) ->
     lookup (lit "snsMnMaXaDw") d = Some (VList [(m0, O); (m1, O); (m2, O); c3]) ->
     analog_sync d = Some (m0 + m1, Z.max 0 m2)).
Proof.
  unfold analog_sync. split.
  - intros st -> Hs. destruct st; congruence.
  - intros m0 m1 m2 c3 -> ->. unfold dec in *. destruct (py_nth_4 (A:=(Z * nat)%type) (m0, O) (m1, O) (m2, O) c3) as [_ [_ [_ [_ [_ E]]]]].
    rewrite E. unfold dec_trunc, dec_add. cbn [fst snd fold_left firstn Nat.add].
    rewrite !pow10_0, !Z.div_1_r. do 2 f_equal. lia.
Qed.

(* the optional neuropixel_version argument of _get_max_int_from_meta *)
Lemma max_int_with_table d :
  max_int_with None d = max_int d /\
  (forall v, is_imec d = false -> max_int_with (Some v) d = max_int d) /\
  (forall v, is_imec d = true ->
     max_int_with (Some v) d =
       if is_np2 v then match lookup (lit "imMaxInt") d with Some x => py_int x | None => None end
       else match lookup (lit "imMaxInt") d with Some x => py_int x | None => Some 512 end).
Proof.
  unfold max_int_with, max_int. split; [reflexivity|]. split; intros v ->; reflexivity.
Qed.
