(* C09 — property theorems over the reals: the rounding-error budget that justifies treating the two
   float computations of the property exactly (harness tolerance 1e-6 relative for sample2volts; exact
   product for Reader.ns).  These use the standard library's real numbers, hence its axioms. *)
From Coq Require Import Reals Lra.
From IBL.C09 Require Import FloatErr.
Open Scope R_scope.

(* sample2volts in float32: fl( fl(1/g) * fl(range/maxint) ) with every rounding within 2^-24 relative
   (IEEE standard model, no underflow; integer gains below 2^24 convert exactly) is within 1e-6 relative
   of range/maxint/g — the tolerance the harness uses; any wrong gain is off by >= 2 %. *)
Theorem C09_s2v_float32_budget : forall v g d1 d2 d3,
  g <> 0 -> Rabs d1 <= / 2 ^ 24 -> Rabs d2 <= / 2 ^ 24 -> Rabs d3 <= / 2 ^ 24 ->
  Rabs ((1 / g * (1 + d1)) * (v * (1 + d2)) * (1 + d3) - v / g) <= 1 / 1000000 * Rabs (v / g).
Proof. exact s2v_float32_budget. Qed.
Print Assumptions C09_s2v_float32_budget.

(* Reader.ns in float64: fl( fl(fileTimeSecs) * fl(fs) ) is within 4 * 2^-53 relative of the exact
   product (so within 1e-3 absolute for products below 2e12: the exact and the float product round to
   the same integer unless the exact product is that close to a tie). *)
Theorem C09_ns_float64_budget : forall a b d1 d2 d3,
  Rabs d1 <= / 2 ^ 53 -> Rabs d2 <= / 2 ^ 53 -> Rabs d3 <= / 2 ^ 53 ->
  Rabs ((a * (1 + d1)) * (b * (1 + d2)) * (1 + d3) - a * b) <= 4 * / 2 ^ 53 * Rabs (a * b).
Proof. exact ns_float64_budget. Qed.
Print Assumptions C09_ns_float64_budget.

(* hypotheses satisfiable: exact operations (all d = 0) *)
Example ex_budget : Rabs 0 <= / 2 ^ 24 /\ Rabs 0 <= / 2 ^ 53 /\ (500 : R) <> 0.
Proof. rewrite Rabs_R0. repeat split; try lra; left; apply Rinv_0_lt_compat; lra. Qed.
