(* C09 — executable model of the SpikeGLX metadata layer of /repo/src/spikeglx.py
   (current tree, after fix 2f9cfd2): read_meta_data, write_meta_data and the
   quantities derived from the dictionary.  Definitions only.

   Text   : a Python str = list of code points (Z).
   Numbers: a float obtained from a literal over [0-9.] is the exact decimal
            (m, s) = m / 10^s in normal form (s = 0 or m mod 10 <> 0).  This is
            faithful to Python's float/str/np.format_float_positional for
            literals with m < 10^15 and s <= 290 (distinct such decimals are
            distinct doubles and print back as themselves).
   Errors : an exception of the real code is None. *)
From Coq Require Import String Ascii ZArith List Bool.
Import ListNotations.
Open Scope Z_scope.

Definition str := list Z.
Definition lit (x : string) : str :=
  map (fun c => Z.of_N (N_of_ascii c)) (list_ascii_of_string x).
Definition str_eq_dec : forall a b : str, {a = b} + {a <> b} := list_eq_dec Z.eq_dec.
Definition null {A} (l : list A) : bool := match l with [] => true | _ => false end.

(* ---------------------------------------------------------------- numbers *)
Definition dec := (Z * nat)%type.            (* m / 10^s *)

(* normal form: strip trailing zeros of the fraction *)
Fixpoint norm (m : Z) (s : nat) : dec :=
  match s with
  | O => (m, O)
  | S s' => if m mod 10 =? 0 then norm (m / 10) s' else (m, s)
  end.

Definition is_digit (c : Z) : bool := (48 <=? c) && (c <=? 57).
(* value of a digit string, most significant first *)
Definition dvalue (l : str) : Z := fold_left (fun a c => 10 * a + (c - 48)) l 0.

(* k low decimal digits of n, most significant first (as characters) *)
Fixpoint digs (k : nat) (n : Z) : str :=
  match k with
  | O => []
  | S k' => digs k' (n / 10) ++ [48 + n mod 10]
  end.
Fixpoint strip0 (l : str) : str :=
  match l with
  | c :: r => if c =? 48 then strip0 r else l
  | [] => []
  end.
(* str(n) for an int n >= 0 *)
Definition print_nat (n : Z) : str :=
  match strip0 (digs (S (Z.to_nat (Z.log2 n))) n) with
  | [] => [48]
  | l => l
  end.
(* str(z) for any int *)
Definition print_int (z : Z) : str :=
  if z <? 0 then 45 :: print_nat (- z) else print_nat z.

Definition pow10 (s : nat) : Z := 10 ^ Z.of_nat s.
(* int(float): truncation (values are >= 0) *)
Definition dec_trunc (d : dec) : Z := fst d / pow10 (snd d).
Definition dec_is_int (d : dec) : bool := match snd d with O => true | _ => false end.
Definition dec_eqb (a b : dec) : bool := (fst a =? fst b) && Nat.eqb (snd a) (snd b).
Definition dec_eq_int (d : dec) (z : Z) : bool := dec_eqb d (z, O).

(* write_meta_data on a float: int(val) when val.is_integer(), else
   np.format_float_positional(val, trim='-') *)
Definition print_dec (d : dec) : str :=
  let '(m, s) := d in
  match s with
  | O => print_nat m
  | _ => print_nat (m / pow10 s) ++ [46] ++ digs s (m mod pow10 s)
  end.

(* ---------------------------------------------------------------- splitting *)
(* Python s.split(sep) for a one-character class: always at least one piece *)
Fixpoint split_by (p : Z -> bool) (s : str) : list str :=
  match s with
  | [] => [[]]
  | c :: r =>
      if p c then [] :: split_by p r
      else match split_by p r with
           | q :: qs => (c :: q) :: qs
           | [] => [[c]]
           end
  end.
Definition split_on (c : Z) : str -> list str := split_by (Z.eqb c).
Fixpoint join (sep : str) (l : list str) : str :=
  match l with
  | [] => []
  | [a] => a
  | a :: r => a ++ sep ++ join sep r
  end.

(* open(file) in text mode: universal newlines, "\r\n" and "\r" -> "\n" *)
Fixpoint univ_nl (s : str) : str :=
  match s with
  | [] => []
  | c :: r =>
      if c =? 13 then
        10 :: match r with
              | c2 :: r2 => if c2 =? 10 then univ_nl r2 else univ_nl r
              | [] => []
              end
      else c :: univ_nl r
  end.
(* str.splitlines boundaries: \n \v \f \r \x1c \x1d \x1e \x85     *)
Definition is_break (c : Z) : bool :=
  (c =? 10) || (c =? 11) || (c =? 12) || (c =? 13) || (c =? 28) || (c =? 29) ||
  (c =? 30) || (c =? 133) || (c =? 8232) || (c =? 8233).
Fixpoint drop_last_empty (ps : list str) : list str :=
  match ps with
  | [] => []
  | [p] => if null p then [] else [p]
  | p :: r => p :: drop_last_empty r
  end.
Definition splitlines (s : str) : list str := drop_last_empty (split_by is_break s).

(* ---------------------------------------------------------------- values *)
Inductive value :=
| VStr (s : str)
| VNum (d : dec)                 (* float *)
| VList (l : list dec)           (* list of floats, length >= 2 when produced by read *)
| VInt (z : Z)                   (* Python int (only `serial`) *)
| VNone.                         (* Python None (neuropixelVersion / serial) *)
Definition dict := list (str * value).

Fixpoint lookup (k : str) (d : dict) : option value :=
  match d with
  | [] => None
  | (k', v) :: r => if str_eq_dec k k' then Some v else lookup k r
  end.
(* d[k] = v : in place when the key exists (insertion order kept), else appended *)
Fixpoint dset (k : str) (v : value) (d : dict) : dict :=
  match d with
  | [] => [(k, v)]
  | (k', v') :: r => if str_eq_dec k k' then (k, v) :: r else (k', v') :: dset k v r
  end.
Definition has (k : str) (d : dict) : bool :=
  match lookup k d with Some _ => true | None => false end.

(* ---------------------------------------------------------------- read_meta_data *)
(* a.split("=", maxsplit=1) unpacked into k, v : ValueError without '=' *)
Fixpoint break_eq (l : str) : option (str * str) :=
  match l with
  | [] => None
  | c :: r =>
      if c =? 61 then Some ([], r)
      else match break_eq r with
           | Some (k, v) => Some (c :: k, v)
           | None => None
           end
  end.
Definition numch (c : Z) : bool := is_digit c || (c =? 44) || (c =? 46).
Definition count (c : Z) (s : str) : Z := Z.of_nat (length (filter (Z.eqb c) s)).
(* v and re.fullmatch("[0-9,.]*", v) and v.count(".") < 2 *)
Definition numeric (v : str) : bool :=
  negb (null v) && forallb numch v && (count 46 v <? 2).
(* float(piece) for a piece over [0-9.] : ValueError on "" and "." *)
Definition parse_float (p : str) : option dec :=
  if forallb (fun c => is_digit c || (c =? 46)) p then
    match split_on 46 p with
    | [a] => if null a then None else Some (norm (dvalue a) O)
    | [a; b] => if null a && null b then None
                else Some (norm (dvalue (a ++ b)) (length b))
    | _ => None
    end
  else None.
Fixpoint mapM {A B} (f : A -> option B) (l : list A) : option (list B) :=
  match l with
  | [] => Some []
  | a :: r => match f a, mapM f r with
              | Some b, Some bs => Some (b :: bs)
              | _, _ => None
              end
  end.
Definition parse_value (v : str) : option value :=
  if numeric v then
    match mapM parse_float (split_on 44 v) with
    | Some [x] => Some (VNum x)          (* scalars are not nested *)
    | Some l => Some (VList l)
    | None => None
    end
  else Some (VStr v).
Definition untilde (k : str) : str := filter (fun c => negb (c =? 126)) k.
Definition parse_line (l : str) : option (str * value) :=
  match break_eq l with
  | None => None
  | Some (k, v) => match parse_value v with
                   | Some x => Some (untilde k, x)
                   | None => None
                   end
  end.
Definition dict_of (es : list (str * value)) : dict :=
  fold_left (fun d e => dset (fst e) (snd e) d) es [].

(* Python int(str): optional blanks, sign, digits with single inner underscores
   (code points < 256; other Unicode blanks/digits are outside the model) *)
Definition is_space (c : Z) : bool :=
  ((9 <=? c) && (c <=? 13)) || (c =? 32) || (c =? 133) || (c =? 160).
Fixpoint lstrip (s : str) : str :=
  match s with c :: r => if is_space c then lstrip r else s | [] => [] end.
Definition strip (s : str) : str := rev (lstrip (rev (lstrip s))).
(* digits with underscores: prev = was the previous char a digit *)
Fixpoint int_body (s : str) (prev : bool) (acc : Z) : option Z :=
  match s with
  | [] => if prev then Some acc else None
  | c :: r =>
      if is_digit c then int_body r true (10 * acc + (c - 48))
      else if (c =? 95) && prev then int_body r false acc
      else None
  end.
Definition py_int_of_str (s : str) : option Z :=
  match strip s with
  | [] => None
  | c :: r =>
      if c =? 45 then option_map Z.opp (int_body r false 0)
      else if c =? 43 then int_body r false 0
      else int_body (c :: r) false 0
  end.
(* int(x) *)
Definition py_int (v : value) : option Z :=
  match v with
  | VNum d => Some (dec_trunc d)
  | VInt z => Some z
  | VStr s => py_int_of_str s
  | VList _ | VNone => None
  end.
(* x[i] for a Python index (negative from the end) *)
Definition py_nth {A} (l : list A) (i : Z) : option A :=
  let n := Z.of_nat (length l) in
  let j := if i <? 0 then i + n else i in
  if (0 <=? j) && (j <? n) then nth_error l (Z.to_nat j) else None.
Definition py_index (v : value) (i : Z) : option value :=
  match v with
  | VList l => option_map VNum (py_nth l i)
  | VStr s => option_map (fun c => VStr [c]) (py_nth s i)
  | _ => None
  end.
(* x == z for an int z *)
Definition val_eq_int (v : value) (z : Z) : bool :=
  match v with
  | VNum d => dec_eq_int d z
  | VInt z' => z' =? z
  | _ => false
  end.
Definition val_is_str (v : option value) (s : str) : bool :=
  match v with Some (VStr s') => if str_eq_dec s' s then true else false | _ => false end.
(* truthiness *)
Definition truthy (v : value) : bool :=
  match v with
  | VStr s => negb (null s)
  | VNum d => negb (fst d =? 0)
  | VList l => negb (null l)
  | VInt z => negb (z =? 0)
  | VNone => false
  end.

(* _get_neuropixel_version_from_meta *)
Inductive vers := V3A | V3B1 | V3B2 | VNP21 | VNP24 | VNPultra.
Definition vers_str (v : vers) : str :=
  match v with
  | V3A => lit "3A" | V3B1 => lit "3B1" | V3B2 => lit "3B2"
  | VNP21 => lit "NP2.1" | VNP24 => lit "NP2.4" | VNPultra => lit "NPultra"
  end.
Definition version (d : dict) : option vers :=
  if has (lit "typeEnabled") d then Some V3A
  else match lookup (lit "imDatPrb_type") d with
       | None => None
       | Some t =>
           if val_eq_int t 0 then
             if has (lit "imDatPrb_port") d && has (lit "imDatPrb_slot") d
             then Some V3B2 else Some V3B1
           else if val_eq_int t 21 || val_eq_int t 1030 then Some VNP21
           else if val_eq_int t 24 || val_eq_int t 2013 then Some VNP24
           else if val_eq_int t 1100 then Some VNPultra
           else None
       end.
Definition version_value (d : dict) : value :=
  match version d with Some v => VStr (vers_str v) | None => VNone end.
(* "NP2" in version *)
Definition is_np2 (v : vers) : bool :=
  match v with VNP21 | VNP24 => true | _ => false end.

(* _get_serial_number_from_meta : Some None = Python None *)
Definition serial (d : dict) : option (option Z) :=
  let pick :=
    match lookup (lit "imProbeSN") d with
    | Some v => if truthy v then Some v else lookup (lit "imDatPrb_sn") d
    | None => lookup (lit "imDatPrb_sn") d
    end in
  match pick with
  | None => Some None
  | Some v => if truthy v then option_map Some (py_int v) else Some None
  end.
Definition serial_value (s : option Z) : value :=
  match s with Some z => VInt z | None => VNone end.

Definition read_base (f : str) : option dict :=
  option_map dict_of (mapM parse_line (splitlines (univ_nl f))).
Definition read_meta (f : str) : option dict :=
  match read_base f with
  | None => None
  | Some b =>
      match serial (dset (lit "neuropixelVersion") (version_value b) b) with
      | None => None
      | Some s => Some (dset (lit "serial") (serial_value s)
                          (dset (lit "neuropixelVersion") (version_value b) b))
      end
  end.

(* ---------------------------------------------------------------- write_meta_data *)
Definition show_value (v : value) : str :=
  match v with
  | VStr s => s
  | VNum d => print_dec d
  | VList l => join [44] (map (fun x => print_int (dec_trunc x)) l)
  | VInt z => print_int z
  | VNone => lit "None"
  end.
Definition write_line (e : str * value) : str := fst e ++ [61] ++ show_value (snd e) ++ [10].
Definition write_meta (d : dict) : str := concat (map write_line d).

(* ---------------------------------------------------------------- derived quantities *)
Inductive stream := SAp | SLf | SNidq.
(* _get_type_from_meta : Some None = Python None, None = exception *)
Definition get_type (d : dict) : option (option stream) :=
  let nidq := val_is_str (lookup (lit "typeThis") d) (lit "nidq") in
  match lookup (lit "snsApLfSy") d with
  | None => Some (if nidq then Some SNidq else None)       (* default [-1,-1,-1] *)
  | Some (VList l) =>
      match l with
      | a :: l' :: _ =>
          if (fst a =? 0) && negb (fst l' =? 0) then Some (Some SLf)
          else if negb (fst a =? 0) && (fst l' =? 0) then Some (Some SAp)
          else Some None
      | _ => None
      end
  | Some (VStr s) =>                   (* characters never equal 0 *)
      match s with _ :: _ :: _ => Some None | _ => None end
  | Some _ => None
  end.
(* _get_nchannels_from_meta *)
Definition nchannels (d : dict) : option Z :=
  match lookup (lit "nSavedChans") d with Some v => py_int v | None => None end.
(* _get_sync_trace_indices_from_meta : (first index, count) of range(ntr-nsync, ntr) *)
Definition sync_indices (d : dict) : option (Z * Z) :=
  match get_type d, nchannels d with
  | Some (Some t), Some ntr =>
      let src := match t with
                 | SNidq => match lookup (lit "snsMnMaXaDw") d with
                            | Some x => py_index x (-1) | None => None end
                 | _ => match lookup (lit "snsApLfSy") d with
                        | Some x => py_index x 2 | None => None end
                 end in
      match src with
      | Some x => match py_int x with
                  | Some nsync => Some (ntr - nsync, Z.max 0 nsync)
                  | None => None
                  end
      | None => None
      end
  | _, _ => None
  end.
Definition is_imec (d : dict) : bool := val_is_str (lookup (lit "typeThis") d) (lit "imec").
(* _get_fs_from_meta : the raw dictionary value (None when absent) *)
Definition get_fs (d : dict) : option value :=
  if is_imec d then lookup (lit "imSampRate") d else lookup (lit "niSampRate") d.
(* round half to even of m / 10^s *)
Definition round_half_even (m : Z) (s : nat) : Z :=
  let p := pow10 s in
  let q := m / p in
  let r := m mod p in
  if 2 * r <? p then q else if p <? 2 * r then q + 1 else q + q mod 2.
(* Reader.ns = int(np.round(fileTimeSecs * fs)), exact product *)
Definition get_ns (d : dict) : option Z :=
  match lookup (lit "fileTimeSecs") d, get_fs d with
  | Some (VNum (m1, s1)), Some (VNum (m2, s2)) => Some (round_half_even (m1 * m2) (s1 + s2))
  | _, _ => None
  end.
(* _get_max_int_from_meta *)
Definition max_int (d : dict) : option Z :=
  let get_or dflt := match lookup (lit "imMaxInt") d with
                     | Some v => py_int v | None => Some dflt end in
  if is_imec d then
    match version d with
    | None => None                                     (* "NP2" in None *)
    | Some v => if is_np2 v
                then match lookup (lit "imMaxInt") d with Some x => py_int x | None => None end
                else get_or 512
    end
  else get_or 32768.
(* int2volts : (full-scale range, max int) *)
Definition int2volt (d : dict) : option (dec * Z) :=
  match max_int d with
  | None => None
  | Some mi =>
      match (if is_imec d then lookup (lit "imAiRangeMax") d
             else lookup (lit "niAiRangeMax") d) with
      | Some (VNum r) => if mi =? 0 then None else Some (r, mi)
      | _ => None
      end
  end.

(* re.findall over the pattern  D* D* D* D* D*  (D = [0-9], separated by single blanks): one attempt at the
   head of s.  [0-9]* is greedy and a digit is never a blank, so the attempt is
   deterministic: longest digit run, blank, ... ; returns the five runs and the
   rest of the text. *)
Fixpoint span_digits (s : str) : str * str :=
  match s with
  | c :: r => if is_digit c then let '(a, b) := span_digits r in (c :: a, b) else ([], s)
  | [] => ([], [])
  end.
Fixpoint match_runs (k : nat) (s : str) : option (list str * str) :=
  let '(a, r) := span_digits s in
  match k with
  | O => Some ([a], r)
  | S k' => match r with
            | c :: r' => if c =? 32 then
                           match match_runs k' r' with
                           | Some (l, rest) => Some (a :: l, rest)
                           | None => None
                           end
                         else None
            | [] => None
            end
  end.
Fixpoint scan (fuel : nat) (s : str) : list (list str) :=
  match fuel with
  | O => []
  | S fuel' =>
      match s with
      | [] => []
      | _ :: r => match match_runs 4 s with
                  | Some (l, rest) => l :: scan fuel' rest
                  | None => scan fuel' r
                  end
      end
  end.
Definition imro_scan (s : str) : list (list str) := scan (length s) s.
(* l[:n] *)
Definition py_take {A} (n : Z) (l : list A) : list A :=
  if n <? 0 then firstn (Z.to_nat (Z.of_nat (length l) + n)) l else firstn (Z.to_nat n) l.
(* np.float32(run): ValueError on "" *)
Definition run_gain (r : option str) : option Z :=
  match r with Some (c :: t) => Some (dvalue (c :: t)) | _ => None end.

(* one entry of the volts-per-bit vector *)
Inductive conv :=
| CG (g : dec)        (* range / maxint / g  (nidq analog sync: g = 1, "no gain") *)
| C1.                 (* 1                   (digital sync) *)
Inductive s2v_out :=
| S2Imec (ap lf : list conv)
| S2Nidq (g : list conv).
Definition zrepeat {A} (a : A) (n : Z) : list A := repeat a (Z.to_nat n).

(* _conversion_sample2v_from_meta *)
Definition s2v (d : dict) : option (dec * Z * s2v_out) :=
  match int2volt d with
  | None => None
  | Some (rng, mi) =>
      match lookup (lit "imroTbl") d with
      | Some tbl =>
          match lookup (lit "snsApLfSy") d with
          | None => None
          | Some x =>
              match option_map py_int (py_index x (-1)), nchannels d, sync_indices d with
              | Some (Some sy), Some ntr, Some (_, nsy) =>
                  if sy <? 0 then None else
                  let n_chn := ntr - nsy in
                  match version d with
                  | None => None
                  | Some v =>
                      if is_np2 v then
                        if n_chn <? 0 then None
                        else let g := zrepeat (CG (80, O)) n_chn ++ zrepeat C1 sy in
                             Some (rng, mi, S2Imec g g)
                      else
                        match tbl with
                        | VStr t =>
                            let es := py_take n_chn (imro_scan t) in
                            match mapM (fun e => run_gain (nth_error e 3)) es,
                                  mapM (fun e => run_gain (nth_error e 4)) es with
                            | Some ap, Some lf =>
                                Some (rng, mi,
                                      S2Imec (map (fun g => CG (g, O)) ap ++ zrepeat C1 sy)
                                             (map (fun g => CG (g, O)) lf ++ zrepeat C1 sy))
                            | _, _ => None
                            end
                        | _ => None
                        end
                  end
              | _, _, _ => None
              end
          end
      | None =>
          match lookup (lit "niMNGain") d with
          | None => None
          | Some mn =>
              match lookup (lit "snsMnMaXaDw") d with
              | None => None
              | Some x =>
                  let cnt i := match py_index x i with Some y => py_int y | None => None end in
                  match cnt 0, mn, cnt 1, lookup (lit "niMAGain") d, cnt 2, py_index x 3 with
                  | Some c0, VNum gmn, Some c1, Some (VNum gma), Some c2, Some (VNum c3) =>
                      if (c0 <? 0) || (c1 <? 0) || (c2 <? 0) then None
                      else Some (rng, mi,
                                 S2Nidq (zrepeat (CG gmn) c0 ++ zrepeat (CG gma) c1 ++
                                         zrepeat (CG (1, O)) c2 ++ zrepeat C1 (dec_trunc c3)))
                  | _, _, _, _, _, _ => None
                  end
              end
          end
      end
  end.
(* Reader.sample2volts = channel_conversion_sample2v[self.type] *)
Definition sample2volts (d : dict) : option (dec * Z * list conv) :=
  match s2v d, get_type d with
  | Some (r, mi, S2Imec ap _), Some (Some SAp) => Some (r, mi, ap)
  | Some (r, mi, S2Imec _ lf), Some (Some SLf) => Some (r, mi, lf)
  | Some (r, mi, S2Nidq g), Some (Some SNidq) => Some (r, mi, g)
  | _, _ => None
  end.

(* ---------------------------------------------------------------- round 2 additions *)
(* _get_neuropixel_major_version_from_meta: 1, 1, 1, 2, 2.4, "NPultra" *)
Inductive major := MJ1 | MJ2 | MJ24 | MJultra.
Definition major_of (v : vers) : major :=
  match v with
  | V3A | V3B1 | V3B2 => MJ1 | VNP21 => MJ2 | VNP24 => MJ24 | VNPultra => MJultra
  end.
Definition major_version (d : dict) : option major := option_map major_of (version d).

(* exact sum of two decimals *)
Definition dec_add (a b : dec) : dec :=
  (fst a * pow10 (snd b) + fst b * pow10 (snd a), (snd a + snd b)%nat).
(* _get_analog_sync_trace_indices_from_meta : (first index, count) of
   range(int(sum(tr[0:2])), int(sum(tr[0:2])) + int(tr[-2])); [] for imec streams *)
Definition analog_sync (d : dict) : option (Z * Z) :=
  match get_type d with
  | None => None
  | Some (Some SNidq) =>
      match lookup (lit "snsMnMaXaDw") d with
      | Some (VList l) =>
          match py_nth l (-2) with
          | Some x => Some (dec_trunc (fold_left dec_add (firstn 2 l) (0, O)), Z.max 0 (dec_trunc x))
          | None => None
          end
      | _ => None
      end
  | Some _ => Some (0, 0)
  end.

(* ---------------------------------------------------------------- round 4 additions *)
(* _get_max_int_from_meta(md, neuropixel_version): `neuropixel_version or <version of md>`;
   the explicit argument, when given, replaces the probe generation read from the dictionary *)
Definition max_int_with (ov : option vers) (d : dict) : option Z :=
  let get_or dflt := match lookup (lit "imMaxInt") d with
                     | Some v => py_int v | None => Some dflt end in
  if is_imec d then
    match (match ov with Some v => Some v | None => version d end) with
    | None => None
    | Some v => if is_np2 v
                then match lookup (lit "imMaxInt") d with Some x => py_int x | None => None end
                else get_or 512
    end
  else get_or 32768.
