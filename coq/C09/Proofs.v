(* C09 — lemmas. *)
From Coq Require Import ZArith List Bool Lia.
From IBL.C09 Require Import Model.
Import ListNotations.
Open Scope Z_scope.

Lemma untilde_no_tilde k : ~ In 126 (untilde k).
Proof.
  unfold untilde. rewrite filter_In. intros [_ H]. discriminate H.
Qed.
