(* C09 — lemmas about the metadata model. *)
From Coq Require Import String ZArith List Bool Lia.
From IBL.C09 Require Import Model.
Import ListNotations.
Open Scope Z_scope.

(* ------------------------------------------------------------ generic lists *)
Lemma forallb_app' {A} (p : A -> bool) a b : forallb p (a ++ b) = forallb p a && forallb p b.
Proof. apply forallb_app. Qed.

Lemma forallb_impl {A} (p q : A -> bool) l :
  (forall x, p x = true -> q x = true) -> forallb p l = true -> forallb q l = true.
Proof.
  intros H. induction l as [|x l IH]; cbn; [auto|].
  rewrite !andb_true_iff. intros [Hx Hl]. auto.
Qed.

Lemma untilde_no_tilde k : ~ In 126 (untilde k).
Proof. unfold untilde. rewrite filter_In. intros [_ H]. discriminate H. Qed.

(* ------------------------------------------------------------ split / join *)
Lemma split_by_none p a : forallb (fun c => negb (p c)) a = true -> split_by p a = [a].
Proof.
  induction a as [|c a IH]; cbn; [auto|].
  rewrite andb_true_iff, negb_true_iff. intros [Hc Ha]. rewrite Hc, (IH Ha). reflexivity.
Qed.

Lemma split_by_app_sep p a c r :
  forallb (fun c => negb (p c)) a = true -> p c = true ->
  split_by p (a ++ c :: r) = a :: split_by p r.
Proof.
  induction a as [|x a IH]; cbn; intros Ha Hc.
  - rewrite Hc. reflexivity.
  - apply andb_true_iff in Ha as [Hx Ha]. apply negb_true_iff in Hx.
    rewrite Hx, (IH Ha Hc). reflexivity.
Qed.

Lemma split_by_nonempty p s : split_by p s <> [].
Proof.
  destruct s as [|c s]; cbn; [discriminate|].
  destruct (p c); [discriminate|]. destruct (split_by p s); discriminate.
Qed.

(* no piece contains a separator *)
Lemma split_by_pieces p s q : In q (split_by p s) -> forallb (fun c => negb (p c)) q = true.
Proof.
  revert q. induction s as [|c s IH]; cbn; intros q Hq.
  - destruct Hq as [<-|[]]. reflexivity.
  - destruct (p c) eqn:Hc.
    + destruct Hq as [<-|Hq]; [reflexivity|auto].
    + destruct (split_by p s) as [|q0 qs] eqn:E.
      * destruct Hq as [<-|[]]. cbn. now rewrite Hc.
      * destruct Hq as [<-|Hq].
        -- cbn. rewrite Hc. cbn. apply IH. now left.
        -- apply IH. now right.
Qed.

(* the pieces spell the text back *)
Lemma split_by_chars p s q c : In q (split_by p s) -> In c q -> In c s.
Proof.
  revert q. induction s as [|x s IH]; cbn; intros q Hq Hc.
  - destruct Hq as [<-|[]]. destruct Hc.
  - destruct (p x) eqn:Hx.
    + destruct Hq as [<-|Hq]; [destruct Hc|]. right. eauto.
    + destruct (split_by p s) as [|q0 qs] eqn:E.
      * destruct Hq as [<-|[]]. destruct Hc as [<-|[]]. now left.
      * destruct Hq as [<-|Hq].
        -- destruct Hc as [<-|Hc]; [now left|]. right. apply (IH q0); [now left|exact Hc].
        -- right. apply (IH q); [now right|exact Hc].
Qed.

Lemma split_on_join c ps :
  ps <> [] -> Forall (fun q => forallb (fun x => negb (c =? x)) q = true) ps ->
  split_on c (join [c] ps) = ps.
Proof.
  unfold split_on. induction ps as [|a ps IH]; [congruence|]. intros _ H.
  inversion H as [|? ? Ha Hps]; subst. destruct ps as [|b ps].
  - cbn. now apply split_by_none.
  - change (join [c] (a :: b :: ps)) with (a ++ [c] ++ join [c] (b :: ps)).
    cbn [app]. rewrite split_by_app_sep; [|exact Ha|apply Z.eqb_refl].
    f_equal. apply IH; [discriminate|exact Hps].
Qed.

Lemma drop_last_empty_snoc l : drop_last_empty (l ++ [[]]) = l.
Proof.
  induction l as [|p r IH]; [reflexivity|].
  cbn [app]. destruct r as [|p2 r]; [reflexivity|].
  cbn [drop_last_empty app] in *. now rewrite IH.
Qed.

Lemma drop_last_empty_In l q : In q (drop_last_empty l) -> In q l.
Proof.
  induction l as [|p r IH]; [auto|]. destruct r as [|p2 r].
  - cbn. destruct (null p); [intros []|auto].
  - intros [<-|H]; [now left|right; auto].
Qed.

Definition plain (s : str) : bool := forallb (fun c => negb (is_break c)) s.

Lemma splitlines_plain f l : In l (splitlines f) -> plain l = true.
Proof. intros H. apply drop_last_empty_In in H. now apply split_by_pieces in H. Qed.

Lemma splitlines_written bodies :
  Forall (fun b => plain b = true) bodies ->
  splitlines (concat (map (fun b => b ++ [10]) bodies)) = bodies.
Proof.
  intros H. unfold splitlines.
  assert (E : split_by is_break (concat (map (fun b => b ++ [10]) bodies)) = bodies ++ [[]]).
  { induction H as [|b bs Hb Hbs IH]; [reflexivity|].
    cbn [map concat]. rewrite <- app_assoc. cbn [app].
    rewrite split_by_app_sep; [|exact Hb|reflexivity]. now rewrite IH. }
  rewrite E. apply drop_last_empty_snoc.
Qed.

Lemma univ_nl_id s : forallb (fun c => negb (c =? 13)) s = true -> univ_nl s = s.
Proof.
  induction s as [|c s IH]; [reflexivity|]. cbn [forallb univ_nl].
  rewrite andb_true_iff, negb_true_iff. intros [Hc Hs]. rewrite Hc. now rewrite IH.
Qed.

Lemma univ_nl_no13 s : forallb (fun c => negb (c =? 13)) (univ_nl s) = true.
Proof.
  remember (length s) as n eqn:Hn. revert s Hn.
  induction n as [n IH] using lt_wf_ind. intros s Hn.
  destruct s as [|c s]; [reflexivity|]. cbn [univ_nl].
  destruct (c =? 13) eqn:Hc.
  - cbn [forallb]. cbn. destruct s as [|c2 s2]; [reflexivity|].
    destruct (c2 =? 10); (eapply IH; [|reflexivity]); cbn [length] in *; lia.
  - cbn [forallb]. rewrite Hc. cbn. eapply IH; [|reflexivity]. cbn [length] in *; lia.
Qed.

Lemma break_eq_app k v : forallb (fun c => negb (c =? 61)) k = true ->
  break_eq (k ++ 61 :: v) = Some (k, v).
Proof.
  induction k as [|c k IH]; cbn; [auto|].
  rewrite andb_true_iff, negb_true_iff. intros [Hc Hk]. now rewrite Hc, (IH Hk).
Qed.

Lemma break_eq_spec l k v : break_eq l = Some (k, v) ->
  l = k ++ 61 :: v /\ forallb (fun c => negb (c =? 61)) k = true.
Proof.
  revert k. induction l as [|c l IH]; cbn; [discriminate|]. intros k.
  destruct (Z.eqb_spec c 61) as [->|Hc].
  - intros [= <- <-]. auto.
  - destruct (break_eq l) as [[k0 v0]|]; [|discriminate]. intros [= <- <-].
    destruct (IH k0 eq_refl) as [-> Hk]. split; [reflexivity|]. cbn.
    rewrite Hk. apply Z.eqb_neq in Hc. now rewrite Hc.
Qed.

(* ------------------------------------------------------------ decimal digits *)
Lemma pow10_S s : pow10 (S s) = 10 * pow10 s.
Proof. unfold pow10. rewrite Nat2Z.inj_succ, Z.pow_succ_r; lia. Qed.
Lemma pow10_pos s : 0 < pow10 s.
Proof. unfold pow10. apply Z.pow_pos_nonneg; lia. Qed.

Lemma pow10_0 : pow10 0 = 1. Proof. reflexivity. Qed.
Lemma pow10_1 : pow10 1 = 10. Proof. reflexivity. Qed.
Lemma dvalue_single c : dvalue [c] = c - 48.
Proof. unfold dvalue. cbn [fold_left]. lia. Qed.
Lemma dvalue_nil : dvalue [] = 0. Proof. reflexivity. Qed.

Lemma dvalue_acc l a :
  fold_left (fun a c => 10 * a + (c - 48)) l a = a * pow10 (length l) + dvalue l.
Proof.
  unfold dvalue. revert a. induction l as [|c l IH]; intros a; cbn [fold_left length].
  - rewrite pow10_0. lia.
  - rewrite IH, (IH (10 * 0 + (c - 48))), pow10_S. ring.
Qed.

Lemma dvalue_app a b : dvalue (a ++ b) = dvalue a * pow10 (length b) + dvalue b.
Proof.
  unfold dvalue at 1. rewrite fold_left_app. fold (dvalue a). apply dvalue_acc.
Qed.

Definition digits (s : str) : bool := forallb is_digit s.

Lemma is_digit_spec c : is_digit c = true <-> 48 <= c <= 57.
Proof. unfold is_digit. rewrite andb_true_iff, !Z.leb_le. tauto. Qed.

Lemma dvalue_nonneg s : digits s = true -> 0 <= dvalue s.
Proof.
  induction s as [|c s IH] using rev_ind; [rewrite dvalue_nil; lia|].
  unfold digits. rewrite forallb_app. cbn [forallb]. rewrite !andb_true_iff. intros [Hs [Hc _]].
  rewrite dvalue_app. cbn [length]. rewrite dvalue_single, pow10_1.
  apply is_digit_spec in Hc. specialize (IH Hs). lia.
Qed.

Lemma digs_length k n : length (digs k n) = k.
Proof.
  revert n. induction k as [|k IH]; intros n; cbn [digs]; [reflexivity|].
  rewrite app_length, IH. cbn [length]. lia.
Qed.

Lemma digs_digits k n : digits (digs k n) = true.
Proof.
  revert n. induction k as [|k IH]; intros n; cbn [digs]; [reflexivity|].
  unfold digits. rewrite forallb_app. fold (digits (digs k (n / 10))). rewrite IH. cbn [forallb andb].
  rewrite andb_true_r. apply is_digit_spec.
  pose proof (Z.mod_pos_bound n 10 ltac:(lia)). lia.
Qed.

Lemma dvalue_digs k n : dvalue (digs k n) = n mod pow10 k.
Proof.
  revert n. induction k as [|k IH]; intros n.
  - cbn [digs]. rewrite dvalue_nil, pow10_0. now rewrite Z.mod_1_r.
  - cbn [digs]. rewrite dvalue_app, IH. cbn [length]. rewrite dvalue_single, pow10_1.
    rewrite pow10_S. rewrite (Z.rem_mul_r n 10 (pow10 k)); [|lia|apply pow10_pos].
    lia.
Qed.

Lemma strip0_value l : dvalue (strip0 l) = dvalue l.
Proof.
  induction l as [|c l IH]; [reflexivity|]. cbn [strip0].
  destruct (Z.eqb_spec c 48) as [->|]; [|reflexivity].
  rewrite IH. unfold dvalue. reflexivity.
Qed.

Lemma strip0_digits l : digits l = true -> digits (strip0 l) = true.
Proof.
  induction l as [|c l IH]; [auto|]. cbn [strip0]. destruct (c =? 48); [|auto].
  unfold digits. cbn. rewrite andb_true_iff. intros [_ H]. auto.
Qed.

Lemma lt_pow10_log2 n : 0 <= n -> n < pow10 (S (Z.to_nat (Z.log2 n))).
Proof.
  intros Hn. unfold pow10. rewrite Nat2Z.inj_succ, Z2Nat.id by apply Z.log2_nonneg.
  destruct (Z.eq_dec n 0) as [->|Hz]; [cbn; lia|].
  pose proof (Z.log2_spec n ltac:(lia)) as [_ H].
  pose proof (Z.log2_nonneg n).
  eapply Z.lt_le_trans; [exact H|]. apply Z.pow_le_mono_l. lia.
Qed.

Lemma print_nat_value n : 0 <= n -> dvalue (print_nat n) = n.
Proof.
  intros Hn. unfold print_nat.
  pose proof (strip0_value (digs (S (Z.to_nat (Z.log2 n))) n)) as E.
  rewrite dvalue_digs, Z.mod_small in E by (split; [lia|now apply lt_pow10_log2]).
  destruct (strip0 _) as [|c l]; [|exact E]. cbn in E. subst n. reflexivity.
Qed.

Lemma print_nat_digits n : digits (print_nat n) = true.
Proof.
  unfold print_nat.
  pose proof (strip0_digits _ (digs_digits (S (Z.to_nat (Z.log2 n))) n)) as E.
  destruct (strip0 _); [reflexivity|exact E].
Qed.

Lemma print_nat_nonempty n : print_nat n <> [].
Proof. unfold print_nat. destruct (strip0 _); discriminate. Qed.

(* ------------------------------------------------------------ normal form *)
Definition normd (d : dec) : Prop :=
  0 <= fst d /\ (snd d = O \/ fst d mod 10 <> 0).

Lemma norm_normd m s : 0 <= m -> normd (norm m s).
Proof.
  revert m. induction s as [|s IH]; intros m Hm; cbn [norm].
  - split; cbn; auto.
  - destruct (Z.eqb_spec (m mod 10) 0) as [E|E].
    + apply IH. apply Z.div_pos; lia.
    + split; cbn; auto.
Qed.

Lemma norm_fix m s : normd (m, s) -> norm m s = (m, s).
Proof.
  intros [_ [H|H]]; cbn in H.
  - subst s. reflexivity.
  - destruct s; [reflexivity|]. cbn [norm]. apply Z.eqb_neq in H. now rewrite H.
Qed.

(* ------------------------------------------------------------ character classes *)
Lemma digit_not_break c : is_digit c = true -> is_break c = false.
Proof.
  unfold is_digit, is_break. intros H.
  repeat match goal with |- context[?a =? ?b] => destruct (Z.eqb_spec a b) end; try lia; reflexivity.
Qed.
Lemma numch_not_break c : numch c = true -> is_break c = false.
Proof.
  unfold numch. rewrite !orb_true_iff. intros [[H|H]|H].
  - now apply digit_not_break.
  - apply Z.eqb_eq in H. subst. reflexivity.
  - apply Z.eqb_eq in H. subst. reflexivity.
Qed.
Lemma digits_numch s : digits s = true -> forallb numch s = true.
Proof. apply forallb_impl. intros c H. unfold numch. now rewrite H. Qed.
Lemma numch_plain s : forallb numch s = true -> plain s = true.
Proof. apply forallb_impl. intros c H. now rewrite (numch_not_break c H). Qed.
Lemma digits_no c s : is_digit c = false -> digits s = true ->
  forallb (fun x => negb (c =? x)) s = true.
Proof.
  intros Hc. apply forallb_impl. intros x Hx.
  destruct (Z.eqb_spec c x) as [->|]; [congruence|reflexivity].
Qed.
Lemma digits_count46 s : digits s = true -> count 46 s = 0.
Proof.
  unfold count. induction s as [|c s IH]; [reflexivity|]. unfold digits. cbn [forallb filter].
  rewrite andb_true_iff. intros [Hc Hs].
  destruct (Z.eqb_spec 46 c) as [<-|]; [discriminate|]. now apply IH.
Qed.
Lemma count_app c a b : count c (a ++ b) = count c a + count c b.
Proof. unfold count. rewrite filter_app, app_length. lia. Qed.

(* ------------------------------------------------------------ printed numbers parse back *)
Definition dd (s : str) : bool := forallb (fun c => is_digit c || (c =? 46)) s.
Definition dc (s : str) : bool := forallb (fun c => is_digit c || (c =? 44)) s.

Lemma digits_dd s : digits s = true -> dd s = true.
Proof. apply forallb_impl. intros c H. now rewrite H. Qed.
Lemma digits_dc s : digits s = true -> dc s = true.
Proof. apply forallb_impl. intros c H. now rewrite H. Qed.
Lemma dd_numch s : dd s = true -> forallb numch s = true.
Proof.
  apply forallb_impl. intros c H. unfold numch. apply orb_true_iff in H as [H|H]; rewrite H;
    [reflexivity|apply orb_true_r].
Qed.
Lemma dc_numch s : dc s = true -> forallb numch s = true.
Proof.
  apply forallb_impl. intros c H. unfold numch. apply orb_true_iff in H as [H|H]; rewrite H;
    [reflexivity|]. now rewrite orb_true_r.
Qed.
Lemma dd_no44 s : dd s = true -> forallb (fun x => negb (44 =? x)) s = true.
Proof.
  apply forallb_impl. intros c H. destruct (Z.eqb_spec 44 c) as [<-|]; [discriminate|reflexivity].
Qed.
Lemma dc_count46 s : dc s = true -> count 46 s = 0.
Proof.
  unfold count. induction s as [|c s IH]; [reflexivity|]. unfold dc. cbn [forallb filter].
  rewrite andb_true_iff. intros [Hc Hs].
  destruct (Z.eqb_spec 46 c) as [<-|]; [discriminate|]. now apply IH.
Qed.

Lemma dd_pieces_digits p q : dd p = true -> In q (split_on 46 p) -> digits q = true.
Proof.
  intros Hp Hq. unfold digits. apply forallb_forall. intros c Hc.
  pose proof (split_by_pieces _ _ _ Hq) as H1. rewrite forallb_forall in H1.
  specialize (H1 c Hc). apply negb_true_iff in H1.
  pose proof (split_by_chars _ _ _ _ Hq Hc) as H2.
  unfold dd in Hp. rewrite forallb_forall in Hp. specialize (Hp c H2).
  apply orb_true_iff in Hp as [H|H]; [exact H|]. apply Z.eqb_eq in H. subst c. discriminate.
Qed.

Lemma parse_float_normd p d : parse_float p = Some d -> normd d.
Proof.
  unfold parse_float. destruct (forallb _ p) eqn:Hdd; [|discriminate]. fold (dd p) in Hdd.
  pose proof (dd_pieces_digits p) as Hq. specialize (fun q => Hq q Hdd).
  destruct (split_on 46 p) as [|a [|b [|? ?]]]; try discriminate.
  - destruct (null a); [discriminate|]. intros [= <-]. apply (norm_normd (dvalue a) O), dvalue_nonneg, Hq. now left.
  - destruct (null a && null b); [discriminate|]. intros [= <-]. apply norm_normd, dvalue_nonneg.
    unfold digits. rewrite forallb_app. fold (digits a) (digits b).
    rewrite (Hq a), (Hq b); cbn; auto.
Qed.

Lemma print_dec_dd d : dd (print_dec d) = true.
Proof.
  destruct d as [m [|s]]; unfold print_dec.
  - apply digits_dd, print_nat_digits.
  - change (print_nat (m / pow10 (S s)) ++ [46] ++ digs (S s) (m mod pow10 (S s)))
      with (print_nat (m / pow10 (S s)) ++ 46 :: digs (S s) (m mod pow10 (S s))).
    unfold dd. rewrite forallb_app. cbn [forallb].
    pose proof (digits_dd _ (print_nat_digits (m / pow10 (S s)))) as H1.
    pose proof (digits_dd _ (digs_digits (S s) (m mod pow10 (S s)))) as H2.
    unfold dd in H1, H2. rewrite H1, H2. reflexivity.
Qed.

Lemma print_dec_nonempty d : print_dec d <> [].
Proof.
  destruct d as [m [|s]]; unfold print_dec; [apply print_nat_nonempty|].
  pose proof (print_nat_nonempty (m / pow10 (S s))). destruct (print_nat _); [congruence|discriminate].
Qed.

Lemma print_dec_count d : count 46 (print_dec d) <? 2 = true.
Proof.
  destruct d as [m [|s]]; unfold print_dec.
  - rewrite digits_count46 by apply print_nat_digits. reflexivity.
  - rewrite !count_app. rewrite (digits_count46 (print_nat _)) by apply print_nat_digits.
    rewrite (digits_count46 (digs _ _)) by apply digs_digits. reflexivity.
Qed.

Lemma parse_float_print d : normd d -> parse_float (print_dec d) = Some d.
Proof.
  intros Hn. unfold parse_float. pose proof (print_dec_dd d) as Hdd. unfold dd in Hdd. rewrite Hdd.
  destruct d as [m s]. pose proof Hn as [Hm _]. cbn [fst] in Hm. unfold print_dec. destruct s as [|s'].
  - unfold split_on. rewrite split_by_none by (apply digits_no; [reflexivity|apply print_nat_digits]).
    destruct (print_nat m) eqn:E; [now apply print_nat_nonempty in E|].
    cbn [null]. rewrite <- E, print_nat_value by exact Hm. reflexivity.
  - set (p := pow10 (S s')). assert (Hp : 0 < p) by apply pow10_pos.
    set (a := print_nat (m / p)). set (b := digs (S s') (m mod p)).
    change (a ++ [46] ++ b) with (a ++ 46 :: b). unfold split_on.
    rewrite split_by_app_sep; [|apply digits_no; [reflexivity|apply print_nat_digits]|reflexivity].
    rewrite split_by_none by (apply digits_no; [reflexivity|apply digs_digits]).
    destruct a eqn:E; [now apply print_nat_nonempty in E|]. cbn [null andb]. rewrite <- E.
    rewrite dvalue_app. subst a b. rewrite digs_length, dvalue_digs, print_nat_value
      by (apply Z.div_pos; lia).
    fold p. rewrite Z.mod_mod by lia.
    replace (m / p * p + m mod p) with m by (pose proof (Z.div_mod m p ltac:(lia)); lia).
    now rewrite norm_fix.
Qed.

Lemma print_int_nonneg z : 0 <= z -> print_int z = print_nat z.
Proof. intros H. unfold print_int. destruct (Z.ltb_spec z 0); [lia|reflexivity]. Qed.

(* ------------------------------------------------------------ values *)
Definition val_ok (v : value) : Prop :=
  match v with
  | VStr s => numeric s = false /\ plain s = true
  | VNum d => normd d
  | VList l => (2 <= length l)%nat /\ Forall normd l
  | VInt _ | VNone => False
  end.
(* the property's grammar: lists hold integers *)
Definition int_lists_val (v : value) : Prop :=
  match v with VList l => Forall (fun d => snd d = O) l | _ => True end.

Lemma mapM_length {A B} (f : A -> option B) l r : mapM f l = Some r -> length r = length l.
Proof.
  revert r. induction l as [|a l IH]; cbn; intros r.
  - intros [= <-]. reflexivity.
  - destruct (f a); [|discriminate]. destruct (mapM f l); [|discriminate].
    intros [= <-]. cbn. now rewrite (IH l0 eq_refl).
Qed.
Lemma mapM_Forall {A B} (f : A -> option B) (P : B -> Prop) l r :
  (forall a b, f a = Some b -> P b) -> mapM f l = Some r -> Forall P r.
Proof.
  intros H. revert r. induction l as [|a l IH]; cbn; intros r.
  - intros [= <-]. constructor.
  - destruct (f a) eqn:E; [|discriminate]. destruct (mapM f l); [|discriminate].
    intros [= <-]. constructor; eauto.
Qed.
Lemma mapM_map {A B C} (g : C -> A) (f : A -> option B) (h : C -> B) l :
  (forall c, In c l -> f (g c) = Some (h c)) -> mapM f (map g l) = Some (map h l).
Proof.
  induction l as [|c l IH]; intros H; cbn; [reflexivity|].
  rewrite (H c (or_introl eq_refl)), IH; [reflexivity|]. intros; apply H; now right.
Qed.

Lemma split_by_length p s : (1 <= length (split_by p s))%nat.
Proof. pose proof (split_by_nonempty p s). destruct (split_by p s); [congruence|cbn; lia]. Qed.

Lemma parse_value_ok v x : plain v = true -> parse_value v = Some x -> val_ok x.
Proof.
  intros Hp. unfold parse_value. destruct (numeric v) eqn:Hn.
  - destruct (mapM parse_float (split_on 44 v)) as [l|] eqn:E; [|discriminate].
    pose proof (mapM_length _ _ _ E) as HL.
    pose proof (mapM_Forall _ normd _ _ parse_float_normd E) as HF.
    pose proof (split_by_length (Z.eqb 44) v) as H1. unfold split_on in HL.
    destruct l as [|d [|d2 l]]; intros [= <-]; cbn [val_ok].
    + cbn in HL. lia.
    + now inversion HF.
    + split; [cbn; lia|exact HF].
  - intros [= <-]. cbn. auto.
Qed.

Lemma numeric_print_dec d : numeric (print_dec d) = true.
Proof.
  unfold numeric. rewrite print_dec_count, dd_numch by apply print_dec_dd.
  pose proof (print_dec_nonempty d). destruct (print_dec d); [congruence|reflexivity].
Qed.

Lemma parse_value_num d : normd d -> parse_value (print_dec d) = Some (VNum d).
Proof.
  intros Hn. unfold parse_value. rewrite numeric_print_dec. unfold split_on.
  rewrite split_by_none by (apply dd_no44, print_dec_dd).
  cbn [mapM]. now rewrite parse_float_print.
Qed.

Lemma join_dc ps : Forall (fun q => digits q = true) ps -> dc (join [44] ps) = true.
Proof.
  induction 1 as [|a ps Ha Hps IH]; [reflexivity|]. destruct ps as [|b ps].
  - cbn. now apply digits_dc.
  - change (join [44] (a :: b :: ps)) with (a ++ [44] ++ join [44] (b :: ps)).
    unfold dc. rewrite !forallb_app. fold (dc a) (dc (join [44] (b :: ps))).
    rewrite digits_dc, IH by assumption. reflexivity.
Qed.

Lemma parse_value_ints zs : (2 <= length zs)%nat -> Forall (fun z => 0 <= z) zs ->
  parse_value (join [44] (map print_nat zs)) = Some (VList (map (fun z => (z, O)) zs)).
Proof.
  intros HL Hz. set (ps := map print_nat zs).
  assert (Hd : Forall (fun q => digits q = true) ps).
  { apply Forall_forall. intros q Hq. apply in_map_iff in Hq as [z [<- _]]. apply print_nat_digits. }
  pose proof (join_dc ps Hd) as Hdc.
  assert (Hne : join [44] ps <> []).
  { destruct zs as [|z zs]; [cbn in HL; lia|]. subst ps. cbn [map].
    pose proof (print_nat_nonempty z). destruct (map print_nat zs); cbn; destruct (print_nat z); cbn; congruence. }
  unfold parse_value, numeric.
  rewrite dc_numch, dc_count46 by exact Hdc.
  destruct (join [44] ps) as [|c0 r0] eqn:E; [congruence|]. cbn [null negb andb Z.ltb Z.compare]. rewrite <- E.
  rewrite split_on_join.
  - subst ps. rewrite (mapM_map print_nat parse_float (fun z => (z, O))).
    + destruct zs as [|z1 [|z2 zs]]; cbn in HL; try lia. reflexivity.
    + intros z Hin. rewrite Forall_forall in Hz.
      apply (parse_float_print (z, O)). split; cbn; auto.
  - destruct zs; [cbn in HL; lia|discriminate].
  - eapply Forall_impl; [|exact Hd]. intros q Hq. cbn beta. now apply digits_no.
Qed.

Lemma dec_trunc_int d : snd d = O -> dec_trunc d = fst d.
Proof. destruct d as [m s]. cbn. intros ->. unfold dec_trunc, pow10. cbn. apply Z.div_1_r. Qed.

(* re-reading a written canonical value: lists come back truncated to integers *)
Definition reparse (v : value) : value :=
  match v with VList l => VList (map (fun x => (dec_trunc x, O)) l) | _ => v end.

Lemma reparse_int_lists v : int_lists_val v -> reparse v = v.
Proof.
  destruct v as [s|d|l|z|]; cbn; auto. intros HI. f_equal.
  rewrite <- (map_id l) at 2. apply map_ext_in. intros [m s] Hx.
  rewrite Forall_forall in HI. specialize (HI _ Hx). cbn in HI. subst s.
  now rewrite dec_trunc_int.
Qed.

Lemma parse_show v : val_ok v ->
  parse_value (show_value v) = Some (reparse v) /\ plain (show_value v) = true.
Proof.
  destruct v as [s|d|l|z|]; cbn [val_ok reparse show_value]; try tauto.
  - intros [Hn Hp]. unfold parse_value. now rewrite Hn.
  - intros Hn. split; [now apply parse_value_num|].
    apply numch_plain, dd_numch, print_dec_dd.
  - intros [HL HF].
    assert (Hz : Forall (fun z => 0 <= z) (map dec_trunc l)).
    { apply Forall_forall. intros z Hz. apply in_map_iff in Hz as [x [<- Hx]].
      rewrite Forall_forall in HF. destruct (HF _ Hx) as [H0 _].
      unfold dec_trunc. apply Z.div_pos; [exact H0|apply pow10_pos]. }
    assert (E : map (fun x => print_int (dec_trunc x)) l = map print_nat (map dec_trunc l)).
    { rewrite map_map. apply map_ext_in. intros x Hx. apply print_int_nonneg.
      rewrite Forall_forall in Hz. apply Hz. now apply in_map. }
    rewrite E. split.
    + rewrite parse_value_ints; [|now rewrite map_length|exact Hz].
      now rewrite map_map.
    + apply numch_plain, dc_numch, join_dc. apply Forall_forall. intros q Hq.
      apply in_map_iff in Hq as [z [<- _]]. apply print_nat_digits.
Qed.

(* the two derived entries are written as text that parses (to something) *)
Lemma parse_show_int z : exists x, parse_value (print_int z) = Some x /\ plain (print_int z) = true.
Proof.
  unfold print_int. destruct (Z.ltb_spec z 0).
  - exists (VStr (45 :: print_nat (- z))). split.
    + unfold parse_value, numeric. cbn [forallb null negb andb]. reflexivity.
    + unfold plain. cbn [forallb]. change (negb (is_break 45)) with true. cbn [andb].
      apply numch_plain, digits_numch, print_nat_digits.
  - exists (VNum (z, O)). split.
    + apply (parse_value_num (z, O)). split; cbn; auto.
    + apply numch_plain, digits_numch, print_nat_digits.
Qed.

(* ------------------------------------------------------------ dictionaries *)
Definition keys (d : dict) : list str := map fst d.

Lemma lookup_dset k k2 v d :
  lookup k (dset k2 v d) = if str_eq_dec k k2 then Some v else lookup k d.
Proof.
  induction d as [|[k0 v0] d IH]; cbn [dset lookup].
  - destruct (str_eq_dec k k2); reflexivity.
  - destruct (str_eq_dec k2 k0) as [->|N]; cbn [lookup].
    + destruct (str_eq_dec k k0); reflexivity.
    + destruct (str_eq_dec k k0) as [->|N2].
      * destruct (str_eq_dec k0 k2); [congruence|reflexivity].
      * exact IH.
Qed.

Lemma lookup_None k d : ~ In k (keys d) -> lookup k d = None.
Proof.
  induction d as [|[k0 v0] d IH]; cbn [lookup keys map fst]; [auto|]. intros H.
  destruct (str_eq_dec k k0) as [->|N]; [exfalso; apply H; now left|].
  apply IH. intros H2. apply H. now right.
Qed.

Lemma lookup_In k d : In k (keys d) -> exists v, lookup k d = Some v.
Proof.
  induction d as [|[k0 v0] d IH]; cbn [lookup keys map fst]; [intros []|]. intros H.
  destruct (str_eq_dec k k0) as [->|N]; [eauto|]. destruct H as [H|H]; [congruence|auto].
Qed.

Lemma has_In k d : has k d = true <-> In k (keys d).
Proof.
  unfold has. split.
  - intros H. destruct (in_dec str_eq_dec k (keys d)) as [Hi|Hn]; [exact Hi|].
    now rewrite (lookup_None _ _ Hn) in H.
  - intros H. destruct (lookup_In _ _ H) as [v ->]. reflexivity.
Qed.

Lemma dset_fresh k v d : ~ In k (keys d) -> dset k v d = d ++ [(k, v)].
Proof.
  induction d as [|[k0 v0] d IH]; cbn [dset keys map fst app]; [auto|]. intros H.
  destruct (str_eq_dec k k0) as [->|N]; [exfalso; apply H; now left|].
  rewrite IH; [reflexivity|]. intros H2. apply H. now right.
Qed.

Lemma keys_dset_in k v d : In k (keys d) -> keys (dset k v d) = keys d.
Proof.
  induction d as [|[k0 v0] d IH]; cbn [dset keys map fst]; [intros []|]. intros H.
  destruct (str_eq_dec k k0) as [->|N]; [reflexivity|]. cbn [map fst]. f_equal.
  apply IH. destruct H as [H|H]; [congruence|exact H].
Qed.

Lemma keys_dset k v d : keys (dset k v d) = if has k d then keys d else keys d ++ [k].
Proof.
  destruct (has k d) eqn:E.
  - apply keys_dset_in. now apply has_In.
  - rewrite dset_fresh.
    + unfold keys. rewrite map_app. reflexivity.
    + intros H. apply has_In in H. congruence.
Qed.

Lemma In_keys_dset k v d x : In x (keys (dset k v d)) <-> x = k \/ In x (keys d).
Proof.
  rewrite keys_dset. destruct (has k d) eqn:E.
  - apply has_In in E. split; [auto|]. intros [->|H]; auto.
  - rewrite in_app_iff. cbn. split; [intros [H|[H|[]]]; auto|intros [H|H]; auto].
Qed.

Lemma NoDup_snoc {A} (l : list A) a : NoDup l -> ~ In a l -> NoDup (l ++ [a]).
Proof.
  intros H Ha. induction H as [|x l Hx Hl IH]; cbn.
  - constructor; [intros []|constructor].
  - constructor.
    + rewrite in_app_iff. cbn. intros [H|[H|[]]]; [auto|]. subst. apply Ha. now left.
    + apply IH. intros H. apply Ha. now right.
Qed.

Lemma NoDup_dset k v d : NoDup (keys d) -> NoDup (keys (dset k v d)).
Proof.
  intros H. rewrite keys_dset. destruct (has k d) eqn:E; [exact H|].
  apply NoDup_snoc; [exact H|]. intros Hi. apply has_In in Hi. congruence.
Qed.

Lemma Forall_dset (P : str * value -> Prop) k v d :
  Forall P d -> P (k, v) -> Forall P (dset k v d).
Proof.
  intros H Hp. induction H as [|[k0 v0] d H0 Hd IH]; cbn [dset].
  - constructor; [exact Hp|constructor].
  - destruct (str_eq_dec k k0); constructor; auto.
Qed.

Lemma assoc_ext a b :
  keys a = keys b -> NoDup (keys a) -> (forall k, lookup k a = lookup k b) -> a = b.
Proof.
  revert b. induction a as [|[k v] a IH]; intros [|[k2 v2] b]; cbn [keys map fst];
    try discriminate; [reflexivity|].
  intros [= <- Hk] Hnd HL. inversion Hnd as [|? ? Hnk Hnd2]; subst.
  pose proof (HL k) as H0. cbn [lookup] in H0.
  destruct (str_eq_dec k k) as [_|]; [|congruence]. injection H0 as <-.
  f_equal. apply IH; [exact Hk|exact Hnd2|]. intros k2.
  destruct (str_eq_dec k2 k) as [->|N].
  - rewrite !lookup_None; [reflexivity| |exact Hnk]. unfold keys in *. now rewrite <- Hk.
  - specialize (HL k2). cbn [lookup] in HL. destruct (str_eq_dec k2 k); [congruence|exact HL].
Qed.

Lemma dict_of_acc es acc : NoDup (keys (acc ++ es)) ->
  fold_left (fun d e => dset (fst e) (snd e) d) es acc = acc ++ es.
Proof.
  revert acc. induction es as [|[k v] es IH]; intros acc H; cbn [fold_left fst snd].
  - now rewrite app_nil_r.
  - rewrite dset_fresh.
    + rewrite IH; rewrite <- app_assoc; [reflexivity|exact H].
    + unfold keys in H. rewrite map_app in H. cbn [map fst] in H.
      apply NoDup_remove_2 in H. intros Hi. apply H. rewrite in_app_iff. now left.
Qed.

Lemma dict_of_nodup es : NoDup (keys es) -> dict_of es = es.
Proof. intros H. unfold dict_of. now rewrite dict_of_acc. Qed.

(* ------------------------------------------------------------ what read produces *)
Definition key_ok (k : str) : Prop :=
  forallb (fun c => negb (c =? 61)) k = true /\ untilde k = k /\ plain k = true.
Definition entry_ok (e : str * value) : Prop := key_ok (fst e) /\ val_ok (snd e).
Definition base_canon (b : dict) : Prop := NoDup (keys b) /\ Forall entry_ok b.

Lemma forallb_filter {A} (p q : A -> bool) l : forallb p l = true -> forallb p (filter q l) = true.
Proof.
  induction l as [|x l IH]; cbn; [auto|]. rewrite andb_true_iff. intros [Hx Hl].
  destruct (q x); cbn; [rewrite Hx|]; auto.
Qed.
Lemma filter_idem {A} (q : A -> bool) l : filter q (filter q l) = filter q l.
Proof.
  induction l as [|x l IH]; cbn; [reflexivity|]. destruct (q x) eqn:E; cbn; [rewrite E, IH|]; auto.
Qed.

Lemma parse_line_ok l k v : plain l = true -> parse_line l = Some (k, v) -> entry_ok (k, v).
Proof.
  intros Hp. unfold parse_line. destruct (break_eq l) as [[k0 v0]|] eqn:E; [|discriminate].
  apply break_eq_spec in E as [-> Hk0]. unfold plain in Hp. rewrite forallb_app in Hp.
  cbn [forallb] in Hp. apply andb_true_iff in Hp as [Hpk Hpv]. apply andb_true_iff in Hpv as [_ Hpv].
  destruct (parse_value v0) as [x|] eqn:Ev; [|discriminate]. intros [= <- <-].
  split; cbn [fst snd].
  - split; [|split].
    + unfold untilde. now apply forallb_filter.
    + unfold untilde. apply filter_idem.
    + unfold untilde, plain. now apply forallb_filter.
  - eapply parse_value_ok; [exact Hpv|exact Ev].
Qed.

Lemma dict_of_canon es : Forall entry_ok es -> base_canon (dict_of es).
Proof.
  unfold dict_of. assert (G : forall acc, base_canon acc -> Forall entry_ok es ->
    base_canon (fold_left (fun d e => dset (fst e) (snd e) d) es acc)).
  { induction es as [|[k v] es IH]; intros acc Ha He; cbn [fold_left]; [exact Ha|].
    inversion He; subst. apply IH; [|assumption]. destruct Ha as [Ha1 Ha2]. split.
    - now apply NoDup_dset.
    - now apply Forall_dset. }
  intros H. apply G; [|exact H]. split; constructor.
Qed.

Lemma mapM_In {A B} (f : A -> option B) l r b :
  mapM f l = Some r -> In b r -> exists a, In a l /\ f a = Some b.
Proof.
  revert r. induction l as [|a l IH]; cbn; intros r.
  - intros [= <-] [].
  - destruct (f a) eqn:E; [|discriminate]. destruct (mapM f l); [|discriminate].
    intros [= <-] [<-|Hb]; [eauto|]. destruct (IH _ eq_refl Hb) as [a' [? ?]]. eauto.
Qed.

Lemma read_base_canon f b : read_base f = Some b -> base_canon b.
Proof.
  unfold read_base. destruct (mapM parse_line _) as [es|] eqn:E; [|discriminate].
  intros [= <-]. apply dict_of_canon. apply Forall_forall. intros [k v] He.
  destruct (mapM_In _ _ _ _ E He) as [l [Hl Hp]].
  eapply parse_line_ok; [|exact Hp]. eapply splitlines_plain, Hl.
Qed.

(* ------------------------------------------------------------ writing and reading back *)
Definition rp (v : value) : value :=
  match parse_value (show_value v) with Some x => x | None => VNone end.
Definition writable (v : value) : Prop :=
  parse_value (show_value v) <> None /\ plain (show_value v) = true.
Definition body (e : str * value) : str := fst e ++ 61 :: show_value (snd e).

Lemma plain_no13 s : plain s = true -> forallb (fun c => negb (c =? 13)) s = true.
Proof.
  apply forallb_impl. intros c H. destruct (Z.eqb_spec c 13) as [->|]; [discriminate|reflexivity].
Qed.

Lemma write_meta_bodies d : write_meta d = concat (map (fun b => b ++ [10]) (map body d)).
Proof.
  unfold write_meta. rewrite map_map. f_equal. apply map_ext. intros [k v].
  unfold write_line, body. cbn [fst snd]. rewrite <- app_assoc. reflexivity.
Qed.

Lemma concat_lines_no13 bodies : Forall (fun b => plain b = true) bodies ->
  forallb (fun c => negb (c =? 13)) (concat (map (fun b => b ++ [10]) bodies)) = true.
Proof.
  induction 1 as [|b bs Hb Hbs IH]; [reflexivity|]. cbn [map concat].
  rewrite !forallb_app, IH, (plain_no13 _ Hb). reflexivity.
Qed.

Lemma read_base_written d :
  NoDup (keys d) -> Forall (fun e => key_ok (fst e) /\ writable (snd e)) d ->
  read_base (write_meta d) = Some (map (fun e => (fst e, rp (snd e))) d).
Proof.
  intros Hnd Hd.
  assert (Hb : Forall (fun b => plain b = true) (map body d)).
  { apply Forall_forall. intros b Hb. apply in_map_iff in Hb as [e [<- He]].
    rewrite Forall_forall in Hd. destruct (Hd e He) as [[_ [_ Hk]] [_ Hv]].
    unfold body, plain. rewrite forallb_app. cbn [forallb]. fold (plain (fst e)) (plain (show_value (snd e))).
    now rewrite Hk, Hv. }
  unfold read_base. rewrite write_meta_bodies, univ_nl_id by now apply concat_lines_no13.
  rewrite splitlines_written by exact Hb.
  rewrite (mapM_map body parse_line (fun e => (fst e, rp (snd e)))).
  - cbn [option_map]. f_equal. apply dict_of_nodup. unfold keys. rewrite map_map. cbn [fst]. exact Hnd.
  - intros e He. rewrite Forall_forall in Hd. destruct (Hd e He) as [[Hk1 [Hk2 _]] [Hv _]].
    unfold parse_line, body. rewrite break_eq_app by exact Hk1. unfold rp.
    destruct (parse_value (show_value (snd e))); [|congruence]. now rewrite Hk2.
Qed.

(* ------------------------------------------------------------ the round trip *)
Definition kN := lit "neuropixelVersion".
Definition kS := lit "serial".
Definition finish (b : dict) : option dict :=
  match serial (dset kN (version_value b) b) with
  | None => None
  | Some s => Some (dset kS (serial_value s) (dset kN (version_value b) b))
  end.
Lemma read_meta_finish f :
  read_meta f = match read_base f with None => None | Some b => finish b end.
Proof. reflexivity. Qed.

(* version and serial only consult these keys *)
Definition agree_on (ks : list str) (a b : dict) : Prop := forall k, In k ks -> lookup k a = lookup k b.
Definition version_keys := [lit "typeEnabled"; lit "imDatPrb_type"; lit "imDatPrb_port"; lit "imDatPrb_slot"].
Definition serial_keys := [lit "imProbeSN"; lit "imDatPrb_sn"].

Lemma version_agree a b : agree_on version_keys a b -> version a = version b.
Proof.
  intros H. unfold version, has.
  rewrite (H (lit "typeEnabled")), (H (lit "imDatPrb_type")), (H (lit "imDatPrb_port")),
    (H (lit "imDatPrb_slot")); [reflexivity| | | |]; unfold version_keys; cbn [In]; auto 6.
Qed.
Lemma serial_agree a b : agree_on serial_keys a b -> serial a = serial b.
Proof.
  intros H. unfold serial.
  rewrite (H (lit "imProbeSN")), (H (lit "imDatPrb_sn")); [reflexivity| |]; unfold serial_keys; cbn [In]; auto.
Qed.

Lemma lookup_mapv (g : value -> value) k d :
  lookup k (map (fun e => (fst e, g (snd e))) d) = option_map g (lookup k d).
Proof.
  induction d as [|[k0 v0] d IH]; cbn [map lookup fst snd]; [reflexivity|].
  destruct (str_eq_dec k k0); [reflexivity|exact IH].
Qed.

Lemma lookup_entry k v d : NoDup (keys d) -> In (k, v) d -> lookup k d = Some v.
Proof.
  induction d as [|[k0 v0] d IH]; [intros _ []|]. cbn [keys map fst lookup]. intros Hnd [E|Hi].
  - injection E as -> ->. destruct (str_eq_dec k k); [reflexivity|congruence].
  - inversion Hnd as [|? ? Hn Hnd2]; subst. destruct (str_eq_dec k k0) as [->|N].
    + exfalso. apply Hn. apply (in_map fst) in Hi. exact Hi.
    + now apply IH.
Qed.

Lemma lookup_Some_In k v d : lookup k d = Some v -> In (k, v) d.
Proof.
  induction d as [|[k0 v0] d IH]; cbn [lookup]; [discriminate|].
  destruct (str_eq_dec k k0) as [->|N]; [intros [= ->]; now left|right; auto].
Qed.

Lemma vers_str_ok v : val_ok (VStr (vers_str v)).
Proof. destruct v; cbn [val_ok]; split; reflexivity. Qed.

Lemma roundtrip f d :
  read_meta f = Some d ->
  Forall (fun e => int_lists_val (snd e)) d ->
  read_meta (write_meta d) = Some d.
Proof.
  rewrite read_meta_finish. destruct (read_base f) as [b|] eqn:Eb; [|discriminate].
  pose proof (read_base_canon _ _ Eb) as [Hnd Hok]. unfold finish.
  set (vv := version_value b). set (b1 := dset kN vv b).
  destruct (serial b1) as [s|] eqn:Es; [|discriminate]. intros [= <-] HI.
  set (d := dset kS (serial_value s) b1) in *.
  assert (Hnd_d : NoDup (keys d)) by (apply NoDup_dset, NoDup_dset, Hnd).
  (* every entry of d is writable, with a well-formed key *)
  assert (HkN : key_ok kN) by (repeat split; reflexivity).
  assert (HkS : key_ok kS) by (repeat split; reflexivity).
  assert (Hw : Forall (fun e => key_ok (fst e) /\ writable (snd e)) d).
  { subst d b1. apply Forall_dset; [apply Forall_dset|].
    - eapply Forall_impl; [|exact Hok]. intros [k v] [Hk Hv]. split; [exact Hk|].
      destruct (parse_show v Hv) as [E P]. split; [cbn [snd]; congruence|exact P].
    - split; [exact HkN|]. subst vv. unfold version_value. destruct (version b) as [v|].
      + destruct (parse_show _ (vers_str_ok v)) as [E P]. split; [cbn [snd]; congruence|exact P].
      + split; [discriminate|reflexivity].
    - split; [exact HkS|]. destruct s as [z|]; cbn [serial_value snd].
      + destruct (parse_show_int z) as [x [E P]]. split; [cbn [show_value]; congruence|exact P].
      + split; [discriminate|reflexivity]. }
  rewrite read_meta_finish, (read_base_written d Hnd_d Hw). unfold finish.
  set (d2 := map (fun e => (fst e, rp (snd e))) d).
  (* d2 agrees with b away from the two derived keys *)
  assert (Hag : forall k, k <> kN -> k <> kS -> lookup k d2 = lookup k b).
  { intros k H1 H2. subst d2. rewrite lookup_mapv. subst d b1. rewrite !lookup_dset.
    destruct (str_eq_dec k kS); [congruence|]. destruct (str_eq_dec k kN); [congruence|].
    destruct (lookup k b) as [v|] eqn:E; [|reflexivity]. cbn [option_map]. f_equal.
    apply lookup_Some_In in E. rewrite Forall_forall in Hok. destruct (Hok _ E) as [_ Hv].
    cbn [snd] in Hv. unfold rp. destruct (parse_show v Hv) as [-> _].
    apply reparse_int_lists.
    (* (k, v) is still an entry of d *)
    rewrite Forall_forall in HI. apply (HI (k, v)). apply lookup_Some_In.
    rewrite !lookup_dset. destruct (str_eq_dec k kS); [congruence|]. destruct (str_eq_dec k kN); [congruence|].
    now apply lookup_entry. }
  assert (Hv : version d2 = version b).
  { apply version_agree. intros k Hk. apply Hag; intros ->; unfold version_keys in Hk; cbn [In] in Hk;
      repeat (destruct Hk as [Hk|Hk]; [discriminate Hk|]); exact Hk. }
  unfold version_value. rewrite Hv. fold (version_value b). fold vv.
  assert (Hs : serial (dset kN vv d2) = serial b1).
  { apply serial_agree. intros k Hk. subst b1. rewrite !lookup_dset.
    destruct (str_eq_dec k kN); [reflexivity|]. apply Hag; [assumption|]. intros ->.
    unfold serial_keys in Hk; cbn [In] in Hk; repeat (destruct Hk as [Hk|Hk]; [discriminate Hk|]); exact Hk. }
  rewrite Hs, Es. f_equal.
  assert (Hkeys : keys d2 = keys d) by (subst d2; unfold keys; rewrite map_map; reflexivity).
  assert (HinN : In kN (keys d)) by (subst d; apply In_keys_dset; right; apply In_keys_dset; now left).
  assert (HinS : In kS (keys d)) by (subst d; apply In_keys_dset; now left).
  apply assoc_ext.
  - rewrite keys_dset_in, keys_dset_in; rewrite ?keys_dset_in; rewrite ?Hkeys; auto.
  - apply NoDup_dset, NoDup_dset. now rewrite Hkeys.
  - intros k. subst d b1. rewrite !lookup_dset.
    destruct (str_eq_dec k kS); [reflexivity|]. destruct (str_eq_dec k kN); [reflexivity|].
    now apply Hag.
Qed.

Lemma roundtrip_pub f d :
  read_meta f = Some d ->
  (forall k l, In (k, VList l) d -> Forall (fun x => snd x = O) l) ->
  read_meta (write_meta d) = Some d.
Proof.
  intros H HI. apply (roundtrip f d H). apply Forall_forall. intros [k v] He.
  destruct v; cbn; auto. eapply HI; exact He.
Qed.

(* keys of a parsed dictionary: unique, no tilde, no '=', no line break *)
Lemma read_meta_keys f d : read_meta f = Some d ->
  NoDup (keys d) /\ forall k, In k (keys d) -> ~ In 126 k /\ ~ In 61 k /\ plain k = true.
Proof.
  rewrite read_meta_finish. destruct (read_base f) as [b|] eqn:Eb; [|discriminate].
  pose proof (read_base_canon _ _ Eb) as [Hnd Hok]. unfold finish.
  destruct (serial _) as [s|]; [|discriminate]. intros [= <-]. split.
  - apply NoDup_dset, NoDup_dset, Hnd.
  - assert (G : forall k, key_ok k -> ~ In 126 k /\ ~ In 61 k /\ plain k = true).
    { intros k [H1 [H2 H3]]. split; [|split; [|exact H3]].
      - rewrite <- H2. apply untilde_no_tilde.
      - intros Hi. rewrite forallb_forall in H1. specialize (H1 _ Hi). discriminate. }
    intros k Hk. apply G. apply In_keys_dset in Hk as [->|Hk]; [repeat split; reflexivity|].
    apply In_keys_dset in Hk as [->|Hk]; [repeat split; reflexivity|].
    unfold keys in Hk. apply in_map_iff in Hk as [[k0 v0] [<- He]].
    rewrite Forall_forall in Hok. apply (Hok _ He).
Qed.

(* last key wins *)
Lemma lookup_app k a b :
  lookup k (a ++ b) = match lookup k a with Some v => Some v | None => lookup k b end.
Proof.
  induction a as [|[k0 v0] a IH]; cbn [app lookup]; [reflexivity|].
  destruct (str_eq_dec k k0); [reflexivity|exact IH].
Qed.

Lemma lookup_fold k es acc :
  lookup k (fold_left (fun d e => dset (fst e) (snd e) d) es acc) =
  match lookup k (rev es) with Some v => Some v | None => lookup k acc end.
Proof.
  revert acc. induction es as [|[k0 v0] es IH]; intros acc; cbn [fold_left rev fst snd]; [reflexivity|].
  rewrite IH, lookup_app, lookup_dset. cbn [lookup].
  destruct (lookup k (rev es)); [reflexivity|]. destruct (str_eq_dec k k0); reflexivity.
Qed.

Lemma last_key_wins es k : lookup k (dict_of es) = lookup k (rev es).
Proof. unfold dict_of. rewrite lookup_fold. cbn [lookup]. destruct (lookup k (rev es)); reflexivity. Qed.

(* ------------------------------------------------------------ decision tables *)
Lemma val_eq_int_inj t a b : val_eq_int t a = true -> val_eq_int t b = true -> a = b.
Proof.
  destruct t as [s|[m sc]|l|z|]; cbn; try discriminate.
  - unfold dec_eq_int, dec_eqb. cbn. rewrite !andb_true_iff, !Z.eqb_eq. intros [-> _] [-> _]. reflexivity.
  - rewrite !Z.eqb_eq. congruence.
Qed.

Lemma val_eq_int_other t a b : val_eq_int t a = true -> a <> b -> val_eq_int t b = false.
Proof.
  intros Ha Hab. destruct (val_eq_int t b) eqn:E; [|reflexivity].
  exfalso. apply Hab. eapply val_eq_int_inj; eassumption.
Qed.

Definition code_of (v : vers) : list Z :=
  match v with
  | V3A => [] | V3B1 | V3B2 => [0] | VNP21 => [21; 1030] | VNP24 => [24; 2013] | VNPultra => [1100]
  end.

Lemma version_table d :
  (has (lit "typeEnabled") d = true -> version d = Some V3A) /\
  (has (lit "typeEnabled") d = false -> lookup (lit "imDatPrb_type") d = None -> version d = None) /\
  (forall t, has (lit "typeEnabled") d = false -> lookup (lit "imDatPrb_type") d = Some t ->
     (val_eq_int t 0 = true ->
        version d = Some (if has (lit "imDatPrb_port") d && has (lit "imDatPrb_slot") d then V3B2 else V3B1)) /\
     (val_eq_int t 21 = true \/ val_eq_int t 1030 = true -> version d = Some VNP21) /\
     (val_eq_int t 24 = true \/ val_eq_int t 2013 = true -> version d = Some VNP24) /\
     (val_eq_int t 1100 = true -> version d = Some VNPultra) /\
     ((forall c, In c [0; 21; 1030; 24; 2013; 1100] -> val_eq_int t c = false) -> version d = None)).
Proof.
  unfold version. split; [intros ->; reflexivity|]. split; [intros -> ->; reflexivity|].
  intros t -> ->. split; [|split; [|split; [|split]]].
  - intros ->. destruct (_ && _); reflexivity.
  - intros [H|H]; rewrite (val_eq_int_other t _ 0 H) by lia; rewrite H; [reflexivity|].
    now rewrite orb_true_r.
  - intros [H|H]; rewrite (val_eq_int_other t _ 0 H), (val_eq_int_other t _ 21 H),
      (val_eq_int_other t _ 1030 H) by lia; rewrite H; [reflexivity|]. now rewrite orb_true_r.
  - intros H. rewrite (val_eq_int_other t _ 0 H), (val_eq_int_other t _ 21 H),
      (val_eq_int_other t _ 1030 H), (val_eq_int_other t _ 24 H), (val_eq_int_other t _ 2013 H) by lia.
    now rewrite H.
  - intros H. rewrite !H by (cbn; auto 10). reflexivity.
Qed.

Lemma type_table d :
  (forall a l rest, lookup (lit "snsApLfSy") d = Some (VList (a :: l :: rest)) ->
     (fst a = 0 -> fst l <> 0 -> get_type d = Some (Some SLf)) /\
     (fst a <> 0 -> fst l = 0 -> get_type d = Some (Some SAp)) /\
     ((fst a = 0 <-> fst l = 0) -> get_type d = Some None)) /\
  (lookup (lit "snsApLfSy") d = None ->
     get_type d = Some (if val_is_str (lookup (lit "typeThis") d) (lit "nidq") then Some SNidq else None)).
Proof.
  unfold get_type. split.
  - intros a l rest ->. split; [|split].
    + intros -> H. apply Z.eqb_neq in H. now rewrite H.
    + intros H ->. apply Z.eqb_neq in H. now rewrite H.
    + intros H. destruct (Z.eqb_spec (fst a) 0) as [E|E].
      * apply H in E. rewrite E. reflexivity.
      * destruct (Z.eqb_spec (fst l) 0) as [E2|E2]; [apply H in E2; congruence|reflexivity].
  - intros ->. reflexivity.
Qed.

Lemma py_nth_2 {A} (a b c : A) rest : py_nth (a :: b :: c :: rest) 2 = Some c.
Proof.
  unfold py_nth. change (2 <? 0) with false. cbv iota.
  destruct (Z.ltb_spec 2 (Z.of_nat (length (a :: b :: c :: rest)))) as [H|H].
  - reflexivity.
  - cbn [length] in H. lia.
Qed.

(* channel and sync counts of an imec stream *)
Lemma counts_table d a l sy rest n st :
  lookup (lit "snsApLfSy") d = Some (VList (a :: l :: sy :: rest)) ->
  lookup (lit "nSavedChans") d = Some (VNum n) ->
  get_type d = Some (Some st) ->
  nchannels d = Some (dec_trunc n) /\
  sync_indices d = Some (dec_trunc n - dec_trunc sy, Z.max 0 (dec_trunc sy)).
Proof.
  intros Hs Hn Ht. unfold sync_indices, nchannels. rewrite Ht, Hn. cbn [py_int]. split; [reflexivity|].
  assert (st <> SNidq).
  { intros ->. unfold get_type in Ht. rewrite Hs in Ht.
    destruct (_ && _); [discriminate|]. destruct (_ && _); discriminate. }
  destruct st; [| |congruence]; rewrite Hs; cbn [py_index]; rewrite py_nth_2; reflexivity.
Qed.

(* ------------------------------------------------------------ the IMRO scanner *)
Lemma span_digits_app ds r :
  digits ds = true -> (match r with c :: _ => is_digit c = false | [] => True end) ->
  span_digits (ds ++ r) = (ds, r).
Proof.
  induction ds as [|x ds IH]; cbn [app]; intros Hd Hr.
  - destruct r as [|c r]; [reflexivity|]. cbn [span_digits]. now rewrite Hr.
  - unfold digits in Hd. cbn [forallb] in Hd. apply andb_true_iff in Hd as [Hx Hd].
    cbn [span_digits]. rewrite Hx, (IH Hd Hr). reflexivity.
Qed.

Lemma span_digits_length s a r : span_digits s = (a, r) -> length s = (length a + length r)%nat.
Proof.
  revert a r. induction s as [|c s IH]; cbn [span_digits]; intros a r.
  - intros [= <- <-]. reflexivity.
  - destruct (is_digit c).
    + destruct (span_digits s) as [a0 b0]. intros [= <- <-]. cbn [length]. now rewrite (IH a0 b0 eq_refl).
    + intros [= <- <-]. reflexivity.
Qed.

Lemma match_runs_shorter k s l rest :
  match_runs k s = Some (l, rest) -> (length rest + k <= length s)%nat.
Proof.
  revert s l rest. induction k as [|k IH]; intros s l rest; cbn [match_runs];
    destruct (span_digits s) as [a r] eqn:E; apply span_digits_length in E.
  - intros [= <- <-]. lia.
  - destruct r as [|c r']; [discriminate|]. destruct (c =? 32); [|discriminate].
    destruct (match_runs k r') as [[l0 rest0]|] eqn:E2; [|discriminate]. intros [= <- <-].
    apply IH in E2. cbn [length] in E. lia.
Qed.

Lemma scan_fuel n : forall s f1 f2, (length s <= n)%nat -> (n <= f1)%nat -> (n <= f2)%nat ->
  scan f1 s = scan f2 s.
Proof.
  induction n as [|n IH]; intros s f1 f2 Hs H1 H2.
  - destruct s; [|cbn in Hs; lia]. destruct f1, f2; reflexivity.
  - destruct s as [|x r]; [destruct f1, f2; reflexivity|].
    destruct f1 as [|f1]; [lia|]. destruct f2 as [|f2]; [lia|]. cbn [scan].
    destruct (match_runs 4 (x :: r)) as [[l rest]|] eqn:E.
    + apply match_runs_shorter in E. f_equal. apply IH; lia.
    + apply IH; cbn [length] in Hs; lia.
Qed.

Lemma imro_scan_nil : imro_scan [] = [].
Proof. reflexivity. Qed.
Lemma imro_scan_cons x r :
  imro_scan (x :: r) = match match_runs 4 (x :: r) with
                       | Some (l, rest) => l :: imro_scan rest
                       | None => imro_scan r
                       end.
Proof.
  unfold imro_scan. cbn [length scan].
  destruct (match_runs 4 (x :: r)) as [[l rest]|] eqn:E.
  - f_equal. apply match_runs_shorter in E. apply (scan_fuel (length rest)); cbn [length] in E; lia.
  - reflexivity.
Qed.

Definition sepch (c : Z) : Prop := is_digit c = false /\ c <> 32.

Lemma match_fail_run k ds c r : digits ds = true -> sepch c -> match_runs (S k) (ds ++ c :: r) = None.
Proof.
  intros Hd [Hc1 Hc2]. cbn [match_runs]. rewrite span_digits_app by assumption.
  apply Z.eqb_neq in Hc2. now rewrite Hc2.
Qed.

(* a digit run followed by a separator other than a blank yields no match *)
Lemma scan_skip_run ds c r : digits ds = true -> sepch c ->
  imro_scan (ds ++ c :: r) = imro_scan r.
Proof.
  intros Hd Hc. induction ds as [|x ds IH].
  - cbn [app]. rewrite imro_scan_cons. pose proof (match_fail_run 3 [] c r eq_refl Hc) as E.
    cbn [app] in E. now rewrite E.
  - cbn [app]. rewrite imro_scan_cons. change (x :: ds ++ c :: r) with ((x :: ds) ++ c :: r).
    rewrite (match_fail_run 3 (x :: ds) c r Hd Hc). apply IH.
    unfold digits in *. cbn [forallb] in Hd. now apply andb_true_iff in Hd as [_ Hd].
Qed.

Lemma match_runs_S k s :
  match_runs (S k) s =
  let '(a, r) := span_digits s in
  match r with
  | c :: r' => if c =? 32 then match match_runs k r' with
                               | Some (l, rest) => Some (a :: l, rest)
                               | None => None
                               end
               else None
  | [] => None
  end.
Proof. reflexivity. Qed.

Lemma match_fail_blank ds c r : digits ds = true -> sepch c ->
  match_runs 4 (32 :: ds ++ c :: r) = None.
Proof.
  intros Hd Hc. rewrite match_runs_S.
  change (span_digits (32 :: ds ++ c :: r)) with (@nil Z, 32 :: ds ++ c :: r).
  cbv beta iota. change (32 =? 32) with true. cbv iota.
  now rewrite (match_fail_run 2 ds c r Hd Hc).
Qed.

Lemma scan_skip_sep c r : sepch c -> imro_scan (c :: r) = imro_scan r.
Proof. intros Hc. apply (scan_skip_run [] c r eq_refl Hc). Qed.

(* one IMRO entry: five digit runs separated by single blanks, optionally a sixth *)
Definition blank_join (rs : list str) : str := join [32] rs.

Lemma match_five d1 d2 d3 d4 d5 r :
  digits d1 = true -> digits d2 = true -> digits d3 = true -> digits d4 = true -> digits d5 = true ->
  (match r with c :: _ => is_digit c = false | [] => True end) ->
  match_runs 4 (d1 ++ 32 :: d2 ++ 32 :: d3 ++ 32 :: d4 ++ 32 :: d5 ++ r) = Some ([d1; d2; d3; d4; d5], r).
Proof.
  intros H1 H2 H3 H4 H5 Hr.
  cbn [match_runs]. rewrite (span_digits_app d1) by (auto; reflexivity). change (32 =? 32) with true. cbv iota.
  rewrite (span_digits_app d2) by (auto; reflexivity). change (32 =? 32) with true. cbv iota.
  rewrite (span_digits_app d3) by (auto; reflexivity). change (32 =? 32) with true. cbv iota.
  rewrite (span_digits_app d4) by (auto; reflexivity). change (32 =? 32) with true. cbv iota.
  rewrite (span_digits_app d5) by auto. reflexivity.
Qed.

(* text of one entry: "(" f1 " " f2 " " f3 " " f4 " " f5 [" " f6] ")" *)
Definition entry_text (e : Z * Z * Z * Z * Z * option Z) : str :=
  let '(a, b, c, g1, g2, o) := e in
  40 :: print_nat a ++ 32 :: print_nat b ++ 32 :: print_nat c ++ 32 :: print_nat g1 ++ 32 ::
        print_nat g2 ++ match o with Some f => 32 :: print_nat f ++ [41] | None => [41] end.
Definition entry_runs (e : Z * Z * Z * Z * Z * option Z) : list str :=
  let '(a, b, c, g1, g2, _) := e in [print_nat a; print_nat b; print_nat c; print_nat g1; print_nat g2].
(* header: "(" h1 "," h2 ... ")" *)
Definition header_text (h : list Z) : str := 40 :: join [44] (map print_nat h) ++ [41].
Definition imro_text (h : list Z) (es : list (Z * Z * Z * Z * Z * option Z)) : str :=
  header_text h ++ concat (map entry_text es).

Lemma scan_open r : imro_scan (40 :: r) = imro_scan r.
Proof. apply scan_skip_sep. split; [reflexivity|discriminate]. Qed.

Lemma imro_scan_match s l rest :
  s <> [] -> match_runs 4 s = Some (l, rest) -> imro_scan s = l :: imro_scan rest.
Proof. destruct s; [congruence|]. intros _ E. now rewrite imro_scan_cons, E. Qed.

Lemma scan_entries es : imro_scan (concat (map entry_text es)) = map entry_runs es.
Proof.
  induction es as [|[[[[[a b] c] g1] g2] o] es IH]; [reflexivity|].
  cbn [map concat entry_text entry_runs].
  set (R := concat (map entry_text es)) in *.
  cbn [app]. rewrite scan_open. repeat (rewrite <- app_assoc; cbn [app]).
  rewrite (imro_scan_match _ [print_nat a; print_nat b; print_nat c; print_nat g1; print_nat g2]
             (match o with Some f => 32 :: print_nat f ++ [41] | None => [41] end ++ R)).
  - f_equal. destruct o as [f|].
    + (* the sixth field: the attempt at the blank fails, then the run is skipped *)
      cbn [app]. rewrite <- app_assoc. cbn [app].
      rewrite imro_scan_cons.
      rewrite (match_fail_blank (print_nat f) 41 R (print_nat_digits f)) by (split; [reflexivity|discriminate]).
      rewrite scan_skip_run; [exact IH|apply print_nat_digits|split; [reflexivity|discriminate]].
    + cbn [app]. rewrite scan_skip_sep by (split; [reflexivity|discriminate]). exact IH.
  - pose proof (print_nat_nonempty a). destruct (print_nat a); [congruence|discriminate].
  - apply match_five; try apply print_nat_digits. destruct o; reflexivity.
Qed.

Lemma scan_header h r : imro_scan (header_text h ++ r) = imro_scan r.
Proof.
  unfold header_text. cbn [app]. rewrite scan_open. rewrite <- app_assoc. cbn [app].
  induction h as [|z h IH].
  - cbn [map join app]. apply scan_skip_sep. split; [reflexivity|discriminate].
  - destruct h as [|z2 h].
    + cbn [map join]. apply scan_skip_run; [apply print_nat_digits|split; [reflexivity|discriminate]].
    + cbn [map] in *. cbn [join]. rewrite <- !app_assoc. cbn [app].
      rewrite scan_skip_run; [exact IH|apply print_nat_digits|split; [reflexivity|discriminate]].
Qed.

Lemma imro_scan_text h es : imro_scan (imro_text h es) = map entry_runs es.
Proof. unfold imro_text. rewrite scan_header. apply scan_entries. Qed.

(* ------------------------------------------------------------ volts per bit *)
Definition ap_gain (e : Z * Z * Z * Z * Z * option Z) : Z := let '(_, _, _, g1, _, _) := e in g1.
Definition lf_gain (e : Z * Z * Z * Z * Z * option Z) : Z := let '(_, _, _, _, g2, _) := e in g2.

Lemma run_gain_print g : 0 <= g -> run_gain (Some (print_nat g)) = Some g.
Proof.
  intros Hg. unfold run_gain. pose proof (print_nat_nonempty g) as Hne.
  destruct (print_nat g) eqn:E; [congruence|]. rewrite <- E. now rewrite print_nat_value.
Qed.

Lemma gains_of_runs (pick : nat) (sel : Z * Z * Z * Z * Z * option Z -> Z) es :
  (forall e, nth_error (entry_runs e) pick = Some (print_nat (sel e))) ->
  Forall (fun e => 0 <= sel e) es ->
  mapM (fun r => run_gain (nth_error r pick)) (map entry_runs es) = Some (map sel es).
Proof.
  intros Hp Hs. apply mapM_map. intros e He. rewrite Hp. apply run_gain_print.
  rewrite Forall_forall in Hs. now apply Hs.
Qed.

Lemma firstn_Forall {A} (P : A -> Prop) n l : Forall P l -> Forall P (firstn n l).
Proof.
  intros H. apply Forall_forall. intros x Hx. rewrite Forall_forall in H. apply H.
  rewrite <- (firstn_skipn n l). apply in_or_app. now left.
Qed.

Lemma s2v_np1 d rng mi v h es x y sy ntr st nsy :
  int2volt d = Some (rng, mi) ->
  lookup (lit "imroTbl") d = Some (VStr (imro_text h es)) ->
  lookup (lit "snsApLfSy") d = Some x -> py_index x (-1) = Some y -> py_int y = Some sy -> 0 <= sy ->
  nchannels d = Some ntr -> sync_indices d = Some (st, nsy) ->
  version d = Some v -> is_np2 v = false ->
  Forall (fun e => 0 <= ap_gain e) es -> Forall (fun e => 0 <= lf_gain e) es ->
  0 <= ntr - nsy ->
  let n := Z.to_nat (ntr - nsy) in
  s2v d = Some (rng, mi,
                S2Imec (map (fun e => CG (ap_gain e, O)) (firstn n es) ++ zrepeat C1 sy)
                       (map (fun e => CG (lf_gain e, O)) (firstn n es) ++ zrepeat C1 sy)).
Proof.
  intros Hi Ht Hx Hy Hsy Hsy0 Hn Hs Hv Hnp Hap Hlf Hnn n.
  unfold s2v. rewrite Hi, Ht, Hx, Hy. cbn [option_map]. rewrite Hsy, Hn, Hs.
  destruct (Z.ltb_spec sy 0); [lia|]. rewrite Hv, Hnp.
  rewrite imro_scan_text. unfold py_take. destruct (Z.ltb_spec (ntr - nsy) 0); [lia|].
  fold n. rewrite (firstn_map entry_runs).
  rewrite (gains_of_runs 3 ap_gain), (gains_of_runs 4 lf_gain);
    try (intros [[[[[? ?] ?] ?] ?] ?]; reflexivity); try now apply firstn_Forall.
  rewrite !map_map. reflexivity.
Qed.

Lemma s2v_np2 d rng mi v tbl x y sy ntr st nsy :
  int2volt d = Some (rng, mi) ->
  lookup (lit "imroTbl") d = Some tbl ->
  lookup (lit "snsApLfSy") d = Some x -> py_index x (-1) = Some y -> py_int y = Some sy -> 0 <= sy ->
  nchannels d = Some ntr -> sync_indices d = Some (st, nsy) ->
  version d = Some v -> is_np2 v = true -> 0 <= ntr - nsy ->
  let g := zrepeat (CG (80, O)) (ntr - nsy) ++ zrepeat C1 sy in
  s2v d = Some (rng, mi, S2Imec g g).
Proof.
  intros Hi Ht Hx Hy Hsy Hsy0 Hn Hs Hv Hnp Hnn g.
  unfold s2v. rewrite Hi, Ht, Hx, Hy. cbn [option_map]. rewrite Hsy, Hn, Hs.
  destruct (Z.ltb_spec sy 0); [lia|]. rewrite Hv, Hnp.
  destruct (Z.ltb_spec (ntr - nsy) 0); [lia|]. reflexivity.
Qed.

(* reading the vector entry by entry *)
Lemma nth_error_firstn_lt {A} (l : list A) n c : (c < n)%nat -> nth_error (firstn n l) c = nth_error l c.
Proof.
  revert n c. induction l as [|a l IH]; intros n c H.
  - now rewrite firstn_nil.
  - destruct n; [lia|]. destruct c; [reflexivity|]. cbn. apply IH. lia.
Qed.

Lemma vector_entries {A} (f : A -> conv) es n sy c :
  (n <= length es)%nat ->
  let vec := map f (firstn n es) ++ zrepeat C1 sy in
  length vec = (n + Z.to_nat sy)%nat /\
  ((c < n)%nat -> nth_error vec c = option_map f (nth_error es c)) /\
  ((n <= c < n + Z.to_nat sy)%nat -> nth_error vec c = Some C1).
Proof.
  intros Hn vec. subst vec.
  assert (HL : length (map f (firstn n es)) = n) by (rewrite map_length, firstn_length; lia).
  split; [|split].
  - rewrite app_length, HL. unfold zrepeat. now rewrite repeat_length.
  - intros Hc. rewrite nth_error_app1 by lia. rewrite nth_error_map, nth_error_firstn_lt by lia. reflexivity.
  - intros Hc. rewrite nth_error_app2 by lia. rewrite HL. unfold zrepeat.
    apply nth_error_repeat. lia.
Qed.
