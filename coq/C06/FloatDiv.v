(* C06 -- the two float64 quotients of decompress_destripe_cbin are exact integer operations.
     CHUNK_SIZE = int(sr.ns / nprocesses)                      -> ns / P            (floor)
     n_batch    = int(np.ceil(i_chunk * CHUNK_SIZE / NBATCH))  -> cdiv (i*CHUNK) NB (ceiling)
   Python's int / int is the correctly rounded binary64 quotient of the exact integers; for
   operands below 2^53 rounding moves a/b by less than 1/b, so neither the floor nor the ceiling
   changes.  The ceiling half is coq/C17/FloatCeil.v (imported); the floor half is proved here
   with the same argument. *)
From Coq Require Import ZArith Reals Lia Lra Psatz.
From Flocq Require Import Core BinarySingleNaN.
From Flocq.Prop Require Import Relative.
From IBL.lib Require Import PyInt.
From IBL.C17 Require Import FloatCeil.
Local Open Scope R_scope.

Theorem float_floor_exact (a b : Z) : (0 < a < 2 ^ 53)%Z -> (0 < b < 2 ^ 53)%Z ->
  Zfloor (RN64 (IZR a / IZR b)) = (a / b)%Z.
Proof.
  intros Ha Hb.
  pose proof (Z.div_mod a b ltac:(lia)) as Hdm.
  pose proof (Z.mod_pos_bound a b ltac:(lia)) as Hmb.
  set (n := (a / b)%Z) in *.
  assert (Hn0 : (0 <= n)%Z) by (apply Z.div_pos; lia).
  assert (Hna : (n <= a)%Z) by nia.
  set (A := IZR a). set (B := IZR b). set (N := IZR n).
  assert (HB : 0 < B) by (apply IZR_lt; lia).
  assert (HA : 0 < A) by (apply IZR_lt; lia).
  assert (H1 : N * B <= A).
  { unfold A, B, N. rewrite <- mult_IZR. apply IZR_le. lia. }
  assert (H2 : A + 1 <= (N + 1) * B).
  { unfold A, B, N. rewrite <- (plus_IZR n 1), <- mult_IZR, <- plus_IZR. apply IZR_le. nia. }
  assert (HP : A < IZR (2 ^ 53)) by (apply IZR_lt; lia).
  set (q := A / B).
  assert (HqB : q * B = A) by (unfold q; field; lra).
  assert (Hq0 : 0 < q) by (unfold q; apply Rdiv_lt_0_compat; assumption).
  apply Zfloor_imp. rewrite plus_IZR. fold N. split.
  - (* the integer below is representable; rounding is monotone *)
    assert (Hle : N <= q).
    { apply Rmult_le_reg_r with B; [assumption|]. rewrite HqB. assumption. }
    replace N with (RN64 N).
    + unfold RN64. apply round_le; [apply FLT_exp_valid; unfold Prec_gt_0; lia | apply valid_rnd_N | assumption].
    + unfold RN64. apply round_generic; [apply valid_rnd_N|]. apply int_format64. lia.
  - (* rounding cannot reach the integer above *)
    assert (Hrel : Rabs (RN64 q - q) <= / 2 * bpow radix2 (- (53) + 1) * Rabs q).
    { unfold RN64, fexp64. apply relative_error_N_FLT; [lia|].
      rewrite (Rabs_pos_eq q) by lra.
      apply Rle_trans with (bpow radix2 (-53)); [apply bpow_le; lia|].
      rewrite bpow_m53.
      assert (HBP : B < IZR (2 ^ 53)) by (apply IZR_lt; lia).
      assert (HA1 : 1 <= A) by (apply (IZR_le 1); lia).
      assert (HP0 : 0 < IZR (2 ^ 53)) by (apply IZR_lt; lia).
      apply Rmult_le_reg_r with (IZR (2 ^ 53)); [assumption|].
      rewrite Rinv_l by lra. nra. }
    rewrite (Rabs_pos_eq q) in Hrel by lra.
    rewrite half_ulp_53 in Hrel.
    apply Rabs_le_inv in Hrel.
    assert (HP0 : 0 < IZR (2 ^ 53)) by (apply IZR_lt; lia).
    assert (Herr : / IZR (2 ^ 53) * q * B < 1).
    { rewrite Rmult_assoc, HqB. apply Rmult_lt_reg_l with (IZR (2 ^ 53)); [assumption|].
      rewrite <- Rmult_assoc, Rinv_r by lra. lra. }
    apply Rmult_lt_reg_r with B; [assumption|]. nra.
Qed.

(* int(float(a) / float(b)) for non-negative operands: the floor of the value of the IEEE quotient *)
Definition floor_div64 (a b : Z) : Z := Zfloor (B2R (div64 (Z2B64 a) (Z2B64 b))).

Theorem float64_floor_div_exact a b : (0 < a < 2 ^ 53)%Z -> (0 < b < 2 ^ 53)%Z ->
  floor_div64 a b = (a / b)%Z.
Proof.
  intros Ha Hb. unfold floor_div64. destruct (div64_is_RN64 a b ltac:(lia) Hb) as [-> _].
  now apply float_floor_exact.
Qed.

Theorem float64_ceil_div_zero b : (0 < b < 2 ^ 53)%Z -> ceil_div64 0 b = 0%Z.
Proof.
  intros Hb. unfold ceil_div64. destruct (div64_is_RN64 0 b ltac:(cbn; lia) Hb) as [-> _].
  unfold Rdiv. rewrite Rmult_0_l. unfold RN64. rewrite round_0 by apply valid_rnd_N.
  apply (Zceil_IZR 0).
Qed.
