(* C06 — IEEE-754 model (Flocq) of the path a sync word takes through
   decompress_destripe_cbin.  Definitions only.

   Python (src/spikeglx.py Reader.read, src/ibldsp/voltage.py my_function)         model
   darray = self._raw[nsel, :].astype(np.float32); darray *= s2v  (s2v[sync] = 1.0f) read_sync
   chunk = np.r_[chunk * mute_saturation, _sr[first_s:last_s, ncv:].T].T            conv32_64 (float64 array)
   intnorm = 1 / _sr.sample2volts           (float32 array; sync entry 1.0f/1.0f)   intnorm_sync
   chunk = chunk[slice( *ind2save), :] * intnorm        (float64 * float32 -> float64) mul64
   chunk[:, :nc_out].astype(np.int16)       (C cast: truncation, low 16 bits)        sync_i16
   chunk[:, :nc_out].astype(np.float32)     (dtype=np.float32: round to nearest)     sync_f32
   (the whitening np.dot only touches columns :ncv) *)
From Coq Require Import ZArith List Bool.
From Flocq Require Import Core BinarySingleNaN.
Import ListNotations.
Open Scope Z_scope.

(* binary32 / binary64, round to nearest even (same definitions as coq/C03/F32.v; repeated here so
   that this property's build does not depend on another property's files) *)
Definition f32 := binary_float 24 128.
Definition f64 := binary_float 53 1024.
Definition p32 : Prec_gt_0 24 := eq_refl.
Definition p64 : Prec_gt_0 53 := eq_refl.
Definition e32 : Prec_lt_emax 24 128 := eq_refl.
Definition e64 : Prec_lt_emax 53 1024 := eq_refl.
(* int -> float32 (exact for |z| < 2^24) *)
Definition z32 (z : Z) : f32 := binary_normalize 24 128 p32 e32 mode_NE z 0 false.
Definition mul32 : f32 -> f32 -> f32 :=
  Bmult (prec:=24) (emax:=128) (prec_gt_0_:=p32) (prec_lt_emax_:=e32) mode_NE.
Definition div32 : f32 -> f32 -> f32 :=
  Bdiv (prec:=24) (emax:=128) (prec_gt_0_:=p32) (prec_lt_emax_:=e32) mode_NE.
(* np.float32(x) for a float64 x: round to nearest even *)
Definition conv64_32 (x : f64) : f32 :=
  match x with
  | B754_finite s m e _ => binary_normalize 24 128 p32 e32 mode_NE (cond_Zopp s (Zpos m)) e s
  | B754_zero s => B754_zero s
  | B754_infinity s => B754_infinity s
  | B754_nan => B754_nan
  end.
(* the sync channel's conversion factor: np.ones(..., dtype=float32) *)
Definition gain_one : f32 := z32 1.
(* (kind, sign, mantissa, exponent) of a float32 *)
Definition f32_parts (x : f32) : list Z :=
  match x with
  | B754_finite s m e _ => [1; if s then 1 else 0; Zpos m; e]
  | B754_zero s => [0; if s then 1 else 0; 0; 0]
  | B754_infinity s => [2; if s then 1 else 0; 0; 0]
  | B754_nan => [3; 0; 0; 0]
  end.
(* C cast of an integral float to int16 (x86: via int32, low 16 bits) *)
Definition i16wrap (z : Z) : Z := (z + 32768) mod 65536 - 32768.
(* all int16 values, built by doubling (no large nat literal) *)
Fixpoint range_pow2 (n : nat) (base : Z) : list Z :=
  match n with
  | O => [base]
  | S n' => range_pow2 n' base ++ range_pow2 n' (base + 2 ^ Z.of_nat n')
  end.
Definition all_i16 : list Z := range_pow2 16 (-32768).

Definition mul64 : f64 -> f64 -> f64 :=
  Bmult (prec:=53) (emax:=1024) (prec_gt_0_:=p64) (prec_lt_emax_:=e64) mode_NE.
Definition trunc64 : f64 -> Z := Btrunc (prec:=53) (emax:=1024).

(* float32 -> float64 (exact) *)
Definition conv32_64 (x : f32) : f64 :=
  match x with
  | B754_finite s m e _ => binary_normalize 53 1024 p64 e64 mode_NE (cond_Zopp s (Zpos m)) e s
  | B754_zero s => B754_zero s
  | B754_infinity s => B754_infinity s
  | B754_nan => B754_nan
  end.

Definition read_sync (r : Z) : f32 := mul32 (z32 r) gain_one.
Definition intnorm_sync : f32 := div32 (z32 1) gain_one.
Definition sync_f64 (r : Z) : f64 := mul64 (conv32_64 (read_sync r)) (conv32_64 intnorm_sync).
Definition sync_i16 (r : Z) : Z := i16wrap (trunc64 (sync_f64 r)).
Definition sync_f32 (r : Z) : f32 := conv64_32 (sync_f64 r).

Fixpoint zlist_eqb' (a b : list Z) : bool :=
  match a, b with
  | [], [] => true
  | x :: a', y :: b' => (x =? y) && zlist_eqb' a' b'
  | _, _ => false
  end.

(* both output formats at once: int16 word unchanged; float32 output = the word as a float32 *)
Definition check_sync (r : Z) : bool :=
  (sync_i16 r =? r) && zlist_eqb' (f32_parts (sync_f32 r)) (f32_parts (z32 r)).
Definition check_all_sync : bool := forallb check_sync all_i16.

(* the word written at column col of a row whose sync word is r, when the whitening step maps the
   float64 value x of a voltage column to (whiten x): the step only touches columns < ncv
   (Model.whitened_column) *)
Definition out_word (ncv col : Z) (whiten : f64 -> f64) (r : Z) : Z :=
  i16wrap (trunc64 (if (0 <=? col) && (col <? ncv) then whiten (sync_f64 r) else sync_f64 r)).
