(* C06 — property theorems.  Only statements closed by `exact <lemma>` (or a short wrapper)
   and the Print Assumptions that the check collects.

   Domain of every theorem (Proofs.dom): 0 <= T, 2T < NBATCH, 1 <= ns, T <= ns (a file shorter
   than one taper cannot be tapered), 1 <= nprocesses <= ns, nc_out >= 1, nbytes >= 1, ns2add >= 0;
   T, ns, NBATCH, nprocesses otherwise unbounded (the source has T = 1024). *)
From Coq Require Import ZArith List Bool Lia Permutation.
From IBL.lib Require Import PyInt.
From IBL.C17 Require Import FloatCeil.
From IBL.C06 Require Import Model Proofs SyncCast SyncProofs FloatDiv FloatProofs.
Import ListNotations.
Open Scope Z_scope.

(* 1. The saved ranges [glo k, ghi k) of batches 0..last start at 0, end at ns, are adjacent
   (hence disjoint), non-empty, lie inside what the batch read, and have the documented margins:
   local start = taper except for the first batch (0), local end = NBATCH - taper except for the
   last batch (end of the data). *)
Theorem C06_batches_tile : forall c, dom c ->
  glo c 0 = 0 /\ ghi c (last_batch c) = c_ns c /\
  (forall k, 0 <= k < last_batch c -> ghi c k = glo c (k + 1)) /\
  (forall k, 0 <= k <= last_batch c ->
     first_of c k <= glo c k /\ glo c k < ghi c k /\ ghi c k <= last_of c k /\
     0 <= first_of c k /\ last_of c k <= c_ns c /\ c_T c <= last_of c k - first_of c k) /\
  (forall k, 0 <= k <= last_batch c ->
     (0 < k -> glo c k - first_of c k = c_T c) /\
     (k < last_batch c -> ghi c k - first_of c k = c_NB c - c_T c) /\
     (k = 0 -> glo c k - first_of c k = 0)).
Proof.
  intros c D. split; [reflexivity|]. split; [exact (tile_last c D)|].
  split; [exact (tile_adjacent c D)|]. split; [exact (tile_inside c D)|exact (tile_margins c D)].
Qed.
Print Assumptions C06_batches_tile.

(* 2. What a worker does, literally (seek once, then the while loop with running file
   positions), equals the closed form: it never fails, it is idle exactly when its first batch
   lies past the last batch, otherwise it processes the consecutive batches start..m, stopping at
   the first one that reaches max_s; every batch k is written at byte
   offset + (first_s(k) + local start) * rowbytes — each saved row sits at its own sample's
   position — rms/time entries go to row k of their files; the ns2add padding follows the
   last batch. *)
Theorem C06_workers_closed_form : forall c i, dom c -> 0 <= i < c_P c ->
  (skipped c i = true /\ last_batch c < start_batch c i /\ worker c i = WOk [] []) \/
  (skipped c i = false /\ exists m, start_batch c i <= m <= last_batch c /\
     worker c i = WOk (map (batch_event c) (zseq (start_batch c i) (Z.to_nat (m - start_batch c i + 1))))
                      (if (m =? last_batch c) && (0 <? c_ns2add c) then [pad_event c] else []) /\
     (forall j, start_batch c i <= j < m -> last_of c j < max_s c i) /\ max_s c i <= last_of c m).
Proof. intros c i D Hi. exact (worker_spec c D i Hi). Qed.
Print Assumptions C06_workers_closed_form.

(* 3. No batch is skipped, whatever the worker count: every batch 0..last is processed by at
   least one worker (batches may be processed twice), and the padding is written by whoever
   processes the last batch. *)
Theorem C06_no_batch_skipped : forall c k, dom c -> 0 <= k <= last_batch c ->
  exists i evs pads, 0 <= i < c_P c /\ worker c i = WOk evs pads /\ In (batch_event c k) evs /\
    (k = last_batch c -> pads = if (k =? last_batch c) && (0 <? c_ns2add c) then [pad_event c] else []).
Proof. intros c k D Hk. exact (workers_cover c D k Hk). Qed.
Print Assumptions C06_no_batch_skipped.

(* 4. Schedule independence: replay the write operations of all workers in ANY order (any
   permutation of their union, so any interleaving); every byte of the file then holds exactly what
   the sequential batch-wise result `expected` has there — the row of sample g comes from the one
   batch whose documented saved range holds g, at local index g - first_s; padding rows repeat
   sample ns-1; bytes outside [offset, offset + (ns + ns2add) * rowbytes) are never written. *)
Theorem C06_schedule_independent : forall c sched, dom c -> Permutation sched (all_ops c) ->
  forall b, file_after c sched b = expected c b.
Proof. intros c sched D Hp. exact (schedule_independent c D sched Hp). Qed.
Print Assumptions C06_schedule_independent.

(* 5. Hence the file does not depend on the number of workers. *)
Theorem C06_worker_count_independent : forall c p1 p2 s1 s2,
  dom (with_P c p1) -> dom (with_P c p2) ->
  Permutation s1 (all_ops (with_P c p1)) -> Permutation s2 (all_ops (with_P c p2)) ->
  forall b, file_after (with_P c p1) s1 b = file_after (with_P c p2) s2 b.
Proof.
  intros c p1 p2 s1 s2 D1 D2 H1 H2 b.
  rewrite (schedule_independent _ D1 s1 H1 b), (schedule_independent _ D2 s2 H2 b). reflexivity.
Qed.
Print Assumptions C06_worker_count_independent.

(* 6. Append mode concatenates: the existing bytes (below offset) are untouched, the run fills
   exactly [offset, offset + (ns + ns2add) * rowbytes), and what it puts at offset + x is what a
   fresh run (offset 0) puts at x. *)
Theorem C06_append_concat : forall c sched, dom c -> Permutation sched (all_ops c) ->
  (forall b, b < c_offset c -> file_after c sched b = None) /\
  (forall b, file_after c sched b <> None <->
             c_offset c <= b < c_offset c + (c_ns c + c_ns2add c) * rowbytes c) /\
  (forall x, file_after c sched (c_offset c + x) = expected (with_offset c 0) x).
Proof.
  intros c sched D Hp. split; [|split].
  - intros b Hb. rewrite (schedule_independent c D sched Hp b).
    destruct (expected c b) eqn:E; [|reflexivity].
    assert (H : expected c b <> None) by congruence. apply (expected_extent c D) in H. lia.
  - intros b. rewrite (schedule_independent c D sched Hp b). apply (expected_extent c D).
  - intros x. rewrite (schedule_independent c D sched Hp). unfold expected, with_offset; cbn.
    replace (c_offset c + x - c_offset c) with x by ring. replace (x - 0) with x by ring. reflexivity.
Qed.
Print Assumptions C06_append_concat.

(* 7. Quality files.  Saturation: every slice assignment _saturation[first_s:last_s] of every
   worker stays inside the ns-vector and every sample is assigned at least once.  RMS / time:
   every entry a worker writes is row k of a batch 0 <= k <= last at byte
   rms_offset + k*ncv*4 (resp. time_offset + k*4), and every row 0..last is written: the files
   hold exactly nbatches rows (after the existing ones in append mode). *)
Theorem C06_qc_sizes : forall c, dom c ->
  (forall i evs pads e, 0 <= i < c_P c -> worker c i = WOk evs pads -> In e evs ->
     exists k, 0 <= k <= last_batch c /\ e = batch_event c k /\
       0 <= e_first e < e_last e /\ e_last e <= c_ns c /\
       e_rms_pos e = c_rms_offset c + k * c_ncv c * rms_nbytes /\
       e_time_pos e = c_time_offset c + k * rms_nbytes) /\
  (forall g, 0 <= g < c_ns c ->
     exists i evs pads k, 0 <= i < c_P c /\ worker c i = WOk evs pads /\ In (batch_event c k) evs /\
       e_first (batch_event c k) <= g < e_last (batch_event c k)) /\
  (forall k, 0 <= k < nbatches c ->
     exists i evs pads, 0 <= i < c_P c /\ worker c i = WOk evs pads /\ In (batch_event c k) evs).
Proof.
  intros c D. split; [|split].
  - intros i evs pads e Hi Hw Hin.
    destruct (worker_events_closed c D i evs pads e Hi Hw Hin) as (k & Hk & ->).
    exists k. pose proof (tile_inside c D k Hk). cbn. repeat split; lia.
  - intros g Hg. destruct (read_cover c D g Hg) as (k & Hk & Hr).
    destruct (workers_cover c D k Hk) as (i & evs & pads & Hi & Hw & Hin & _).
    exists i, evs, pads, k. cbn. repeat split; try assumption; lia.
  - intros k Hk. unfold nbatches in Hk.
    destruct (workers_cover c D k ltac:(lia)) as (i & evs & pads & Hi & Hw & Hin & _).
    exists i, evs, pads. repeat split; try assumption; lia.
Qed.
Print Assumptions C06_qc_sizes.

(* 8. Every sample sits at its own position: the cell the sequential result (hence, by 4, the
   file after any schedule) holds at row g of the run is local row j of the batch that starts at
   sample f with f + j = g (the sync columns are re-attached to the chunk row by row, so this is
   source sample g's sync word); padding rows hold sample ns - 1. *)
Theorem C06_own_position : forall c sched b f j col, dom c -> Permutation sched (all_ops c) ->
  file_after c sched b = Some (f, j, col) ->
  let g := (b - c_offset c) / rowbytes c in
  col = (b - c_offset c) mod rowbytes c /\
  (g < c_ns c -> f + j = g) /\ (c_ns c <= g -> f + j = c_ns c - 1).
Proof.
  intros c sched b f j col D Hp H. rewrite (schedule_independent c D sched Hp b) in H.
  exact (own_position c b f j col H).
Qed.
Print Assumptions C06_own_position.

(* 9. The domain hypothesis nprocesses <= ns is forced: with 1501 workers on 1500 samples
   (T = 1024, as in the source) the faithful model writes sample 176's row at row 1200 and extends
   the file past its end.  Confirmed on the real code (see harness/pC06.notes.md, F-C06-c); such
   worker counts are outside the property's quantifier (1..8 workers, recordings >= one taper). *)
Theorem C06_more_workers_than_samples_refuted : exists c b,
  (0 <= c_T c /\ c_T c * 2 < c_NB c /\ c_T c <= c_ns c /\ 1 <= c_P c /\ 1 <= c_ncout c /\
   1 <= c_nbytes c /\ 0 <= c_ns2add c) /\ c_ns c < c_P c /\
  file_after c (all_ops c) b <> expected c b.
Proof.
  exists bad_cfg, (1600 * 18). split; [unfold bad_cfg; cbn; lia|]. split; [unfold bad_cfg; cbn; lia|].
  destruct more_workers_than_samples as (H1 & H2 & _). rewrite H1, H2. discriminate.
Qed.
Print Assumptions C06_more_workers_than_samples_refuted.

(* 10. The saturation vector.  A worker assigns _saturation[first_s:last_s] once per batch, with
   the verdict saturation() computes on the chunk as read (Model.sat_input_stage = Raw: the call
   precedes the taper).  For ANY order of all workers' assignments, sample g of the recording ends
   up holding the verdict of a batch k whose read range holds g — exactly the batches
   sat_first g <= k <= sat_last g — at local index g - first_s(k); nothing outside [0, ns) is
   assigned. *)
Theorem C06_saturation_any_schedule : forall c sched g, dom c -> Permutation sched (all_sat_ops c) ->
  (0 <= g < c_ns c ->
     exists k, sat_first c g <= k <= sat_last c g /\ 0 <= sat_first c g /\ sat_last c g <= last_batch c /\
       first_of c k <= g < last_of c k /\
       sat_after sched g = Some (first_of c k, g - first_of c k)) /\
  (~ 0 <= g < c_ns c -> sat_after sched g = None).
Proof.
  intros c sched g D Hp. destruct (sat_any_schedule c D sched g Hp) as [H1 H2]. split; [|exact H2].
  intros Hg. destruct (H1 Hg) as (k & Hk & Hs). destruct (sat_range_nonempty c D g Hg) as (Ha & Hb).
  exists k. repeat split; try lia; try exact Hs; apply (cover_iff c D k g ltac:(lia) Hg); exact Hk.
Qed.
Print Assumptions C06_saturation_any_schedule.

(* 11. With one worker (sequential batch order) the LAST batch covering g wins: the saturation file
   holds at g the verdict of batch min(last_batch, g div stride). *)
Theorem C06_saturation_sequential : forall c g, dom c -> c_P c = 1 -> 0 <= g < c_ns c ->
  sat_after (all_sat_ops c) g = Some (first_of c (sat_last c g), g - first_of c (sat_last c g)).
Proof. intros c g D HP Hg. exact (sat_sequential c D g HP Hg). Qed.
Print Assumptions C06_saturation_sequential.

(* 12. The sync word's arithmetic path is the identity on every int16 value (IEEE-754, Flocq;
   exhaustive kernel evaluation over the 65536 values in C06/SyncSweep.v):
   int16 -> float32 (x 1.0f) -> float64 (np.r_ with the float64 chunk) -> x float64(1.0f/1.0f)
   -> C cast to int16 gives the word back; with dtype=np.float32 the output is the word as float32. *)
Theorem C06_sync_cast_exact : forall r, -32768 <= r <= 32767 ->
  sync_i16 r = r /\ f32_parts (sync_f32 r) = f32_parts (z32 r).
Proof. exact sync_exact. Qed.
Print Assumptions C06_sync_cast_exact.

(* 13. The two float64 quotients of the source are the model's exact integer operations, for every
   recording below 2^53 samples: int(sr.ns / nprocesses) is the integer floor ns / P and
   int(np.ceil(i_chunk * CHUNK_SIZE / NBATCH)) is the integer ceiling (IEEE-754 binary64 division
   of the exact integers, round to nearest even; Flocq.  The ceiling half is C17's
   float64_ceil_div_exact). *)
Theorem C06_float_quotients_exact : forall c i, dom c -> c_ns c < 2 ^ 53 -> c_NB c < 2 ^ 53 ->
  0 <= i < c_P c ->
  floor_div64 (c_ns c) (c_P c) = chunk_size c /\
  ceil_div64 (i * chunk_size c) (c_NB c) = start_batch c i.
Proof. exact quotients_exact. Qed.
Print Assumptions C06_float_quotients_exact.

(* 14. Converse of the domain hypothesis T <= ns: on a recording shorter than one taper the first
   worker fails on its first chunk (the taper multiplication cannot broadcast: ValueError). *)
Theorem C06_short_recording_fails : forall c, 0 <= c_T c -> c_T c * 2 < c_NB c ->
  1 <= c_ns c < c_T c -> 1 <= c_P c -> worker c 0 = WShort 0.
Proof. exact short_recording_fails. Qed.
Print Assumptions C06_short_recording_fails.

(* 15. What already exists at output_file.  Whatever file (any length pre_len >= 0: absent, shorter,
   equal, longer, stale) is found there, a run with append=False (the file is truncated, offset 0)
   leaves exactly (ns + ns2add) rows: every byte is this run's sequential batch-wise content, no
   byte of the old file survives and nothing lies beyond.  A run with append=True (offset =
   pre_len) keeps the pre_len old bytes untouched and ends at pre_len + (ns + ns2add) rows. *)
Theorem C06_preexisting_output : forall c sched pre, dom c -> 0 <= pre -> Permutation sched (all_ops c) ->
  (c_offset c = snd (start_state false pre) ->
     (forall b, final_byte c (fst (start_state false pre)) sched b = option_map New (expected c b)) /\
     (forall b, final_byte c (fst (start_state false pre)) sched b <> None <->
                0 <= b < (c_ns c + c_ns2add c) * rowbytes c) /\
     final_length c (fst (start_state false pre)) = (c_ns c + c_ns2add c) * rowbytes c) /\
  (c_offset c = snd (start_state true pre) ->
     (forall b, 0 <= b < pre -> final_byte c (fst (start_state true pre)) sched b = Some (Old b)) /\
     (forall b, final_byte c (fst (start_state true pre)) sched b <> None <->
                0 <= b < pre + (c_ns c + c_ns2add c) * rowbytes c) /\
     final_length c (fst (start_state true pre)) = pre + (c_ns c + c_ns2add c) * rowbytes c).
Proof.
  intros c sched pre D Hpre Hp. split; intros Hoff.
  - exact (fresh_run_extent c sched pre D Hpre Hoff Hp).
  - exact (append_run_extent c sched pre D Hpre Hoff Hp).
Qed.
Print Assumptions C06_preexisting_output.

(* 16. The sync column of the output equals the source sync, whatever wrot: the whitening step
   multiplies only the ncv voltage columns (Model.whitened_column), so for every function the
   step may apply to a voltage value (matrix product, scalar, anything) the word written at a
   column >= ncv is the source word, for all 65536 int16 values. *)
Theorem C06_sync_whatever_wrot : forall c col whiten r, c_ncv c <= col -> -32768 <= r <= 32767 ->
  whitened_column c col = false /\ out_word (c_ncv c) col whiten r = r.
Proof.
  intros c col whiten r Hc Hr. split.
  - unfold whitened_column. apply andb_false_iff. right. apply Z.ltb_ge. exact Hc.
  - exact (sync_whatever_wrot (c_ncv c) col whiten r Hc Hr).
Qed.
Print Assumptions C06_sync_whatever_wrot.

(* The hypotheses are satisfiable on a concrete, non-trivial call: 12000 samples, batch 3000
   (stride 952, 11 batches), 3 workers, 5 padding samples, 65 int16 columns. *)
Definition ex_cfg := mkCfg 1024 12000 3000 3 5 0 65 2 64 0 0.
Example ex_dom : dom ex_cfg.
Proof. unfold dom, ex_cfg; cbn. lia. Qed.
Example ex_nbatches : nbatches ex_cfg = 11.
Proof. vm_compute. reflexivity. Qed.
(* worker 0 does batches 0..2, worker 1 batches 2..6 (batch 2 twice), worker 2 batches 3..10 + pad *)
Example ex_workers :
  map (fun r => match r with WOk evs pads => (map e_first evs, length pads) | _ => ([], 99%nat) end)
      (workers ex_cfg)
  = [([0; 952; 1904], 0%nat); ([1904; 2856; 3808; 4760; 5712], 0%nat);
     ([2856; 3808; 4760; 5712; 6664; 7616; 8568; 9520], 1%nat)].
Proof. vm_compute. reflexivity. Qed.
(* with 7 workers on 5000 samples and batch 4096 (two batches) the last worker is idle *)
Example ex_idle :
  map (skipped (mkCfg 1024 5000 4096 7 0 0 65 2 64 0 0)) [0; 1; 2; 3; 4; 5; 6]
  = [false; false; false; false; false; false; true].
Proof. vm_compute. reflexivity. Qed.
(* a byte in the seam region written by two workers: sample 2000 (batch 1, local row 1048), byte 3 of the row *)
Example ex_cell :
  file_after ex_cfg (all_ops ex_cfg) (2000 * 130 + 3) = Some (952, 1048, 3) /\
  file_after ex_cfg (rev (all_ops ex_cfg)) (2000 * 130 + 3) = Some (952, 1048, 3).
Proof. vm_compute. split; reflexivity. Qed.
(* saturation: sample 2000 is read by batches 0..2; one worker keeps batch 2's verdict *)
Example ex_sat :
  (sat_first ex_cfg 2000, sat_last ex_cfg 2000) = (0, 2) /\
  sat_after (all_sat_ops (with_P ex_cfg 1)) 2000 = Some (1904, 96).
Proof. vm_compute. split; reflexivity. Qed.
(* hypotheses of 5 / 6: two worker counts and an append offset on the same call *)
Example ex_dom_workers : dom (with_P ex_cfg 1) /\ dom (with_P ex_cfg 8) /\ dom (with_offset ex_cfg 1560650).
Proof. unfold dom, with_P, with_offset, ex_cfg; cbn. lia. Qed.
(* hypotheses of 13 *)
Example ex_float_hyp : c_ns ex_cfg < 2 ^ 53 /\ c_NB ex_cfg < 2 ^ 53 /\
  chunk_size ex_cfg = 4000 /\ map (start_batch ex_cfg) [0; 1; 2] = [0; 2; 3].
Proof. vm_compute. repeat split; reflexivity. Qed.
(* hypotheses of 14: 1000 samples *)
Example ex_short : worker (mkCfg 1024 1000 4096 2 0 0 9 2 8 0 0) 0 = WShort 0.
Proof. vm_compute. reflexivity. Qed.
(* hypotheses of 15: a stale 3 MB file at output_file, fresh run (offset 0) and append run (offset = its size) *)
Example ex_preexisting :
  c_offset ex_cfg = snd (start_state false 3000000) /\
  c_offset (with_offset ex_cfg 3000000) = snd (start_state true 3000000) /\
  final_length ex_cfg (fst (start_state false 3000000)) = 1560650 /\
  final_length (with_offset ex_cfg 3000000) (fst (start_state true 3000000)) = 4560650.
Proof. vm_compute. repeat split; reflexivity. Qed.
