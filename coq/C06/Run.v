(* C06 — flat-integer interface of the model for the correspondence check.
   input : [ns; NB; P; ns2add; append (0/1); pre_len; nc_out; nbytes; ncv; pre_rms; pre_time] ++ probes
           (pre_len / pre_rms / pre_time: bytes of the files found at output_file / ap_rms.bin / ap_time.bin
            before the call)
           (probes: sample indices in [0, ns) at which the saturation bookkeeping is reported)
           (SAMPLES_TAPER is the source's constant 1024)
   output: nbatches :: file_end :: rms_end :: time_end
           :: enc_list worker  (per worker: status, events (9 ints each), pads (4 ints each))
           ++ enc_list batch   (closed-form write map per batch: first, last, glo, ghi, local lo)
           ++ enc_list probe   (3 ints each)
           ++ [1 if the sync column takes part in the whitening product else 0] *)
From Coq Require Import ZArith List Bool.
From IBL.lib Require Import PyInt RunLib.
From IBL.C06 Require Import Model.
Import ListNotations.
Open Scope Z_scope.

Definition enc_bevent (e : bevent) : list Z :=
  [e_first e; e_last e; e_pos e; e_lo e; e_cnt e; e_rms_pos e; e_time_pos e; stage_code sat_input_stage;
   threshold_code sat_max_voltage].
Definition enc_pevent (p : pevent) : list Z := [p_first p; p_pos p; p_cnt p; p_src p].
Definition enc_wres (r : wres) : list Z :=
  match r with
  | WOk evs pads => 0 :: enc_list enc_bevent evs ++ enc_list enc_pevent pads
  | WShort fs => [1; fs]
  | WFuel => [2]
  end.
Definition enc_batch (c : cfg) (k : Z) : list Z :=
  [first_of c k; last_of c k; glo c k; ghi c k; glo c k - first_of c k].

(* saturation vector at sample g: first_s of the first / last batch whose slice assignment covers
   g, and (one worker: sequential order) the batch whose verdict stays *)
Definition enc_probe (c : cfg) (g : Z) : list Z :=
  [first_of c (sat_first c g); first_of c (sat_last c g);
   if c_P c =? 1 then match sat_after (all_sat_ops c) g with Some (f, _) => f | None => -1 end else -2].

Definition run (inp : list Z) : list Z :=
  match inp with
  | ns :: NB :: P :: ns2add :: app :: pre :: ncout :: nbytes :: ncv :: roff :: toff :: probes =>
      let '(kept, offset) := start_state (app =? 1) pre in
      (* rms_offset / time_offset: sizes of ap_rms.bin / ap_time.bin when appending, else the files are
         truncated (open(..., "wb").close()); roff / toff are the sizes found before the call *)
      let roff := snd (start_state (app =? 1) roff) in
      let toff := snd (start_state (app =? 1) toff) in
      let c := mkCfg SAMPLES_TAPER ns NB P ns2add offset ncout nbytes ncv roff toff in
      nbatches c
      :: final_length c kept
      :: (roff + nbatches c * ncv * rms_nbytes)
      :: (toff + nbatches c * rms_nbytes)
      :: enc_list enc_wres (workers c)
      ++ enc_list (enc_batch c) (zrange (Z.to_nat (nbatches c)))
      ++ enc_list (enc_probe c) probes
      ++ [enc_bool (whitened_column c ncv)]       (* is the first sync column multiplied by wrot? *)
  | _ => [-999]
  end.

Definition mismatches := mismatches_of run.
