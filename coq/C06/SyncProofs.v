(* C06 — lifting the exhaustive sweep to a forall over int16. *)
From Coq Require Import ZArith List Bool Lia.
From IBL.C06 Require Import SyncCast SyncSweep.
Import ListNotations.
Open Scope Z_scope.

Lemma in_range_pow2 n : forall base x,
  In x (range_pow2 n base) <-> base <= x < base + 2 ^ Z.of_nat n.
Proof.
  induction n as [|n IH]; intros base x; cbn [range_pow2].
  - cbn. lia.
  - rewrite in_app_iff, !IH. rewrite Nat2Z.inj_succ, Z.pow_succ_r by lia. lia.
Qed.

Lemma in_all_i16 r : -32768 <= r <= 32767 -> In r all_i16.
Proof. intros H. apply in_range_pow2. change (2 ^ Z.of_nat 16) with 65536. lia. Qed.

Lemma zlist_eqb'_eq : forall a b, zlist_eqb' a b = true -> a = b.
Proof.
  induction a as [|x a IH]; destruct b as [|y b]; cbn; try discriminate; [reflexivity|].
  intros H. apply andb_true_iff in H. destruct H as [H1 H2]. apply Z.eqb_eq in H1. f_equal; [exact H1|apply IH; exact H2].
Qed.

Lemma lift_all (f : Z -> bool) : forallb f all_i16 = true ->
  forall r, -32768 <= r <= 32767 -> f r = true.
Proof. intros H r Hr. rewrite forallb_forall in H. exact (H r (in_all_i16 r Hr)). Qed.

Lemma check_sync_split r : check_sync r = true ->
  sync_i16 r = r /\ f32_parts (sync_f32 r) = f32_parts (z32 r).
Proof.
  unfold check_sync. generalize (sync_i16 r) (f32_parts (sync_f32 r)) (f32_parts (z32 r)).
  intros a l1 l2 H. destruct (andb_prop _ _ H) as [H1 H2].
  split; [apply Z.eqb_eq; exact H1|apply zlist_eqb'_eq; exact H2].
Qed.

Lemma sync_exact_of : check_all_sync = true -> forall r, -32768 <= r <= 32767 ->
  sync_i16 r = r /\ f32_parts (sync_f32 r) = f32_parts (z32 r).
Proof.
  unfold check_all_sync. intros H r Hr. apply check_sync_split. exact (lift_all check_sync H r Hr).
Qed.

Lemma sync_exact r : -32768 <= r <= 32767 ->
  sync_i16 r = r /\ f32_parts (sync_f32 r) = f32_parts (z32 r).
Proof. exact (sync_exact_of chk r). Qed.

(* the sync column does not depend on the whitening, whatever it is *)
Lemma sync_whatever_wrot ncv col whiten r : ncv <= col -> -32768 <= r <= 32767 ->
  out_word ncv col whiten r = r.
Proof.
  intros Hc Hr. unfold out_word.
  replace ((0 <=? col) && (col <? ncv)) with false.
  - exact (proj1 (sync_exact r Hr)).
  - symmetry. apply andb_false_iff. right. apply Z.ltb_ge. exact Hc.
Qed.
