(* C06 — exhaustive kernel evaluation of the sync-word path over all 65536 int16 values.
   Kept in its own module (the independent checker coqchk takes it as given: re-evaluating it
   without the VM takes tens of minutes; coqc's kernel checks it in every build). *)
From Coq Require Import ZArith.
From IBL.C06 Require Import SyncCast.
Open Scope Z_scope.
Lemma chk : check_all_sync = true.
Proof. vm_cast_no_check (eq_refl true). Qed.
