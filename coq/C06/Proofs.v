(* C06 — lemmas about the model of decompress_destripe_cbin's bookkeeping. *)
From Coq Require Import ZArith List Bool Lia Permutation.
From IBL.lib Require Import PyInt.
From IBL.C06 Require Import Model.
Import ListNotations.
Open Scope Z_scope.

(* The domain of the theorems: what a call that reaches the worker loop satisfies.
   T <= ns is what the taper multiplication needs on a single-batch file. *)
Definition dom (c : cfg) : Prop :=
  0 <= c_T c /\ c_T c * 2 < c_NB c /\ 1 <= c_ns c /\ c_T c <= c_ns c /\
  1 <= c_P c <= c_ns c /\ 1 <= c_ncout c /\ 1 <= c_nbytes c /\ 0 <= c_ns2add c.

Section Batches.
Variable c : cfg.
Hypothesis D : dom c.
Set Default Proof Using "D".

Lemma stride_pos : 0 < stride c.
Proof. unfold dom, stride in *. lia. Qed.

Lemma rowbytes_pos : 0 < rowbytes c.
Proof. unfold dom, rowbytes in *. nia. Qed.

(* last_batch is the first batch whose read range reaches the end of the file *)
Lemma last_batch_spec :
  0 <= last_batch c /\
  c_ns c <= c_NB c + stride c * last_batch c /\
  (forall k, 0 <= k < last_batch c -> c_NB c + stride c * k < c_ns c).
Proof.
  pose proof stride_pos as HS. unfold last_batch.
  destruct (c_ns c <=? c_NB c) eqn:E.
  - apply Z.leb_le in E. repeat split; try lia.
  - apply Z.leb_gt in E.
    pose proof (cdiv_spec (c_ns c - c_NB c) (stride c) HS) as Hc.
    set (q := cdiv (c_ns c - c_NB c) (stride c)) in *.
    assert (0 < q) by (apply cdiv_pos; lia).
    repeat split; try nia.
Qed.

Lemma last_of_lt k : 0 <= k < last_batch c -> last_of c k = c_NB c + first_of c k /\ last_of c k < c_ns c.
Proof.
  intros Hk. destruct last_batch_spec as (_ & _ & H3). specialize (H3 k Hk).
  unfold last_of, first_of. lia.
Qed.

Lemma last_of_last : last_of c (last_batch c) = c_ns c.
Proof. destruct last_batch_spec as (_ & H2 & _). unfold last_of, first_of. lia. Qed.

(* a batch after the first that is the last one still holds more than two tapers *)
Lemma last_len : 0 < last_batch c -> first_of c (last_batch c) + c_T c * 2 < c_ns c.
Proof.
  intros Hp. destruct last_batch_spec as (_ & _ & H3).
  specialize (H3 (last_batch c - 1) ltac:(lia)). unfold first_of, stride in *. nia.
Qed.

Lemma tile_first : glo c 0 = 0.
Proof. reflexivity. Qed.

Lemma tile_last : ghi c (last_batch c) = c_ns c.
Proof. unfold ghi. now rewrite Z.eqb_refl. Qed.

Lemma tile_adjacent k : 0 <= k < last_batch c -> ghi c k = glo c (k + 1).
Proof.
  intros Hk. unfold ghi, glo.
  destruct (k =? last_batch c) eqn:E; [apply Z.eqb_eq in E; lia|].
  destruct (k + 1 =? 0) eqn:E2; [apply Z.eqb_eq in E2; lia|]. reflexivity.
Qed.

Lemma tile_inside k : 0 <= k <= last_batch c ->
  first_of c k <= glo c k /\ glo c k < ghi c k /\ ghi c k <= last_of c k /\
  0 <= first_of c k /\ last_of c k <= c_ns c /\ c_T c <= last_of c k - first_of c k.
Proof.
  intros Hk. pose proof stride_pos as HS. pose proof D as D'. unfold dom in D'.
  destruct last_batch_spec as (HL1 & HL2 & HL3).
  unfold glo, ghi.
  destruct (k =? last_batch c) eqn:E.
  - apply Z.eqb_eq in E. subst k. rewrite last_of_last.
    destruct (last_batch c =? 0) eqn:E0.
    + apply Z.eqb_eq in E0. unfold first_of. rewrite E0. lia.
    + apply Z.eqb_neq in E0. pose proof (last_len ltac:(lia)) as HLL.
      unfold first_of in *. nia.
  - apply Z.eqb_neq in E. destruct (last_of_lt k ltac:(lia)) as [Hlo Hlt].
    rewrite Hlo. unfold first_of, stride in *.
    destruct (k =? 0) eqn:E0.
    + apply Z.eqb_eq in E0. subst k. lia.
    + apply Z.eqb_neq in E0. nia.
Qed.

(* the documented margins *)
Lemma tile_margins k : 0 <= k <= last_batch c ->
  (0 < k -> glo c k - first_of c k = c_T c) /\
  (k < last_batch c -> ghi c k - first_of c k = c_NB c - c_T c) /\
  (k = 0 -> glo c k - first_of c k = 0).
Proof.
  intros Hk. unfold glo, ghi, first_of, stride. repeat split; intros H.
  - destruct (k =? 0) eqn:E; [apply Z.eqb_eq in E; lia|]. lia.
  - destruct (k =? last_batch c) eqn:E; [apply Z.eqb_eq in E; lia|]. lia.
  - subst k. simpl. lia.
Qed.

End Batches.

(* ------------------------------------------------------------------------ *)
(* The worker loop equals the closed form                                     *)
(* ------------------------------------------------------------------------ *)
Section Loop.
Variable c : cfg.
Hypothesis D : dom c.
Set Default Proof Using "D".

Lemma first_zero k : 0 <= k -> (first_of c k =? 0) = (k =? 0).
Proof.
  intros Hk. pose proof (stride_pos c D) as HS. unfold first_of.
  destruct (k =? 0) eqn:E.
  - apply Z.eqb_eq in E. subst. rewrite Z.mul_0_r. reflexivity.
  - apply Z.eqb_neq in E. apply Z.eqb_neq. nia.
Qed.

Lemma last_is_ns k : 0 <= k <= last_batch c -> (last_of c k =? c_ns c) = (k =? last_batch c).
Proof.
  intros Hk. destruct (k =? last_batch c) eqn:E.
  - apply Z.eqb_eq in E. subst. rewrite (last_of_last c D). apply Z.eqb_refl.
  - apply Z.eqb_neq in E. destruct (last_of_lt c D k ltac:(lia)) as [_ H]. apply Z.eqb_neq. lia.
Qed.

(* ind2save + slice clipping give exactly the documented saved range *)
Lemma save_slice k : 0 <= k <= last_batch c ->
  Z.min (save_lo c (first_of c k)) (last_of c k - first_of c k) = glo c k - first_of c k /\
  Z.max 0 (Z.min (save_hi c (last_of c k)) (last_of c k - first_of c k) - (glo c k - first_of c k))
    = ghi c k - glo c k.
Proof.
  intros Hk. pose proof (stride_pos c D) as HS. pose proof D as D'. unfold dom in D'.
  pose proof (tile_inside c D k Hk) as (I1 & I2 & I3 & I4 & I5 & I6).
  unfold save_lo, save_hi. rewrite (first_zero k ltac:(lia)), (last_is_ns k Hk).
  unfold glo, ghi in *.
  destruct (k =? 0) eqn:E0; destruct (k =? last_batch c) eqn:EL.
  - apply Z.eqb_eq in E0. apply Z.eqb_eq in EL. subst k.
    destruct (last_batch_spec c D) as (_ & L2 & _). rewrite <- EL in L2.
    unfold first_of in *. rewrite Z.mul_0_r in *. lia.
  - apply Z.eqb_eq in E0. apply Z.eqb_neq in EL. subst k.
    destruct (last_of_lt c D 0 ltac:(lia)) as [Hl _]. unfold first_of in *. rewrite Z.mul_0_r in *.
    unfold stride. lia.
  - apply Z.eqb_eq in EL. apply Z.eqb_neq in E0. subst k.
    pose proof (last_len c D ltac:(lia)). destruct (last_batch_spec c D) as (_ & L2 & _).
    rewrite (last_of_last c D) in *. unfold first_of in *. lia.
  - apply Z.eqb_neq in EL. apply Z.eqb_neq in E0.
    destruct (last_of_lt c D k ltac:(lia)) as [Hl _]. rewrite Hl. unfold first_of, stride in *. lia.
Qed.

Definition loop_pads (m : Z) : list pevent :=
  if (m =? last_batch c) && (0 <? c_ns2add c) then [pad_event c] else [].

Lemma loop_spec : forall fuel k maxs,
  0 <= k <= last_batch c -> maxs <= c_ns c ->
  (Z.to_nat (last_batch c - k + 1) <= fuel)%nat ->
  exists m, k <= m <= last_batch c /\
    worker_loop fuel c maxs (first_of c k) (c_offset c + glo c k * rowbytes c)
                (c_rms_offset c + k * c_ncv c * rms_nbytes) (c_time_offset c + k * rms_nbytes)
      = WOk (map (batch_event c) (zseq k (Z.to_nat (m - k + 1)))) (loop_pads m) /\
    (forall j, k <= j < m -> last_of c j < maxs) /\ maxs <= last_of c m.
Proof.
  induction fuel as [|f IH]; intros k maxs Hk Hmax Hfuel.
  - exfalso. lia.
  - pose proof (tile_inside c D k Hk) as (I1 & I2 & I3 & I4 & I5 & I6).
    destruct (save_slice k Hk) as [Hst Hcnt].
    cbn [worker_loop].
    fold (last_of c k). change (Z.min (c_NB c + first_of c k) (c_ns c)) with (last_of c k).
    destruct (last_of c k - first_of c k <? c_T c) eqn:ET; [apply Z.ltb_lt in ET; lia|].
    rewrite Hst, Hcnt.
    assert (Hev : mkBE (first_of c k) (last_of c k) (c_offset c + glo c k * rowbytes c)
                       (glo c k - first_of c k) (ghi c k - glo c k)
                       (c_rms_offset c + k * c_ncv c * rms_nbytes) (c_time_offset c + k * rms_nbytes)
                  = batch_event c k) by reflexivity.
    rewrite Hev.
    destruct (maxs <=? last_of c k) eqn:EM.
    + apply Z.leb_le in EM. exists k. split; [lia|]. split; [|split; [intros j Hj; lia|exact EM]].
      replace (k - k + 1) with 1 by lia. cbn [Z.to_nat Pos.to_nat Pos.iter_op zseq map].
      f_equal. unfold loop_pads. rewrite (last_is_ns k Hk).
      destruct (k =? last_batch c) eqn:EL; [|reflexivity].
      apply Z.eqb_eq in EL. destruct (0 <? c_ns2add c); [|reflexivity].
      cbn [andb]. f_equal. unfold pad_event. subst k. f_equal.
      * rewrite (tile_last c D). lia.
      * rewrite (tile_last c D). lia.
    + apply Z.leb_gt in EM.
      assert (Hlt : k < last_batch c).
      { destruct (Z.eq_dec k (last_batch c)) as [->|]; [rewrite (last_of_last c D) in EM; lia|lia]. }
      specialize (IH (k + 1) maxs ltac:(lia) Hmax ltac:(lia)).
      destruct IH as (m & Hm & Hloop & Hbefore & Hstop).
      replace (first_of c k + stride c) with (first_of c (k + 1)) by (unfold first_of; ring).
      replace (c_offset c + glo c k * rowbytes c + (ghi c k - glo c k) * rowbytes c)
        with (c_offset c + glo c (k + 1) * rowbytes c)
        by (rewrite <- (tile_adjacent c D k ltac:(lia)); ring).
      replace (c_rms_offset c + k * c_ncv c * rms_nbytes + c_ncv c * rms_nbytes)
        with (c_rms_offset c + (k + 1) * c_ncv c * rms_nbytes) by ring.
      replace (c_time_offset c + k * rms_nbytes + rms_nbytes)
        with (c_time_offset c + (k + 1) * rms_nbytes) by ring.
      rewrite Hloop. exists m. split; [lia|]. split; [|split].
      * replace (Z.to_nat (m - k + 1)) with (S (Z.to_nat (m - (k + 1) + 1))) by lia.
        reflexivity.
      * intros j Hj. destruct (Z.eq_dec j k) as [->|]; [exact EM|apply Hbefore; lia].
      * exact Hstop.
Qed.

Lemma in_zseq : forall n k x, In x (zseq k n) <-> k <= x < k + Z.of_nat n.
Proof.
  induction n as [|n IH]; intros k x; cbn [zseq In].
  - lia.
  - rewrite IH. lia.
Qed.

(* --- per worker --------------------------------------------------------- *)
Lemma chunk_size_bounds : 1 <= chunk_size c /\ c_P c * chunk_size c <= c_ns c.
Proof.
  pose proof D as D'. unfold dom in D'. unfold chunk_size.
  pose proof (Z.div_mod (c_ns c) (c_P c) ltac:(lia)).
  pose proof (Z.mod_pos_bound (c_ns c) (c_P c) ltac:(lia)).
  assert (1 <= c_ns c / c_P c) by (apply Z.div_le_lower_bound; lia).
  nia.
Qed.

Lemma NB_pos : 0 < c_NB c.
Proof. pose proof D as D'. unfold dom in D'. lia. Qed.

Lemma start_batch_nonneg i : 0 <= i -> 0 <= start_batch c i.
Proof.
  intros Hi. destruct chunk_size_bounds. unfold start_batch. apply cdiv_nonneg; [apply NB_pos|nia].
Qed.

Lemma start_batch_zero : start_batch c 0 = 0.
Proof. unfold start_batch. rewrite Z.mul_0_l. unfold cdiv. reflexivity. Qed.

Lemma start_batch_pos i : 0 < i -> 0 < start_batch c i.
Proof.
  intros Hi. destruct chunk_size_bounds. unfold start_batch. apply cdiv_pos; [apply NB_pos|nia].
Qed.

Lemma max_s_le i : 0 <= i < c_P c -> max_s c i <= c_ns c.
Proof.
  intros Hi. destruct chunk_size_bounds as [H1 H2]. unfold max_s.
  destruct (i =? c_P c - 1); [lia|nia].
Qed.

(* the idle-worker rule fires exactly when the worker's first batch lies past the last batch *)
Lemma skipped_iff i : 0 <= i -> (skipped c i = true <-> last_batch c < start_batch c i).
Proof.
  intros Hi. pose proof (start_batch_nonneg i Hi) as Hn. pose proof (stride_pos c D) as HS.
  destruct (last_batch_spec c D) as (L1 & L2 & L3).
  unfold skipped. rewrite andb_true_iff, Z.ltb_lt, Z.leb_le. unfold first_of.
  set (n := start_batch c i) in *. split.
  - intros [Hp Hle]. destruct (Z_lt_le_dec (last_batch c) n) as [|Hge]; [assumption|].
    exfalso. specialize (L3 (n - 1) ltac:(lia)). unfold stride in *. nia.
  - intros Hlt. split; [lia|]. unfold stride in *. nia.
Qed.

Lemma worker_spec i : 0 <= i < c_P c ->
  (skipped c i = true /\ last_batch c < start_batch c i /\ worker c i = WOk [] []) \/
  (skipped c i = false /\ exists m, start_batch c i <= m <= last_batch c /\
     worker c i = WOk (map (batch_event c) (zseq (start_batch c i) (Z.to_nat (m - start_batch c i + 1))))
                      (loop_pads m) /\
     (forall j, start_batch c i <= j < m -> last_of c j < max_s c i) /\ max_s c i <= last_of c m).
Proof.
  intros Hi. pose proof (start_batch_nonneg i ltac:(lia)) as Hn.
  destruct (skipped c i) eqn:ES.
  - left. split; [reflexivity|]. split; [apply skipped_iff; [lia|exact ES]|].
    unfold worker. rewrite ES. reflexivity.
  - right. split; [reflexivity|].
    assert (Hle : start_batch c i <= last_batch c).
    { destruct (Z_lt_le_dec (last_batch c) (start_batch c i)) as [Hlt|]; [|assumption].
      apply skipped_iff in Hlt; [congruence|lia]. }
    destruct (loop_spec (Z.to_nat (nbatches c)) (start_batch c i) (max_s c i) ltac:(lia)
                (max_s_le i Hi) ltac:(unfold nbatches; lia)) as (m & Hm & Hloop & Hb & Hs).
    exists m. split; [exact Hm|]. split; [|split; assumption].
    unfold worker. rewrite ES. rewrite <- Hloop. f_equal.
    + destruct (i =? 0) eqn:E0.
      * apply Z.eqb_eq in E0. subst i. rewrite start_batch_zero. unfold glo. cbn [Z.eqb]. ring.
      * apply Z.eqb_neq in E0. pose proof (start_batch_pos i ltac:(lia)).
        unfold glo. destruct (start_batch c i =? 0) eqn:E1; [apply Z.eqb_eq in E1; lia|].
        unfold first_of, rowbytes. ring.
    + destruct (i =? 0) eqn:E0; [|reflexivity].
      apply Z.eqb_eq in E0. subst i. rewrite start_batch_zero. ring.
    + destruct (i =? 0) eqn:E0; [|reflexivity].
      apply Z.eqb_eq in E0. subst i. rewrite start_batch_zero. ring.
Qed.

(* --- no batch is skipped -------------------------------------------------- *)
Lemma pick_worker k : 0 <= k ->
  forall (d : nat) i, i = c_P c - 1 - Z.of_nat d -> 0 <= i -> start_batch c i <= k ->
  exists i', i <= i' <= c_P c - 1 /\ start_batch c i' <= k /\ (i' = c_P c - 1 \/ k < start_batch c (i' + 1)).
Proof.
  intros Hk. induction d as [|d IH]; intros i Hi Hi0 Hs.
  - exists i. split; [lia|]. split; [assumption|]. left. lia.
  - destruct (Z_lt_le_dec k (start_batch c (i + 1))) as [Hlt|Hge].
    + exists i. split; [lia|]. split; [assumption|]. right. assumption.
    + destruct (IH (i + 1) ltac:(lia) ltac:(lia) Hge) as (i' & H1 & H2 & H3).
      exists i'. split; [lia|]. split; assumption.
Qed.

Lemma workers_cover k : 0 <= k <= last_batch c ->
  exists i evs pads, 0 <= i < c_P c /\ worker c i = WOk evs pads /\ In (batch_event c k) evs /\
    (k = last_batch c -> pads = loop_pads k).
Proof.
  intros Hk. pose proof D as D'. unfold dom in D'.
  destruct (pick_worker k ltac:(lia) (Z.to_nat (c_P c - 1)) 0 ltac:(lia) ltac:(lia)
              ltac:(rewrite start_batch_zero; lia)) as (i & Hi & Hs & Hnext).
  destruct (worker_spec i ltac:(lia)) as [(ES & Hlt & _)|(ES & m & Hm & Hw & Hbefore & Hstop)]; [lia|].
  assert (Hkm : k <= m).
  { destruct (Z_le_gt_dec k m) as [|Hgt]; [assumption|exfalso].
    pose proof (start_batch_nonneg i ltac:(lia)) as Hn0.
    (* the worker stopped at m < k <= last batch: then max_s <= NB + S*m, but k < start of the next worker *)
    destruct Hnext as [Hlast|Hnext].
    - unfold max_s in Hstop. replace (i =? c_P c - 1) with true in Hstop by (symmetry; apply Z.eqb_eq; lia).
      destruct (last_of_lt c D m ltac:(lia)). lia.
    - unfold max_s in Hstop. destruct (i =? c_P c - 1) eqn:EP.
      + destruct (last_of_lt c D m ltac:(lia)). lia.
      + destruct (last_of_lt c D m ltac:(lia)) as [Hl _]. rewrite Hl in Hstop.
        unfold start_batch in Hnext.
        pose proof (cdiv_spec ((i + 1) * chunk_size c) (c_NB c) NB_pos) as Hc.
        set (q := cdiv ((i + 1) * chunk_size c) (c_NB c)) in *.
        pose proof (start_batch_nonneg i ltac:(lia)).
        unfold first_of, stride in Hstop.
        assert (m + 1 <= q - 1) by lia.
        assert ((m + 1) * c_NB c <= (q - 1) * c_NB c) by (apply Z.mul_le_mono_nonneg_r; lia).
        nia. }
  exists i, (map (batch_event c) (zseq (start_batch c i) (Z.to_nat (m - start_batch c i + 1)))), (loop_pads m).
  split; [lia|]. split; [exact Hw|]. split.
  - apply in_map. apply in_zseq. lia.
  - intros ->. f_equal. lia.
Qed.

End Loop.

(* ------------------------------------------------------------------------ *)
(* The file: what every byte holds after any schedule                          *)
(* ------------------------------------------------------------------------ *)
Section File.
Variable c : cfg.
Hypothesis D : dom c.
Set Default Proof Using "D".

Definition data_op (k : Z) : wop :=
  WData (c_offset c + glo c k * rowbytes c) (ghi c k - glo c k) (first_of c k) (glo c k - first_of c k).
Definition pad_op : wop :=
  WPad (c_offset c + c_ns c * rowbytes c) (c_ns2add c) (first_of c (last_batch c))
       (c_ns c - 1 - first_of c (last_batch c)).

(* x in [lo*r, hi*r)  <->  x/r in [lo, hi) *)
Lemma div_range x r lo hi : 0 < r -> (lo * r <= x < hi * r <-> lo <= x / r < hi).
Proof.
  intros Hr. pose proof (Z.div_mod x r ltac:(lia)). pose proof (Z.mod_pos_bound x r Hr). nia.
Qed.

Lemma shift_div x a r : 0 < r -> (x - a * r) / r = x / r - a /\ (x - a * r) mod r = x mod r.
Proof.
  intros Hr. replace (x - a * r) with (x + (- a) * r) by ring.
  rewrite Z.div_add, Z.mod_add by lia. split; ring.
Qed.

Lemma data_cell_iff k b x : 0 <= k <= last_batch c ->
  (op_cell c (data_op k) b = Some x <->
   glo c k <= (b - c_offset c) / rowbytes c < ghi c k /\
   x = (first_of c k, (b - c_offset c) / rowbytes c - first_of c k, (b - c_offset c) mod rowbytes c)).
Proof.
  intros Hk. pose proof (rowbytes_pos c D) as Hr.
  unfold data_op, op_cell.
  set (r := rowbytes c) in *. set (x0 := b - c_offset c).
  replace (b - (c_offset c + glo c k * r)) with (x0 - glo c k * r) by (unfold x0; ring).
  destruct (shift_div x0 (glo c k) r Hr) as [Hd Hm]. rewrite Hd, Hm.
  pose proof (div_range x0 r (glo c k) (ghi c k) Hr) as Hrange.
  destruct ((c_offset c + glo c k * r <=? b) && (b <? c_offset c + glo c k * r + (ghi c k - glo c k) * r)) eqn:E.
  - apply andb_true_iff in E. destruct E as [E1 E2]. apply Z.leb_le in E1. apply Z.ltb_lt in E2.
    assert (Hin : glo c k * r <= x0 < ghi c k * r) by (unfold x0; nia).
    apply Hrange in Hin. split.
    + intros H. inversion H. split; [exact Hin|]. f_equal. f_equal. ring.
    + intros [_ ->]. f_equal. f_equal. f_equal. ring.
  - split; [discriminate|]. intros [Hin _]. apply Hrange in Hin. exfalso.
    apply andb_false_iff in E. destruct E as [E|E]; [apply Z.leb_gt in E|apply Z.ltb_ge in E]; unfold x0 in *; nia.
Qed.

Lemma pad_cell_iff b x :
  (op_cell c pad_op b = Some x <->
   c_ns c <= (b - c_offset c) / rowbytes c < c_ns c + c_ns2add c /\
   x = (first_of c (last_batch c), c_ns c - 1 - first_of c (last_batch c), (b - c_offset c) mod rowbytes c)).
Proof.
  pose proof (rowbytes_pos c D) as Hr.
  unfold pad_op, op_cell.
  set (r := rowbytes c) in *. set (x0 := b - c_offset c).
  replace (b - (c_offset c + c_ns c * r)) with (x0 - c_ns c * r) by (unfold x0; ring).
  destruct (shift_div x0 (c_ns c) r Hr) as [_ Hm]. rewrite Hm.
  pose proof (div_range x0 r (c_ns c) (c_ns c + c_ns2add c) Hr) as Hrange.
  destruct ((c_offset c + c_ns c * r <=? b) && (b <? c_offset c + c_ns c * r + c_ns2add c * r)) eqn:E.
  - apply andb_true_iff in E. destruct E as [E1 E2]. apply Z.leb_le in E1. apply Z.ltb_lt in E2.
    assert (Hin : c_ns c * r <= x0 < (c_ns c + c_ns2add c) * r) by (unfold x0; nia).
    apply Hrange in Hin. split.
    + intros H. inversion H. split; [exact Hin|reflexivity].
    + intros [_ ->]. reflexivity.
  - split; [discriminate|]. intros [Hin _]. apply Hrange in Hin. exfalso.
    apply andb_false_iff in E. destruct E as [E|E]; [apply Z.leb_gt in E|apply Z.ltb_ge in E]; unfold x0 in *; nia.
Qed.

(* batch_of inverts the tiling *)
Lemma batch_of_spec k g : 0 <= k <= last_batch c -> glo c k <= g < ghi c k -> batch_of c g = k.
Proof.
  intros Hk Hg. pose proof (stride_pos c D) as HS.
  unfold batch_of, glo, ghi in *.
  pose proof (Z.div_mod (g - c_T c) (stride c) ltac:(lia)) as Hdm.
  pose proof (Z.mod_pos_bound (g - c_T c) (stride c) HS) as Hmb.
  set (q := (g - c_T c) / stride c) in *.
  destruct (Z.eqb_spec k 0) as [E0|E0]; destruct (Z.eqb_spec k (last_batch c)) as [EL|EL].
  - lia.
  - subst k. assert (q <= 0) by nia. lia.
  - assert (last_batch c <= q) by nia. lia.
  - assert (q = k) by nia. lia.
Qed.

Lemma batch_of_range g : 0 <= g < c_ns c ->
  0 <= batch_of c g <= last_batch c /\ glo c (batch_of c g) <= g < ghi c (batch_of c g).
Proof.
  intros Hg. pose proof (stride_pos c D) as HS.
  destruct (last_batch_spec c D) as (L1 & L2 & L3).
  pose proof (Z.div_mod (g - c_T c) (stride c) ltac:(lia)) as Hdm.
  pose proof (Z.mod_pos_bound (g - c_T c) (stride c) HS) as Hmb.
  unfold batch_of. set (q := (g - c_T c) / stride c) in *.
  split; [lia|].
  unfold glo, ghi.
  destruct (Z_le_gt_dec q 0) as [Hq|Hq].
  - replace (Z.min (last_batch c) (Z.max 0 q)) with 0 by lia.
    rewrite Z.eqb_refl. destruct (0 =? last_batch c) eqn:EL; [lia|]. nia.
  - destruct (Z_lt_le_dec q (last_batch c)) as [Hl|Hl].
    + replace (Z.min (last_batch c) (Z.max 0 q)) with q by lia.
      destruct (q =? 0) eqn:E0; [apply Z.eqb_eq in E0; lia|].
      destruct (q =? last_batch c) eqn:EL; [apply Z.eqb_eq in EL; lia|]. nia.
    + replace (Z.min (last_batch c) (Z.max 0 q)) with (last_batch c) by lia.
      rewrite Z.eqb_refl.
      destruct (last_batch c =? 0) eqn:E0; [apply Z.eqb_eq in E0; lia|]. nia.
Qed.

(* every write operation of every worker is one of the closed-form operations *)
Lemma ops_closed op : In op (all_ops c) ->
  (exists k, 0 <= k <= last_batch c /\ op = data_op k) \/ (0 < c_ns2add c /\ op = pad_op).
Proof.
  unfold all_ops, workers. rewrite in_flat_map. intros (r & Hr & Hop).
  apply in_map_iff in Hr. destruct Hr as (i & <- & Hi). apply in_zrange in Hi.
  pose proof D as D'. unfold dom in D'.
  destruct (worker_spec c D i ltac:(lia)) as [(_ & _ & Hw)|(_ & m & Hm & Hw & _)]; rewrite Hw in Hop.
  - destruct Hop.
  - pose proof (start_batch_nonneg c D i ltac:(lia)) as Hn.
    cbn [ops_of] in Hop. apply in_app_or in Hop. destruct Hop as [Hop|Hop].
    + left. apply in_map_iff in Hop. destruct Hop as (e & <- & He).
      apply in_map_iff in He. destruct He as (k & <- & Hk). apply (in_zseq c D) in Hk.
      exists k. split; [lia|reflexivity].
    + right. unfold loop_pads in Hop.
      destruct ((m =? last_batch c) && (0 <? c_ns2add c)) eqn:E; [|destruct Hop].
      apply andb_true_iff in E. destruct E as [_ E]. apply Z.ltb_lt in E.
      destruct Hop as [<-|[]]. split; [exact E|reflexivity].
Qed.

Lemma data_op_present k : 0 <= k <= last_batch c -> In (data_op k) (all_ops c).
Proof.
  intros Hk. destruct (workers_cover c D k Hk) as (i & evs & pads & Hi & Hw & Hin & _).
  unfold all_ops, workers. apply in_flat_map. exists (worker c i). split.
  - apply in_map. apply in_zrange. lia.
  - rewrite Hw. cbn [ops_of]. apply in_or_app. left.
    apply in_map_iff. exists (batch_event c k). split; [reflexivity|exact Hin].
Qed.

Lemma pad_op_present : 0 < c_ns2add c -> In pad_op (all_ops c).
Proof.
  intros Hp. destruct (last_batch_spec c D) as (L1 & _).
  destruct (workers_cover c D (last_batch c) ltac:(lia)) as (i & evs & pads & Hi & Hw & _ & Hpads).
  unfold all_ops, workers. apply in_flat_map. exists (worker c i). split.
  - apply in_map. apply in_zrange. lia.
  - rewrite Hw. cbn [ops_of]. apply in_or_app. right. rewrite (Hpads eq_refl).
    unfold loop_pads. rewrite Z.eqb_refl. replace (0 <? c_ns2add c) with true by (symmetry; apply Z.ltb_lt; lia).
    left. reflexivity.
Qed.

Lemma expected_data b g : g = (b - c_offset c) / rowbytes c -> 0 <= b - c_offset c -> 0 <= g < c_ns c ->
  expected c b = Some (first_of c (batch_of c g), g - first_of c (batch_of c g), (b - c_offset c) mod rowbytes c).
Proof.
  intros -> Hx Hg. unfold expected.
  replace (0 <=? b - c_offset c) with true by (symmetry; apply Z.leb_le; lia).
  replace ((b - c_offset c) / rowbytes c <? c_ns c) with true by (symmetry; apply Z.ltb_lt; lia).
  reflexivity.
Qed.

Lemma nonneg_of_div x r lo : 0 < r -> 0 <= lo -> lo <= x / r -> 0 <= x.
Proof.
  intros Hr Hlo H. pose proof (Z.div_mod x r ltac:(lia)). pose proof (Z.mod_pos_bound x r Hr). nia.
Qed.

(* whatever an operation puts at byte b is what the sequential batch-wise result has there *)
Lemma op_consistent op b x : In op (all_ops c) -> op_cell c op b = Some x -> expected c b = Some x.
Proof.
  intros Hin Hcell. pose proof (rowbytes_pos c D) as Hr. pose proof D as D'. unfold dom in D'.
  destruct (ops_closed op Hin) as [(k & Hk & ->)|(Hp & ->)].
  - apply (data_cell_iff k b x Hk) in Hcell. destruct Hcell as [Hg ->].
    pose proof (tile_inside c D k Hk) as (I1 & I2 & I3 & I4 & I5 & I6).
    assert (Hg0 : 0 <= glo c k) by lia.
    pose proof (nonneg_of_div _ _ _ Hr Hg0 (proj1 Hg)) as Hx.
    rewrite (expected_data b _ eq_refl Hx ltac:(lia)).
    rewrite (batch_of_spec k _ Hk Hg). reflexivity.
  - apply pad_cell_iff in Hcell. destruct Hcell as [Hg ->].
    pose proof (nonneg_of_div _ _ (c_ns c) Hr ltac:(lia) (proj1 Hg)) as Hx.
    unfold expected.
    replace (0 <=? b - c_offset c) with true by (symmetry; apply Z.leb_le; lia).
    replace ((b - c_offset c) / rowbytes c <? c_ns c) with false by (symmetry; apply Z.ltb_ge; lia).
    replace ((b - c_offset c) / rowbytes c <? c_ns c + c_ns2add c) with true by (symmetry; apply Z.ltb_lt; lia).
    reflexivity.
Qed.

(* every byte the sequential result defines is written by some operation *)
Lemma op_covers b x : expected c b = Some x -> exists op, In op (all_ops c) /\ op_cell c op b = Some x.
Proof.
  intros He. pose proof (rowbytes_pos c D) as Hr. unfold expected in He.
  destruct (0 <=? b - c_offset c) eqn:E0; [apply Z.leb_le in E0|discriminate].
  assert (Hg0 : 0 <= (b - c_offset c) / rowbytes c) by (apply Z.div_pos; lia).
  cbn [andb] in He.
  destruct ((b - c_offset c) / rowbytes c <? c_ns c) eqn:E1.
  - apply Z.ltb_lt in E1. inversion He as [Hx]. clear He.
    destruct (batch_of_range _ (conj Hg0 E1)) as [Hk Hg].
    exists (data_op (batch_of c ((b - c_offset c) / rowbytes c))). split; [apply data_op_present; exact Hk|].
    apply data_cell_iff; [exact Hk|]. split; [exact Hg|reflexivity].
  - apply Z.ltb_ge in E1.
    destruct ((b - c_offset c) / rowbytes c <? c_ns c + c_ns2add c) eqn:E2; [|discriminate].
    apply Z.ltb_lt in E2. inversion He as [Hx]. clear He.
    exists pad_op. split; [apply pad_op_present; lia|].
    apply pad_cell_iff. split; [lia|reflexivity].
Qed.

(* replay: later writes win, but all writers of a byte agree *)
Lemma fold_inv b E : forall sched cur,
  (forall op x, In op sched -> op_cell c op b = Some x -> E = Some x) ->
  cur = None \/ cur = E ->
  fold_left (apply_op c b) sched cur = None \/ fold_left (apply_op c b) sched cur = E.
Proof.
  induction sched as [|op rest IH]; intros cur Hall Hcur; cbn [fold_left].
  - exact Hcur.
  - apply IH.
    + intros op' x Hin. apply Hall. right. exact Hin.
    + unfold apply_op. destruct (op_cell c op b) eqn:Ec.
      * right. symmetry. apply (Hall op); [left; reflexivity|exact Ec].
      * exact Hcur.
Qed.

Lemma fold_some b : forall sched cur,
  cur <> None \/ (exists op, In op sched /\ op_cell c op b <> None) ->
  fold_left (apply_op c b) sched cur <> None.
Proof.
  induction sched as [|op rest IH]; intros cur H; cbn [fold_left].
  - destruct H as [H|(op & [] & _)]. exact H.
  - apply IH. unfold apply_op. destruct (op_cell c op b) eqn:Ec.
    + left. discriminate.
    + destruct H as [H|(op' & [<-|Hin] & Hne)].
      * left. exact H.
      * congruence.
      * right. exists op'. split; assumption.
Qed.

Theorem schedule_independent sched : Permutation sched (all_ops c) ->
  forall b, file_after c sched b = expected c b.
Proof.
  intros Hperm b. unfold file_after.
  destruct (fold_inv b (expected c b) sched None) as [Hn|He].
  - intros op x Hin Hc. apply (op_consistent op b x); [|exact Hc].
    apply (Permutation_in _ Hperm). exact Hin.
  - left. reflexivity.
  - destruct (expected c b) as [x|] eqn:Ex; [|exact Hn]. exfalso.
    destruct (op_covers b x Ex) as (op & Hin & Hc).
    apply (fold_some b sched None); [|exact Hn].
    right. exists op. split; [apply (Permutation_in _ (Permutation_sym Hperm)); exact Hin|congruence].
  - exact He.
Qed.

(* extent of the file written by this run *)
Lemma expected_extent b :
  expected c b <> None <-> c_offset c <= b < c_offset c + (c_ns c + c_ns2add c) * rowbytes c.
Proof.
  pose proof (rowbytes_pos c D) as Hr. pose proof D as D'. unfold dom in D'.
  unfold expected. set (x0 := b - c_offset c).
  pose proof (div_range x0 (rowbytes c) 0 (c_ns c + c_ns2add c) Hr) as Hrange.
  destruct (0 <=? x0) eqn:E0; cbn [andb].
  - apply Z.leb_le in E0.
    destruct (x0 / rowbytes c <? c_ns c) eqn:E1.
    + apply Z.ltb_lt in E1. split; [intros _|discriminate].
      assert (0 <= x0 / rowbytes c) by (apply Z.div_pos; lia).
      assert (H' : 0 * rowbytes c <= x0 < (c_ns c + c_ns2add c) * rowbytes c) by (apply Hrange; lia).
      unfold x0 in *. lia.
    + apply Z.ltb_ge in E1. destruct (x0 / rowbytes c <? c_ns c + c_ns2add c) eqn:E2.
      * apply Z.ltb_lt in E2. split; [intros _|discriminate].
        assert (H' : 0 * rowbytes c <= x0 < (c_ns c + c_ns2add c) * rowbytes c) by (apply Hrange; lia).
        unfold x0 in *. lia.
      * apply Z.ltb_ge in E2. split; [congruence|]. intros Hb. exfalso.
        assert (H' : 0 <= x0 / rowbytes c < c_ns c + c_ns2add c) by (apply Hrange; unfold x0; lia). lia.
  - apply Z.leb_gt in E0. split; [congruence|]. unfold x0 in *. lia.
Qed.

(* QC bookkeeping *)
Lemma worker_events_closed i evs pads e : 0 <= i < c_P c -> worker c i = WOk evs pads -> In e evs ->
  exists k, 0 <= k <= last_batch c /\ e = batch_event c k.
Proof.
  intros Hi Hw Hin. pose proof (start_batch_nonneg c D i ltac:(lia)) as Hn.
  destruct (worker_spec c D i Hi) as [(_ & _ & Hw')|(_ & m & Hm & Hw' & _)]; rewrite Hw' in Hw; inversion Hw; subst.
  - destruct Hin.
  - apply in_map_iff in Hin. destruct Hin as (k & <- & Hk). apply (in_zseq c D) in Hk. exists k. split; [lia|reflexivity].
Qed.

Lemma worker_never_fails i : 0 <= i < c_P c -> exists evs pads, worker c i = WOk evs pads.
Proof.
  intros Hi. destruct (worker_spec c D i Hi) as [(_ & _ & Hw)|(_ & m & _ & Hw & _)]; rewrite Hw; eauto.
Qed.

Lemma read_cover g : 0 <= g < c_ns c ->
  exists k, 0 <= k <= last_batch c /\ first_of c k <= g < last_of c k.
Proof.
  intros Hg. destruct (batch_of_range g Hg) as [Hk Hr]. exists (batch_of c g). split; [exact Hk|].
  pose proof (tile_inside c D _ Hk). lia.
Qed.

End File.

Unset Default Proof Using.

(* every cell of the sequential result comes from the chunk row that holds the cell's own sample *)
Lemma own_position c b f j col : expected c b = Some (f, j, col) ->
  let g := (b - c_offset c) / rowbytes c in
  col = (b - c_offset c) mod rowbytes c /\
  (g < c_ns c -> f + j = g) /\ (c_ns c <= g -> f + j = c_ns c - 1).
Proof.
  unfold expected. intros H.
  destruct (0 <=? b - c_offset c); cbn [andb] in H; [|discriminate].
  destruct ((b - c_offset c) / rowbytes c <? c_ns c) eqn:E1.
  - apply Z.ltb_lt in E1. inversion H; subst. cbv zeta. repeat split; lia.
  - apply Z.ltb_ge in E1.
    destruct ((b - c_offset c) / rowbytes c <? c_ns c + c_ns2add c); [|discriminate].
    inversion H; subst. cbv zeta. repeat split; lia.
Qed.

(* The hypothesis nprocesses <= ns of `dom` is needed: with more workers than samples CHUNK_SIZE
   is 0, every worker starts at batch 0 but workers i > 0 seek to row T and write the chunk from
   local row 0 there. *)
Definition bad_cfg : cfg := mkCfg 1024 1500 4096 1501 0 0 9 2 8 0 0.
Lemma more_workers_than_samples :
  file_after bad_cfg (all_ops bad_cfg) (1600 * 18) = Some (0, 576, 0) /\
  expected bad_cfg (1600 * 18) = None /\
  file_after bad_cfg (all_ops bad_cfg) (1200 * 18) = Some (0, 176, 0) /\
  expected bad_cfg (1200 * 18) = Some (0, 1200, 0).
Proof. vm_compute. repeat split; reflexivity. Qed.

(* ------------------------------------------------------------------------ *)
(* The saturation vector: whose verdict stays at each sample                   *)
(* ------------------------------------------------------------------------ *)
Section Sat.
Variable c : cfg.
Hypothesis D : dom c.
Set Default Proof Using "D".

Definition sat_of (k : Z) : sat_op := (first_of c k, last_of c k).

Lemma sat_ops_closed op : In op (all_sat_ops c) -> exists k, 0 <= k <= last_batch c /\ op = sat_of k.
Proof.
  unfold all_sat_ops, workers. rewrite in_flat_map. intros (r & Hr & Hop).
  apply in_map_iff in Hr. destruct Hr as (i & <- & Hi). apply in_zrange in Hi.
  pose proof D as D'. unfold dom in D'.
  destruct (worker_never_fails c D i ltac:(lia)) as (evs & pads & Hw). rewrite Hw in Hop. cbn [sat_ops_of] in Hop.
  apply in_map_iff in Hop. destruct Hop as (e & <- & He).
  destruct (worker_events_closed c D i evs pads e ltac:(lia) Hw He) as (k & Hk & ->).
  exists k. split; [exact Hk|reflexivity].
Qed.

Lemma sat_op_present k : 0 <= k <= last_batch c -> In (sat_of k) (all_sat_ops c).
Proof.
  intros Hk. destruct (workers_cover c D k Hk) as (i & evs & pads & Hi & Hw & Hin & _).
  unfold all_sat_ops, workers. apply in_flat_map. exists (worker c i). split.
  - apply in_map. apply in_zrange. lia.
  - rewrite Hw. cbn [sat_ops_of]. apply in_map_iff. exists (batch_event c k). split; [reflexivity|exact Hin].
Qed.

(* batch k's slice holds g  <->  sat_first g <= k <= sat_last g *)
Lemma cover_iff k g : 0 <= k <= last_batch c -> 0 <= g < c_ns c ->
  (first_of c k <= g < last_of c k <-> sat_first c g <= k <= sat_last c g).
Proof.
  intros Hk Hg. pose proof (stride_pos c D) as HS.
  unfold sat_first, sat_last, last_of, first_of.
  pose proof (cdiv_spec (g - c_NB c + 1) (stride c) HS) as Hc.
  set (q := cdiv (g - c_NB c + 1) (stride c)) in *.
  pose proof (Z.div_mod g (stride c) ltac:(lia)) as Hdm.
  pose proof (Z.mod_pos_bound g (stride c) HS) as Hmb.
  set (d := g / stride c) in *.
  split.
  - intros [H1 H2]. assert (H3 : g < c_NB c + stride c * k) by lia. split.
    + apply Z.max_lub; [lia|]. nia.
    + apply Z.min_glb; [lia|]. nia.
  - intros [H1 H2]. assert (q <= k) by lia. assert (k <= d) by lia. split; [nia|].
    apply Z.min_glb_lt; [nia|lia].
Qed.

Lemma sat_range_nonempty g : 0 <= g < c_ns c ->
  0 <= sat_first c g <= sat_last c g /\ sat_last c g <= last_batch c.
Proof.
  intros Hg. destruct (read_cover c D g Hg) as (k & Hk & Hr).
  apply (cover_iff k g Hk Hg) in Hr. unfold sat_first, sat_last in *. lia.
Qed.

Lemma sat_fold_inv g : forall sched cur,
  let r := fold_left (sat_apply g) sched cur in
  r = cur \/ exists op, In op sched /\ fst op <= g < snd op /\ r = Some (fst op, g - fst op).
Proof.
  induction sched as [|op rest IH]; intros cur; cbn [fold_left].
  - left. reflexivity.
  - remember (sat_apply g cur op) as c1 eqn:Ec1.
    destruct (IH c1) as [H|(op' & Hin & Hc & Hr)].
    + unfold sat_apply in Ec1. destruct ((fst op <=? g) && (g <? snd op)) eqn:E.
      * right. exists op. split; [left; reflexivity|]. apply andb_true_iff in E.
        rewrite Z.leb_le, Z.ltb_lt in E. split; [lia|]. rewrite H. exact Ec1.
      * left. rewrite H. exact Ec1.
    + right. exists op'. split; [right; exact Hin|]. split; assumption.
Qed.

Lemma sat_fold_some g : forall sched cur,
  cur <> None \/ (exists op, In op sched /\ fst op <= g < snd op) ->
  fold_left (sat_apply g) sched cur <> None.
Proof.
  induction sched as [|op rest IH]; intros cur H; cbn [fold_left].
  - destruct H as [H|(op & [] & _)]. exact H.
  - apply IH. unfold sat_apply. destruct ((fst op <=? g) && (g <? snd op)) eqn:E.
    + left. discriminate.
    + destruct H as [H|(op' & [<-|Hin] & Hc)].
      * left. exact H.
      * exfalso. apply andb_false_iff in E. rewrite Z.leb_gt, Z.ltb_ge in E. lia.
      * right. exists op'. split; assumption.
Qed.

Lemma sat_any_schedule sched g : Permutation sched (all_sat_ops c) ->
  (0 <= g < c_ns c ->
     exists k, sat_first c g <= k <= sat_last c g /\ sat_after sched g = Some (first_of c k, g - first_of c k)) /\
  (~ 0 <= g < c_ns c -> sat_after sched g = None).
Proof.
  intros Hp. unfold sat_after. split.
  - intros Hg. destruct (sat_fold_inv g sched None) as [H|(op & Hin & Hc & Hr)].
    + exfalso. apply (sat_fold_some g sched None); [|exact H]. right.
      destruct (read_cover c D g Hg) as (k & Hk & Hr). exists (sat_of k). split; [|exact Hr].
      apply (Permutation_in _ (Permutation_sym Hp)). apply sat_op_present. exact Hk.
    + apply (Permutation_in _ Hp) in Hin. destruct (sat_ops_closed op Hin) as (k & Hk & ->).
      exists k. split; [apply (cover_iff k g Hk Hg); exact Hc|exact Hr].
  - intros Hg. destruct (sat_fold_inv g sched None) as [H|(op & Hin & Hc & _)]; [exact H|exfalso].
    apply (Permutation_in _ Hp) in Hin. destruct (sat_ops_closed op Hin) as (k & Hk & ->).
    pose proof (tile_inside c D k Hk). cbn [sat_of fst snd] in Hc. lia.
Qed.

(* sequential order (one worker): the last covering batch wins *)
Lemma zseq_snoc : forall n k, zseq k (S n) = zseq k n ++ [k + Z.of_nat n].
Proof.
  induction n as [|n IH]; intros k.
  - cbn. f_equal. lia.
  - change (zseq k (S (S n))) with (k :: zseq (k + 1) (S n)). rewrite IH.
    cbn [zseq app]. f_equal. f_equal. f_equal. lia.
Qed.

Lemma sat_seq_fold g : 0 <= g < c_ns c -> forall n, Z.of_nat n <= last_batch c + 1 ->
  fold_left (sat_apply g) (map sat_of (zseq 0 n)) None =
  (let hi := Z.min (sat_last c g) (Z.of_nat n - 1) in
   if sat_first c g <=? hi then Some (first_of c hi, g - first_of c hi) else None).
Proof.
  intros Hg. destruct (sat_range_nonempty g Hg) as (Ha & Hb).
  induction n as [|n IH]; intros Hn.
  - cbn [zseq map fold_left]. cbv zeta.
    destruct (sat_first c g <=? Z.min (sat_last c g) (Z.of_nat 0 - 1)) eqn:E; [apply Z.leb_le in E; lia|reflexivity].
  - rewrite zseq_snoc, map_app, fold_left_app. cbn [map fold_left]. rewrite IH by lia. cbv zeta.
    replace (0 + Z.of_nat n) with (Z.of_nat n) by lia.
    unfold sat_apply. cbn [sat_of fst snd].
    pose proof (cover_iff (Z.of_nat n) g ltac:(lia) Hg) as Hcov.
    destruct ((first_of c (Z.of_nat n) <=? g) && (g <? last_of c (Z.of_nat n))) eqn:E.
    + apply andb_true_iff in E. rewrite Z.leb_le, Z.ltb_lt in E. apply Hcov in E.
      replace (Z.min (sat_last c g) (Z.of_nat (S n) - 1)) with (Z.of_nat n) by lia.
      replace (sat_first c g <=? Z.of_nat n) with true by (symmetry; apply Z.leb_le; lia). reflexivity.
    + assert (Hn' : ~ (sat_first c g <= Z.of_nat n <= sat_last c g)).
      { intros Hc. apply Hcov in Hc. apply andb_false_iff in E. rewrite Z.leb_gt, Z.ltb_ge in E. lia. }
      destruct (Z_lt_le_dec (Z.of_nat n) (sat_first c g)) as [Hlt|Hge].
      * replace (sat_first c g <=? Z.min (sat_last c g) (Z.of_nat n - 1)) with false by (symmetry; apply Z.leb_gt; lia).
        replace (sat_first c g <=? Z.min (sat_last c g) (Z.of_nat (S n) - 1)) with false by (symmetry; apply Z.leb_gt; lia).
        reflexivity.
      * replace (Z.min (sat_last c g) (Z.of_nat (S n) - 1)) with (Z.min (sat_last c g) (Z.of_nat n - 1)) by lia.
        reflexivity.
Qed.

Lemma sat_sequential g : c_P c = 1 -> 0 <= g < c_ns c ->
  sat_after (all_sat_ops c) g = Some (first_of c (sat_last c g), g - first_of c (sat_last c g)).
Proof.
  intros HP Hg. destruct (sat_range_nonempty g Hg) as (Ha & Hb).
  destruct (last_batch_spec c D) as (L1 & _).
  assert (Hw : worker c 0 = WOk (map (batch_event c) (zseq 0 (Z.to_nat (last_batch c + 1))))
                                (loop_pads c (last_batch c))).
  { destruct (worker_spec c D 0 ltac:(lia)) as [(_ & Hlt & _)|(_ & m & Hm & Hw & Hbefore & Hstop)].
    - rewrite (start_batch_zero c D) in Hlt. lia.
    - rewrite (start_batch_zero c D) in *.
      assert (m = last_batch c).
      { destruct (Z.eq_dec m (last_batch c)) as [|Hne]; [assumption|exfalso].
        unfold max_s in Hstop. replace (0 =? c_P c - 1) with true in Hstop by (symmetry; apply Z.eqb_eq; lia).
        destruct (last_of_lt c D m ltac:(lia)). lia. }
      subst m. rewrite Hw. f_equal. f_equal. f_equal. lia. }
  unfold sat_after, all_sat_ops, workers. rewrite HP.
  change (zrange (Z.to_nat 1)) with [0]. cbn [map flat_map]. rewrite Hw. cbn [sat_ops_of]. rewrite app_nil_r, map_map.
  change (fun x => (e_first (batch_event c x), e_last (batch_event c x))) with sat_of.
  rewrite (sat_seq_fold g Hg) by lia. cbv zeta.
  replace (Z.min (sat_last c g) (Z.of_nat (Z.to_nat (last_batch c + 1)) - 1)) with (sat_last c g) by lia.
  replace (sat_first c g <=? sat_last c g) with true by (symmetry; apply Z.leb_le; lia). reflexivity.
Qed.

End Sat.
Unset Default Proof Using.

(* ------------------------------------------------------------------------ *)
(* What already exists at output_file                                          *)
(* ------------------------------------------------------------------------ *)
Lemma final_byte_spec c sched app pre : dom c -> 0 <= pre ->
  c_offset c = snd (start_state app pre) -> Permutation sched (all_ops c) ->
  forall b, final_byte c (fst (start_state app pre)) sched b =
    match expected c b with
    | Some x => Some (New x)
    | None => if (0 <=? b) && (b <? fst (start_state app pre)) then Some (Old b) else None
    end.
Proof.
  intros D Hpre Hoff Hp b. unfold final_byte. rewrite (schedule_independent c D sched Hp b). reflexivity.
Qed.

Lemma fresh_run_extent c sched pre : dom c -> 0 <= pre ->
  c_offset c = snd (start_state false pre) -> Permutation sched (all_ops c) ->
  (forall b, final_byte c (fst (start_state false pre)) sched b = option_map New (expected c b)) /\
  (forall b, final_byte c (fst (start_state false pre)) sched b <> None <->
             0 <= b < (c_ns c + c_ns2add c) * rowbytes c) /\
  final_length c (fst (start_state false pre)) = (c_ns c + c_ns2add c) * rowbytes c.
Proof.
  intros D Hpre Hoff Hp. cbn [start_state fst snd] in *.
  assert (Hb : forall b, final_byte c 0 sched b = option_map New (expected c b)).
  { intros b. pose proof (final_byte_spec c sched false pre D Hpre Hoff Hp b) as Hs.
    cbn [start_state fst] in Hs. rewrite Hs.
    destruct (expected c b); [reflexivity|]. cbn [option_map].
    destruct ((0 <=? b) && (b <? 0)) eqn:E; [|reflexivity].
    apply andb_true_iff in E. rewrite Z.leb_le, Z.ltb_lt in E. lia. }
  split; [exact Hb|]. split.
  - intros b. rewrite Hb. pose proof (expected_extent c D b) as He. rewrite Hoff in He.
    destruct (expected c b); cbn [option_map]; split; intros H; try congruence.
    + apply He. congruence.
    + exfalso. assert (H' : @None cell <> None) by (apply He; lia). congruence.
  - unfold final_length. rewrite Hoff. pose proof (rowbytes_pos c D). pose proof D as D'. unfold dom in D'. nia.
Qed.

Lemma append_run_extent c sched pre : dom c -> 0 <= pre ->
  c_offset c = snd (start_state true pre) -> Permutation sched (all_ops c) ->
  (forall b, 0 <= b < pre -> final_byte c (fst (start_state true pre)) sched b = Some (Old b)) /\
  (forall b, final_byte c (fst (start_state true pre)) sched b <> None <->
             0 <= b < pre + (c_ns c + c_ns2add c) * rowbytes c) /\
  final_length c (fst (start_state true pre)) = pre + (c_ns c + c_ns2add c) * rowbytes c.
Proof.
  intros D Hpre Hoff Hp. cbn [start_state fst snd] in *.
  pose proof (rowbytes_pos c D) as Hr. pose proof D as D'. unfold dom in D'.
  assert (Hext : 0 <= (c_ns c + c_ns2add c) * rowbytes c) by nia.
  split; [|split].
  - intros b Hb. pose proof (final_byte_spec c sched true pre D Hpre Hoff Hp b) as Hs.
    cbn [start_state fst] in Hs. rewrite Hs.
    destruct (expected c b) eqn:E.
    + exfalso. assert (H : expected c b <> None) by congruence. apply (expected_extent c D) in H. lia.
    + replace ((0 <=? b) && (b <? pre)) with true; [reflexivity|].
      symmetry. apply andb_true_iff. rewrite Z.leb_le, Z.ltb_lt. lia.
  - intros b. pose proof (final_byte_spec c sched true pre D Hpre Hoff Hp b) as Hs.
    cbn [start_state fst] in Hs. rewrite Hs.
    pose proof (expected_extent c D b) as He. rewrite Hoff in He.
    destruct (expected c b).
    + split; [intros _|congruence]. assert (H : Some c0 <> None) by congruence. apply He in H. lia.
    + destruct ((0 <=? b) && (b <? pre)) eqn:E.
      * apply andb_true_iff in E. rewrite Z.leb_le, Z.ltb_lt in E. split; [intros _; lia|congruence].
      * apply andb_false_iff in E. rewrite Z.leb_gt, Z.ltb_ge in E. split; [congruence|].
        intros Hb. exfalso. assert (H : @None cell <> None) by (apply He; lia). congruence.
  - unfold final_length. rewrite Hoff. lia.
Qed.
