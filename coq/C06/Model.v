(* C06 — executable model of the index / offset bookkeeping of
   ibldsp.voltage.decompress_destripe_cbin and its worker `my_function`
   (src/ibldsp/voltage.py, current tree: after the repairs daeda01 (sync copied
   unmuted) and 5f3c41c (workers starting past the data return at once)).
   Definitions only; lemmas are in Proofs.v, property theorems in Props.v.

   What is modelled (all in Z): taper, batch size, stride, per-batch read range,
   saved local range (ind2save + Python slice clipping), running file positions
   of the three files a worker writes (output .bin, ap_rms.bin, ap_time.bin),
   per-worker first batch, idle-worker rule, stop rule, ns2add padding, append
   offsets.  What a cell of the output holds is abstract: (batch, local row of
   that batch's processed chunk, byte within the row).

   Python (my_function)                                   model
   --------------------                                   -----
   SAMPLES_TAPER, NBATCH, NBATCH - SAMPLES_TAPER * 2      c_T, c_NB, stride
   CHUNK_SIZE = int(sr.ns / nprocesses)                   chunk_size
   n_batch = int(np.ceil(i_chunk * CHUNK_SIZE / NBATCH))  start_batch
   if n_batch > 0 and first_s + 2*TAPER >= ns: return     skipped
   max_s                                                  max_s
   fid.seek / aid.seek / tid.seek                         worker (initial positions)
   while True: ... tofile(fid) ... first_s += stride      worker_loop
   ind2save, chunk[slice( *ind2save)]                      save_lo, save_hi, slice clipping
   np.tile(chunk[-1], (ns2add, 1)).tofile(fid)            pevent
*)
From Coq Require Import ZArith List Bool Lia.
From IBL.lib Require Import PyInt.
Import ListNotations.
Open Scope Z_scope.

Definition SAMPLES_TAPER : Z := 1024.

Record cfg := mkCfg {
  c_T : Z;            (* SAMPLES_TAPER (1024 in the source; a parameter of the theorems) *)
  c_ns : Z;           (* sr.ns *)
  c_NB : Z;           (* NBATCH *)
  c_P : Z;            (* nprocesses *)
  c_ns2add : Z;       (* ns2add *)
  c_offset : Z;       (* offset: size in bytes of the existing output when append, else 0 *)
  c_ncout : Z;        (* nc_out *)
  c_nbytes : Z;       (* dtype(1).nbytes *)
  c_ncv : Z;          (* number of voltage channels *)
  c_rms_offset : Z;   (* rms_offset (bytes) *)
  c_time_offset : Z   (* time_offset (bytes) *)
}.

Definition rowbytes (c : cfg) : Z := c_ncout c * c_nbytes c.
Definition rms_nbytes : Z := 4.                       (* np.float32(1).nbytes *)
Definition stride (c : cfg) : Z := c_NB c - c_T c * 2.

(* CHUNK_SIZE = int(sr.ns / nprocesses): truncation of a non-negative float quotient
   (exact integer floor for operands below 2^52). *)
Definition chunk_size (c : cfg) : Z := c_ns c / c_P c.

(* n_batch = int(np.ceil(i_chunk * CHUNK_SIZE / NBATCH)) *)
Definition start_batch (c : cfg) (i : Z) : Z := cdiv (i * chunk_size c) (c_NB c).

(* first_s = (NBATCH - SAMPLES_TAPER * 2) * n_batch *)
Definition first_of (c : cfg) (k : Z) : Z := stride c * k.

(* if n_batch > 0 and first_s + SAMPLES_TAPER * 2 >= _sr.ns: return *)
Definition skipped (c : cfg) (i : Z) : bool :=
  (0 <? start_batch c i) && (c_ns c <=? first_of c (start_batch c i) + c_T c * 2).

(* max_s = _sr.ns if i_chunk == n_chunk - 1 else (i_chunk + 1) * CHUNK_SIZE *)
Definition max_s (c : cfg) (i : Z) : Z :=
  if i =? c_P c - 1 then c_ns c else (i + 1) * chunk_size c.

(* ind2save = [SAMPLES_TAPER, NBATCH - SAMPLES_TAPER];
   if last_s == ns: ind2save[1] = NBATCH;  if first_s == 0: ind2save[0] = 0 *)
Definition save_lo (c : cfg) (fs : Z) : Z := if fs =? 0 then 0 else c_T c.
Definition save_hi (c : cfg) (ls : Z) : Z := if ls =? c_ns c then c_NB c else c_NB c - c_T c.

(* One pass of the `while True` body: what is read and what is written where. *)
Record bevent := mkBE {
  e_first : Z;        (* first_s : chunk = _sr[first_s:last_s], _saturation[first_s:last_s] = ... *)
  e_last : Z;         (* last_s *)
  e_pos : Z;          (* position of fid before chunk[...].tofile(fid), bytes *)
  e_lo : Z;           (* first local row written (slice start after clipping) *)
  e_cnt : Z;          (* number of rows written *)
  e_rms_pos : Z;      (* position of aid before ap_rms.tofile(aid) *)
  e_time_pos : Z      (* position of tid before ap_t.tofile(tid) *)
}.

(* np.tile(chunk[-1, :nc_out], (ns2add, 1)).tofile(fid) *)
Record pevent := mkPE {
  p_first : Z;        (* first_s of the batch whose last saved row is repeated *)
  p_pos : Z;          (* position of fid, bytes *)
  p_cnt : Z;          (* rows = ns2add *)
  p_src : Z           (* local row index of chunk[-1] in the batch's processed chunk *)
}.

Inductive wres :=
| WOk (evs : list bevent) (pads : list pevent)
| WShort (fs : Z)     (* ValueError: chunk shorter than the taper (chunk[:, :T] *= taper[:T]) *)
| WFuel.              (* model artefact: out of fuel (never happens, C06_workers_closed_form) *)

(* while True: (state: first_s and the positions of the three open files) *)
Fixpoint worker_loop (fuel : nat) (c : cfg) (maxs fs pos apos tpos : Z) : wres :=
  match fuel with
  | O => WFuel
  | S f =>
      let ls := Z.min (c_NB c + fs) (c_ns c) in          (* last_s = np.minimum(NBATCH + first_s, ns) *)
      let len := ls - fs in                              (* chunk.shape[1] *)
      if len <? c_T c then WShort fs                     (* taper multiplication cannot broadcast *)
      else
        let lo := save_lo c fs in
        let hi := save_hi c ls in
        let st := Z.min lo len in                        (* slice(lo, hi).indices(len) *)
        let cnt := Z.max 0 (Z.min hi len - st) in
        let ev := mkBE fs ls pos st cnt apos tpos in
        let pos' := pos + cnt * rowbytes c in            (* tofile advances fid *)
        if maxs <=? ls then                              (* if last_s >= max_s: ... break *)
          WOk [ev]
              (if (ls =? c_ns c) && (0 <? c_ns2add c)
               then [mkPE fs pos' (c_ns2add c) (st + cnt - 1)] else [])
        else
          match worker_loop f c maxs (fs + stride c) pos'  (* first_s += NBATCH - 2 * TAPER *)
                            (apos + c_ncv c * rms_nbytes) (tpos + rms_nbytes) with
          | WOk l p => WOk (ev :: l) p
          | r => r
          end
  end.

(* number of batches the file needs (closed form; also the loop fuel) *)
Definition last_batch (c : cfg) : Z :=
  if c_ns c <=? c_NB c then 0 else cdiv (c_ns c - c_NB c) (stride c).
Definition nbatches (c : cfg) : Z := last_batch c + 1.

(* my_function(i_chunk, n_chunk) *)
Definition worker (c : cfg) (i : Z) : wres :=
  let nb := start_batch c i in
  let fs := first_of c nb in
  if skipped c i then WOk [] []
  else
    let pos := if i =? 0 then c_offset c
               else c_offset c + (fs + c_T c) * c_ncout c * c_nbytes c in
    let apos := if i =? 0 then c_rms_offset c
                else c_rms_offset c + nb * c_ncv c * rms_nbytes in
    let tpos := if i =? 0 then c_time_offset c
                else c_time_offset c + nb * rms_nbytes in
    worker_loop (Z.to_nat (nbatches c)) c (max_s c i) fs pos apos tpos.

(* Parallel(n_jobs=nprocesses)(delayed(my_function)(i, nprocesses) for i in range(nprocesses)) *)
Definition workers (c : cfg) : list wres := map (worker c) (zrange (Z.to_nat (c_P c))).

(* the same call with another worker count / another append offset *)
Definition with_P (c : cfg) (p : Z) : cfg :=
  mkCfg (c_T c) (c_ns c) (c_NB c) p (c_ns2add c) (c_offset c) (c_ncout c) (c_nbytes c) (c_ncv c)
        (c_rms_offset c) (c_time_offset c).
Definition with_offset (c : cfg) (o : Z) : cfg :=
  mkCfg (c_T c) (c_ns c) (c_NB c) (c_P c) (c_ns2add c) o (c_ncout c) (c_nbytes c) (c_ncv c)
        (c_rms_offset c) (c_time_offset c).

(* ---- closed forms (the documented rule) -------------------------------- *)
(* global rows saved by batch k: [glo k, ghi k) *)
Definition glo (c : cfg) (k : Z) : Z := if k =? 0 then 0 else stride c * k + c_T c.
Definition ghi (c : cfg) (k : Z) : Z :=
  if k =? last_batch c then c_ns c else stride c * (k + 1) + c_T c.
Definition last_of (c : cfg) (k : Z) : Z := Z.min (c_NB c + first_of c k) (c_ns c).

Definition batch_event (c : cfg) (k : Z) : bevent :=
  mkBE (first_of c k) (last_of c k)
       (c_offset c + glo c k * rowbytes c)
       (glo c k - first_of c k) (ghi c k - glo c k)
       (c_rms_offset c + k * c_ncv c * rms_nbytes)
       (c_time_offset c + k * rms_nbytes).

Definition pad_event (c : cfg) : pevent :=
  mkPE (first_of c (last_batch c)) (c_offset c + c_ns c * rowbytes c) (c_ns2add c)
       (c_ns c - 1 - first_of c (last_batch c)).

(* k, k+1, ..., k+n-1 *)
Fixpoint zseq (k : Z) (n : nat) : list Z :=
  match n with O => [] | S n' => k :: zseq (k + 1) n' end.

(* the batch that saves global row g *)
Definition batch_of (c : cfg) (g : Z) : Z :=
  Z.min (last_batch c) (Z.max 0 ((g - c_T c) / stride c)).

(* ---- the output file as a map byte -> what it holds --------------------- *)
(* content of a cell: (first_s of the batch, local row in its processed chunk, byte in the row) *)
Definition cell := (Z * Z * Z)%type.

Inductive wop :=
| WData (pos nrows first lo : Z)     (* rows lo .. lo+nrows-1 of the batch starting at `first` *)
| WPad (pos nrows first j : Z).      (* nrows copies of row j of that batch *)

Definition op_cell (c : cfg) (op : wop) (b : Z) : option cell :=
  match op with
  | WData pos n f lo =>
      if (pos <=? b) && (b <? pos + n * rowbytes c)
      then Some (f, lo + (b - pos) / rowbytes c, (b - pos) mod rowbytes c) else None
  | WPad pos n f j =>
      if (pos <=? b) && (b <? pos + n * rowbytes c)
      then Some (f, j, (b - pos) mod rowbytes c) else None
  end.

Definition ops_of (r : wres) : list wop :=
  match r with
  | WOk evs pads =>
      map (fun e => WData (e_pos e) (e_cnt e) (e_first e) (e_lo e)) evs ++
      map (fun p => WPad (p_pos p) (p_cnt p) (p_first p) (p_src p)) pads
  | _ => []
  end.

Definition all_ops (c : cfg) : list wop := flat_map ops_of (workers c).

(* replay a schedule (any order of the write operations); later writes win;
   None = byte never written by this run (hole, or the pre-existing file in append mode) *)
Definition apply_op (c : cfg) (b : Z) (cur : option cell) (op : wop) : option cell :=
  match op_cell c op b with Some x => Some x | None => cur end.
Definition file_after (c : cfg) (sched : list wop) (b : Z) : option cell :=
  fold_left (apply_op c b) sched None.

(* the sequential batch-wise result: row g of the recording comes from the one batch
   whose documented saved range holds g, at local index g - first_s; the ns2add padding
   rows repeat row ns-1.  Does not mention the worker count. *)
Definition expected (c : cfg) (b : Z) : option cell :=
  let x := b - c_offset c in
  let g := x / rowbytes c in
  let col := x mod rowbytes c in
  if (0 <=? x) && (g <? c_ns c) then
    let k := batch_of c g in Some (first_of c k, g - first_of c k, col)
  else if (0 <=? x) && (g <? c_ns c + c_ns2add c) then
    Some (first_of c (last_batch c), c_ns c - 1 - first_of c (last_batch c), col)
  else None.

(* ---- the saturation vector (_iblqc_ephysSaturation.samples.npy) ------------ *)
(* saturated_samples, mute_saturation = saturation(data=chunk, ...) is called on the chunk as
   read, BEFORE chunk[:, :T] *= taper[:T]: the verdict is that of the raw voltages. *)
Inductive stage := Raw | Tapered.
Definition sat_input_stage : stage := Raw.
Definition stage_code (s : stage) : Z := match s with Raw => 0 | Tapered => 1 end.

(* ... saturation(data=chunk, max_voltage=_sr.range_volts[:ncv], fs=_sr.fs): one threshold per
   voltage channel (the reader's per-channel range, NP1: 0.6 V / AP gain of that channel), not one
   for the probe; the sampling rate is the reader's. *)
Inductive sat_threshold := PerChannel | OneForAll.
Definition sat_max_voltage : sat_threshold := PerChannel.
Definition threshold_code (t : sat_threshold) : Z := match t with PerChannel => 0 | OneForAll => 1 end.

(* _saturation[first_s:last_s] = saturated_samples : one slice assignment per loop pass *)
Definition sat_op := (Z * Z)%type.
Definition sat_ops_of (r : wres) : list sat_op :=
  match r with WOk evs _ => map (fun e => (e_first e, e_last e)) evs | _ => [] end.
Definition all_sat_ops (c : cfg) : list sat_op := flat_map sat_ops_of (workers c).

(* whose verdict sample g holds after a schedule of the assignments (later ones win):
   (first_s of the batch, local index in its chunk); None = never assigned (stays False) *)
Definition sat_apply (g : Z) (cur : option (Z * Z)) (op : sat_op) : option (Z * Z) :=
  if (fst op <=? g) && (g <? snd op) then Some (fst op, g - fst op) else cur.
Definition sat_after (sched : list sat_op) (g : Z) : option (Z * Z) :=
  fold_left (sat_apply g) sched None.

(* first and last batch whose read range holds sample g *)
Definition sat_first (c : cfg) (g : Z) : Z := Z.max 0 (cdiv (g - c_NB c + 1) (stride c)).
Definition sat_last (c : cfg) (g : Z) : Z := Z.min (last_batch c) (g / stride c).

(* ---- what already exists at output_file ------------------------------------ *)
(* if append: offset = Path(output_file).stat().st_size        (the file is kept)
   else:      offset = 0; open(output_file, "wb").close()      (created, or TRUNCATED to 0 bytes)
   pre_len = length in bytes of the file found at output_file (0: absent or empty).
   Result: (bytes of the old file that are kept, offset). *)
Definition start_state (append : bool) (pre_len : Z) : Z * Z :=
  if append then (pre_len, pre_len) else (0, 0).

(* a byte of the final file: still the old file's byte b, or written by this run *)
Inductive fbyte := Old (b : Z) | New (x : cell).
Definition final_byte (c : cfg) (kept : Z) (sched : list wop) (b : Z) : option fbyte :=
  match file_after c sched b with
  | Some x => Some (New x)
  | None => if (0 <=? b) && (b <? kept) then Some (Old b) else None
  end.
(* length of the final file: kept bytes, extended by the writes *)
Definition final_length (c : cfg) (kept : Z) : Z :=
  Z.max kept (c_offset c + (c_ns c + c_ns2add c) * rowbytes c).

(* ---- whitening --------------------------------------------------------------- *)
(* if wrot is not None: chunk[:, :ncv] = np.dot(chunk[:, :ncv], wrot)
   whatever form wrot has (matrix, Python float, NumPy scalar, 0-d array), only the ncv voltage
   columns are multiplied; the re-attached sync columns (col >= ncv) are not. *)
Definition whitened_column (c : cfg) (col : Z) : bool := (0 <=? col) && (col <? c_ncv c).
