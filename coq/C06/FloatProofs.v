(* C06 -- the model's exact integer chunk size / start batch are what the float64 code computes. *)
From Coq Require Import ZArith Lia.
From IBL.lib Require Import PyInt.
From IBL.C17 Require Import FloatCeil.
From IBL.C06 Require Import Model Proofs FloatDiv.
Open Scope Z_scope.

Lemma quotients_exact c i : dom c -> c_ns c < 2 ^ 53 -> c_NB c < 2 ^ 53 -> 0 <= i < c_P c ->
  floor_div64 (c_ns c) (c_P c) = chunk_size c /\
  ceil_div64 (i * chunk_size c) (c_NB c) = start_batch c i.
Proof.
  intros D Hns HNB Hi. pose proof D as D'. unfold dom in D'.
  destruct (chunk_size_bounds c D) as [Hc1 Hc2].
  split.
  - unfold chunk_size. apply float64_floor_div_exact; lia.
  - unfold start_batch. destruct (Z.eq_dec i 0) as [->|Hne].
    + rewrite Z.mul_0_l. rewrite float64_ceil_div_zero by lia. reflexivity.
    + apply float64_ceil_div_exact; [nia|lia].
Qed.

(* converse of the domain hypothesis T <= ns: a recording shorter than one taper makes the first
   worker fail on its first chunk (ValueError in the source: the taper cannot broadcast) *)
Lemma short_recording_fails c : 0 <= c_T c -> c_T c * 2 < c_NB c -> 1 <= c_ns c < c_T c -> 1 <= c_P c ->
  worker c 0 = WShort 0.
Proof.
  intros HT HNB Hns HP. unfold worker.
  assert (Hs : start_batch c 0 = 0) by (unfold start_batch; rewrite Z.mul_0_l; reflexivity).
  unfold skipped. rewrite Hs. cbn [Z.ltb Z.compare andb].
  assert (Hl : last_batch c = 0).
  { unfold last_batch. replace (c_ns c <=? c_NB c) with true by (symmetry; apply Z.leb_le; lia). reflexivity. }
  unfold nbatches. rewrite Hl. change (Z.to_nat (0 + 1)) with 1%nat.
  unfold first_of. rewrite Z.mul_0_r. cbn [worker_loop].
  replace (Z.min (c_NB c + 0) (c_ns c)) with (c_ns c) by lia.
  replace (c_ns c - 0 <? c_T c) with true by (symmetry; apply Z.ltb_lt; lia). reflexivity.
Qed.
