(* C12 — flat-integer interface of the model for the correspondence check.
   input : nsf :: n :: off :: W :: version :: meta_ns :: nominal :: wc     (file length, init_params(nsamples) or nsf, _process_NP21 offset or 0)
           :: acq0 :: acq1 :: acq2 :: sns0 :: sns1 :: sns2 :: nsaved :: fsize :: rate :: subset_hi
           :: k :: sh_1 .. sh_k                 (shanks processed, in order)
           :: shank of every site (rest of the list)
   output: 0                                    (the conversion raises)
         | 1 :: (meta_ns_nominal nsf if nominal = 1 else meta_ns) :: nrows :: enc(positions) ++ k ++ for each processed shank:
             enc(chns) ++ [acq0;acq1;acq2;sns0;sns1;sns2;nsaved;fsize;rate;subset_hi]
             ++ enc(subset_orig) ++ [original_meta; shank_key; nbytes; nc; fs; is_lf; nsync; ns_open; fudged] ++ (enc(per column: filtered, AP-file column) if wc = 1 else [0]) *)
From Coq Require Import ZArith List Bool.
From IBL.lib Require Import PyInt RunLib.
From IBL.C12 Require Import Model Names.
Import ListNotations.
Open Scope Z_scope.

Definition enc_meta (m : meta) : list Z :=
  [acq0 m; acq1 m; acq2 m; sns0 m; sns1 m; sns2 m; nsaved m; fsize m; rate m; subset_hi m]
  ++ enc_zlist (subset_orig m) ++ [enc_bool (original_meta m); shank_key m].

Definition enc_file (f : list Z * meta * Z * (Z * Z * bool * Z * Z)) : list Z :=
  let '(chns, m', nb, (nc, fs, islf, nsy, nso)) := f in
  enc_zlist chns ++ enc_meta m' ++ [nb; nc; fs; enc_bool islf; nsy; nso].

(* m0: the metadata of the AP file; per column of the lf file: filtered?, column of the AP file *)
Definition enc_file_f (wc : Z) (m0 : meta) (meta_ns : Z) (f : list Z * meta * Z * (Z * Z * bool * Z * Z)) : list Z :=
  let '(chns, m', nb, _) := f in
  enc_file f ++ [enc_bool (rd_fudged m' nb meta_ns)]
  ++ (if wc =? 1 then enc_list (fun s => [enc_bool (fst s); snd s]) (lf_col_sources m0 chns) else [0]).

(* input : nsf :: nsamples_arg :: off :: nwindow_arg :: imDatPrb_type :: meta_ns :: nominal :: wc :: assert_shanks
           :: acq0 :: acq1 :: acq2 :: sns0 :: sns1 :: sns2 :: nsaved :: fsize :: rate :: subset_hi
           :: k :: nshank_1 .. nshank_k          (the nshank argument; k = 0: None)
           :: is_cbin :: L :: c_1 .. c_L         (the AP file given is a .cbin; its name, character codes)
           :: shank of every site (rest of the list)
   every file block of the output ends with enc(name of the lf file, ".cbin" read as ".bin")
   (arguments 0 stand for None: nsamples -> sr.ns, nwindow -> 2 * fs_ap)
   output: 2 (probe type not NP2: status -1, nothing written) | 0 (raises) | 1 :: ... as above, for the shanks the
   model says are processed *)
Definition run (inp : list Z) : list Z :=
  match inp with
  | nsf :: nsarg :: off :: warg :: prb :: meta_ns :: nominal :: wc :: ash
    :: a0 :: a1 :: a2 :: s0 :: s1 :: s2 :: nsv :: fsz :: rt :: shi :: k :: rest =>
      let nshank := firstn (Z.to_nat k) rest in
      let rest1 := skipn (Z.to_nat k) rest in
      let iscb := match rest1 with c :: _ => c =? 1 | [] => false end in
      let nl := match rest1 with _ :: l :: _ => l | _ => 0 end in
      let name := firstn (Z.to_nat nl) (skipn 2 rest1) in
      let shanks := skipn (Z.to_nat nl) (skipn 2 rest1) in
      let version := np_version prb in
      let ns := nsamples_of nsarg nsf in
      let W := window_of warg in
      let m := {| acq0 := a0; acq1 := a1; acq2 := a2; sns0 := s0; sns1 := s1; sns2 := s2;
                  nsaved := nsv; fsize := fsz; rate := rt; subset_hi := shi;
                  subset_orig := []; original_meta := true; shank_key := -1 |} in
      if negb (admissible W) then [0]             (* the assert of init_params comes first *)
      else if version =? 0 then [2]
      else
      match shanks_processed version nshank shanks (ash =? 1) with
      | None => [0]
      | Some shs =>
        match lf_nsamples_off nsf off ns W, lf_positions_off nsf off ns W with
        | Some n, Some ps =>
            1 :: (if nominal =? 1 then meta_ns_nominal nsf else meta_ns) :: n :: enc_zlist ps
              ++ enc_list (fun sh => enc_file_f wc m meta_ns
                             (lf_file_chns version m (file_chns version (ash =? 1) shanks nsv s2 sh) n meta_ns sh)
                             ++ enc_zlist (lf_out_name version iscb name)) shs
        | _, _ => [0]
        end
      end
  | _ => [-999]
  end.

Definition mismatches := mismatches_of run.
