(* C12 — IEEE-754 (binary32, round to nearest even; Flocq) model of the path a
   sync word takes from the AP file to the LF file.  Definitions only.

   Python                                                        model
   spikeglx.Reader.read:  raw.astype(np.float32) * s2v[sync]     read32   (s2v[sync] = np.ones(.., float32))
   NP2Converter._ind2save: np.rint(chunk_sync.T / s2v['lf'][sync:]).astype(np.int16)
                                                                 sync_cast
   extract_lfp_sync only picks columns (chunk_sync[:, ::ratio]): no arithmetic. *)
From Coq Require Import ZArith List Bool.
From Flocq Require Import Core BinarySingleNaN.
Import ListNotations.
Open Scope Z_scope.

Definition f32 := binary_float 24 128.
Definition p32 : Prec_gt_0 24 := eq_refl.
Definition e32 : Prec_lt_emax 24 128 := eq_refl.

(* int16 -> float32 (exact for |z| < 2^24) *)
Definition z32 (z : Z) : f32 := binary_normalize 24 128 p32 e32 mode_NE z 0 false.
Definition mul32 : f32 -> f32 -> f32 :=
  Bmult (prec:=24) (emax:=128) (prec_gt_0_:=p32) (prec_lt_emax_:=e32) mode_NE.
Definition div32 : f32 -> f32 -> f32 :=
  Bdiv (prec:=24) (emax:=128) (prec_gt_0_:=p32) (prec_lt_emax_:=e32) mode_NE.
Definition rint32 : f32 -> f32 :=
  Bnearbyint (prec:=24) (emax:=128) (prec_lt_emax_:=e32) mode_NE.
Definition trunc32 : f32 -> Z := Btrunc (prec:=24) (emax:=128).

(* the sync channel's conversion factor *)
Definition one32 : f32 := z32 1.

(* C cast of an integral float32 to int16 (via int32, low 16 bits) *)
Definition i16wrap (z : Z) : Z := (z + 32768) mod 65536 - 32768.

Definition read32 (r : Z) : f32 := mul32 (z32 r) one32.
Definition sync_cast (r : Z) : Z := i16wrap (trunc32 (rint32 (div32 (read32 r) one32))).

(* all int16 values, built by doubling (no large nat) *)
Fixpoint range_pow2 (n : nat) (base : Z) : list Z :=
  match n with
  | O => [base]
  | S n' => range_pow2 n' base ++ range_pow2 n' (base + 2 ^ Z.of_nat n')
  end.
Definition all_int16 : list Z := range_pow2 16 (-32768).
