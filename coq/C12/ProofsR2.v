(* C12 — round-2 lemmas: the general loop (nsamples / offset), the stale
   fileTimeSecs of the LF metadata, and the values of the stream under a
   locality hypothesis on the (external) low-pass operator. *)
From Coq Require Import ZArith List Bool Lia.
From IBL.lib Require Import PyInt.
From IBL.C17 Require Import Model Proofs.
From IBL.C12 Require Import Model Proofs.
Import ListNotations.
Open Scope Z_scope.

(* ------------------------------------------------------------------ *)
(* A. init_params(nsamples = n), _process_NP21(offset = off)           *)
(* ------------------------------------------------------------------ *)
Definition shift_row (off : Z) (r : Z * Z * Z * Z) : Z * Z * Z * Z :=
  let '(f, l, a, b) := r in (f + off, l + off, a, b).

Lemma lf_row_off_shift nsf off W nw iw first last :
  0 <= off -> 0 <= first <= last -> last + off <= nsf ->
  lf_row_off nsf off W nw iw (first, last) = option_map (shift_row off) (lf_row W nw iw (first, last)).
Proof.
  intros Ho Hf Hl. unfold lf_row_off, lf_row, clip_len.
  replace (Z.max 0 (Z.min (last + off) nsf - Z.min (first + off) nsf)) with (last - first) by lia.
  destruct (last - first <? taper); [reflexivity|].
  destruct (ind2save W iw nw) as [a b].
  destruct (pyslice (ndec (last - first)) a b) as [a' b'].
  cbn [option_map shift_row]. replace (first + off + (last - first)) with (last + off) by lia. reflexivity.
Qed.

Lemma rows_off_shift nsf off W nw l : 0 <= off ->
  Forall (fun w => 0 <= fst w <= snd w /\ snd w + off <= nsf) l ->
  forall iw, lf_rows_from_off nsf off W nw iw l = option_map (map (shift_row off)) (lf_rows_from W nw iw l).
Proof.
  intros Ho Hall. induction Hall as [|[first last] t [Hf Hl] Ht IH]; intros iw; [reflexivity|].
  cbn [lf_rows_from_off lf_rows_from]. cbn [fst snd] in Hf, Hl.
  rewrite (lf_row_off_shift nsf off W nw iw first last Ho Hf Hl), IH.
  destruct (lf_row W nw iw (first, last)); [|reflexivity].
  destruct (lf_rows_from W nw (iw + 1) t); reflexivity.
Qed.

Lemma row_positions_shift off r : row_positions (shift_row off r) = map (fun p => off + p) (row_positions r).
Proof.
  destruct r as [[[f l] a] b]. unfold shift_row, row_positions. rewrite map_map.
  apply map_ext. intros j. lia.
Qed.

Lemma flat_positions_shift off rs :
  flat_map row_positions (map (shift_row off) rs) = map (fun p => off + p) (flat_map row_positions rs).
Proof.
  induction rs as [|r rs IH]; [reflexivity|].
  cbn [map flat_map]. now rewrite map_app, row_positions_shift, IH.
Qed.

Lemma count_shift off rs :
  fold_right (fun r acc => row_count r + acc) 0 (map (shift_row off) rs) =
  fold_right (fun r acc => row_count r + acc) 0 rs.
Proof.
  induction rs as [|[[[f l] a] b] rs IH]; [reflexivity|]. cbn [map fold_right]. rewrite IH. reflexivity.
Qed.

Section Off.
Variables nsf off n W : Z.
Hypothesis Hn : 144 <= n.
Hypothesis Hadm : admissible W = true.
Hypothesis Hoff : 0 <= off.
Hypothesis Hfit : off + n <= nsf.
Set Default Proof Using "Hn Hadm Hoff Hfit".
Local Notation K := (lastk n W 576).

Lemma wins_inside :
  Forall (fun w => 0 <= fst w <= snd w /\ snd w + off <= nsf) (wins_from n W 576 0 (Z.to_nat (K + 1))).
Proof.
  pose proof (K_nonneg' n W Hn Hadm) as HK.
  pose proof (last_len n W Hn Hadm) as [_ [_ Hl3]].
  pose proof (s_pos n W 576 (Hns1 n W Hn Hadm) (Proofs.Hov n W Hn Hadm)) as Hs.
  apply Forall_forall. intros w Hw. unfold wins_from in Hw.
  apply in_map_iff in Hw. destruct Hw as [i [<- Hi]]. apply in_seq in Hi.
  unfold win. cbn [fst snd]. change (W - 576) with (stride W 576).
  set (k := 0 + Z.of_nat i). assert (Hk : 0 <= k <= K) by lia.
  assert (k * stride W 576 <= K * stride W 576) by nia.
  assert (0 <= k * stride W 576) by nia.
  pose proof (Proofs.Hov n W Hn Hadm). lia.
Qed.

Lemma lf_windows_off_closed :
  lf_windows_off nsf off n W = option_map (map (shift_row off)) (lf_windows n W).
Proof.
  unfold lf_windows_off, lf_windows. rewrite Hadm.
  replace (0 <=? off) with true by (symmetry; apply Z.leb_le; assumption). cbn [andb].
  rewrite overlap_eq.
  rewrite (firstlast_closed n W 576 (Hns1 n W Hn Hadm) (Proofs.Hov n W Hn Hadm)).
  apply rows_off_shift; [assumption|apply wins_inside].
Qed.

Lemma lf_positions_off_closed :
  lf_positions_off nsf off n W = Some (map (fun m => off + 12 * m) (zrange (Z.to_nat (cdiv n 12)))).
Proof.
  unfold lf_positions_off. rewrite lf_windows_off_closed.
  pose proof (lf_positions_closed n W Hn Hadm) as Hp. unfold lf_positions in Hp.
  destruct (lf_windows n W) as [rs|]; [|discriminate]. cbn [option_map].
  injection Hp as Hp. rewrite flat_positions_shift, Hp, map_map. reflexivity.
Qed.

Lemma lf_nsamples_off_closed : lf_nsamples_off nsf off n W = Some (cdiv n 12).
Proof.
  unfold lf_nsamples_off. rewrite lf_windows_off_closed.
  pose proof (lf_nsamples_closed n W Hn Hadm) as Hp. unfold lf_nsamples in Hp.
  destruct (lf_windows n W) as [rs|]; [|discriminate]. cbn [option_map].
  now rewrite count_shift.
Qed.
End Off.
Unset Default Proof Using.

(* the default call (whole file, no offset) is the model the round-1 theorems are about *)
Lemma shift_row_0 rs : map (shift_row 0) rs = rs.
Proof.
  induction rs as [|[[[f l] a] b] rs IH]; [reflexivity|]. cbn [map shift_row]. rewrite IH.
  now rewrite !Z.add_0_r.
Qed.

Lemma lf_windows_off_default ns W : 144 <= ns -> admissible W = true ->
  lf_windows_off ns 0 ns W = lf_windows ns W.
Proof.
  intros Hn Hadm. rewrite (lf_windows_off_closed ns 0 ns W Hn Hadm) by lia.
  destruct (lf_windows ns W); [|reflexivity]. cbn [option_map]. now rewrite shift_row_0.
Qed.

(* ------------------------------------------------------------------ *)
(* B. the duration announced by the LF metadata                        *)
(* ------------------------------------------------------------------ *)
Definition duration_consistent (ns : Z) : bool :=
  (ns mod 12 =? 0) || (7 <=? ns mod 12) || ((ns mod 12 =? 6) && Z.odd (ns / 12)).

Lemma meta_ns_nominal_spec ns : 0 <= ns ->
  (meta_ns_nominal ns =? cdiv ns 12) = duration_consistent ns.
Proof.
  intros Hns. unfold meta_ns_nominal, round_half_even_div, duration_consistent.
  change fs_lf with 2500. change fs_ap with 30000.
  pose proof (Z.div_mod ns 12 ltac:(lia)) as Hdm.
  pose proof (Z.mod_pos_bound ns 12 ltac:(lia)) as Hr.
  set (q := ns / 12) in *. set (r := ns mod 12) in *.
  assert (Hq : ns * 2500 / 30000 = q).
  { symmetry. apply (Z.div_unique (ns * 2500) 30000 q (2500 * r)); lia. }
  assert (Hm : (ns * 2500) mod 30000 = 2500 * r).
  { symmetry. apply (Z.mod_unique (ns * 2500) 30000 q (2500 * r)); lia. }
  rewrite Hq, Hm.
  pose proof (cdiv_spec ns 12 ltac:(lia)) as Hc.
  rewrite <- Z.negb_even.
  destruct (2 * (2500 * r) <? 30000) eqn:E1;
  destruct (30000 <? 2 * (2500 * r)) eqn:E2;
  destruct (Z.even q) eqn:E3;
  destruct (r =? 0) eqn:E4; destruct (7 <=? r) eqn:E5; destruct (r =? 6) eqn:E6;
  cbn [negb orb andb]; try lia.
Qed.

Lemma fudged_iff_stale m ns : 0 <= ns -> 1 <= rd_nc m ->
  rd_fudged m (2 * rd_nc m * cdiv ns 12) (meta_ns_nominal ns) = negb (duration_consistent ns).
Proof.
  intros Hns Hnc. rewrite <- (meta_ns_nominal_spec ns Hns). unfold rd_fudged. f_equal.
  destruct (meta_ns_nominal ns =? cdiv ns 12) eqn:E.
  - apply Z.eqb_eq in E. rewrite E. apply Z.eqb_eq. lia.
  - apply Z.eqb_neq in E. apply Z.eqb_neq. nia.
Qed.

(* ------------------------------------------------------------------ *)
(* C. values: windowed low-pass vs whole-trace low-pass                *)
(* ------------------------------------------------------------------ *)
Lemma Forall2_map_same {A B C} (P : B -> C -> Prop) (g : A -> B) (f : A -> C) l :
  (forall j, In j l -> P (g j) (f j)) -> Forall2 P (map g l) (map f l).
Proof.
  induction l as [|a l IH]; intros H; cbn [map]; constructor.
  - apply H. now left.
  - apply IH. intros j Hj. apply H. now right.
Qed.

Lemma Forall2_nth_Z {A B} (P : A -> B -> Prop) l1 l2 (i : nat) d1 d2 :
  Forall2 P l1 l2 -> (i < length l1)%nat -> P (nth i l1 d1) (nth i l2 d2).
Proof.
  intros H. revert i. induction H as [|a b l1 l2 Hab H IH]; intros i Hi; [cbn in Hi; lia|].
  destruct i; [exact Hab|]. cbn [nth]. apply IH. cbn in Hi. lia.
Qed.

Lemma Forall2_len {A B} (P : A -> B -> Prop) l1 l2 : Forall2 P l1 l2 -> length l1 = length l2.
Proof. induction 1; cbn; congruence. Qed.

Section ValuesProofs.
  Variable V : Type.
  Variable filt : Z -> Z -> (Z -> V) -> Z -> V.
  Variable tap : Z -> Z -> (Z -> V) -> (Z -> V).
  (* |u - v| <= eps *)
  Variable close : V -> V -> Prop.

  (* the cosine taper only touches the first and the last `taper` samples of the chunk *)
  Hypothesis tap_local : forall a b x p, a + taper <= p < b - taper -> tap a b x p = x p.
  (* LOCALITY (measured on scipy.signal.sosfiltfilt by the harness): the filtered value at p
     depends on the chunk outside [p - taper, p + taper] -- including where the chunk
     ends and how it is padded there -- by at most eps *)
  Hypothesis filt_local : forall a b a' b' (x y : Z -> V) p,
    a <= p - taper -> p + taper < b -> a' <= p - taper -> p + taper < b' ->
    (forall q, p - taper <= q <= p + taper -> x q = y q) ->
    close (filt a b x p) (filt a' b' y p).

  Variables ns W : Z.
  Hypothesis Hns : 144 <= ns.
  Hypothesis Hadm : admissible W = true.
  Variable x : Z -> V.
  Set Default Proof Using "tap_local filt_local Hns Hadm".
  Local Notation K := (lastk ns W 576).

  (* row m of the stream is within eps of the whole-trace low-pass at 12 m, away from the file ends *)
  Definition good (m : Z) (v : V) : Prop :=
    2 * taper <= 12 * m < ns - 2 * taper -> close v (whole_trace_lf V filt x ns m).

  Lemma row_values_good k : 0 <= k <= K ->
    Forall2 good (zrange2 (lo W k) (hi ns W k)) (row_values V filt tap x (crow ns W k)).
  Proof.
    intros Hk. unfold row_values, crow, lo, hi.
    rewrite <- (zrange2_shift_map (ka k) (kb ns W k) (k * (qw W - 48))).
    apply Forall2_map_same. intros j Hj Haway.
    assert (Hm : In (ratio * j, Z.min (k * stride W 576 + W) ns - (k * stride W 576 + ratio * j))
                    (row_margins (crow ns W k))).
    { unfold row_margins, crow. apply in_map_iff. exists j. split; [reflexivity|exact Hj]. }
    apply (margins_crow ns W Hns Hadm k _ Hk) in Hm. cbn [fst snd] in Hm.
    destruct Hm as [Hl [Hr [Hl0 Hr0]]].
    pose proof (s_eq ns W Hns Hadm) as Hs. rewrite ratio_eq, taper_eq in *.
    set (first := k * stride W 576) in *. set (last := Z.min (first + W) ns) in *.
    assert (Hpos : first + 12 * j = 12 * (k * (qw W - 48) + j)) by (unfold first; lia).
    unfold whole_trace_lf. rewrite ratio_eq. rewrite <- Hpos.
    set (p := first + 12 * j) in *.
    assert (Hfirst : 0 <= first).
    { unfold first. pose proof (s_pos ns W 576 (Hns1 ns W Hns Hadm) (Proofs.Hov ns W Hns Hadm)). nia. }
    assert (Hlast : last <= ns) by (unfold last; lia).
    assert (HlK : k = K -> last = ns).
    { intros ->. unfold last, first. pose proof (K_reaches ns W 576 (Hns1 ns W Hns Hadm) (Proofs.Hov ns W Hns Hadm)). lia. }
    assert (Hf0 : k = 0 -> first = 0) by (intros ->; reflexivity).
    assert (Hp : p = first + 12 * j) by reflexivity.
    clearbody p last first.
    apply filt_local; try lia.
    intros q0 Hq0. apply tap_local. lia.
  Qed.

  Lemma values_from n : forall k, 0 <= k -> k + Z.of_nat n = K ->
    Forall2 good (zrange2 (lo W k) (cdiv ns 12)) (flat_map (row_values V filt tap x) (crows_from ns W k (S n))).
  Proof.
    induction n as [|n IH]; intros k Hk HK.
    - assert (k = K) by lia. subst k. rewrite (crows_from_S ns W Hns Hadm). cbn [crows_from seq map flat_map].
      rewrite app_nil_r. rewrite <- (hi_K ns W Hns Hadm). apply row_values_good. lia.
    - rewrite (crows_from_S ns W Hns Hadm). cbn [flat_map].
      rewrite <- (zrange2_app (lo W k) (hi ns W k) (cdiv ns 12)).
      + apply Forall2_app; [apply row_values_good; lia|].
        rewrite (hi_lo_next ns W Hns Hadm) by lia. apply IH; lia.
      + pose proof (lo_lt_hi ns W Hns Hadm k ltac:(lia)). lia.
      + apply (hi_le_N ns W Hns Hadm). lia.
  Qed.

  Lemma lf_values_good : exists vs, lf_values V filt tap x ns W = Some vs /\
    Forall2 good (zrange (Z.to_nat (cdiv ns 12))) vs.
  Proof.
    unfold lf_values. rewrite (lf_windows_closed ns W Hns Hadm). eexists. split; [reflexivity|].
    pose proof (K_nonneg' ns W Hns Hadm).
    replace (Z.to_nat (K + 1)) with (S (Z.to_nat K)) by lia.
    pose proof (N_nonneg ns W Hns Hadm) as HN.
    rewrite <- (zrange2_0 (Z.to_nat (cdiv ns 12))).
    replace (Z.of_nat (Z.to_nat (cdiv ns 12))) with (cdiv ns 12) by lia.
    exact (values_from (Z.to_nat K) 0 ltac:(lia) ltac:(lia)).
  Qed.

  Lemma lf_values_nth vs (m : nat) d : lf_values V filt tap x ns W = Some vs ->
    (length vs = Z.to_nat (cdiv ns 12)) /\
    ((m < length vs)%nat -> 2 * taper <= 12 * Z.of_nat m < ns - 2 * taper ->
     close (nth m vs d) (whole_trace_lf V filt x ns (Z.of_nat m))).
  Proof.
    intros Hv. destruct lf_values_good as [vs' [Hv' HF]]. rewrite Hv in Hv'. injection Hv' as <-.
    pose proof (Forall2_len _ _ _ HF) as Hlen. rewrite zrange_length in Hlen.
    split; [now symmetry|]. intros Hm Haway.
    pose proof (Forall2_nth_Z good _ _ m 0 d HF) as Hn.
    rewrite zrange_length in Hn. specialize (Hn ltac:(lia)).
    unfold zrange in Hn. rewrite (nth_indep _ 0 (Z.of_nat 0)) in Hn by (rewrite map_length, seq_length; lia).
    rewrite map_nth, seq_nth in Hn by lia. cbn [Nat.add] in Hn. apply Hn. exact Haway.
  Qed.
End ValuesProofs.
Unset Default Proof Using.

(* ------------------------------------------------------------------ *)
(* D. from "within eps before rounding" to "within 1 LSB in the file"  *)
(* ------------------------------------------------------------------ *)
(* values in units of 1/D LSB; np.rint = round half to even of u/D *)
Lemma rhe_spec a b : 0 < b -> 2 * Z.abs (b * round_half_even_div a b - a) <= b.
Proof.
  intros Hb. unfold round_half_even_div.
  pose proof (Z.div_mod a b ltac:(lia)) as Hdm. pose proof (Z.mod_pos_bound a b Hb) as Hr.
  destruct (2 * (a mod b) <? b) eqn:E1; [lia|].
  destruct (b <? 2 * (a mod b)) eqn:E2; [lia|].
  destruct (Z.even (a / b)); lia.
Qed.

Lemma rounding_one_lsb D u v e : 0 < D -> 0 <= e < D -> Z.abs (u - v) <= e ->
  2 * Z.abs (D * round_half_even_div u D - v) <= D + 2 * e /\
  Z.abs (round_half_even_div u D - round_half_even_div v D) <= 1.
Proof.
  intros HD He Huv. pose proof (rhe_spec u D HD) as Hu. pose proof (rhe_spec v D HD) as Hv.
  split; [lia|].
  set (ru := round_half_even_div u D) in *. set (rv := round_half_even_div v D) in *.
  assert (D * Z.abs (ru - rv) < 2 * D) by lia. nia.
Qed.

(* ------------------------------------------------------------------ *)
(* E. channel bookkeeping: which column is filtered                    *)
(* ------------------------------------------------------------------ *)
Lemma where_eq_range sh shanks : forall i c, In c (where_eq sh i shanks) ->
  i <= c < i + Z.of_nat (length shanks).
Proof.
  induction shanks as [|s t IH]; intros i c Hc; [contradiction|].
  cbn [where_eq] in Hc. cbn [length]. destruct (s =? sh).
  - destruct Hc as [<-|Hc]; [lia|]. apply IH in Hc. lia.
  - apply IH in Hc. lia.
Qed.

Lemma sync_never_filtered m shanks sh :
  sns2 m = 1 -> nsaved m = sns0 m + 1 -> Z.of_nat (length shanks) = sns0 m ->
  let chns := shank_chns shanks (nsaved m) (sns2 m) sh in
  chns = where_eq sh 0 shanks ++ [nsaved m - 1] /\
  lf_col_sources m chns =
    map (fun c => (true, c)) (where_eq sh 0 shanks) ++ [(false, nsaved m - 1)] /\
  chunk2save_width m = nsaved m /\
  Forall (fun c => 0 <= c < chunk2save_width m) chns.
Proof.
  intros Hs Hn Hl. cbv zeta. unfold shank_chns. rewrite Hs.
  assert (Hz : zrange2 (nsaved m - 1) (nsaved m) = [nsaved m - 1]).
  { rewrite zrange2_cons by lia. rewrite zrange2_nil by lia. reflexivity. }
  rewrite Hz. split; [reflexivity|].
  assert (Hw : chunk2save_width m = nsaved m) by (unfold chunk2save_width, napch, idxsyncch; lia).
  split; [|split; [exact Hw|]].
  - unfold lf_col_sources. rewrite map_app. f_equal.
    + apply map_ext_in. intros c Hc. apply where_eq_range in Hc.
      unfold col_source, napch. destruct (c <? sns0 m) eqn:E; [reflexivity|lia].
    + cbn [map]. unfold col_source, napch, idxsyncch.
      destruct (nsaved m - 1 <? sns0 m) eqn:E; [lia|].
      replace (sns0 m + (nsaved m - 1 - sns0 m)) with (nsaved m - 1) by lia. reflexivity.
  - rewrite Hw. apply Forall_app. split.
    + apply Forall_forall. intros c Hc. apply where_eq_range in Hc. lia.
    + constructor; [lia|constructor].
Qed.

(* ------------------------------------------------------------------ *)
(* F. arguments, probe types, shanks processed                         *)
(* ------------------------------------------------------------------ *)
Lemma in_insert_u x l y : In y (insert_u x l) <-> y = x \/ In y l.
Proof.
  induction l as [|z t IH]; cbn [insert_u].
  - cbn. intuition.
  - destruct (x <? z) eqn:E1; [cbn; intuition|].
    destruct (x =? z) eqn:E2.
    + apply Z.eqb_eq in E2. subst z. cbn. intuition.
    + cbn [In]. rewrite IH. intuition.
Qed.

Inductive incr : list Z -> Prop :=
| incr_nil : incr []
| incr_one x : incr [x]
| incr_cons x y t : x < y -> incr (y :: t) -> incr (x :: y :: t).

Lemma incr_insert x l : incr l -> incr (insert_u x l).
Proof.
  induction 1 as [|z|z y t Hzy Hyt IH]; cbn [insert_u].
  - constructor.
  - destruct (x <? z) eqn:E1; [apply Z.ltb_lt in E1; repeat constructor; assumption|].
    destruct (x =? z) eqn:E2; [constructor|].
    apply Z.ltb_ge in E1. apply Z.eqb_neq in E2. repeat constructor. lia.
  - destruct (x <? z) eqn:E1; [apply Z.ltb_lt in E1; repeat constructor; assumption|].
    destruct (x =? z) eqn:E2; [constructor; assumption|].
    apply Z.ltb_ge in E1. apply Z.eqb_neq in E2. cbn [insert_u] in IH.
    destruct (x <? y) eqn:E3.
    + apply Z.ltb_lt in E3. constructor; [lia|]. constructor; assumption.
    + destruct (x =? y) eqn:E4; [constructor; assumption|]. constructor; assumption.
Qed.

Lemma uniq_sorted_spec l : incr (uniq_sorted l) /\ forall y, In y (uniq_sorted l) <-> In y l.
Proof.
  induction l as [|x l [IH1 IH2]]; [split; [constructor|intros y; reflexivity]|].
  unfold uniq_sorted in *. cbn [fold_right]. split; [apply incr_insert; exact IH1|].
  intros y. rewrite in_insert_u, IH2. cbn. intuition.
Qed.
