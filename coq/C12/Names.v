(* C12 — the name of the LF output as a function of the name of the AP file given.
   str.replace("ap", "lf") is C04's model `lf_name` (imported, with its no-aliasing theorem).
   Names are lists of character codes.

   _prepare_files_NP21:  lf_file = parent / ap_file.name.replace("ap", "lf")  then  .with_suffix(".bin")
   _prepare_files_NP24:  ap_file_bin = ap_file.with_suffix(".bin").name if sr.is_mtscomp else ap_file.name
                         lf_file = probe_path / ap_file_bin.replace("ap", "lf") *)
From Coq Require Import ZArith List Bool.
From IBL.C04 Require Model.
Import ListNotations.
Open Scope Z_scope.

(* PurePath.with_suffix on a name that has a suffix: everything before the last '.', then the new suffix *)
Fixpoint drop_suffix_rev (r : list Z) : list Z :=
  match r with
  | [] => []
  | c :: t => if c =? 46 then t else drop_suffix_rev t
  end.
Definition stem (s : list Z) : list Z :=
  if existsb (Z.eqb 46) s then rev (drop_suffix_rev (rev s)) else s.
Definition with_suffix (ext s : list Z) : list Z := stem s ++ ext.
Definition ext_bin : list Z := [46; 98; 105; 110].      (* ".bin" *)

Definition lf_out_name (version : Z) (is_cbin : bool) (name : list Z) : list Z :=
  if version =? 21 then with_suffix ext_bin (IBL.C04.Model.lf_name name)
  else IBL.C04.Model.lf_name (if is_cbin then with_suffix ext_bin name else name).
